import ProductMD.Proofs.ForestInv
/-! `get_variants` and `__getitem__` on the variant forest (C11): sorting, filters, completeness, lookups. -/
namespace PM.Forest

/-! ### the stable sort by UID -/

abbrev uidLe (U : Nat → Attrs) (a b : Nat) : Prop := (U a).uid ≤ (U b).uid

theorem insertByUid_perm (U : Nat → Attrs) (x : Nat) (l : List Nat) : (insertByUid U x l).Perm (x :: l) := by
  induction l with
  | nil => simp [insertByUid]
  | cons y ys ih =>
    unfold insertByUid
    by_cases h : (U x).uid ≤ (U y).uid
    · simp [h]
    · simp only [h, if_false]
      exact (List.Perm.cons y ih).trans (List.Perm.swap x y ys)

theorem sortByUid_perm (U : Nat → Attrs) (l : List Nat) : (sortByUid U l).Perm l := by
  induction l with
  | nil => simp [sortByUid]
  | cons x xs ih =>
    show (insertByUid U x (sortByUid U xs)).Perm (x :: xs)
    exact (insertByUid_perm U x _).trans (List.Perm.cons x ih)

theorem mem_sortByUid {U : Nat → Attrs} {l : List Nat} {x : Nat} : x ∈ sortByUid U l ↔ x ∈ l :=
  (sortByUid_perm U l).mem_iff

theorem insertByUid_sorted (U : Nat → Attrs) (x : Nat) (l : List Nat) (h : l.Pairwise (uidLe U)) :
    (insertByUid U x l).Pairwise (uidLe U) := by
  induction l with
  | nil => simp [insertByUid]
  | cons y ys ih =>
    unfold insertByUid
    have hy := List.pairwise_cons.mp h
    by_cases hxy : (U x).uid ≤ (U y).uid
    · simp only [hxy, if_true]
      refine List.pairwise_cons.mpr ⟨?_, h⟩
      intro z hz
      rcases List.mem_cons.mp hz with rfl | hz
      · exact hxy
      · exact List.le_trans hxy (hy.1 z hz)
    · simp only [hxy, if_false]
      refine List.pairwise_cons.mpr ⟨?_, ih hy.2⟩
      intro z hz
      rcases List.mem_cons.mp ((insertByUid_perm U x ys).mem_iff.mp hz) with rfl | hz
      · rcases List.le_total (U z).uid (U y).uid with h1 | h1
        · exact absurd h1 hxy
        · exact h1
      · exact hy.1 z hz

theorem sortByUid_sorted (U : Nat → Attrs) (l : List Nat) : (sortByUid U l).Pairwise (uidLe U) := by
  induction l with
  | nil => simp [sortByUid]
  | cons x xs ih => exact insertByUid_sorted U x _ ih

/-! ### the loop over the children -/

theorem gvKids_ok {one : Nat → Except Err (List Nat)} : ∀ {l : List (Str × Nat)} {body : List Nat},
    gvKids one l = .ok body →
    (∀ kv ∈ l, ∃ a, one kv.2 = .ok a) ∧ (∀ x, x ∈ body ↔ ∃ kv ∈ l, ∃ a, one kv.2 = .ok a ∧ x ∈ a) := by
  intro l
  induction l with
  | nil => intro body h; simp [gvKids] at h; subst h; simp
  | cons kv r ih =>
    intro body h
    unfold gvKids at h
    cases h1 : one kv.2 with
    | error e => simp [h1] at h
    | ok a =>
      cases h2 : gvKids one r with
      | error e => simp [h1, h2] at h
      | ok b =>
        simp [h1, h2] at h
        subst h
        obtain ⟨ihA, ihB⟩ := ih h2
        constructor
        · intro kv' hkv'
          rcases List.mem_cons.mp hkv' with rfl | hkv'
          · exact ⟨a, h1⟩
          · exact ihA kv' hkv'
        · intro x
          constructor
          · intro hx
            rcases List.mem_append.mp hx with hx | hx
            · exact ⟨kv, by simp, a, h1, hx⟩
            · obtain ⟨kv', hm, a', ha', hx'⟩ := (ihB x).mp hx
              exact ⟨kv', List.mem_cons_of_mem _ hm, a', ha', hx'⟩
          · rintro ⟨kv', hm, a', ha', hx'⟩
            rcases List.mem_cons.mp hm with rfl | hm
            · rw [h1] at ha'; cases ha'; exact List.mem_append_left _ hx'
            · exact List.mem_append_right _ ((ihB x).mpr ⟨kv', hm, a', ha', hx'⟩)

/-- `x` is a variant of the level below container `c` (`kid`) or of the forest below it (`deep`) -/
inductive Desc (s : State) : Cont → Nat → Prop
  | kid {c : Cont} {k : Str} {v : Nat} : (k, v) ∈ s.kidsOf c → Desc s c v
  | deep {c : Cont} {k : Str} {w v : Nat} : (k, w) ∈ s.kidsOf c → Desc s (some w) v → Desc s c v

theorem selfT_not_type : selfT ∉ Gen.VARIANT_TYPES := by decide

theorem not_mem_filter_self (types : List Str) : selfT ∉ types.filter (· ≠ selfT) := by
  simp

/-- unfolding of one call -/
theorem getVariants_succ (U : Nat → Attrs) (s : State) (f : Nat) (c : Cont) (arch : Option Str) (types : List Str)
    (recursive : Bool) :
    getVariants U s (f + 1) c arch types recursive =
      match gvKids (fun v =>
        if passes U arch types v then
          if recursive then
            match getVariants U s f (some v) arch (types.filter (· ≠ selfT)) true with
            | .ok sub => .ok (v :: sub)
            | .error e => .error e
          else .ok [v]
        else .ok []) (s.kidsOf c) with
      | .error e => .error e
      | .ok body =>
        if types.contains selfT then
          match c with
          | none => .error .attributeError
          | some i => .ok (sortByUid U (i :: body))
        else .ok (sortByUid U body) := rfl

/-- what a successful call returned, in terms of the unsorted `body` collected from the children -/
theorem getVariants_ok {U : Nat → Attrs} {s : State} {f : Nat} {c : Cont} {arch : Option Str} {types : List Str}
    {recursive : Bool} {res : List Nat} (h : getVariants U s (f + 1) c arch types recursive = .ok res) :
    ∃ body, gvKids (fun v =>
        if passes U arch types v then
          if recursive then
            match getVariants U s f (some v) arch (types.filter (· ≠ selfT)) true with
            | .ok sub => .ok (v :: sub)
            | .error e => .error e
          else .ok [v]
        else .ok []) (s.kidsOf c) = .ok body ∧
      ((types.contains selfT = true ∧ ∃ i, c = some i ∧ res = sortByUid U (i :: body)) ∨
       (types.contains selfT = false ∧ res = sortByUid U body)) := by
  rw [getVariants_succ] at h
  split at h
  · simp at h
  · rename_i body hb
    refine ⟨body, hb, ?_⟩
    by_cases hs : types.contains selfT = true
    · simp only [hs, if_true] at h
      cases c with
      | none => simp at h
      | some i => simp at h; exact Or.inl ⟨hs, i, rfl, h.symm⟩
    · simp only [hs] at h
      simp at h
      exact Or.inr ⟨by simpa using hs, h.symm⟩

/-- what one child contributes -/
theorem one_ok {U : Nat → Attrs} {s : State} {f : Nat} {arch : Option Str} {types : List Str} {recursive : Bool}
    {v : Nat} {a : List Nat}
    (h : (if passes U arch types v then
          if recursive then
            match getVariants U s f (some v) arch (types.filter (· ≠ selfT)) true with
            | .ok sub => .ok (v :: sub)
            | .error e => .error e
          else .ok [v]
        else (.ok [] : Except Err (List Nat))) = .ok a) :
    (passes U arch types v = false ∧ a = []) ∨
    (passes U arch types v = true ∧ recursive = false ∧ a = [v]) ∨
    (passes U arch types v = true ∧ recursive = true ∧
      ∃ sub, getVariants U s f (some v) arch (types.filter (· ≠ selfT)) true = .ok sub ∧ a = v :: sub) := by
  by_cases hp : passes U arch types v = true
  · simp only [hp, if_true] at h
    cases recursive with
    | false => simp at h; exact Or.inr (Or.inl ⟨hp, rfl, by first | exact h | exact h.symm⟩)
    | true =>
      simp only [if_true] at h
      cases hr : getVariants U s f (some v) arch (types.filter (· ≠ selfT)) true with
      | error e => rw [hr] at h; simp at h
      | ok sub => rw [hr] at h; simp at h; exact Or.inr (Or.inr ⟨hp, rfl, sub, rfl, by first | exact h | exact h.symm⟩)
  · simp only [hp] at h
    simp at h
    exact Or.inl ⟨by simpa using hp, by first | exact h | exact h.symm⟩

theorem passes_of_filter {U : Nat → Attrs} {arch : Option Str} {types : List Str} {x : Nat}
    (h : passes U arch (types.filter (· ≠ selfT)) x = true)
    (hne : types = [] ∨ types.filter (· ≠ selfT) ≠ []) : passes U arch types x = true := by
  unfold passes at h ⊢
  simp only [Bool.and_eq_true, Bool.or_eq_true] at h ⊢
  refine ⟨?_, h.2⟩
  rcases h.1 with h1 | h1
  · rcases hne with h2 | h2
    · subst h2; simp
    · exfalso; apply h2; simpa using h1
  · right
    simp only [List.contains_iff_mem] at h1 ⊢
    exact (List.mem_filter.mp h1).1

/-- **filters are sound**: whatever `get_variants` returns is the receiver itself (only when `'self'` was asked for) or a
variant below the container that passes the type and arch filter -/
theorem gv_sound {U : Nat → Attrs} {s : State} (hI : InvW U s) : ∀ (f : Nat) (c : Cont) (arch : Option Str)
    (types : List Str) (recursive : Bool) (res : List Nat),
    getVariants U s f c arch types recursive = .ok res →
    ∀ x ∈ res, (c = some x ∧ selfT ∈ types) ∨ (Desc s c x ∧ passes U arch types x = true) := by
  intro f
  induction f with
  | zero => intro c arch types recursive res h; simp [getVariants] at h
  | succ f ih =>
    intro c arch types recursive res h x hx
    obtain ⟨body, hb, hres⟩ := getVariants_ok h
    have hbody : x ∈ body → Desc s c x ∧ passes U arch types x = true := by
      intro hxb
      obtain ⟨kv, hkv, a, ha, hxa⟩ := ((gvKids_ok hb).2 x).mp hxb
      rcases one_ok ha with ⟨-, rfl⟩ | ⟨hp, -, rfl⟩ | ⟨hp, -, sub, hsub, rfl⟩
      · simp at hxa
      · simp at hxa; subst hxa; exact ⟨Desc.kid hkv, hp⟩
      · rcases List.mem_cons.mp hxa with rfl | hxs
        · exact ⟨Desc.kid hkv, hp⟩
        · rcases ih (some kv.2) arch _ true sub hsub x hxs with ⟨-, hself⟩ | ⟨hd, hpx⟩
          · exact absurd hself (not_mem_filter_self types)
          · refine ⟨Desc.deep hkv hd, passes_of_filter hpx ?_⟩
            -- the child passed the type filter and its type is not 'self'
            have hty : (U kv.2).type ≠ selfT := by
              intro e
              have := (hI.fields c kv.1 kv.2 hkv).type_ok
              rw [e] at this; exact selfT_not_type this
            unfold passes at hp
            simp only [Bool.and_eq_true, Bool.or_eq_true] at hp
            rcases hp.1 with h1 | h1
            · left; simpa using h1
            · right
              intro h0
              have hm : (U kv.2).type ∈ types.filter (· ≠ selfT) := by
                refine List.mem_filter.mpr ⟨by simpa using h1, by simpa using hty⟩
              rw [h0] at hm; simp at hm
    rcases hres with ⟨hs, i, rfl, rfl⟩ | ⟨-, rfl⟩
    · rcases List.mem_cons.mp (mem_sortByUid.mp hx) with rfl | hxb
      · exact Or.inl ⟨rfl, by simpa using hs⟩
      · exact Or.inr (hbody hxb)
    · exact Or.inr (hbody (mem_sortByUid.mp hx))

/-- the result is ordered by UID -/
theorem gv_sorted {U : Nat → Attrs} {s : State} {f : Nat} {c : Cont} {arch : Option Str} {types : List Str}
    {recursive : Bool} {res : List Nat} (h : getVariants U s f c arch types recursive = .ok res) :
    res.Pairwise (uidLe U) := by
  cases f with
  | zero => simp [getVariants] at h
  | succ f =>
    obtain ⟨body, -, hres⟩ := getVariants_ok h
    rcases hres with ⟨-, i, -, rfl⟩ | ⟨-, rfl⟩ <;> exact sortByUid_sorted U _

/-- an arch filter lets a variant through only if it lets its ancestors through (`arches ⊆ parent's`) -/
theorem passes_up {U : Nat → Attrs} {s : State} (hI : InvW U s) {arch : Option Str} {w x : Nat}
    (hd : Desc s (some w) x) (hp : passes U arch [] x = true) : passes U arch [] w = true := by
  generalize hc : some w = c at hd
  induction hd generalizing w with
  | kid hm =>
    subst hc
    have he := hI.edge w _ _ hm
    unfold passes at hp ⊢
    cases arch with
    | none => simp
    | some a =>
      simp only [List.isEmpty_nil, Bool.true_or, Bool.true_and, Bool.or_eq_true, List.contains_iff_mem, decide_eq_true_eq] at hp ⊢
      rcases hp with (h1 | h1) | h1
      · exact Or.inl (Or.inl h1)
      · exact Or.inl (Or.inr (he.arches a h1))
      · exact Or.inr h1
  | deep hm _ ih =>
    subst hc
    have h1 := ih hp rfl
    exact passes_up_edge hI hm h1
where
  passes_up_edge {U : Nat → Attrs} {s : State} (hI : InvW U s) {arch : Option Str} {w : Nat} {k : Str} {y : Nat}
      (hm : (k, y) ∈ s.kidsOf (some w)) (hp : passes U arch [] y = true) : passes U arch [] w = true := by
    have he := hI.edge w _ _ hm
    unfold passes at hp ⊢
    cases arch with
    | none => simp
    | some a =>
      simp only [List.isEmpty_nil, Bool.true_or, Bool.true_and, Bool.or_eq_true, List.contains_iff_mem, decide_eq_true_eq] at hp ⊢
      rcases hp with (h1 | h1) | h1
      · exact Or.inl (Or.inl h1)
      · exact Or.inl (Or.inr (he.arches a h1))
      · exact Or.inr h1

/-- **completeness without a type filter**: every variant of the level (every variant of the forest below the container
when `recursive`) that has the requested arch is returned; with no arch filter (or `'src'`) that is every variant -/
theorem gv_complete {U : Nat → Attrs} {s : State} (hI : InvW U s) : ∀ (f : Nat) (c : Cont) (arch : Option Str)
    (recursive : Bool) (res : List Nat),
    getVariants U s f c arch [] recursive = .ok res →
    ∀ x, passes U arch [] x = true →
      ((∃ k, (k, x) ∈ s.kidsOf c) → x ∈ res) ∧ (recursive = true → Desc s c x → x ∈ res) := by
  intro f
  induction f with
  | zero => intro c arch recursive res h; simp [getVariants] at h
  | succ f ih =>
    intro c arch recursive res h x hpx
    obtain ⟨body, hb, hres⟩ := getVariants_ok h
    have hres' : res = sortByUid U body := by
      rcases hres with ⟨hs, -⟩ | ⟨-, h2⟩
      · simp at hs
      · exact h2
    subst hres'
    have hkid : ∀ k, (k, x) ∈ s.kidsOf c → x ∈ body := by
      intro k hm
      obtain ⟨a, ha⟩ := (gvKids_ok hb).1 (k, x) hm
      refine ((gvKids_ok hb).2 x).mpr ⟨(k, x), hm, a, ha, ?_⟩
      rcases one_ok ha with ⟨hp, -⟩ | ⟨-, -, rfl⟩ | ⟨-, -, sub, -, rfl⟩
      · simp at hp; rw [hpx] at hp; simp at hp
      · simp
      · simp
    refine ⟨fun ⟨k, hm⟩ => mem_sortByUid.mpr (hkid k hm), ?_⟩
    intro hrec hd
    subst hrec
    apply mem_sortByUid.mpr
    cases hd with
    | kid hm => exact hkid _ hm
    | deep hm hd' =>
      rename_i k w
      have hpw : passes U arch [] w = true := passes_up hI hd' hpx
      obtain ⟨a, ha⟩ := (gvKids_ok hb).1 (k, w) hm
      refine ((gvKids_ok hb).2 x).mpr ⟨(k, w), hm, a, ha, ?_⟩
      rcases one_ok ha with ⟨hp, -⟩ | ⟨-, hr, -⟩ | ⟨-, -, sub, hsub, rfl⟩
      · simp at hp; rw [hpw] at hp; simp at hp
      · simp at hr
      · have := (ih (some w) arch true sub (by simpa using hsub) x hpx).2 rfl hd'
        exact List.mem_cons_of_mem _ this

/-! ### `__getitem__` -/

theorem split1_dash (a b : Str) (ha : '-' ∉ a) : Str.split1 '-' (a ++ '-' :: b) = [a, b] := by
  induction a with
  | nil => simp [Str.split1]
  | cons c a ih =>
    have hc : c ≠ '-' := by intro e; apply ha; simp [e]
    have ha' : '-' ∉ a := by intro e; apply ha; simp [e]
    simp only [List.cons_append, Str.split1, hc, if_false]
    rw [ih ha']

theorem contains_dash (a b : Str) : (a ++ '-' :: b).contains '-' = true := by simp

theorem removeChar_of_not_mem {c : Char} {u : Str} (h : c ∉ u) : Str.removeChar c u = u := by
  unfold Str.removeChar
  apply List.filter_eq_self.mpr
  intro x hx
  simp only [ne_eq, decide_not, Bool.not_eq_true', decide_eq_false_iff_not]
  intro e; subst e; exact h hx

theorem getitemF_succ (U : Nat → Attrs) (s : State) (f : Nat) (c : Cont) (name : Str) :
    getitemF U s (f + 1) c name =
      if (dget name (s.kidsOf c)).isNone && name.contains '-' then
        match (s.kidsOf c).find? (fun kv => (U kv.2).uid = name) with
        | some kv => .ok kv.2
        | none =>
          match Str.split1 '-' name with
          | [head, tail] =>
            match dget head (s.kidsOf c) with
            | none => .error .keyError
            | some h => getitemF U s f (some h) tail
          | _ => .error .valueError
      else
        match dget name (s.kidsOf c) with
        | some v => .ok v
        | none => .error .keyError := rfl

/-- a key of a dict returns its value (the first branch of `__getitem__` is not taken) -/
theorem getitemF_key {U : Nat → Attrs} {s : State} {f : Nat} {c : Cont} {k : Str} {v : Nat}
    (hn : ((s.kidsOf c).map (·.1)).Nodup) (hm : (k, v) ∈ s.kidsOf c) : getitemF U s (f + 1) c k = .ok v := by
  rw [getitemF_succ, dget_of_mem hn hm]
  simp

/-- `v` is reached from variant `a` along the relative dashed path `r` (ids of the variants below `a`, joined by dashes) -/
inductive Path (U : Nat → Attrs) (s : State) : Nat → Str → Nat → Prop
  | kid {a : Nat} {k : Str} {v : Nat} : (k, v) ∈ s.kids a → Path U s a (U v).id v
  | deep {a : Nat} {k : Str} {w : Nat} {r : Str} {v : Nat} :
      (k, w) ∈ s.kids a → Path U s w r v → Path U s a ((U w).id ++ '-' :: r) v

theorem Path.uid {U : Nat → Attrs} {s : State} (hI : InvW U s) {a : Nat} {r : Str} {v : Nat} (hp : Path U s a r v) :
    (U v).uid = (U a).uid ++ '-' :: r := by
  induction hp with
  | kid hm => exact (hI.edge _ _ _ hm).uid
  | deep hm _ ih => rw [ih, (hI.edge _ _ _ hm).uid]; simp

theorem Path.desc {U : Nat → Attrs} {s : State} {a : Nat} {r : Str} {v : Nat} (hp : Path U s a r v) :
    Desc s (some a) v := by
  induction hp with
  | kid hm => exact Desc.kid hm
  | deep hm _ ih => exact Desc.deep hm ih

theorem Desc.path {U : Nat → Attrs} {s : State} {a v : Nat} (hd : Desc s (some a) v) : ∃ r, Path U s a r v := by
  generalize hc : some a = c at hd
  induction hd generalizing a with
  | kid hm => subst hc; exact ⟨_, Path.kid hm⟩
  | deep hm _ ih => subst hc; obtain ⟨r, hr⟩ := ih rfl; exact ⟨_, Path.deep hm hr⟩

/-- no child of an ancestor `a` of `v` carries, as its UID, the path of `v` relative to `a` (F20 otherwise) -/
def NoShadow (U : Nat → Attrs) (s : State) (v : Nat) : Prop :=
  ∀ a, Desc s (some a) v → ∀ kv ∈ s.kids a, (U a).uid ++ '-' :: (U kv.2).uid ≠ (U v).uid

/-- lookup of a relative path below a variant -/
theorem getitemF_path {U : Nat → Attrs} {s : State} (hI : InvW U s) {a : Nat} {r : Str} {v : Nat}
    (hp : Path U s a r v) : NoShadow U s v → ∀ f, r.length < f → getitemF U s f (some a) r = .ok v := by
  induction hp with
  | kid hm =>
    intro _ f hf
    cases f with
    | zero => omega
    | succ f =>
      have hk := (hI.edge _ _ _ hm).key
      subst hk
      exact getitemF_key (hI.keys (some _)) hm
  | @deep a k w r v hm hp' ih =>
    intro hns f hf
    cases f with
    | zero => omega
    | succ f =>
      have hw := hI.fields (some a) k w hm
      have huidv : (U v).uid = (U a).uid ++ '-' :: ((U w).id ++ '-' :: r) := (Path.deep hm hp').uid hI
      rw [getitemF_succ]
      -- the dashed name is not a key: keys are ids
      have hnk : dget ((U w).id ++ '-' :: r) (s.kidsOf (some a)) = none := by
        apply dget_none_of_not_mem
        intro hmem
        obtain ⟨kv, hkv, hkk⟩ := List.mem_map.mp hmem
        have h1 := (hI.edge a kv.1 kv.2 hkv).key
        have h2 := (hI.fields (some a) kv.1 kv.2 hkv).id_nodash
        apply h2
        rw [← h1, hkk]; simp
      -- no child has the relative path as UID
      have hscan : (s.kidsOf (some a)).find? (fun kv => (U kv.2).uid = (U w).id ++ '-' :: r) = none := by
        apply List.find?_eq_none.mpr
        intro kv hkv
        have := hns a (Path.deep hm hp').desc kv hkv
        rw [huidv] at this
        simp only [decide_eq_true_eq]
        intro e; apply this; rw [e]
      have hdw : dget (U w).id (s.kidsOf (some a)) = some w := by
        have hk := (hI.edge _ _ _ hm).key
        subst hk
        exact dget_of_mem (hI.keys (some a)) hm
      simp only [hnk, Option.isNone_none, contains_dash, Bool.and_self, if_true, hscan, split1_dash _ _ hw.id_nodash, hdw]
      apply ih hns
      simp at hf; omega

/-- **by UID from the top**, for a variant `v` at or below the top-level variant `t` -/
theorem getitem_top {U : Nat → Attrs} {s : State} (hI : InvW U s)
    (hkey : ∀ k t, (k, t) ∈ s.top → k = (U t).id ∨ k = (U t).uid)
    {kt : Str} {t v : Nat} (ht : (kt, t) ∈ s.top) (halign : Str.removeChar '-' (U t).uid = (U t).id)
    (hpath : v = t ∨ ∃ r, Path U s t r v)
    (hchild : '-' ∈ (U t).uid → s.kids t = [])
    (hdist : ∀ k' t', (k', t') ∈ s.top → (U t').uid = (U v).uid → t' = v)
    (hns : NoShadow U s v) : getitem U s none (U v).uid = .ok v := by
  unfold getitem
  rw [getitemF_succ]
  have hkeys := hI.keys none
  have hscan_some : ∀ kv, (s.kidsOf none).find? (fun kv => (U kv.2).uid = (U v).uid) = some kv → kv.2 = v := by
    intro kv hf
    have h1 := List.find?_some hf
    have h2 := List.mem_of_find?_eq_some hf
    exact hdist kv.1 kv.2 h2 (by simpa using h1)
  cases hd : dget (U v).uid (s.kidsOf none) with
  | some t' =>
    simp only [Option.isNone_some, Bool.false_and, Bool.false_eq_true, if_false]
    have hm' : ((U v).uid, t') ∈ s.top := dget_mem hd
    congr 1
    rcases hkey _ _ hm' with hk | hk
    · -- the name is the (dashless) id of t'
      have hnd : '-' ∉ (U v).uid := by rw [hk]; exact (hI.fields none _ _ hm').id_nodash
      rcases hpath with rfl | ⟨r, hr⟩
      · have h1 : (U v).id = (U v).uid := by rw [← halign, removeChar_of_not_mem hnd]
        have hkt : kt = (U v).uid := by
          rcases hkey _ _ ht with h2 | h2
          · rw [h2, h1]
          · exact h2
        subst hkt
        have := dget_of_mem hkeys ht
        rw [hd] at this; exact Option.some.inj this
      · exfalso; apply hnd; rw [hr.uid hI]; simp
    · exact hdist _ _ hm' hk.symm
  | none =>
    have hdash : (U v).uid.contains '-' = true := by
      rcases hpath with rfl | ⟨r, hr⟩
      · -- the key is the id and differs from the UID, so the UID is dashed
        have hkt : kt ≠ (U v).uid := by
          intro e; subst e
          have := dget_of_mem hkeys ht
          rw [hd] at this; cases this
        have hkid : kt = (U v).id := by
          rcases hkey _ _ ht with h2 | h2
          · exact h2
          · exact absurd h2 hkt
        simp only [List.contains_iff_mem]
        exact Classical.byContradiction fun hnd => hkt (by rw [hkid, ← halign, removeChar_of_not_mem hnd])
      · rw [hr.uid hI]; exact contains_dash _ _
    simp only [Option.isNone_none, hdash, Bool.and_self, if_true]
    cases hf : (s.kidsOf none).find? (fun kv => (U kv.2).uid = (U v).uid) with
    | some kv => simp only; rw [hscan_some kv hf]
    | none =>
      simp only
      rcases hpath with rfl | ⟨r, hr⟩
      · exfalso
        have := List.find?_eq_none.mp hf (kt, v) ht
        simp at this
      · have hkids : s.kids t ≠ [] := by
          cases hr with
          | kid hm => intro e; rw [e] at hm; simp at hm
          | deep hm _ => intro e; rw [e] at hm; simp at hm
        have hnd : '-' ∉ (U t).uid := fun h => hkids (hchild h)
        have hid : (U t).uid = (U t).id := by rw [← halign, removeChar_of_not_mem hnd]
        have hkt : kt = (U t).uid := by
          rcases hkey _ _ ht with h2 | h2
          · rw [h2, hid]
          · exact h2
        subst hkt
        rw [hr.uid hI, split1_dash _ _ hnd]
        simp only [dget_of_mem hkeys ht]
        apply getitemF_path hI hr hns
        simp; omega

end PM.Forest
