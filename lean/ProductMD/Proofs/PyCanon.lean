import ProductMD.Model.JsonRep
/-!
Facts about `PyVal.canon` (recursive key sorting, what `json.dump(sort_keys=True)` does) on JSON-representable
values: it is idempotent, commutes with item lookup, and yields a value Python-equal to the original.
-/
namespace PM.Mf
open PM

/-! ### structural equality is reflexive -/

mutual
theorem beq_refl (v : PyVal) : PyVal.beq v v = true := by
  cases v with
  | none => simp [PyVal.beq]
  | bool b => simp [PyVal.beq]
  | int n => simp [PyVal.beq]
  | float r => simp [PyVal.beq]
  | str s => simp [PyVal.beq]
  | list xs => simp only [PyVal.beq]; exact beqList_refl xs
  | dict kvs => simp only [PyVal.beq]; exact beqKvs_refl kvs
  | other t => simp [PyVal.beq]
theorem beqList_refl (xs : List PyVal) : PyVal.beqList xs xs = true := by
  cases xs with
  | nil => simp [PyVal.beqList]
  | cons x xs => simp only [PyVal.beqList, beq_refl x, beqList_refl xs, Bool.and_self]
theorem beqKvs_refl (kvs : List (Str × PyVal)) : PyVal.beqKvs kvs kvs = true := by
  cases kvs with
  | nil => simp [PyVal.beqKvs]
  | cons p rest =>
    obtain ⟨k, x⟩ := p
    simp only [PyVal.beqKvs, beq_refl x, beqKvs_refl rest, Bool.and_true]
    simp
end

/-! ### the key order -/

theorem strLt_irrefl (a : Str) : Str.lt a a = false := by
  simp [Str.lt, List.lt_irrefl]

/-- trichotomy, in the form used below -/
theorem strLt_of_not_lt_of_ne {a b : Str} (h : Str.lt a b = false) (hne : a ≠ b) : Str.lt b a = true := by
  simp only [Str.lt, decide_eq_false_iff_not, decide_eq_true_eq] at *
  apply Classical.byContradiction
  intro h2
  exact hne (List.le_antisymm (List.not_lt.mp h2) (List.not_lt.mp h))

/-! ### association lists: keys, lookup, insertion sort -/

/-- no key is bound twice -/
def uniqKeys : Kvs → Bool
  | [] => true
  | (k, _) :: rest => !(hasKey rest k) && uniqKeys rest

/-- strictly increasing keys (adjacent comparisons) -/
def sortedKeys : Kvs → Prop
  | [] => True
  | [_] => True
  | x :: y :: rest => Str.lt x.1 y.1 = true ∧ sortedKeys (y :: rest)

theorem hasKey_cons (p : Str × PyVal) (l : Kvs) (k : Str) : hasKey (p :: l) k = (p.1 == k || hasKey l k) := by
  obtain ⟨a, b⟩ := p; rfl

theorem lookup_cons (p : Str × PyVal) (l : Kvs) (k : Str) :
    lookup (p :: l) k = if p.1 == k then some p.2 else lookup l k := by
  obtain ⟨a, b⟩ := p; rfl

theorem uniqKeys_cons (p : Str × PyVal) (l : Kvs) : uniqKeys (p :: l) = (!(hasKey l p.1) && uniqKeys l) := by
  obtain ⟨a, b⟩ := p; rfl

theorem hasKey_insertKv (kv : Str × PyVal) (l : Kvs) (k : Str) :
    hasKey (PyVal.insertKv kv l) k = (kv.1 == k || hasKey l k) := by
  induction l with
  | nil => simp [PyVal.insertKv, hasKey_cons, hasKey]
  | cons x xs ih =>
    simp only [PyVal.insertKv]
    split
    · simp [hasKey_cons]
    · simp only [hasKey_cons, ih]
      cases (kv.1 == k) <;> cases (x.1 == k) <;> simp

theorem hasKey_sortKvs (l : Kvs) (k : Str) : hasKey (PyVal.sortKvs l) k = hasKey l k := by
  induction l with
  | nil => rfl
  | cons x xs ih =>
    show hasKey (PyVal.insertKv x (PyVal.sortKvs xs)) k = _
    rw [hasKey_insertKv, ih, hasKey_cons]

theorem lookup_insertKv (kv : Str × PyVal) (l : Kvs) (k : Str) (h : hasKey l kv.1 = false) :
    lookup (PyVal.insertKv kv l) k = if kv.1 == k then some kv.2 else lookup l k := by
  induction l with
  | nil => simp [PyVal.insertKv, lookup_cons, lookup]
  | cons x xs ih =>
    rw [hasKey_cons, Bool.or_eq_false_iff] at h
    simp only [PyVal.insertKv]
    split
    · simp [lookup_cons]
    · simp only [lookup_cons, ih h.2]
      have hx : ¬ x.1 = kv.1 := by simpa using h.1
      by_cases h1 : kv.1 = k
      · have : ¬ x.1 = k := by rw [← h1]; exact hx
        simp [h1, this]
      · simp [h1]

theorem lookup_sortKvs (l : Kvs) (k : Str) (h : uniqKeys l = true) : lookup (PyVal.sortKvs l) k = lookup l k := by
  induction l with
  | nil => rfl
  | cons x xs ih =>
    rw [uniqKeys_cons, Bool.and_eq_true] at h
    show lookup (PyVal.insertKv x (PyVal.sortKvs xs)) k = _
    rw [lookup_insertKv _ _ _ (by rw [hasKey_sortKvs]; simpa using h.1), ih h.2, lookup_cons]

theorem sortedKeys_tail {x : Str × PyVal} {l : Kvs} (h : sortedKeys (x :: l)) : sortedKeys l := by
  cases l with
  | nil => trivial
  | cons y r => exact h.2

theorem sortedKeys_insertKv (kv : Str × PyVal) (l : Kvs) (hk : hasKey l kv.1 = false) (hs : sortedKeys l) :
    sortedKeys (PyVal.insertKv kv l) := by
  induction l with
  | nil => simp [PyVal.insertKv, sortedKeys]
  | cons x xs ih =>
    rw [hasKey_cons, Bool.or_eq_false_iff] at hk
    simp only [PyVal.insertKv]
    split
    · rename_i hlt
      exact ⟨hlt, hs⟩
    · rename_i hlt
      have hx : x.1 ≠ kv.1 := by simpa using hk.1
      have hxlt : Str.lt x.1 kv.1 = true :=
        strLt_of_not_lt_of_ne (by simpa using hlt) (fun e => hx e.symm)
      have ih' := ih hk.2 (sortedKeys_tail hs)
      cases xs with
      | nil => simp only [PyVal.insertKv]; exact ⟨hxlt, trivial⟩
      | cons y r =>
        simp only [PyVal.insertKv] at ih' ⊢
        split
        · rename_i h2
          rw [if_pos h2] at ih'
          exact ⟨hxlt, ih'⟩
        · rename_i h2
          rw [if_neg h2] at ih'
          exact ⟨hs.1, ih'⟩

theorem sortedKeys_sortKvs (l : Kvs) (h : uniqKeys l = true) : sortedKeys (PyVal.sortKvs l) := by
  induction l with
  | nil => trivial
  | cons x xs ih =>
    rw [uniqKeys_cons, Bool.and_eq_true] at h
    show sortedKeys (PyVal.insertKv x (PyVal.sortKvs xs))
    exact sortedKeys_insertKv _ _ (by rw [hasKey_sortKvs]; simpa using h.1) (ih h.2)

/-- sorting a sorted list changes nothing -/
theorem sortKvs_of_sortedKeys (l : Kvs) (h : sortedKeys l) : PyVal.sortKvs l = l := by
  induction l with
  | nil => rfl
  | cons x xs ih =>
    show PyVal.insertKv x (PyVal.sortKvs xs) = _
    rw [ih (sortedKeys_tail h)]
    cases xs with
    | nil => rfl
    | cons y r => simp only [PyVal.insertKv]; rw [if_pos h.1]

/-! ### `canonKvs` keeps the keys -/

theorem canonKvs_cons (p : Str × PyVal) (l : Kvs) :
    PyVal.canonKvs (p :: l) = (p.1, PyVal.canon p.2) :: PyVal.canonKvs l := by
  obtain ⟨a, b⟩ := p; simp [PyVal.canonKvs]

theorem hasKey_canonKvs (l : Kvs) (k : Str) : hasKey (PyVal.canonKvs l) k = hasKey l k := by
  induction l with
  | nil => simp [PyVal.canonKvs]
  | cons x xs ih => rw [canonKvs_cons, hasKey_cons, hasKey_cons, ih]

theorem lookup_canonKvs (l : Kvs) (k : Str) : lookup (PyVal.canonKvs l) k = (lookup l k).map PyVal.canon := by
  induction l with
  | nil => simp [PyVal.canonKvs, lookup]
  | cons x xs ih =>
    rw [canonKvs_cons, lookup_cons, lookup_cons, ih]
    split <;> simp

theorem uniqKeys_canonKvs (l : Kvs) : uniqKeys (PyVal.canonKvs l) = uniqKeys l := by
  induction l with
  | nil => simp [PyVal.canonKvs]
  | cons x xs ih => rw [canonKvs_cons, uniqKeys_cons, uniqKeys_cons, ih, hasKey_canonKvs]

theorem jsonRepKvs_cons (p : Str × PyVal) (l : Kvs) :
    jsonRepKvs (p :: l) = (!(hasKey l p.1) && jsonRep p.2 && jsonRepKvs l) := by
  obtain ⟨a, b⟩ := p; simp [jsonRepKvs]

theorem uniqKeys_of_jsonRepKvs (l : Kvs) (h : jsonRepKvs l = true) : uniqKeys l = true := by
  induction l with
  | nil => rfl
  | cons x xs ih =>
    rw [jsonRepKvs_cons] at h
    simp only [Bool.and_eq_true] at h
    rw [uniqKeys_cons, Bool.and_eq_true]
    exact ⟨h.1.1, ih h.2⟩

/-- lookup in a key-sorted dict body -/
theorem lookup_sortKvs_canonKvs (kvs : Kvs) (k : Str) (h : jsonRepKvs kvs = true) :
    lookup (PyVal.sortKvs (PyVal.canonKvs kvs)) k = (lookup kvs k).map PyVal.canon := by
  rw [lookup_sortKvs _ _ (by rw [uniqKeys_canonKvs]; exact uniqKeys_of_jsonRepKvs _ h), lookup_canonKvs]

/-! ### `jsonRep` survives key sorting -/

theorem jsonRepKvs_insertKv (kv : Str × PyVal) (l : Kvs) (hk : hasKey l kv.1 = false)
    (hv : jsonRep kv.2 = true) (hl : jsonRepKvs l = true) : jsonRepKvs (PyVal.insertKv kv l) = true := by
  induction l with
  | nil => simp [PyVal.insertKv, jsonRepKvs_cons, hv, hasKey, jsonRepKvs]
  | cons x xs ih =>
    rw [hasKey_cons, Bool.or_eq_false_iff] at hk
    simp only [PyVal.insertKv]
    split
    · rw [jsonRepKvs_cons, hasKey_cons, hk.1, hk.2, hv, hl]; rfl
    · rw [jsonRepKvs_cons] at hl
      simp only [Bool.and_eq_true] at hl
      rw [jsonRepKvs_cons, hasKey_insertKv, ih hk.2 hl.2, hl.1.2]
      have hx : ¬ x.1 = kv.1 := by simpa using hk.1
      have hx' : (kv.1 == x.1) = false := by simpa using (fun e => hx e.symm)
      have h3 : hasKey xs x.1 = false := by simpa using hl.1.1
      rw [hx', h3]; rfl

theorem jsonRepKvs_sortKvs (l : Kvs) (h : jsonRepKvs l = true) : jsonRepKvs (PyVal.sortKvs l) = true := by
  induction l with
  | nil => rfl
  | cons x xs ih =>
    rw [jsonRepKvs_cons] at h
    simp only [Bool.and_eq_true] at h
    show jsonRepKvs (PyVal.insertKv x (PyVal.sortKvs xs)) = true
    exact jsonRepKvs_insertKv _ _ (by rw [hasKey_sortKvs]; simpa using h.1.1) h.1.2 (ih h.2)

mutual
theorem jsonRep_canon (v : PyVal) (h : jsonRep v = true) : jsonRep (PyVal.canon v) = true := by
  cases v with
  | none => simpa [PyVal.canon] using h
  | bool b => simpa [PyVal.canon] using h
  | int n => simpa [PyVal.canon] using h
  | float r => simpa [PyVal.canon] using h
  | str s => simpa [PyVal.canon] using h
  | other t => simpa [PyVal.canon] using h
  | list xs =>
    simp only [jsonRep] at h
    simp only [PyVal.canon, jsonRep]
    exact jsonRepList_canonList xs h
  | dict kvs =>
    simp only [jsonRep] at h
    simp only [PyVal.canon, jsonRep]
    exact jsonRepKvs_sortKvs _ (jsonRepKvs_canonKvs kvs h)
theorem jsonRepList_canonList (xs : List PyVal) (h : jsonRepList xs = true) :
    jsonRepList (PyVal.canonList xs) = true := by
  cases xs with
  | nil => simp [PyVal.canonList, jsonRepList]
  | cons x xs =>
    simp only [jsonRepList, Bool.and_eq_true] at h
    simp only [PyVal.canonList, jsonRepList, Bool.and_eq_true]
    exact ⟨jsonRep_canon x h.1, jsonRepList_canonList xs h.2⟩
theorem jsonRepKvs_canonKvs (kvs : List (Str × PyVal)) (h : jsonRepKvs kvs = true) :
    jsonRepKvs (PyVal.canonKvs kvs) = true := by
  cases kvs with
  | nil => simp [PyVal.canonKvs, jsonRepKvs]
  | cons p rest =>
    obtain ⟨k, v⟩ := p
    simp only [jsonRepKvs, Bool.and_eq_true] at h
    simp only [PyVal.canonKvs, jsonRepKvs, Bool.and_eq_true, hasKey_canonKvs]
    exact ⟨⟨h.1.1, jsonRep_canon v h.1.2⟩, jsonRepKvs_canonKvs rest h.2⟩
end

/-! ### canonical values: every dict inside has strictly increasing keys -/

mutual
def Canonical : PyVal → Prop
  | .list xs => CanonicalList xs
  | .dict kvs => sortedKeys kvs ∧ CanonicalKvs kvs
  | _ => True
def CanonicalList : List PyVal → Prop
  | [] => True
  | x :: xs => Canonical x ∧ CanonicalList xs
def CanonicalKvs : List (Str × PyVal) → Prop
  | [] => True
  | (_, v) :: rest => Canonical v ∧ CanonicalKvs rest
end

theorem canonicalKvs_cons (p : Str × PyVal) (l : Kvs) :
    CanonicalKvs (p :: l) ↔ (Canonical p.2 ∧ CanonicalKvs l) := by
  obtain ⟨a, b⟩ := p; simp [CanonicalKvs]

theorem canonicalKvs_insertKv (kv : Str × PyVal) (l : Kvs) (hv : Canonical kv.2) (hl : CanonicalKvs l) :
    CanonicalKvs (PyVal.insertKv kv l) := by
  induction l with
  | nil => simp only [PyVal.insertKv]; exact (canonicalKvs_cons _ _).2 ⟨hv, hl⟩
  | cons x xs ih =>
    simp only [PyVal.insertKv]
    split
    · exact (canonicalKvs_cons _ _).2 ⟨hv, hl⟩
    · rw [canonicalKvs_cons] at hl
      exact (canonicalKvs_cons _ _).2 ⟨hl.1, ih hl.2⟩

theorem canonicalKvs_sortKvs (l : Kvs) (h : CanonicalKvs l) : CanonicalKvs (PyVal.sortKvs l) := by
  induction l with
  | nil => exact h
  | cons x xs ih =>
    rw [canonicalKvs_cons] at h
    show CanonicalKvs (PyVal.insertKv x (PyVal.sortKvs xs))
    exact canonicalKvs_insertKv _ _ h.1 (ih h.2)

mutual
/-- key sorting leaves a canonical value alone -/
theorem canon_of_canonical (v : PyVal) (h : Canonical v) : PyVal.canon v = v := by
  cases v with
  | none => simp [PyVal.canon]
  | bool b => simp [PyVal.canon]
  | int n => simp [PyVal.canon]
  | float r => simp [PyVal.canon]
  | str s => simp [PyVal.canon]
  | other t => simp [PyVal.canon]
  | list xs =>
    simp only [Canonical] at h
    simp only [PyVal.canon, canonList_of_canonical xs h]
  | dict kvs =>
    simp only [Canonical] at h
    simp only [PyVal.canon, canonKvs_of_canonical kvs h.2, sortKvs_of_sortedKeys kvs h.1]
theorem canonList_of_canonical (xs : List PyVal) (h : CanonicalList xs) : PyVal.canonList xs = xs := by
  cases xs with
  | nil => simp [PyVal.canonList]
  | cons x xs =>
    simp only [CanonicalList] at h
    simp only [PyVal.canonList, canon_of_canonical x h.1, canonList_of_canonical xs h.2]
theorem canonKvs_of_canonical (kvs : List (Str × PyVal)) (h : CanonicalKvs kvs) : PyVal.canonKvs kvs = kvs := by
  cases kvs with
  | nil => simp [PyVal.canonKvs]
  | cons p rest =>
    obtain ⟨k, v⟩ := p
    simp only [CanonicalKvs] at h
    simp only [PyVal.canonKvs, canon_of_canonical v h.1, canonKvs_of_canonical rest h.2]
end

mutual
/-- key sorting of a JSON-representable value gives a canonical value -/
theorem canonical_canon (v : PyVal) (h : jsonRep v = true) : Canonical (PyVal.canon v) := by
  cases v with
  | none => simp [PyVal.canon, Canonical]
  | bool b => simp [PyVal.canon, Canonical]
  | int n => simp [PyVal.canon, Canonical]
  | float r => simp [PyVal.canon, Canonical]
  | str s => simp [PyVal.canon, Canonical]
  | other t => simp [PyVal.canon, Canonical]
  | list xs =>
    simp only [jsonRep] at h
    simp only [PyVal.canon, Canonical]
    exact canonicalList_canonList xs h
  | dict kvs =>
    simp only [jsonRep] at h
    simp only [PyVal.canon, Canonical]
    exact ⟨sortedKeys_sortKvs _ (by rw [uniqKeys_canonKvs]; exact uniqKeys_of_jsonRepKvs _ h),
      canonicalKvs_sortKvs _ (canonicalKvs_canonKvs kvs h)⟩
theorem canonicalList_canonList (xs : List PyVal) (h : jsonRepList xs = true) :
    CanonicalList (PyVal.canonList xs) := by
  cases xs with
  | nil => simp [PyVal.canonList, CanonicalList]
  | cons x xs =>
    simp only [jsonRepList, Bool.and_eq_true] at h
    simp only [PyVal.canonList, CanonicalList]
    exact ⟨canonical_canon x h.1, canonicalList_canonList xs h.2⟩
theorem canonicalKvs_canonKvs (kvs : List (Str × PyVal)) (h : jsonRepKvs kvs = true) :
    CanonicalKvs (PyVal.canonKvs kvs) := by
  cases kvs with
  | nil => simp [PyVal.canonKvs, CanonicalKvs]
  | cons p rest =>
    obtain ⟨k, v⟩ := p
    simp only [jsonRepKvs, Bool.and_eq_true] at h
    simp only [PyVal.canonKvs, CanonicalKvs]
    exact ⟨canonical_canon v h.1.2, canonicalKvs_canonKvs rest h.2⟩
end

/-! ### the statements -/

/-- sorting keys twice is sorting once (needs: no dict binds a key twice) -/
theorem canon_idem (v : PyVal) (h : jsonRep v = true) : PyVal.canon (PyVal.canon v) = PyVal.canon v :=
  canon_of_canonical _ (canonical_canon v h)

/-- `d[k]` after key sorting is the key-sorted `d[k]` -/
theorem getItem_canon (v : PyVal) (k : Str) (h : jsonRep v = true) :
    getItem (PyVal.canon v) k = (getItem v k).map PyVal.canon := by
  cases v with
  | none => rfl
  | bool b => rfl
  | int n => rfl
  | float r => rfl
  | str s => rfl
  | other t => rfl
  | list xs => simp only [PyVal.canon, getItem]; rfl
  | dict kvs =>
    simp only [jsonRep] at h
    simp only [PyVal.canon, getItem, lookup_sortKvs_canonKvs kvs k h]
    cases lookup kvs k <;> rfl

/-- `d.get(k, dflt)` after key sorting, for a default that sorting does not change -/
theorem dictGetD_canon (v : PyVal) (k : Str) (d : PyVal) (hd : PyVal.canon d = d) (h : jsonRep v = true) :
    dictGetD (PyVal.canon v) k d = (dictGetD v k d).map PyVal.canon := by
  cases v with
  | none => rfl
  | bool b => rfl
  | int n => rfl
  | float r => rfl
  | str s => rfl
  | other t => rfl
  | list xs => simp only [PyVal.canon, dictGetD]; rfl
  | dict kvs =>
    simp only [jsonRep] at h
    simp only [PyVal.canon, dictGetD, lookup_sortKvs_canonKvs kvs k h]
    cases lookup kvs k with
    | none => simp [Except.map, hd]
    | some x => simp [Except.map]

/-- the re-read value is Python-equal (`==`, dict order irrelevant) to the original -/
theorem pyEq_canon (v : PyVal) (h : jsonRep v = true) : PyVal.pyEq (PyVal.canon v) v = true := by
  unfold PyVal.pyEq
  rw [canon_idem v h]
  exact beq_refl _

end PM.Mf
