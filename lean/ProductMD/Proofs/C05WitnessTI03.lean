import ProductMD.Proofs.C05WitnessTI
/-!
C05: every carried hypothesis of `C05_ti_idempotent` holds of the 0.3 witness (non-vacuity, evaluated in the kernel).
-/
set_option Elab.async false
namespace PM
open PM.TI PM.Ini

/-- the tree the witness loads to -/
def wT03 : TreeInfo := match TI.Legacy.deserialize intOracle wTI03 with | .ok t => t | .error _ => C04_exTree

example : TI.Legacy.deserialize intOracle wTI03 = .ok wT03 := by
  unfold wT03
  split
  · assumption
  · rename_i h
    have : (TI.Legacy.deserialize intOracle wTI03).toBool = true := by decide +kernel
    rw [h] at this; cases this
example : (∀ n, wT03.tree.ts = .int n → intOracle.intOfFloatStr (Str.intStr n) = .ok n) := by
  intro n hn
  have : wT03.tree.ts = .int 123 := by decide +kernel
  rw [this] at hn; injection hn with hn; subst hn; decide +kernel
example : PlatformsOK wT03.tree ∧ UidsOK wT03.variants ∧ UidsNodup wT03.variants ∧ TopNotAddon wT03.variants
    ∧ (∀ p ∈ wT03.images, platformOf wT03.tree.arch (pImages ++ p.1) = p.1) := by decide +kernel
example : (serialize wT03 none).toOption.map IniText.Representable = some true
    ∧ (∀ c ∈ wT03.checksums, nc c.1 = true) ∧ (∀ p ∈ wT03.images, ∀ kv ∈ p.2, nc kv.1 = true) := by decide +kernel
example : ReadValid (norm wT03) := by
  have hn : norm (norm wT03) = norm wT03 := by decide +kernel
  cases hs : serialize (norm wT03) none with
  | error e => have : (serialize (norm wT03) none).toBool = true := by decide +kernel
               rw [hs] at this; cases this
  | ok d => exact readValid_of_normal (serialize_valid hs) hn

end PM
