import ProductMD.Model.RpmsLegacy
import ProductMD.Proofs.ManifestIO
/-!
C05, rpms: what a load through `deserializeL` (any version) has built.

* a 0.3 manifest is replayed through `Rpms.add` from the empty mapping, so the result is JSON-representable
  (`jsonRep`: what the C03 round-trip theorem needs), whatever the document contained;
* the compose section validates (both readers end with `validate()`);
* `deserializeL` is `deserialize` wherever the C03 model answers.
-/
namespace PM.Mf
open PM.PyOps (iter subscript item pyEq)
set_option Elab.async false

theorem addDyn_jsonRep (s s' : PyVal) (variant arch nevra : Str) (path sigkey category : PyVal) (srpm : Option Str)
    (hs : jsonRep s = true) (h : addDyn s variant arch nevra path sigkey category srpm = .ok s') : jsonRep s' = true := by
  unfold addDyn at h
  by_cases c1 : (!Gen.RPM_ARCHES.contains arch) = true
  · rw [if_pos c1] at h; cases h
  rw [if_neg c1] at h
  by_cases c2 : srcArches.contains arch = true
  · rw [if_pos c2] at h; cases h
  rw [if_neg c2] at h
  cases category <;> try (cases h; done)
  rename_i cat
  dsimp only at h
  by_cases c3 : (!Gen.SUPPORTED_CATEGORIES.contains cat) = true
  · rw [if_pos c3] at h; cases h
  rw [if_neg c3] at h
  by_cases c4 : (!path.truthy) = true
  · rw [if_pos c4] at h; cases h
  rw [if_neg c4] at h
  cases path <;> try (cases h; done)
  rename_i p
  dsimp only at h
  have key : ∀ sk : Option Str, (match Rpms.add s { variant, arch, nevra, path := p, sigkey := sk, category := cat, srpm } with
      | (s', .ok ()) => (.ok s' : Except Err PyVal)
      | (_, .error e) => .error e) = .ok s' → jsonRep s' = true := by
    intro sk hk
    have hj := rpms_add_jsonRep s { variant, arch, nevra, path := p, sigkey := sk, category := cat, srpm } hs
    cases hadd : Rpms.add s { variant, arch, nevra, path := p, sigkey := sk, category := cat, srpm } with
    | mk s1 out =>
      rw [hadd] at hk hj
      cases out with
      | ok u => cases u; dsimp only at hk; injection hk with hk; subst hk; exact hj
      | error e => cases hk
  cases sigkey <;> try (cases h; done)
  · exact key none h
  · rename_i k; exact key (some k) h

theorem loadRpms03_jsonRep (variant arch srpm : Str) (srpmData : PyVal) :
    ∀ (l : List (Str × PyVal)) (s s' : PyVal), jsonRep s = true → loadRpms03 variant arch srpm srpmData l s = .ok s' →
      jsonRep s' = true := by
  intro l
  induction l with
  | nil => intro s s' hs h; simp only [loadRpms03] at h; injection h with h; subst h; exact hs
  | cons nd rest ih =>
    intro s s' hs h
    obtain ⟨nevra, data⟩ := nd
    unfold loadRpms03 at h
    cases h1 : item data (lit "type") with
    | error e => rw [h1] at h; cases h
    | ok cat0 =>
    rw [h1] at h; dsimp only at h
    cases h2 : item data (lit "path") with
    | error e => rw [h2] at h; cases h
    | ok path =>
    rw [h2] at h; dsimp only at h
    cases h3 : item data (lit "sigkey") with
    | error e => rw [h3] at h; cases h
    | ok sigkey =>
    rw [h3] at h; dsimp only at h
    cases h4 : addDyn s variant arch nevra path sigkey (if pyEq cat0 (.str sPackage) then .str sBinary else cat0) (some srpm) with
    | error e => rw [h4] at h; cases h
    | ok s1 =>
    rw [h4] at h; dsimp only at h
    have hs1 := addDyn_jsonRep _ _ _ _ _ _ _ _ _ hs h4
    have hs2 : ∀ s2, (match srpmData with
           | .none => (.ok s1 : Except Err PyVal)
           | sd =>
             match item sd (lit "path") with
             | .error e => .error e
             | .ok sp =>
             match item sd (lit "sigkey") with
             | .error e => .error e
             | .ok sk => addDyn s1 variant arch srpm sp sk (.str sSource) none) = .ok s2 → jsonRep s2 = true := by
      intro s2 h5
      split at h5
      · injection h5 with h5; subst h5; exact hs1
      · cases h6 : item srpmData (lit "path") with
        | error e => rw [h6] at h5; cases h5
        | ok sp =>
        rw [h6] at h5; dsimp only at h5
        cases h7 : item srpmData (lit "sigkey") with
        | error e => rw [h7] at h5; cases h5
        | ok sk =>
        rw [h7] at h5; dsimp only at h5
        exact addDyn_jsonRep _ _ _ _ _ _ _ _ _ hs1 h5
    split at h
    · cases h
    · rename_i s2 h5
      exact ih s2 s' (hs2 s2 h5) h

theorem loadSrpms03_jsonRep (variant arch : Str) (srcTable : PyVal) :
    ∀ (l : List (Str × PyVal)) (s s' : PyVal), jsonRep s = true → loadSrpms03 variant arch srcTable l s = .ok s' →
      jsonRep s' = true := by
  intro l
  induction l with
  | nil => intro s s' hs h; simp only [loadSrpms03] at h; injection h with h; subst h; exact hs
  | cons sr rest ih =>
    intro s s' hs h
    obtain ⟨srpm, rpms⟩ := sr
    unfold loadSrpms03 at h
    cases h1 : dictGetD srcTable srpm .none with
    | error e => rw [h1] at h; cases h
    | ok srpmData =>
    rw [h1] at h; dsimp only at h
    cases h2 : dictItems rpms with
    | error e => rw [h2] at h; cases h
    | ok its =>
    rw [h2] at h; dsimp only at h
    cases h3 : loadRpms03 variant arch srpm srpmData its s with
    | error e => rw [h3] at h; cases h
    | ok s1 =>
    rw [h3] at h; dsimp only at h
    exact ih s1 s' (loadRpms03_jsonRep _ _ _ _ _ _ _ hs h3) h

theorem loadArches03_jsonRep (variant : Str) (archs : PyVal) :
    ∀ (l : List PyVal) (s s' : PyVal), jsonRep s = true → loadArches03 variant archs l s = .ok s' → jsonRep s' = true := by
  intro l
  induction l with
  | nil => intro s s' hs h; simp only [loadArches03] at h; injection h with h; subst h; exact hs
  | cons a rest ih =>
    intro s s' hs h
    unfold loadArches03 at h
    by_cases c : pyEq a (.str sSrcArch) = true
    · rw [if_pos c] at h; exact ih s s' hs h
    rw [if_neg c] at h
    cases h1 : subscript archs a with
    | error e => rw [h1] at h; cases h
    | ok cell =>
    rw [h1] at h; dsimp only at h
    cases h2 : dictItems cell with
    | error e => rw [h2] at h; cases h
    | ok its =>
    rw [h2] at h; dsimp only at h
    cases h3 : dictGetD archs sSrcArch (.dict []) with
    | error e => rw [h3] at h; cases h
    | ok srcTable =>
    rw [h3] at h; dsimp only at h
    cases h4 : strKey a with
    | error e => rw [h4] at h; cases h
    | ok arch =>
    rw [h4] at h; dsimp only at h
    cases h5 : loadSrpms03 variant arch srcTable its s with
    | error e => rw [h5] at h; cases h
    | ok s1 =>
    rw [h5] at h; dsimp only at h
    exact ih s1 s' (loadSrpms03_jsonRep _ _ _ _ _ _ hs h5) h

theorem loadVariants03_jsonRep (payload : PyVal) :
    ∀ (l : List PyVal) (s s' : PyVal), jsonRep s = true → loadVariants03 payload l s = .ok s' → jsonRep s' = true := by
  intro l
  induction l with
  | nil => intro s s' hs h; simp only [loadVariants03] at h; injection h with h; subst h; exact hs
  | cons v rest ih =>
    intro s s' hs h
    unfold loadVariants03 at h
    cases h1 : subscript payload v with
    | error e => rw [h1] at h; cases h
    | ok archs =>
    rw [h1] at h; dsimp only at h
    cases h2 : iter archs with
    | error e => rw [h2] at h; cases h
    | ok keys =>
    rw [h2] at h; dsimp only at h
    cases h3 : strKey v with
    | error e => rw [h3] at h; cases h
    | ok variant =>
    rw [h3] at h; dsimp only at h
    cases h4 : loadArches03 variant archs keys s with
    | error e => rw [h4] at h; cases h
    | ok s1 =>
    rw [h4] at h; dsimp only at h
    exact ih s1 s' (loadArches03_jsonRep _ _ _ _ _ hs h4) h

/-- whatever a 0.3 document holds, the mapping the reader builds from it is JSON-representable -/
theorem manifest03_jsonRep (pl p : PyVal) (h : manifest03 pl = .ok p) : jsonRep p = true := by
  unfold manifest03 at h
  cases h1 : getItem pl (lit "manifest") with
  | error e => rw [h1] at h; cases h
  | ok payload =>
  rw [h1] at h; dsimp only at h
  cases h2 : iter payload with
  | error e => rw [h2] at h; cases h
  | ok vs =>
  rw [h2] at h; dsimp only at h
  exact loadVariants03_jsonRep _ _ _ _ rfl h

theorem getItem_jsonRep (v x : PyVal) (k : Str) (hv : jsonRep v = true) (h : getItem v k = .ok x) : jsonRep x = true := by
  unfold getItem at h
  cases v <;> try (cases h; done)
  rename_i kvs
  dsimp only at h
  cases hy : lookup kvs k with
  | none => rw [hy] at h; cases h
  | some y =>
    rw [hy] at h; dsimp only at h
    injection h with h
    subst h
    exact jsonRep_of_lookup kvs k y (by simpa [jsonRep] using hv) hy

theorem composeDeserialize_valid (t : VTuple) (data : PyVal) (c : Obj) (h : composeDeserialize t data = .ok c) :
    composeValidate c = .ok () := by
  unfold composeDeserialize at h
  cases t with
  | text => cases h
  | nums l =>
  dsimp only at h
  by_cases g : gateHolds Gen.gate_composeinfo_Compose_deserialize_0 l = true
  · rw [if_pos g] at h; cases h
  rw [if_neg g] at h
  cases h1 : getItem data (lit "compose") with
  | error e => rw [h1] at h; cases h
  | ok sec =>
  rw [h1] at h; dsimp only at h
  cases h2 : getItem sec (lit "id") with
  | error e => rw [h2] at h; cases h
  | ok id =>
  rw [h2] at h; dsimp only at h
  cases h3 : dictGetD sec (lit "label") .none with
  | error e => rw [h3] at h; cases h
  | ok label0 =>
  rw [h3] at h; dsimp only at h
  cases h4 : getItem sec (lit "type") with
  | error e => rw [h4] at h; cases h
  | ok ty =>
  cases h5 : getItem sec (lit "date") with
  | error e => rw [h4, h5] at h; cases h
  | ok date =>
  cases h6 : getItem sec (lit "respin") with
  | error e => rw [h4, h5, h6] at h; cases h
  | ok respin =>
  rw [h4, h5, h6] at h; dsimp only at h
  cases h7 : dictGetD sec (lit "final") (.bool false) with
  | error e => rw [h7] at h; cases h
  | ok fin =>
  rw [h7] at h; dsimp only at h
  split at h
  · cases h
  · rename_i hv
    injection h with h
    subst h
    exact hv

theorem composeDeserialize03_valid (data : PyVal) (c : Obj) (h : composeDeserialize03 data = .ok c) :
    composeValidate c = .ok () := by
  unfold composeDeserialize03 at h
  cases h1 : getItem data (lit "compose") with
  | error e => rw [h1] at h; cases h
  | ok sec =>
  rw [h1] at h; dsimp only at h
  cases h2 : getItem sec (lit "id") with
  | error e => rw [h2] at h; cases h
  | ok id =>
  rw [h2] at h; dsimp only at h
  cases h3 : dictGetD sec (lit "label") .none with
  | error e => rw [h3] at h; cases h
  | ok label0 =>
  rw [h3] at h; dsimp only at h
  cases h4 : getItem sec (lit "type") with
  | error e => rw [h4] at h; cases h
  | ok ty =>
  rw [h4] at h; dsimp only at h
  cases h5 : dateTypeRespinOf id with
  | error e => rw [h5] at h; cases h
  | ok dtr =>
  obtain ⟨date, ty', respin⟩ := dtr
  rw [h5] at h; dsimp only at h
  cases h7 : dictGetD sec (lit "final") (.bool false) with
  | error e => rw [h7] at h; cases h
  | ok fin =>
  rw [h7] at h; dsimp only at h
  split at h
  · cases h
  · rename_i hv
    injection h with h
    subst h
    exact hv

theorem composeDeserializeL_valid (t : VTuple) (data : PyVal) (c : Obj) (h : composeDeserializeL t data = .ok c) :
    composeValidate c = .ok () := by
  unfold composeDeserializeL at h
  cases t with
  | text => cases h
  | nums l =>
  dsimp only at h
  by_cases g : gateHolds Gen.gate_composeinfo_Compose_deserialize_0 l = true
  · rw [if_pos g] at h; exact composeDeserialize03_valid data c h
  · rw [if_neg g] at h; exact composeDeserialize_valid _ data c h

/-- where the C03 reader of the compose section answers, the legacy-aware one gives the same answer -/
theorem composeDeserializeL_of (t : VTuple) (data : PyVal) (c : Obj) (h : composeDeserialize t data = .ok c) :
    composeDeserializeL t data = .ok c := by
  have h0 := h
  unfold composeDeserialize at h
  unfold composeDeserializeL
  cases t with
  | text => cases h
  | nums l =>
  dsimp only at h ⊢
  by_cases g : gateHolds Gen.gate_composeinfo_Compose_deserialize_0 l = true
  · rw [if_pos g] at h; cases h
  · rw [if_neg g]; exact h0

/-- the legacy-aware reader extends the C03 reader -/
theorem deserializeL_of_deserialize (doc : PyVal) (m : Manifest) (h : deserialize .rpms doc = .ok m) :
    deserializeL .rpms doc = .ok m := by
  unfold deserialize at h
  unfold deserializeL
  cases hhd : headerDeserialize .rpms doc with
  | error e => rw [hhd] at h; cases h
  | ok vt =>
  obtain ⟨ver, t⟩ := vt
  rw [hhd] at h
  cases t with
  | text =>
    simp only [Bool.false_eq_true, if_false] at h ⊢
    cases hpl : getItem doc (lit "payload") with
    | error e => rw [hpl] at h; cases h
    | ok pl =>
    rw [hpl] at h; simp only at h ⊢
    cases hc : composeDeserialize .text pl with
    | error e => rw [hc] at h; cases h
    | ok c =>
    rw [hc] at h; simp only at h
    rw [composeDeserializeL_of _ pl c hc]
    exact h
  | nums l =>
    simp only at h ⊢
    by_cases g : gateHolds Gen.gate_rpms_Rpms_deserialize_0 l = true
    · rw [if_pos g] at h; cases h
    rw [if_neg g] at h
    cases hpl : getItem doc (lit "payload") with
    | error e => rw [hpl] at h; cases h
    | ok pl =>
    rw [hpl] at h; simp only at h ⊢
    cases hc : composeDeserialize (.nums l) pl with
    | error e => rw [hc] at h; cases h
    | ok c =>
    rw [hc] at h; simp only at h
    rw [composeDeserializeL_of _ pl c hc]
    simp only [if_neg g]
    exact h

/-- **what every load of an rpms document has built** -/
theorem deserializeL_rpms_good (doc : PyVal) (m : Manifest) (h : deserializeL .rpms doc = .ok m) :
    m.version = .str currentVersion ∧ composeValidate m.compose = .ok ()
    ∧ (jsonRep doc = true → jsonRep m.payload = true) := by
  unfold deserializeL at h
  cases hhd : headerDeserialize .rpms doc with
  | error e => rw [hhd] at h; cases h
  | ok vt =>
  obtain ⟨ver, t⟩ := vt
  rw [hhd] at h
  simp only at h
  cases hpl : getItem doc (lit "payload") with
  | error e => rw [hpl] at h; cases h
  | ok pl =>
  rw [hpl] at h; simp only at h
  cases hc : composeDeserializeL t pl with
  | error e => rw [hc] at h; cases h
  | ok c =>
  rw [hc] at h; simp only at h
  split at h
  · cases h
  · rename_i payload hp
    split at h
    · cases h
    · injection h with h
      subst h
      refine ⟨rfl, composeDeserializeL_valid t pl c hc, ?_⟩
      intro hd
      simp only
      have hcase : manifest03 pl = .ok payload ∨ getItem pl Kind.rpms.payloadKey = .ok payload := by
        repeat' split at hp
        all_goals first | exact Or.inl hp | exact Or.inr hp
      rcases hcase with hp | hp
      · exact manifest03_jsonRep pl payload hp
      · exact getItem_jsonRep pl payload _ (getItem_jsonRep doc pl _ hd hpl) hp

end PM.Mf
