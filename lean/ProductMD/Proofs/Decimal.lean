import ProductMD.Model.Nvra
/-!
Decimal rendering (`Str.natStr`, Python `"%s" % n` / `str(n)`) against the model of `int()` on a `\d+` capture
(`pyIntDigits`) and the generated `\d` class: `natStr n` is a non-empty string of ASCII digits, of at most `k`
characters when `n < 10^k`, whose value is `n`.  Core Lean only.
-/
namespace PM.Dec
open PM PM.Str

/-- ASCII digit characters, as `natStr` produces them -/
def IsDig (c : Char) : Prop := ∃ d, d < 10 ∧ c = digitChar d

theorem digitChar_facts : ∀ d, d < 10 →
    digitVal (digitChar d) = some d ∧ digitCls.mem (digitChar d) = true ∧ isAsciiDigit (digitChar d) = true
    ∧ (digitChar d).toNat = 48 + d := by decide

theorem IsDig.cls {c} (h : IsDig c) : digitCls.mem c = true := by
  obtain ⟨d, hd, rfl⟩ := h; exact (digitChar_facts d hd).2.1

theorem IsDig.ascii {c} (h : IsDig c) : isAsciiDigit c = true := by
  obtain ⟨d, hd, rfl⟩ := h; exact (digitChar_facts d hd).2.2.1

theorem IsDig.toNat {c} (h : IsDig c) : 48 ≤ c.toNat ∧ c.toNat ≤ 57 := by
  obtain ⟨d, hd, rfl⟩ := h
  have := (digitChar_facts d hd).2.2.2
  omega

theorem IsDig.ne {c x : Char} (h : IsDig c) (hx : x.toNat < 48 ∨ 57 < x.toNat) : c ≠ x := by
  intro e; subst e; have := h.toNat; omega

theorem digitsVal_append : ∀ (x y : Str) (a : Nat),
    digitsVal (x ++ y) a = (digitsVal x a).bind (digitsVal y) := by
  intro x
  induction x with
  | nil => intro y a; rfl
  | cons c cs ih =>
    intro y a
    simp only [List.cons_append, digitsVal]
    cases digitVal c with
    | none => rfl
    | some d => exact ih y _

/-- what `natDigitsAux` prepends: non-empty ASCII digits with the value `n`, at most `k` of them if `n < 10^k` -/
theorem natDigitsAux_spec : ∀ (n fuel : Nat) (acc : Str), n < fuel →
    ∃ ds, natDigitsAux fuel n acc = ds ++ acc ∧ ds ≠ [] ∧ (∀ c ∈ ds, IsDig c)
      ∧ (∀ a, digitsVal ds a = some (a * 10 ^ ds.length + n))
      ∧ (∀ k, 0 < k → n < 10 ^ k → ds.length ≤ k) := by
  intro n
  induction n using Nat.strongRecOn with
  | _ n ih =>
    intro fuel acc hf
    cases fuel with
    | zero => omega
    | succ fuel =>
      by_cases hn : n < 10
      · refine ⟨[digitChar n], by simp [natDigitsAux, hn], by simp, ?_, ?_, ?_⟩
        · intro c hc; simp at hc; exact ⟨n, hn, hc⟩
        · intro a; simp [digitsVal, (digitChar_facts n hn).1]
        · intro k hk _; simp; omega
      · have hlt : n / 10 < n := Nat.div_lt_self (by omega) (by omega)
        obtain ⟨ds, h1, h2, h3, h4, h5⟩ := ih (n / 10) hlt fuel (digitChar (n % 10) :: acc) (by omega)
        have hm : n % 10 < 10 := Nat.mod_lt _ (by omega)
        refine ⟨ds ++ [digitChar (n % 10)], by simp [natDigitsAux, hn, h1], by simp, ?_, ?_, ?_⟩
        · intro c hc
          rcases List.mem_append.mp hc with hc | hc
          · exact h3 c hc
          · simp at hc; exact ⟨n % 10, hm, hc⟩
        · intro a
          rw [digitsVal_append, h4 a]
          simp only [Option.bind, digitsVal, (digitChar_facts _ hm).1, List.length_append, List.length_cons,
            List.length_nil, Nat.pow_succ]
          congr 1
          have := Nat.div_add_mod n 10
          rw [Nat.add_mul, Nat.mul_assoc]
          omega
        · intro k hk hnk
          cases k with
          | zero => omega
          | succ k =>
            have hk0 : 0 < k := by
              cases k with
              | zero => simp at hnk; omega
              | succ k => omega
            have : n / 10 < 10 ^ k := by
              rw [Nat.pow_succ] at hnk
              exact Nat.div_lt_of_lt_mul (by rw [Nat.mul_comm]; exact hnk)
            have := h5 k hk0 this
            simp; omega

theorem natStr_spec (n : Nat) : natStr n ≠ [] ∧ (∀ c ∈ natStr n, IsDig c)
    ∧ digitsVal (natStr n) 0 = some n ∧ (∀ k, 0 < k → n < 10 ^ k → (natStr n).length ≤ k) := by
  obtain ⟨ds, h1, h2, h3, h4, h5⟩ := natDigitsAux_spec n (n + 1) [] (by omega)
  have : natStr n = ds := by rw [natStr, h1, List.append_nil]
  rw [this]
  exact ⟨h2, h3, by simpa using h4 0, h5⟩

theorem natStr_ne_nil (n : Nat) : natStr n ≠ [] := (natStr_spec n).1
theorem natStr_dig (n : Nat) : ∀ c ∈ natStr n, IsDig c := (natStr_spec n).2.1
theorem natStr_len (n k : Nat) (hk : 0 < k) (h : n < 10 ^ k) : (natStr n).length ≤ k := (natStr_spec n).2.2.2 k hk h

/-- `int(str(n)) == n` within the interpreter's digit limit -/
theorem pyIntDigits_natStr (n : Nat) (h : (natStr n).length ≤ intMaxStrDigits) : pyIntDigits (natStr n) = .ok n := by
  have hne := natStr_ne_nil n
  have hv := (natStr_spec n).2.2.1
  unfold pyIntDigits
  have h1 : (natStr n).isEmpty = false := by cases hs : natStr n with
    | nil => exact absurd hs hne
    | cons _ _ => rfl
  rw [h1]
  simp only [Bool.false_eq_true, if_false]
  rw [if_neg (by omega), hv]

/-- …and beyond the limit it raises -/
theorem pyIntDigits_natStr_limit (n : Nat) (h : intMaxStrDigits < (natStr n).length) :
    pyIntDigits (natStr n) = .error .valueError := by
  unfold pyIntDigits
  have h1 : (natStr n).isEmpty = false := by cases hs : natStr n with
    | nil => exact absurd hs (natStr_ne_nil n)
    | cons _ _ => rfl
  rw [h1]
  simp only [Bool.false_eq_true, if_false]
  rw [if_pos h]

end PM.Dec
