import ProductMD.Proofs.TreeInfoNormDump
/-!
Converse of the writer specification: when every `validate()` passes and the section names are fresh and pairwise
distinct, `serialize` succeeds.
-/
namespace PM
namespace TI
open Ini

theorem addSection_conv {d : Ini} {s : Str} (h1 : d.lookup s = none) (h2 : (s == DEFAULT) = false) :
    addSection d s = .ok (d ++ [(s, [])]) := by
  unfold addSection
  simp [h1, h2]

theorem sets_conv (s : Str) : ∀ (kvs : List (Str × Str)) (d : Ini), (d.lookup s).isSome → ∃ d', sets d s kvs = .ok d'
  | [], d, _ => ⟨d, rfl⟩
  | kv :: rest, d, h => by
    cases hl : d.lookup s with
    | none => simp [hl] at h
    | some o =>
      have hs : Ini.set d s kv.1 kv.2 = .ok (setKV s (setKV kv.1 kv.2 o) d) := by unfold Ini.set; simp [hl]
      obtain ⟨d', hd'⟩ := sets_conv s rest (setKV s (setKV kv.1 kv.2 o) d) (by rw [lookup_setKV, if_pos rfl]; rfl)
      exact ⟨d', by simp only [sets, hs, hd']⟩

theorem set_conv {d : Ini} {s k v : Str} (h : (d.lookup s).isSome) : ∃ d', Ini.set d s k v = .ok d' := by
  cases hl : d.lookup s with
  | none => simp [hl] at h
  | some o => exact ⟨setKV s (setKV k v o) d, by unfold Ini.set; simp [hl]⟩

/-- a fresh section with its options can always be written -/
theorem newSection_conv {d : Ini} {s : Str} (kvs : List (Str × Str)) (h1 : d.lookup s = none) (h2 : (s == DEFAULT) = false) :
    ∃ d1 d', addSection d s = .ok d1 ∧ sets d1 s kvs = .ok d' := by
  have ha := addSection_conv h1 h2
  obtain ⟨d', hd'⟩ := sets_conv s kvs (d ++ [(s, [])]) (by rw [lookup_append_single _ _ _ _ h1, if_pos rfl]; rfl)
  exact ⟨_, d', ha, hd'⟩

/-! ### the forest -/

mutual
theorem namesV_perm : ∀ (w : Variant) (pu : Option Str), (namesV w).Perm ((flatV pu w).map (·.1))
  | .mk key id uid name type paths kids, pu => by
    simp only [namesV, flatV, List.map_append, List.map_cons, List.map_nil]
    exact (List.Perm.cons _ (namesVs_perm kids (some uid))).trans (List.perm_append_singleton _ _).symm
theorem namesVs_perm : ∀ (vs : List Variant) (pu : Option Str), (namesVs vs).Perm ((flatVs pu vs).map (·.1))
  | [], _ => List.Perm.refl _
  | v :: vs, pu => by
    simp only [namesVs, flatVs, List.map_append]
    exact ((namesV_perm v pu).append (namesVs_perm vs pu)).trans List.perm_append_comm
end

theorem variantPaths_valid : validateClass "treeinfo.VariantPaths" [] = .ok () := by decide +kernel

mutual
theorem serVariant_conv : ∀ (w : Variant) (pu : Option Str) (d : Ini), ValidV pu w → (namesV w).Nodup →
    (∀ s ∈ namesV w, d.lookup s = none) → ∃ d', serVariant pu d w = .ok d'
  | .mk key id uid name type paths kids, pu, d, hv, hnd, hfresh => by
    simp only [ValidV] at hv
    simp only [namesV, List.nodup_cons] at hnd
    obtain ⟨hne1, hne2⟩ := secName_nonempty type uid
    have hf0 := hfresh (secName type uid) (by simp [namesV])
    obtain ⟨d1, d2, ha, hs2⟩ := newSection_conv (d := d) [(kId, id), (kUid, uid), (kName, name), (kType, type)] hf0 hne2
    obtain ⟨_, _, hl1⟩ := addSection_ok ha
    obtain ⟨hn2, hf2, hc2⟩ := sets_spec hs2
    have hsome2 : (d2.lookup (secName type uid)).isSome := by
      rw [hc2 [] (by rw [hl1]; simp)]; rfl
    obtain ⟨d3, hs3⟩ := sets_conv (secName type uid) (pathOpts paths ++ parentOpt pu) d2 hsome2
    obtain ⟨hn3, hf3, hc3⟩ := sets_spec hs3
    have hfreshk : ∀ s ∈ namesVs kids, d3.lookup s = none := by
      intro s hs
      have hne : s ≠ secName type uid := fun e => hnd.1 (e ▸ hs)
      rw [hf3 s hne, hf2 s hne, hl1 s]
      have : ¬ secName type uid = s := fun e => hne e.symm
      simp only [this, if_false]
      exact hfresh s (by simp [namesV, hs])
    obtain ⟨d4, hk⟩ := serVariants_conv kids (some uid) d3 hv.2 hnd.2 hfreshk
    have wk := serVariants_spec kids (some uid) d3 d4 hk
    have hsome4 : (d4.lookup (secName type uid)).isSome := by
      rw [wk.look]
      cases hl3 : d3.lookup (secName type uid) with
      | none =>
        have : (d2.lookup (secName type uid)).isSome := hsome2
        cases hl2 : d2.lookup (secName type uid) with
        | none => simp [hl2] at this
        | some o => rw [hc3 o hl2] at hl3; cases hl3
      | some o => cases (flatVs (some uid) kids).lookup (secName type uid) <;> simp
    by_cases hke : kids.isEmpty = true
    · exact ⟨d4, by simp only [serVariant, hv.1, ha, hs2, variantPaths_valid, hs3, hk, hke, if_true]⟩
    · obtain ⟨d5, h5⟩ := set_conv (k := kAddons) (v := Str.joinWith ',' (Str.sortDedup (kids.map Variant.uid))) hsome4
      exact ⟨d5, by simp only [serVariant, hv.1, ha, hs2, variantPaths_valid, hs3, hk, hke, h5]; simp⟩
theorem serVariants_conv : ∀ (vs : List Variant) (pu : Option Str) (d : Ini), ValidVs pu vs → (namesVs vs).Nodup →
    (∀ s ∈ namesVs vs, d.lookup s = none) → ∃ d', serVariants pu d vs = .ok d'
  | [], _, d, _, _, _ => ⟨d, rfl⟩
  | v :: vs, pu, d, hv, hnd, hfresh => by
    simp only [ValidVs] at hv
    simp only [namesVs, List.nodup_append] at hnd
    obtain ⟨d1, h1⟩ := serVariant_conv v pu d hv.1 hnd.1 (fun s hs => hfresh s (by simp [namesVs, hs]))
    have w1 := serVariant_spec v pu d d1 h1
    have hfresh' : ∀ s ∈ namesVs vs, d1.lookup s = none := by
      intro s hs
      have hnot : s ∉ (flatV pu v).map (·.1) := by
        intro hm
        have : s ∈ namesV v := (namesV_perm v pu).mem_iff.mpr hm
        exact hnd.2.2 s this s hs rfl
      rw [w1.frame hnot]
      exact hfresh s (by simp [namesVs, hs])
    obtain ⟨d2, h2⟩ := serVariants_conv vs pu d1 hv.2 hnd.2.1 hfresh'
    exact ⟨d2, by simp only [serVariants, h1, h2]⟩
end

/-! ### the other sections -/

theorem images_name_ne_default (x : Str) : ((pImages ++ x) == DEFAULT) = false := by
  rw [pImages_eq]
  simp only [beq_eq_false_iff_ne, ne_eq]
  intro e
  have := congrArg List.head? e
  simp at this; revert this; decide

theorem serImagePlatforms_conv : ∀ (ps : List (Str × List (Str × Str))) (d : Ini),
    (ps.map fun p => pImages ++ p.1).Nodup → (∀ p ∈ ps, d.lookup (pImages ++ p.1) = none) → ∃ d', serImagePlatforms d ps = .ok d'
  | [], d, _, _ => ⟨d, rfl⟩
  | p :: ps, d, hnd, hfresh => by
    simp only [List.map_cons, List.nodup_cons] at hnd
    obtain ⟨d1, d2, ha, hs⟩ := newSection_conv (d := d) p.2 (hfresh p (List.mem_cons_self ..)) (images_name_ne_default p.1)
    have w := newSection_spec ha hs
    have hfresh' : ∀ q ∈ ps, d2.lookup (pImages ++ q.1) = none := by
      intro q hq
      have hne : pImages ++ q.1 ∉ [(pImages ++ p.1, setsKV [] p.2)].map (·.1) := by
        simp only [List.map_cons, List.map_nil, List.mem_singleton]
        intro e
        exact hnd.1 (List.mem_map.mpr ⟨q, hq, e⟩)
      rw [w.frame hne]
      exact hfresh q (List.mem_cons_of_mem _ hq)
    obtain ⟨d3, h3⟩ := serImagePlatforms_conv ps d2 hnd.2 hfresh'
    exact ⟨d3, by simp only [serImagePlatforms, ha, hs, h3]⟩

theorem mem_keys_optSec {c : Bool} {s k : Str} {o : IniSec} (h : k ∈ (optSec c s o).map (·.1)) : k = s := by
  unfold optSec at h
  split at h
  · simpa using h
  · simp at h

theorem mem_keys_baseL {t : TreeInfo} {k : Str} (h : k ∈ (baseL t).map (·.1)) : k = sBase := by
  unfold baseL at h
  split at h
  · cases hb : t.baseProduct with
    | none => simp [hb] at h
    | some p => simpa [hb] using h
  · simp at h

/-- what `serialize` needs in order to succeed -/
structure CanWrite (t : TreeInfo) (mv : Option Str) : Prop where
  header : validateClass "treeinfo.Header" (headerObj t.headerVersion) = .ok ()
  release : validateClass "treeinfo.Release" (releaseObj t.release t.isLayered) = .ok ()
  base : t.isLayered = true → ∃ p, t.baseProduct = some p ∧ validateClass "treeinfo.BaseProduct" (productObj p) = .ok ()
  tree : validateClass "treeinfo.Tree" (treeObj t.tree) = .ok ()
  tops : validateClass "treeinfo.Variants" (variantsObj t.variants) = .ok ()
  forest : ValidVs none t.variants
  checksums : validateClass "treeinfo.Checksums" (checksumsObj t.checksums) = .ok ()
  images : t.images.isEmpty = false → validateClass "treeinfo.Images" (imagesObj t.images t.tree.platforms) = .ok ()
  stage2 : stage2On t.mainimage t.instimage = true → validateClass "treeinfo.Stage2" (stage2Obj t.mainimage t.instimage) = .ok ()
  media : mediaOn t.discnum t.totaldiscs = true →
    validateClass "treeinfo.Media" (mediaObj t.discnum t.totaldiscs) = .ok () ∧ t.discnum.isSome ∧ t.totaldiscs.isSome
  namesForest : (namesVs t.variants).Nodup
  namesImages : (t.images.map fun p => pImages ++ p.1).Nodup
  ts : ∃ n, t.tree.ts.toInt = .ok n
  chosen : ∃ key v, chosenKey t.variants mv = .ok key ∧ getItem (key.length + 1) t.variants key = .ok v

theorem fresh_of_wrote {d : Ini} {L : List (Str × IniSec)} {N : List Str} (w : Wrote [] d L N) {s : Str}
    (h : s ∉ L.map (·.1)) : d.lookup s = none := by
  rw [w.frame h]; rfl

theorem serialize_conv {t : TreeInfo} {mv : Option Str} (cw : CanWrite t mv) : ∃ d, serialize t mv = .ok d := by
  -- header
  obtain ⟨a1, d1, ha1, hs1⟩ := newSection_conv (d := []) (s := sHeader)
    [(kVersion, currentVersion), (kType, Gen.HEADER_TYPE_TreeInfo)] rfl (by decide)
  have h1 : serHeader t.headerVersion [] = .ok d1 := by
    unfold serHeader; simp [cw.header, ha1, hs1, bind, Except.bind]
  have w1 := serHeader_spec h1
  -- release
  obtain ⟨a2, d2, ha2, hs2⟩ := newSection_conv (d := d1) (s := sRelease)
    ([(kName, t.release.name), (kVersion, t.release.version), (kShort, t.release.short)]
      ++ if t.isLayered then [(kIsLayered, "true".toList)] else [])
    (fresh_of_wrote w1 (by simp; decide)) (by decide)
  have h2 : serRelease t.release t.isLayered d1 = .ok d2 := by
    unfold serRelease; simp only [cw.release, ha2, bind, Except.bind]; exact hs2
  have w2 := w1.trans (serRelease_spec h2).1
  -- base product
  have hb : ∃ d3, serBaseIf t.isLayered t.baseProduct d2 = .ok d3 := by
    unfold serBaseIf
    by_cases hl : t.isLayered = true
    · obtain ⟨p, hp, hvp⟩ := cw.base hl
      obtain ⟨a3, d3, ha3, hs3⟩ := newSection_conv (d := d2) (s := sBase)
        [(kName, p.name), (kVersion, p.version), (kShort, p.short)]
        (fresh_of_wrote w2 (by simp; decide)) (by decide)
      exact ⟨d3, by simp only [hl, if_true, hp, serBase]; simp [hvp, ha3, hs3, bind, Except.bind]⟩
    · exact ⟨d2, by simp [hl]⟩
  obtain ⟨d3, h3⟩ := hb
  have w3 : Wrote [] d3 (baseL t ++ ([(sRelease, releaseOpts t.release t.isLayered)] ++ [(sHeader, headerOpts)]))
      (([sHeader] ++ [sRelease]) ++ (baseL t).map (·.1)) := by
    unfold serBaseIf at h3
    by_cases hl : t.isLayered = true
    · simp only [hl, if_true] at h3
      obtain ⟨p, hp, wb, _⟩ := serBase_spec h3
      have := w2.trans wb
      simpa [baseL, hl, hp] using this
    · simp only [hl] at h3
      injection h3 with h3; subst h3
      simpa [baseL, hl] using w2
  -- tree
  have hfT : d3.lookup sTree = none := by
    apply fresh_of_wrote w3
    simp only [List.map_append, List.mem_append, List.map_cons, List.map_nil, List.mem_singleton]
    rintro (h | h | h)
    · have := mem_keys_baseL h; revert this; decide
    · revert h; decide
    · revert h; decide
  obtain ⟨a4, d4, ha4, hs4⟩ := newSection_conv (d := d3) (s := sTree)
    [(kArch, t.tree.arch), (kPlatforms, platformsStr t.tree), (kBuildTs, t.tree.ts.str)] hfT (by decide)
  have h4 : serTree t.tree d3 = .ok d4 := by
    unfold serTree; simp [cw.tree, ha4, hs4, bind, Except.bind]
  have w4 := w3.trans (serTree_spec h4).1
  -- [tree] variants and the forest
  have hsomeT : (d4.lookup sTree).isSome := by
    rw [w4.look]; simp [lookup_cons_eq]
  obtain ⟨d4', h4'⟩ := set_conv (k := kVariants) (v := Str.joinWith ',' (Ini.sortS (t.variants.map Variant.uid))) hsomeT
  have w4set := w4.setLater (s := sTree) (o := treeOpts t.tree) (by simp [lookup_cons_eq]) h4'
  have hfreshF : ∀ s ∈ namesVs t.variants, d4'.lookup s = none := by
    intro s hs
    have hav : headAV s := keys_flatVs t.variants none s ((namesVs_perm t.variants none).mem_iff.mp hs)
    apply fresh_of_wrote w4set
    rw [keys_setKV_of_mem _ _ _ (by simp [lookup_cons_eq])]
    simp only [List.map_append, List.mem_append, List.map_cons, List.map_nil, List.mem_singleton]
    rintro (h | h | h | h)
    · rw [h] at hav; revert hav; decide
    · have := mem_keys_baseL h; rw [this] at hav; revert hav; decide
    · rw [h] at hav; revert hav; decide
    · rw [h] at hav; revert hav; decide
  obtain ⟨d5, h5⟩ := serVariants_conv t.variants none d4' cw.forest cw.namesForest hfreshF
  have hT : serTops t.variants d4 = .ok d5 := by
    unfold serTops; simp [cw.tops, h4', h5, bind, Except.bind]
  have w5 := w4set.trans (serVariants_spec t.variants none d4' d5 h5)
  have notAV : ∀ {s : Str}, ¬ headAV s → s ≠ sTree → s ≠ sBase → s ≠ sRelease → s ≠ sHeader →
      s ∉ (flatVs none t.variants ++ setKV sTree (setKV kVariants (Str.joinWith ',' (Ini.sortS (t.variants.map Variant.uid)))
        (treeOpts t.tree)) ([(sTree, treeOpts t.tree)] ++ (baseL t ++ ([(sRelease, releaseOpts t.release t.isLayered)]
          ++ [(sHeader, headerOpts)])))).map (·.1) := by
    intro s hav n1 n2 n3 n4
    rw [List.map_append, keys_setKV_of_mem _ _ _ (by simp [lookup_cons_eq])]
    simp only [List.map_append, List.mem_append, List.map_cons, List.map_nil, List.mem_singleton]
    rintro (h | h | h | h | h)
    · exact hav (keys_flatVs _ _ _ h)
    · exact n1 h
    · exact n2 (mem_keys_baseL h)
    · exact n3 h
    · exact n4 h
  -- checksums
  have hC : ∃ d6, serChecksums t.checksums d5 = .ok d6 := by
    unfold serChecksums
    by_cases he : t.checksums.isEmpty = true
    · exact ⟨d5, by simp [cw.checksums, he, bind, Except.bind]⟩
    · obtain ⟨a6, d6, ha6, hs6⟩ := newSection_conv (d := d5) (s := sChecksums)
        (t.checksums.map fun c => (c.1, c.2.1 ++ ':' :: c.2.2))
        (fresh_of_wrote w5 (notAV (by decide) (by decide) (by decide) (by decide) (by decide))) (by decide)
      exact ⟨d6, by simp [cw.checksums, he, ha6, hs6, bind, Except.bind]⟩
  obtain ⟨d6, h6⟩ := hC
  have w6 := w5.trans (serChecksums_spec h6).1
  -- images
  have hfreshI : ∀ p ∈ t.images, d6.lookup (pImages ++ p.1) = none := by
    intro p _
    have hi : (pImages ++ p.1).head? = some 'i' := by rw [pImages_eq]; rfl
    apply fresh_of_wrote w6
    rw [List.map_append]
    simp only [List.mem_append]
    rintro (h | h)
    · have := mem_keys_optSec h
      rw [this] at hi; revert hi; decide
    · refine notAV (s := pImages ++ p.1) ?_ ?_ ?_ ?_ ?_ h
      · intro hav; rcases hav with h' | h' <;> rw [h'] at hi <;> cases hi
      all_goals (intro e; rw [e] at hi; revert hi; decide)
  have hI : ∃ d7, serImages t.images t.tree.platforms d6 = .ok d7 := by
    unfold serImages
    by_cases he : t.images.isEmpty = true
    · exact ⟨d6, by simp [he]⟩
    · obtain ⟨d7, h7⟩ := serImagePlatforms_conv t.images d6 cw.namesImages hfreshI
      have hvi := cw.images (by simpa using he)
      exact ⟨d7, by simp [he, hvi, h7, bind, Except.bind]⟩
  obtain ⟨d7, h7⟩ := hI
  have w7 := w6.trans (serImages_spec h7).1
  have notImgMem : ∀ {s : Str}, s.head? ≠ some 'i' → ¬ headAV s → s ≠ sChecksums → s ≠ sTree → s ≠ sBase → s ≠ sRelease →
      s ≠ sHeader → s ∉ (imgFlat t.images ++ (optSec (!t.checksums.isEmpty) sChecksums (checksumOpts t.checksums) ++
        (flatVs none t.variants ++ setKV sTree (setKV kVariants (Str.joinWith ',' (Ini.sortS (t.variants.map Variant.uid)))
          (treeOpts t.tree)) ([(sTree, treeOpts t.tree)] ++ (baseL t ++ ([(sRelease, releaseOpts t.release t.isLayered)]
            ++ [(sHeader, headerOpts)])))))).map (·.1) := by
    intro s hi hav n0 n1 n2 n3 n4
    rw [List.map_append, List.map_append]
    simp only [List.mem_append]
    rintro (h | h | h)
    · exact hi (keys_imgFlat _ _ h)
    · exact n0 (mem_keys_optSec h)
    · exact notAV hav n1 n2 n3 n4 h
  have notImg : ∀ {s : Str}, s.head? ≠ some 'i' → ¬ headAV s → s ≠ sChecksums → s ≠ sTree → s ≠ sBase → s ≠ sRelease →
      s ≠ sHeader → d7.lookup s = none :=
    fun hi hav n0 n1 n2 n3 n4 => fresh_of_wrote w7 (notImgMem hi hav n0 n1 n2 n3 n4)
  -- stage2
  have hS : ∃ d8, serStage2 t.mainimage t.instimage d7 = .ok d8 := by
    unfold serStage2
    by_cases he : (!optTruthy t.mainimage && !optTruthy t.instimage) = true
    · exact ⟨d7, by simp [he]⟩
    · have hon : stage2On t.mainimage t.instimage = true := by
        cases hm : optTruthy t.mainimage <;> cases hi : optTruthy t.instimage <;> simp_all [stage2On]
      obtain ⟨a8, d8, ha8, hs8⟩ := newSection_conv (d := d7) (s := sStage2)
        ((if optTruthy t.mainimage then [(kMainimage, t.mainimage.getD [])] else [])
          ++ (if optTruthy t.instimage then [(kInstimage, t.instimage.getD [])] else []))
        (notImg (by decide) (by decide) (by decide) (by decide) (by decide) (by decide) (by decide)) (by decide)
      exact ⟨d8, by simp [he, cw.stage2 hon, ha8, hs8, bind, Except.bind]⟩
  obtain ⟨d8, h8⟩ := hS
  have w8 := w7.trans (serStage2_spec h8)
  -- media
  have hfM : d8.lookup sMedia = none := by
    apply fresh_of_wrote w8
    rw [List.map_append]
    simp only [List.mem_append]
    rintro (h | h)
    · have := mem_keys_optSec h; revert this; decide
    · exact notImgMem (s := sMedia) (by decide) (by decide) (by decide) (by decide) (by decide) (by decide) (by decide) h
  have hM : ∃ d9, serMedia t.discnum t.totaldiscs d8 = .ok d9 := by
    unfold serMedia
    by_cases he : (!intTruthy t.discnum && !intTruthy t.totaldiscs) = true
    · exact ⟨d8, by simp [he]⟩
    · have hon : mediaOn t.discnum t.totaldiscs = true := by
        cases hm : intTruthy t.discnum <;> cases hi : intTruthy t.totaldiscs <;> simp_all [mediaOn]
      obtain ⟨hvm, hsa, hsb⟩ := cw.media hon
      cases hda : t.discnum with
      | none => simp [hda] at hsa
      | some x =>
        cases hdb : t.totaldiscs with
        | none => simp [hdb] at hsb
        | some y =>
          obtain ⟨a9, d9, ha9, hs9⟩ := newSection_conv (d := d8) (s := sMedia)
            [(kDiscnum, Str.intStr x), (kTotaldiscs, Str.intStr y)] hfM (by decide)
          rw [hda, hdb] at he hvm
          exact ⟨d9, by simp [he, hvm, ha9, hs9, bind, Except.bind]⟩
  obtain ⟨d9, h9⟩ := hM
  have w9 := w8.trans (serMedia_spec h9).1
  -- [general]
  have hfG : d9.lookup sGeneral = none := by
    apply fresh_of_wrote w9
    rw [List.map_append, List.map_append]
    simp only [List.mem_append]
    rintro (h | h | h)
    · have := mem_keys_optSec h; revert this; decide
    · have := mem_keys_optSec h; revert this; decide
    · exact notImgMem (s := sGeneral) (by decide) (by decide) (by decide) (by decide) (by decide) (by decide) (by decide) h
  obtain ⟨n, hn⟩ := cw.ts
  obtain ⟨key, v, hkey, hv⟩ := cw.chosen
  obtain ⟨aG, dG, haG, hsG⟩ := newSection_conv (d := d9) (s := sGeneral)
    [(kWarn0, vWarn0), (kWarn1, vWarn1), (kName, t.release.name ++ ' ' :: t.release.version), (kFamily, t.release.name),
     (kVersion, t.release.version), (kArch, t.tree.arch), (kPlatforms, platformsStr t.tree)] hfG (by decide)
  have wG := newSection_spec haG hsG
  have someG : ∀ {dd : Ini} {o : IniSec}, Wrote d9 dd [(sGeneral, o)] [sGeneral] → (dd.lookup sGeneral).isSome := by
    intro dd o w; rw [w.look]; simp [lookup_cons_eq]
  obtain ⟨e1, he1⟩ := set_conv (k := kTimestamp) (v := Str.intStr n) (someG wG)
  have wG1 := wG.setSingle he1
  obtain ⟨e2, he2⟩ := set_conv (k := kVariants) (v := Str.joinWith ',' (Ini.sortS (t.variants.map Variant.key))) (someG wG1)
  have wG2 := wG1.setSingle he2
  obtain ⟨e3, he3⟩ := set_conv (k := tVariant) (v := key) (someG wG2)
  have wG3 := wG2.setSingle he3
  have hopt : ∀ {dd : Ini} {o : IniSec} (k : Str) (x : Option Str), Wrote d9 dd [(sGeneral, o)] [sGeneral] →
      ∃ dd' o', setOpt dd sGeneral k x = .ok dd' ∧ Wrote d9 dd' [(sGeneral, o')] [sGeneral] := by
    intro dd o k x w
    cases x with
    | none => exact ⟨dd, o, rfl, w⟩
    | some p =>
      obtain ⟨dd', h'⟩ := set_conv (k := k) (v := p) (someG w)
      exact ⟨dd', _, h', w.setSingle h'⟩
  obtain ⟨e4, o4, he4, wG4⟩ := hopt kPackagedir (generalPath t.tree.arch v.paths "packages".toList "source_packages".toList) wG3
  obtain ⟨e5, o5, he5, _⟩ := hopt kRepository (generalPath t.tree.arch v.paths "repository".toList "source_repository".toList) wG4
  have hG : serGeneral t mv d9 = .ok e5 := by
    unfold serGeneral
    simp only [haG, hsG, hn, he1, he2, hkey, he3, hv, he4, he5, bind, Except.bind]
  refine ⟨e5, ?_⟩
  unfold serialize serializeInto
  simp [treeinfo_valid, h1, h2, h3, h4, hT, h6, h7, h8, h9, hG, bind, Except.bind]

end TI
end PM
