import ProductMD.Spec.Images
import ProductMD.Proofs.PyValEq
/-!
Lemmas about `Images.add` (model: `Img.add` = the generated statement list run by `runSteps`).
-/
namespace PM.Img
open PM PM.PyOps PM.Spec

/-! ### identity: the generated attribute list gives the spec tuple -/

theorem identifyObj_eq_spec (i : Image) : identifyObj i = identity7 i := by
  cases i; rfl

theorem identEq_iff (a b : Image) : identEq a b = true ↔ SameIdentity a b := by
  unfold identEq SameIdentity PyEq
  rw [identifyObj_eq_spec, identifyObj_eq_spec]
  exact pyEq_iff _ _

theorem ckEq_iff (a b : Image) : ckEq a b = true ↔ PyEq a.checksums b.checksums := pyEq_iff _ _

theorem PyEq.symm {a b : PyVal} (h : PyEq a b) : PyEq b a := Eq.symm h
theorem PyEq.refl (a : PyVal) : PyEq a a := rfl
theorem SameIdentity.symm {a b : Image} (h : SameIdentity a b) : SameIdentity b a := Eq.symm h

/-- the scan finds nothing iff the new image is compatible with every filed image -/
theorem conflict_false_iff (cs : Cells) (img : Image) :
    conflict cs img = false ↔ ∀ cur ∈ cs.all, SameIdentity cur img → PyEq cur.checksums img.checksums := by
  unfold conflict
  rw [List.any_eq_false]
  constructor
  · intro h cur hc hid
    have := h cur hc
    rw [(identEq_iff cur img).mpr hid] at this
    simp only [Bool.true_and, Bool.not_eq_true', Bool.not_eq_false] at this
    exact (ckEq_iff _ _).mp (by simpa using this)
  · intro h cur hc
    cases hi : identEq cur img
    · simp
    · have := (ckEq_iff _ _).mpr (h cur hc ((identEq_iff _ _).mp hi))
      simp [this]

/-! ### membership after an insertion -/

theorem mem_cellAdd {c : Cell} {id : Nat} {img : Image} {x : Nat × Image} :
    x ∈ cellAdd c id img → x = (id, img) ∨ x ∈ c := by
  unfold cellAdd
  split
  · exact Or.inr
  · intro h
    rcases List.mem_append.mp h with h | h
    · exact Or.inr h
    · exact Or.inl (by simpa using h)

theorem mem_cellAdd_old {c : Cell} {id : Nat} {img : Image} {x : Nat × Image} (h : x ∈ c) : x ∈ cellAdd c id img := by
  unfold cellAdd
  split
  · exact h
  · exact List.mem_append_left _ h

def archAll (as : List (Str × Cell)) : List Image := as.flatMap fun ac => ac.2.map (·.2)

theorem Cells.all_cons (va : Str × List (Str × Cell)) (cs : Cells) :
    Cells.all (va :: cs) = archAll va.2 ++ Cells.all cs := by
  simp [Cells.all, archAll]

theorem archAll_cons (ac : Str × Cell) (as : List (Str × Cell)) :
    archAll (ac :: as) = ac.2.map (·.2) ++ archAll as := by
  simp [archAll]

theorem mem_archAdd {as : List (Str × Cell)} {a : Str} {id : Nat} {img x : Image} :
    x ∈ archAll (archAdd as a id img) → x = img ∨ x ∈ archAll as := by
  induction as with
  | nil =>
    intro h
    simp [archAdd, archAll] at h
    exact Or.inl h
  | cons ac rest ih =>
    obtain ⟨a', c⟩ := ac
    unfold archAdd
    split
    · intro h
      rw [archAll_cons] at h
      rw [archAll_cons]
      rcases List.mem_append.mp h with h | h
      · obtain ⟨y, hy, rfl⟩ := List.mem_map.mp h
        rcases mem_cellAdd hy with e | e
        · exact Or.inl (by rw [e])
        · exact Or.inr (List.mem_append_left _ (List.mem_map.mpr ⟨y, e, rfl⟩))
      · exact Or.inr (List.mem_append_right _ h)
    · intro h
      rw [archAll_cons] at h
      rw [archAll_cons]
      rcases List.mem_append.mp h with h | h
      · exact Or.inr (List.mem_append_left _ h)
      · rcases ih h with e | e
        · exact Or.inl e
        · exact Or.inr (List.mem_append_right _ e)

theorem mem_archAdd_old {as : List (Str × Cell)} {a : Str} {id : Nat} {img x : Image} :
    x ∈ archAll as → x ∈ archAll (archAdd as a id img) := by
  induction as with
  | nil => intro h; simp [archAll] at h
  | cons ac rest ih =>
    obtain ⟨a', c⟩ := ac
    unfold archAdd
    split
    · intro h
      rw [archAll_cons] at h
      rw [archAll_cons]
      rcases List.mem_append.mp h with h | h
      · obtain ⟨y, hy, rfl⟩ := List.mem_map.mp h
        exact List.mem_append_left _ (List.mem_map.mpr ⟨y, mem_cellAdd_old hy, rfl⟩)
      · exact List.mem_append_right _ h
    · intro h
      rw [archAll_cons] at h
      rw [archAll_cons]
      rcases List.mem_append.mp h with h | h
      · exact List.mem_append_left _ h
      · exact List.mem_append_right _ (ih h)

/-- nothing but the new image appears -/
theorem mem_cellsAdd {cs : Cells} {v a : Str} {id : Nat} {img x : Image} :
    x ∈ (cellsAdd cs v a id img).all → x = img ∨ x ∈ cs.all := by
  induction cs with
  | nil =>
    intro h
    simp [cellsAdd, Cells.all] at h
    exact Or.inl h
  | cons va rest ih =>
    obtain ⟨v', as⟩ := va
    unfold cellsAdd
    split
    · intro h
      rw [Cells.all_cons] at h
      rw [Cells.all_cons]
      rcases List.mem_append.mp h with h | h
      · rcases mem_archAdd h with e | e
        · exact Or.inl e
        · exact Or.inr (List.mem_append_left _ e)
      · exact Or.inr (List.mem_append_right _ h)
    · intro h
      rw [Cells.all_cons] at h
      rw [Cells.all_cons]
      rcases List.mem_append.mp h with h | h
      · exact Or.inr (List.mem_append_left _ h)
      · rcases ih h with e | e
        · exact Or.inl e
        · exact Or.inr (List.mem_append_right _ e)

/-- nothing disappears -/
theorem mem_cellsAdd_old {cs : Cells} {v a : Str} {id : Nat} {img x : Image} :
    x ∈ cs.all → x ∈ (cellsAdd cs v a id img).all := by
  induction cs with
  | nil => intro h; simp [Cells.all] at h
  | cons va rest ih =>
    obtain ⟨v', as⟩ := va
    unfold cellsAdd
    split
    · intro h
      rw [Cells.all_cons] at h
      rw [Cells.all_cons]
      rcases List.mem_append.mp h with h | h
      · exact List.mem_append_left _ (mem_archAdd_old h)
      · exact List.mem_append_right _ h
    · intro h
      rw [Cells.all_cons] at h
      rw [Cells.all_cons]
      rcases List.mem_append.mp h with h | h
      · exact List.mem_append_left _ h
      · exact List.mem_append_right _ (ih h)

/-! ### uniqueness is preserved by a guarded insertion -/

theorem uniq_insert {cs : Cells} {v a : Str} {id : Nat} {img : Image} (h : Uniq cs)
    (hc : conflict cs img = false) : Uniq (cellsAdd cs v a id img) := by
  have hc' := (conflict_false_iff cs img).mp hc
  intro i hi j hj hid
  rcases mem_cellsAdd hi with rfl | hi' <;> rcases mem_cellsAdd hj with rfl | hj'
  · exact PyEq.refl _
  · exact (hc' j hj' hid.symm).symm
  · exact hc' i hi' hid
  · exact h i hi' j hj' hid

/-- inserting an image twice: the scan still passes afterwards -/
theorem conflict_after_insert {cs : Cells} {v a : Str} {id : Nat} {img : Image}
    (hc : conflict cs img = false) : conflict (cellsAdd cs v a id img) img = false := by
  rw [conflict_false_iff] at *
  intro cur hcur hid
  rcases mem_cellsAdd hcur with rfl | h
  · exact PyEq.refl _
  · exact hc cur h hid

/-! ### the statement list -/

/-- the uniqueness scan is switched on for this header version (generated gate) -/
def Enforces (ver : PyVal) : Prop :=
  (versionTuple ver).bind (gateEval Gen.gate_images_Images_add_0) = .ok true

theorem runStep_pure (v a : Str) (id : Nat) (img : Image) (st : AddStep) (s : ImgState)
    (h : st.mutates = false) : (runStep v a id img st s).1 = s := by
  cases st <;> simp [AddStep.mutates] at h <;> rfl

theorem runStep_infallible (v a : Str) (id : Nat) (img : Image) (st : AddStep) (s : ImgState)
    (h : st.fallible = false) : (runStep v a id img st s).2 = .ok () := by
  cases st <;> simp [AddStep.fallible] at h <;> rfl

theorem runSteps_infallible (v a : Str) (id : Nat) (img : Image) (script : List AddStep) (s : ImgState)
    (h : script.all (fun r => !r.fallible) = true) : (runSteps v a id img script s).2 = .ok () := by
  induction script generalizing s with
  | nil => rfl
  | cons st rest ih =>
    simp only [List.all_cons, Bool.and_eq_true, Bool.not_eq_true'] at h
    have h1 := runStep_infallible v a id img st s h.1
    unfold runSteps
    cases hr : runStep v a id img st s with
    | mk s' r =>
      rw [hr] at h1
      simp only at h1
      subst h1
      exact ih s' h.2

/-- **order of effects**: if no statement that can raise follows one that can mutate, a raised exception leaves
the object as it was -/
theorem refusal_of_safeOrder (v a : Str) (id : Nat) (img : Image) (script : List AddStep) (s : ImgState)
    (h : safeOrder script = true) (e : Err) :
    (runSteps v a id img script s).2 = .error e → (runSteps v a id img script s).1 = s := by
  induction script generalizing s with
  | nil => intro he; rfl
  | cons st rest ih =>
    unfold safeOrder at h
    split at h
    · -- a mutating statement: nothing after it can raise
      rename_i hm
      intro he
      unfold runSteps at he ⊢
      cases hr : runStep v a id img st s with
      | mk s' r =>
        rw [hr] at he
        cases r with
        | error e' =>
          -- the mutating statement itself raised: only `.unknown` can, and it leaves the state alone
          cases st <;> simp [AddStep.mutates] at hm
          · simp [runStep] at hr
          · simp only [runStep, Prod.mk.injEq] at hr
            simp only []
            exact hr.1.symm
        | ok u =>
          cases u
          simp only at he
          rw [runSteps_infallible v a id img rest s' h] at he
          cases he
    · rename_i hm
      simp only [Bool.not_eq_true] at hm
      intro he
      have hp := runStep_pure v a id img st s hm
      unfold runSteps at he ⊢
      cases hr : runStep v a id img st s with
      | mk s' r =>
        rw [hr] at he hp
        simp only at hp
        subst hp
        cases r with
        | error e' => rfl
        | ok u =>
          cases u
          exact ih s' h he

theorem runSteps_version (v a : Str) (id : Nat) (img : Image) (script : List AddStep) (s : ImgState) :
    (runSteps v a id img script s).1.version = s.version ∧ (runSteps v a id img script s).1.compose = s.compose := by
  induction script generalizing s with
  | nil => exact ⟨rfl, rfl⟩
  | cons st rest ih =>
    unfold runSteps
    have hv : (runStep v a id img st s).1.version = s.version ∧ (runStep v a id img st s).1.compose = s.compose := by
      cases st <;> exact ⟨rfl, rfl⟩
    cases hr : runStep v a id img st s with
    | mk s' r =>
      rw [hr] at hv
      cases r with
      | error e => exact hv
      | ok u =>
        cases u
        have := ih s'
        exact ⟨this.1.trans hv.1, this.2.trans hv.2⟩

/-- the scan statement under an enforcing version: passes exactly when there is no conflict -/
theorem scan_enforced (v a : Str) (id : Nat) (img : Image) (s : ImgState) (hv : Enforces s.version) :
    (runStep v a id img .uniqScan s).2 = (if conflict s.cells img then .error .valueError else .ok ()) := by
  unfold Enforces at hv
  simp only [runStep]
  cases hvt : versionTuple s.version with
  | error e => rw [hvt] at hv; cases hv
  | ok vt =>
    rw [hvt] at hv
    simp only [Except.bind] at hv
    simp only [bind, Except.bind, hv, Bool.true_and]

theorem runStep_err_class (v a : Str) (id : Nat) (img : Image) (st : AddStep) (s : ImgState) (e : Err)
    (hk : st ≠ .unknown) (hv : Enforces s.version) (h : (runStep v a id img st s).2 = .error e) : e = .valueError := by
  cases st with
  | unknown => exact absurd rfl hk
  | insert => simp [runStep] at h
  | archTable => simp only [runStep] at h; split at h <;> simp_all
  | srcRefusal => simp only [runStep] at h; split at h <;> simp_all
  | uniqScan => rw [scan_enforced v a id img s hv] at h; split at h <;> simp_all

/-- under an enforcing (hence valid) header version every exception of a known statement list is ValueError -/
theorem runSteps_err_class (v a : Str) (id : Nat) (img : Image) (script : List AddStep) (s : ImgState) (e : Err)
    (hk : AddStep.unknown ∉ script) (hv : Enforces s.version)
    (h : (runSteps v a id img script s).2 = .error e) : e = .valueError := by
  induction script generalizing s with
  | nil => simp [runSteps] at h
  | cons st rest ih =>
    unfold runSteps at h
    have hst : st ≠ .unknown := fun e => hk (e ▸ List.mem_cons_self)
    have hcls := runStep_err_class v a id img st s
    have hver : (runStep v a id img st s).1.version = s.version := by cases st <;> rfl
    cases hr : runStep v a id img st s with
    | mk s' r =>
      rw [hr] at h hcls hver
      cases r with
      | error e' => simp only at h; injection h with h; subst h; exact hcls e' hst hv rfl
      | ok u =>
        cases u
        simp only at h hver
        exact ih s' (fun hm => hk (List.mem_cons_of_mem _ hm)) (hver ▸ hv) h

/-- **scan before insertion**: whatever the statement list, if every insertion comes after a scan then an
enforcing version keeps the manifest unique -/
theorem uniq_of_scanGuard (v a : Str) (id : Nat) (img : Image) (script : List AddStep) (s : ImgState) (seen : Bool)
    (hg : scanGuard script seen = true) (hv : Enforces s.version) (hu : Uniq s.cells)
    (hseen : seen = true → conflict s.cells img = false) :
    Uniq (runSteps v a id img script s).1.cells := by
  induction script generalizing s seen with
  | nil => exact hu
  | cons st rest ih =>
    unfold runSteps
    cases st with
    | archTable =>
      simp only [runStep]
      split
      · rename_i h1; simp only [Prod.mk.injEq] at h1; obtain ⟨rfl, _⟩ := h1
        exact ih s seen (by simpa [scanGuard] using hg) hv hu hseen
      · rename_i h1; simp only [Prod.mk.injEq] at h1; obtain ⟨rfl, _⟩ := h1; exact hu
    | srcRefusal =>
      simp only [runStep]
      split
      · rename_i h1; simp only [Prod.mk.injEq] at h1; obtain ⟨rfl, _⟩ := h1
        exact ih s seen (by simpa [scanGuard] using hg) hv hu hseen
      · rename_i h1; simp only [Prod.mk.injEq] at h1; obtain ⟨rfl, _⟩ := h1; exact hu
    | unknown =>
      simp only [runStep]
      exact hu
    | uniqScan =>
      have hsc := scan_enforced v a id img s hv
      cases hr : runStep v a id img .uniqScan s with
      | mk s' r =>
        have hs' : s' = s := by
          have := runStep_pure v a id img .uniqScan s rfl
          rw [hr] at this; exact this
        subst hs'
        rw [hr] at hsc
        simp only at hsc
        cases r with
        | error e => exact hu
        | ok u =>
          cases u
          have hc : conflict s'.cells img = false := by
            cases hcf : conflict s'.cells img
            · rfl
            · rw [hcf] at hsc; simp at hsc
          exact ih s' true (by simpa [scanGuard] using hg) hv hu (fun _ => hc)
    | insert =>
      simp only [scanGuard, Bool.and_eq_true] at hg
      simp only [runStep]
      have hc := hseen hg.1
      exact ih _ seen hg.2 hv (uniq_insert hu hc) (fun _ => conflict_after_insert hc)

end PM.Img
