import ProductMD.Proofs.ImagesLoad
import ProductMD.Proofs.ImagesValid
/-!
Field-level round trips: an image dictionary written by `Image.serialize` is read back as the same image by
`Image.deserialize` under the current format version; the compose section comes back normalised.
-/
namespace PM.Img
open PM PM.PyOps PM.Spec
set_option Elab.async false

theorem cur_vt : versionTuple (.str currentVersion) = .ok (.nums Gen.VERSION) := by decide +kernel
theorem cur_not_old_image : gateEval Gen.gate_images_Image_deserialize_0 (.nums Gen.VERSION) = .ok false := by decide +kernel

theorem image_roundtrip (i : Image) (hv : i.validate = .ok ()) (hp : ProperInts i) :
    Image.deserialize (.str currentVersion) i.dict = .ok i := by
  obtain ⟨b, hb⟩ := valid_unified i hv
  obtain ⟨bb, hbb⟩ := valid_bootable i hv
  obtain ⟨l, hl⟩ := valid_av i hv
  have hm := valid_merges i hv
  obtain ⟨⟨n1, h1⟩, ⟨n2, h2⟩, ⟨n3, h3⟩, ⟨n4, h4⟩⟩ := hp
  cases i with
  | mk path mtime size volume_id type format arch disc_number disc_count checksums implant_md5 bootable subvariant unified additional_variants =>
    simp only at hb hbb hl h1 h2 h3 h4 hm
    subst hb hbb hl h1 h2 h3 h4
    cases b with
    | true =>
      have : ∀ j : Image, j = ⟨path, .int n1, .int n2, volume_id, type, format, arch, .int n3, .int n4, checksums, implant_md5, .bool bb, subvariant, .bool true, .list l⟩ →
          Image.deserialize (.str currentVersion) j.dict = (j.validate >>= fun _ => .ok j) := by
        intro j hj; subst hj; rfl
      rw [this _ rfl, hv]; rfl
    | false =>
      have hl' : l = [] := by
        cases l with
        | nil => rfl
        | cons x xs => simp [PyVal.truthy] at hm
      subst hl'
      have : ∀ j : Image, j = ⟨path, .int n1, .int n2, volume_id, type, format, arch, .int n3, .int n4, checksums, implant_md5, .bool bb, subvariant, .bool false, .list []⟩ →
          Image.deserialize (.str currentVersion) j.dict = (j.validate >>= fun _ => .ok j) := by
        intro j hj; subst hj; rfl
      rw [this _ rfl, hv]; rfl

theorem compose_validate_unfold (c : Compose) : c.validate = runRules customs c.toObj Gen.rules_composeinfo_Compose.flat := by rfl

theorem rule_final_mem : Rule.guarded (.truthy ['l','a','b','e','l']) (.type ['f','i','n','a','l'] [.bool]) ∈ Gen.rules_composeinfo_Compose.flat := by
  simp only [Gen.rules_composeinfo_Compose, MethodRules.flat, List.flatMap_cons, List.flatMap_nil, List.cons_append, List.nil_append, List.append_nil]
  find_mem

theorem rule_label_mem : Rule.type ['l','a','b','e','l'] [.none, .str] ∈ Gen.rules_composeinfo_Compose.flat := by
  simp only [Gen.rules_composeinfo_Compose, MethodRules.flat, List.flatMap_cons, List.flatMap_nil, List.cons_append, List.nil_append, List.append_nil]
  find_mem

theorem rule_verify_label_mem : Rule.custom "composeinfo.Compose._validate_label:verify_label(self.label)".toList ∈ Gen.rules_composeinfo_Compose.flat := by
  simp only [Gen.rules_composeinfo_Compose, MethodRules.flat, List.flatMap_cons, List.flatMap_nil, List.cons_append, List.nil_append, List.append_nil]
  find_mem

theorem verify_label_empty : verifyLabel (.str []) = .error .valueError := by decide +kernel

theorem frame_final (id type date respin f : PyVal) :
    Compose.validate ⟨id, type, date, respin, .none, f⟩ = Compose.validate ⟨id, type, date, respin, .none, .bool false⟩ := by rfl

theorem norm_valid (c : Compose) (h : c.validate = .ok ()) : (composeNorm c) = (if c.label.truthy then c else { c with final := .bool false }) ∧ (composeNorm c).validate = .ok () := by
  have h' := h
  rw [compose_validate_unfold] at h'
  have hf := (runRules_ok_iff _ _ _).mp h' _ rule_final_mem
  have hl := (runRules_ok_iff _ _ _).mp h' _ rule_label_mem
  have hvl := (runRules_ok_iff _ _ _).mp h' _ rule_verify_label_mem
  cases c with
  | mk id type date respin label final =>
    cases label with
    | none =>
      refine ⟨rfl, ?_⟩
      show Compose.validate ⟨id, type, date, respin, .none, .bool false⟩ = _
      rw [← frame_final id type date respin final]; exact h
    | str s =>
      cases s with
      | nil =>
        have : Rule.check customs (Compose.toObj ⟨id, type, date, respin, .str [], final⟩)
            (Rule.custom "composeinfo.Compose._validate_label:verify_label(self.label)".toList) = verifyLabel (.str []) := by rfl
        rw [this, verify_label_empty] at hvl
        cases hvl
      | cons ch rest =>
        cases final with
        | bool b => cases b <;> exact ⟨rfl, h⟩
        | _ => exact absurd hf (by intro h; cases h)
    | _ => exact absurd hl (by intro h; cases h)


/-- the compose section as written is read back as its normal form -/
theorem compose_roundtrip (c : Compose) (rest : PyVal) (d : PyVal) (h : c.serialize = .ok d) :
    Compose.deserialize (.str currentVersion) (.dict [(L "images", rest), (L "compose", d)]) = .ok (composeNorm c) := by
  unfold Compose.serialize at h
  obtain ⟨u, hv, h⟩ := bind_ok h
  cases u
  injection h with h
  subst h
  have hn := (norm_valid c hv).2
  cases c with
  | mk id type date respin label final =>
    cases hl : label.truthy
    · have : Compose.deserialize (.str currentVersion) (.dict [(L "images", rest), (L "compose",
          .dict [(L "id", id), (L "type", type), (L "date", date), (L "respin", respin)])])
          = ((composeNorm ⟨id, type, date, respin, label, final⟩).validate >>= fun _ => .ok (composeNorm ⟨id, type, date, respin, label, final⟩)) := by
        simp only [composeNorm, hl]; rfl
      simp only [hl, Bool.false_eq_true, ↓reduceIte]
      rw [this, hn]; rfl
    · have e : Compose.deserialize (.str currentVersion) (.dict [(L "images", rest), (L "compose",
          .dict ([(L "id", id), (L "type", type), (L "date", date), (L "respin", respin)] ++ [(L "label", label), (L "final", final)]))])
          = (Compose.validate ⟨id, type, date, respin, pyOr label .none, .bool (pyBool final)⟩ >>= fun _ =>
              .ok ⟨id, type, date, respin, pyOr label .none, .bool (pyBool final)⟩) := by rfl
      have hn' : composeNorm ⟨id, type, date, respin, label, final⟩ = ⟨id, type, date, respin, pyOr label .none, .bool (pyBool final)⟩ := by
        simp only [composeNorm, pyOr, pyBool, hl, ↓reduceIte]
      simp only [hl, ↓reduceIte]
      rw [e, ← hn', hn]; rfl

end PM.Img
