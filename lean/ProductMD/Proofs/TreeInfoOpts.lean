import ProductMD.Proofs.TreeInfoView
/-!
The options stored in each section of the written document, option by option.
-/
namespace PM
namespace TI
open Ini

theorem mem_of_lookup_some {α} {l : List (Str × α)} {k : Str} {v : α} (h : l.lookup k = some v) : (k, v) ∈ l := by
  induction l with
  | nil => simp at h
  | cons x xs ih =>
    obtain ⟨a, b⟩ := x
    rw [lookup_cons_eq] at h
    by_cases e : a = k
    · subst e; simp at h; subst h; exact List.mem_cons_self ..
    · simp only [e, if_false] at h
      exact List.mem_cons_of_mem _ (ih h)

theorem mem_keys_of_lookup_some {α} {l : List (Str × α)} {k : Str} {v : α} (h : l.lookup k = some v) : k ∈ l.map (·.1) :=
  List.mem_map.mpr ⟨(k, v), mem_of_lookup_some h, rfl⟩

theorem lookup_reverse_nodup {α} {l : List (Str × α)} (hn : (l.map (·.1)).Nodup) (k : Str) :
    l.reverse.lookup k = l.lookup k := by
  have hn' : (l.reverse.map (·.1)).Nodup := by
    rw [List.map_reverse]; exact (List.reverse_perm _).nodup_iff.mpr hn
  cases h : l.lookup k with
  | some v => exact lookup_of_mem_nodup hn' (List.mem_reverse.mpr (mem_of_lookup_some h))
  | none =>
    apply lookup_none_of_not_mem_keys
    intro hm
    rw [List.map_reverse, List.mem_reverse] at hm
    have := lookup_isSome_of_mem_keys hm
    simp [h] at this

/-- with pairwise distinct keys, a run of `set` calls on a fresh section leaves the list itself -/
theorem setKV_append_fresh {α} (k : Str) (v : α) (l : List (Str × α)) (h : k ∉ l.map (·.1)) : setKV k v l = l ++ [(k, v)] := by
  induction l with
  | nil => rfl
  | cons x xs ih =>
    simp only [List.map_cons, List.mem_cons, not_or] at h
    have hb : (x.1 == k) = false := by
      simp only [beq_eq_false_iff_ne, ne_eq]; exact fun e => h.1 e.symm
    simp [setKV, hb, ih h.2]

theorem setsKV_append_nodup (o kvs : IniSec) (h : ((o ++ kvs).map (·.1)).Nodup) : setsKV o kvs = o ++ kvs := by
  induction kvs generalizing o with
  | nil => simp [setsKV]
  | cons kv rest ih =>
    have hk : kv.1 ∉ o.map (·.1) := by
      intro hm
      rw [List.map_append, List.nodup_append] at h
      exact h.2.2 _ hm _ (by simp) rfl
    have : setsKV o (kv :: rest) = setsKV (setKV kv.1 kv.2 o) rest := rfl
    rw [this, setKV_append_fresh _ _ _ hk, ih]
    · simp
    · simpa using h

theorem setsKV_nil_nodup (kvs : IniSec) (h : (kvs.map (·.1)).Nodup) : setsKV [] kvs = kvs := by
  have := setsKV_append_nodup [] kvs (by simpa using h)
  simpa using this

/-! ### variant sections -/

theorem pathOpts_keys (paths : List (Str × Str)) : ∀ k ∈ (pathOpts paths).map (·.1), k ∈ Gen.TREEINFO_PATH_FIELDS := by
  intro k hk
  unfold pathOpts at hk
  simp only [List.mem_map, List.mem_filterMap] at hk
  obtain ⟨kv, ⟨f, hf, hv⟩, rfl⟩ := hk
  cases hl : paths.lookup f with
  | none => simp [hl] at hv
  | some v => simp [hl] at hv; subst hv; exact hf

theorem filterMap_lookup (paths : List (Str × Str)) : ∀ (fs : List Str) (f : Str), f ∈ fs →
    (fs.filterMap fun f => (paths.lookup f).map fun v => (f, v)).lookup f = paths.lookup f
  | [], f, h => by cases h
  | g :: gs, f, h => by
    simp only [List.filterMap_cons]
    by_cases e : g = f
    · subst e
      cases hl : paths.lookup g with
      | none =>
        simp only [hl, Option.map_none]
        apply lookup_none_of_not_mem_keys
        intro hm
        simp only [List.mem_map, List.mem_filterMap] at hm
        obtain ⟨kv, ⟨f', _, hv⟩, hk⟩ := hm
        cases hl' : paths.lookup f' with
        | none => simp [hl'] at hv
        | some v => simp [hl'] at hv; subst hv; simp at hk; subst hk; simp [hl] at hl'
      | some v => simp [hl, lookup_cons_eq]
    · have hmem : f ∈ gs := by
        cases h with
        | head => exact absurd rfl e
        | tail _ h => exact h
      cases hl : paths.lookup g with
      | none => simp only [hl, Option.map_none]; exact filterMap_lookup paths gs f hmem
      | some v =>
        simp only [hl, Option.map_some, lookup_cons_eq, e, if_false]
        exact filterMap_lookup paths gs f hmem

theorem pathOpts_lookup (paths : List (Str × Str)) (f : Str) (hf : f ∈ Gen.TREEINFO_PATH_FIELDS) :
    (pathOpts paths).lookup f = paths.lookup f := filterMap_lookup paths _ f hf

theorem pathOpts_nodup (paths : List (Str × Str)) : ((pathOpts paths).map (·.1)).Nodup := by
  have hsub : ((pathOpts paths).map (·.1)).Sublist Gen.TREEINFO_PATH_FIELDS := by
    unfold pathOpts
    generalize Gen.TREEINFO_PATH_FIELDS = fs
    induction fs with
    | nil => simp
    | cons g gs ih =>
      simp only [List.filterMap_cons]
      cases hl : paths.lookup g with
      | none => simp only [hl, Option.map_none]; exact List.Sublist.cons _ ih
      | some v => simp only [hl, Option.map_some, List.map_cons]; exact List.Sublist.cons₂ _ ih
  exact hsub.nodup (by decide)

theorem pathOpts_idem (paths : List (Str × Str)) : pathOpts (pathOpts paths) = pathOpts paths := by
  have key : ∀ fs : List Str, (∀ f ∈ fs, f ∈ Gen.TREEINFO_PATH_FIELDS) →
      fs.filterMap (fun f => ((pathOpts paths).lookup f).map fun v => (f, v))
        = fs.filterMap (fun f => (paths.lookup f).map fun v => (f, v)) := by
    intro fs
    induction fs with
    | nil => intro _; rfl
    | cons g gs ih =>
      intro h
      simp only [List.filterMap_cons]
      rw [pathOpts_lookup paths g (h g (List.mem_cons_self ..)), ih (fun f hf => h f (List.mem_cons_of_mem _ hf))]
  exact key _ (fun _ h => h)

theorem fields_not_fixed : ∀ f ∈ Gen.TREEINFO_PATH_FIELDS,
    f ≠ kId ∧ f ≠ kUid ∧ f ≠ kName ∧ f ≠ kType ∧ f ≠ kParent ∧ f ≠ kAddons ∧ nc f = true := by decide

/-- the options written after the four identifying ones: path kinds, then `parent` -/
def tailOpts (pu : Option Str) (paths : List (Str × Str)) : IniSec :=
  pathOpts paths ++ parentOpt pu

theorem tailOpts_nodup (pu : Option Str) (paths : List (Str × Str)) : ((tailOpts pu paths).map (·.1)).Nodup := by
  unfold tailOpts
  cases pu with
  | none => simpa [parentOpt] using pathOpts_nodup paths
  | some p =>
    simp only [parentOpt]
    rw [List.map_append, List.nodup_append]
    refine ⟨pathOpts_nodup paths, by simp, ?_⟩
    intro a ha b hb e
    simp at hb
    subst hb; subst e
    exact (fields_not_fixed _ (pathOpts_keys paths _ ha)).2.2.2.2.1 rfl

theorem tailOpts_lookup_field (pu : Option Str) (paths : List (Str × Str)) (f : Str) (hf : f ∈ Gen.TREEINFO_PATH_FIELDS) :
    (tailOpts pu paths).lookup f = paths.lookup f := by
  unfold tailOpts
  rw [List.lookup_append, pathOpts_lookup paths f hf]
  cases hl : paths.lookup f with
  | some v => rfl
  | none =>
    cases pu with
    | none => rfl
    | some p =>
      have : ¬ kParent = f := fun e => (fields_not_fixed f hf).2.2.2.2.1 e.symm
      simp only [parentOpt]
      rw [lookup_cons_eq]; simp [this]

theorem tailOpts_lookup_other (pu : Option Str) (paths : List (Str × Str)) (k : Str) (hk : k ∉ Gen.TREEINFO_PATH_FIELDS) :
    (tailOpts pu paths).lookup k = match pu with | some p => if kParent = k then some p else none | none => none := by
  unfold tailOpts
  have : (pathOpts paths).lookup k = none := lookup_none_of_not_mem_keys fun hm => hk (pathOpts_keys paths k hm)
  rw [List.lookup_append, this]
  cases pu with
  | none => rfl
  | some p => simp only [parentOpt]; rw [lookup_cons_eq]; rfl

theorem baseOpts_lookup (pu : Option Str) (id uid name type : Str) (paths : List (Str × Str)) (k : Str) :
    (baseOpts pu id uid name type paths).lookup k =
      match (tailOpts pu paths).lookup k with
      | some v => some v
      | none => (setsKV [] [(kId, id), (kUid, uid), (kName, name), (kType, type)]).lookup k := by
  unfold baseOpts
  rw [lookup_setsKV]
  show (match (tailOpts pu paths).reverse.lookup k with | some v => some v | none => _) = _
  rw [lookup_reverse_nodup (tailOpts_nodup pu paths)]

theorem four_lookup (id uid name type k : Str) :
    (setsKV [] [(kId, id), (kUid, uid), (kName, name), (kType, type)]).lookup k =
      if kId = k then some id else if kUid = k then some uid else if kName = k then some name
      else if kType = k then some type else none := by
  have hn : ([(kId, id), (kUid, uid), (kName, name), (kType, type)].map (·.1)).Nodup := by
    show [kId, kUid, kName, kType].Nodup
    decide
  rw [setsKV_nil_nodup _ hn, lookup_cons_eq, lookup_cons_eq, lookup_cons_eq, lookup_cons_eq]
  rfl

/-- the facts a variant's own section states, option by option -/
theorem varOpts_lookup (pu : Option Str) (key id uid name type : Str) (paths : List (Str × Str)) (kids : List Variant) :
    let o := varOpts pu (.mk key id uid name type paths kids)
    o.lookup kId = some id ∧ o.lookup kUid = some uid ∧ o.lookup kName = some name ∧ o.lookup kType = some type ∧
    (∀ f ∈ Gen.TREEINFO_PATH_FIELDS, o.lookup f = paths.lookup f) ∧
    o.lookup kParent = pu ∧
    o.lookup kAddons = if kids.isEmpty then none else some (Str.joinWith ',' (Str.sortDedup (kids.map Variant.uid))) := by
  intro o
  have hbase : ∀ k, o.lookup k = if kids.isEmpty then (baseOpts pu id uid name type paths).lookup k
      else if kAddons = k then some (Str.joinWith ',' (Str.sortDedup (kids.map Variant.uid)))
      else (baseOpts pu id uid name type paths).lookup k := by
    intro k
    show (varOpts pu (.mk key id uid name type paths kids)).lookup k = _
    unfold varOpts
    cases he : kids.isEmpty
    · simp only [he, Bool.false_eq_true, if_false, lookup_setKV]
    · simp only [he, if_true]
  have nf : ∀ k, k ∉ Gen.TREEINFO_PATH_FIELDS → (baseOpts pu id uid name type paths).lookup k =
      match (match pu with | some p => if kParent = k then some p else none | none => none) with
      | some v => some v
      | none => if kId = k then some id else if kUid = k then some uid else if kName = k then some name
          else if kType = k then some type else none := by
    intro k hk
    rw [baseOpts_lookup, tailOpts_lookup_other pu paths k hk, four_lookup]
  have e1 : kId ∉ Gen.TREEINFO_PATH_FIELDS := by decide
  have e2 : kUid ∉ Gen.TREEINFO_PATH_FIELDS := by decide
  have e3 : kName ∉ Gen.TREEINFO_PATH_FIELDS := by decide
  have e4 : kType ∉ Gen.TREEINFO_PATH_FIELDS := by decide
  have e5 : kParent ∉ Gen.TREEINFO_PATH_FIELDS := by decide
  have e6 : kAddons ∉ Gen.TREEINFO_PATH_FIELDS := by decide
  refine ⟨?_, ?_, ?_, ?_, ?_, ?_, ?_⟩
  · rw [hbase, nf _ e1]; cases pu <;> cases kids.isEmpty <;> simp (decide := true)
  · rw [hbase, nf _ e2]; cases pu <;> cases kids.isEmpty <;> simp (decide := true)
  · rw [hbase, nf _ e3]; cases pu <;> cases kids.isEmpty <;> simp (decide := true)
  · rw [hbase, nf _ e4]; cases pu <;> cases kids.isEmpty <;> simp (decide := true)
  · intro f hf
    have hne : ¬ kAddons = f := fun e => (fields_not_fixed f hf).2.2.2.2.2.1 e.symm
    rw [hbase, baseOpts_lookup, tailOpts_lookup_field pu paths f hf, four_lookup]
    have h1 : ¬ kId = f := fun e => (fields_not_fixed f hf).1 e.symm
    have h2 : ¬ kUid = f := fun e => (fields_not_fixed f hf).2.1 e.symm
    have h3 : ¬ kName = f := fun e => (fields_not_fixed f hf).2.2.1 e.symm
    have h4 : ¬ kType = f := fun e => (fields_not_fixed f hf).2.2.2.1 e.symm
    cases paths.lookup f <;> cases kids.isEmpty <;> simp [hne, h1, h2, h3, h4]
  · rw [hbase, nf _ e5]; cases pu <;> cases kids.isEmpty <;> simp (decide := true)
  · rw [hbase, nf _ e6]; cases pu <;> cases kids.isEmpty <;> simp (decide := true)

/-! ### which entry of `docList` answers for which section name -/

theorem optSec_lookup_self (c : Bool) (s : Str) (o : IniSec) : (optSec c s o).lookup s = if c then some o else none := by
  unfold optSec; cases c <;> simp [lookup_cons_eq]

section fixed
variable (t : TreeInfo) (g : IniSec)

theorem lookup_single {α} (a s : Str) (b : α) : [(a, b)].lookup s = if a = s then some b else none := by
  rw [lookup_cons_eq]; rfl

theorem fixedList_lookup (s : Str) : (fixedList t g).lookup s =
    (if sGeneral = s then some g else none).or
    (((optSec (mediaOn t.discnum t.totaldiscs) sMedia (mediaOpts t.discnum t.totaldiscs)).lookup s).or
    (((optSec (stage2On t.mainimage t.instimage) sStage2 (stage2Opts t.mainimage t.instimage)).lookup s).or
    (((optSec (!t.checksums.isEmpty) sChecksums (checksumOpts t.checksums)).lookup s).or
    ((if sTree = s then some (treeOptsFull t) else none).or
    (((baseL t).lookup s).or
    ((if sRelease = s then some (releaseOpts t.release t.isLayered) else none).or
    (if sHeader = s then some headerOpts else none))))))) := by
  simp only [fixedList, List.lookup_append, lookup_single]

theorem L_fixed (s : Str) (h1 : ¬ headAV s) (h2 : s.head? ≠ some 'i') : (docList t g).lookup s = (fixedList t g).lookup s :=
  docList_lookup_fixed t g s h1 h2

theorem L_general : (docList t g).lookup sGeneral = some g := by
  rw [L_fixed t g sGeneral (by decide) (by decide), fixedList_lookup]; simp

theorem L_media : (docList t g).lookup sMedia =
    if mediaOn t.discnum t.totaldiscs then some (mediaOpts t.discnum t.totaldiscs) else none := by
  rw [L_fixed t g sMedia (by decide) (by decide), fixedList_lookup, optSec_lookup_self,
    optSec_lookup_ne _ sStage2 sMedia _ (by decide), optSec_lookup_ne _ sChecksums sMedia _ (by decide),
    baseL_lookup_ne t sMedia (by decide)]
  have h1 : ¬ sGeneral = sMedia := by decide
  have h2 : ¬ sTree = sMedia := by decide
  have h3 : ¬ sRelease = sMedia := by decide
  have h4 : ¬ sHeader = sMedia := by decide
  cases mediaOn t.discnum t.totaldiscs <;> simp [h1, h2, h3, h4]

theorem L_stage2 : (docList t g).lookup sStage2 =
    if stage2On t.mainimage t.instimage then some (stage2Opts t.mainimage t.instimage) else none := by
  rw [L_fixed t g sStage2 (by decide) (by decide), fixedList_lookup, optSec_lookup_self,
    optSec_lookup_ne _ sMedia sStage2 _ (by decide), optSec_lookup_ne _ sChecksums sStage2 _ (by decide),
    baseL_lookup_ne t sStage2 (by decide)]
  have h1 : ¬ sGeneral = sStage2 := by decide
  have h2 : ¬ sTree = sStage2 := by decide
  have h3 : ¬ sRelease = sStage2 := by decide
  have h4 : ¬ sHeader = sStage2 := by decide
  cases stage2On t.mainimage t.instimage <;> simp [h1, h2, h3, h4]

theorem L_checksums : (docList t g).lookup sChecksums =
    if t.checksums.isEmpty then none else some (checksumOpts t.checksums) := by
  rw [L_fixed t g sChecksums (by decide) (by decide), fixedList_lookup, optSec_lookup_self,
    optSec_lookup_ne _ sMedia sChecksums _ (by decide), optSec_lookup_ne _ sStage2 sChecksums _ (by decide),
    baseL_lookup_ne t sChecksums (by decide)]
  have h1 : ¬ sGeneral = sChecksums := by decide
  have h2 : ¬ sTree = sChecksums := by decide
  have h3 : ¬ sRelease = sChecksums := by decide
  have h4 : ¬ sHeader = sChecksums := by decide
  cases t.checksums.isEmpty <;> simp [h1, h2, h3, h4]

theorem L_tree : (docList t g).lookup sTree = some (treeOptsFull t) := by
  rw [L_fixed t g sTree (by decide) (by decide), fixedList_lookup,
    optSec_lookup_ne _ sMedia sTree _ (by decide), optSec_lookup_ne _ sStage2 sTree _ (by decide),
    optSec_lookup_ne _ sChecksums sTree _ (by decide)]
  have h1 : ¬ sGeneral = sTree := by decide
  simp [h1]

theorem L_base : (docList t g).lookup sBase = if t.isLayered then t.baseProduct.map baseOpts' else none := by
  rw [L_fixed t g sBase (by decide) (by decide), fixedList_lookup,
    optSec_lookup_ne _ sMedia sBase _ (by decide), optSec_lookup_ne _ sStage2 sBase _ (by decide),
    optSec_lookup_ne _ sChecksums sBase _ (by decide)]
  have h1 : ¬ sGeneral = sBase := by decide
  have h2 : ¬ sTree = sBase := by decide
  have h3 : ¬ sRelease = sBase := by decide
  have h4 : ¬ sHeader = sBase := by decide
  unfold baseL
  cases t.isLayered <;> cases t.baseProduct <;> simp [lookup_single, h1, h2, h3, h4]

theorem L_release : (docList t g).lookup sRelease = some (releaseOpts t.release t.isLayered) := by
  rw [L_fixed t g sRelease (by decide) (by decide), fixedList_lookup,
    optSec_lookup_ne _ sMedia sRelease _ (by decide), optSec_lookup_ne _ sStage2 sRelease _ (by decide),
    optSec_lookup_ne _ sChecksums sRelease _ (by decide), baseL_lookup_ne t sRelease (by decide)]
  have h1 : ¬ sGeneral = sRelease := by decide
  have h2 : ¬ sTree = sRelease := by decide
  simp [h1, h2]

theorem L_header : (docList t g).lookup sHeader = some headerOpts := by
  rw [L_fixed t g sHeader (by decide) (by decide), fixedList_lookup,
    optSec_lookup_ne _ sMedia sHeader _ (by decide), optSec_lookup_ne _ sStage2 sHeader _ (by decide),
    optSec_lookup_ne _ sChecksums sHeader _ (by decide), baseL_lookup_ne t sHeader (by decide)]
  have h1 : ¬ sGeneral = sHeader := by decide
  have h2 : ¬ sTree = sHeader := by decide
  have h3 : ¬ sRelease = sHeader := by decide
  simp [h1, h2, h3]

end fixed

/-! ### variant and image sections -/

mutual
theorem mem_flatV_inv : ∀ (v : Variant) (pu : Option Str) (e : Str × IniSec), e ∈ flatV pu v →
    ∃ x ∈ subV pu v, e = (secName x.2.type x.2.uid, varOpts x.1 x.2)
  | .mk key id uid name type paths kids, pu, e, he => by
    simp only [flatV, List.mem_append, List.mem_singleton] at he
    rcases he with he | he
    · obtain ⟨x, hx, hxe⟩ := mem_flatVs_inv kids (some uid) e he
      exact ⟨x, by simp only [subV, List.mem_cons]; exact Or.inr hx, hxe⟩
    · exact ⟨(pu, .mk key id uid name type paths kids), by simp [subV], he⟩
theorem mem_flatVs_inv : ∀ (vs : List Variant) (pu : Option Str) (e : Str × IniSec), e ∈ flatVs pu vs →
    ∃ x ∈ subVs pu vs, e = (secName x.2.type x.2.uid, varOpts x.1 x.2)
  | [], _, e, he => by simp [flatVs] at he
  | v :: vs, pu, e, he => by
    simp only [flatVs, List.mem_append] at he
    rcases he with he | he
    · obtain ⟨x, hx, hxe⟩ := mem_flatVs_inv vs pu e he
      exact ⟨x, by simp only [subVs, List.mem_append]; exact Or.inr hx, hxe⟩
    · obtain ⟨x, hx, hxe⟩ := mem_flatV_inv v pu e he
      exact ⟨x, by simp only [subVs, List.mem_append]; exact Or.inl hx, hxe⟩
end

theorem mem_docList_flat (t : TreeInfo) (g : IniSec) (e : Str × IniSec) (h : e ∈ flatVs none t.variants) : e ∈ docList t g := by
  simp only [docList, List.mem_append]
  right; right; right; right; right; left; exact h

theorem mem_docList_img (t : TreeInfo) (g : IniSec) (e : Str × IniSec) (h : e ∈ imgFlat t.images) : e ∈ docList t g := by
  simp only [docList, List.mem_append]
  right; right; right; left; exact h

/-- a variant's section is found under its name, with its options -/
theorem L_variant {t : TreeInfo} {g : IniSec} (hn : ((docList t g).map (·.1)).Nodup) (x : Option Str × Variant)
    (hx : x ∈ subVs none t.variants) : (docList t g).lookup (secName x.2.type x.2.uid) = some (varOpts x.1 x.2) :=
  lookup_of_mem_nodup hn (mem_docList_flat t g _ (mem_flatVs t.variants none x hx))

/-- a section called `variant-*` / `addon-*` belongs to a variant of the forest -/
theorem L_variant_inv {t : TreeInfo} {g : IniSec} {s : Str} {o : IniSec} (hs : headAV s)
    (h : (docList t g).lookup s = some o) : ∃ x ∈ subVs none t.variants, s = secName x.2.type x.2.uid ∧ o = varOpts x.1 x.2 := by
  have hmem := mem_of_lookup_some h
  simp only [docList, List.mem_append] at hmem
  have bad : ∀ {n : Str} {o' : IniSec}, (s, o) = (n, o') → ¬ headAV n → False := by
    intro n o' e hn'; simp only [Prod.mk.injEq] at e; exact hn' (e.1 ▸ hs)
  have badOpt : ∀ (c : Bool) (n : Str) (o' : IniSec), (s, o) ∈ optSec c n o' → ¬ headAV n → False := by
    intro c n o' hm hn'
    unfold optSec at hm
    split at hm
    · exact bad (List.mem_singleton.mp hm) hn'
    · cases hm
  rcases hmem with hm | hm | hm | hm | hm | hm | hm | hm | hm | hm
  · exact absurd (bad (List.mem_singleton.mp hm) (by decide)) id
  · exact absurd (badOpt _ _ _ hm (by decide)) id
  · exact absurd (badOpt _ _ _ hm (by decide)) id
  · have := keys_imgFlat _ s (List.mem_map.mpr ⟨(s, o), hm, rfl⟩)
    rcases hs with h' | h' <;> rw [h'] at this <;> cases this
  · exact absurd (badOpt _ _ _ hm (by decide)) id
  · obtain ⟨x, hx, hxe⟩ := mem_flatVs_inv _ _ _ hm
    simp only [Prod.mk.injEq] at hxe
    exact ⟨x, hx, hxe.1, hxe.2⟩
  · exact absurd (bad (List.mem_singleton.mp hm) (by decide)) id
  · unfold baseL at hm
    split at hm
    · cases hb : t.baseProduct with
      | none => simp [hb] at hm
      | some p => simp only [hb, List.mem_singleton] at hm; exact absurd (bad hm (by decide)) id
    · cases hm
  · exact absurd (bad (List.mem_singleton.mp hm) (by decide)) id
  · exact absurd (bad (List.mem_singleton.mp hm) (by decide)) id

theorem mem_imgFlat : ∀ (ps : List (Str × List (Str × Str))) (p : Str × List (Str × Str)), p ∈ ps →
    (pImages ++ p.1, setsKV [] p.2) ∈ imgFlat ps
  | [], p, h => by cases h
  | q :: qs, p, h => by
    simp only [imgFlat, List.mem_append, List.mem_singleton]
    cases h with
    | head => right; rfl
    | tail _ h => left; exact mem_imgFlat qs p h

theorem L_images {t : TreeInfo} {g : IniSec} (hn : ((docList t g).map (·.1)).Nodup) (p : Str × List (Str × Str))
    (hp : p ∈ t.images) : (docList t g).lookup (pImages ++ p.1) = some (setsKV [] p.2) :=
  lookup_of_mem_nodup hn (mem_docList_img t g _ (mem_imgFlat t.images p hp))

theorem imgFlat_keys : ∀ ps : List (Str × List (Str × Str)), (imgFlat ps).map (·.1) = (ps.map fun p => pImages ++ p.1).reverse
  | [] => rfl
  | p :: ps => by simp [imgFlat, imgFlat_keys ps]

end TI
end PM
