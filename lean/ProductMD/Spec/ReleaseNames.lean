import ProductMD.Model.Regex
/-!
The documented languages of release short names, types and versions (property C14), written as plain
predicates on `List Char` — no regular expression involved:

* short name / type: "a lowercase letter followed by lowercase alphanumerics in non-empty dash-separated segments";
* version: "dot-separated decimal integers, or any non-empty string not starting with a digit".

All three are decidable, so the driver can run them (`spec_*` ops) next to the model of the code.
Also here: hand-written group-free copies of the three patterns as they are after the F1 fix; the property file
proves `Gen.re_….strip = Spec.…Re` by `decide`, so a change of a pattern in the source breaks that obligation.
-/
namespace PM.Spec
open PM PM.Str

def isLower (c : Char) : Bool := 'a' ≤ c && c ≤ 'z'
def isDigit (c : Char) : Bool := '0' ≤ c && c ≤ '9'

/-- first character satisfies `p` (false on the empty string) -/
def headIs (p : Char → Bool) : Str → Bool
  | c :: _ => p c
  | [] => false

/-- a non-empty run of lowercase letters and digits -/
def SpecSeg (g : Str) : Prop := g ≠ [] ∧ ∀ c ∈ g, (isLower c || isDigit c) = true

/-- release short name (and release type): starts with a lowercase letter; cut at the dashes, every piece is a
non-empty lowercase-alphanumeric run -/
def SpecShort (s : Str) : Prop := headIs isLower s = true ∧ ∀ g ∈ splitOn '-' s, SpecSeg g

/-- the documented language of release types is the same as that of short names -/
abbrev SpecType (s : Str) : Prop := SpecShort s

/-- dot-separated decimal integers: cut at the dots, every piece is a non-empty digit run -/
def SpecNumeric (s : Str) : Prop := ∀ g ∈ splitOn '.' s, g ≠ [] ∧ ∀ c ∈ g, isDigit c = true

/-- any non-empty string not starting with a digit -/
def SpecFree (s : Str) : Prop := headIs (fun c => !isDigit c) s = true

def SpecVersion (s : Str) : Prop := SpecNumeric s ∨ SpecFree s

instance : DecidablePred SpecSeg := fun g => by unfold SpecSeg; exact inferInstance
instance : DecidablePred SpecShort := fun s => by unfold SpecShort; exact inferInstance
instance : DecidablePred SpecNumeric := fun s => by unfold SpecNumeric; exact inferInstance
instance : DecidablePred SpecFree := fun s => by unfold SpecFree; exact inferInstance
instance : DecidablePred SpecVersion := fun s => by unfold SpecVersion; exact inferInstance

/-- the nine documented known release types (the property's quantifier: "all nine known release types") -/
def knownTypes : List Str :=
  ["fast".toList, "ga".toList, "updates".toList, "updates-testing".toList, "eus".toList, "aus".toList,
   "els".toList, "tus".toList, "e4s".toList]

/-! ### the patterns (group-free) -/
def lowerC : Cls := { ranges := [(97, 122)] }
def alnumC : Cls := { ranges := [(97, 122), (48, 57)] }
def digitC : Cls := { ranges := [(48, 57)] }
def nonDigitC : Cls := { ranges := [(48, 57)], neg := true }

/-- `^[a-z][a-z0-9]*(-[a-z0-9]+)*$` without the group mark -/
def shortRe : Re :=
  .cat .bol (.cat (.cls lowerC) (.cat (.star (.cls alnumC))
    (.cat (.star (.cat (Re.lit '-') (.cat (.cls alnumC) (.star (.cls alnumC))))) .eol)))

/-- `^([^0-9].*|([0-9]+(\.[0-9]+)*))$` without the group marks -/
def versionRe : Re :=
  .cat .bol (.cat
    (.alt (.cat (.cls nonDigitC) (.star (.cls Cls.any)))
          (.cat (.cat (.cls digitC) (.star (.cls digitC)))
                (.star (.cat (Re.lit '.') (.cat (.cls digitC) (.star (.cls digitC)))))))
    .eol)

end PM.Spec
