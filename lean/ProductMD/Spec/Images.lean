import ProductMD.Model.Images
/-!
Hand-written specification side of the images properties (reviewed artefact, not generated).
-/
namespace PM.Spec
open PM PM.Img PM.PyOps

/-- the identity of an image as the documentation states it, attribute names -/
def identity7Names : List Str :=
  [L "subvariant", L "type", L "format", L "arch", L "disc_number", L "unified", L "additional_variants"]

/-- the identity tuple written out: the seven attributes, `unified` and `additional_variants` with their defaults -/
def identity7 (i : Image) : List PyVal :=
  [i.subvariant, i.type, i.format, i.arch, i.disc_number, pyOr i.unified (.bool false), pyOr i.additional_variants (.list [])]

/-- Python `==` as a proposition: equal canonical representatives -/
def PyEq (a b : PyVal) : Prop := eqKey a = eqKey b

/-- same identity -/
def SameIdentity (i j : Image) : Prop := PyEq (.list (identity7 i)) (.list (identity7 j))

/-- **Uniq**: no two filed images agree on the identity tuple and differ in their checksums -/
def Uniq (cs : Cells) : Prop :=
  ∀ i ∈ cs.all, ∀ j ∈ cs.all, SameIdentity i j → PyEq i.checksums j.checksums

end PM.Spec
