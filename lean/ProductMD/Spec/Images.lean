import ProductMD.Model.Images
/-!
Hand-written specification side of the images properties (reviewed artefact, not generated).
-/
namespace PM.Spec
open PM PM.Img PM.PyOps

/-- the identity of an image as the documentation states it, attribute names -/
def identity7Names : List Str :=
  [L "subvariant", L "type", L "format", L "arch", L "disc_number", L "unified", L "additional_variants"]

/-- the identity tuple written out: the seven attributes, `unified` and `additional_variants` with their defaults -/
def identity7 (i : Image) : List PyVal :=
  [i.subvariant, i.type, i.format, i.arch, i.disc_number, pyOr i.unified (.bool false), pyOr i.additional_variants (.list [])]

/-- Python `==` as a proposition: equal canonical representatives -/
def PyEq (a b : PyVal) : Prop := eqKey a = eqKey b

/-- same identity -/
def SameIdentity (i j : Image) : Prop := PyEq (.list (identity7 i)) (.list (identity7 j))

/-- **Uniq**: no two filed images agree on the identity tuple and differ in their checksums -/
def Uniq (cs : Cells) : Prop :=
  ∀ i ∈ cs.all, ∀ j ∈ cs.all, SameIdentity i j → PyEq i.checksums j.checksums

/-- every filing of the manifest: (variant, arch, object id, attributes), in iteration order -/
def entries (cs : Cells) : List (Str × Str × Nat × Image) :=
  cs.flatMap fun va => va.2.flatMap fun ac => ac.2.map fun e => (va.1, ac.1, e.1, e.2)

/-- … without the object ids: the multiset of (variant, arch, 15-attribute record) the manifest holds -/
def triples (cs : Cells) : List (Str × Str × Image) := (entries cs).map fun e => (e.1, e.2.1, e.2.2.2)

/-- the four integer attributes hold ints, not bools (`bool <: int` lets a bool pass the validator) -/
def ProperInts (i : Image) : Prop :=
  (∃ n, i.mtime = .int n) ∧ (∃ n, i.size = .int n) ∧ (∃ n, i.disc_number = .int n) ∧ (∃ n, i.disc_count = .int n)

/-- what the writer/reader pair does to the compose section, exactly: `final` survives only together with a label
(documented), an empty label becomes None -/
def composeNorm (c : Compose) : Compose :=
  if c.label.truthy then { c with final := .bool c.final.truthy } else { c with label := .none, final := .bool false }

/-- the path of an image as the per-cell sort sees it -/
def pathStr (i : Image) : Str := match i.path with | .str s => s | _ => []

/-- inside every (variant, arch) cell the filed images have pairwise distinct paths (the writer sorts a cell by path
only, and a cell is a Python set: with equal paths the order of the two entries would depend on set iteration) -/
def DistinctPaths (cs : Cells) : Prop :=
  ∀ v a, (((triples cs).filter fun t => t.1 == v && t.2.1 == a).map fun t => pathStr t.2.2).Nodup

end PM.Spec
