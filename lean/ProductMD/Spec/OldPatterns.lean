import ProductMD.Model.Regex
/-! Hand-written copies of the patterns of the pinned commit (before the `fix:` for F1), kept only as
witnesses: the theorems about them document what the repaired defect was. -/
namespace PM.Spec
open PM

def lower : Cls := { ranges := [(97, 122)] }
def alnum : Cls := { ranges := [(97, 122), (48, 57)] }
def digit09 : Cls := { ranges := [(48, 57)] }

/-- `^[a-z]+([a-z0-9]*-?[a-z0-9]+)*$` (pinned commit) -/
def oldShort : Re :=
  Re.seq [.bol, Re.plus (.cls lower),
    .star (.grp 1 (Re.seq [.star (.cls alnum), Re.opt (Re.lit '-'), Re.plus (.cls alnum)])), .eol]

/-- `^[a-z][a-z0-9]*(-[a-z0-9]+)*$` (after the fix) -/
def newShort : Re :=
  Re.seq [.bol, .cls lower, .star (.cls alnum),
    .star (.grp 1 (Re.seq [Re.lit '-', Re.plus (.cls alnum)])), .eol]

end PM.Spec
