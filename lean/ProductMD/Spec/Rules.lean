import ProductMD.Model.Rules
import ProductMD.Model.Chars
import ProductMD.Generated.Tables
import ProductMD.Generated.Unicode
/-!
# The rule catalogue of C06 / C07 (DESIGN.md Appendix C) — REVIEWED ARTEFACT, written by hand, never generated.

Per class and field the documented rule: the union of (S) every rule the statement of C06 names and (V) every rule the
pinned commit enforces.  Enumerations refer to the library's own tables (`Gen.COMPOSE_TYPES`, …: adding a value is
harmless, dropping the table check is not); regular expressions are written out here (documented languages), in the
constructors the translator uses, so that a changed pattern in the source no longer equals the catalogue's.

`Properties/C06.lean` proves (by `decide` on the regenerated validator inventory)
`catalogue c ⊆ generated rules of c` (every documented rule is enforced) and the converse inclusion (nothing
undocumented is enforced), for every class.

Pseudo-attributes (`parent`, `variants`, `images`, `tree.platforms`) are documented in `Model/Customs.lean`.

Deliberately NOT in the catalogue (neither the statement nor the code has them): `stage2.instimage` relative; DiscInfo
disc numbers numeric; rpms sigkey format; release short matching `RELEASE_SHORT_RE` inside composeinfo/treeinfo objects;
types of fields the writers copy verbatim (treeinfo variant `name`, path tables, `tree.platforms`, payload tables of
rpms/modules/extra-files).
-/
namespace PM.Spec
open PM

/-- `\d` -/
def dg : Re := .cls { ranges := Gen.digitRanges, neg := false }
/-- `[0-9]` -/
def d09 : Re := .cls { ranges := [(48, 57)], neg := false }
def ch (c : Char) : Re := .cls { ranges := [(c.toNat, c.toNat)], neg := false }
def anyc : Re := .cls { ranges := [(10, 10)], neg := true }
def lits (s : Str) : List Re := s.map ch

/-- `^\d+\.\d+$` — header version -/
def reHeaderVersion : Re := Re.seq [.bol, Re.plus dg, ch '.', Re.plus dg, .eol]
/-- `^\d{8}$` — compose date -/
def reDate : Re := Re.seq [.bol, Re.rep 8 dg, .eol]
/-- `.*\d{8}(\.nightly|\.n|\.ci|\.test|\.t)?(\.\d+)?` — compose id (CPython's parser factors the leading `\.`) -/
def reComposeId : Re :=
  Re.seq [.star anyc, Re.rep 8 dg,
    Re.opt (.grp 1 (Re.seq [ch '.', Re.alts [Re.seq (lits c!"nightly"), Re.seq (lits c!"n"), Re.seq (lits c!"ci"), Re.seq (lits c!"test"), Re.seq (lits c!"t")]])),
    Re.opt (.grp 2 (Re.seq [ch '.', Re.plus dg]))]
/-- `^([^0-9].*|([0-9]+(\.[0-9]+)*))$` — release version (composeinfo) -/
def reReleaseVersion : Re :=
  Re.seq [.bol, .grp 1 (Re.alts [Re.seq [.cls { ranges := [(48, 57)], neg := true }, .star anyc],
                                 .grp 2 (Re.seq [Re.plus d09, .star (.grp 3 (Re.seq [ch '.', Re.plus d09]))])]), .eol]
/-- `^[a-zA-Z0-9]+$` — composeinfo variant id -/
def reVariantId : Re := Re.seq [.bol, Re.plus (.cls { ranges := [(97, 122), (65, 90), (48, 57)], neg := false }), .eol]
/-- `^[a-z0-9]{32}$` — implanted md5 -/
def reMd5 : Re := Re.seq [.bol, Re.rep 32 (.cls { ranges := [(97, 122), (48, 57)], neg := false }), .eol]
/-- `^\d` -/
def reLeadingDigit : Re := Re.seq [.bol, dg]
/-- `^\d+(\.\d+)*$` — treeinfo release version when it starts with a digit -/
def reDottedVersion : Re := Re.seq [.bol, Re.plus dg, .star (.grp 1 (Re.seq [ch '.', Re.plus dg])), .eol]
/-- `^<NAME>-\d+\.\d+$` — one label pattern per documented label name -/
def reLabel (name : Str) : Re := Re.seq ([.bol] ++ name.map ch ++ [ch '-', Re.plus dg, ch '.', Re.plus dg, .eol])

def cLabel : Str := c!"composeinfo.Compose._validate_label:verify_label(self.label)"
def cCiParentArch : Str := c!"composeinfo.Variant._validate_parent_arch"
def cCiUid : Str := c!"composeinfo.Variant._validate_uid"
def cVariantKeys : Str := c!"composeinfo.VariantBase._validate_variants"
def cDiscTimestamp : Str := c!"discinfo.DiscInfo._validate_timestamp"
def cTiChecksumPaths : Str := c!"treeinfo.Checksums._validate_checksum_paths"
def cTiImagePaths : Str := c!"treeinfo.Images._validate_image_paths"
def cTiPlatforms : Str := c!"treeinfo.Images._validate_platforms"
def cTiUid : Str := c!"treeinfo.Variant._validate_uid"

def header : List Rule := [.type c!"version" [.str], .re c!"version" [reHeaderVersion]]

def compose : List Rule :=
  [.type c!"id" [.str], .notBlank c!"id", .re c!"id" [reComposeId],
   .type c!"date" [.str], .re c!"date" [reDate],
   .value c!"type" Gen.COMPOSE_TYPES,
   .type c!"respin" [.int],
   .type c!"label" [.none, .str], .custom cLabel,
   .guarded (.truthy c!"label") (.type c!"final" [.bool])]

def ciBaseProduct : List Rule :=
  [.type c!"name" [.str], .type c!"short" [.str],
   .type c!"version" [.str], .re c!"version" [reReleaseVersion],
   .type c!"type" [.str], .value c!"type" Gen.RELEASE_TYPES]

def ciRelease : List Rule := ciBaseProduct ++ [.type c!"is_layered" [.bool], .type c!"internal" [.bool]]

def ciVariant : List Rule :=
  [.type c!"id" [.str], .re c!"id" [reVariantId],
   .type c!"name" [.str], .notBlank c!"name",
   .value c!"type" Gen.VARIANT_TYPES,
   .notBlank c!"arches",
   .custom cCiUid, .custom cCiParentArch, .custom cVariantKeys]

def image : List Rule :=
  [.type c!"path" [.str], .notBlank c!"path",
   .type c!"mtime" [.int],
   .type c!"size" [.int], .notBlank c!"size",
   .type c!"volume_id" [.none, .str], .guarded (.notNone c!"volume_id") (.notBlank c!"volume_id"),
   .type c!"type" [.str], .value c!"type" Gen.SUPPORTED_IMAGE_TYPES,
   .type c!"format" [.str], .value c!"format" Gen.SUPPORTED_IMAGE_FORMATS,
   .type c!"arch" [.str], .notBlank c!"arch",
   .type c!"disc_number" [.int], .type c!"disc_count" [.int],
   .type c!"checksums" [.dict], .notBlank c!"checksums",
   .type c!"implant_md5" [.none, .str], .guarded (.notNone c!"implant_md5") (.re c!"implant_md5" [reMd5]),
   .type c!"bootable" [.bool], .type c!"subvariant" [.str], .type c!"unified" [.bool],
   .type c!"additional_variants" [.list],
   .failIf (.and (.truthy c!"additional_variants") (.not (.truthy c!"unified")))]

def tiVersion : List Rule :=
  [.type c!"version" [.str], .guarded (.reMatch reLeadingDigit c!"version") (.re c!"version" [reDottedVersion])]

def tiBaseProduct : List Rule := [.type c!"name" [.str], .type c!"short" [.str]] ++ tiVersion
def tiRelease : List Rule := tiBaseProduct ++ [.type c!"is_layered" [.bool]]

def tiTree : List Rule :=
  [.type c!"arch" [.str], .notBlank c!"arch",
   .type c!"build_timestamp" [.int, .float], .notBlank c!"build_timestamp"]

def tiVariant : List Rule :=
  [.type c!"id" [.str], .failIf (.contains c!"id" ['-']),
   .value c!"type" Gen.TREEINFO_VARIANT_TYPES,
   .custom cTiUid, .custom cVariantKeys]

def tiStage2 : List Rule :=
  [.guarded (.truthy c!"mainimage") (.type c!"mainimage" [.str]),
   .guarded (.truthy c!"mainimage") (.failIf (.startsWith c!"mainimage" ['/']))]

def tiMedia : List Rule := [.type c!"discnum" [.int, .none], .type c!"totaldiscs" [.int, .none]]

def discInfo : List Rule :=
  [.custom cDiscTimestamp,
   .notBlank c!"description", .type c!"description" [.str],
   .notBlank c!"arch", .type c!"arch" [.str],
   .notBlank c!"disc_numbers", .type c!"disc_numbers" [.list]]

/-- the catalogue: class name (as in `Gen.allClasses`) ↦ documented rules -/
def catalogueTable : List (String × List Rule) :=
  [("common.Header", header),
   ("common.MetadataBase", []),
   ("composeinfo.BaseProduct", ciBaseProduct),
   ("composeinfo.Compose", compose),
   ("composeinfo.ComposeInfo", []),
   ("composeinfo.Release", ciRelease),
   ("composeinfo.Variant", ciVariant),
   ("composeinfo.VariantBase", [.custom cVariantKeys]),
   ("composeinfo.VariantPaths", []),
   ("composeinfo.Variants", [.custom cVariantKeys]),
   ("images.Image", image),
   ("images.Images", []),
   ("rpms.Rpms", []),
   ("modules.Modules", []),
   ("extra_files.ExtraFiles", []),
   ("treeinfo.BaseProduct", tiBaseProduct),
   ("treeinfo.Checksums", [.custom cTiChecksumPaths]),
   ("treeinfo.General", []),
   ("treeinfo.Header", header),
   ("treeinfo.Images", [.custom cTiImagePaths, .custom cTiPlatforms]),
   ("treeinfo.Media", tiMedia),
   ("treeinfo.Release", tiRelease),
   ("treeinfo.Stage2", tiStage2),
   ("treeinfo.Tree", tiTree),
   ("treeinfo.TreeInfo", []),
   ("treeinfo.Variant", tiVariant),
   ("treeinfo.VariantPaths", []),
   ("treeinfo.Variants", [.custom cVariantKeys]),
   ("discinfo.DiscInfo", discInfo)]

def catalogue (cls : String) : List Rule := ((catalogueTable.find? (·.1 == cls)).map (·.2)).getD []

/-- the custom rule names the catalogue relies on -/
def customNames : List Str :=
  [cLabel, cCiParentArch, cCiUid, cVariantKeys, cDiscTimestamp, cTiChecksumPaths, cTiImagePaths, cTiPlatforms, cTiUid]

end PM.Spec
