import ProductMD.Model.Nvra
/-!
`parse_nvra` written directly on the string, without a regular expression: what the greedy backtracking search of
`RPM_NVRA_RE` picks on ANY input.  `Properties/C13.lean` proves `parseNvra s = parseNvraDirect s` for every `s`
(`C13_parser_exact`); the model stays the regex-driven function, this is its description.
-/
namespace PM.Spec
open PM

/-- the LAST way to write `x = a ++ d :: b` such that `ok b` holds: `(a, b)` -/
def lastSplit (d : Char) (ok : Str → Bool) : Str → Option (Str × Str)
  | [] => none
  | c :: cs =>
    match lastSplit d ok cs with
    | some (a, b) => some (c :: a, b)
    | none => if c = d ∧ ok cs = true then some ([], cs) else none

/-- release and architecture: split at the last `.` (`e`: the text after the first line is empty or one line feed) -/
def p6 (e : Bool) (x : Str) : Option (Str × Str) := lastSplit '.' (fun _ => e) x

/-- version, release, arch: split at the last `-` that still has a `.` to its right -/
def p5 (e : Bool) (x : Str) : Option (Str × Str × Str) :=
  match lastSplit '-' (fun z => (p6 e z).isSome) x with
  | some (v, z) => (p6 e z).map fun ra => (v, ra.1, ra.2)
  | none => none

/-- `\d+:` at the front: the whole leading digit run, when it is not empty and a `:` follows it -/
def epochSplit (x : Str) : Option (Str × Str) :=
  match x.dropWhile digitCls.mem with
  | c :: y => if c = ':' ∧ x.takeWhile digitCls.mem ≠ [] then some (x.takeWhile digitCls.mem, y) else none
  | [] => none

/-- optional epoch, tried first; if what follows it cannot be split, the digits and the colon are part of the version -/
def p4 (e : Bool) (x : Str) : Option (Option Str × Str × Str × Str) :=
  match epochSplit x with
  | some (D, y) =>
    match p5 e y with
    | some r => some (some D, r)
    | none => (p5 e x).map fun r => (none, r)
  | none => (p5 e x).map fun r => (none, r)

/-- name: split at the last `-` after which epoch/version/release/arch can still be found -/
def p2 (e : Bool) (x : Str) : Option (Str × Option Str × Str × Str × Str) :=
  match lastSplit '-' (fun z => (p4 e z).isSome) x with
  | some (n, z) => (p4 e z).map fun r => (n, r)
  | none => none

/-- directory: dropped through the last `/` after which the rest still parses; otherwise no directory at all
(a `/` then stays inside whichever part it falls in) -/
def p1 (e : Bool) (x : Str) : Option (Str × Option Str × Str × Str × Str) :=
  match lastSplit '/' (fun z => (p2 e z).isSome) x with
  | some (_, z) => p2 e z
  | none => p2 e x

/-- `parse_nvra` on any string: strip one trailing `.rpm`; only the first line `x` is looked at and what follows it
must be nothing or a single final line feed; then `p1`; `int()` of the epoch digits, 0 without epoch -/
def parseNvraDirect (s : Str) : Except Err Nvra :=
  let s' := stripRpm s
  let x := s'.takeWhile Cls.any.mem
  let r := s'.dropWhile Cls.any.mem
  match p1 (isEol r) x with
  | none => .error .valueError
  | some (n, ep, v, rl, a) =>
    (match ep with
      | none => (.ok 0 : Except Err Nat)
      | some d => pyIntDigits d).map fun e =>
        { name := some n, epoch := e, version := some v, release := some rl, arch := some a }

end PM.Spec
