import ProductMD.Model.Str
import ProductMD.Generated.Tables
/-!
Hand-written specification side of C10 (reviewed artefact, not generated): what a *binary* tree architecture is.
-/
namespace PM.Spec
open PM

/-- the two names under which older documents file source content -/
def sourceArchNames : List Str := [L "src", L "nosrc"]

/-- a binary architecture: a name of the architecture table that is neither `src` nor `nosrc` -/
def BinaryArch (a : Str) : Prop := a ∈ Gen.RPM_ARCHES ∧ a ≠ L "src" ∧ a ≠ L "nosrc"

instance (a : Str) : Decidable (BinaryArch a) := by unfold BinaryArch; infer_instance

end PM.Spec
