import ProductMD.Model.Nvra
/-!
Hand-written decompositions of the two regex-driven parsers' patterns into named tails.  The property files prove
`Gen.re_… = Spec.…` by `decide`, so every theorem stated through these names is about the pattern the source
contains now (a change to the pattern breaks that equation).
-/
namespace PM.Spec
open PM

def anyStar : Re := .star (.cls Cls.any)

/-! `^(.*/)?(?P<name>.*)-((?P<epoch>\d+):)?(?P<version>.*)-(?P<release>.*)\.(?P<arch>.*)$` -/
def nvT7 : Re := .cat (.grp 7 anyStar) .eol
def nvT6 : Re := .cat (.grp 6 anyStar) (.cat (Re.lit '.') nvT7)
def nvT5 : Re := .cat (.grp 5 anyStar) (.cat (Re.lit '-') nvT6)
def nvEpoch : Re := .cat (.grp 4 (.cat (.cls digitCls) (.star (.cls digitCls)))) (Re.lit ':')
def nvG3 : Re := .grp 3 nvEpoch
def nvT4 : Re := .cat (.alt nvG3 .eps) nvT5
def nvT2 : Re := .cat (.grp 2 anyStar) (.cat (Re.lit '-') nvT4)
def nvDir : Re := .cat anyStar (Re.lit '/')
def nvG1 : Re := .grp 1 nvDir
def nvT1 : Re := .cat (.alt nvG1 .eps) nvT2
def nvra : Re := .cat .bol nvT1
def nvraGroups : List (String × Nat) := [("name", 2), ("epoch", 4), ("version", 5), ("release", 6), ("arch", 7)]

/-! `.*(?P<date>\d{8})(?P<type>\.[a-z]+)?(\.(?P<respin>\d+))?.*` -/
def lowerCls : Cls := { ranges := [(97, 122)], neg := false }
def digits8 : Re := Re.rep 8 (.cls digitCls)
def dtDate : Re := .grp 1 digits8
def dtTypeIn : Re := .cat (Re.lit '.') (.cat (.cls lowerCls) (.star (.cls lowerCls)))
def dtType : Re := .grp 2 dtTypeIn
def dtNum : Re := .grp 4 (.cat (.cls digitCls) (.star (.cls digitCls)))
def dtRespin : Re := .grp 3 (.cat (Re.lit '.') dtNum)
def dtT3 : Re := .cat (.alt dtRespin .eps) anyStar
def dtT2 : Re := .cat (.alt dtType .eps) dtT3
def dtT1 : Re := .cat dtDate dtT2
def dtr : Re := .cat anyStar dtT1
def dtrGroups : List (String × Nat) := [("date", 1), ("type", 2), ("respin", 4)]

/-- the suffix spellings the documentation lists, with the compose type each stands for (no suffix = production) -/
def documentedSuffixes : List (Str × Str) :=
  [("n".toList, "nightly".toList), ("nightly".toList, "nightly".toList), ("t".toList, "test".toList),
   ("test".toList, "test".toList), ("ci".toList, "ci".toList), ("d".toList, "development".toList)]

/-- the documented compose types and the suffix each is written with -/
def documentedEncoder : List (Str × Str) :=
  [("production".toList, []), ("nightly".toList, ".n".toList), ("test".toList, ".t".toList), ("ci".toList, ".ci".toList),
   ("development".toList, ".d".toList)]

end PM.Spec
