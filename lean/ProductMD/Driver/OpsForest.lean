import ProductMD.Driver.Proto
import ProductMD.Model.Forest
import ProductMD.Model.ForestDel
/-! driver ops for C11: histories of `add` calls on the variant forest, with a snapshot after every step,
then lookups and `get_variants` queries on the final state.  Calls the definitions of `Model/Forest.lean`. -/
namespace PM.Driver.OpsForest
open Lean PM PM.Driver PM.Forest

def attrsOf (j : Json) : Attrs :=
  { id := getStrD j "id", uid := getStrD j "uid", name := getStrD j "name", type := getStrD j "type",
    arches := getStrs j "arches" }

def contOf (j : Json) (k : String) : Cont := getNat? j k

def opOf (j : Json) : Op := { c := contOf j "c", v := (getNat? j "v").getD 0, key := getStr? j "key" }

def jcont : Cont → Json
  | none => Json.null
  | some i => jnat i

def jdict (l : List (Str × Nat)) : Json := Json.arr (l.map fun kv => Json.arr #[jstr kv.1, jnat kv.2]).toArray

def jres (f : α → Json) : Except Err α → Json
  | .ok a => Json.mkObj [("ok", f a)]
  | .error e => errJson e

def snapshot (U : Nat → Attrs) (n : Nat) (s : State) : List (String × Json) :=
  [("top", jdict s.top),
   ("kids", Json.arr ((List.range n).map fun i => jdict (s.kids i)).toArray),
   ("parent", Json.arr ((List.range n).map fun i => jcont (s.parent i)).toArray),
   ("byuid", Json.arr ((List.range n).map fun i => jres jnat (getitem U s none (U i).uid)).toArray)]

def query (U : Nat → Attrs) (fuel : Nat) (s : State) (q : Json) : Json :=
  match getStr? q "q" with
  | some ['g','e','t','i','t','e','m'] => jres jnat (getitem U s (contOf q "c") (getStrD q "name"))
  | some ['g','v'] =>
    let types : List Str := getStrs q "types"
    jres (fun l => Json.arr (l.map jnat).toArray)
      (getVariants U s fuel (contOf q "c") (getStr? q "arch") types ((getBool? q "rec").getD false))
  | _ => jerr "bad-query"

def history (a : Json) : Json :=
  let vs := (getArr a "variants").map attrsOf
  let n := vs.length
  let U : Nat → Attrs := fun i => vs.getD i default
  let fuel := (getNat? a "fuel").getD 900
  let ops := (getArr a "ops").map opOf
  let (final, stepsRev) := ops.foldl (fun (acc : State × List Json) o =>
      let r := add U fuel acc.1 o.c o.v o.key
      let out := match r.2 with | .ok () => Json.str "ok" | .error e => Json.str e.name
      (r.1, Json.mkObj (("out", out) :: snapshot U n r.1) :: acc.2)) (State.empty, [])
  Json.mkObj [("steps", Json.arr stepsRev.reverse.toArray),
              ("queries", Json.arr ((getArr a "queries").map (query U fuel final)).toArray)]

/-- histories of `add` and `del` steps (`{"t": "del", "c": container, "name": …}`); after every step the outcome, the snapshot
and – for a `del` – the entry the model says it designates; `lookups` (name lists per step) are evaluated on the state after the step -/
def delHistory (a : Json) : Json :=
  let vs := (getArr a "variants").map attrsOf
  let n := vs.length
  let U : Nat → Attrs := fun i => vs.getD i default
  let fuel := (getNat? a "fuel").getD 900
  let gvall : State → (String × Json) := fun st =>
    ("gvall", jres (fun l => Json.arr (l.map jnat).toArray) (getVariants U st fuel none none [] true))
  let (final, stepsRev) := (getArr a "ops").foldl (fun (acc : State × List Json) j =>
      match getStr? j "t" with
      | some ['d','e','l'] =>
        let c := contOf j "c"
        let name := getStrD j "name"
        let tgt := match delResolve acc.1 c name with
          | .ok (d, k, v) => Json.arr #[jcont d, jstr k, jnat v]
          | .error e => Json.str e.name
        let r := delitem acc.1 c name
        let out := match r.2 with | .ok () => Json.str "ok" | .error e => Json.str e.name
        let look := jres jnat (getitem U acc.1 c name)
        (r.1, Json.mkObj (("out", out) :: ("target", tgt) :: ("before", look) :: gvall r.1 :: snapshot U n r.1) :: acc.2)
      | _ =>
        let o := opOf j
        let r := add U fuel acc.1 o.c o.v o.key
        let out := match r.2 with | .ok () => Json.str "ok" | .error e => Json.str e.name
        (r.1, Json.mkObj (("out", out) :: gvall r.1 :: snapshot U n r.1) :: acc.2)) (State.empty, [])
  Json.mkObj [("steps", Json.arr stepsRev.reverse.toArray),
              ("queries", Json.arr ((getArr a "queries").map (query U fuel final)).toArray)]

def ops : List (String × (Json → Json)) :=
  [("c11_history", history), ("c11_del_history", delHistory)]

end PM.Driver.OpsForest
