import ProductMD.Driver.Proto
import ProductMD.Model.ReleaseId
import ProductMD.Spec.ReleaseNames
/-! driver ops for C14: the validity predicates, `create_release_id`, `parse_release_id` (the definitions the
theorems of `Properties/C14.lean` are about) and the decidable specification predicates; single strings and
exhaustive blocks (all strings `prefix ++ w`, `w` over an alphabet, `|w| ≤ n`, in `itertools.product` order). -/
namespace PM.Driver.OpsReleaseId
open Lean PM PM.Driver

def getOptStr (j : Json) (k : String) : Option Str :=
  match j.getObjVal? k with
  | .ok (.str s) => some s.toList
  | _ => none

def predOf (which : String) : Option (Str → Bool) :=
  match which with
  | "short" => some isValidReleaseShort
  | "version" => some isValidReleaseVersion
  | "type" => some isValidReleaseType
  | "spec_short" => some (fun s => decide (Spec.SpecShort s))
  | "spec_type" => some (fun s => decide (Spec.SpecType s))
  | "spec_version" => some (fun s => decide (Spec.SpecVersion s))
  | _ => none

/-- one character per string: bit 0 `is_valid_release_short`, 1 `_version`, 2 `_type` (model of the code),
bit 3 `SpecShort`, bit 4 `SpecVersion` (specification); offset 48 -/
def code (s : Str) : Char :=
  let b (x : Bool) (k : Nat) : Nat := if x then k else 0
  Char.ofNat (48 + b (isValidReleaseShort s) 1 + b (isValidReleaseVersion s) 2 + b (isValidReleaseType s) 4
    + b (decide (Spec.SpecShort s)) 8 + b (decide (Spec.SpecVersion s)) 16)

/-- codes of all words `prefix ++ w`, `|w| = k`, in `itertools.product(alphabet, repeat=k)` order (first position
varying slowest); streaming: nothing but the output is kept.  `rp` is the reversed word so far. -/
def leaves (alphabet : Str) : Nat → Str → String → String
  | 0, rp, acc => acc.push (code rp.reverse)
  | k + 1, rp, acc => alphabet.foldl (fun acc a => leaves alphabet k (a :: rp) acc) acc

def blockCodes (alphabet prefix_ : Str) (n : Nat) : String :=
  (List.range (n + 1)).foldl (fun acc k => leaves alphabet k prefix_.reverse acc) ""

/-- the same enumeration with an arbitrary per-word code -/
def leavesG (code : Str → Char) (alphabet : Str) : Nat → Str → String → String
  | 0, rp, acc => acc.push (code rp.reverse)
  | k + 1, rp, acc => alphabet.foldl (fun acc a => leavesG code alphabet k (a :: rp) acc) acc

def blockCodesG (code : Str → Char) (alphabet : Str) (n : Nat) : String :=
  (List.range (n + 1)).foldl (fun acc k => leavesG code alphabet k [] acc) ""

/-- outcome of `create_release_id` with argument `pos` replaced by `w` and the other five taken from `a`:
`1` accepted, `V` ValueError, `T` TypeError -/
def createCode (a : Json) (pos : String) (w : Str) : Char :=
  let g (k : String) : Option Str := if k == pos then some w else getOptStr a k
  match createReleaseId ((g "short").getD []) ((g "version").getD []) ((g "type").getD [])
      (g "bp_short") (g "bp_version") (g "bp_type") with
  | .ok _ => '1'
  | .error .valueError => 'V'
  | .error .typeError => 'T'
  | .error _ => 'E'

def jrel (r : Rel) (pre : String) : List (String × Json) :=
  [(pre ++ "short", jstr r.short), (pre ++ "version", jstr r.version), (pre ++ "type", jstr r.type)]

def jparsed : Except Err (Rel × Option Rel) → Json
  | .error e => errJson e
  | .ok (r, none) => jok (Json.mkObj (jrel r ""))
  | .ok (r, some b) => jok (Json.mkObj (jrel r "" ++ jrel b "bp_"))

def createOf (a : Json) : Except Err Str :=
  createReleaseId (getStrD a "short") (getStrD a "version") (getStrD a "type")
    (getOptStr a "bp_short") (getOptStr a "bp_version") (getOptStr a "bp_type")

def ops : List (String × (Json → Json)) :=
  [("c14_pred", fun a =>
      match predOf (String.ofList (getStrD a "which")) with
      | some p => Json.bool (p (getStrD a "s"))
      | none => jerr "bad-op"),
   ("c14_block", fun a =>
      Json.str (blockCodes (getStrD a "alphabet") (getStrD a "prefix") ((getNat? a "n").getD 0))),
   ("c14_create_block", fun a =>
      Json.str (blockCodesG (createCode a (String.ofList (getStrD a "pos"))) (getStrD a "alphabet") ((getNat? a "n").getD 0))),
   ("c14_create", fun a => exceptJson jstr (createOf a)),
   ("c14_parse", fun a => jparsed (parseReleaseId (getStrD a "id"))),
   ("c14_roundtrip", fun a =>
      match createOf a with
      | .error e => Json.mkObj [("create", errJson e), ("parse", Json.null)]
      | .ok id => Json.mkObj [("create", jok (jstr id)), ("parse", jparsed (parseReleaseId id))])]

end PM.Driver.OpsReleaseId
