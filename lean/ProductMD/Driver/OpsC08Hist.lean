import ProductMD.Driver.OpsBuilders
import ProductMD.Model.BuilderSlots
/-! C08, histories of `add` calls: per call its order-sensitive cell (`Mf.rpmsSlot` / `modulesSlot` / `extraSlot`) and its outcome
when the history is run from a fresh manifest. -/
namespace PM.Driver.OpsC08Hist
open Lean PM PM.Driver PM.Mf PM.Driver.OpsBuilders

def slotJson : Option (List Str) → Json
  | some l => Json.arr (l.map jstr).toArray
  | none => Json.null

def ops : List (String × (Json → Json)) :=
  [("c08_history", fun a =>
      let k := kindOf (getStrD a "kind")
      let calls := (getArr a "ops").map (addOp k)
      Json.mkObj [("slots", Json.arr (calls.map (fun c => slotJson c.slot)).toArray),
                  ("outcomes", Json.arr ((trace Mf.empty calls).map (fun r => outJson r.2)).toArray)])]

end PM.Driver.OpsC08Hist
