import ProductMD.Driver.Proto
import ProductMD.Model.IniParse
import ProductMD.Generated.Unicode
/-! driver ops: the INI reader/writer model on raw text -/
namespace PM.Driver.OpsIniParse
open Lean PM PM.Driver

def isSpace (c : Char) : Bool := Gen.spaceRanges.any fun r => r.1 ≤ c.toNat && c.toNat ≤ r.2

def docJson (d : IniParse.Doc) : Json :=
  Json.arr (d.map fun (n, opts) => Json.arr #[jstr n, Json.arr (opts.map fun (k, v) => Json.arr #[jstr k, jstr v]).toArray]).toArray

def docOfJson (j : Json) : IniParse.Doc :=
  match j with
  | .arr secs => secs.toList.filterMap fun s => match s with
    | .arr p => match p.toList with
      | [.str n, .arr opts] => some (n.toList, opts.toList.filterMap fun o => match o with
          | .arr q => match q.toList with
            | [.str k, .str v] => some (k.toList, v.toList)
            | _ => none
          | _ => none)
      | _ => none
    | _ => none
  | _ => []

def ops : List (String × (Json → Json)) :=
  [("ini_parse", fun a => exceptJson docJson (IniParse.parse isSpace (getStrD a "text"))),
   ("ini_render", fun a => jstr (IniParse.render (docOfJson (get a "doc"))))]

end PM.Driver.OpsIniParse
