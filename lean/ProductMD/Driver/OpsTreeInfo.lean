import ProductMD.Driver.Proto
import ProductMD.Model.IniText
import ProductMD.Model.TreeInfo
import ProductMD.Model.DiscInfo
import ProductMD.Driver.OpsIniParse
/-!
driver ops: INI documents/text, treeinfo, discinfo.

Wire format of a tree (`spec`): dictionaries travel as lists of pairs so that the insertion order is under the
caller's control:
`{"header_version", "release": {"name","short","version"}, "is_layered", "base_product": null | {..},
  "tree": {"arch", "build_timestamp": int | {"$float": repr, "int": n} | {"$float": repr, "int_err": cls}, "platforms": [..]},
  "variants": [{"key","id","uid","name","type","paths": [[field, value]..], "variants": [..]}..],
  "checksums": [[path, type, value]..], "images": [[platform, [[image, path]..]]..],
  "stage2": {"mainimage","instimage"}, "media": {"discnum","totaldiscs"}}`.
The float oracle travels as `"floats": {"<text>": {"int": n} | {"int_err": cls} (+ "repr": r | "repr_err": cls)}`.
-/
namespace PM.Driver.OpsTreeInfo
open Lean PM PM.Driver PM.TI

def errOfName (s : String) : Err :=
  match s with
  | "TypeError" => .typeError | "ValueError" => .valueError | "KeyError" => .keyError
  | "AttributeError" => .attributeError | "IndexError" => .indexError | "RuntimeError" => .runtimeError
  | "ParserError" => .parserError | _ => .other

def jpairs (l : List (Str × Str)) : Json := Json.arr (l.map fun kv => Json.arr #[jstr kv.1, jstr kv.2]).toArray

def strOf (j : Json) : Str := match j with | .str s => s.toList | _ => []
def optStrOf (j : Json) : Option Str := match j with | .str s => some s.toList | _ => none
def optIntOf (j : Json) : Option Int := match j.getInt? with | .ok n => some n | _ => none

def pairsOf (j : Json) : List (Str × Str) :=
  match j with
  | .arr a => a.toList.filterMap fun x => match x with
      | .arr #[.str k, .str v] => some (k.toList, v.toList)
      | _ => none
  | _ => []

def docOf (j : Json) : Ini :=
  match j with
  | .arr a => a.toList.filterMap fun x => match x with
      | .arr #[.str s, opts] => some (s.toList, pairsOf opts)
      | _ => none
  | _ => []

def jdoc (d : Ini) : Json := Json.arr (d.map fun s => Json.arr #[jstr s.1, jpairs s.2]).toArray

def productOf (j : Json) : Product := ⟨getStrD j "name", getStrD j "short", getStrD j "version"⟩
def jproduct (p : Product) : Json := Json.mkObj [("name", jstr p.name), ("short", jstr p.short), ("version", jstr p.version)]

def tsOf (j : Json) : Ts :=
  match j.getInt? with
  | .ok n => .int n
  | _ =>
    match getBool? j "$bool" with
    | some b => .bool b
    | none =>
    let r := getStrD j "$float"
    match getInt? j "int" with
    | some n => .float r (.ok n)
    | none => .float r (.error (errOfName (String.ofList (getStrD j "int_err"))))

def jts : Ts → Json
  | .int n => jint n
  | .float r (.ok n) => Json.mkObj [("$float", jstr r), ("int", jint n)]
  | .float r (.error e) => Json.mkObj [("$float", jstr r), ("int_err", Json.str e.name)]
  | .bool b => Json.mkObj [("$bool", Json.bool b)]

instance : Inhabited Variant := ⟨.mk [] [] [] [] [] [] []⟩

partial def variantOf (j : Json) : Variant :=
  .mk (getStrD j "key") (getStrD j "id") (getStrD j "uid") (getStrD j "name") (getStrD j "type")
    (pairsOf (get j "paths")) ((getArr j "variants").map variantOf)

partial def jvariant (v : Variant) : Json :=
  Json.mkObj [("key", jstr v.key), ("id", jstr v.id), ("uid", jstr v.uid), ("name", jstr v.name), ("type", jstr v.type),
              ("paths", jpairs v.paths), ("variants", Json.arr (v.kids.map jvariant).toArray)]

def treeInfoOf (j : Json) : TreeInfo :=
  let tr := get j "tree"
  { headerVersion := (getStr? j "header_version").getD "0.0".toList
    release := productOf (get j "release")
    isLayered := (getBool? j "is_layered").getD false
    baseProduct := match get j "base_product" with | .null => none | b => some (productOf b)
    tree := ⟨getStrD tr "arch", tsOf (get tr "build_timestamp"), getStrs tr "platforms"⟩
    variants := (getArr j "variants").map variantOf
    checksums := (getArr j "checksums").filterMap fun x => match x with
      | .arr #[.str p, .str t, .str v] => some (p.toList, t.toList, v.toList)
      | _ => none
    images := (getArr j "images").filterMap fun x => match x with
      | .arr #[.str p, imgs] => some (p.toList, pairsOf imgs)
      | _ => none
    mainimage := optStrOf (get (get j "stage2") "mainimage")
    instimage := optStrOf (get (get j "stage2") "instimage")
    discnum := optIntOf (get (get j "media") "discnum")
    totaldiscs := optIntOf (get (get j "media") "totaldiscs") }

def jtreeInfo (t : TreeInfo) : Json :=
  Json.mkObj [
    ("header_version", jstr t.headerVersion),
    ("release", jproduct t.release),
    ("is_layered", Json.bool t.isLayered),
    ("base_product", jopt jproduct t.baseProduct),
    ("tree", Json.mkObj [("arch", jstr t.tree.arch), ("build_timestamp", jts t.tree.ts), ("platforms", jstrs t.tree.platforms)]),
    ("variants", Json.arr (t.variants.map jvariant).toArray),
    ("checksums", Json.arr (t.checksums.map fun c => Json.arr #[jstr c.1, jstr c.2.1, jstr c.2.2]).toArray),
    ("images", Json.arr (t.images.map fun p => Json.arr #[jstr p.1, jpairs p.2]).toArray),
    ("stage2", Json.mkObj [("mainimage", jopt jstr t.mainimage), ("instimage", jopt jstr t.instimage)]),
    ("media", Json.mkObj [("discnum", jopt jint t.discnum), ("totaldiscs", jopt jint t.totaldiscs)])]

/-- the float oracle: answers supplied by the caller (CPython), anything else is `Other` -/
def oracleOf (j : Json) : FloatOracle :=
  { intOfFloatStr := fun s =>
      let e := get j (String.ofList s)
      match getInt? e "int" with
      | some n => .ok n
      | none => .error (errOfName (String.ofList (getStrD e "int_err")))
    reprOfFloatStr := fun s =>
      let e := get j (String.ofList s)
      match getStr? e "repr" with
      | some r => .ok r
      | none => .error (errOfName (String.ofList (getStrD e "repr_err"))) }

def mainVariantOf (a : Json) : Option Str := optStrOf (get a "main_variant")

def dumpsJson (t : TreeInfo) (mv : Option Str) : Json :=
  exceptJson (fun d => Json.mkObj [("doc", jdoc d), ("text", jstr (IniText.render d)),
                                   ("representable", Json.bool (IniText.Representable d))]) (serialize t mv)

/-- the reader model with CPython's `str.isspace` (generated ranges) -/
def parseText (text : Str) : Except Err Ini := IniParse.parse OpsIniParse.isSpace text

def loadsText (fo : FloatOracle) (text : Str) : Except Err TreeInfo :=
  (parseText text).bind (deserialize fo)

def discsOf (j : Json) : DI.Discs :=
  match j with
  | .arr #[.str "ALL"] => .all
  | .arr a => .nums (a.toList.filterMap fun x => (x.getInt?).toOption)
  | _ => .nums []

def discOf (j : Json) : DI.DiscInfo :=
  ⟨getStrD j "timestamp", getStrD j "description", getStrD j "arch", discsOf (get j "disc_numbers")⟩

def jdisc (x : DI.DiscInfo) : Json :=
  Json.mkObj [("timestamp", jstr x.timestamp), ("description", jstr x.description), ("arch", jstr x.arch),
              ("disc_numbers", match x.discs with
                | .all => Json.arr #[Json.str "ALL"]
                | .nums ns => Json.arr (ns.map jint).toArray)]

def ops : List (String × (Json → Json)) :=
  [("ini_render_sorted", fun a => jstr (IniText.render (docOf (get a "doc")))),
   ("ini_canon", fun a => jdoc (IniText.canon (docOf (get a "doc")))),
   ("ini_representable", fun a => Json.bool (IniText.Representable (docOf (get a "doc")))),
   ("ti_dumps", fun a => dumpsJson (treeInfoOf (get a "spec")) (mainVariantOf a)),
   ("ti_deserialize", fun a => exceptJson jtreeInfo (deserialize (oracleOf (get a "floats")) (docOf (get a "doc")))),
   ("ti_loads", fun a => exceptJson jtreeInfo (loadsText (oracleOf (get a "floats")) (getStrD a "text"))),
   ("ti_norm", fun a => jtreeInfo (norm (treeInfoOf (get a "spec")))),
   -- the whole write/read/write cycle of the model, with the reader assumption checked on this document
   ("ti_cycle", fun a =>
      let t := treeInfoOf (get a "spec")
      let mv := mainVariantOf a
      let fo := oracleOf (get a "floats")
      match serialize t mv with
      | .error e => Json.mkObj [("dump", errJson e)]
      | .ok d =>
        let text := IniText.render d
        let back := loadsText fo text
        Json.mkObj [("dump", jok (jstr text)), ("doc", jdoc d),
                    ("representable", Json.bool (IniText.Representable d)),
                    ("parse_is_canon", Json.bool (match parseText text with
                        | .ok d' => d' == IniText.canon (IniText.dropComments d)
                        | .error _ => false)),
                    ("load", exceptJson jtreeInfo back),
                    ("load_doc", exceptJson jtreeInfo (deserialize fo d)),
                    ("norm", jtreeInfo (norm t)),
                    ("dump2", match back with
                        | .ok t2 => exceptJson (fun d2 => jstr (IniText.render d2)) (serialize t2 mv)
                        | .error e => errJson e)]),
   ("di_dumps", fun a => exceptJson jstr (DI.dumps (discOf (get a "spec")))),
   ("di_loads", fun a => exceptJson jdisc (DI.loads (oracleOf (get a "floats")) (getStrD a "text"))),
   ("di_cycle", fun a =>
      let x := discOf (get a "spec")
      let fo := oracleOf (get a "floats")
      match DI.dumps x with
      | .error e => Json.mkObj [("dump", errJson e)]
      | .ok text =>
        let back := DI.loads fo text
        Json.mkObj [("dump", jok (jstr text)), ("load", exceptJson jdisc back),
                    ("dump2", match back with
                        | .ok y => exceptJson jstr (DI.dumps y)
                        | .error e => errJson e)])]

end PM.Driver.OpsTreeInfo
