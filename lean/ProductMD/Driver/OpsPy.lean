import ProductMD.Driver.Proto
import ProductMD.Model.Customs
/-! driver ops: generic Python-value model (JSON text rendering) -/
namespace PM.Driver.OpsPy
open Lean PM PM.Driver

def ops : List (String × (Json → Json)) :=
  [("json_dumps", fun a => jstr (JsonText.dumps (toPy (get a "v")))),
   ("validate", fun a =>
      let o : Obj := match toPy (get a "obj") with | .dict kvs => kvs | _ => []
      match validateClass (String.ofList (getStrD a "cls")) o with
      | .ok () => jok Json.null
      | .error e => errJson e),
   ("py_eq", fun a => Json.bool (PyVal.pyEq (toPy (get a "a")) (toPy (get a "b"))))]

end PM.Driver.OpsPy
