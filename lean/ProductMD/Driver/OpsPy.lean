import ProductMD.Driver.Proto
/-! driver ops: generic Python-value model (JSON text rendering) -/
namespace PM.Driver.OpsPy
open Lean PM PM.Driver

def ops : List (String × (Json → Json)) :=
  [("json_dumps", fun a => jstr (JsonText.dumps (toPy (get a "v")))),
   ("py_eq", fun a => Json.bool (PyVal.pyEq (toPy (get a "a")) (toPy (get a "b"))))]

end PM.Driver.OpsPy
