import ProductMD.Driver.OpsComposeInfo
import ProductMD.Model.ComposeInfoState
/-! driver ops of C08: the composeinfo dump as a state transformer (`CI.dumpsSt`): text / exception, and the object afterwards -/
namespace PM.Driver.OpsC08
open Lean PM PM.Driver PM.CI PM.Driver.OpsComposeInfo

def ops : List (String × (Json → Json)) :=
  [("c08_ci_dumps_state", fun a =>
      let s : CIState := { version := getStrD a "version", ci := toCI (get a "spec") }
      -- `n` dumps in a row on the same object
      let n := (getNat? a "ndumps").getD 1
      let rec go : Nat → CIState → List PyVal → CIState × List PyVal
        | 0, s, acc => (s, acc.reverse)
        | k + 1, s, acc => let r := dumpsSt s; go k r.1 (exceptPy pstr r.2 :: acc)
      let r := go n s []
      wire (.dict [(k%"outs", .list r.2), (k%"version", pstr r.1.version), (k%"ci", ofCI r.1.ci)]))]

end PM.Driver.OpsC08
