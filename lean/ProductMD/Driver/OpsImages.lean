import ProductMD.Driver.Proto
import ProductMD.Model.Images
/-!
driver ops: the images manifest model (`Model/Images.lean`).

State encoding (lists, so that insertion order survives the JSON object type):
`{"version": <py>, "compose": {id,type,date,respin,label,final}, "cells": [[variant, [[arch, [[id, {15 attrs}], …]], …]], …]}`
-/
namespace PM.Driver.OpsImages
open Lean PM PM.Driver PM.Img

def fld (v : PyVal) (k : String) : PyVal := (v.get? k.toList).getD .none

def imageOfPy (v : PyVal) : Image :=
  { path := fld v "path", mtime := fld v "mtime", size := fld v "size", volume_id := fld v "volume_id", type := fld v "type",
    format := fld v "format", arch := fld v "arch", disc_number := fld v "disc_number", disc_count := fld v "disc_count",
    checksums := fld v "checksums", implant_md5 := fld v "implant_md5", bootable := fld v "bootable",
    subvariant := fld v "subvariant", unified := fld v "unified", additional_variants := fld v "additional_variants" }

def imageToJson (i : Image) : Json := ofPy (.dict i.toObj)

def composeOfPy (v : PyVal) : Compose :=
  { id := fld v "id", type := fld v "type", date := fld v "date", respin := fld v "respin", label := fld v "label", final := fld v "final" }

def composeToJson (c : Compose) : Json := ofPy (.dict c.toObj)

def strOf : Json → Str
  | .str s => s.toList
  | _ => []

def natOf (j : Json) : Nat := (j.getNat?.toOption).getD 0

def arr : Json → List Json
  | .arr a => a.toList
  | _ => []

def cellsOfJson (j : Json) : Cells :=
  (arr j).map fun va => match arr va with
    | [v, as] => (strOf v, (arr as).map fun ac => match arr ac with
        | [a, c] => (strOf a, (arr c).map fun e => match arr e with
            | [id, img] => (natOf id, imageOfPy (toPy img))
            | _ => (0, {}))
        | _ => ([], []))
    | _ => ([], [])

def stateOfJson (j : Json) : ImgState :=
  { version := toPy (get j "version"), compose := composeOfPy (toPy (get j "compose")), cells := cellsOfJson (get j "cells") }

def cellsToJson (cs : Cells) : Json :=
  Json.arr (cs.map fun va => Json.arr #[jstr va.1, Json.arr (va.2.map fun ac =>
    Json.arr #[jstr ac.1, Json.arr (ac.2.map fun e => Json.arr #[jnat e.1, imageToJson e.2]).toArray]).toArray]).toArray

def stateToJson (s : ImgState) : Json :=
  Json.mkObj [("version", ofPy s.version), ("compose", composeToJson s.compose), ("cells", cellsToJson s.cells)]

def resJson : Except Err Unit → Json
  | .ok () => Json.str "ok"
  | .error e => errJson e

/-- a history of adds on `Images()` with a chosen header version; result and state after every step -/
def opHistory (a : Json) : Json :=
  let s0 : ImgState := { stateOfJson a with cells := [] }
  let ops := getArr a "ops"
  let (_, outs) := ops.foldl (fun (acc : ImgState × List Json) o =>
      let (s, outs) := acc
      let r := add s (getStrD o "variant") (getStrD o "arch") ((getNat? o "id").getD 0) (imageOfPy (toPy (get o "image")))
      (r.1, Json.mkObj [("res", resJson r.2), ("state", cellsToJson r.1.cells)] :: outs)) (s0, [])
  Json.arr outs.reverse.toArray

/-- a history that may cross the version gate, on a fresh `Images()`:
ops `["add", variant, arch, id, image] | ["dumps"] | ["set_version", v] | ["loads", doc]`; after every step the
result, the header version, the compose section and the cells; a failed `loads` is a step like any other (`loadsInto`) -/
def opXHistory (a : Json) : Json :=
  let ops := getArr a "ops"
  let rec go (s : ImgState) (k : Nat) : List Json → List Json
    | [] => []
    | o :: rest =>
      let parts := arr o
      let kind := match parts.head? with | some (.str x) => x | _ => ""
      let hop : HOp :=
        if kind == "add" then
          .add ⟨strOf (parts.getD 1 .null), strOf (parts.getD 2 .null), natOf (parts.getD 3 .null), imageOfPy (toPy (parts.getD 4 .null))⟩
        else if kind == "dumps" then .dumps
        else if kind == "set_version" then .setVersion (toPy (parts.getD 1 .null))
        else if kind == "discard" then .discard (strOf (parts.getD 1 .null)) (strOf (parts.getD 2 .null)) (natOf (parts.getD 3 .null))
        else if kind == "del_variant" then .delVariant (strOf (parts.getD 1 .null))
        else .loads (toPy (parts.getD 1 .null)) (1000 * (k + 1))
      let r := hstep s hop
      let out := Json.mkObj [("res", resJson r.2), ("version", ofPy r.1.version), ("compose", composeToJson r.1.compose),
        ("state", cellsToJson r.1.cells)]
      out :: go r.1 (k + 1) rest
  Json.arr (go { compose := composeOfPy (toPy (get a "compose")) } 0 ops).toArray

def opDumps (a : Json) : Json :=
  let r := dumps (stateOfJson (get a "state"))
  match r.2 with
  | .ok t => Json.mkObj [("ok", jstr t), ("version", ofPy r.1.version)]
  | .error e => Json.mkObj [("err", Json.str e.name), ("version", ofPy r.1.version)]

def opLoads (a : Json) : Json :=
  exceptJson stateToJson (loads (toPy (get a "doc")))

/-- dumps; loads of the (key-sorted) document; dumps of the result -/
def opCycle (a : Json) : Json :=
  let s := stateOfJson (get a "state")
  match serialize s with
  | (_, .error e) => Json.mkObj [("dumps", errJson e)]
  | (_, .ok doc) =>
    if !PyOps.jsonSafe doc then Json.mkObj [("dumps", jerr "TypeError")] else
    let t1 := JsonText.dumps doc
    match loads (PyVal.canon doc) with
    | .error e => Json.mkObj [("dumps", jok (jstr t1)), ("loads", errJson e)]
    | .ok s2 =>
      let d2 := match dumps s2 with
        | (_, .ok t2) => jok (jstr t2)
        | (_, .error e) => errJson e
      Json.mkObj [("dumps", jok (jstr t1)), ("loads", jok (stateToJson s2)), ("dumps2", d2)]

def opIdentify (a : Json) : Json :=
  match a.getObjVal? "dict" with
  | .ok d => Json.arr ((identifyDict (toPy d)).map ofPy).toArray
  | .error _ => Json.arr ((identifyObj (imageOfPy (toPy (get a "image")))).map ofPy).toArray

def ops : List (String × (Json → Json)) :=
  [("images_history", opHistory), ("images_xhistory", opXHistory), ("images_dumps", opDumps), ("images_loads", opLoads), ("images_cycle", opCycle),
   ("images_identify", opIdentify),
   ("images_image_roundtrip", fun a =>
      let ver := toPy (get a "version")
      exceptJson imageToJson (Image.deserialize ver (toPy (get a "dict")))),
   ("py_int", fun a => exceptJson jint (PyOps.pyInt (toPy (get a "v")))),
   ("py_eq2", fun a => Json.bool (PyOps.pyEq (toPy (get a "a")) (toPy (get a "b"))))]

end PM.Driver.OpsImages
