import ProductMD.Driver.Proto
import ProductMD.Model.Regex
import ProductMD.Generated.Regexes
/-! driver ops: the regex engine model on the generated patterns -/
namespace PM.Driver.OpsRegex
open Lean PM PM.Driver

def findPattern (name : String) : Option Re :=
  (Gen.allPatterns.find? (·.1 == name)).map (·.2.2)

def jcaps (c : Caps) : Json :=
  Json.arr ((c.map fun p => Json.arr #[jnat p.1, jstr p.2]).toArray)

def opRegex (op : String) (a : Json) : Json :=
  match findPattern (String.ofList (getStrD a "pattern")) with
  | none => jerr "unknown-pattern"
  | some r =>
    let s := getStrD a "s"
    match op with
    | "re_matches" => Json.bool (pyMatches r s)
    | "re_match" => jopt jcaps (pyMatch r s)
    | "re_cost" => jnat (pyCost r s)
    | _ => jerr "bad-op"

/-- regex AST from protocol JSON: "eps" | "bol" | "eol" | ["cls", [[lo,hi],..], neg] | ["cat", a, b] | ["alt", a, b] |
["star", a] | ["grp", n, a] -/
instance : Inhabited Re := ⟨.bad⟩

partial def reOfJson : Json → Re
  | .str "eps" => .eps
  | .str "bol" => .bol
  | .str "eol" => .eol
  | .arr a =>
    match a.toList with
    | [.str "cls", .arr rs, .bool neg] =>
      .cls { ranges := rs.toList.filterMap (fun r => match r with
              | .arr p => match p.toList with
                | [lo, hi] => match lo.getNat?, hi.getNat? with
                  | .ok l, .ok h => some (l, h)
                  | _, _ => none
                | _ => none
              | _ => none), neg := neg }
    | [.str "cat", x, y] => .cat (reOfJson x) (reOfJson y)
    | [.str "alt", x, y] => .alt (reOfJson x) (reOfJson y)
    | [.str "star", x] => .star (reOfJson x)
    | [.str "grp", n, x] => .grp ((n.getNat?).toOption.getD 0) (reOfJson x)
    | _ => .bad
  | _ => .bad

def opAst (a : Json) : Json :=
  let r := reOfJson (get a "re")
  let s := getStrD a "s"
  jopt jcaps (pyMatch r s)

def ops : List (String × (Json → Json)) :=
  [("re_matches", opRegex "re_matches"), ("re_match", opRegex "re_match"), ("re_cost", opRegex "re_cost"),
   ("re_match_ast", opAst)]

end PM.Driver.OpsRegex
