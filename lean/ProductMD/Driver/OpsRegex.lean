import ProductMD.Driver.Proto
import ProductMD.Model.Regex
import ProductMD.Generated.Regexes
/-! driver ops: the regex engine model on the generated patterns -/
namespace PM.Driver.OpsRegex
open Lean PM PM.Driver

def findPattern (name : String) : Option Re :=
  (Gen.allPatterns.find? (·.1 == name)).map (·.2.2)

def jcaps (c : Caps) : Json :=
  Json.arr ((c.map fun p => Json.arr #[jnat p.1, jstr p.2]).toArray)

def opRegex (op : String) (a : Json) : Json :=
  match findPattern (String.ofList (getStrD a "pattern")) with
  | none => jerr "unknown-pattern"
  | some r =>
    let s := getStrD a "s"
    match op with
    | "re_matches" => Json.bool (pyMatches r s)
    | "re_match" => jopt jcaps (pyMatch r s)
    | "re_cost" => jnat (pyCost r s)
    | _ => jerr "bad-op"

def ops : List (String × (Json → Json)) :=
  [("re_matches", opRegex "re_matches"), ("re_match", opRegex "re_match"), ("re_cost", opRegex "re_cost")]

end PM.Driver.OpsRegex
