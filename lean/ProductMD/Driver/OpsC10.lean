import ProductMD.Driver.OpsImages
import ProductMD.Driver.OpsBuilders
import ProductMD.Model.RpmsLegacy
/-!
driver ops for C10 (source content under binary architectures).

* `c10_images_load`  `{"doc": <parsed images JSON>}` → `{"ok": {"state": <images state with object ids>, "dump": {"ok": text} | {"err": ..}}}`
  or `{"err": class}`: `Images.loads` (with the `_add_1_1` re-filing of `src` entries) followed by `dumps()`;
* `c10_rpms_load`    `{"doc": <parsed rpms JSON>}` → `{"ok": {"manifest": .., "dump": ..}}` or `{"err": class}`:
  `Rpms.loads` through every header version (`Mf.deserializeL`: the 0.3 reader `deserialize_0_3` for `<= (0, 3)`)
  followed by `dumps()`.

The add histories of C10 use the existing ops `images_history` (OpsImages) and `bld_trace` (OpsBuilders).
-/
namespace PM.Driver.OpsC10
open Lean PM PM.Driver

def imagesLoad (doc : PyVal) : Json :=
  match Img.loads doc with
  | .error e => errJson e
  | .ok s =>
    let d := match Img.dumps s with
      | (_, .ok t) => jok (jstr t)
      | (_, .error e) => errJson e
    jok (Json.mkObj [("state", OpsImages.stateToJson s), ("dump", d)])

def rpmsLoad (doc : PyVal) : Json :=
  match Mf.deserializeL .rpms doc with
  | .error e => errJson e
  | .ok m =>
    let d := match (Mf.dumps .rpms m).2 with
      | .ok t => jok (jstr t)
      | .error e => errJson e
    jok (Json.mkObj [("manifest", OpsBuilders.manifestJson m), ("dump", d)])

def ops : List (String × (Json → Json)) :=
  [("c10_images_load", fun a => imagesLoad (toPy (get a "doc"))),
   ("c10_rpms_load", fun a => rpmsLoad (toPy (get a "doc")))]

end PM.Driver.OpsC10
