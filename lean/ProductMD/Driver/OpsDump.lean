import ProductMD.Driver.Proto
import ProductMD.Model.Dump
import ProductMD.Generated.Effects
/-! driver ops: the effect model of `dump` (C18) on the generated scripts -/
namespace PM.Driver.OpsDump
open Lean PM PM.Driver

def errOfName (s : String) : Err :=
  match s with
  | "TypeError" => .typeError | "ValueError" => .valueError | "KeyError" => .keyError
  | "AttributeError" => .attributeError | "IndexError" => .indexError | "RuntimeError" => .runtimeError
  | _ => .other

/-- `null`/absent → ok; `{"err": cls}` → error -/
def unitOutcome (j : Json) : Except Err Unit :=
  match j.getObjVal? "err" with
  | .ok (.str c) => .error (errOfName c)
  | _ => .ok ()

def textOutcome (j : Json) : Except Err Content :=
  match j.getObjVal? "err" with
  | .ok (.str c) => .error (errOfName c)
  | _ => .ok (getStrD j "ok")

def objOf (j : Json) : DumpObj :=
  { validate := unitOutcome (get j "validate"),
    getParser := textOutcome (get j "getParser"),
    serialize := textOutcome (get j "serialize"),
    unknown := unitOutcome (get j "unknown"),
    readBack := unitOutcome (get j "readBack"),
    openErr := match get j "openErr" with | .str c => some (errOfName c) | _ => none,
    buildFail := match get j "buildFail" with
      | .arr a => (match a.toList with
        | [n, .str c] => (match n.getNat? with | .ok k => some (k, errOfName c) | _ => none)
        | _ => none)
      | _ => none }

def scriptOf (a : Json) : Option (List Eff) :=
  match a.getObjVal? "effects" with
  | .ok (.arr es) => some (es.toList.filterMap fun e => match e with | .str s => some (Eff.ofName s) | _ => none)
  | _ => (Gen.dumpScripts.find? (·.1 == String.ofList (getStrD a "script"))).map (·.2)

/-- `{"script": name | "effects": [..], "obj": {..}, "before": text|null}` →
`{"result": "ok" | {"eff","err"}, "after": text|null, "other": text|null, "trace": [..], "safe": bool}`
(`other` = content of an unrelated path, to show nothing else is touched) -/
def opDumpRun (a : Json) : Json :=
  match scriptOf a with
  | none => jerr "unknown-script"
  | some sc =>
    let path : Path := "dest".toList
    let otherPath : Path := "other".toList
    let before : Option Content := getStr? a "before"
    let fs : FS := fun q => if q = path then before else if q = otherPath then some "untouched".toList else none
    let o := objOf (get a "obj")
    let r := run sc o fs path
    Json.mkObj
      [("result", match r.2 with
          | .ok () => Json.str "ok"
          | .error (eff, e) => Json.mkObj [("eff", Json.str eff.name), ("err", Json.str e.name)]),
       ("after", jopt jstr (r.1 path)),
       ("other", jopt jstr (r.1 otherPath)),
       ("trace", Json.arr ((runTrace sc o fs path).map (fun e => Json.str e.name)).toArray),
       ("safe", Json.bool (noFallibleAfterOpen sc))]

def opDumpScripts (_ : Json) : Json :=
  Json.mkObj (Gen.dumpScripts.map fun (n, sc) => (n, Json.arr (sc.map (fun e => Json.str e.name)).toArray))

def ops : List (String × (Json → Json)) :=
  [("dump_run", opDumpRun), ("dump_scripts", opDumpScripts)]

end PM.Driver.OpsDump
