import ProductMD.Driver.Proto
import ProductMD.Model.ManifestIO
/-! driver ops: manifest builders (C12) and payload-verbatim manifests (C03) -/
namespace PM.Driver.OpsBuilders
open Lean PM PM.Driver PM.Mf

def optStrOf (j : Json) (k : String) : Option Str :=
  match get j k with
  | .str s => some s.toList
  | _ => none

def seqArg (j : Json) : SeqArg :=
  match j.getObjVal? "list", j.getObjVal? "tuple" with
  | .ok (.arr a), _ => .list (a.toList.map toPy)
  | _, .ok (.arr a) => .tuple (a.toList.map toPy)
  | _, _ => .other

def kindOf (s : Str) : Kind :=
  if s == "modules".toList then .modules else if s == "extra_files".toList then .extraFiles else .rpms

def addOp (k : Kind) (a : Json) : AddOp :=
  match k with
  | .rpms => .rpms { variant := getStrD a "variant", arch := getStrD a "arch", nevra := getStrD a "nevra",
                     path := getStrD a "path", sigkey := optStrOf a "sigkey", category := getStrD a "category",
                     srpm := optStrOf a "srpm" }
  | .modules => .modules { variant := getStrD a "variant", arch := getStrD a "arch", uid := toPy (get a "uid"),
                           kojiTag := getStrD a "koji_tag", modulemdPath := getStrD a "modulemd_path",
                           category := getStrD a "category", rpms := seqArg (get a "rpms") }
  | .extraFiles => .extra { variant := getStrD a "variant", arch := getStrD a "arch", path := getStrD a "path",
                            size := toPy (get a "size"), checksums := toPy (get a "checksums") }

def outJson : Out → Json
  | .ok () => jok Json.null
  | .error e => errJson e

def objOf (j : Json) : Obj :=
  match toPy j with
  | .dict kvs => kvs
  | _ => []

def manifestOf (a : Json) : Manifest :=
  { version := toPy (get a "version"), compose := objOf (get a "compose"), payload := toPy (get a "payload") }

def manifestJson (m : Manifest) : Json :=
  Json.mkObj [("version", ofPy m.version), ("compose", ofPy (.dict m.compose)), ("payload", ofPy m.payload)]

def ops : List (String × (Json → Json)) :=
  [("bld_trace", fun a =>
      let k := kindOf (getStrD a "kind")
      let init := match a.getObjVal? "init" with | .ok j => toPy j | _ => Mf.empty
      let steps := trace init ((getArr a "ops").map (addOp k))
      Json.arr (steps.map fun r => Json.mkObj [("out", outJson r.2), ("state", ofPy r.1)]).toArray),
   ("bld_dumps", fun a =>
      let r := dumps (kindOf (getStrD a "kind")) (manifestOf a)
      Json.mkObj [("version_after", ofPy r.1.version), ("out", exceptJson jstr r.2)]),
   ("bld_deserialize", fun a =>
      exceptJson manifestJson (deserialize (kindOf (getStrD a "kind")) (toPy (get a "doc")))),
   ("bld_roundtrip", fun a =>
      let k := kindOf (getStrD a "kind")
      let init := match a.getObjVal? "init" with | .ok j => toPy j | _ => Mf.empty
      let st := runOps init ((getArr a "ops").map (addOp k))
      let m : Manifest := { version := toPy (get a "version"), compose := objOf (get a "compose"), payload := st }
      Json.mkObj [("state", ofPy st),
                  ("out", exceptJson (fun r => Json.mkObj [("text1", jstr r.text1), ("reloaded", manifestJson r.reloaded),
                                                           ("text2", jstr r.text2)]) (roundtrip k m))]),
   ("bld_relative_to", fun a => jstr (relativeTo (getStrD a "path") (getStrD a "root"))),
   ("bld_dump_for_tree", fun a =>
      let payload := match a.getObjVal? "ops" with
        | .ok (.arr os) => runOps Mf.empty (os.toList.map (addOp .extraFiles))
        | _ => toPy (get a "payload")
      exceptJson jstr (dumpForTree payload (getStrD a "variant") (getStrD a "arch") (getStrD a "basepath"))),
   ("bld_check_nevra", fun a => exceptJson (fun p => jstr p.1) (checkNevra (getStrD a "s"))),
   ("bld_check_uid", fun a => exceptJson (fun p => jstr p.1) (checkUid (toPy (get a "uid"))))]

end PM.Driver.OpsBuilders
