import ProductMD.Driver.Proto
import ProductMD.Model.ManifestIO
/-! driver ops: manifest builders (C12) and payload-verbatim manifests (C03) -/
namespace PM.Driver.OpsBuilders
open Lean PM PM.Driver PM.Mf

def optStrOf (j : Json) (k : String) : Option Str :=
  match get j k with
  | .str s => some s.toList
  | _ => none

def seqArg (j : Json) : SeqArg :=
  match j.getObjVal? "list", j.getObjVal? "tuple" with
  | .ok (.arr a), _ => .list (a.toList.map toPy)
  | _, .ok (.arr a) => .tuple (a.toList.map toPy)
  | _, _ => .other

def kindOf (s : Str) : Kind :=
  if s == "modules".toList then .modules else if s == "extra_files".toList then .extraFiles else .rpms

def addOp (k : Kind) (a : Json) : AddOp :=
  match k with
  | .rpms => .rpms { variant := getStrD a "variant", arch := getStrD a "arch", nevra := getStrD a "nevra",
                     path := getStrD a "path", sigkey := optStrOf a "sigkey", category := getStrD a "category",
                     srpm := optStrOf a "srpm" }
  | .modules => .modules { variant := getStrD a "variant", arch := getStrD a "arch", uid := toPy (get a "uid"),
                           kojiTag := getStrD a "koji_tag", modulemdPath := getStrD a "modulemd_path",
                           category := getStrD a "category", rpms := seqArg (get a "rpms") }
  | .extraFiles => .extra { variant := getStrD a "variant", arch := getStrD a "arch", path := getStrD a "path",
                            size := toPy (get a "size"), checksums := toPy (get a "checksums") }

def outJson : Out → Json
  | .ok () => jok Json.null
  | .error e => errJson e

def objOf (j : Json) : Obj :=
  match toPy j with
  | .dict kvs => kvs
  | _ => []

def manifestOf (a : Json) : Manifest :=
  { version := toPy (get a "version"), compose := objOf (get a "compose"), payload := toPy (get a "payload") }

def manifestJson (m : Manifest) : Json :=
  Json.mkObj [("version", ofPy m.version), ("compose", ofPy (.dict m.compose)), ("payload", ofPy m.payload)]

/-- one call of a history: `add` (default) or one of the read-only operations driven between the adds -/
def callStep (k : Kind) (s : PyVal) (j : Json) : PyVal × Json :=
  let call := getStrD j "call"
  if call == "dump_for_tree".toList then
    let r := ExtraFiles.dumpForTreeS s (getStrD j "variant") (getStrD j "arch") (getStrD j "basepath")
    (r.1, exceptJson jstr r.2)
  else if call == "getitem".toList then
    let r := getVariant s (getStrD j "variant")
    (r.1, exceptJson ofPy r.2)
  else if call == "dumps".toList then
    let r := dumps k { Manifest.init with payload := s }
    (r.1.payload, exceptJson jstr r.2)
  else if call == "validate".toList then
    -- `obj.validate()` + `obj.header.validate()`: the top-level classes have no validators, the header of a fresh object is "0.0"
    (s, match validateClass k.className [] with | .ok () => jok Json.null | .error e => errJson e)
  else
    let r := step s (addOp k j)
    (r.1, outJson r.2)

def callTrace (k : Kind) : PyVal → List Json → List Json
  | _, [] => []
  | s, j :: rest =>
    let r := callStep k s j
    Json.mkObj [("out", r.2), ("state", ofPy r.1)] :: callTrace k r.1 rest

/-- the re-parsed document with `header.version` / `header.type` overwritten (documents at the version gates) -/
def withHeader (doc : PyVal) (j : Json) : PyVal :=
  match doc with
  | .dict top =>
    match lookup top "header".toList with
    | some (.dict h) =>
      let h1 := match optStrOf j "version" with | some v => put h "version".toList (.str v) | none => h
      let h2 := match optStrOf j "type" with | some t => put h1 "type".toList (.str t) | none => h1
      .dict (put top "header".toList (.dict h2))
    | _ => doc
  | _ => doc

/-- one step of a session on ONE object: add / dumps / loads of its own last dump / loads of another manifest's dump -/
def sessionStep (k : Kind) (other : Except Err PyVal) (st : Manifest × Option PyVal) (j : Json) :
    (Manifest × Option PyVal) × Json :=
  let m := st.1
  let call := getStrD j "call"
  if call == "dumps".toList then
    let r := dumpDoc k m
    match r.2 with
    | .ok doc => ((r.1, some doc), jok (jstr (JsonText.dumps doc)))
    | .error e => ((r.1, st.2), errJson e)
  else if call == "dump_for_tree".toList then
    let r := ExtraFiles.dumpForTreeS m.payload (getStrD j "variant") (getStrD j "arch") (getStrD j "basepath")
    (({ m with payload := r.1 }, st.2), exceptJson jstr r.2)
  else if call == "loads_own".toList then
    match st.2 with
    | some doc => let r := loadS k m (withHeader (reparse doc) j); ((r.1, st.2), outJson r.2)
    | none => (st, jerr "NoText")
  else if call == "loads_other".toList then
    match other with
    | .ok doc => let r := loadS k m (reparse doc); ((r.1, st.2), outJson r.2)
    | .error e => (st, errJson e)
  else
    let r := step m.payload (addOp k j)
    (({ m with payload := r.1 }, st.2), outJson r.2)

def sessionTrace (k : Kind) (other : Except Err PyVal) : Manifest × Option PyVal → List Json → List Json
  | _, [] => []
  | st, j :: rest =>
    let r := sessionStep k other st j
    Json.mkObj [("out", r.2), ("state", manifestJson r.1.1)] :: sessionTrace k other r.1 rest

def ops : List (String × (Json → Json)) :=
  [("bld_session", fun a =>
      let k := kindOf (getStrD a "kind")
      let o := get a "other"
      let mo : Manifest := { version := .str "0.0".toList, compose := objOf (get o "compose"),
                             payload := runOps Mf.empty ((getArr o "ops").map (addOp k)) }
      let m0 : Manifest := { version := .str "0.0".toList, compose := objOf (get a "compose"), payload := Mf.empty }
      Json.arr (sessionTrace k (dumpDoc k mo).2 (m0, none) (getArr a "steps")).toArray),
   ("bld_trace", fun a =>
      let k := kindOf (getStrD a "kind")
      let init := match a.getObjVal? "init" with | .ok j => toPy j | _ => Mf.empty
      Json.arr (callTrace k init (getArr a "ops")).toArray),
   ("bld_dumps", fun a =>
      let r := dumps (kindOf (getStrD a "kind")) (manifestOf a)
      Json.mkObj [("version_after", ofPy r.1.version), ("out", exceptJson jstr r.2)]),
   ("bld_deserialize", fun a =>
      exceptJson manifestJson (deserialize (kindOf (getStrD a "kind")) (toPy (get a "doc")))),
   ("bld_roundtrip", fun a =>
      let k := kindOf (getStrD a "kind")
      let init := match a.getObjVal? "init" with | .ok j => toPy j | _ => Mf.empty
      let st := runOps init ((getArr a "ops").map (addOp k))
      let m : Manifest := { version := toPy (get a "version"), compose := objOf (get a "compose"), payload := st }
      Json.mkObj [("state", ofPy st),
                  ("out", exceptJson (fun r => Json.mkObj [("text1", jstr r.text1), ("reloaded", manifestJson r.reloaded),
                                                           ("text2", jstr r.text2)]) (roundtrip k m))]),
   ("bld_relative_to", fun a => jstr (relativeTo (getStrD a "path") (getStrD a "root"))),
   ("bld_dump_for_tree", fun a =>
      let payload := match a.getObjVal? "ops" with
        | .ok (.arr os) => runOps Mf.empty (os.toList.map (addOp .extraFiles))
        | _ => toPy (get a "payload")
      exceptJson jstr (dumpForTree payload (getStrD a "variant") (getStrD a "arch") (getStrD a "basepath"))),
   ("bld_check_nevra", fun a => exceptJson (fun p => jstr p.1) (checkNevra (getStrD a "s"))),
   ("bld_check_uid", fun a => exceptJson (fun p => jstr p.1) (checkUid (toPy (get a "uid"))))]

end PM.Driver.OpsBuilders
