import ProductMD.Driver.Proto
import ProductMD.Generated.AllOps
/-!
Model driver: one JSON object per input line `{"op": .., "args": {..}}`, one JSON value per output line.
Every op calls the very definitions the theorems in `Properties/` are about.  The op table is the
concatenation of every `Driver/Ops*.lean` (`Generated/AllOps.lean` is written by tools/translate.py).
-/
namespace PM.Driver
open Lean PM

def dispatch (op : String) (a : Json) : Json :=
  if op == "ping" then Json.str "pong" else
  match Gen.allOps.find? (·.1 == op) with
  | some (_, f) => f a
  | none => jerr "bad-op"

partial def loop (hin : IO.FS.Stream) (hout : IO.FS.Stream) : IO Unit := do
  let line ← hin.getLine
  if line.isEmpty then return ()
  let out := match Json.parse line with
    | .error _ => jerr "bad-json"
    | .ok j =>
      match j.getObjVal? "op" with
      | .ok (.str op) => dispatch op (get j "args")
      | _ => jerr "bad-op"
  hout.putStrLn out.compress
  loop hin hout

end PM.Driver

def main : IO Unit := do
  let hin ← IO.getStdin
  let hout ← IO.getStdout
  PM.Driver.loop hin hout
  hout.flush
