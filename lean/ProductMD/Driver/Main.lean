import ProductMD.Driver.Proto
import ProductMD.Model.Regex
import ProductMD.Generated.Regexes
import ProductMD.Generated.Tables
/-!
Model driver: one JSON object per input line `{"op": .., "args": {..}}`, one JSON value per output line.
Every op calls the very definitions the theorems in `Properties/` are about.
-/
namespace PM.Driver
open Lean PM

def findPattern (name : String) : Option Re :=
  (Gen.allPatterns.find? (·.1 == name)).map (·.2.2)

def jcaps (c : Caps) : Json :=
  Json.arr ((c.map fun p => Json.arr #[jnat p.1, jstr p.2]).toArray)

def opRegex (op : String) (a : Json) : Json :=
  match findPattern (String.ofList (getStrD a "pattern")) with
  | none => jerr "unknown-pattern"
  | some r =>
    let s := getStrD a "s"
    match op with
    | "re_matches" => Json.bool (pyMatches r s)
    | "re_match" => jopt jcaps (pyMatch r s)
    | "re_cost" => jnat (pyCost r s)
    | _ => jerr "bad-op"

def dispatch (op : String) (a : Json) : Json :=
  match op with
  | "ping" => Json.str "pong"
  | "re_matches" | "re_match" | "re_cost" => opRegex op a
  | _ => jerr "bad-op"

partial def loop (hin : IO.FS.Stream) (hout : IO.FS.Stream) : IO Unit := do
  let line ← hin.getLine
  if line.isEmpty then return ()
  let out := match Json.parse line with
    | .error _ => jerr "bad-json"
    | .ok j =>
      match j.getObjVal? "op" with
      | .ok (.str op) => dispatch op (get j "args")
      | _ => jerr "bad-op"
  hout.putStrLn out.compress
  loop hin hout

end PM.Driver

def main : IO Unit := do
  let hin ← IO.getStdin
  let hout ← IO.getStdout
  PM.Driver.loop hin hout
  hout.flush
