import ProductMD.Driver.Proto
import ProductMD.Model.Nvra
import ProductMD.Model.ComposeId
/-! driver ops for C13 (parse_nvra) and C15 (compose ids): the definitions the theorems are about -/
namespace PM.Driver.OpsIds
open Lean PM PM.Driver

def jnvra (p : Nvra) : Json :=
  Json.mkObj [("name", jopt jstr p.name), ("epoch", jnat p.epoch), ("version", jopt jstr p.version),
              ("release", jopt jstr p.release), ("arch", jopt jstr p.arch)]

/-- all strings of length `n` over `alpha`, in the order of `itertools.product` -/
def enumStrs (alpha : Str) : Nat → List Str
  | 0 => [[]]
  | n + 1 => alpha.flatMap fun c => (enumStrs alpha n).map (c :: ·)

/-- every string `prefix ++ w`, `|w| = n`, that `parseNvra` does not answer with ValueError -/
def opNvraEnum (a : Json) : Json :=
  let alpha := getStrD a "alphabet"
  let pre := getStrD a "prefix"
  let n := (getNat? a "n").getD 0
  Json.arr ((enumStrs alpha n).filterMap fun w =>
    let s := pre ++ w
    match parseNvra s with
    | .error .valueError => none
    | r => some (Json.arr #[jstr s, exceptJson jnvra r])).toArray

def product (j : Json) : Product :=
  { short := getStr? j "short", version := getStr? j "version", type := getStr? j "type" }

def idArgs (a : Json) : ComposeIdArgs :=
  { release := product (get a "release"), isLayered := (getBool? a "is_layered").getD false,
    baseProduct := product (get a "base_product"), variants := getStrs a "variants",
    date := getStr? a "date", ctype := getStr? a "type", respin := getInt? a "respin" }

def jdtr : Option (Option Str × Str × Nat) → Json
  | none => Json.arr #[Json.null, Json.null, Json.null]
  | some (d, t, r) => Json.arr #[jopt jstr d, jstr t, jnat r]

/-- parse, canonical re-formatting of the parts, parse again -/
def opNvraRoundtrip (a : Json) : Json :=
  let r := parseNvra (getStrD a "s")
  match r with
  | .ok p => Json.mkObj [("parse", exceptJson jnvra r), ("canon", jstr (canonNvra p)),
                         ("reparse", exceptJson jnvra (parseNvra (canonNvra p)))]
  | .error _ => Json.mkObj [("parse", exceptJson jnvra r), ("canon", Json.null), ("reparse", Json.null)]

/-- create the id, decode it, run the id validator pattern on it -/
def opIdRoundtrip (a : Json) : Json :=
  match createComposeId (idArgs a) with
  | .ok s => Json.mkObj [("id", jok (jstr s)), ("decoded", exceptJson jdtr (getDateTypeRespin s)),
                         ("validates", Json.bool (composeIdValidates s))]
  | .error e => Json.mkObj [("id", errJson e), ("decoded", Json.null), ("validates", Json.null)]

def ops : List (String × (Json → Json)) :=
  [("nvra_roundtrip", opNvraRoundtrip),
   ("compose_id_roundtrip", opIdRoundtrip),
   ("check_nevra", fun a => exceptJson (fun r => Json.arr #[jstr r.1, jnvra r.2]) (checkNevra (getStrD a "s"))),
   ("py_int_digits", fun a => exceptJson jnat (pyIntDigits (getStrD a "s"))),
   ("parse_nvra", fun a => exceptJson jnvra (parseNvra (getStrD a "s"))),
   ("parse_nvra_enum", opNvraEnum),
   ("canon_nvra", fun a => jstr (canonNvra
      { name := getStr? a "name", epoch := (getNat? a "epoch").getD 0, version := getStr? a "version",
        release := getStr? a "release", arch := getStr? a "arch" })),
   ("create_compose_id", fun a => exceptJson jstr (createComposeId (idArgs a))),
   ("get_date_type_respin", fun a => exceptJson jdtr (getDateTypeRespin (getStrD a "s"))),
   ("compose_id_validates", fun a => Json.bool (composeIdValidates (getStrD a "s")))]

end PM.Driver.OpsIds
