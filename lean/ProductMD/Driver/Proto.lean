import Lean.Data.Json
import ProductMD.Model.Str
/-! JSON line protocol helpers for the model driver (core Lean only). -/
namespace PM.Driver
open Lean

def jstr (s : Str) : Json := Json.str (String.ofList s)
def jstrs (l : List Str) : Json := Json.arr (l.map jstr).toArray
def jopt (f : α → Json) : Option α → Json
  | some a => f a
  | none => Json.null
def jnat (n : Nat) : Json := Json.num (JsonNumber.fromNat n)
def jint (n : Int) : Json := Json.num (JsonNumber.fromInt n)
def jerr (cls : String) : Json := Json.mkObj [("err", Json.str cls)]
def jok (v : Json) : Json := Json.mkObj [("ok", v)]

def getStr? (j : Json) (k : String) : Option Str :=
  match j.getObjVal? k with
  | .ok (.str s) => some s.toList
  | _ => none

def getStrD (j : Json) (k : String) : Str := (getStr? j k).getD []

def getNat? (j : Json) (k : String) : Option Nat :=
  match j.getObjVal? k with
  | .ok v => match v.getNat? with | .ok n => some n | _ => none
  | _ => none

def getInt? (j : Json) (k : String) : Option Int :=
  match j.getObjVal? k with
  | .ok v => match v.getInt? with | .ok n => some n | _ => none
  | _ => none

def getBool? (j : Json) (k : String) : Option Bool :=
  match j.getObjVal? k with
  | .ok (.bool b) => some b
  | _ => none

def getArr (j : Json) (k : String) : List Json :=
  match j.getObjVal? k with
  | .ok (.arr a) => a.toList
  | _ => []

def getStrs (j : Json) (k : String) : List Str :=
  (getArr j k).filterMap fun x => match x with | .str s => some s.toList | _ => none

def get (j : Json) (k : String) : Json := (j.getObjVal? k).toOption.getD Json.null

end PM.Driver
