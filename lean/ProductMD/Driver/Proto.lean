import Lean.Data.Json
import ProductMD.Model.Str
import ProductMD.Model.Py
/-! JSON line protocol helpers for the model driver (core Lean only). -/
namespace PM.Driver
open Lean

def jstr (s : Str) : Json := Json.str (String.ofList s)
def jstrs (l : List Str) : Json := Json.arr (l.map jstr).toArray
def jopt (f : α → Json) : Option α → Json
  | some a => f a
  | none => Json.null
def jnat (n : Nat) : Json := Json.num (JsonNumber.fromNat n)
def jint (n : Int) : Json := Json.num (JsonNumber.fromInt n)
def jerr (cls : String) : Json := Json.mkObj [("err", Json.str cls)]
def jok (v : Json) : Json := Json.mkObj [("ok", v)]

def getStr? (j : Json) (k : String) : Option Str :=
  match j.getObjVal? k with
  | .ok (.str s) => some s.toList
  | _ => none

def getStrD (j : Json) (k : String) : Str := (getStr? j k).getD []

def getNat? (j : Json) (k : String) : Option Nat :=
  match j.getObjVal? k with
  | .ok v => match v.getNat? with | .ok n => some n | _ => none
  | _ => none

def getInt? (j : Json) (k : String) : Option Int :=
  match j.getObjVal? k with
  | .ok v => match v.getInt? with | .ok n => some n | _ => none
  | _ => none

def getBool? (j : Json) (k : String) : Option Bool :=
  match j.getObjVal? k with
  | .ok (.bool b) => some b
  | _ => none

def getArr (j : Json) (k : String) : List Json :=
  match j.getObjVal? k with
  | .ok (.arr a) => a.toList
  | _ => []

def getStrs (j : Json) (k : String) : List Str :=
  (getArr j k).filterMap fun x => match x with | .str s => some s.toList | _ => none

def get (j : Json) (k : String) : Json := (j.getObjVal? k).toOption.getD Json.null

/-! ### PyVal <-> protocol JSON.  Floats travel as `{"$float": "<repr>"}`, foreign objects as `{"$other": <truthy>}`. -/
partial def toPy : Json → PyVal
  | .null => .none
  | .bool b => .bool b
  | .str s => .str s.toList
  | .num n => if n.exponent == 0 then .int n.mantissa else .float (toString n).toList
  | .arr a => .list (a.toList.map toPy)
  | .obj kvs =>
    match kvs.toList with
    | [("$float", .str r)] => .float r.toList
    | [("$other", .bool b)] => .other b
    | l => .dict (l.map fun (k, v) => (k.toList, toPy v))

partial def ofPy : PyVal → Json
  | .none => .null
  | .bool b => .bool b
  | .int n => jint n
  | .float r => Json.mkObj [("$float", jstr r)]
  | .str s => jstr s
  | .list xs => Json.arr (xs.map ofPy).toArray
  | .dict kvs => Json.mkObj (kvs.map fun (k, v) => (String.ofList k, ofPy v))
  | .other b => Json.mkObj [("$other", .bool b)]

def errJson (e : Err) : Json := jerr e.name

def exceptJson (f : α → Json) : Except Err α → Json
  | .ok a => jok (f a)
  | .error e => errJson e

end PM.Driver
