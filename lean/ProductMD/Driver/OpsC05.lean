import ProductMD.Driver.OpsComposeInfo
import ProductMD.Driver.OpsImages
import ProductMD.Driver.OpsTreeInfo
import ProductMD.Model.ComposeInfoLegacy
import ProductMD.Model.ImagesLegacy
import ProductMD.Model.TreeInfoLegacy
import ProductMD.Model.RpmsLegacy
import ProductMD.Model.ComposeInfoDown
import ProductMD.Model.TreeInfoDown
import ProductMD.Driver.OpsBuilders
/-!
driver ops of C05: load a document of ANY format version through the legacy-aware readers
(`Model/*Legacy.lean`), write it with the current writer, load what was written, write again.

* `c05_ci_cycle`  `{"doc": <parsed composeinfo JSON>}`
* `c05_img_cycle` `{"doc": <parsed images JSON>}`
* `c05_rpms_cycle` `{"doc": <parsed rpms JSON>}`
* `c05_ti_down`   `{"spec": <tree spec>, "vs": text, "ver": [a, b], "child_key": "addons"|"variants"}` → `{"ok": [[section, [[k, v]..]]..]}`
* `c05_ti_cycle`  `{"text": <.treeinfo text>, "floats": {text: {"int": n | "int_err": cls}}}`

Answers: `{"load": {"ok": snapshot} | {"err": cls}, "dump": {"ok": text}, "reload": .., "dump2": ..}` (later keys only
when the earlier step succeeded).  JSON results travel as ASCII text inside a string (see OpsComposeInfo).
-/
namespace PM.Driver.OpsC05
open Lean PM PM.Driver

/-! ### composeinfo -/
section
open PM.CI PM.Driver.OpsComposeInfo

def errPy (e : Err) : PyVal := .dict [(k%"err", pstr e.name.toList)]
def okPy (v : PyVal) : PyVal := .dict [(k%"ok", v)]

def ciCycle (doc : PyVal) : PyVal :=
  match Legacy.loadsDoc doc with
  | .error e => .dict [(k%"load", errPy e)]
  | .ok x =>
    match dumps x with
    | .error e => .dict [(k%"load", okPy (ofCI x)), (k%"dump", errPy e)]
    | .ok t1 =>
      match serialize x with
      | .error e => .dict [(k%"load", okPy (ofCI x)), (k%"dump", errPy e)]
      | .ok d1 =>
        -- `json.load` of the written text: key-sorted document
        match Legacy.loadsDoc (PyVal.canon d1) with
        | .error e => .dict [(k%"load", okPy (ofCI x)), (k%"dump", okPy (pstr t1)), (k%"reload", errPy e)]
        | .ok x2 =>
          .dict [(k%"load", okPy (ofCI x)), (k%"dump", okPy (pstr t1)), (k%"reload", okPy (ofCI x2)),
                 (k%"dump2", match dumps x2 with | .ok t2 => okPy (pstr t2) | .error e => errPy e)]
end

/-- the spec-level down-conversion and its documented result (compared with harness/formats/legacy.py on every case) -/
def verOf (a : Json) : Nat × Nat := match getArr a "ver" with
  | [x, y] => ((x.getNat?.toOption).getD 0, (y.getNat?.toOption).getD 0)
  | _ => (0, 0)

def ciDown (a : Json) : Json :=
  OpsComposeInfo.wire (OpsComposeInfo.exceptPy (fun x => x)
    (CI.down (getStrD a "vs") (verOf a) ((getBool? a "keep_internal").getD false) (OpsComposeInfo.toCI (get a "spec"))))

def ciExpected (a : Json) : Json :=
  OpsComposeInfo.wire (OpsComposeInfo.ofCI (CI.expected (verOf a) ((getBool? a "keep_internal").getD false) (OpsComposeInfo.toCI (get a "spec"))))

/-! ### images -/
section
open PM.Img PM.Driver.OpsImages

def imgCycle (doc : PyVal) : Json :=
  match loadsL doc with
  | .error e => Json.mkObj [("load", errJson e)]
  | .ok s =>
    match dumps s with
    | (_, .error e) => Json.mkObj [("load", jok (stateToJson s)), ("dump", errJson e)]
    | (_, .ok t1) =>
      match (serialize s).2 with
      | .error e => Json.mkObj [("load", jok (stateToJson s)), ("dump", errJson e)]
      | .ok d1 =>
        match loadsL (PyVal.canon d1) with
        | .error e => Json.mkObj [("load", jok (stateToJson s)), ("dump", jok (jstr t1)), ("reload", errJson e)]
        | .ok s2 =>
          Json.mkObj [("load", jok (stateToJson s)), ("dump", jok (jstr t1)), ("reload", jok (stateToJson s2)),
                      ("dump2", match dumps s2 with | (_, .ok t2) => jok (jstr t2) | (_, .error e) => errJson e)]
end

/-! ### treeinfo -/
section
open PM.TI PM.Driver.OpsTreeInfo

def loadsTextL (fo : FloatOracle) (text : Str) : Except Err TreeInfo :=
  (IniParse.parse Str.isPySpace text).bind (Legacy.deserialize fo)

def tiCycle (fo : FloatOracle) (text : Str) : Json :=
  match loadsTextL fo text with
  | .error e => Json.mkObj [("load", errJson e)]
  | .ok t =>
    match serialize t none with
    | .error e => Json.mkObj [("load", jok (jtreeInfo t)), ("dump", errJson e)]
    | .ok d1 =>
      let t1 := IniText.render d1
      match loadsTextL fo t1 with
      | .error e => Json.mkObj [("load", jok (jtreeInfo t)), ("dump", jok (jstr t1)), ("reload", errJson e)]
      | .ok t2 =>
        Json.mkObj [("load", jok (jtreeInfo t)), ("dump", jok (jstr t1)), ("reload", jok (jtreeInfo t2)),
                    ("dump2", match serialize t2 none with
                       | .ok d2 => jok (jstr (IniText.render d2))
                       | .error e => errJson e)]
end

/-- the spec-level down-conversion of a tree (`TI.down`, the subject of C05_ti_faithful_down*): compared with
harness/formats/legacy.py `ti_sections` on every generated case -/
def tiDown (a : Json) : Json :=
  match PM.TI.down (getStrD a "vs") (verOf a) (getStrD a "child_key") (OpsTreeInfo.treeInfoOf (get a "spec")) with
  | .ok d => jok (OpsTreeInfo.jdoc d)
  | .error e => errJson e

/-! ### rpms -/
section
open PM.Mf PM.Driver.OpsBuilders

def rpmsCycle (doc : PyVal) : Json :=
  match deserializeL .rpms doc with
  | .error e => Json.mkObj [("load", errJson e)]
  | .ok m =>
    match dumpDoc .rpms m with
    | (_, .error e) => Json.mkObj [("load", jok (manifestJson m)), ("dump", errJson e)]
    | (_, .ok d1) =>
      let t1 := JsonText.dumps d1
      match deserializeL .rpms (reparse d1) with
      | .error e => Json.mkObj [("load", jok (manifestJson m)), ("dump", jok (jstr t1)), ("reload", errJson e)]
      | .ok m2 =>
        Json.mkObj [("load", jok (manifestJson m)), ("dump", jok (jstr t1)), ("reload", jok (manifestJson m2)),
                    ("dump2", match (dumps .rpms m2).2 with | .ok t2 => jok (jstr t2) | .error e => errJson e)]
end

def ops : List (String × (Json → Json)) :=
  [("c05_ci_cycle", fun a => OpsComposeInfo.wire (ciCycle (toPy (get a "doc")))),
   ("c05_ci_down", ciDown),
   ("c05_ci_expected", ciExpected),
   ("c05_img_cycle", fun a => imgCycle (toPy (get a "doc"))),
   ("c05_rpms_cycle", fun a => rpmsCycle (toPy (get a "doc"))),
   ("c05_ti_down", tiDown),
   ("c05_ti_cycle", fun a => tiCycle (OpsTreeInfo.oracleOf (get a "floats")) (getStrD a "text"))]

end PM.Driver.OpsC05
