import ProductMD.Driver.Proto
import ProductMD.Model.Checksum
/-! driver ops: checksum model (C16) -/
namespace PM.Driver.OpsChecksum
open Lean PM PM.Driver PM.Checksum

def errOfName (s : String) : Err :=
  match s with
  | "TypeError" => .typeError | "ValueError" => .valueError | "KeyError" => .keyError
  | "AttributeError" => .attributeError | "IndexError" => .indexError | "RuntimeError" => .runtimeError
  | _ => .other

def optStr (j : Json) : Option Str :=
  match j with
  | .str s => some s.toList
  | _ => none

def tableOf (j : Json) : Table :=
  match j with
  | .arr a => a.toList.filterMap fun e => match e with
    | .arr kv => (match kv.toList with
      | [.str k, .arr tv] => (match tv.toList with
        | [.str t, .str v] => some (k.toList, (t.toList, v.toList))
        | _ => none)
      | _ => none)
    | _ => none
  | _ => []

def jtable (t : Table) : Json :=
  Json.arr (t.map fun e => Json.arr #[jstr e.1, Json.arr #[jstr e.2.1, jstr e.2.2]]).toArray

def pairsOf (j : Json) : List (Str × Str) :=
  match j with
  | .arr a => a.toList.filterMap fun e => match e with
    | .arr kv => (match kv.toList with
      | [.str k, .str v] => some (k.toList, v.toList)
      | _ => none)
    | _ => none
  | _ => []

def sumsOf (j : Json) : ImgSums :=
  match j with
  | .arr a => a.toList.filterMap fun e => match e with
    | .arr kv => (match kv.toList with
      | [.str k, v] => some (k.toList, optStr v)
      | _ => none)
    | _ => none
  | _ => []

def jsums (t : ImgSums) : Json :=
  Json.arr (t.map fun e => Json.arr #[jstr e.1, jopt jstr e.2]).toArray

def opReadTrace (a : Json) : Json :=
  let size := (getNat? a "size").getD 0
  Json.arr ((readTrace Gen.checksumLoops Gen.checksumChunkSize size).map jnat).toArray

def opNormpath (a : Json) : Json := jstr (normpath (getStrD a "path"))

def opAdd (a : Json) : Json :=
  let dg : Str → Str → Except Err Str := fun _ _ =>
    match (get a "digest").getObjVal? "err" with
    | .ok (.str c) => .error (errOfName c)
    | _ => .ok (getStrD (get a "digest") "ok")
  let r := add dg (tableOf (get a "table")) (getStrD a "path") (getStrD a "type") (optStr (get a "value")) (optStr (get a "root"))
  Json.mkObj [("table", jtable r.1),
              ("result", match r.2 with | .ok () => Json.str "ok" | .error e => errJson e),
              ("digest_path", match optStr (get a "root") with
                 | some root => jstr (pathJoin root (normpath (getStrD a "path")))
                 | none => Json.null)]

def opDeserialize (a : Json) : Json :=
  exceptJson jtable (deserialize ((getBool? a "legacy").getD false) (pairsOf (get a "section")) (tableOf (get a "initial")))

def opSerialize (a : Json) : Json :=
  exceptJson (fun l => Json.arr (l.map fun e => Json.arr #[jstr e.1, jstr e.2]).toArray) (serialize (tableOf (get a "table")))

def opTyped (a : Json) : Json :=
  exceptJson (fun tv => Json.arr #[jstr tv.1, jstr tv.2]) (typed (getStrD a "value"))

def opAddChecksums (a : Json) : Json :=
  let ops := sumsOf (get a "ops")
  let rec go (tbl : ImgSums) (ops : List (Str × Option Str)) (acc : List Json) : ImgSums × List Json :=
    match ops with
    | [] => (tbl, acc.reverse)
    | (t, v) :: rest =>
      let r := addChecksum tbl t v
      go r.1 rest ((match r.2 with | .ok x => jok (jopt jstr x) | .error e => errJson e) :: acc)
  let r := go (sumsOf (get a "table")) ops []
  Json.mkObj [("steps", Json.arr r.2.toArray), ("table", jsums r.1)]

def ops : List (String × (Json → Json)) :=
  [("ck_read_trace", opReadTrace), ("ck_normpath", opNormpath), ("ck_add", opAdd), ("ck_deserialize", opDeserialize),
   ("ck_serialize", opSerialize), ("ck_typed", opTyped), ("ck_add_checksums", opAddChecksums)]

end PM.Driver.OpsChecksum
