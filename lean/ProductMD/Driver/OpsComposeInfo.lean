import ProductMD.Driver.Proto
import ProductMD.Model.ComposeInfo
/-!
driver ops: composeinfo writer / reader / normal form (`Model/ComposeInfo.lean`).

Objects travel as the JSON "spec" of `harness/formats/composeinfo.py`:
`{"compose": {...}, "release": {...}, "base_product": {...}|null, "variants": [variant, ...]}` with
`variant = {"key","id","uid","name","type","arches":[..],"paths":{cat:{arch:path}},"release":{...}|null,"variants":[...]}`.
-/
namespace PM.Driver.OpsComposeInfo
open Lean PM PM.Driver PM.CI

def strD (j : Json) (k : String) : Str := getStrD j k
def boolD (j : Json) (k : String) : Bool := (getBool? j k).getD false

def toRelease (j : Json) : Release :=
  { name := strD j "name", short := strD j "short", version := strD j "version", type := strD j "type",
    isLayered := boolD j "is_layered", internal := boolD j "internal" }

def toBase (j : Json) : BaseProduct :=
  { name := strD j "name", short := strD j "short", version := strD j "version", type := strD j "type" }

def toCompose (j : Json) : Compose :=
  { id := strD j "id", type := strD j "type", date := strD j "date", respin := (getInt? j "respin").getD 0,
    label := getStr? j "label", final := boolD j "final" }

def objPairs (j : Json) : List (String × Json) :=
  match j with
  | .obj kvs => kvs.toList
  | _ => []

def toPaths (j : Json) : PathTable :=
  (objPairs j).map fun (cat, t) => (cat.toList, (objPairs t).filterMap fun (a, p) =>
    match p with
    | .str s => some (a.toList, s.toList)
    | _ => none)

partial def toVariant (j : Json) : Variant :=
  .mk (strD j "key") (strD j "id") (strD j "uid") (strD j "name") (strD j "type") (getStrs j "arches")
    (toPaths (get j "paths"))
    (match get j "release" with | .null => none | r => some (toRelease r))
    ((getArr j "variants").map toVariant)

def toCI (j : Json) : ComposeInfo :=
  { compose := toCompose (get j "compose"), release := toRelease (get j "release"),
    base := match get j "base_product" with | .null => none | b => some (toBase b),
    variants := (getArr j "variants").map toVariant }

/-! Results are built as `PyVal` and sent as ASCII-only JSON text inside a JSON string (`JsonText.dumps` escapes every
non-ASCII character), because the harness splits the driver output with `str.splitlines`, which also breaks lines at
U+2028/U+0085 inside strings. -/
def pstr (s : Str) : PyVal := .str s
def popt (f : α → PyVal) : Option α → PyVal
  | some a => f a
  | none => .none

def ofRelease (r : Release) : PyVal :=
  .dict [(k%"name", pstr r.name), (k%"short", pstr r.short), (k%"version", pstr r.version), (k%"type", pstr r.type),
    (k%"is_layered", .bool r.isLayered), (k%"internal", .bool r.internal)]

def ofBase (b : BaseProduct) : PyVal :=
  .dict [(k%"name", pstr b.name), (k%"short", pstr b.short), (k%"version", pstr b.version), (k%"type", pstr b.type)]

def ofCompose (c : Compose) : PyVal :=
  .dict [(k%"id", pstr c.id), (k%"type", pstr c.type), (k%"date", pstr c.date), (k%"respin", .int c.respin),
    (k%"label", popt pstr c.label), (k%"final", .bool c.final)]

def ofPaths (p : PathTable) : PyVal :=
  .dict (p.map fun (cat, t) => (cat, .dict (t.map fun (a, s) => (a, pstr s))))

partial def ofVariant (parent : Option Str) : Variant → PyVal
  | .mk key id uid name type arches paths rel kids =>
    .dict [(k%"key", pstr key), (k%"id", pstr id), (k%"uid", pstr uid), (k%"name", pstr name), (k%"type", pstr type),
      (k%"arches", .list (arches.map pstr)), (k%"paths", ofPaths paths), (k%"release", popt ofRelease rel),
      (k%"parent", popt pstr parent), (k%"variants", .list (kids.map (ofVariant (some uid))))]

def ofCI (ci : ComposeInfo) : PyVal :=
  .dict [(k%"compose", ofCompose ci.compose), (k%"release", ofRelease ci.release), (k%"base_product", popt ofBase ci.base),
    (k%"variants", .list (ci.variants.map (ofVariant none)))]

def exceptPy (f : α → PyVal) : Except Err α → PyVal
  | .ok a => .dict [(k%"ok", f a)]
  | .error e => .dict [(k%"err", pstr e.name.toList)]

/-- wire form: ASCII JSON text of the result, as one JSON string -/
def wire (v : PyVal) : Json := jstr (JsonText.dumps v)

def ops : List (String × (Json → Json)) :=
  [("composeinfo_dumps", fun a => wire (exceptPy pstr (dumps (toCI (get a "spec"))))),
   ("composeinfo_serialize", fun a => wire (exceptPy (fun x => x) (serialize (toCI (get a "spec"))))),
   ("composeinfo_loads", fun a => wire (exceptPy ofCI (loadsDoc (toPy (get a "doc"))))),
   -- `held.loads(text)`: the document is loaded into an object that already holds `held`
   ("composeinfo_load_into", fun a => wire (exceptPy ofCI (loadInto (toCI (get a "held")) (toPy (get a "doc"))))),
   ("composeinfo_norm", fun a => wire (ofCI (toCI (get a "spec")).norm)),
   -- loads (on the parsed text supplied by the harness) and dumps again
   ("composeinfo_redump", fun a =>
      match loadsDoc (toPy (get a "doc")) with
      | .error e => wire (exceptPy pstr (.error e))
      | .ok ci => wire (exceptPy pstr (dumps ci)))]

end PM.Driver.OpsComposeInfo
