import ProductMD.Driver.OpsTreeInfo
import ProductMD.Model.TreeInfoCompat
/-!
driver op for C17, last sentence: the model writer's text, read by the INI reader model, restricted to the compatibility
sections and handed to the 0.0 reader model; next to it the closed form the theorem `C17_legacy_reader_partial` proves it
equal to (`legacyTree`) and the decidable side conditions of that theorem, so that the harness can check the agreement of
the executable pieces on every case (the theorem is what makes it hold for all inputs).
-/
namespace PM.Driver.OpsC17
open Lean PM PM.Driver PM.TI PM.Driver.OpsTreeInfo

def relPath (p : Str) : Bool := !Str.startsWith p ['/']

def legacyCompat (t : TreeInfo) (mv : Option Str) (fo : FloatOracle) : Json :=
  match serialize t mv with
  | .error e => Json.mkObj [("dump", errJson e)]
  | .ok d =>
    let text := IniText.render d
    match parseText text with
    | .error e => Json.mkObj [("dump", jok (jstr text)), ("parse", errJson e)]
    | .ok d' =>
      let R := compatDoc d'
      let got := Legacy.deserialize fo R
      let pred : Option (TreeInfo × Str) :=
        match t.tree.ts.toInt, chosenKey t.variants mv with
        | .ok n, .ok key =>
          match getItem (key.length + 1) t.variants key, fo.intOfFloatStr (Str.intStr n) with
          | .ok chosen, .ok n' => some (legacyTree t n' key chosen, key)
          | _, _ => none
        | _, _ => none
      let side : Json := match pred with
        | none => Json.null
        | some (_, key) => Json.mkObj [
            ("key_ne", Json.bool (!key.isEmpty)), ("key_dashless", Json.bool (!key.contains '-')),
            ("arch", Json.bool (!compatSec t.tree.arch)),
            ("rhel5", Json.bool (Legacy.rhel5Addons (legacyCtx t) key []).isEmpty),
            ("rel", Json.bool (t.checksums.all (fun c => relPath c.1) && t.images.all (fun p => p.2.all fun kv => relPath kv.2)
              && (t.mainimage.map relPath).getD true && (t.instimage.map relPath).getD true))]
      Json.mkObj [("dump", jok (jstr text)), ("compat_doc", jdoc R), ("legacy", exceptJson jtreeInfo got),
                  ("predicted", match pred with | some (lt, _) => jtreeInfo lt | none => Json.null), ("side", side)]

def ops : List (String × (Json → Json)) :=
  [("ti_legacy_compat", fun a => legacyCompat (treeInfoOf (get a "spec")) (mainVariantOf a) (oracleOf (get a "floats")))]

end PM.Driver.OpsC17
