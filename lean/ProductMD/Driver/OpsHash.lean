import ProductMD.Driver.Proto
import ProductMD.Model.Checksum
/-! driver ops: the modelled hash objects (C16).

`hash_digest {alg, hex, repeat?, tail_hex?, chunking}`: content = bytes(hex) * repeat + bytes(tail_hex);
`chunking` = `{"mode": "code"}` (the code's loop with the code's chunk size), `{"mode": "loop", "n": N}` (the code's
loop shape with chunk size N) or `{"mode": "sizes", "sizes": [..]}` (a caller feeding chunks of these sizes, the rest
as a last chunk).  `oneshot: false` skips the second, one-shot computation (big contents).
Answer: `{"digest": …, "oneshot": …, "length": …}` or `{"err": "unmodelled"}`. -/
namespace PM.Driver.OpsHash
open Lean PM PM.Driver PM.Checksum

def hexVal (c : UInt8) : UInt8 :=
  if 48 ≤ c && c ≤ 57 then c - 48
  else if 97 ≤ c && c ≤ 102 then c - 87
  else if 65 ≤ c && c ≤ 70 then c - 55
  else 0

def bytesOfHex (s : String) : Bytes := Id.run do
  let b := s.toUTF8
  let n := b.size / 2
  let mut acc : Bytes := []
  for i in [0:n] do
    let j := n - 1 - i
    acc := ((hexVal b[2 * j]!) <<< 4 ||| hexVal b[2 * j + 1]!) :: acc
  return acc

def strOf (j : Json) (k : String) : String :=
  match j.getObjVal? k with
  | .ok (.str s) => s
  | _ => ""

def contentOf (a : Json) : Bytes :=
  let pat := bytesOfHex (strOf a "hex")
  let rep := (getNat? a "repeat").getD 1
  let body : Bytes := if rep = 1 then pat else (List.replicate rep pat).flatten
  body ++ bytesOfHex (strOf a "tail_hex")

def natsOf (j : Json) (k : String) : List Nat :=
  (getArr j k).filterMap fun x => match x.getNat? with | .ok n => some n | _ => none

def opHashDigest (a : Json) : Json :=
  let content := contentOf a
  let alg := getStrD a "alg"
  let ch := get a "chunking"
  let digest : Option Str :=
    match strOf ch "mode" with
    | "loop" => chunkedByName alg ((getNat? ch "n").getD 0) content
    | "sizes" => withAlg alg (fun A => fedInChunks A (natsOf ch "sizes") content)
    | _ => computeByName alg content
  let oneshot : Option Str :=
    if (getBool? a "oneshot").getD true then withAlg alg (fun A => HashMD.hashBytes A content) else some []
  match digest, oneshot with
  | some d, some o => Json.mkObj [("digest", jstr d), ("oneshot", jstr o), ("length", jnat content.length)]
  | _, _ => jerr "unmodelled"

def ops : List (String × (Json → Json)) :=
  [("hash_digest", opHashDigest)]

end PM.Driver.OpsHash
