import ProductMD.Driver.Proto
import ProductMD.Model.ComposeDir
/-! driver ops: compose directory resolution (C20) on a concrete tree -/
namespace PM.Driver.OpsComposeDir
open Lean PM PM.Driver PM.ComposeDir

def errOfName (s : String) : Err :=
  match s with
  | "TypeError" => .typeError | "ValueError" => .valueError | "KeyError" => .keyError
  | "AttributeError" => .attributeError | "IndexError" => .indexError | "RuntimeError" => .runtimeError
  | _ => .other

def nodesOf (j : Json) : List ((Bool × List Str) × Bool) :=
  match j with
  | .arr a => a.toList.filterMap fun e => match e with
    | .arr kv => (match kv.toList with
      | [.str p, .bool d] => some (key p.toList, d)
      | _ => none)
    | _ => none
  | _ => []

def ordersOf (j : Json) : List ((Bool × List Str) × List Str) :=
  match j with
  | .arr a => a.toList.filterMap fun e => match e with
    | .arr kv => (match kv.toList with
      | [.str p, .arr names] => some (key p.toList, names.toList.filterMap fun n => match n with | .str s => some s.toList | _ => none)
      | _ => none)
    | _ => none
  | _ => []

def loadsOf (j : Json) : List ((Kind × (Bool × List Str)) × Except Err Str) :=
  match j with
  | .arr a => a.toList.filterMap fun e => match e with
    | .arr kv => (match kv.toList with
      | [.str k, .str p, r] =>
        some ((k, key p.toList), match r.getObjVal? "err" with
          | .ok (.str c) => .error (errOfName c)
          | _ => .ok (getStrD r "ok"))
      | _ => none)
    | _ => none
  | _ => []

def jresult : Except CErr Obj → Json
  | .ok o => jok (Json.mkObj [("id", jnat o.id), ("path", jstr o.path), ("text", jstr o.text)])
  | .error (.runtime named) => Json.mkObj [("err", Json.str "RuntimeError"), ("named", jstr named)]
  | .error (.other e) => errJson e

/-- accesses are accessor names, or `rm:<accessor>`: every candidate file of that accessor is deleted from the file
system before the next access (the cached objects stay what they are) -/
def runAccesses (w : World) (cp : Str) : State → List (Bool × List Str) → List String → List Json → State × List Json
  | s, _, [], acc => (s, acc.reverse)
  | s, gone, k :: ks, acc =>
    if k.startsWith "rm:" then
      let kind := (k.drop 3).toString
      let gone' := gone ++ (candidates kind).map (fun c => key (Checksum.pathJoin cp c))
      runAccesses w cp s gone' ks (Json.mkObj [("rm", Json.bool true)] :: acc)
    else
      let r := access (w.without gone) s k
      runAccesses w cp r.1 gone ks (jresult r.2 :: acc)

def opRun (a : Json) : Json :=
  let w := World.ofTree (nodesOf (get a "nodes")) (ordersOf (get a "orders")) (loadsOf (get a "loads"))
  let kinds : List String := (getArr a "accesses").filterMap fun x => match x with | .str s => some s | _ => none
  match resolve w (getStrD a "compose_path") with
  | .error e => Json.mkObj [("compose_path", errJson e)]
  | .ok cp =>
    let r := runAccesses w cp { composePath := cp } [] kinds []
    Json.mkObj [("compose_path", jok (jstr cp)),
                ("results", Json.arr r.2.toArray),
                ("loads", Json.arr (r.1.loads.map fun l => Json.arr #[Json.str l.1, jstr l.2]).toArray)]

/-! ### remote locations: `cd_url_run` -/

def fetchOf (j : Json) : Fetch :=
  match j.getObjVal? "ok" with
  | .ok (.str r) => .ok r.toList
  | _ =>
    match j.getObjVal? "err" with
    | .ok (.str "URLError") => .urlError
    | .ok (.str c) => .other (errOfName c)
    | _ => .urlError

def answersOf (j : Json) : List (Str × List Fetch) :=
  match j with
  | .arr a => a.toList.filterMap fun e => match e with
    | .arr kv => (match kv.toList with
      | [.str u, .arr rs] => some (u.toList, rs.toList.map fetchOf)
      | _ => none)
    | _ => none
  | _ => []

def parsesOf (j : Json) : List ((Kind × Str) × Except Err Str) :=
  match j with
  | .arr a => a.toList.filterMap fun e => match e with
    | .arr kv => (match kv.toList with
      | [.str k, .str r, out] =>
        some ((k, r.toList), match out.getObjVal? "err" with
          | .ok (.str c) => .error (errOfName c)
          | _ => .ok (getStrD out "ok"))
      | _ => none)
    | _ => none
  | _ => []

def jlog (l : FLog) : Json := Json.arr (l.map fun r => Json.arr #[jstr r.url, Json.bool r.closed]).toArray

def runAccessesU (w : World) (n : Net) : UState → List String → List Json → UState × List Json
  | s, [], acc => (s, acc.reverse)
  | s, k :: ks, acc =>
    let r := accessU w n s k
    runAccessesU w n r.1 ks (jresult r.2 :: acc)

def opUrlRun (a : Json) : Json :=
  let w := World.ofTree (nodesOf (get a "nodes")) (ordersOf (get a "orders")) (loadsOf (get a "loads"))
  let n := Net.ofTable (answersOf (get a "answers")) (parsesOf (get a "parses"))
  let kinds : List String := (getArr a "accesses").filterMap fun x => match x with | .str s => some s | _ => none
  match resolveU w n (getStrD a "compose_path") with
  | (l, .error e) => Json.mkObj [("compose_path", errJson e), ("fetches", jlog l)]
  | (l, .ok cp) =>
    let r := runAccessesU w n { composePath := cp, fetches := l } kinds []
    Json.mkObj [("compose_path", jok (jstr cp)),
                ("results", Json.arr r.2.toArray),
                ("loads", Json.arr (r.1.loads.map fun l => Json.arr #[Json.str l.1, jstr l.2]).toArray),
                ("fetches", jlog r.1.fetches)]

def ops : List (String × (Json → Json)) := [("cd_run", opRun), ("cd_url_run", opUrlRun)]

end PM.Driver.OpsComposeDir
