import ProductMD.Driver.Proto
import ProductMD.Model.Validation
import ProductMD.Model.Loads
import ProductMD.Model.LoadsForest
import ProductMD.Spec.Rules
/-! driver ops of C06/C07: validate a part, evaluate the rule catalogue on a part, the dumps walk, the loads model -/
namespace PM.Driver.OpsValidation
open Lean PM PM.Driver PM.Val

def objOf (j : Json) : Obj := match toPy j with | .dict kvs => kvs | _ => []

partial def ciVarOf (key : Str) (j : Json) : CIVar :=
  .mk key (objOf (get j "attrs")) (objOf (get j "release")) (kidsOf (get j "kids"))
where
  kidsOf (j : Json) : List CIVar :=
    match j with
    | .arr a => a.toList.filterMap fun kv => match kv with
        | .arr #[.str k, v] => some (ciVarOf k.toList v)
        | _ => none
    | _ => []

partial def tiVarOf (key : Str) (j : Json) : TIVar :=
  .mk key (objOf (get j "attrs")) (kidsOf (get j "kids"))
where
  kidsOf (j : Json) : List TIVar :=
    match j with
    | .arr a => a.toList.filterMap fun kv => match kv with
        | .arr #[.str k, v] => some (tiVarOf k.toList v)
        | _ => none
    | _ => []

def pairs (j : Json) : List (Str × Json) :=
  match j with
  | .arr a => a.toList.filterMap fun kv => match kv with
      | .arr #[.str k, v] => some (k.toList, v)
      | _ => none
  | _ => []

def simpleOf (cls : String) (j : Json) : SimpleM := ⟨cls, objOf (get j "header"), objOf (get j "compose")⟩

def imagesOf (j : Json) : ImagesM :=
  ⟨objOf (get j "header"), objOf (get j "compose"),
   (pairs (get j "cells")).map fun (v, row) => (v, (pairs row).map fun (a, imgs) =>
     (a, match imgs with | .arr xs => xs.toList.map objOf | _ => []))⟩

def ciOf (j : Json) : ComposeInfoM :=
  ⟨objOf (get j "header"), objOf (get j "compose"), objOf (get j "release"), objOf (get j "base_product"),
   (pairs (get j "variants")).map fun (k, v) => ciVarOf k v⟩

def tiOf (j : Json) : TreeInfoM :=
  ⟨objOf (get j "header"), objOf (get j "release"), objOf (get j "base_product"), objOf (get j "tree"),
   (pairs (get j "variants")).map (fun (k, v) => tiVarOf k v),
   objOf (get j "checksums"), objOf (get j "images"), objOf (get j "stage2"), objOf (get j "media")⟩

/-- (outcome of the dumps walk, parts of the object) -/
def dumpsOf (fmt : String) (j : Json) : Option (Except Err Unit × List Part) :=
  match fmt with
  | "rpms" => let m := simpleOf "rpms.Rpms" j; some (m.dumps, m.parts)
  | "modules" => let m := simpleOf "modules.Modules" j; some (m.dumps, m.parts)
  | "extra_files" => let m := simpleOf "extra_files.ExtraFiles" j; some (m.dumps, m.parts)
  | "images" => let m := imagesOf j; some (m.dumps, m.parts)
  | "composeinfo" => let m := ciOf j; some (m.dumps, m.parts)
  | "treeinfo" => let m := tiOf j; some (m.dumps, m.parts)
  | "discinfo" => let m : DiscM := ⟨objOf (get j "obj")⟩; some (m.dumps, m.parts)
  | _ => none

/-- indices of the catalogue rules of `cls` that do not hold on `o` -/
def violated (cls : String) (o : Obj) : List Nat :=
  (((Spec.catalogue cls).zipIdx).filter fun (r, _) => match r.check customs2 o with | .ok () => false | .error _ => true).map (·.2)

def outcomeJson : Except Err Unit → Json
  | .ok () => jok Json.null
  | .error e => errJson e

def loadOutcome {α} (front : Bool) : Except Err α → Json
  | .ok _ => if front then Json.mkObj [("front", Json.str "ok")] else jok Json.null
  | .error e => errJson e

/-- outcome of the loads model; `{"front": "ok"}` = the modelled leading sections are accepted, the rest is not modelled -/
def loadsOf (fmt : String) (doc : PyVal) : Json :=
  match fmt with
  | "rpms" => loadOutcome false (Loads.rpmsLoads doc)
  | "modules" => loadOutcome false (Loads.modulesLoads doc)
  | "extra_files" => loadOutcome false (Loads.extraFilesLoads doc)
  | "images" => loadOutcome false (Loads.imagesLoads doc)
  | "discinfo" => loadOutcome false (Loads.discLoads doc)
  | "composeinfo" => loadOutcome false (Loads.ciLoads doc)
  | "treeinfo" => loadOutcome false (Loads.tiLoads doc)
  | _ => jerr "bad-format"

def ops : List (String × (Json → Json)) :=
  [("c06_validate", fun a => outcomeJson (validate2 (String.ofList (getStrD a "cls")) (objOf (get a "obj")))),
   ("c06_spec", fun a => Json.arr ((violated (String.ofList (getStrD a "cls")) (objOf (get a "obj"))).map jnat).toArray),
   ("c06_dumps", fun a =>
      match dumpsOf (String.ofList (getStrD a "fmt")) (get a "obj") with
      | none => jerr "bad-format"
      | some (out, parts) =>
        Json.mkObj [("out", outcomeJson out),
                    ("parts", Json.arr (parts.map fun p => Json.mkObj [("cls", Json.str p.cls), ("violated", Json.arr ((violated p.cls p.obj).map jnat).toArray)]).toArray)]),
   ("c07_loads", fun a => loadsOf (String.ofList (getStrD a "fmt")) (toPy (get a "doc")))]

end PM.Driver.OpsValidation
