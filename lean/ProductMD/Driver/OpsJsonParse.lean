import ProductMD.Driver.Proto
import ProductMD.Model.JsonParse
/-!
driver ops: the JSON reader model on raw text.
`json_parse {text | cps, lim?}` → `{"ok": value}` in the protocol's PyVal encoding (`ofPy`: dict order is lost) or `{"err": class}`;
`json_parse_ord` → the same with dicts as `{"$dict": [[k, v], …]}` in the model's order, ints as `{"$int": "<decimal>"}`
(so that integers beyond the int/str conversion limit can travel) and floats as `{"$float": "<token>"}`.
The text is passed either as a string or as an array of code points (`cps`).
-/
namespace PM.Driver.OpsJsonParse
open Lean PM PM.Driver

def textOf (a : Json) : Str :=
  match a.getObjVal? "cps" with
  | .ok (.arr cs) => cs.toList.filterMap fun j => match j.getNat? with | .ok n => some (Char.ofNat n) | _ => none
  | _ => getStrD a "text"

def limOf (a : Json) : Nat := (getNat? a "lim").getD JsonParse.defaultLimit

partial def ordJson : PyVal → Json
  | .none => .null
  | .bool b => .bool b
  | .int n => Json.mkObj [("$int", jstr (Str.intStr n))]
  | .float r => Json.mkObj [("$float", jstr r)]
  | .str s => jstr s
  | .list xs => Json.arr (xs.map ordJson).toArray
  | .dict kvs => Json.mkObj [("$dict", Json.arr (kvs.map fun (k, v) => Json.arr #[jstr k, ordJson v]).toArray)]
  | .other b => Json.mkObj [("$other", .bool b)]

def ops : List (String × (Json → Json)) :=
  [("json_parse", fun a => exceptJson ofPy (JsonParse.parseWith (limOf a) (textOf a))),
   ("json_parse_ord", fun a => exceptJson ordJson (JsonParse.parseWith (limOf a) (textOf a))),
   ("json_render", fun a => jstr (JsonText.render ((getNat? a "lvl").getD 0) (toPy (get a "value")))),
   ("json_float_tok", fun a => Json.bool (JsonParse.floatTok (getStrD a "tok")))]

end PM.Driver.OpsJsonParse
