import ProductMD.Proofs.RegexPoly
import ProductMD.Generated.Regexes
import ProductMD.Spec.OldPatterns
/-!
# C19 — validation and parsing time grows polynomially with input length

Model: `cost` = number of nodes a backtracking matcher without memoisation visits when *every* alternative
is explored (the upper envelope of a failing `re.match`).  `Re.safe` is a decidable syntactic criterion;
`Gen.matchPatterns` is regenerated from the source on every run.
-/
namespace PM

/-- The bound, for any safe expression and any input (no length bound). -/
theorem C19_cost (r : Re) (h : r.safe = true) (s : Str) :
    pyCost r s ≤ r.coef * (s.length + 1) ^ r.deg :=
  safe_poly r h s.length s

/-- …and uniformly in the fuel, so the bound does not depend on how the model is driven. -/
theorem C19_cost_fuel (r : Re) (h : r.safe = true) (f : Nat) (s : Str) :
    cost f r s ≤ r.coef * (s.length + 1) ^ r.deg :=
  safe_poly r h f s

/-- Every pattern the library hands to `match` is safe (obligation on the generated file). -/
theorem C19_here : ∀ p ∈ Gen.matchPatterns, p.2.safe = true := by decide +kernel

/-- Every pattern handed to another entry point (`re.split`) is a single character class: one class test
per input character, no backtracking at all. -/
theorem C19_split_single_class : ∀ p ∈ Gen.otherPatterns, ∃ k, p.2 = .cls k := by
  intro p hp
  simp only [Gen.otherPatterns, List.mem_cons, List.not_mem_nil, or_false] at hp
  subst hp
  exact ⟨_, rfl⟩

/-- The degrees are low: at most 6 for every pattern in the code (the NVRA pattern; measured growth ≈ 4). -/
theorem C19_degrees : ∀ p ∈ Gen.matchPatterns, p.2.deg ≤ 6 := by decide +kernel

/-- Corollary: every validator/parser pattern of the library is polynomially bounded on every input. -/
theorem C19_all (p : String × Re) (hp : p ∈ Gen.matchPatterns) (s : Str) :
    pyCost p.2 s ≤ p.2.coef * (s.length + 1) ^ 6 := by
  have h1 := C19_cost p.2 (C19_here p hp) s
  have h2 : (s.length + 1) ^ p.2.deg ≤ (s.length + 1) ^ 6 :=
    Nat.pow_le_pow_right (by omega) (C19_degrees p hp)
  exact Nat.le_trans h1 (Nat.mul_le_mul (Nat.le_refl _) h2)

/-- F1 (repaired by a `fix:` commit): the pinned short-name pattern is not safe and the model reproduces the
blow-up on `a¹¹!`, while the replacement costs a few dozen nodes. -/
theorem C19_old_short_witness :
    Spec.oldShort.safe = false
    ∧ 300000 ≤ pyCost Spec.oldShort (List.replicate 11 'a' ++ ['!'])
    ∧ pyCost Spec.newShort (List.replicate 11 'a' ++ ['!']) ≤ 100 := by decide +kernel

/-- non-vacuity: the safe set is inhabited by the patterns the theorems are used for -/
example : Gen.re_common_RPM_NVRA_RE.safe = true ∧ Gen.re_common_RPM_NVRA_RE.deg = 6 := by decide +kernel
example : Gen.re_common_RELEASE_SHORT_RE.deg = 3 ∧ Gen.re_common_RELEASE_SHORT_RE.coef = 16 := by decide +kernel
example : Gen.re_common_RELEASE_SHORT_RE.strip = Spec.newShort.strip := by decide +kernel

end PM
