import ProductMD.Spec.Images
namespace PM
open PM.Img

/-- `Images.validate()` has no rule to run (generated inventory) -/
theorem C02_images_no_validators : validateClass "images.Images" [] = .ok () := by decide

end PM
