import ProductMD.Proofs.ImagesBytes
import ProductMD.Proofs.JsonRoundTrip
import ProductMD.Proofs.ImagesRep
import ProductMD.Properties.C08
/-!
# C02 — image manifests survive a write/read cycle unchanged

Model (`Model/Images.lean`): `serialize` (iteration over variants / arches / set members, `setdefault`, per-cell
stable sort by path after each append, `Image.serialize` validating first and writing `unified` /
`additional_variants` only when unified), `deserialize` (header, compose, `Image.deserialize` with its `int()` /
`bool()` coercions and defaults, every image through the model of `Images.add` that runs the statement list of the
source), validators / version gates / header type / current version from `Gen.*`.

A manifest has any number of variants, arches, images per cell and any number of filings of the same object; the
statement is about the multiset of (variant, arch, 15-attribute record) filings.  The JSON *parser* is outside the
model: the theorems are about the document (`PyVal`) that `json.dump` receives; the byte rendering of that
document (`JsonText.dumps`) is compared with the real `dumps()` on every generated case, and the real `loads` runs
on the real text.
-/
set_option Elab.async false
namespace PM
open PM.Img PM.PyOps PM.Spec

/-- `Images.validate()` has no rule to run (generated inventory) -/
theorem C02_images_no_validators : validateClass "images.Images" [] = .ok () := by decide +kernel

/-- **F22 repaired: `ProperInts` is no hypothesis any more.**  `_assert_type` accepts a bool only where `bool` is listed
(`Gen.assertTypeBoolStrict`, translated from the method's body), so the four integer attributes of an image that passes
its validators hold ints proper, never bools -/
theorem C02_valid_ints_proper (i : Image) (hv : i.validate = .ok ()) : ProperInts i := valid_properInts i hv

theorem withInts {l : List Image} (hv : ∀ i ∈ l, i.validate = .ok ()) : ∀ i ∈ l, i.validate = .ok () ∧ ProperInts i :=
  fun i h => ⟨hv i h, valid_properInts i (hv i h)⟩

/-- a valid image is read back from its dictionary with all fifteen attributes unchanged -/
theorem C02_image_roundtrip (i : Image) (hv : i.validate = .ok ()) :
    Image.deserialize (.str currentVersion) i.dict = .ok i := image_roundtrip i hv (valid_properInts i hv)

/-- the compose section comes back in normal form … -/
theorem C02_compose_roundtrip (c : Compose) (rest d : PyVal) (h : c.serialize = .ok d) :
    Compose.deserialize (.str currentVersion) (.dict [(L "images", rest), (L "compose", d)]) = .ok (composeNorm c) :=
  compose_roundtrip c rest d h

/-- … which is the section itself whenever a label is set or `final` has its default -/
theorem C02_compose_norm_id (c : Compose) (h : c.validate = .ok ()) :
    composeNorm c = (if c.label.truthy then c else { c with final := .bool false }) := (norm_valid c h).1

theorem header_roundtrip (p : PyVal) :
    headerDeserialize (.dict [(L "header", .dict [(L "type", .str Gen.HEADER_TYPE_Images), (L "version", .str currentVersion)]),
      (L "payload", p)]) = .ok (.str currentVersion) := by rfl

theorem cur_header_valid : headerValidate (.str currentVersion) = .ok () := by decide +kernel

/-- the total reader that names the image a dictionary is read as -/
def readD (d : PyVal) : Image :=
  match Image.deserialize (.str currentVersion) d with
  | .ok i => i
  | .error _ => default

theorem readD_dict (i : Image) (hv : i.validate = .ok ()) (hp : ProperInts i) : readD i.dict = i := by
  simp [readD, image_roundtrip i hv hp]

/--
**C02_readback (partial: hypothesis `Uniq`).**  For every manifest whose compose section and images
validate, whose cells are keyed by admissible arches and which satisfies identity uniqueness: writing succeeds, reading the written document succeeds, and the manifest read holds exactly the same
multiset of (variant, arch, record) filings — nothing gained, nothing lost, all fifteen attributes of every
record equal, an object filed in k cells comes back as k equal records — with the compose section in normal form
and the current format version.

Full statement without `Uniq` is false of the code (F11, `C02_F11_witness`).  The former hypothesis `ProperInts` (integer
attributes hold ints, not bools: F22) is gone: it follows from `validate = ok` since `_assert_type` refuses a bool where
`bool` is not listed (`C02_valid_ints_proper`, `C02_bool_int_refused`; `Gen.assertTypeBoolStrict`).
-/
theorem C02_readback_partial (m : ImgState)
    (hc : m.compose.validate = .ok ())
    (hval : ∀ i ∈ m.cells.all, i.validate = .ok ())
    (ha : ∀ t ∈ triples m.cells, Gen.RPM_ARCHES.contains t.2.1 = true ∧ refusedArches.contains t.2.1 = false)
    (hu : Uniq m.cells) :
    ∃ doc m', (serialize m).2 = .ok doc ∧ deserialize doc = .ok m'
      ∧ (triples m'.cells).Perm (triples m.cells) ∧ m'.compose = composeNorm m.compose
      ∧ m'.version = .str currentVersion := by
  have hi := withInts hval
  -- the writer
  have hvalid : ∀ va ∈ m.cells, ∀ ac ∈ va.2, ∀ e ∈ ac.2, e.2.validate = .ok () :=
    fun va h1 ac h2 e h3 => (hi _ (mem_all_of_entry h1 h2 h3)).1
  have hser := serializeCells_eq m.cells [] hvalid
  obtain ⟨cd, hcd⟩ : ∃ cd, m.compose.serialize = .ok cd := by
    simp only [Compose.serialize, hc, bind, Except.bind]; exact ⟨_, rfl⟩
  let O := outFold (triples m.cells) []
  let doc : PyVal := .dict [(L "header", .dict [(L "type", .str Gen.HEADER_TYPE_Images), (L "version", .str currentVersion)]),
    (L "payload", .dict [(L "images", O.toPy), (L "compose", cd)])]
  have hdoc : (serialize m).2 = .ok doc := by
    simp only [serialize, cur_header_valid, hcd, hser, bind, Except.bind]
    rfl
  -- the table written
  have hON : OutNodup O := outFold_nodup _ [] ⟨List.nodup_nil, fun _ h => by cases h⟩
  have hOP : (outTriples O).Perm ((triples m.cells).map fun t => (t.1, t.2.1, t.2.2.dict)) := by
    have := outFold_perm (triples m.cells) []
    simpa [outTriples] using this
  have hmemA : ∀ u ∈ triples m.cells, u.2.2 ∈ m.cells.all := by
    intro u hu'
    rw [all_eq]
    exact List.mem_map.mpr ⟨u, hu', rfl⟩
  -- every entry of the table is the dictionary of an image of m, under m's keys
  let us := (outTriples O).map fun t => (t.1, t.2.1, readD t.2.2)
  have hback : ∀ t ∈ outTriples O, ∃ u ∈ triples m.cells, t = (u.1, u.2.1, u.2.2.dict) := by
    intro t ht
    obtain ⟨u, hu', e⟩ := List.mem_map.mp (hOP.mem_iff.mp ht)
    exact ⟨u, hu', e.symm⟩
  have hus_dict : us.map (fun u => (u.1, u.2.1, u.2.2.dict)) = outTriples O := by
    simp only [us, List.map_map]
    conv => rhs; rw [← List.map_id (outTriples O)]
    apply List.map_congr_left
    intro t ht
    obtain ⟨u, hu', rfl⟩ := hback t ht
    have := hi _ (hmemA u hu')
    simp [readD_dict _ this.1 this.2]
  have hus_good : ∀ u ∈ us, u.2.2 ∈ m.cells.all ∧ Gen.RPM_ARCHES.contains u.2.1 = true ∧ refusedArches.contains u.2.1 = false := by
    intro u hu'
    obtain ⟨t, ht, rfl⟩ := List.mem_map.mp hu'
    obtain ⟨u0, hu0, rfl⟩ := hback t ht
    have := hi _ (hmemA u0 hu0)
    simp only [readD_dict _ this.1 this.2]
    exact ⟨hmemA u0 hu0, ha u0 hu0⟩
  -- the reader
  obtain ⟨s', hl, hv', hc', hp'⟩ := loadTriples_good O.toPy m.cells.all hu hi us
    { version := .str currentVersion, compose := composeNorm m.compose, cells := [] } 0 hus_good rfl
    (by intro x hx; simp [Cells.all] at hx) (by intro e he; simp [entries] at he)
  rw [hus_dict] at hl
  have hload : loadVariants (.str currentVersion) O.toPy (O.map fun va => .str va.1)
      ({ version := .str currentVersion, compose := composeNorm m.compose, cells := [] }, 0) = .ok (s', 0 + us.length) := by
    rw [loadVariants_eq (.str currentVersion) O hON O (fun _ h => h)]
    exact hl
  have hiter : iter O.toPy = .ok (O.map fun va => .str va.1) := by
    simp [toPy_eq, iter, List.map_map, Function.comp_def]
  refine ⟨doc, { s' with version := .str currentVersion }, hdoc, ?_, ?_, hc', rfl⟩
  · have hcomp := compose_roundtrip m.compose O.toPy cd hcd
    simp only [deserialize, doc, header_roundtrip, bind, Except.bind]
    have e1 : item (.dict [(L "header", .dict [(L "type", .str Gen.HEADER_TYPE_Images), (L "version", .str currentVersion)]),
        (L "payload", .dict [(L "images", O.toPy), (L "compose", cd)])]) (L "payload")
        = .ok (.dict [(L "images", O.toPy), (L "compose", cd)]) := by rfl
    have e2 : item (.dict [(L "images", O.toPy), (L "compose", cd)]) (L "images") = .ok O.toPy := by rfl
    simp only [e1, hcomp, e2, hiter, hload]
  · -- filings read = filings written
    show (triples s'.cells).Perm (triples m.cells)
    have hnil : triples ([] : Cells) = [] := rfl
    simp only [hnil, List.append_nil] at hp'
    refine hp'.trans ?_
    have h1 : us.Perm (((triples m.cells).map fun t => (t.1, t.2.1, t.2.2.dict)).map fun t => (t.1, t.2.1, readD t.2.2)) :=
      hOP.map _
    refine h1.trans ?_
    rw [List.map_map]
    have : ((triples m.cells).map ((fun t => (t.1, t.2.1, readD t.2.2)) ∘ fun t => (t.1, t.2.1, t.2.2.dict))) = triples m.cells := by
      conv => rhs; rw [← List.map_id (triples m.cells)]
      apply List.map_congr_left
      intro u hu'
      have := hi _ (hmemA u hu')
      simp [readD_dict _ this.1 this.2]
    rw [this]

/-- per cell: the records read back under `(v, a)` are a permutation of the records filed under `(v, a)` -/
theorem C02_cells (m m' : ImgState) (h : (triples m'.cells).Perm (triples m.cells)) (v a : Str) :
    (((triples m'.cells).filter fun t => t.1 == v && t.2.1 == a).map (·.2.2)).Perm
      (((triples m.cells).filter fun t => t.1 == v && t.2.1 == a).map (·.2.2)) :=
  (h.filter _).map _

/-- no image gained or lost overall; an object filed in k cells comes back as k equal records -/
theorem C02_all (m m' : ImgState) (h : (triples m'.cells).Perm (triples m.cells)) :
    m'.cells.all.Perm m.cells.all := by
  rw [all_eq, all_eq]; exact h.map _

theorem composeNorm_idem (c : Compose) : composeNorm (composeNorm c) = composeNorm c := by
  cases c with
  | mk id type date respin label final =>
    cases hl : label.truthy
    · have h1 : composeNorm ⟨id, type, date, respin, label, final⟩ = ⟨id, type, date, respin, .none, .bool false⟩ := by
        unfold composeNorm; simp only [hl]; rfl
      rw [h1]; rfl
    · have h1 : composeNorm ⟨id, type, date, respin, label, final⟩ = ⟨id, type, date, respin, label, .bool final.truthy⟩ := by
        unfold composeNorm; simp only [hl]; rfl
      rw [h1]; unfold composeNorm; simp only [hl]; rfl

/-- the manifest read back satisfies the hypotheses of `C02_readback_partial` again: the cycle can be repeated, and
every further document holds the same multiset of filings -/
theorem C02_cycle_closed (m m' : ImgState)
    (hc : m.compose.validate = .ok ())
    (hi : ∀ i ∈ m.cells.all, i.validate = .ok ())
    (ha : ∀ t ∈ triples m.cells, Gen.RPM_ARCHES.contains t.2.1 = true ∧ refusedArches.contains t.2.1 = false)
    (hu : Uniq m.cells)
    (hp : (triples m'.cells).Perm (triples m.cells)) (hcomp : m'.compose = composeNorm m.compose) :
    m'.compose.validate = .ok ()
    ∧ (∀ i ∈ m'.cells.all, i.validate = .ok ())
    ∧ (∀ t ∈ triples m'.cells, Gen.RPM_ARCHES.contains t.2.1 = true ∧ refusedArches.contains t.2.1 = false)
    ∧ Uniq m'.cells ∧ composeNorm m'.compose = m'.compose := by
  have hall := C02_all m m' hp
  refine ⟨hcomp ▸ (norm_valid _ hc).2, fun i h => hi i (hall.mem_iff.mp h), fun t h => ha t (hp.mem_iff.mp h), ?_, ?_⟩
  · intro i h1 j h2 hid
    exact hu i (hall.mem_iff.mp h1) j (hall.mem_iff.mp h2) hid
  · rw [hcomp]; exact composeNorm_idem _

/-! ### bytes -/

/-- the document the writer produces, spelled out -/
theorem serialize_doc (m : ImgState) (cd : PyVal) (hcd : m.compose.serialize = .ok cd)
    (hi : ∀ i ∈ m.cells.all, i.validate = .ok ()) :
    (serialize m).2 = .ok (.dict [(L "header", .dict [(L "type", .str Gen.HEADER_TYPE_Images), (L "version", .str currentVersion)]),
      (L "payload", .dict [(L "images", (outFold (triples m.cells) []).toPy), (L "compose", cd)])]) := by
  have hvalid : ∀ va ∈ m.cells, ∀ ac ∈ va.2, ∀ e ∈ ac.2, e.2.validate = .ok () :=
    fun va h1 ac h2 e h3 => hi _ (mem_all_of_entry h1 h2 h3)
  simp only [serialize, cur_header_valid, hcd, serializeCells_eq m.cells [] hvalid, bind, Except.bind]

/-! ### empty buckets

A `(variant, arch)` set can be emptied through the public containers (`images[v][a].discard(img)`, `.clear()`,
`del images[v][a]`), leaving an empty set or a variant without arches in `self.images`.  The model's cells may be
empty lists; `triples` (the filings) does not see them, and neither does the writer: the `setdefault` that creates
the output list sits inside the per-image loop. -/

/-- **the document is a function of the filings**: two manifests with the same filings and the same compose section
— e.g. one with emptied buckets and the one without them — are written to the same document -/
theorem C02_document_of_filings (m₁ m₂ : ImgState) (ht : triples m₁.cells = triples m₂.cells) (hc : m₁.compose = m₂.compose)
    (cd : PyVal) (hcd : m₁.compose.serialize = .ok cd) (hi : ∀ i ∈ m₁.cells.all, i.validate = .ok ()) :
    (serialize m₁).2 = (serialize m₂).2 := by
  have hi₂ : ∀ i ∈ m₂.cells.all, i.validate = .ok () := by
    intro i h; apply hi; rw [all_eq] at h ⊢; rw [ht]; exact h
  rw [serialize_doc m₁ cd hcd hi, serialize_doc m₂ cd (hc ▸ hcd) hi₂, ht]

/-- **empty cells are not written**: the written table has a key for a variant iff the variant has a filing, an arch
key under it iff that (variant, arch) has a filing, and no cell of the table is an empty list.  (A manifest read back
therefore has no empty bucket; on filings — what `C02_readback_partial` is about — nothing is gained or lost.) -/
theorem C02_empty_cells_not_written (cs : Cells) :
    (∀ v, v ∈ (outFold (triples cs) []).map (·.1) ↔ ∃ t ∈ triples cs, t.1 = v)
    ∧ (∀ v a, a ∈ (archAt (outFold (triples cs) []) v).map (·.1) ↔ ∃ t ∈ triples cs, t.1 = v ∧ t.2.1 = a)
    ∧ (∀ va ∈ outFold (triples cs) [], va.2 ≠ [] ∧ ∀ al ∈ va.2, al.2 ≠ []) := by
  have hN : OutNodup (outFold (triples cs) []) := outFold_nodup _ [] ⟨List.nodup_nil, fun _ h => by cases h⟩
  have hk : ∀ v a, a ∈ (archAt (outFold (triples cs) []) v).map (·.1) ↔ ∃ t ∈ triples cs, t.1 = v ∧ t.2.1 = a := by
    intro v a
    rw [archKeys_outFold]
    simp [archAt]
  refine ⟨fun v => by rw [keys_outFold]; simp, hk, ?_⟩
  intro va hva
  obtain ⟨v, as⟩ := va
  have hat := archAt_of_mem hN.1 hva
  have hcell : ∀ al ∈ as, al.2 ≠ [] := by
    intro al hal
    obtain ⟨a, l⟩ := al
    have hl := cellIn_of_mem (hN.2 _ hva) hal
    have hkey : a ∈ (archAt (outFold (triples cs) []) v).map (·.1) := by
      rw [hat]; exact List.mem_map.mpr ⟨(a, l), hal, rfl⟩
    obtain ⟨t, ht, hv, ha⟩ := (hk v a).mp hkey
    have hc := cell_outFold (triples cs) [] v a
    rw [hat] at hc
    simp only at hl
    rw [hl] at hc
    have hnil : cellIn (archAt ([] : OutCells) v) a = [] := by simp [archAt, cellIn]
    rw [hnil] at hc
    have hmem : t.2.2.dict ∈ dictsFor (triples cs) v a := by
      simp only [dictsFor, List.mem_map, List.mem_filter]
      exact ⟨t, ⟨ht, by simp [hv, ha]⟩, rfl⟩
    intro hempty
    simp only at hempty
    rw [hempty] at hc
    have := (cellFold_perm (dictsFor (triples cs) v a)).mem_iff.mpr hmem
    rw [← hc] at this
    cases this
  refine ⟨?_, hcell⟩
  -- the variant key exists, so it has a filing, so it has an arch key
  intro hempty
  simp only at hempty
  have hkv : v ∈ (outFold (triples cs) []).map (·.1) := List.mem_map.mpr ⟨(v, as), hva, rfl⟩
  rw [keys_outFold] at hkv
  rcases hkv with h | ⟨t, ht, hv⟩
  · cases h
  · have := (hk v t.2.1).mpr ⟨t, ht, hv, rfl⟩
    rw [hat, hempty] at this
    cases this

/-- the normalised compose section is written exactly as the original -/
theorem compose_serialize_norm (c : Compose) (h : c.validate = .ok ()) : (composeNorm c).serialize = c.serialize := by
  obtain ⟨hn, hv⟩ := norm_valid c h
  cases hl : c.label.truthy
  · rw [hn] at hv ⊢
    simp only [hl, Bool.false_eq_true, ↓reduceIte] at hv ⊢
    simp only [Compose.serialize, hv, h, hl, bind, Except.bind]
    rfl
  · rw [hn]; simp only [hl, ↓reduceIte]

/--
**C02_fixpoint.**  Under the hypotheses of `C02_readback_partial` and distinct paths inside every cell: the manifest
read back from the written document is written to a document with the **same bytes** (`JsonText.dumps` = the text of
`json.dump(indent=4, sort_keys=True)`); the two documents may differ in the order of dict entries only.
-/
theorem C02_fixpoint (m : ImgState)
    (hc : m.compose.validate = .ok ())
    (hi : ∀ i ∈ m.cells.all, i.validate = .ok ())
    (ha : ∀ t ∈ triples m.cells, Gen.RPM_ARCHES.contains t.2.1 = true ∧ refusedArches.contains t.2.1 = false)
    (hu : Uniq m.cells) (hd : DistinctPaths m.cells)
    (doc : PyVal) (m' : ImgState) (h1 : (serialize m).2 = .ok doc) (h2 : deserialize doc = .ok m') :
    ∃ doc', (serialize m').2 = .ok doc' ∧ PyVal.canon doc' = PyVal.canon doc ∧ JsonText.dumps doc' = JsonText.dumps doc := by
  obtain ⟨doc0, m0, hs0, hd0, hperm, hcomp, _⟩ := C02_readback_partial m hc hi ha hu
  rw [h1] at hs0; injection hs0 with hs0; subst hs0
  rw [h2] at hd0; injection hd0 with hd0; subst hd0
  obtain ⟨hc', hi', _, _, _⟩ := C02_cycle_closed m m' hc hi ha hu hperm hcomp
  obtain ⟨cd, hcd⟩ : ∃ cd, m.compose.serialize = .ok cd := by
    simp only [Compose.serialize, hc, bind, Except.bind]; exact ⟨_, rfl⟩
  have hcd' : m'.compose.serialize = .ok cd := by rw [hcomp, compose_serialize_norm _ hc, hcd]
  have hdoc := serialize_doc m cd hcd hi
  have hdoc' := serialize_doc m' cd hcd' hi'
  rw [h1] at hdoc; injection hdoc with hdoc
  have htab : PyVal.canon (outFold (triples m'.cells) []).toPy = PyVal.canon (outFold (triples m.cells) []).toPy := by
    refine (toPy_canon_perm (triples m.cells) (triples m'.cells) hperm.symm ?_).symm
    intro v a
    have := hd v a
    simp only [dictsFor, List.map_map]
    have e : (pathKey ∘ fun t : Str × Str × Image => t.2.2.dict) = fun t => pathStr t.2.2 := by
      funext t; simp only [Function.comp, pathKey_dict, pathStr]; rfl
    rw [e]; exact this
  have hcanon : PyVal.canon (.dict [(L "header", .dict [(L "type", .str Gen.HEADER_TYPE_Images), (L "version", .str currentVersion)]),
      (L "payload", .dict [(L "images", (outFold (triples m'.cells) []).toPy), (L "compose", cd)])]) = PyVal.canon doc := by
    rw [hdoc]
    apply canon_dict_congr
    simp only [List.map_cons, List.map_nil, List.cons.injEq, Prod.mk.injEq, true_and, and_true]
    apply canon_dict_congr
    simp only [List.map_cons, List.map_nil, htab]
  exact ⟨_, hdoc', hcanon, dumps_congr hcanon⟩

/-- `loads(text)` then `dumps()`, with `parse` standing for `json.load` -/
def reloadDumps (parse : Str → Except Err PyVal) (t : Str) : Except Err Str :=
  parse t >>= fun doc => loads doc >>= fun m' => (dumps m').2

/--
**C02_bytes.**  The text returned by `dumps()`, read by `loads` and dumped again, is the same text, byte for byte.
`parse` stands for `json.load`; that it returns the document that was printed is the explicit hypothesis `hjson`
(trusted stdlib; exercised by every generated case, where the real `loads` runs on the real text).
-/
theorem C02_bytes (parse : Str → Except Err PyVal) (m : ImgState)
    (hc : m.compose.validate = .ok ())
    (hi : ∀ i ∈ m.cells.all, i.validate = .ok ())
    (ha : ∀ t ∈ triples m.cells, Gen.RPM_ARCHES.contains t.2.1 = true ∧ refusedArches.contains t.2.1 = false)
    (hu : Uniq m.cells) (hd : DistinctPaths m.cells)
    (hjson : ∀ doc, (serialize m).2 = .ok doc → parse (JsonText.dumps doc) = .ok doc)
    (t : Str) (ht : (dumps m).2 = .ok t) : reloadDumps parse t = .ok t := by
  obtain ⟨doc, m', hs, hde, _, _, _⟩ := C02_readback_partial m hc hi ha hu
  obtain ⟨doc', hs', hcan, hbytes⟩ := C02_fixpoint m hc hi ha hu hd doc m' hs hde
  -- the first dump
  have hdumps : ∀ (x : ImgState) (dx : PyVal), (serialize x).2 = .ok dx →
      (dumps x).2 = (if jsonSafe dx then .ok (JsonText.dumps dx) else .error .typeError) := by
    intro x dx hx
    unfold dumps
    rw [C02_images_no_validators]
    simp only
    cases hsx : serialize x with
    | mk sx r =>
      rw [hsx] at hx
      simp only at hx
      subst hx
      rfl
  rw [hdumps m doc hs] at ht
  cases hsafe : jsonSafe doc
  · rw [hsafe] at ht; cases ht
  · rw [hsafe] at ht
    injection ht with ht
    subst ht
    have hsafe' : jsonSafe doc' = true := by rw [jsonSafe_of_canon_eq hcan]; exact hsafe
    unfold reloadDumps
    simp only [hjson doc hs, loads, hde, C02_images_no_validators, bind, Except.bind]
    rw [hdumps m' doc' hs', hsafe', hbytes]
    rfl

/-- a decidable sufficient form of `DistinctPaths`: any two filings under the same variant and arch differ in path -/
theorem distinctPaths_of_pairwise (cs : Cells)
    (h : (triples cs).Pairwise fun x y => x.1 = y.1 → x.2.1 = y.2.1 → pathStr x.2.2 ≠ pathStr y.2.2) : DistinctPaths cs := by
  intro v a
  unfold List.Nodup
  rw [List.pairwise_map, List.pairwise_filter]
  refine h.imp ?_
  intro x y hxy hx hy
  simp only [Bool.and_eq_true, beq_iff_eq] at hx hy
  exact hxy (hx.1.trans hy.1.symm) (hx.2.trans hy.2.symm)

/-! ### the excluded regions are real (witnesses), and the hypotheses are satisfiable -/

def errIs {α : Type} (r : Except Err α) (e : Err) : Bool :=
  match r with
  | .error e' => e' == e
  | .ok _ => false

def wCompose : Compose :=
  { id := .str (L "F-22-20150522.0"), type := .str (L "production"), date := .str (L "20150522"), respin := .int 0 }

def wA : Image :=
  { path := .str (L "S/x86_64/iso/b.iso"), mtime := .int 1, size := .int 4294967303, type := .str (L "dvd"), format := .str (L "iso"),
    arch := .str (L "x86_64"), disc_number := .int 1, disc_count := .int 1, checksums := .dict [(L "md5", .str (L "a"))],
    subvariant := .str (L "S") }
/-- same identity as `wA`, different checksums -/
def wB : Image := { wA with path := .str (L "S/x86_64/iso/a.iso"), checksums := .dict [(L "md5", .str (L "b"))] }
/-- another identity: a unified image with additional variants -/
def wC : Image := { wA with path := .str (L "S/x86_64/iso/A.iso"), unified := .bool true, additional_variants := .list [.str (L "Client")] }

/-- a manifest with two variants; object 0 is filed in two cells -/
def wGood : ImgState :=
  { compose := wCompose,
    cells := [(L "Server", [(L "x86_64", [(0, wA), (1, wC)]), (L "i386", [(0, wA)])]), (L "Client", [(L "x86_64", [(1, wC)])])] }

/-- F11: `wA` and `wB` side by side (accepted by `add` on a fresh `Images()`, header 0.0) -/
def wF11 : ImgState := { compose := wCompose, cells := [(L "Server", [(L "x86_64", [(0, wA), (1, wB)])])] }

/-- **F11**: the colliding manifest is reachable through `add` on a fresh object, the library writes it, and the
reader refuses what was written with ValueError -/
theorem C02_F11_witness :
    ([⟨L "Server", L "x86_64", 0, wA⟩, ⟨L "Server", L "x86_64", 1, wB⟩].foldl step { compose := wCompose }).cells.all = wF11.cells.all
    ∧ errIs (match (serialize wF11).2 with | .ok doc => deserialize doc | .error _ => .ok default) .valueError = true := by
  refine ⟨by rfl, by decide +kernel⟩

/-- **F22 repaired**: a bool in any of the four integer attributes no longer passes the validators (before the repair
`size = True` passed, was written as `true` and read back as `1`) … -/
theorem C02_bool_int_refused (i : Image) (b : Bool)
    (h : i.mtime = .bool b ∨ i.size = .bool b ∨ i.disc_number = .bool b ∨ i.disc_count = .bool b) : i.validate ≠ .ok () := by
  intro hv
  obtain ⟨⟨n1, h1⟩, ⟨n2, h2⟩, ⟨n3, h3⟩, ⟨n4, h4⟩⟩ := valid_properInts i hv
  rcases h with h | h | h | h
  · rw [h1] at h; cases h
  · rw [h2] at h; cases h
  · rw [h3] at h; cases h
  · rw [h4] at h; cases h

/-- … with TypeError, and a manifest holding such an image is not written (`dumps` raises TypeError) -/
theorem C02_bool_int_refused_witness :
    Image.validate { wA with size := .bool true } = .error .typeError
    ∧ Image.validate { wA with mtime := .bool false } = .error .typeError
    ∧ Image.validate { wA with disc_number := .bool true } = .error .typeError
    ∧ Image.validate { wA with disc_count := .bool true } = .error .typeError
    ∧ errIs (dumps { compose := wCompose, cells := [(L "Server", [(L "x86_64", [(0, { wA with size := .bool true })])])] }).2 .typeError = true := by
  decide +kernel

/-- the hypotheses of `C02_readback_partial` hold of `wGood` (non-vacuity) -/
example : wGood.compose.validate = .ok () := by decide +kernel
example : ∀ i ∈ wGood.cells.all, i.validate = .ok () := by
  intro i hi
  have : i = wA ∨ i = wC := by
    simp only [wGood, Cells.all, List.flatMap_cons, List.flatMap_nil, List.map_cons, List.map_nil, List.append_nil,
      List.cons_append, List.nil_append, List.mem_cons, List.not_mem_nil, or_false] at hi
    rcases hi with h | h | h | h <;> simp [h]
  rcases this with rfl | rfl
  · decide +kernel
  · decide +kernel
/-- … and the model really performs the cycle on it: the document is read back and the second document is identical -/
example : errIs (match (serialize wGood).2 with | .ok doc => deserialize doc | .error _ => .error .other) .valueError = false := by
  decide +kernel

/-- a manifest with an emptied cell and a variant without arches has the filings of the pruned manifest, hence
(`C02_document_of_filings`) the same document -/
example : triples ([(L "Server", [(L "x86_64", [(0, wA)]), (L "i386", [])]), (L "Client", [])] : Cells)
    = triples [(L "Server", [(L "x86_64", [(0, wA)])])] := rfl
example : DistinctPaths wGood.cells := distinctPaths_of_pairwise _ (by decide +kernel)
/-- the model's own cycle on a one-image manifest: the second text equals the first -/
example : let w : ImgState := { compose := wCompose, cells := [(L "Server", [(L "x86_64", [(0, wC)])])] }
    (dumps w).2 = (match (serialize w).2 with
    | .ok doc => (match deserialize (PyVal.canon doc) with | .ok m' => (dumps m').2 | .error e => .error e)
    | .error e => .error e) := by decide +kernel

end PM

/-! ## bytes through the modelled JSON parser (builder jsonparse)

`JsonParse.parseWith lim` (Model/JsonParse.lean) models CPython's `json.loads` (tied to the real one by
`harness/json_diff.py`); `Proofs/JsonRoundTrip.lean` proves `parseWith lim (JsonText.dumps doc) = .ok (PyVal.canon doc)`:
the parser returns every dict in the order of the text, i.e. in SORTED key order, while the writer's document is in
insertion order (`payload = {images, compose}`, image fields in attribute order).  So the hypothesis `hjson` of
`C02_bytes` (`parse (dumps doc) = .ok doc`) is not what CPython does (`C02_hjson_witness`); and the reader files images
in document order, so the re-read STATE after a real parse is a permutation of the one `C02_bytes` speaks about.
With the modelled parser the byte statement needs instead `hord`: loading the key-sorted document and dumping gives the
same text as loading the document as written and dumping (a statement about the library model only; it holds by
evaluation on the examples, cf. `C08_perm_images_bytes` for the writer half; a general proof is open) — plus the
explicit representability of the written document. -/
namespace PM
open PM.Img PM.PyOps PM.Spec

/-- on a one-image manifest the modelled CPython parser returns the key-sorted document, which is NOT the document
the writer built -/
theorem C02_hjson_witness :
    (match (serialize { compose := wCompose, cells := [(L "Server", [(L "x86_64", [(0, wC)])])] }).2 with
     | .ok doc => (match JsonParse.parse (JsonText.dumps doc) with
                   | .ok w => PyVal.beq w (PyVal.canon doc) && !(PyVal.beq w doc)
                   | .error _ => false)
     | .error _ => false) = true := by decide +kernel

/-- **C02_bytes, parser modelled, first form** (two hypotheses about the library model, `hrep` and `hord`; both are discharged
below: `C02_bytes_parsed`).  Same conclusion as `C02_bytes` with `parse := JsonParse.parseWith lim`. -/
theorem C02_bytes_parsed_hyp (lim : Nat) (m : ImgState)
    (hc : m.compose.validate = .ok ())
    (hi : ∀ i ∈ m.cells.all, i.validate = .ok ())
    (ha : ∀ t ∈ triples m.cells, Gen.RPM_ARCHES.contains t.2.1 = true ∧ refusedArches.contains t.2.1 = false)
    (hu : Uniq m.cells) (hd : DistinctPaths m.cells)
    (hrep : ∀ doc, (serialize m).2 = .ok doc → Mf.jsonRep doc = true ∧ JsonParse.numsOk lim doc = true)
    (hord : ∀ doc, (serialize m).2 = .ok doc →
      reloadDumps (fun _ => .ok (PyVal.canon doc)) (JsonText.dumps doc) = reloadDumps (fun _ => .ok doc) (JsonText.dumps doc))
    (t : Str) (ht : (dumps m).2 = .ok t) : reloadDumps (JsonParse.parseWith lim) t = .ok t := by
  obtain ⟨doc, m', hs, _, _, _, _⟩ := C02_readback_partial m hc hi ha hu
  have h1 := C02_bytes (fun _ => .ok doc) m hc hi ha hu hd (fun d hd' => by rw [hs] at hd'; cases hd'; rfl) t ht
  -- the text is the printed document
  have htext : t = JsonText.dumps doc := by
    have ht' := ht
    unfold dumps at ht'
    rw [C02_images_no_validators] at ht'
    simp only at ht'
    cases hsx : serialize m with
    | mk sx r =>
      rw [hsx] at hs ht'
      simp only at hs
      subst hs
      simp only at ht'
      split at ht'
      · cases ht'; rfl
      · cases ht'
  subst htext
  rw [← hord doc hs] at h1
  have hp := JsonParse.parseWith_dumps lim doc (hrep doc hs).1 (hrep doc hs).2
  unfold reloadDumps at h1 ⊢
  rw [hp]
  exact h1

/-- non-vacuity: `hrep` and `hord` hold of a one-image manifest by evaluation (default digit limit) -/
example : (match (serialize { compose := wCompose, cells := [(L "Server", [(L "x86_64", [(0, wC)])])] }).2 with
    | .ok doc => Mf.jsonRep doc && JsonParse.numsOk JsonParse.defaultLimit doc
        && (reloadDumps (fun _ => .ok (PyVal.canon doc)) (JsonText.dumps doc) == reloadDumps (fun _ => .ok doc) (JsonText.dumps doc))
    | .error _ => false) = true := by decide +kernel

/-! ## the reader does not depend on the key order of the document — `hord` and `hrep` discharged

`Img.reload_canon`: for the document `doc` written for a manifest `m` (valid, admissible arches, `Uniq`, containers holding
JSON values), `deserialize doc` and `deserialize (canon doc)` — the document as the writer built it and the same document
with every dict in sorted key order, which is what a JSON parser returns for the written text — both succeed, and the two
manifests are the same content (`Img.Same`: equal compose section, filings equal up to a permutation of the variant dict,
of every arch dict and of every image set, `checksums` / `additional_variants` up to entry order).  The add-time effects
of the order are accounted for: the header version is the current one on both sides (scan enforced, no `src` re-filing),
and `Uniq` makes the duplicate-identity scan succeed in every order (identity and checksums `==` are invariant under
canonicalisation: `canonC_identity`).  With `C08_perm_images_bytes` (the writer does not depend on these orders) the
byte-level round trip through the modelled CPython parser follows from hypotheses on the OBJECT only. -/

namespace Img

/-- **the images reader is independent of dict key order** (on written documents) -/
theorem reload_canon (m : ImgState)
    (hc : m.compose.validate = .ok ())
    (hval : ∀ i ∈ m.cells.all, i.validate = .ok () ∧ ContainersRep i)
    (ha : ∀ t ∈ triples m.cells, Gen.RPM_ARCHES.contains t.2.1 = true ∧ refusedArches.contains t.2.1 = false)
    (hu : Uniq m.cells) (doc : PyVal) (hs : (serialize m).2 = .ok doc) :
    ∃ m' m'', deserialize doc = .ok m' ∧ deserialize (PyVal.canon doc) = .ok m'' ∧ Img.Same m' m''
      ∧ (triples m'.cells).Perm (triples m.cells) := by
  have hi : ∀ i ∈ m.cells.all, i.validate = .ok () ∧ ProperInts i ∧ ContainersRep i :=
    fun i h => ⟨(hval i h).1, valid_properInts i (hval i h).1, (hval i h).2⟩
  have hi' : ∀ i ∈ m.cells.all, i.validate = .ok () := fun i h => (hi i h).1
  obtain ⟨doc0, m', hs0, hd0, hperm, hcomp, _⟩ := C02_readback_partial m hc hi' ha hu
  rw [hs] at hs0; injection hs0 with hs0; subst hs0
  obtain ⟨cd, hcd⟩ : ∃ cd, m.compose.serialize = .ok cd := by
    simp only [Compose.serialize, hc, bind, Except.bind]; exact ⟨_, rfl⟩
  have hdoc := serialize_doc m cd hcd (fun i h => (hi i h).1)
  rw [hs] at hdoc; injection hdoc with hdoc
  obtain ⟨m'', hd2, hcomp2, _, hperm2⟩ := deserialize_canon_doc m hi ha hu cd hcd
  rw [← hdoc] at hd2
  refine ⟨m', m'', hd0, hd2, ⟨hcomp.trans hcomp2.symm, ?_⟩, hperm⟩
  -- filings: m' ~ m, related elementwise to the canonicalised filings, which are a permutation of those of m''
  have hall2 : All2 FSame (triples m.cells) ((triples m.cells).map fun t => (t.1, t.2.1, canonC t.2.2)) := by
    have hmem : ∀ u ∈ triples m.cells, ContainersRep u.2.2 := by
      intro u hu'
      exact (hi _ (by rw [all_eq]; exact List.mem_map.mpr ⟨u, hu', rfl⟩)).2.2
    generalize triples m.cells = l at hmem
    induction l with
    | nil => exact .nil
    | cons x xs ih =>
      exact .cons ⟨rfl, rfl, canonC_same x.2.2 (hmem x List.mem_cons_self)⟩ (ih fun u hu' => hmem u (List.mem_cons_of_mem _ hu'))
  obtain ⟨l', hl', hall'⟩ := PermR.all2_perm_swap hall2 hperm2.symm
  exact ⟨l', hperm.trans hl', hall'⟩

end Img

/-- `Img.reload_canon` under the property's name (registered and audited with the other C02 theorems) -/
theorem C02_reload_canon (m : ImgState)
    (hc : m.compose.validate = .ok ())
    (hi : ∀ i ∈ m.cells.all, i.validate = .ok () ∧ ContainersRep i)
    (ha : ∀ t ∈ triples m.cells, Gen.RPM_ARCHES.contains t.2.1 = true ∧ refusedArches.contains t.2.1 = false)
    (hu : Uniq m.cells) (doc : PyVal) (hs : (serialize m).2 = .ok doc) :
    ∃ m' m'', deserialize doc = .ok m' ∧ deserialize (PyVal.canon doc) = .ok m'' ∧ Img.Same m' m''
      ∧ (triples m'.cells).Perm (triples m.cells) := Img.reload_canon m hc hi ha hu doc hs

/-- **C02_bytes through the modelled CPython parser, hypotheses on the object only.**  For a manifest whose compose section
and images validate, whose `checksums` / `additional_variants` hold JSON values, whose cells
are keyed by admissible arches, with unique identities and distinct paths per cell, and whose integers fit the interpreter's
digit limit `lim` (nothing to check for `lim = 0`, or below 641 digits: `numsFit_zero`, `JsonParse.intFits_of_length`): the text
`dumps()` returns, parsed by `JsonParse.parseWith lim` (the model of `json.loads`), loaded and dumped again, is the same text. -/
theorem C02_bytes_parsed (lim : Nat) (m : ImgState)
    (hc : m.compose.validate = .ok ())
    (hval : ∀ i ∈ m.cells.all, i.validate = .ok () ∧ ContainersRep i ∧ NumsFit lim i)
    (hrespin : JsonParse.numsOk lim m.compose.respin = true)
    (ha : ∀ t ∈ triples m.cells, Gen.RPM_ARCHES.contains t.2.1 = true ∧ refusedArches.contains t.2.1 = false)
    (hu : Uniq m.cells) (hd : DistinctPaths m.cells)
    (t : Str) (ht : (dumps m).2 = .ok t) : reloadDumps (JsonParse.parseWith lim) t = .ok t := by
  have hi : ∀ i ∈ m.cells.all, i.validate = .ok () ∧ ProperInts i ∧ ContainersRep i ∧ NumsFit lim i :=
    fun i h => ⟨(hval i h).1, valid_properInts i (hval i h).1, (hval i h).2⟩
  have hi2 : ∀ i ∈ m.cells.all, i.validate = .ok () := fun i h => (hi i h).1
  have hi3 : ∀ i ∈ m.cells.all, i.validate = .ok () ∧ ContainersRep i := fun i h => ⟨(hi i h).1, (hi i h).2.2.1⟩
  obtain ⟨doc, _, hs, _, _, _, _⟩ := C02_readback_partial m hc hi2 ha hu
  obtain ⟨m', m'', hd1, hd2, hsame, hperm⟩ := Img.reload_canon m hc hi3 ha hu doc hs
  -- the bytes of the manifest read from the document as written
  have h1 := C02_bytes (fun _ => .ok doc) m hc hi2 ha hu hd (fun d hd' => by rw [hs] at hd'; cases hd'; rfl) t ht
  have hm' : (dumps m').2 = .ok t := by
    unfold reloadDumps at h1
    simpa only [loads, hd1, C02_images_no_validators, bind, Except.bind] using h1
  -- distinct paths carry over to m'
  have hdp : Img.DistinctPaths (triples m'.cells) := by
    intro v a
    have := hd v a
    have hp := ((hperm.filter fun t => t.1 == v && t.2.1 == a).map fun t : Str × Str × Image => pathKey t.2.2.dict)
    unfold cellFilings
    refine hp.nodup_iff.mpr ?_
    have e : (fun t : Str × Str × Image => pathKey t.2.2.dict) = fun t => pathStr t.2.2 := by
      funext t; simp only [pathKey_dict, pathStr]; rfl
    rw [e]; exact this
  have hm'' := C08_perm_images_bytes m' m'' hsame hdp t hm'
  -- the text is the printed document, and the parser returns its key-sorted form
  have htext : t = JsonText.dumps doc := by
    have ht' := ht
    unfold dumps at ht'
    rw [C02_images_no_validators] at ht'
    simp only at ht'
    cases hsx : serialize m with
    | mk sx r =>
      rw [hsx] at hs ht'
      simp only at hs
      subst hs
      simp only at ht'
      split at ht'
      · cases ht'; rfl
      · cases ht'
  obtain ⟨cd, hcd⟩ : ∃ cd, m.compose.serialize = .ok cd := by
    simp only [Compose.serialize, hc, bind, Except.bind]; exact ⟨_, rfl⟩
  have hdoc := serialize_doc m cd hcd (fun i h => (hi i h).1)
  rw [hs] at hdoc; injection hdoc with hdoc
  have hrep := serialized_doc_rep lim m hi hrespin cd hcd
  rw [← hdoc] at hrep
  have hp := JsonParse.parseWith_dumps lim doc hrep.1 hrep.2
  unfold reloadDumps
  rw [htext, hp]
  simp only [loads, hd2, C02_images_no_validators, bind, Except.bind]
  rw [← htext]; exact hm''

/-- non-vacuity: the object-level hypotheses hold of the example manifest `wGood` (default digit limit) -/
example : ∀ i ∈ wGood.cells.all, i.validate = .ok () ∧ ContainersRep i ∧ NumsFit JsonParse.defaultLimit i := by
  intro i hi
  have : i = wA ∨ i = wC := by
    simp only [wGood, Cells.all, List.flatMap_cons, List.flatMap_nil, List.map_cons, List.map_nil, List.append_nil,
      List.cons_append, List.nil_append, List.mem_cons, List.not_mem_nil, or_false] at hi
    rcases hi with h | h | h | h <;> simp [h]
  rcases this with rfl | rfl
  · exact ⟨by decide +kernel, ⟨by decide +kernel, by decide +kernel⟩,
      by decide +kernel, by decide +kernel, by decide +kernel, by decide +kernel, by decide +kernel, by decide +kernel⟩
  · exact ⟨by decide +kernel, ⟨by decide +kernel, by decide +kernel⟩,
      by decide +kernel, by decide +kernel, by decide +kernel, by decide +kernel, by decide +kernel, by decide +kernel⟩
example : JsonParse.numsOk JsonParse.defaultLimit wGood.compose.respin = true := by decide +kernel
/-- … and the conclusion on it, by evaluation: parsed by the modelled parser, loaded and dumped, the text is unchanged -/
example : (match (dumps { compose := wCompose, cells := [(L "Server", [(L "x86_64", [(0, wC)])])] }).2 with
    | .ok t => reloadDumps (JsonParse.parseWith JsonParse.defaultLimit) t == .ok t
    | .error _ => false) = true := by decide +kernel

end PM
