import ProductMD.Proofs.Builders
import ProductMD.Model.ManifestIO
/-!
# C12 — manifest builders file each entry exactly where the arguments say

Model: `Model/Builders.lean` (`Rpms.add`, `Modules.add`, `ExtraFiles.add` as `State → Args → State × Out`, each the
interpretation of the method's statement list as generated from the source, `Gen.*_add_script`; `relativeTo`).
`Rpms.add_eq` / `Modules.add_eq` / `ExtraFiles.add_eq` (Proofs/Builders.lean, resting on the obligation `C12_scripts`)
turn the interpreted list into "the documented refusals `rpmsCheck` / `modulesCheck` / `extraCheck`, then the insertion".  The state is the public mapping as a `PyVal`; theorems quantify over ANY state (also an ill-shaped
one that was loaded), any arguments, any history.

For each builder:
* `_refusal`      a call that raises returns the identical mapping (all raises come before the first `setdefault`;
                  the chain of `setdefault`s followed by the leaf update cannot fail half-way);
* `_refuses`      each listed precondition makes the call raise `ValueError` (`TypeError` for non-dict checksums);
* `_error_class`  on a mapping built by the builder itself nothing else can be raised;
* `_frame`        after ANY call every lookup path that leaves the addressed entry reads what it read before;
* `_content`      after an accepted call the addressed entry holds exactly the documented record;
* `_plan`         where the entry is filed: canonical N-E:V-R.A of the source package / canonical module UID.
-/
namespace PM.Mf
open PM

theorem getPath_append : ∀ (ks q : List Str) (v : PyVal),
    getPath v (ks ++ q) = (getPath v ks).bind (fun c => getPath c q) := by
  intro ks
  induction ks with
  | nil => intro q v; simp [getPath_nil]
  | cons k ks ih =>
    intro q v
    by_cases hv : ∃ kvs, v = .dict kvs
    · obtain ⟨kvs, rfl⟩ := hv
      rw [List.cons_append, getPath_dict_cons, getPath_dict_cons]
      cases lookup kvs k with
      | none => rfl
      | some c => simp [ih]
    · cases v <;> first | rfl | exact absurd ⟨_, rfl⟩ hv

/-! ## Rpms.add -/

theorem pyIntDigits_error_class (t : Str) (e : Err) (h : pyIntDigits t = .error e) : e = .valueError := by
  unfold pyIntDigits at h
  repeat' split at h
  all_goals first | (cases h; rfl) | cases h

/-- obligation on the generated group table: `groupdict()` has the key `epoch` -/
theorem nvra_has_epoch_group : (Gen.re_common_RPM_NVRA_RE_groups.lookup "epoch").isNone = false := by decide

theorem parseNvra_error_class (n : Str) (e : Err) (h : parseNvra n = .error e) : e = .valueError := by
  unfold parseNvra at h
  split at h
  · cases h; rfl
  · rename_i caps _
    unfold nvraOfCaps at h
    simp only [nvra_has_epoch_group, Bool.false_eq_true, ↓reduceIte] at h
    split at h
    · simp [Except.map] at h
    · simp [Except.map] at h
    · rename_i d _ _
      cases hd : pyIntDigits d with
      | error e' =>
        rw [hd] at h
        simp only [Except.map] at h
        cases h
        exact pyIntDigits_error_class d e hd
      | ok v => rw [hd] at h; simp [Except.map] at h

theorem checkNevra_error_class (n : Str) (e : Err) (h : checkNevra n = .error e) : e = .valueError := by
  unfold checkNevra at h
  split at h
  · cases h; rfl
  · split at h
    · cases h; rfl
    · rename_i e' hne hp
      cases h
      exact parseNvra_error_class n e hp
    · cases h

theorem checkNevra_ok (n c : Str) (d : Nvra) (h : checkNevra n = .ok (c, d)) :
    ':' ∈ n ∧ parseNvra n = .ok d ∧ c = canonNvra d := by
  unfold checkNevra at h
  split at h
  · cases h
  · rename_i hc
    split at h
    · cases h
    · cases h
    · rename_i d' hp
      cases h
      exact ⟨by simpa using hc, hp, rfl⟩

/-- every refusal of `Rpms.add` that does not depend on the manifest is a `ValueError` -/
theorem rpmsCheck_error_class (a : RpmsArgs) (e : Err) (h : rpmsCheck a = .error e) : e = .valueError := by
  unfold rpmsCheck at h
  split at h; · cases h; rfl
  split at h; · cases h; rfl
  split at h; · cases h; rfl
  split at h; · cases h; rfl
  split at h; · cases h; rfl
  split at h
  · rename_i e' hcn
    cases h
    exact checkNevra_error_class _ _ hcn
  rename_i nevra d hcn
  split at h; · cases h; rfl
  split at h; · cases h; rfl
  split at h; · cases h; rfl
  simp only at h
  split at h
  · rename_i e' hs
    cases h
    cases hsr : a.srpm with
    | none => rw [hsr] at hs; cases hs
    | some s =>
      rw [hsr] at hs
      simp only at hs
      split at hs
      · cases hs
      · cases hc2 : checkNevra s with
        | error e2 =>
          rw [hc2] at hs
          simp only [Except.map] at hs
          cases hs
          exact checkNevra_error_class _ _ hc2
        | ok r => rw [hc2] at hs; simp [Except.map] at hs
  · cases h

/-- what an accepted call has passed, and where it files what (the documented layout) -/
structure RpmsAccepted (a : RpmsArgs) (p : RpmsPlan) : Prop where
  arch_known : a.arch ∈ Gen.RPM_ARCHES
  arch_binary : a.arch ∉ srcArches
  category_known : a.category ∈ Gen.SUPPORTED_CATEGORIES
  path_nonempty : a.path ≠ []
  path_relative : Str.startsWith a.path ['/'] = false
  has_colon : ':' ∈ a.nevra
  parsed : ∃ d, parseNvra a.nevra = .ok d ∧ p.key = canonNvra d
            ∧ ((a.category = lit "source") ↔ archIn nevraSrcArches d.arch = true)
  source_no_srpm : a.category = lit "source" → a.srpm = none ∧ p.srpmKey = p.key
  binary_srpm : a.category ≠ lit "source" →
      ∃ s, a.srpm = some s ∧ ((s = [] ∧ p.srpmKey = p.key) ∨
                               (s ≠ [] ∧ ':' ∈ s ∧ ∃ d, parseNvra s = .ok d ∧ p.srpmKey = canonNvra d))
  record : p.record = rpmRecord (a.sigkey.map Str.lowerAscii) a.path a.category

theorem C12_rpms_plan (a : RpmsArgs) (p : RpmsPlan) (h : rpmsCheck a = .ok p) : RpmsAccepted a p := by
  unfold rpmsCheck at h
  split at h; · cases h
  rename_i h1
  split at h; · cases h
  rename_i h2
  split at h; · cases h
  rename_i h3
  split at h; · cases h
  rename_i h3e
  split at h; · cases h
  rename_i h4
  split at h; · cases h
  rename_i nevra d hcn
  obtain ⟨hcolon, hparse, hcanon⟩ := checkNevra_ok _ _ _ hcn
  split at h; · cases h
  rename_i h5
  split at h; · cases h
  rename_i h6
  split at h; · cases h
  rename_i h7
  simp only at h
  split at h; · cases h
  rename_i sk hs
  cases h
  have h5' : ¬ (a.category = lit "source" ∧ a.srpm.isSome = true) := by simpa using h5
  have h6' : ¬ (a.category ≠ lit "source" ∧ a.srpm.isNone = true) := by simpa using h6
  have h7' : (a.category == lit "source") = archIn nevraSrcArches d.arch := by simpa using h7
  refine ⟨by simpa using h1, by simpa using h2, by simpa using h3, by simpa using h3e, by simpa using h4, hcolon,
    ⟨d, hparse, hcanon, ?_⟩, ?_, ?_, rfl⟩
  · constructor
    · intro hc
      have : (a.category == lit "source") = true := by simpa using hc
      rw [this] at h7'
      simpa using h7'.symm
    · intro hc
      rw [hc] at h7'
      simpa using h7'
  · intro hc
    have hnone : a.srpm = none := by
      cases hsr : a.srpm with
      | none => rfl
      | some s => exact absurd ⟨hc, by simp [hsr]⟩ h5'
    refine ⟨hnone, ?_⟩
    rw [hnone] at hs
    simpa using hs.symm
  · intro hc
    cases hsr : a.srpm with
    | none => exact absurd ⟨hc, by simp [hsr]⟩ h6'
    | some s =>
      refine ⟨s, rfl, ?_⟩
      rw [hsr] at hs
      simp only at hs
      split at hs
      · rename_i hse
        left
        exact ⟨by simpa using hse, by simpa using hs.symm⟩
      · rename_i hse
        right
        cases hc2 : checkNevra s with
        | error e' => rw [hc2] at hs; simp [Except.map] at hs
        | ok r =>
          obtain ⟨c2, d2⟩ := r
          rw [hc2] at hs
          simp only [Except.map] at hs
          cases hs
          obtain ⟨hcol2, hp2, hcan2⟩ := checkNevra_ok _ _ _ hc2
          exact ⟨by simpa using hse, hcol2, d2, hp2, hcan2⟩

/-- each refusing precondition named by the property makes `Rpms.add` raise `ValueError` and return the same
mapping: unknown arch, source arch, unknown category, EMPTY path (F30, repaired), absolute path, missing epoch
(no `:`), unparsable name, category disagreeing with the RPM's own arch -/
theorem C12_rpms_refuses (s : PyVal) (a : RpmsArgs)
    (h : a.arch ∉ Gen.RPM_ARCHES ∨ a.arch ∈ srcArches ∨ a.category ∉ Gen.SUPPORTED_CATEGORIES
       ∨ a.path = [] ∨ Str.startsWith a.path ['/'] = true ∨ ':' ∉ a.nevra ∨ (∃ e, parseNvra a.nevra = .error e)
       ∨ (∃ d, parseNvra a.nevra = .ok d ∧ ¬ ((a.category = lit "source") ↔ archIn nevraSrcArches d.arch = true))) :
    Rpms.add s a = (s, .error .valueError) := by
  rw [Rpms.add_eq]
  cases hc : rpmsCheck a with
  | error e => rw [rpmsCheck_error_class a e hc]
  | ok p =>
    exfalso
    have acc := C12_rpms_plan a p hc
    obtain ⟨d, hd, _, hiff⟩ := acc.parsed
    rcases h with h | h | h | h | h | h | h | h
    · exact h acc.arch_known
    · exact acc.arch_binary h
    · exact h acc.category_known
    · exact acc.path_nonempty h
    · rw [acc.path_relative] at h; cases h
    · exact h acc.has_colon
    · obtain ⟨e, he⟩ := h; rw [hd] at he; cases he
    · obtain ⟨d', hd', hn⟩ := h
      rw [hd] at hd'
      cases hd'
      exact hn hiff

theorem rpmsLeaf_atomic (k : Str) (r x : PyVal) (e : Err) (h : (rpmsLeaf k r x).2 = .error e) :
    (rpmsLeaf k r x).1 = x := by
  cases x <;> simp_all [rpmsLeaf]

/-- **Refusal leaves the manifest untouched** — for every mapping (even an ill-shaped one that was loaded) and all
arguments: whatever `Rpms.add` raises, the mapping afterwards is the mapping before. -/
theorem C12_rpms_refusal (s : PyVal) (a : RpmsArgs) (e : Err) (h : (Rpms.add s a).2 = .error e) :
    (Rpms.add s a).1 = s := by
  rw [Rpms.add_eq] at h ⊢
  cases hc : rpmsCheck a with
  | error e' => rfl
  | ok p =>
    rw [hc] at h
    simp only at h ⊢
    exact setPathS_atomic _ (fun _ => True) (fun x e _ h => rpmsLeaf_atomic _ _ x e h) rfl _ s e (fun _ _ => trivial) h

/-- paths inside the source package's table that address another RPM -/
def OtherKey (key : Str) (q : List Str) : Prop := ∃ n rest, q = n :: rest ∧ n ≠ key

theorem rpmsLeaf_frame (key : Str) (r x : PyVal) (q : List Str) (h : OtherKey key q) :
    getPath (rpmsLeaf key r x).1 q = getPath x q := by
  obtain ⟨n, rest, rfl, hn⟩ := h
  cases x <;> try rfl
  rename_i kvs
  simp only [rpmsLeaf]
  rw [getPath_dict_cons, getPath_dict_cons, lookup_put_other _ _ _ _ hn]

/-- **Frame** — after any call (accepted or not), every lookup path that leaves
`[variant][arch][srpm key]` at some key, or that goes through it to another RPM's record, reads the same value
as before. -/
theorem C12_rpms_frame (s : PyVal) (a : RpmsArgs) (p : RpmsPlan) (hc : rpmsCheck a = .ok p) (path : List Str)
    (h : Off (OtherKey p.key) path [a.variant, a.arch, p.srpmKey]) :
    getPath (Rpms.add s a).1 path = getPath s path := by
  rw [Rpms.add_eq]
  rw [hc]
  exact setPathS_frame _ (OtherKey p.key) (by rintro ⟨n, rest, h, _⟩; cases h)
    (fun x q hq => rpmsLeaf_frame _ _ x q hq) _ s path h

/-- the frame in the words of the property: any other `[variant][arch][srpm][nevra]` address, and everything
below it, is untouched -/
theorem C12_rpms_frame_pointwise (s : PyVal) (a : RpmsArgs) (p : RpmsPlan) (hc : rpmsCheck a = .ok p)
    (v' a' k' n' : Str) (rest : List Str)
    (hne : ¬ (v' = a.variant ∧ a' = a.arch ∧ k' = p.srpmKey ∧ n' = p.key)) :
    getPath (Rpms.add s a).1 (v' :: a' :: k' :: n' :: rest) = getPath s (v' :: a' :: k' :: n' :: rest) := by
  apply C12_rpms_frame s a p hc
  simp only [Off, OtherKey]
  by_cases h1 : v' = a.variant
  · by_cases h2 : a' = a.arch
    · by_cases h3 : k' = p.srpmKey
      · right; right; right
        exact ⟨n', rest, rfl, fun h4 => hne ⟨h1, h2, h3, h4⟩⟩
      · right; right; left; exact h3
    · right; left; exact h2
  · left; exact h1

/-- whole tables of other variants / arches / source packages are untouched -/
theorem C12_rpms_frame_variant (s : PyVal) (a : RpmsArgs) (p : RpmsPlan) (hc : rpmsCheck a = .ok p)
    (v' : Str) (rest : List Str) (hne : v' ≠ a.variant) :
    getPath (Rpms.add s a).1 (v' :: rest) = getPath s (v' :: rest) := by
  apply C12_rpms_frame s a p hc
  simp only [Off]
  left; exact hne

theorem C12_rpms_frame_arch (s : PyVal) (a : RpmsArgs) (p : RpmsPlan) (hc : rpmsCheck a = .ok p)
    (a' : Str) (rest : List Str) (hne : a' ≠ a.arch) :
    getPath (Rpms.add s a).1 (a.variant :: a' :: rest) = getPath s (a.variant :: a' :: rest) := by
  apply C12_rpms_frame s a p hc
  simp only [Off]
  right; left; exact hne

/-- **Content** — after an accepted call the record `{sigkey, path, category}` (see `C12_rpms_plan`: lower-cased
key, the given path and category) is what `[variant][arch][srpm key][rpm key]` holds -/
theorem C12_rpms_content (s : PyVal) (a : RpmsArgs) (p : RpmsPlan) (hc : rpmsCheck a = .ok p)
    (hok : (Rpms.add s a).2 = .ok ()) :
    getPath (Rpms.add s a).1 [a.variant, a.arch, p.srpmKey, p.key] = some p.record := by
  rw [Rpms.add_eq] at hok ⊢
  rw [hc] at hok ⊢
  simp only at hok ⊢
  cases hl : leafArg [a.variant, a.arch, p.srpmKey] s with
  | none => rw [setPathS_noleaf _ _ _ hl] at hok; cases hok
  | some x =>
    obtain ⟨h1, h2⟩ := setPathS_leaf (rpmsLeaf p.key p.record) _ s x hl
    rw [h2] at hok
    have : [a.variant, a.arch, p.srpmKey, p.key] = [a.variant, a.arch, p.srpmKey] ++ [p.key] := rfl
    rw [this, getPath_append, h1]
    simp only [Option.bind_some]
    cases x <;> simp [rpmsLeaf] at hok
    rename_i kvs
    simp only [rpmsLeaf]
    rw [getPath_dict_cons, lookup_put_same]
    simp [getPath_nil]

/-! ## Modules.add -/

theorem checkUid_error_class (u : PyVal) (e : Err) (h : checkUid u = .error e) : e = .valueError := by
  unfold checkUid at h
  repeat' split at h
  all_goals first | (cases h; rfl) | cases h

theorem modulesCheck_error_class (a : ModulesArgs) (e : Err) (h : modulesCheck a = .error e) : e = .valueError := by
  unfold modulesCheck at h
  split at h; · cases h; rfl
  split at h; · cases h; rfl
  split at h; · cases h; rfl
  split at h
  · rename_i e' hcu
    cases h
    exact checkUid_error_class _ _ hcu
  split at h; · cases h; rfl
  split at h; · cases h; rfl
  split at h; · cases h; rfl
  split at h
  · cases h; rfl
  all_goals cases h

structure ModulesAccepted (a : ModulesArgs) (p : ModulesPlan) : Prop where
  variant_nonempty : a.variant ≠ []
  arch_known : a.arch ∈ Gen.RPM_ARCHES
  category_known : a.category ∈ Gen.SUPPORTED_CATEGORIES
  uid : ∃ s u, a.uid = .str s ∧ ':' ∈ s ∧ parseUid (.str s) = .ok u ∧ p.uid = u.canonical
          ∧ p.metadata = moduleMetadata u.canonical u a.kojiTag
  path_relative : Str.startsWith a.modulemdPath ['/'] = false
  path_nonempty : a.modulemdPath ≠ []
  koji_nonempty : a.kojiTag ≠ []
  rpms : a.rpms = .list p.rpms ∨ a.rpms = .tuple p.rpms
  category : p.category = a.category
  path : p.path = a.modulemdPath

theorem C12_modules_plan (a : ModulesArgs) (p : ModulesPlan) (h : modulesCheck a = .ok p) : ModulesAccepted a p := by
  unfold modulesCheck at h
  split at h; · cases h
  rename_i h1
  split at h; · cases h
  rename_i h2
  split at h; · cases h
  rename_i h3
  split at h; · cases h
  rename_i uid u hcu
  split at h; · cases h
  rename_i h4
  split at h; · cases h
  rename_i h5
  split at h; · cases h
  rename_i h6
  have huid : ∃ s u', a.uid = .str s ∧ ':' ∈ s ∧ parseUid (.str s) = .ok u' ∧ uid = u'.canonical ∧ u = u' := by
    cases hu : a.uid with
    | str s =>
      rw [hu] at hcu
      simp only [checkUid] at hcu
      split at hcu
      · cases hcu
      · rename_i hcol
        split at hcu
        · cases hcu
        · rename_i u' hp
          cases hcu
          exact ⟨s, u, rfl, by simpa using hcol, hp, rfl, rfl⟩
    | _ => rw [hu] at hcu; simp [checkUid] at hcu
  obtain ⟨s, u', hs, hcol, hp, hcan, rfl⟩ := huid
  split at h
  · cases h
  all_goals
    cases h
    refine ⟨by simpa using h1, by simpa using h2, by simpa using h3, ⟨s, u, hs, hcol, hp, hcan, by rw [hcan]⟩,
      by simpa using h6, by simpa using h5, by simpa using h4, ?_, rfl, rfl⟩
    simp_all

/-- each refusing precondition makes `Modules.add` raise `ValueError` and return the same mapping: empty variant,
unknown arch or category, a UID that is not a string / has no `:` / does not parse, absolute or empty
modulemd path, empty koji tag, `rpms` neither list nor tuple -/
theorem C12_modules_refuses (s : PyVal) (a : ModulesArgs)
    (h : a.variant = [] ∨ a.arch ∉ Gen.RPM_ARCHES ∨ a.category ∉ Gen.SUPPORTED_CATEGORIES
       ∨ (∀ t, a.uid ≠ .str t) ∨ (∃ t, a.uid = .str t ∧ ':' ∉ t) ∨ (∃ e, parseUid a.uid = .error e)
       ∨ Str.startsWith a.modulemdPath ['/'] = true ∨ a.modulemdPath = [] ∨ a.kojiTag = [] ∨ a.rpms = .other) :
    Modules.add s a = (s, .error .valueError) := by
  rw [Modules.add_eq]
  cases hc : modulesCheck a with
  | error e => rw [modulesCheck_error_class a e hc]
  | ok p =>
    exfalso
    have acc := C12_modules_plan a p hc
    obtain ⟨t, u, ht, hcol, hp, _, _⟩ := acc.uid
    rcases h with h | h | h | h | h | h | h | h | h | h
    · exact acc.variant_nonempty h
    · exact h acc.arch_known
    · exact h acc.category_known
    · exact h t ht
    · obtain ⟨t', ht', hn⟩ := h
      rw [ht] at ht'; cases ht'
      exact hn hcol
    · obtain ⟨e, he⟩ := h
      rw [ht, hp] at he; cases he
    · rw [acc.path_relative] at h; cases h
    · exact acc.path_nonempty h
    · exact acc.koji_nonempty h
    · rcases acc.rpms with h' | h' <;> rw [h] at h' <;> cases h'

/-- an entry as `Modules.add` itself builds it: a dict whose `modulemd_path`, if present, is a dict and whose `rpms`,
if present, is a list -/
def EntryOK (x : PyVal) : Prop :=
  ∃ e, x = .dict e ∧ (∀ y, lookup e (lit "modulemd_path") = some y → ∃ mp, y = .dict mp)
               ∧ (∀ y, lookup e (lit "rpms") = some y → ∃ l, y = .list l)

theorem lit_ne_1 : lit "modulemd_path" ≠ lit "metadata" := by decide
theorem lit_ne_2 : lit "rpms" ≠ lit "metadata" := by decide
theorem lit_ne_3 : lit "rpms" ≠ lit "modulemd_path" := by decide
theorem lit_ne_4 : lit "metadata" ≠ lit "modulemd_path" := by decide
theorem lit_ne_5 : lit "metadata" ≠ lit "rpms" := by decide
theorem lit_ne_6 : lit "modulemd_path" ≠ lit "rpms" := by decide

/-- the entry after an accepted call, in terms of the entry before -/
theorem modulesLeaf_ok (p : ModulesPlan) (x : PyVal) (hx : EntryOK x) :
    ∃ e mp l, x = .dict e
      ∧ (lookup e (lit "modulemd_path")).getD (.dict []) = .dict mp
      ∧ (lookup e (lit "rpms")).getD (.list []) = .list l
      ∧ modulesLeaf p x =
          (.dict (put (put (put e (lit "metadata") p.metadata) (lit "modulemd_path") (.dict (put mp p.category (.str p.path))))
                    (lit "rpms") (.list (l ++ p.rpms))), .ok ()) := by
  obtain ⟨e, rfl, h1, h2⟩ := hx
  have hmp : ∃ mp, (lookup e (lit "modulemd_path")).getD (.dict []) = .dict mp := by
    cases hl : lookup e (lit "modulemd_path") with
    | none => exact ⟨[], rfl⟩
    | some y => obtain ⟨mp, rfl⟩ := h1 y hl; exact ⟨mp, rfl⟩
  have hl : ∃ l, (lookup e (lit "rpms")).getD (.list []) = .list l := by
    cases hl : lookup e (lit "rpms") with
    | none => exact ⟨[], rfl⟩
    | some y => obtain ⟨l, rfl⟩ := h2 y hl; exact ⟨l, rfl⟩
  obtain ⟨mp, hmp⟩ := hmp
  obtain ⟨l, hl⟩ := hl
  refine ⟨e, mp, l, rfl, hmp, hl, ?_⟩
  simp only [modulesLeaf]
  rw [lookup_put_other _ _ _ _ lit_ne_1, hmp]
  simp only
  rw [lookup_put_other _ _ _ _ lit_ne_3, lookup_put_other _ _ _ _ lit_ne_2, hl]

theorem modulesLeaf_atomic (p : ModulesPlan) (x : PyVal) (e : Err) (hx : EntryOK x ∨ ∀ kvs, x ≠ .dict kvs)
    (h : (modulesLeaf p x).2 = .error e) : (modulesLeaf p x).1 = x := by
  rcases hx with hx | hx
  · obtain ⟨_, _, _, _, _, _, heq⟩ := modulesLeaf_ok p x hx
    rw [heq] at h; cases h
  · cases x <;> first | rfl | exact absurd rfl (hx _)

/-- **Refusal leaves the manifest untouched** — on every mapping whose addressed entry (if there is one) has the
shape `Modules.add` itself produces; `C12_modules_reachable` shows that every mapping built by `add` calls has. -/
theorem C12_modules_refusal (s : PyVal) (a : ModulesArgs) (e : Err)
    (hs : ∀ p x, modulesCheck a = .ok p → getPath s [a.variant, a.arch, p.uid] = some x → EntryOK x ∨ ∀ kvs, x ≠ .dict kvs)
    (h : (Modules.add s a).2 = .error e) : (Modules.add s a).1 = s := by
  rw [Modules.add_eq] at h ⊢
  cases hc : modulesCheck a with
  | error e' => rfl
  | ok p =>
    rw [hc] at h
    simp only at h ⊢
    refine setPathS_atomic (modulesLeaf p) (fun x => EntryOK x ∨ ∀ kvs, x ≠ .dict kvs)
      (fun x e hx h => modulesLeaf_atomic p x e hx h) ?_ _ s e ?_ h
    · obtain ⟨_, _, _, _, _, _, heq⟩ :=
        modulesLeaf_ok p (.dict []) ⟨[], rfl, by simp [lookup], by simp [lookup]⟩
      rw [heq]
    · intro x hx
      have := leafArg_eq _ s x hx
      cases hg : getPath s [a.variant, a.arch, p.uid] with
      | some y => rw [hg] at this; simp only [Option.getD_some] at this; rw [this]; exact hs p y hc hg
      | none =>
        rw [hg] at this; simp only [Option.getD_none] at this; rw [this]
        left
        exact ⟨[], rfl, by simp [lookup], by simp [lookup]⟩

/-- **Frame** — after any call, every lookup path that leaves `[variant][arch][uid]` reads the same value -/
theorem C12_modules_frame (s : PyVal) (a : ModulesArgs) (p : ModulesPlan) (hc : modulesCheck a = .ok p)
    (path : List Str) (h : Off (fun _ => False) path [a.variant, a.arch, p.uid]) :
    getPath (Modules.add s a).1 path = getPath s path := by
  rw [Modules.add_eq]
  rw [hc]
  exact setPathS_frame _ (fun _ => False) (fun h => h) (fun _ _ hq => absurd hq (fun h => h)) _ s path h

theorem C12_modules_frame_pointwise (s : PyVal) (a : ModulesArgs) (p : ModulesPlan) (hc : modulesCheck a = .ok p)
    (v' a' u' : Str) (rest : List Str) (hne : ¬ (v' = a.variant ∧ a' = a.arch ∧ u' = p.uid)) :
    getPath (Modules.add s a).1 (v' :: a' :: u' :: rest) = getPath s (v' :: a' :: u' :: rest) := by
  apply C12_modules_frame s a p hc
  simp only [Off]
  by_cases h1 : v' = a.variant
  · by_cases h2 : a' = a.arch
    · right; right; left
      exact fun h3 => hne ⟨h1, h2, h3⟩
    · right; left; exact h2
  · left; exact h1

/-- **Content** — after an accepted call on a well-shaped entry, `[variant][arch][uid]` holds: the metadata record
(overwritten), the category's modulemd path (other categories kept), the RPM list extended by the elements of
the argument (list or tuple alike, stored as list elements) -/
theorem C12_modules_content (s : PyVal) (a : ModulesArgs) (p : ModulesPlan) (hc : modulesCheck a = .ok p)
    (hs : ∀ x, getPath s [a.variant, a.arch, p.uid] = some x → EntryOK x)
    (hnav : leafArg [a.variant, a.arch, p.uid] s ≠ none) :
    ∃ e mp l,
      (getPath s [a.variant, a.arch, p.uid]).getD (.dict []) = .dict e
      ∧ (lookup e (lit "modulemd_path")).getD (.dict []) = .dict mp
      ∧ (lookup e (lit "rpms")).getD (.list []) = .list l
      ∧ (Modules.add s a).2 = .ok ()
      ∧ getPath (Modules.add s a).1 [a.variant, a.arch, p.uid, lit "metadata"] = some p.metadata
      ∧ getPath (Modules.add s a).1 [a.variant, a.arch, p.uid, lit "modulemd_path", p.category] = some (.str p.path)
      ∧ (∀ c', c' ≠ p.category →
          getPath (Modules.add s a).1 [a.variant, a.arch, p.uid, lit "modulemd_path", c'] = lookup mp c')
      ∧ getPath (Modules.add s a).1 [a.variant, a.arch, p.uid, lit "rpms"] = some (.list (l ++ p.rpms)) := by
  rw [Modules.add_eq]
  rw [hc]
  simp only
  cases hl : leafArg [a.variant, a.arch, p.uid] s with
  | none => exact absurd hl hnav
  | some x =>
    have hx := leafArg_eq _ s x hl
    have hxok : EntryOK x := by
      cases hg : getPath s [a.variant, a.arch, p.uid] with
      | some y => rw [hg] at hx; simp only [Option.getD_some] at hx; rw [hx]; exact hs y hg
      | none =>
        rw [hg] at hx; simp only [Option.getD_none] at hx; rw [hx]
        exact ⟨[], rfl, by simp [lookup], by simp [lookup]⟩
    obtain ⟨e, mp, l, hxe, hmp, hll, heq⟩ := modulesLeaf_ok p x hxok
    obtain ⟨h1, h2⟩ := setPathS_leaf (modulesLeaf p) _ s x hl
    rw [heq] at h1 h2
    refine ⟨e, mp, l, by rw [← hx, hxe], hmp, hll, h2, ?_, ?_, ?_, ?_⟩
    · have : [a.variant, a.arch, p.uid, lit "metadata"] = [a.variant, a.arch, p.uid] ++ [lit "metadata"] := rfl
      rw [this, getPath_append, h1]
      simp only [Option.bind_some]
      rw [getPath_dict_cons, lookup_put_other _ _ _ _ lit_ne_5, lookup_put_other _ _ _ _ lit_ne_4, lookup_put_same]
      simp [getPath_nil]
    · have : [a.variant, a.arch, p.uid, lit "modulemd_path", p.category]
          = [a.variant, a.arch, p.uid] ++ [lit "modulemd_path", p.category] := rfl
      rw [this, getPath_append, h1]
      simp only [Option.bind_some]
      rw [getPath_dict_cons, lookup_put_other _ _ _ _ lit_ne_6, lookup_put_same]
      simp only [Option.bind_some]
      rw [getPath_dict_cons, lookup_put_same]
      simp [getPath_nil]
    · intro c' hc'
      have : [a.variant, a.arch, p.uid, lit "modulemd_path", c']
          = [a.variant, a.arch, p.uid] ++ [lit "modulemd_path", c'] := rfl
      rw [this, getPath_append, h1]
      simp only [Option.bind_some]
      rw [getPath_dict_cons, lookup_put_other _ _ _ _ lit_ne_6, lookup_put_same]
      simp only [Option.bind_some]
      rw [getPath_dict_cons, lookup_put_other _ _ _ _ hc']
      cases lookup mp c' <;> simp [getPath_nil]
    · have : [a.variant, a.arch, p.uid, lit "rpms"] = [a.variant, a.arch, p.uid] ++ [lit "rpms"] := rfl
      rw [this, getPath_append, h1]
      simp only [Option.bind_some]
      rw [getPath_dict_cons, lookup_put_same]
      simp [getPath_nil]

/-! ## ExtraFiles.add -/

theorem extraCheck_error_class (a : ExtraArgs) (e : Err) (h : extraCheck a = .error e) :
    e = .valueError ∨ e = .typeError := by
  unfold extraCheck at h
  repeat' split at h
  all_goals first | (cases h; simp) | cases h

theorem C12_extra_plan (a : ExtraArgs) (r : PyVal) (h : extraCheck a = .ok r) :
    a.variant ≠ [] ∧ a.arch ∈ Gen.RPM_ARCHES ∧ a.path ≠ [] ∧ Str.startsWith a.path ['/'] = false
      ∧ a.checksums.isinstance .dict = true ∧ r = extraRecord a := by
  unfold extraCheck at h
  split at h; · cases h
  rename_i h1
  split at h; · cases h
  rename_i h2
  split at h; · cases h
  rename_i h3
  split at h; · cases h
  rename_i h4
  split at h; · cases h
  rename_i h5
  cases h
  exact ⟨by simpa using h1, by simpa using h2, by simpa using h3, by simpa using h4, by simpa using h5, rfl⟩

/-- each refusing precondition makes `ExtraFiles.add` raise (`ValueError`; `TypeError` for checksums that are not
a dict) and return the same mapping -/
theorem C12_extra_refuses (s : PyVal) (a : ExtraArgs)
    (h : a.variant = [] ∨ a.arch ∉ Gen.RPM_ARCHES ∨ a.path = [] ∨ Str.startsWith a.path ['/'] = true
       ∨ a.checksums.isinstance .dict = false) :
    ∃ e, (e = .valueError ∨ e = .typeError) ∧ ExtraFiles.add s a = (s, .error e) := by
  rw [ExtraFiles.add_eq]
  cases hc : extraCheck a with
  | error e => exact ⟨e, extraCheck_error_class a e hc, rfl⟩
  | ok r =>
    exfalso
    obtain ⟨h1, h2, h3, h4, h5, _⟩ := C12_extra_plan a r hc
    rcases h with h | h | h | h | h
    · exact h1 h
    · exact h h2
    · exact h3 h
    · rw [h4] at h; cases h
    · rw [h5] at h; cases h

theorem extraLeaf_atomic (arch : Str) (r x : PyVal) (e : Err) (h : (extraLeaf arch r x).2 = .error e) :
    (extraLeaf arch r x).1 = x := by
  cases x <;> try rfl
  rename_i am
  cases hm : (lookup am arch).getD (.list []) <;> simp_all [extraLeaf]

/-- **Refusal leaves the manifest untouched** — every mapping, all arguments -/
theorem C12_extra_refusal (s : PyVal) (a : ExtraArgs) (e : Err) (h : (ExtraFiles.add s a).2 = .error e) :
    (ExtraFiles.add s a).1 = s := by
  rw [ExtraFiles.add_eq] at h ⊢
  cases hc : extraCheck a with
  | error e' => rfl
  | ok r =>
    rw [hc] at h
    simp only at h ⊢
    exact setPathS_atomic _ (fun _ => True) (fun x e _ h => extraLeaf_atomic _ _ x e h)
      (by simp [extraLeaf, lookup]) _ s e (fun _ _ => trivial) h

theorem extraLeaf_frame (arch : Str) (r x : PyVal) (q : List Str) (h : OtherKey arch q) :
    getPath (extraLeaf arch r x).1 q = getPath x q := by
  obtain ⟨n, rest, rfl, hn⟩ := h
  cases x <;> try rfl
  rename_i am
  simp only [extraLeaf]
  split
  · rw [getPath_dict_cons, getPath_dict_cons, lookup_put_other _ _ _ _ hn]
  · rfl

/-- **Frame** — after any call only `[variant][arch]` can read differently -/
theorem C12_extra_frame (s : PyVal) (a : ExtraArgs) (r : PyVal) (hc : extraCheck a = .ok r) (path : List Str)
    (h : Off (OtherKey a.arch) path [a.variant]) :
    getPath (ExtraFiles.add s a).1 path = getPath s path := by
  rw [ExtraFiles.add_eq]
  rw [hc]
  exact setPathS_frame _ (OtherKey a.arch) (by rintro ⟨n, rest, h, _⟩; cases h)
    (fun x q hq => extraLeaf_frame _ _ x q hq) _ s path h

theorem C12_extra_frame_pointwise (s : PyVal) (a : ExtraArgs) (r : PyVal) (hc : extraCheck a = .ok r)
    (v' a' : Str) (rest : List Str) (hne : ¬ (v' = a.variant ∧ a' = a.arch)) :
    getPath (ExtraFiles.add s a).1 (v' :: a' :: rest) = getPath s (v' :: a' :: rest) := by
  apply C12_extra_frame s a r hc
  simp only [Off, OtherKey]
  by_cases h1 : v' = a.variant
  · right
    exact ⟨a', rest, rfl, fun h2 => hne ⟨h1, h2⟩⟩
  · left; exact h1

/-- **Content** — after an accepted call the list under `[variant][arch]` is the old list (or `[]`) with the record
`{file, size, checksums}` appended -/
theorem C12_extra_content (s : PyVal) (a : ExtraArgs) (r : PyVal) (hc : extraCheck a = .ok r)
    (hok : (ExtraFiles.add s a).2 = .ok ()) :
    ∃ l, (getPath s [a.variant, a.arch]).getD (.list []) = .list l
       ∧ getPath (ExtraFiles.add s a).1 [a.variant, a.arch] = some (.list (l ++ [extraRecord a])) := by
  obtain ⟨_, _, _, _, _, hr⟩ := C12_extra_plan a r hc
  rw [ExtraFiles.add_eq] at hok ⊢
  rw [hc] at hok ⊢
  simp only at hok ⊢
  cases hl : leafArg [a.variant] s with
  | none => rw [setPathS_noleaf _ _ _ hl] at hok; cases hok
  | some x =>
    obtain ⟨h1, h2⟩ := setPathS_leaf (extraLeaf a.arch r) _ s x hl
    rw [h2] at hok
    have hx := leafArg_eq _ s x hl
    have hsplit : [a.variant, a.arch] = [a.variant] ++ [a.arch] := rfl
    rw [hsplit, getPath_append, getPath_append, h1]
    simp only [Option.bind_some]
    cases x <;> simp [extraLeaf] at hok
    rename_i am
    cases hm : (lookup am a.arch).getD (.list []) with
    | list l =>
      simp only [extraLeaf, hm]
      refine ⟨l, ?_, ?_⟩
      · cases hg : getPath s [a.variant] with
        | none =>
          rw [hg] at hx; simp only [Option.getD_none] at hx
          cases hx
          simp only [lookup, Option.getD_none] at hm
          cases hm
          rfl
        | some y =>
          rw [hg] at hx; simp only [Option.getD_some] at hx
          subst hx
          simp only [Option.bind_some]
          rw [getPath_dict_cons]
          cases hlk : lookup am a.arch with
          | none => rw [hlk] at hm; simp only [Option.getD_none] at hm; cases hm; rfl
          | some z => rw [hlk] at hm; simp only [Option.getD_some] at hm; subst hm; simp [getPath_nil]
      · rw [getPath_dict_cons, lookup_put_same]
        simp [getPath_nil, hr]
    | _ => simp [hm] at hok

/-! ## `_relative_to` -/

theorem lstrip_spec (s : Str) :
    ∃ n, s = List.replicate n '/' ++ Str.lstripChars ['/'] s ∧ (Str.lstripChars ['/'] s).head? ≠ some '/' := by
  induction s with
  | nil => exact ⟨0, rfl, by simp [Str.lstripChars]⟩
  | cons c cs ih =>
    by_cases hc : c = '/'
    · subst hc
      obtain ⟨n, h1, h2⟩ := ih
      refine ⟨n + 1, ?_, ?_⟩
      · simp only [Str.lstripChars, List.contains_cons, beq_self_eq_true, Bool.true_or, ↓reduceIte, List.replicate_succ,
          List.cons_append]
        rw [← h1]
      · simpa [Str.lstripChars] using h2
    · refine ⟨0, ?_, ?_⟩
      · simp [Str.lstripChars, hc]
      · simp [Str.lstripChars, hc]

/-- `root.rstrip("/")`: the root without its trailing slashes -/
theorem rstrip_spec (b : Str) :
    ∃ n, b = Str.rstripChars ['/'] b ++ List.replicate n '/' ∧ (Str.rstripChars ['/'] b).getLast? ≠ some '/' := by
  obtain ⟨n, h1, h2⟩ := lstrip_spec b.reverse
  refine ⟨n, ?_, ?_⟩
  · have := congrArg List.reverse h1
    simpa [Str.rstripChars] using this
  · simpa [Str.rstripChars, List.getLast?_reverse] using h2

/-- **`_relative_to` strips the root only on a path-component boundary** (complete characterisation): with
`b' = root` minus its trailing slashes, the result is `rest` when `path = b' ++ "/" ++ rest`, and `path` itself
in every other case -/
theorem C12_relative (path root : Str) :
    (∃ rest, path = Str.rstripChars ['/'] root ++ '/' :: rest ∧ relativeTo path root = rest)
    ∨ ((¬ ∃ rest, path = Str.rstripChars ['/'] root ++ '/' :: rest) ∧ relativeTo path root = path) := by
  unfold relativeTo rootDir
  by_cases h : Str.startsWith path (Str.rstripChars ['/'] root ++ ['/']) = true
  · left
    simp only [Str.startsWith] at h
    rw [List.isPrefixOf_iff_prefix] at h
    obtain ⟨rest, hrest⟩ := h
    refine ⟨rest, by simpa using hrest.symm, ?_⟩
    simp only [Str.startsWith, List.isPrefixOf_iff_prefix.mpr ⟨rest, hrest⟩, ↓reduceIte]
    rw [← hrest]
    simp
  · right
    refine ⟨?_, by simp [h]⟩
    rintro ⟨rest, hrest⟩
    apply h
    simp only [Str.startsWith]
    rw [List.isPrefixOf_iff_prefix]
    exact ⟨rest, by simpa using hrest.symm⟩

/-- a root that prefixes the path only textually (the next character is not `/`) is not stripped -/
theorem C12_relative_textual_prefix (root rest : Str) (c : Char) (hc : c ≠ '/') :
    relativeTo (Str.rstripChars ['/'] root ++ c :: rest) root = Str.rstripChars ['/'] root ++ c :: rest := by
  rcases C12_relative (Str.rstripChars ['/'] root ++ c :: rest) root with ⟨r, h, _⟩ | ⟨_, h⟩
  · have := List.append_cancel_left h
    simp only [List.cons.injEq] at this
    exact absurd this.1 hc
  · exact h

/-- any number of trailing slashes on the root makes no difference -/
theorem C12_relative_trailing_slashes (path root : Str) (n : Nat) (h : (root.getLast? ≠ some '/')) :
    relativeTo path (root ++ List.replicate n '/') = relativeTo path root := by
  have key : ∀ (r : Str) (m : Nat), r.getLast? ≠ some '/' → Str.rstripChars ['/'] (r ++ List.replicate m '/') = r := by
    intro r m hr
    simp only [Str.rstripChars, List.reverse_append, List.reverse_replicate]
    have : ∀ (m : Nat) (t : Str), t.head? ≠ some '/' → Str.lstripChars ['/'] (List.replicate m '/' ++ t) = t := by
      intro m
      induction m with
      | zero =>
        intro t ht
        cases t with
        | nil => rfl
        | cons x xs =>
          have : x ≠ '/' := by simpa using ht
          simp [Str.lstripChars, this]
      | succ m ih => intro t ht; simp [List.replicate_succ, Str.lstripChars, ih t ht]
    rw [this m r.reverse (by simpa [List.head?_reverse] using hr)]
    simp
  unfold relativeTo rootDir
  rw [key root n h]
  have := key root 0 h
  simp only [List.replicate_zero, List.append_nil] at this
  rw [this]

/-! ## Mappings built by the builders themselves

`shapeAt n P v`: `v` is a dict of dicts … (`n` levels) whose innermost values satisfy `P`.  Every mapping reachable
from the empty manifest by calls of one builder has the builder's shape; on such a mapping the chain of
`setdefault`s and the leaf update cannot fail, so the outcome of a call is decided by the precondition checks
alone: every raise is one of the listed refusals, of class `ValueError` / `TypeError`. -/

def allVals (P : PyVal → Bool) : PyVal → Bool
  | .dict kvs => kvs.all (fun kv => P kv.2)
  | _ => false

def shapeAt : Nat → (PyVal → Bool) → PyVal → Bool
  | 0, P => P
  | n + 1, P => allVals (shapeAt n P)

theorem all_of_lookup (P : PyVal → Bool) (kvs : Kvs) (k : Str) (c : PyVal)
    (h : kvs.all (fun kv => P kv.2) = true) (hl : lookup kvs k = some c) : P c = true := by
  induction kvs with
  | nil => simp [lookup] at hl
  | cons q rest ih =>
    obtain ⟨k1, v1⟩ := q
    simp only [List.all_cons, Bool.and_eq_true] at h
    simp only [lookup] at hl
    split at hl
    · cases hl; exact h.1
    · exact ih h.2 hl

theorem all_put (P : PyVal → Bool) (kvs : Kvs) (k : Str) (c : PyVal)
    (h : kvs.all (fun kv => P kv.2) = true) (hc : P c = true) : (put kvs k c).all (fun kv => P kv.2) = true := by
  induction kvs with
  | nil => simp [put, hc]
  | cons q rest ih =>
    obtain ⟨k1, v1⟩ := q
    simp only [List.all_cons, Bool.and_eq_true] at h
    simp only [put]
    split
    · simp [hc, h.2]
    · simp only [List.all_cons, Bool.and_eq_true]
      exact ⟨h.1, ih h.2⟩

theorem shapeAt_empty (n : Nat) (P : PyVal → Bool) (hP : P (.dict []) = true) : shapeAt n P (.dict []) = true := by
  cases n with
  | zero => exact hP
  | succ n => simp [shapeAt, allVals]

theorem setPathS_shape (f : PyVal → PyVal × Out) (P : PyVal → Bool) (hP : P (.dict []) = true)
    (hf : ∀ x, P x = true → P (f x).1 = true) :
    ∀ (ks : List Str) (v : PyVal), shapeAt ks.length P v = true → shapeAt ks.length P (setPathS f ks v).1 = true := by
  intro ks
  induction ks with
  | nil => intro v h; rw [setPathS_nil]; exact hf v h
  | cons k ks ih =>
    intro v h
    cases v <;> simp [shapeAt, allVals] at h
    rename_i kvs
    rw [setPathS_dict_cons]
    simp only [List.length_cons, shapeAt, allVals]
    apply all_put _ _ _ _ (by simpa using h)
    apply ih
    cases hl : lookup kvs k with
    | none => exact shapeAt_empty _ P hP
    | some c => exact all_of_lookup (shapeAt ks.length P) kvs k c (by simpa using h) hl

theorem shape_leaf (P : PyVal → Bool) (hP : P (.dict []) = true) :
    ∀ (ks : List Str) (v : PyVal), shapeAt ks.length P v = true → ∃ x, leafArg ks v = some x ∧ P x = true := by
  intro ks
  induction ks with
  | nil => intro v h; exact ⟨v, leafArg_nil v, h⟩
  | cons k ks ih =>
    intro v h
    cases v <;> simp [shapeAt, allVals] at h
    rename_i kvs
    rw [leafArg_dict_cons]
    apply ih
    cases hl : lookup kvs k with
    | none => exact shapeAt_empty _ P hP
    | some c => exact all_of_lookup (shapeAt ks.length P) kvs k c (by simpa using h) hl

def isDict : PyVal → Bool
  | .dict _ => true
  | _ => false

/-- a record as `ExtraFiles.add` stores it: a dict with a string under `file`, and `size` and `checksums` present -/
def isExtraRec : PyVal → Bool
  | .dict r =>
    (match lookup r (lit "file") with | some (.str _) => true | _ => false)
    && (lookup r (lit "size")).isSome && (lookup r (lit "checksums")).isSome
  | _ => false

/-- a list of such records -/
def isRecList : PyVal → Bool
  | .list l => l.all isExtraRec
  | _ => false

/-- the decidable form of `EntryOK` -/
def entryOK : PyVal → Bool
  | .dict e =>
    (match lookup e (lit "modulemd_path") with | none => true | some (.dict _) => true | _ => false)
    && (match lookup e (lit "rpms") with | none => true | some (.list _) => true | _ => false)
  | _ => false

theorem EntryOK_of_entryOK (x : PyVal) (h : entryOK x = true) : EntryOK x := by
  cases x <;> simp [entryOK] at h
  rename_i e
  refine ⟨e, rfl, ?_, ?_⟩
  · intro y hy
    rw [hy] at h
    cases y <;> simp at h
    exact ⟨_, rfl⟩
  · intro y hy
    rw [hy] at h
    cases y <;> simp at h
    exact ⟨_, rfl⟩

def RpmsShape (s : PyVal) : Prop := shapeAt 3 isDict s = true
def ModulesShape (s : PyVal) : Prop := shapeAt 3 entryOK s = true
def ExtraShape (s : PyVal) : Prop := shapeAt 1 (allVals isRecList) s = true

theorem rpms_shape_step (s : PyVal) (a : RpmsArgs) (h : RpmsShape s) : RpmsShape (Rpms.add s a).1 := by
  rw [Rpms.add_eq]
  cases hc : rpmsCheck a with
  | error e => exact h
  | ok p =>
    exact setPathS_shape _ isDict rfl (fun x hx => by cases x <;> simp [isDict] at hx; simp [rpmsLeaf, isDict])
      [a.variant, a.arch, p.srpmKey] s h

theorem modules_shape_step (s : PyVal) (a : ModulesArgs) (h : ModulesShape s) : ModulesShape (Modules.add s a).1 := by
  rw [Modules.add_eq]
  cases hc : modulesCheck a with
  | error e => exact h
  | ok p =>
    refine setPathS_shape _ entryOK (by decide) (fun x hx => ?_) [a.variant, a.arch, p.uid] s h
    obtain ⟨e, mp, l, _, _, _, heq⟩ := modulesLeaf_ok p x (EntryOK_of_entryOK x hx)
    rw [heq]
    simp only [entryOK]
    rw [lookup_put_other _ _ _ _ lit_ne_6, lookup_put_same, lookup_put_same]
    rfl

theorem extra_shape_step (s : PyVal) (a : ExtraArgs) (h : ExtraShape s) : ExtraShape (ExtraFiles.add s a).1 := by
  rw [ExtraFiles.add_eq]
  cases hc : extraCheck a with
  | error e => exact h
  | ok r =>
    refine setPathS_shape _ (allVals isRecList) rfl (fun x hx => ?_) [a.variant] s h
    cases x <;> simp [allVals] at hx
    rename_i am
    cases hm : (lookup am a.arch).getD (.list []) with
    | list l =>
      simp only [extraLeaf, hm, allVals]
      apply all_put isRecList am a.arch _ (by simpa using hx)
      have hl : l.all isExtraRec = true := by
        cases hlk : lookup am a.arch with
        | none => rw [hlk] at hm; simp only [Option.getD_none] at hm; cases hm; rfl
        | some z =>
          rw [hlk] at hm
          simp only [Option.getD_some] at hm
          have := all_of_lookup isRecList am a.arch z (by simpa using hx) hlk
          rw [hm] at this
          exact this
      have hr : isExtraRec r = true := by rw [(C12_extra_plan a r hc).2.2.2.2.2]; rfl
      simp only [isRecList, List.all_append, hl, List.all_cons, hr, List.all_nil, Bool.and_self]
    | _ =>
      exfalso
      cases hlk : lookup am a.arch with
      | none => rw [hlk] at hm; cases hm
      | some z =>
        rw [hlk] at hm
        simp only [Option.getD_some] at hm
        have := all_of_lookup isRecList am a.arch z (by simpa using hx) hlk
        rw [hm] at this
        cases this

theorem C12_rpms_reachable (h : List RpmsArgs) : RpmsShape (runRpms empty h) := by
  suffices ∀ s, RpmsShape s → RpmsShape (runRpms s h) from this empty rfl
  induction h with
  | nil => intro s hs; exact hs
  | cons a rest ih => intro s hs; exact ih _ (rpms_shape_step s a hs)

theorem C12_modules_reachable (h : List ModulesArgs) : ModulesShape (runModules empty h) := by
  suffices ∀ s, ModulesShape s → ModulesShape (runModules s h) from this empty rfl
  induction h with
  | nil => intro s hs; exact hs
  | cons a rest ih => intro s hs; exact ih _ (modules_shape_step s a hs)

theorem C12_extra_reachable (h : List ExtraArgs) : ExtraShape (runExtra empty h) := by
  suffices ∀ s, ExtraShape s → ExtraShape (runExtra s h) from this empty rfl
  induction h with
  | nil => intro s hs; exact hs
  | cons a rest ih => intro s hs; exact ih _ (extra_shape_step s a hs)

/-- on a mapping built by `Rpms.add`, the outcome of a call is decided by the precondition checks alone -/
theorem C12_rpms_outcome (s : PyVal) (hs : RpmsShape s) (a : RpmsArgs) :
    (Rpms.add s a).2 = (rpmsCheck a).map (fun _ => ()) := by
  rw [Rpms.add_eq]
  cases hc : rpmsCheck a with
  | error e => rfl
  | ok p =>
    obtain ⟨x, hx, hd⟩ := shape_leaf isDict rfl [a.variant, a.arch, p.srpmKey] s hs
    rw [(setPathS_leaf _ _ s x hx).2]
    cases x <;> simp [isDict] at hd
    rfl

theorem C12_modules_outcome (s : PyVal) (hs : ModulesShape s) (a : ModulesArgs) :
    (Modules.add s a).2 = (modulesCheck a).map (fun _ => ()) := by
  rw [Modules.add_eq]
  cases hc : modulesCheck a with
  | error e => rfl
  | ok p =>
    obtain ⟨x, hx, hd⟩ := shape_leaf entryOK (by decide) [a.variant, a.arch, p.uid] s hs
    rw [(setPathS_leaf _ _ s x hx).2]
    obtain ⟨_, _, _, _, _, _, heq⟩ := modulesLeaf_ok p x (EntryOK_of_entryOK x hd)
    rw [heq]
    rfl

theorem C12_extra_outcome (s : PyVal) (hs : ExtraShape s) (a : ExtraArgs) :
    (ExtraFiles.add s a).2 = (extraCheck a).map (fun _ => ()) := by
  have hstep := extra_shape_step s a hs
  rw [ExtraFiles.add_eq] at hstep ⊢
  cases hc : extraCheck a with
  | error e => rfl
  | ok r =>
    rw [hc] at hstep
    obtain ⟨x, hx, hd⟩ := shape_leaf (allVals isRecList) rfl [a.variant] s hs
    rw [(setPathS_leaf _ _ s x hx).2]
    cases x <;> simp [allVals] at hd
    rename_i am
    cases hm : (lookup am a.arch).getD (.list []) with
    | list l => simp [extraLeaf, hm, Except.map]
    | _ =>
      exfalso
      cases hlk : lookup am a.arch with
      | none => rw [hlk] at hm; cases hm
      | some z =>
        rw [hlk] at hm
        simp only [Option.getD_some] at hm
        have := all_of_lookup isRecList am a.arch z (by simpa using hd) hlk
        rw [hm] at this
        cases this

/-- **Error class, any history**: after any history of `Rpms.add` calls, whatever a further call raises is a
`ValueError`, and (by `C12_rpms_refusal`) the mapping is unchanged -/
theorem C12_rpms_error_class (h : List RpmsArgs) (a : RpmsArgs) (e : Err)
    (he : (Rpms.add (runRpms empty h) a).2 = .error e) :
    e = .valueError ∧ (Rpms.add (runRpms empty h) a).1 = runRpms empty h := by
  refine ⟨?_, C12_rpms_refusal _ a e he⟩
  rw [C12_rpms_outcome _ (C12_rpms_reachable h)] at he
  cases hc : rpmsCheck a with
  | error e' => rw [hc] at he; simp only [Except.map] at he; cases he; exact rpmsCheck_error_class a e hc
  | ok p => rw [hc] at he; simp [Except.map] at he

/-- **Refusal and error class, any history** for `Modules.add` (no hypothesis on the mapping left) -/
theorem C12_modules_error_class (h : List ModulesArgs) (a : ModulesArgs) (e : Err)
    (he : (Modules.add (runModules empty h) a).2 = .error e) :
    e = .valueError ∧ (Modules.add (runModules empty h) a).1 = runModules empty h := by
  have hs := C12_modules_reachable h
  have hout := C12_modules_outcome _ hs a
  rw [hout] at he
  rw [Modules.add_eq]
  cases hc : modulesCheck a with
  | error e' => rw [hc] at he; simp only [Except.map] at he; cases he; exact ⟨modulesCheck_error_class a e hc, rfl⟩
  | ok p => rw [hc] at he; simp [Except.map] at he

theorem C12_extra_error_class (h : List ExtraArgs) (a : ExtraArgs) (e : Err)
    (he : (ExtraFiles.add (runExtra empty h) a).2 = .error e) :
    (e = .valueError ∨ e = .typeError) ∧ (ExtraFiles.add (runExtra empty h) a).1 = runExtra empty h := by
  refine ⟨?_, C12_extra_refusal _ a e he⟩
  rw [C12_extra_outcome _ (C12_extra_reachable h)] at he
  cases hc : extraCheck a with
  | error e' => rw [hc] at he; simp only [Except.map] at he; cases he; exact extraCheck_error_class a e hc
  | ok p => rw [hc] at he; simp [Except.map] at he

/-- the hypotheses of `C12_modules_content` hold on every mapping built by `Modules.add` -/
theorem C12_modules_content_applies (h : List ModulesArgs) (a : ModulesArgs) (p : ModulesPlan) :
    (∀ x, getPath (runModules empty h) [a.variant, a.arch, p.uid] = some x → EntryOK x)
    ∧ leafArg [a.variant, a.arch, p.uid] (runModules empty h) ≠ none := by
  have hs := C12_modules_reachable h
  obtain ⟨x, hx, hd⟩ := shape_leaf entryOK (by decide) [a.variant, a.arch, p.uid] _ hs
  refine ⟨?_, by rw [hx]; simp⟩
  intro y hy
  have := leafArg_eq _ _ x hx
  rw [hy] at this
  simp only [Option.getD_some] at this
  rw [← this]
  exact EntryOK_of_entryOK x hd

/-! ## dump_for_tree -/

/-- one entry of the per-tree file: the stored record with the base path stripped from `file` -/
def stripItem (b : Str) : PyVal → PyVal
  | .dict r =>
    match lookup r (lit "file") with
    | some (.str f) =>
      .dict [(lit "file", .str (relativeTo f b)), (lit "size", (lookup r (lit "size")).getD .none),
             (lit "checksums", (lookup r (lit "checksums")).getD .none)]
    | _ => .none
  | _ => .none

def treeDoc (data : List PyVal) : PyVal :=
  .dict [(lit "header", .dict [(lit "version", .str (lit "1.0"))]), (lit "data", .list data)]

theorem treeItem_rec (b : Str) (item : PyVal) (h : isExtraRec item = true) : treeItem b item = .ok (stripItem b item) := by
  cases item <;> simp [isExtraRec] at h
  rename_i r
  obtain ⟨⟨h1, h2⟩, h3⟩ := h
  cases hf : lookup r (lit "file") with
  | none => rw [hf] at h1; simp at h1
  | some fv =>
    rw [hf] at h1
    cases fv <;> simp at h1
    rename_i f
    obtain ⟨sz, hsz⟩ := Option.isSome_iff_exists.mp h2
    obtain ⟨cs, hcs⟩ := Option.isSome_iff_exists.mp h3
    simp [treeItem, getItem, stripItem, hf, hsz, hcs]

theorem mapExcept_recs (b : Str) (l : List PyVal) (h : l.all isExtraRec = true) :
    mapExcept (treeItem b) l = .ok (l.map (stripItem b)) := by
  induction l with
  | nil => rfl
  | cons x xs ih =>
    simp only [List.all_cons, Bool.and_eq_true] at h
    simp [mapExcept, treeItem_rec b x h.1, ih h.2]

theorem C12_dump_for_tree_aux (top : Kvs) (v a b : Str) (hs : shapeAt 1 (allVals isRecList) (.dict top) = true) :
    (∀ l, getPath (.dict top) [v, a] = some (.list l) →
        dumpForTreeDoc (.dict top) v a b = .ok (treeDoc (l.map (stripItem b))))
    ∧ (getPath (.dict top) [v, a] = none → dumpForTreeDoc (.dict top) v a b = .error .keyError)
    ∧ (∀ x, getPath (.dict top) [v, a] = some x → ∃ l, x = .list l) := by
  have hs' : top.all (fun kv => allVals isRecList kv.2) = true := hs
  have hav : ∀ av, lookup top v = some av → ∃ am, av = .dict am ∧ am.all (fun kv => isRecList kv.2) = true := by
    intro av hlk
    have := all_of_lookup (allVals isRecList) top v av hs' hlk
    cases av <;> simp [allVals] at this
    exact ⟨_, rfl, by simpa using this⟩
  refine ⟨?_, ?_, ?_⟩
  · intro l hl
    rw [getPath_dict_cons] at hl
    cases hlk : lookup top v with
    | none => rw [hlk] at hl; cases hl
    | some av =>
      obtain ⟨am, rfl, ham⟩ := hav av hlk
      rw [hlk] at hl
      simp only [Option.bind_some] at hl
      rw [getPath_dict_cons] at hl
      cases hla : lookup am a with
      | none => rw [hla] at hl; cases hl
      | some z =>
        rw [hla] at hl
        simp only [Option.bind_some, getPath_nil, Option.some.injEq] at hl
        subst hl
        have hrec := all_of_lookup isRecList am a _ ham hla
        simp only [dumpForTreeDoc, getItem, hlk, hla, mapExcept_recs b l hrec]
        rfl
  · intro hn
    rw [getPath_dict_cons] at hn
    cases hlk : lookup top v with
    | none => simp [dumpForTreeDoc, getItem, hlk]
    | some av =>
      obtain ⟨am, rfl, ham⟩ := hav av hlk
      rw [hlk] at hn
      simp only [Option.bind_some] at hn
      rw [getPath_dict_cons] at hn
      cases hla : lookup am a with
      | none => simp [dumpForTreeDoc, getItem, hlk, hla]
      | some z => rw [hla] at hn; simp [getPath_nil] at hn
  · intro x hx
    rw [getPath_dict_cons] at hx
    cases hlk : lookup top v with
    | none => rw [hlk] at hx; cases hx
    | some av =>
      obtain ⟨am, rfl, ham⟩ := hav av hlk
      rw [hlk] at hx
      simp only [Option.bind_some] at hx
      rw [getPath_dict_cons] at hx
      cases hla : lookup am a with
      | none => rw [hla] at hx; cases hx
      | some z =>
        rw [hla] at hx
        simp only [Option.bind_some, getPath_nil, Option.some.injEq] at hx
        subst hx
        have hrec := all_of_lookup isRecList am a _ ham hla
        cases z <;> simp [isRecList] at hrec
        exact ⟨_, rfl⟩

/-- **`dump_for_tree`** on any manifest built by `ExtraFiles.add`: for a variant/arch that has files the document
is `{"header": {"version": "1.0"}, "data": [...]}` with one entry per stored record, in order, each with the base
path stripped from `file` by `_relative_to` (see `C12_relative`) and `size`/`checksums` unchanged; for a
variant/arch without files the call raises `KeyError`. -/
theorem C12_dump_for_tree (h : List ExtraArgs) (v a b : Str) :
    (∀ l, getPath (runExtra empty h) [v, a] = some (.list l) →
        dumpForTreeDoc (runExtra empty h) v a b = .ok (treeDoc (l.map (stripItem b))))
    ∧ (getPath (runExtra empty h) [v, a] = none → dumpForTreeDoc (runExtra empty h) v a b = .error .keyError)
    ∧ (∀ x, getPath (runExtra empty h) [v, a] = some x → ∃ l, x = .list l) := by
  have hs := C12_extra_reachable h
  generalize runExtra empty h = s at hs
  unfold ExtraShape at hs
  cases s
  case dict top =>
    skip
    exact C12_dump_for_tree_aux top v a b hs
  all_goals exact absurd hs (by simp [shapeAt, allVals])
/-! ## Read-only operations leave the manifest alone -/

/-- obligation on the generated fact (tools/gen_builders.py): the loop of `dump_for_tree` appends a FRESH dict per
entry; a loop that rewrites the stored record (`item["file"] = …; append(item)`) is recognised as `.inPlace`, gets
the mutating semantics in the model, and breaks this -/
theorem C12_dump_for_tree_mode : Gen.dump_for_tree_mode = .copy := by decide

/-- **`dump_for_tree` is an export, not an edit** — for every manifest (built or loaded, well-shaped or not), every
variant, arch and base path, whether the base matches, does not match or only textually prefixes the stored paths,
whether the call succeeds or raises: the manifest afterwards is identical, and the text is the documented one
(`C12_dump_for_tree`).  Hence any sequence of exports with any bases, interleaved with adds, files and exports
exactly what the adds alone determine. -/
theorem C12_dump_for_tree_pure (s : PyVal) (v a b : Str) :
    (ExtraFiles.dumpForTreeS s v a b).1 = s ∧ (ExtraFiles.dumpForTreeS s v a b).2 = dumpForTree s v a b := by
  unfold ExtraFiles.dumpForTreeS
  rw [C12_dump_for_tree_mode]
  exact ⟨rfl, rfl⟩

/-- a second export, with another base, sees the same manifest as the first -/
theorem C12_dump_for_tree_twice (s : PyVal) (v a b v' a' b' : Str) :
    (ExtraFiles.dumpForTreeS (ExtraFiles.dumpForTreeS s v a b).1 v' a' b').2 = dumpForTree s v' a' b' := by
  rw [(C12_dump_for_tree_pure s v a b).1]
  exact (C12_dump_for_tree_pure s v' a' b').2

/-- `obj[variant]` and `dumps()` do not touch the mapping or the compose section (`dumps` sets the header version to
the current one: the documented mutation) -/
theorem C12_readonly_pure (k : Kind) (m : Manifest) (v : Str) :
    (getVariant m.payload v).1 = m.payload
    ∧ (dumps k m).1.payload = m.payload ∧ (dumps k m).1.compose = m.compose
    ∧ ((dumps k m).1.version = m.version ∨ (dumps k m).1.version = .str currentVersion) := by
  refine ⟨rfl, ?_, ?_, ?_⟩
  all_goals
    unfold dumps dumpDoc
    cases validateClass k.className [] <;> simp [serialize]

/-! ## Whatever the refusals and their order: no raise after the first mutation

The executable model interprets whatever statement list the source contains.  For EVERY list that consists of
non-inserting statements followed by the insertion block — any refusals, in any order, known kinds or not — a call
that raises returns the identical mapping.  (What `C12_scripts` adds is *which* refusals there are.) -/

theorem C12_rpms_refusal_any_script (a : RpmsArgs) :
    ∀ (checks : List BStep), (∀ st ∈ checks, st ≠ .insert) → ∀ (s : PyVal) (env : REnv) (e : Err),
      (rpmsRun a (checks ++ [.insert]) s env).2 = .error e → (rpmsRun a (checks ++ [.insert]) s env).1 = s := by
  intro checks
  induction checks with
  | nil =>
    intro _ s env e h
    simp only [List.nil_append, rpmsRun, ↓reduceIte] at h ⊢
    cases hsr : env.srpm with
    | none => simp [rpmsInsert, hsr]
    | some k =>
      simp only [rpmsInsert, hsr] at h ⊢
      generalize hr : setPathS (rpmsLeaf env.nevra (rpmRecord env.sigkey a.path a.category)) [a.variant, a.arch, k] s = r at h ⊢
      obtain ⟨s', o⟩ := r
      cases o with
      | ok u => simp at h
      | error e' =>
        simp only
        have := setPathS_atomic _ (fun _ => True) (fun x e _ h => rpmsLeaf_atomic _ _ x e h) rfl
          [a.variant, a.arch, k] s e' (fun _ _ => trivial) (by rw [hr])
        rw [hr] at this
        exact this
  | cons st rest ih =>
    intro hne s env e h
    have hst : st ≠ .insert := hne st (List.mem_cons_self)
    simp only [List.cons_append, rpmsRun, hst, ↓reduceIte] at h ⊢
    cases hp : rpmsPure a st env with
    | error e' => simp
    | ok env' =>
      rw [hp] at h
      simp only at h ⊢
      exact ih (fun x hx => hne x (List.mem_cons_of_mem _ hx)) s env' e h

theorem C12_extra_refusal_any_script (a : ExtraArgs) :
    ∀ (checks : List BStep), (∀ st ∈ checks, st ≠ .insert) → ∀ (s : PyVal) (e : Err),
      (extraRun a (checks ++ [.insert]) s).2 = .error e → (extraRun a (checks ++ [.insert]) s).1 = s := by
  intro checks
  induction checks with
  | nil =>
    intro _ s e h
    simp only [List.nil_append, extraRun, ↓reduceIte] at h ⊢
    generalize hr : setPathS (extraLeaf a.arch (extraRecord a)) [a.variant] s = r at h ⊢
    obtain ⟨s', o⟩ := r
    cases o with
    | ok u => simp at h
    | error e' =>
      simp only
      have := setPathS_atomic _ (fun _ => True) (fun x e _ h => extraLeaf_atomic _ _ x e h)
        (by simp [extraLeaf, lookup]) [a.variant] s e' (fun _ _ => trivial) (by rw [hr])
      rw [hr] at this
      exact this
  | cons st rest ih =>
    intro hne s e h
    have hst : st ≠ .insert := hne st (List.mem_cons_self)
    simp only [List.cons_append, extraRun, hst, ↓reduceIte] at h ⊢
    cases hp : extraPure a st with
    | error e' => simp
    | ok u =>
      rw [hp] at h
      simp only at h ⊢
      exact ih (fun x hx => hne x (List.mem_cons_of_mem _ hx)) s e h

/-! ## Headline: any history, any further call -/

/-- **C12 for `Rpms.add`** — after ANY history of calls, a further call with ANY arguments either is refused
(`ValueError`, exactly when one of the precondition checks fails, mapping identical) or is accepted, and then:
the arguments passed every check and determine the keys (`RpmsAccepted`: canonical N-E:V-R.A of the RPM and of its
source package, lower-cased signing key), the record sits at `[variant][arch][srpm key][rpm key]`, and every lookup
path that does not lead to that record reads what it read before. -/
theorem C12_rpms_history (h : List RpmsArgs) (a : RpmsArgs) :
    (∃ e, rpmsCheck a = .error e ∧ e = .valueError ∧ Rpms.add (runRpms empty h) a = (runRpms empty h, .error e))
    ∨ (∃ p, rpmsCheck a = .ok p ∧ RpmsAccepted a p ∧ (Rpms.add (runRpms empty h) a).2 = .ok ()
        ∧ getPath (Rpms.add (runRpms empty h) a).1 [a.variant, a.arch, p.srpmKey, p.key] = some p.record
        ∧ ∀ path, Off (OtherKey p.key) path [a.variant, a.arch, p.srpmKey] →
            getPath (Rpms.add (runRpms empty h) a).1 path = getPath (runRpms empty h) path) := by
  have hout := C12_rpms_outcome _ (C12_rpms_reachable h) a
  cases hc : rpmsCheck a with
  | error e =>
    left
    refine ⟨e, rfl, rpmsCheck_error_class a e hc, ?_⟩
    rw [Rpms.add_eq]; rw [hc]
  | ok p =>
    right
    rw [hc] at hout
    have hok : (Rpms.add (runRpms empty h) a).2 = .ok () := hout
    exact ⟨p, rfl, C12_rpms_plan a p hc, hok, C12_rpms_content _ a p hc hok, fun path hp => C12_rpms_frame _ a p hc path hp⟩

/-- **C12 for `Modules.add`** — any history, any further call: refused with `ValueError` and the identical mapping
exactly when a precondition check fails; otherwise accepted, `[variant][arch][canonical uid]` holds the metadata
record, the category's modulemd path (other categories kept) and the RPM list extended, and every lookup path that
leaves that entry reads what it read before. -/
theorem C12_modules_history (h : List ModulesArgs) (a : ModulesArgs) :
    (∃ e, modulesCheck a = .error e ∧ e = .valueError ∧ Modules.add (runModules empty h) a = (runModules empty h, .error e))
    ∨ (∃ p, modulesCheck a = .ok p ∧ ModulesAccepted a p ∧ (Modules.add (runModules empty h) a).2 = .ok ()
        ∧ (∃ e mp l,
            (getPath (runModules empty h) [a.variant, a.arch, p.uid]).getD (.dict []) = .dict e
            ∧ (lookup e (lit "modulemd_path")).getD (.dict []) = .dict mp
            ∧ (lookup e (lit "rpms")).getD (.list []) = .list l
            ∧ getPath (Modules.add (runModules empty h) a).1 [a.variant, a.arch, p.uid, lit "metadata"] = some p.metadata
            ∧ getPath (Modules.add (runModules empty h) a).1 [a.variant, a.arch, p.uid, lit "modulemd_path", p.category]
                = some (.str p.path)
            ∧ (∀ c', c' ≠ p.category →
                getPath (Modules.add (runModules empty h) a).1 [a.variant, a.arch, p.uid, lit "modulemd_path", c'] = lookup mp c')
            ∧ getPath (Modules.add (runModules empty h) a).1 [a.variant, a.arch, p.uid, lit "rpms"] = some (.list (l ++ p.rpms)))
        ∧ ∀ path, Off (fun _ => False) path [a.variant, a.arch, p.uid] →
            getPath (Modules.add (runModules empty h) a).1 path = getPath (runModules empty h) path) := by
  cases hc : modulesCheck a with
  | error e =>
    left
    refine ⟨e, rfl, modulesCheck_error_class a e hc, ?_⟩
    rw [Modules.add_eq]; rw [hc]
  | ok p =>
    right
    obtain ⟨hs, hnav⟩ := C12_modules_content_applies h a p
    obtain ⟨e, mp, l, h1, h2, h3, h4, h5, h6, h7, h8⟩ := C12_modules_content _ a p hc hs hnav
    exact ⟨p, rfl, C12_modules_plan a p hc, h4, ⟨e, mp, l, h1, h2, h3, h5, h6, h7, h8⟩,
      fun path hp => C12_modules_frame _ a p hc path hp⟩

/-- **C12 for `ExtraFiles.add`** — any history, any further call: refused (`ValueError`, or `TypeError` for checksums
that are not a dict) with the identical mapping exactly when a precondition check fails; otherwise the record
`{file, size, checksums}` is appended to the list under `[variant][arch]` and nothing else changes. -/
theorem C12_extra_history (h : List ExtraArgs) (a : ExtraArgs) :
    (∃ e, extraCheck a = .error e ∧ (e = .valueError ∨ e = .typeError)
        ∧ ExtraFiles.add (runExtra empty h) a = (runExtra empty h, .error e))
    ∨ (extraCheck a = .ok (extraRecord a) ∧ (ExtraFiles.add (runExtra empty h) a).2 = .ok ()
        ∧ (∃ l, (getPath (runExtra empty h) [a.variant, a.arch]).getD (.list []) = .list l
              ∧ getPath (ExtraFiles.add (runExtra empty h) a).1 [a.variant, a.arch] = some (.list (l ++ [extraRecord a])))
        ∧ ∀ path, Off (OtherKey a.arch) path [a.variant] →
            getPath (ExtraFiles.add (runExtra empty h) a).1 path = getPath (runExtra empty h) path) := by
  have hout := C12_extra_outcome _ (C12_extra_reachable h) a
  cases hc : extraCheck a with
  | error e =>
    left
    refine ⟨e, rfl, extraCheck_error_class a e hc, ?_⟩
    rw [ExtraFiles.add_eq]; rw [hc]
  | ok r =>
    right
    rw [hc] at hout
    have hok : (ExtraFiles.add (runExtra empty h) a).2 = .ok () := hout
    have hr := (C12_extra_plan a r hc).2.2.2.2.2
    subst hr
    exact ⟨rfl, hok, C12_extra_content _ a _ hc hok, fun path hp => C12_extra_frame _ a _ hc path hp⟩

/-! ## Witnesses: the documented layout on concrete calls, and the two places where the code accepts what the
property statement lists as refused (F30, repaired; F31, known) -/

def Out.isOk : Out → Bool
  | .ok _ => true
  | .error _ => false

def Out.raises (o : Out) (e : Err) : Bool :=
  match o with
  | .error e' => e' == e
  | .ok _ => false

/-- a binary RPM with directory prefix, `.rpm` suffix, epoch 1 and a mixed-case key is filed under its source
package's canonical name, with the key lower-cased -/
theorem C12_rpms_example :
    let r := Rpms.add empty
      { variant := lit "Server", arch := lit "x86_64", nevra := lit "Packages/f/foo-bar-1:2.0-3.el7.x86_64.rpm",
        path := lit "os/Packages/f/foo-bar-2.0-3.el7.x86_64.rpm", sigkey := some (lit "FD431D51"),
        category := lit "binary", srpm := some (lit "foo-01:2.0-3.el7.src.rpm") }
    r.2.isOk = true ∧
    PyVal.beq r.1 (.dict [(lit "Server", .dict [(lit "x86_64", .dict [(lit "foo-1:2.0-3.el7.src",
            .dict [(lit "foo-bar-1:2.0-3.el7.x86_64",
              rpmRecord (some (lit "fd431d51")) (lit "os/Packages/f/foo-bar-2.0-3.el7.x86_64.rpm") (lit "binary"))])])])]) = true := by
  decide +kernel

/-- a module UID with a directory prefix is filed under its canonical UID; a tuple of RPMs is stored as list
elements -/
theorem C12_modules_example :
    let r := Modules.add empty
      { variant := lit "Server", arch := lit "x86_64", uid := .str (lit "dir/httpd:2.4:2018:6c81f848"),
        kojiTag := lit "module-httpd", modulemdPath := lit "repodata/m.yaml", category := lit "binary",
        rpms := .tuple [.str (lit "a"), .str (lit "b")] }
    r.2.isOk = true ∧
    PyVal.beq r.1 (.dict [(lit "Server", .dict [(lit "x86_64", .dict [(lit "httpd:2.4:2018:6c81f848",
          .dict [(lit "metadata", moduleMetadata (lit "httpd:2.4:2018:6c81f848")
                                  ⟨lit "httpd", lit "2.4", lit "2018", lit "6c81f848"⟩ (lit "module-httpd")),
                 (lit "modulemd_path", .dict [(lit "binary", .str (lit "repodata/m.yaml"))]),
                 (lit "rpms", .list [.str (lit "a"), .str (lit "b")])])])])]) = true := by
  decide +kernel

/-- obligation on the generated facts (tools/gen_builders.py): the compose arches refused by `Rpms.add` are exactly
the arches that make an RPM a source RPM, and both are `src`, `nosrc` (known arches) -/
theorem C12_source_arches :
    srcArches = [lit "src", lit "nosrc"] ∧ nevraSrcArches = srcArches ∧ ∀ x ∈ srcArches, x ∈ Gen.RPM_ARCHES := by
  decide

/-- the documented set of categories is exactly the generated table (both inclusions: an entry added to or removed from
`SUPPORTED_CATEGORIES` breaks this) -/
theorem C12_categories : Gen.SUPPORTED_CATEGORIES = [lit "binary", lit "debug", lit "source"] := by decide

/-- F5 (repaired): an unparsable name is a `ValueError` -/
theorem C12_unparsable_is_valueError :
    (Rpms.add empty { variant := lit "S", arch := lit "x86_64", nevra := lit "foo:bar", path := lit "p", sigkey := none,
                      category := lit "binary", srpm := some (lit "foo-0:1-1.src") }).2.raises .valueError = true := by
  decide +kernel

/-- F30 (repaired by a `fix:` commit): an empty path is refused by all three builders, with `ValueError` and the
manifest untouched — the statement's "absolute or empty path" is covered for `Rpms.add`, `Modules.add` (modulemd
path) and `ExtraFiles.add` alike.
(Before the fix `Rpms.add` had no such test: the call below was accepted and filed a record with path `""`; the
pre-fix statement list was `[archTable, srcArch, category, absolutePath, nevra, …]`, without `emptyPath`.) -/
theorem C12_empty_path_refused (s : PyVal) :
    Rpms.add s { variant := lit "S", arch := lit "x86_64", nevra := lit "foo-0:1-1.src", path := [], sigkey := none,
                 category := lit "source" } = (s, .error .valueError)
    ∧ Modules.add s { variant := lit "S", arch := lit "x86_64", uid := .str (lit "m:1"), kojiTag := lit "t",
                      modulemdPath := [], category := lit "binary", rpms := .list [] } = (s, .error .valueError)
    ∧ ExtraFiles.add s { variant := lit "S", arch := lit "x86_64", path := [], size := .int 1, checksums := .dict [] }
        = (s, .error .valueError) := by
  refine ⟨C12_rpms_refuses s _ (Or.inr (Or.inr (Or.inr (Or.inl rfl)))), C12_modules_refuses s _ ?_, ?_⟩
  · right; right; right; right; right; right; right; left; rfl
  · obtain ⟨e, he, heq⟩ := C12_extra_refuses s
      { variant := lit "S", arch := lit "x86_64", path := [], size := .int 1, checksums := .dict [] }
      (Or.inr (Or.inr (Or.inl rfl)))
    rw [heq]
    rw [ExtraFiles.add_eq] at heq
    have : extraCheck { variant := lit "S", arch := lit "x86_64", path := [], size := .int 1, checksums := .dict [] }
        = .error .valueError := by rfl
    rw [this] at heq
    cases heq
    rfl

/-- **Every refused add raises ValueError or TypeError** (full; F42 repaired) — after ANY history of calls of a
builder, whatever a further call raises is a `ValueError` (`TypeError` possible only for `ExtraFiles.add`'s checksums
test in the model's argument types), and the manifest is unchanged.  On the real side the type tests that the model's
typed arguments cannot express — `sigkey` neither `None` nor a string (now `TypeError`), a falsy non-string
`modulemd_path` (now the `ValueError` of the emptiness loop, which runs before `.startswith`) — are exercised by the
complete falsy stream of the check; `C12_scripts` pins the repaired statement shapes and their order
(`sigkeyTyped`; `paramsLoop` before `absoluteMdPath`), so undoing the repair breaks it. -/
theorem C12_errclass_full :
    (∀ (h : List RpmsArgs) (a : RpmsArgs) (e : Err), (Rpms.add (runRpms empty h) a).2 = .error e →
        (e = .valueError ∨ e = .typeError) ∧ (Rpms.add (runRpms empty h) a).1 = runRpms empty h)
    ∧ (∀ (h : List ModulesArgs) (a : ModulesArgs) (e : Err), (Modules.add (runModules empty h) a).2 = .error e →
        (e = .valueError ∨ e = .typeError) ∧ (Modules.add (runModules empty h) a).1 = runModules empty h)
    ∧ (∀ (h : List ExtraArgs) (a : ExtraArgs) (e : Err), (ExtraFiles.add (runExtra empty h) a).2 = .error e →
        (e = .valueError ∨ e = .typeError) ∧ (ExtraFiles.add (runExtra empty h) a).1 = runExtra empty h) := by
  refine ⟨fun h a e he => ?_, fun h a e he => ?_, fun h a e he => C12_extra_error_class h a e he⟩
  · exact ⟨Or.inl (C12_rpms_error_class h a e he).1, (C12_rpms_error_class h a e he).2⟩
  · exact ⟨Or.inl (C12_modules_error_class h a e he).1, (C12_modules_error_class h a e he).2⟩

/-- F42 (repaired): in `Modules.add` the emptiness loop over variant / koji_tag / modulemd_path precedes the first
attribute access on `modulemd_path`, and `Rpms.add` tests the type of a signing key before lower-casing it.
(Before the repair the lists read `… assign, absoluteMdPath, kojiTag, paramsLoop, …` and `… categoryArch, sigkeyLower, …`:
`Modules().add(…, modulemd_path=None, …)` and `Rpms().add(…, sigkey=0, …)` raised AttributeError.) -/
theorem C12_type_tests_first :
    Gen.modules_add_script.idxOf BStep.paramsLoop < Gen.modules_add_script.idxOf BStep.absoluteMdPath
    ∧ BStep.sigkeyTyped ∈ Gen.rpms_add_script ∧ BStep.sigkeyLower ∉ Gen.rpms_add_script := by decide

/-- the statement lists the model interprets are the documented ones (obligation on the generated file; a refusal
removed, added or reordered in the source breaks it — and changes the executable model at the same time) -/
theorem C12_scripts :
    Gen.rpms_add_script = specRpmsScript ∧ Gen.modules_add_script = specModulesScript
    ∧ Gen.extra_add_script = specExtraScript := ⟨rpms_script_eq, modules_script_eq, extra_script_eq⟩

/-- known finding F31: the missing-epoch test is `":" in nevra`; a `:` in the directory prefix lets an
N-V-R.A without epoch through, filed with epoch 0 -/
theorem C12_rpms_missing_epoch_witness :
    (checkNevra (lit "a:b/foo-1.0-1.src")).toOption.map (·.1) = some (lit "foo-0:1.0-1.src")
    ∧ (checkNevra (lit "foo-1.0-1.src")).toOption.map (·.1) = none := by
  decide +kernel

/-- `a/b` only textually prefixes `a/bc/x` -/
theorem C12_relative_example :
    relativeTo (lit "a/bc/x") (lit "a/b") = lit "a/bc/x" ∧ relativeTo (lit "a/b/x") (lit "a/b//") = lit "x" := by
  decide +kernel

end PM.Mf
