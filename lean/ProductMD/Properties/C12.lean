import ProductMD.Model.Builders
namespace PM.Mf
theorem C12_placeholder : True := trivial
end PM.Mf
