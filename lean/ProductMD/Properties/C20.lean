import ProductMD.Model.ComposeDir
import ProductMD.Proofs.Checksum
/-!
# C20 — a compose directory is resolved to the same metadata in every supported layout

Model: `Model/ComposeDir.lean`.  Every theorem is about an arbitrary `World` (any file system, any `os.listdir`
order, any load outcome).  Candidate names, probe names and the caching shape are regenerated from `compose.py`.
-/
namespace PM
open ComposeDir
open Checksum (pathJoin)

/-! ### the data read from the source is the documented one -/

theorem C20_names :
    candidates "info" = ["metadata/composeinfo.json".toList]
    ∧ candidates "images" = ["metadata/images.json".toList, "metadata/image-manifest.json".toList]
    ∧ candidates "rpms" = ["metadata/rpms.json".toList, "metadata/rpm-manifest.json".toList]
    ∧ candidates "modules" = ["metadata/modules.json".toList]
    ∧ Gen.composeSubdir = "compose".toList ∧ Gen.composeProbe = "metadata/composeinfo.json".toList
    ∧ Gen.composeScanName = "metadata".toList := by decide

/-- every accessor has the caching shape, and loads with the class of its own format -/
theorem C20_accessors :
    Gen.composeAccessors.map (fun a => (a.1, a.2.2.1, a.2.2.2)) =
      [("info", "productmd.composeinfo.ComposeInfo", true), ("images", "productmd.images.Images", true),
       ("rpms", "productmd.rpms.Rpms", true), ("modules", "productmd.modules.Modules", true)] := by decide

/-! ### layout resolution -/

/-- `compose/` wins whenever it holds `metadata/composeinfo.json` – whatever else exists (direct `metadata/`,
legacy sub-directories), whatever the listing order -/
theorem C20_compose_preferred (w : World) (cp : Str)
    (h : w.exists (pathJoin (pathJoin cp Gen.composeSubdir) Gen.composeProbe) = true) :
    resolve w cp = .ok (pathJoin cp Gen.composeSubdir) := by
  simp [resolve, h]

/-- no `compose/` metadata and no sub-directory with `metadata`: the path itself is used (direct layout; also for
URLs and for paths that do not exist, where nothing is scanned) -/
theorem C20_direct (w : World) (cp : Str)
    (h1 : w.exists (pathJoin (pathJoin cp Gen.composeSubdir) Gen.composeProbe) = false)
    (h2 : containsSub scheme cp = true ∨ w.exists cp = false ∨
          ∃ ls, w.listdir cp = some ls ∧ ∀ i ∈ ls, w.exists (pathJoin (pathJoin cp i) Gen.composeScanName) = false) :
    resolve w cp = .ok cp := by
  simp only [resolve, h1, Bool.false_eq_true, if_false]
  rcases h2 with h2 | h2 | ⟨ls, hl, hnone⟩
  · simp [h2]
  · simp [h2]
  · split
    · rename_i hc
      simp only [hl]
      have : ls.find? (fun i => w.exists (pathJoin (pathJoin cp i) Gen.composeScanName)) = none := by
        rw [List.find?_eq_none]; intro i hi; simp [hnone i hi]
      simp [this]
    · rfl

/-- legacy layout: for EVERY listing order `ls`, if some listed sub-directory has `metadata`, the chosen compose path
is a listed sub-directory that has `metadata` (the first such in that order) – never the bare path, never a
sub-directory without metadata -/
theorem C20_legacy (w : World) (cp : Str) (ls : List Str)
    (h1 : w.exists (pathJoin (pathJoin cp Gen.composeSubdir) Gen.composeProbe) = false)
    (hs : containsSub scheme cp = false) (he : w.exists cp = true) (hl : w.listdir cp = some ls)
    (hsome : ∃ i ∈ ls, w.exists (pathJoin (pathJoin cp i) Gen.composeScanName) = true) :
    ∃ pre i post, ls = pre ++ i :: post
      ∧ w.exists (pathJoin (pathJoin cp i) Gen.composeScanName) = true
      ∧ (∀ j ∈ pre, w.exists (pathJoin (pathJoin cp j) Gen.composeScanName) = false)
      ∧ resolve w cp = .ok (pathJoin cp i) := by
  simp only [resolve, h1, hs, he, hl, Bool.false_eq_true, if_false, Bool.not_false, Bool.and_self, if_true]
  cases hf : ls.find? (fun i => w.exists (pathJoin (pathJoin cp i) Gen.composeScanName)) with
  | none =>
    exfalso
    obtain ⟨i, hi, hm⟩ := hsome
    rw [List.find?_eq_none] at hf
    exact hf i hi hm
  | some i =>
    rw [List.find?_eq_some_iff_append] at hf
    obtain ⟨hm, pre, post, hls, hpre⟩ := hf
    refine ⟨pre, i, post, hls, hm, ?_, rfl⟩
    intro j hj
    have := hpre j hj
    simpa using this

/-- a path that is not a directory: the OSError of `os.listdir` propagates from the constructor -/
theorem C20_not_a_directory (w : World) (cp : Str)
    (h1 : w.exists (pathJoin (pathJoin cp Gen.composeSubdir) Gen.composeProbe) = false)
    (hs : containsSub scheme cp = false) (he : w.exists cp = true) (hl : w.listdir cp = none) :
    resolve w cp = .error .other := by
  simp [resolve, h1, hs, he, hl]

/-! ### trailing slash -/

theorem pathJoin_slash (cp x : Str) (hne : cp ≠ []) (hns : Str.endsWith cp ['/'] = false) :
    pathJoin (cp ++ ['/']) x = pathJoin cp x := by
  have h1 : Str.endsWith (cp ++ ['/']) ['/'] = true := by
    simp [Str.endsWith, List.isSuffixOf, List.reverse_append, List.isPrefixOf]
  have h2 : cp ++ ['/'] ≠ [] := by simp
  unfold pathJoin
  split
  · rfl
  · simp [h1, hne, hns]

/-- with or without a trailing slash the same metadata files are addressed: every path the accessors build from the
resolved compose path is the same string (hypotheses: what a POSIX file system guarantees for a directory –
`exists` and `listdir` do not care about the trailing slash) -/
theorem C20_slash (w : World) (cp : Str) (hne : cp ≠ []) (hns : Str.endsWith cp ['/'] = false)
    (hsch : containsSub scheme (cp ++ ['/']) = containsSub scheme cp)
    (hex : w.exists (cp ++ ['/']) = w.exists cp) (hls : w.listdir (cp ++ ['/']) = w.listdir cp) (rel : Str) :
    (resolve w (cp ++ ['/'])).map (fun p => pathJoin p rel) = (resolve w cp).map (fun p => pathJoin p rel) := by
  have hj : ∀ x, pathJoin (cp ++ ['/']) x = pathJoin cp x := fun x => pathJoin_slash cp x hne hns
  simp only [resolve, hj, hsch, hex, hls]
  split
  · rfl
  · split
    · cases w.listdir cp with
      | none => rfl
      | some ls =>
        simp only
        cases ls.find? (fun i => w.exists (pathJoin (pathJoin cp i) Gen.composeScanName)) with
        | some i => rfl
        | none => simp [Except.map, hj]
    · simp [Except.map, hj]

/-! …and for a file system that IS a set of normalised paths (`World.ofTree`) those hypotheses are theorems -/

theorem splitOn_snoc_sep (sep : Char) : ∀ (a : Str), Str.splitOn sep (a ++ [sep]) = Str.splitOn sep a ++ [[]] := by
  intro a
  induction a with
  | nil => simp [Str.splitOn]
  | cons c cs ih =>
    simp only [List.cons_append, Str.splitOn, ih]
    by_cases hc : c = sep
    · simp [hc]
    · simp only [hc, if_false]
      cases hs : Str.splitOn sep cs with
      | nil => exact absurd hs (Checksum.splitOn_ne_nil sep cs)
      | cons h t => simp

theorem key_slash (cp : Str) (hne : cp ≠ []) : key (cp ++ ['/']) = key cp := by
  unfold key
  rw [splitOn_snoc_sep]
  cases cp with
  | nil => exact absurd rfl hne
  | cons c cs => simp [Str.startsWith, List.isPrefixOf]

/-- trailing slash on a concrete tree: no hypothesis on the world is left, only that the path is not a regular file -/
theorem C20_slash_tree (nodes : List ((Bool × List Str) × Bool)) (orders : List ((Bool × List Str) × List Str))
    (loads : List ((Kind × (Bool × List Str)) × Except Err Str))
    (cp : Str) (hne : cp ≠ []) (hns : Str.endsWith cp ['/'] = false)
    (hsch : containsSub scheme (cp ++ ['/']) = containsSub scheme cp)
    (hfile : nodes.lookup (key cp) ≠ some false) (rel : Str) :
    (resolve (World.ofTree nodes orders loads) (cp ++ ['/'])).map (fun p => pathJoin p rel)
      = (resolve (World.ofTree nodes orders loads) cp).map (fun p => pathJoin p rel) := by
  apply C20_slash _ cp hne hns hsch
  · have h1 : Str.endsWith (cp ++ ['/']) ['/'] = true := by
      simp [Str.endsWith, List.isSuffixOf, List.reverse_append, List.isPrefixOf]
    simp only [World.ofTree, key_slash cp hne, h1, hns]
    cases hl : nodes.lookup (key cp) with
    | none => rfl
    | some d =>
      cases d with
      | true => rfl
      | false => exact absurd hl hfile
  · simp only [World.ofTree, key_slash cp hne]

/-! ### candidate file names: current name first -/

/-- `_find_metadata_file` returns the first candidate that exists -/
theorem C20_find_first (w : World) (p : Str) (pre : List Str) (c : Str) (post : List Str)
    (hpre : ∀ x ∈ pre, w.exists (pathJoin p x) = false) (hc : w.exists (pathJoin p c) = true) :
    find w p (pre ++ c :: post) = .ok (pathJoin p c) := by
  unfold find
  have : (pre ++ c :: post).find? (fun i => w.exists (pathJoin p i)) = some c := by
    rw [List.find?_eq_some_iff_append]
    exact ⟨hc, pre, post, rfl, fun x hx => by simp [hpre x hx]⟩
  simp [this]

/-- the current file name is used whenever it exists, even when the legacy one exists too; the legacy name is used
only when the current one is absent (images and rpms alike) -/
theorem C20_current_before_legacy (w : World) (p : Str) :
    (w.exists (pathJoin p "metadata/images.json".toList) = true →
        find w p (candidates "images") = .ok (pathJoin p "metadata/images.json".toList))
    ∧ (w.exists (pathJoin p "metadata/images.json".toList) = false →
       w.exists (pathJoin p "metadata/image-manifest.json".toList) = true →
        find w p (candidates "images") = .ok (pathJoin p "metadata/image-manifest.json".toList))
    ∧ (w.exists (pathJoin p "metadata/rpms.json".toList) = true →
        find w p (candidates "rpms") = .ok (pathJoin p "metadata/rpms.json".toList))
    ∧ (w.exists (pathJoin p "metadata/rpms.json".toList) = false →
       w.exists (pathJoin p "metadata/rpm-manifest.json".toList) = true →
        find w p (candidates "rpms") = .ok (pathJoin p "metadata/rpm-manifest.json".toList)) := by
  obtain ⟨_, hi, hr, _⟩ := C20_names
  rw [hi, hr]
  refine ⟨fun h => ?_, fun h1 h2 => ?_, fun h => ?_, fun h1 h2 => ?_⟩
  · exact C20_find_first w p [] _ _ (by simp) h
  · exact C20_find_first w p [_] _ [] (by simpa using h1) h2
  · exact C20_find_first w p [] _ _ (by simp) h
  · exact C20_find_first w p [_] _ [] (by simpa using h1) h2

/-! ### each accessor equals a direct load, loaded once -/

/-- a successful first access returns exactly what loading the found file directly gives -/
theorem C20_equals_direct_load (w : World) (s s1 : State) (k : Kind) (o : Obj)
    (hc : s.cache k = none) (h : access w s k = (s1, .ok o)) :
    find w s.composePath (candidates k) = .ok o.path ∧ w.load k o.path = .ok o.text ∧ o.kind = k
    ∧ s1.loads = s.loads ++ [(k, o.path)] := by
  unfold access at h
  simp only [hc] at h
  cases hf : find w s.composePath (candidates k) with
  | error e => simp [hf] at h
  | ok path =>
    simp only [hf] at h
    cases hl : w.load k path with
    | error e => simp only [hl] at h; split at h <;> simp at h
    | ok text =>
      simp only [hl] at h
      split at h <;>
      · simp only [Prod.mk.injEq, Except.ok.injEq] at h
        obtain ⟨h1, h2⟩ := h
        subst h2; subst h1
        exact ⟨rfl, hl, rfl, rfl⟩

/-- after a successful access the object is cached (all four accessors have the caching shape) -/
theorem C20_cached_after (w : World) (s s1 : State) (k : Kind) (o : Obj) (hk : cachedKind k = true)
    (h : access w s k = (s1, .ok o)) : s1.cache k = some o := by
  unfold access at h
  cases hc : s.cache k with
  | some o' =>
    simp only [hc, Prod.mk.injEq, Except.ok.injEq] at h
    obtain ⟨h1, h2⟩ := h
    subst h1; subst h2; exact hc
  | none =>
    simp only [hc] at h
    cases hf : find w s.composePath (candidates k) with
    | error e => simp [hf] at h
    | ok path =>
      simp only [hf] at h
      cases hl : w.load k path with
      | error e => simp only [hl] at h; split at h <;> simp at h
      | ok text =>
        simp only [hl, hk, if_true, Prod.mk.injEq, Except.ok.injEq] at h
        obtain ⟨h1, h2⟩ := h
        subst h1; subst h2
        simp

/-- one further access of ANY accessor keeps a cached object and does not load its kind again -/
theorem C20_cached_step (w : World) (s : State) (k : Kind) (o : Obj) (hc : s.cache k = some o) (k' : Kind) :
    (access w s k').1.cache k = some o ∧ loadCount (access w s k').1 k = loadCount s k
    ∧ (k' = k → (access w s k').2 = .ok o) := by
  by_cases hk : k' = k
  · subst hk
    simp [access, hc]
  · have hne : (k' == k) = false := by simp [hk]
    unfold access
    cases hc' : s.cache k' with
    | some o' => simp [hc, hk]
    | none =>
      simp only
      cases hf : find w s.composePath (candidates k') with
      | error e => simp [hc, hk]
      | ok path =>
        simp only
        cases hl : w.load k' path with
        | error e =>
          simp only
          split <;> simp [hc, loadCount, List.filter_append, hne, hk]
        | ok text =>
          simp only
          split
          · refine ⟨by simp [Ne.symm hk, hc], by simp [loadCount, List.filter_append, hne], fun h => absurd h hk⟩
          · refine ⟨by simp [hc], by simp [loadCount, List.filter_append, hne], fun h => absurd h hk⟩

/-- **Loaded once, then reused**: after an object of kind `k` is cached, over ANY further sequence of accesses
(of any accessors, failing or not) every access of `k` returns that very object and `k` is never loaded again -/
theorem C20_cached (w : World) (k : Kind) (o : Obj) :
    ∀ (ks : List Kind) (s : State), s.cache k = some o →
      (accessAll w s ks).1.cache k = some o
      ∧ loadCount (accessAll w s ks).1 k = loadCount s k
      ∧ ∀ r ∈ (ks.zip (accessAll w s ks).2), r.1 = k → r.2 = .ok o := by
  intro ks
  induction ks with
  | nil => intro s hc; simp [accessAll, hc]
  | cons k' rest ih =>
    intro s hc
    obtain ⟨h1, h2, h3⟩ := C20_cached_step w s k o hc k'
    obtain ⟨i1, i2, i3⟩ := ih (access w s k').1 h1
    simp only [accessAll]
    refine ⟨i1, by rw [i2, h2], ?_⟩
    intro r hr hk
    simp only [List.zip_cons_cons, List.mem_cons] at hr
    rcases hr with hr | hr
    · subst hr; exact h3 hk
    · exact i3 r hr hk

/-- …and the reuse does not depend on the file system any more: whatever the world has become (the file deleted,
replaced, the directory gone), an access of a cached kind returns the cached object and loads nothing -/
theorem C20_cached_any_world (w' : World) (s : State) (k : Kind) (o : Obj) (hc : s.cache k = some o) :
    access w' s k = (s, .ok o) := by
  simp [access, hc]

/-! ### errors name the location -/

/-- no candidate file: RuntimeError naming the (resolved) compose path; nothing is loaded or cached -/
theorem C20_errors_missing (w : World) (s : State) (k : Kind) (hc : s.cache k = none)
    (h : ∀ c ∈ candidates k, w.exists (pathJoin s.composePath c) = false) :
    access w s k = (s, .error (.runtime s.composePath)) := by
  have : (candidates k).find? (fun i => w.exists (pathJoin s.composePath i)) = none := by
    rw [List.find?_eq_none]; intro c hc'; simp [h c hc']
  simp [access, hc, find, this]

/-- the exception classes wrapped by `_load_metadata`, as read from its `except` clause (since the F20 fix) -/
theorem C20_wrapped_classes :
    Gen.composeWrapped = ["ValueError", "LookupError", "TypeError", "AttributeError"]
    ∧ wrapped .valueError = true ∧ wrapped .keyError = true ∧ wrapped .typeError = true ∧ wrapped .attributeError = true
    ∧ wrapped .indexError = true ∧ wrapped .runtimeError = false ∧ wrapped .other = false := by decide

/-- the file is there but loading raises an exception of a wrapped class – ValueError (JSON syntax error, undecodable
bytes, wrong metadata type, a failing validator) or KeyError / TypeError / AttributeError (well-formed JSON that is
not the expected metadata: `{}`, `[]`, a header without payload, a payload of the wrong type): RuntimeError naming
the FILE; nothing is cached, so a later access tries again -/
theorem C20_errors_undecodable (w : World) (s : State) (k : Kind) (path : Str) (e : Err) (hc : s.cache k = none)
    (hf : find w s.composePath (candidates k) = .ok path) (hl : w.load k path = .error e)
    (he : e = .valueError ∨ e = .keyError ∨ e = .typeError ∨ e = .attributeError ∨ e = .indexError) :
    (access w s k).2 = .error (.runtime path) ∧ (access w s k).1.cache = s.cache := by
  have hw : wrapped e = true := by
    obtain ⟨_, h1, h2, h3, h4, h5, _⟩ := C20_wrapped_classes
    rcases he with he | he | he | he | he <;> subst he <;> assumption
  simp [access, hc, hf, hl, hw]

/-- any exception of a class outside the `except` clause (e.g. an OSError: the candidate is a directory) propagates
unchanged -/
theorem C20_errors_other_propagate (w : World) (s : State) (k : Kind) (path : Str) (e : Err) (hc : s.cache k = none)
    (hf : find w s.composePath (candidates k) = .ok path) (hl : w.load k path = .error e) (he : wrapped e = false) :
    (access w s k).2 = .error (.other e) := by
  simp [access, hc, hf, hl, he]

/-- what the accessors did before the F20 fix (`except ValueError` only), stated on the predicate itself: with that
clause a KeyError – what `{}` raises – is not wrapped -/
theorem C20_preF20_witness :
    ((errBases .keyError).any (fun c => ["ValueError"].contains c)) = false
    ∧ ((errBases .valueError).any (fun c => ["ValueError"].contains c)) = true := by decide

/-! ### non-vacuity: a concrete tree with all three layouts at once -/
def exampleWorld : World :=
  World.ofTree
    [((false, ["P".toList]), true), ((false, ["P".toList, "compose".toList]), true),
     ((false, ["P".toList, "compose".toList, "metadata".toList]), true),
     ((false, ["P".toList, "compose".toList, "metadata".toList, "composeinfo.json".toList]), false),
     ((false, ["P".toList, "compose".toList, "metadata".toList, "image-manifest.json".toList]), false),
     ((false, ["P".toList, "metadata".toList]), true), ((false, ["P".toList, "1.0".toList]), true),
     ((false, ["P".toList, "1.0".toList, "metadata".toList]), true)]
    [((false, ["P".toList]), ["1.0".toList, "metadata".toList, "compose".toList])]
    [(("images", (false, ["P".toList, "compose".toList, "metadata".toList, "image-manifest.json".toList])), .ok "doc".toList)]

example : resolve exampleWorld "P".toList = .ok "P/compose".toList := by rfl
example : resolve exampleWorld "P/".toList = .ok "P/compose".toList := by rfl
example : (access exampleWorld { composePath := "P/compose".toList } "images").2
    = .ok ⟨0, "images", "P/compose/metadata/image-manifest.json".toList, "doc".toList⟩ := by rfl
example : (access exampleWorld { composePath := "P/compose".toList } "rpms").2 = .error (.runtime "P/compose".toList) := by rfl



/-! ## remote locations -/

/-- what the source says a URL is, in `_file_exists` and in `open_file_obj` (the same tuple), which exceptions of the fetch
mean "absent", the shape of the two functions, and the mark that disables the legacy scan -/
theorem C20_url_schemes :
    Gen.urlSchemesExists = ["http://".toList, "https://".toList, "ftp://".toList]
    ∧ Gen.urlSchemesOpen = Gen.urlSchemesExists
    ∧ Gen.urlExistsCatches = ["URLError"]
    ∧ Gen.urlExistsShape = true ∧ Gen.urlOpenShape = true
    ∧ Gen.composeUrlMark = scheme := by decide

theorem isPrefixOf_append_right {α} [BEq α] : ∀ (s a b : List α), s.isPrefixOf a = true → s.isPrefixOf (a ++ b) = true
  | [], _, _, _ => by simp [List.isPrefixOf]
  | _ :: _, [], _, h => by simp [List.isPrefixOf] at h
  | x :: s, y :: a, b, h => by
    simp only [List.isPrefixOf, List.cons_append, Bool.and_eq_true] at h ⊢
    exact ⟨h.1, isPrefixOf_append_right s a b h.2⟩

theorem isUrl_append (sch : List Str) (a b : Str) (h : isUrl sch a = true) : isUrl sch (a ++ b) = true := by
  simp only [isUrl, List.any_eq_true] at h ⊢
  obtain ⟨s, hs, hp⟩ := h
  exact ⟨s, hs, isPrefixOf_append_right s a b hp⟩

/-- `os.path.join(url, name)` for a relative name keeps the URL as a prefix: it is still a URL -/
theorem isUrl_pathJoin (sch : List Str) (a b : Str) (hb : Str.startsWith b ['/'] = false) (h : isUrl sch a = true) :
    isUrl sch (pathJoin a b) = true := by
  unfold pathJoin
  simp only [hb, Bool.false_eq_true, if_false]
  split
  · exact isUrl_append sch a b h
  · exact isUrl_append sch a ('/' :: b) h

theorem containsSub_of_prefix (nd : Str) : ∀ (s : Str), nd.isPrefixOf s = true → containsSub nd s = true
  | [], h => by
    cases nd with
    | nil => rfl
    | cons _ _ => simp [List.isPrefixOf] at h
  | c :: cs, h => by simp [containsSub, h]

theorem containsSub_nil : ∀ (t : Str), containsSub [] t = true
  | [] => rfl
  | _ :: _ => by simp [containsSub]

theorem containsSub_mono (nd : Str) : ∀ (s t : Str), containsSub nd s = true → s.isPrefixOf t = true → containsSub nd t = true
  | [], t, h, _ => by
    have : nd = [] := by simpa [containsSub] using h
    subst this; exact containsSub_nil t
  | c :: cs, [], _, hp => by simp [List.isPrefixOf] at hp
  | c :: cs, d :: ts, h, hp => by
    simp only [containsSub, Bool.or_eq_true] at h ⊢
    rcases h with h | h
    · left
      rw [List.isPrefixOf_iff_prefix] at h hp ⊢
      exact h.trans hp
    · right
      simp only [List.isPrefixOf, Bool.and_eq_true] at hp
      exact containsSub_mono nd cs ts h hp.2

/-- every URL (as `_file_exists` sees it) contains the mark that `Compose.__init__` tests: both facts read from the source -/
theorem C20_url_has_mark (cp : Str) (h : isUrl Gen.urlSchemesExists cp = true) : containsSub Gen.composeUrlMark cp = true := by
  simp only [isUrl, List.any_eq_true] at h
  obtain ⟨s, hs, hp⟩ := h
  have hall : ∀ s ∈ Gen.urlSchemesExists, containsSub Gen.composeUrlMark s = true := by decide
  exact containsSub_mono _ s cp (hall s hs) hp

/-- `_file_exists` on a URL, with the except clause read from the source evaluated: a response means present, URLError
means absent, every other exception propagates -/
theorem C20_url_exists (w : World) (n : Net) (log : FLog) (p : Str) (h : isUrl Gen.urlSchemesExists p = true) :
    existsU w n log p =
      match n.fetch p (seen log p) with
      | .ok _ => (log ++ [⟨p, true⟩], .ok true)
      | .urlError => (log ++ [⟨p, false⟩], .ok false)
      | .other e => (log ++ [⟨p, false⟩], .error e) := by
  unfold existsU
  simp only [h, if_true]
  cases hf : n.fetch p (seen log p) with
  | ok r => rfl
  | urlError =>
    have hc : ((fetchBases Fetch.urlError).any fun c => Gen.urlExistsCatches.contains c) = true := by decide
    exact if_pos hc
  | other e =>
    have hc : ¬ ((fetchBases (Fetch.other e)).any fun c => Gen.urlExistsCatches.contains c) = true := by
      cases e <;> decide
    exact if_neg hc

theorem isUrl_probe (cp : Str) (h : isUrl Gen.urlSchemesExists cp = true) :
    isUrl Gen.urlSchemesExists (pathJoin (pathJoin cp Gen.composeSubdir) Gen.composeProbe) = true :=
  isUrl_pathJoin _ _ _ (by decide) (isUrl_pathJoin _ _ _ (by decide) h)

/-- `Compose.__init__` on a URL: one fetch, then a case distinction on its outcome; nothing else is consulted -/
theorem resolveU_url (w : World) (n : Net) (cp : Str) (h : isUrl Gen.urlSchemesExists cp = true) :
    resolveU w n cp =
      match n.fetch (pathJoin (pathJoin cp Gen.composeSubdir) Gen.composeProbe) 0 with
      | .ok _ => ([⟨pathJoin (pathJoin cp Gen.composeSubdir) Gen.composeProbe, true⟩], .ok (pathJoin cp Gen.composeSubdir))
      | .urlError => ([⟨pathJoin (pathJoin cp Gen.composeSubdir) Gen.composeProbe, false⟩], .ok cp)
      | .other e => ([⟨pathJoin (pathJoin cp Gen.composeSubdir) Gen.composeProbe, false⟩], .error e) := by
  have hm := C20_url_has_mark cp h
  unfold resolveU
  simp only [C20_url_exists w n [] _ (isUrl_probe cp h), hm, Bool.not_true, Bool.false_and, Bool.false_eq_true, if_false]
  have hs : seen [] (pathJoin (pathJoin cp Gen.composeSubdir) Gen.composeProbe) = 0 := rfl
  rw [hs]
  cases n.fetch (pathJoin (pathJoin cp Gen.composeSubdir) Gen.composeProbe) 0 <;> rfl

/-- a URL location: exactly ONE fetch (the `compose/` probe), no local file-system access at all – the result is the
same in every local world, whatever `listdir` would say – and only two outcomes: `<url>/compose` or the URL itself.
A legacy version-named sub-directory is not discoverable over a URL. -/
theorem C20_url_no_legacy_scan (w w' : World) (n : Net) (cp : Str) (h : isUrl Gen.urlSchemesExists cp = true) :
    resolveU w n cp = resolveU w' n cp
    ∧ (resolveU w n cp).1.length = 1
    ∧ ∀ p, (resolveU w n cp).2 = .ok p → p = cp ∨ p = pathJoin cp Gen.composeSubdir := by
  rw [resolveU_url w n cp h, resolveU_url w' n cp h]
  cases n.fetch (pathJoin (pathJoin cp Gen.composeSubdir) Gen.composeProbe) 0 <;> simp

/-- `compose/` wins over a URL whenever its `metadata/composeinfo.json` can be fetched, whatever else is served -/
theorem C20_url_compose_preferred (w : World) (n : Net) (cp : Str) (r : Str) (h : isUrl Gen.urlSchemesExists cp = true)
    (hf : n.fetch (pathJoin (pathJoin cp Gen.composeSubdir) Gen.composeProbe) 0 = .ok r) :
    (resolveU w n cp).2 = .ok (pathJoin cp Gen.composeSubdir) := by
  rw [resolveU_url w n cp h, hf]

/-- …and when that fetch fails with URLError (HTTP 404, refused, unknown host) the URL itself is the compose path -/
theorem C20_url_direct (w : World) (n : Net) (cp : Str) (h : isUrl Gen.urlSchemesExists cp = true)
    (hf : n.fetch (pathJoin (pathJoin cp Gen.composeSubdir) Gen.composeProbe) 0 = .urlError) :
    (resolveU w n cp).2 = .ok cp := by
  rw [resolveU_url w n cp h, hf]

/-- any OTHER failure of that fetch (socket timeout, `http.client` exception, ValueError for a malformed URL) leaves
the CONSTRUCTOR as it is: not "absent", not RuntimeError -/
theorem C20_url_probe_error_propagates (w : World) (n : Net) (cp : Str) (e : Err) (h : isUrl Gen.urlSchemesExists cp = true)
    (hf : n.fetch (pathJoin (pathJoin cp Gen.composeSubdir) Gen.composeProbe) 0 = .other e) :
    (resolveU w n cp).2 = .error e := by
  rw [resolveU_url w n cp h, hf]

/-- trailing slash on a URL: the same URLs are fetched and every path built from the result is the same string
(`os.path.join` adds no second slash).  `http://h/c//` is a different matter: `…//compose` is another URL, and what a
server makes of it is the world's business. -/
theorem C20_url_slash (w : World) (n : Net) (cp : Str) (h : isUrl Gen.urlSchemesExists cp = true)
    (hns : Str.endsWith cp ['/'] = false) (rel : Str) :
    (resolveU w n (cp ++ ['/'])).1 = (resolveU w n cp).1
    ∧ (resolveU w n (cp ++ ['/'])).2.map (fun p => pathJoin p rel) = (resolveU w n cp).2.map (fun p => pathJoin p rel) := by
  have hne : cp ≠ [] := by
    intro h0; subst h0; revert h; decide
  have hj : ∀ x, pathJoin (cp ++ ['/']) x = pathJoin cp x := fun x => pathJoin_slash cp x hne hns
  rw [resolveU_url w n cp h, resolveU_url w n _ (isUrl_append _ cp ['/'] h)]
  simp only [hj]
  cases n.fetch (pathJoin (pathJoin cp Gen.composeSubdir) Gen.composeProbe) 0 <;> simp [Except.map, hj]



/-! ### accessors over a URL -/

/-- **Loaded once, then reused** over a URL: an access of a cached kind returns the cached object whatever the net has
become, performs no fetch and no load (the state, fetch log included, is unchanged) -/
theorem C20_url_cached (w : World) (n : Net) (s : UState) (k : Kind) (o : Obj) (hc : s.cache k = some o) :
    accessU w n s k = (s, .ok o) := by
  simp [accessU, hc]

/-- candidate names over a URL are tried in the order of the source, exactly as locally: the first one that can be
fetched is used; the earlier ones were fetched (URLError) before it, and nothing after it is fetched -/
theorem C20_url_find_first (w : World) (n : Net) (hst : n.stationary) (p : Str) (hp : isUrl Gen.urlSchemesExists p = true)
    (r : Str) (c : Str) (post : List Str) :
    ∀ (pre : List Str) (log : FLog), (∀ x ∈ pre ++ [c], Str.startsWith x ['/'] = false) →
      (∀ x ∈ pre, n.fetch (pathJoin p x) 0 = .urlError) → n.fetch (pathJoin p c) 0 = .ok r →
      findU w n p log (pre ++ c :: post)
        = (log ++ pre.map (fun x => ⟨pathJoin p x, false⟩) ++ [⟨pathJoin p c, true⟩], .ok (pathJoin p c)) := by
  intro pre
  induction pre with
  | nil =>
    intro log hrel _ hc
    have hu := isUrl_pathJoin _ p c (hrel c (by simp)) hp
    simp only [List.nil_append, findU, C20_url_exists w n log _ hu, hst (pathJoin p c) (seen log (pathJoin p c)), hc, List.map_nil,
      List.append_nil]
  | cons x pre ih =>
    intro log hrel hpre hc
    have hu := isUrl_pathJoin _ p x (hrel x (by simp)) hp
    simp only [List.cons_append, findU, C20_url_exists w n log _ hu, hst (pathJoin p x) (seen log (pathJoin p x)), hpre x (by simp)]
    rw [ih _ (fun y hy => hrel y (by simp only [List.cons_append, List.mem_cons]; exact Or.inr hy)) (fun y hy => hpre y (by simp [hy])) hc]
    simp

/-- the candidate names are the same as locally and relative -/
theorem C20_url_names :
    (∀ k ∈ ["info", "images", "rpms", "modules"], ∀ x ∈ candidates k, Str.startsWith x ['/'] = false)
    ∧ candidates "images" = ["metadata/images.json".toList, "metadata/image-manifest.json".toList]
    ∧ candidates "rpms" = ["metadata/rpms.json".toList, "metadata/rpm-manifest.json".toList] := by decide

/-- no candidate can be fetched (URLError each): RuntimeError naming the resolved location; every candidate was tried
once, in order; nothing is loaded or cached -/
theorem C20_url_find_none (w : World) (n : Net) (hst : n.stationary) (p : Str) (hp : isUrl Gen.urlSchemesExists p = true) :
    ∀ (cs : List Str) (log : FLog), (∀ x ∈ cs, Str.startsWith x ['/'] = false) → (∀ x ∈ cs, n.fetch (pathJoin p x) 0 = .urlError) →
      findU w n p log cs = (log ++ cs.map (fun x => ⟨pathJoin p x, false⟩), .error (.runtime p)) := by
  intro cs
  induction cs with
  | nil => intro log _ _; simp [findU]
  | cons x cs ih =>
    intro log hrel hall
    have hu := isUrl_pathJoin _ p x (hrel x (by simp)) hp
    simp only [findU, C20_url_exists w n log _ hu, hst (pathJoin p x) (seen log (pathJoin p x)), hall x (by simp)]
    rw [ih _ (fun y hy => hrel y (by simp [hy])) (fun y hy => hall y (by simp [hy]))]
    simp

theorem C20_url_errors_missing (w : World) (n : Net) (hst : n.stationary) (s : UState) (k : Kind) (hc : s.cache k = none)
    (hp : isUrl Gen.urlSchemesExists s.composePath = true) (hrel : ∀ x ∈ candidates k, Str.startsWith x ['/'] = false)
    (h : ∀ x ∈ candidates k, n.fetch (pathJoin s.composePath x) 0 = .urlError) :
    (accessU w n s k).2 = .error (.runtime s.composePath) ∧ (accessU w n s k).1.cache = s.cache
    ∧ (accessU w n s k).1.loads = s.loads := by
  simp [accessU, hc, C20_url_find_none w n hst s.composePath hp (candidates k) s.fetches hrel h]

/-- the file can be fetched but does not load – the fetch of the load itself fails with a ValueError, or parsing /
deserialising the response raises a class of the except clause (undecodable bytes, JSON syntax, wrong shape):
RuntimeError naming the URL of the file; nothing is cached; the response is NOT closed by the library -/
theorem C20_url_errors_undecodable (w : World) (n : Net) (s : UState) (k : Kind) (l : FLog) (path resp : Str) (e : Err)
    (hc : s.cache k = none) (hf : findU w n s.composePath s.fetches (candidates k) = (l, .ok path))
    (hu : isUrl Gen.urlSchemesOpen path = true) (hr : n.fetch path (seen l path) = .ok resp) (hl : n.parse k resp = .error e)
    (he : wrapped e = true) :
    (accessU w n s k).2 = .error (.runtime path) ∧ (accessU w n s k).1.cache = s.cache
    ∧ (accessU w n s k).1.fetches = l ++ [⟨path, false⟩] := by
  simp [accessU, hc, hf, loadU, hu, hr, hl, he]

/-- a fetch failure other than URLError while looking for the file (timeout, protocol error) leaves the accessor as it
is – it is neither "missing" nor RuntimeError; a URLError of the LOAD's own fetch (the file vanished between probe and
load) escapes as well: URLError is an OSError, not in the except clause -/
theorem C20_url_propagates_partial (w : World) (n : Net) (s : UState) (k : Kind) (hc : s.cache k = none) :
    (∀ l e, findU w n s.composePath s.fetches (candidates k) = (l, .error (.other e)) → (accessU w n s k).2 = .error (.other e))
    ∧ (∀ l path, findU w n s.composePath s.fetches (candidates k) = (l, .ok path) → isUrl Gen.urlSchemesOpen path = true →
        n.fetch path (seen l path) = .urlError → (accessU w n s k).2 = .error (.other .other)) := by
  refine ⟨fun l e hf => by simp [accessU, hc, hf], fun l path hf hu hr => ?_⟩
  have : wrapped Err.other = false := by decide
  simp [accessU, hc, hf, loadU, hu, hr, fetchErr, this]

/-- each accessor equals loading that URL directly: a successful first access returns the text that `cls().load(url)`
gives at that moment, for the URL `_find_metadata_file` chose; one load is logged -/
theorem C20_url_equals_direct_load (w : World) (n : Net) (s s1 : UState) (k : Kind) (o : Obj)
    (hc : s.cache k = none) (h : accessU w n s k = (s1, .ok o)) :
    ∃ l, (findU w n s.composePath s.fetches (candidates k)) = (l, .ok o.path)
      ∧ (loadU w n l k o.path).2 = .ok o.text ∧ o.kind = k ∧ s1.loads = s.loads ++ [(k, o.path)]
      ∧ s1.fetches = (loadU w n l k o.path).1 := by
  unfold accessU at h
  simp only [hc] at h
  rcases hf : findU w n s.composePath s.fetches (candidates k) with ⟨l, r⟩
  cases r with
  | error e => simp [hf] at h
  | ok path =>
    simp only [hf] at h
    rcases hl : loadU w n l k path with ⟨l2, r2⟩
    cases r2 with
    | error e => simp only [hl] at h; split at h <;> simp at h
    | ok text =>
      simp only [hl] at h
      split at h <;>
      · simp only [Prod.mk.injEq, Except.ok.injEq] at h
        obtain ⟨h1, h2⟩ := h
        subst h2; subst h1
        exact ⟨l, rfl, by simp [hl], rfl, rfl, by simp [hl]⟩

/-- …which for a URL means: the response of ONE fetch of that URL, parsed as the accessor's kind, closed afterwards -/
theorem C20_url_load (w : World) (n : Net) (l : FLog) (k : Kind) (path resp text : Str) (hu : isUrl Gen.urlSchemesOpen path = true)
    (hr : n.fetch path (seen l path) = .ok resp) (hp : n.parse k resp = .ok text) :
    loadU w n l k path = (l ++ [⟨path, true⟩], .ok text) := by
  simp [loadU, hu, hr, hp]

/-! ### non-vacuity: a concrete net (both layouts served; the manifest only under its legacy name; rpms undecodable) -/
def exampleNet : Net :=
  Net.ofTable
    [("http://h/c/compose/metadata/composeinfo.json".toList, [.ok "R1".toList]),
     ("http://h/c/metadata/composeinfo.json".toList, [.ok "R0".toList]),
     ("http://h/c/compose/metadata/image-manifest.json".toList, [.ok "R2".toList]),
     ("http://h/c/compose/metadata/rpms.json".toList, [.ok "R3".toList]),
     ("http://h/c/compose/metadata/modules.json".toList, [.other .other])]
    [(("info", "R1".toList), .ok "doc1".toList), (("images", "R2".toList), .ok "doc2".toList), (("rpms", "R3".toList), .error .valueError)]

/-- the same net frozen at its first answers is stationary (hypothesis `hst` of the theorems above) -/
example : ({ fetch := fun u _ => exampleNet.fetch u 0, parse := exampleNet.parse } : Net).stationary := fun _ _ => rfl
example : isUrl Gen.urlSchemesExists "http://h/c".toList = true := by decide
example : (resolveU World.empty exampleNet "http://h/c/".toList).2 = .ok "http://h/c/compose".toList := by rfl
example : (accessU World.empty exampleNet { composePath := "http://h/c/compose".toList } "images").2
    = .ok ⟨0, "images", "http://h/c/compose/metadata/image-manifest.json".toList, "doc2".toList⟩ := by rfl
example : (accessU World.empty exampleNet { composePath := "http://h/c/compose".toList } "rpms").2
    = .error (.runtime "http://h/c/compose/metadata/rpms.json".toList) := by rfl
example : (accessU World.empty exampleNet { composePath := "http://h/c/compose".toList } "modules").2 = .error (.other .other) := by rfl
example : (accessU World.empty exampleNet { composePath := "http://h/c".toList } "images").2 = .error (.runtime "http://h/c".toList) := by rfl

end PM
