import ProductMD.Properties.C06
import ProductMD.Model.Loads
import ProductMD.Model.LoadsForest
/-!
# C07 — documents violating a documented constraint are rejected on load

Model (`Model/Loads.lean`): `loads d = fill d >>= fun x => runSteps (checks x) >>= fun _ => pure x`, where `checks` are the
`validate()` calls of the section readers on what they filled — placed by the regenerated call structure — and `fill` is the
rest of the reader (key lookups, coercions, header version / type gate from the regenerated gate, `Images.add`).

Full statement: `loads d = ok x → ∀ part ∈ parts x, ∀ r ∈ catalogue part.cls, r holds` for every format, plus header and
required-key rejections.  Proved for all seven formats: rpms/modules/extra_files (header + compose, as the quantifier says), images (every image of
every cell), discinfo, composeinfo and treeinfo (every section, every variant of the rebuilt forest at any depth;
`Model/LoadsForest.lean`).  The models are total over header versions: the readers a generated version gate selects for documents
older than 0.3 / 0.4 / 1.0 / 1.1 / 1.2 (and for a treeinfo without a header) are part of `fill` (built from C05's models of the
legacy-specific steps), and `checks` are the same `validate()` calls, because every class validates AFTER dispatching on the gate
(`C07_legacy_dispatch`).  `C07_sound_*_all_versions` state the soundness for a document of any version (section "every version").
-/
namespace PM
open PM.Val PM.Val.Loads

/-! ## obligations on the generated files -/

/-- every section reader ends by validating what it filled (no early return), `loads()` ends by validating the top-level
object, `add` validates the variant it is given -/
theorem C07_flags :
    LFlag.header = true ∧ LFlag.tiHeader = true ∧ LFlag.compose = true ∧ LFlag.ciRelease = true ∧ LFlag.ciBaseProduct = true
    ∧ LFlag.ciVariant = true ∧ LFlag.image = true ∧ LFlag.disc = true ∧ LFlag.loads = true ∧ LFlag.tiRelease = true
    ∧ LFlag.tiBaseProduct = true ∧ LFlag.tiTree = true ∧ LFlag.tiVariants = true ∧ LFlag.tiChecksums = true ∧ LFlag.tiImages = true
    ∧ LFlag.tiStage2 = true ∧ LFlag.tiMedia = true ∧ LFlag.addValidates = true := by decide +kernel

/-- the header type gate is exactly `version_tuple >= (1, 1)`, in both header readers -/
theorem C07_gate_boundary :
    Gen.gate_common_Header_deserialize_0 = { op := .ge, bound := (1, 1) }
    ∧ Gen.gate_treeinfo_Header_deserialize_0 = { op := .ge, bound := (1, 1) } := by decide +kernel

/-- hence: 1.0 is exempt, 1.1 and 1.2 are not -/
theorem C07_gate_probe :
    Gen.gate_common_Header_deserialize_0.eval? (1, 0) = some false ∧ Gen.gate_common_Header_deserialize_0.eval? (1, 1) = some true
    ∧ Gen.gate_common_Header_deserialize_0.eval? (1, 2) = some true ∧ Gen.gate_treeinfo_Header_deserialize_0.eval? (1, 0) = some false
    ∧ Gen.gate_treeinfo_Header_deserialize_0.eval? (1, 1) = some true := by decide +kernel

/-- the nested readers run in the documented order and the top-level readers of the composite formats call them all -/
theorem C07_call_order :
    (callSeq Gen.struct_composeinfo_ComposeInfo_deserialize).map (·.2.1)
      = ["self.header.deserialize", "self.compose.deserialize", "self.release.deserialize", "self.base_product.deserialize",
         "self.variants.deserialize", "self.header.set_current_version"]
    ∧ (callSeq Gen.struct_treeinfo_TreeInfo_deserialize).map (·.2.1)
      = ["self.header.deserialize", "self.release.deserialize", "self.base_product.deserialize", "self.tree.deserialize", "self.variants.deserialize",
         "self.checksums.deserialize", "self.images.deserialize", "self.stage2.deserialize", "self.media.deserialize", "self", "self.header.set_current_version"]
    ∧ (callSeq Gen.struct_images_Images_deserialize).map (·.2.1)
      = ["self.header.deserialize", "self.compose.deserialize", "image_obj.deserialize", "self._add_1_1", "self.add", "self.header.set_current_version"] := by
  decide +kernel

/-- the GUARD under which each nested reader is called (not only the order): the base product is read exactly when the release
just read says it is layered (`if self.release.is_layered:`) — the model `ciFrontFill`/`tiFrontFill` does the same, which is what
makes the base-product section REQUIRED for a layered release; a layered-product variant's own release is read under
`self.type == "layered-product"`; every image goes through `add` (or `_add_1_1` on the other side of the generated gate); all other
section readers are called unconditionally -/
theorem C07_call_guards :
    (callSeq Gen.struct_composeinfo_ComposeInfo_deserialize).map (fun e => (e.2.1, e.2.2))
      = [("self.header.deserialize", []), ("self.compose.deserialize", []), ("self.release.deserialize", []),
         ("self.base_product.deserialize", ["if:self.release.is_layered"]), ("self.variants.deserialize", []),
         ("self.header.set_current_version", [])]
    ∧ (callSeq Gen.struct_treeinfo_TreeInfo_deserialize).map (fun e => (e.2.1, e.2.2))
      = [("self.header.deserialize", []), ("self.release.deserialize", []), ("self.base_product.deserialize", ["if:self.release.is_layered"]),
         ("self.tree.deserialize", []), ("self.variants.deserialize", []), ("self.checksums.deserialize", []), ("self.images.deserialize", []),
         ("self.stage2.deserialize", []), ("self.media.deserialize", []), ("self", []), ("self.header.set_current_version", [])]
    ∧ (callSeq Gen.struct_composeinfo_Variant_deserialize).map (fun e => (e.2.1, e.2.2))
      = [("self.release.deserialize", ["ifeq:self.type=layered-product"]), ("self.paths.deserialize", []),
         ("variant.deserialize", ["for:variant_uids"]), ("self.add", ["for:variant_uids"]), ("self", [])]
    ∧ (callSeq Gen.struct_composeinfo_Variants_deserialize).map (fun e => (e.2.1, e.2.2))
      = [("child_variants.add", ["for:data[self._section].values()", "for:var.get('variants', [])"]),
         ("variant.deserialize", ["for:variant_ids"]), ("self.add", ["for:variant_ids"])]
    ∧ (callSeq Gen.struct_treeinfo_Variants_deserialize).map (fun e => (e.2.1, e.2.2))
      = [("self.deserialize_0_0", ["gate:gate_treeinfo_Variants_deserialize_0"]), ("self.deserialize_1_0", ["notgate:gate_treeinfo_Variants_deserialize_0"]),
         ("variant.deserialize", ["for:variant_ids"]), ("self.add", ["for:variant_ids"]), ("self", [])]
    ∧ (callSeq Gen.struct_images_Images_deserialize).map (fun e => (e.2.1, e.2.2))
      = [("self.header.deserialize", []), ("self.compose.deserialize", []),
         ("image_obj.deserialize", ["for:data['payload']['images']", "for:data['payload']['images'][variant]", "for:data['payload']['images'][variant][arch]"]),
         ("self._add_1_1", ["for:data['payload']['images']", "for:data['payload']['images'][variant]", "for:data['payload']['images'][variant][arch]",
                            "gate:gate_images_Images_deserialize_0"]),
         ("self.add", ["for:data['payload']['images']", "for:data['payload']['images'][variant]", "for:data['payload']['images'][variant][arch]",
                       "notgate:gate_images_Images_deserialize_0"]),
         ("self.header.set_current_version", [])] := by
  decide +kernel

/-! ## soundness of a successful load -/

theorem loadsWith_ok {α} (fill : PyVal → Except Err α) (checks : α → List Step) (d : PyVal) (x : α)
    (h : loadsWith fill checks d = .ok x) : fill d = .ok x ∧ runSteps (checks x) = .ok () := by
  unfold loadsWith at h
  split at h
  · cases h
  · rename_i y hy
    split at h
    · cases h; exact ⟨hy, by assumption⟩
    · cases h

/-- a part that passed `validate()` satisfies every documented rule of its class -/
theorem conforms_of_validated (p : Part) (h : (Step.validate p).run = .ok ()) : p.Conforms := by
  intro r hr
  exact (runRules_ok_iff customs2 p.obj (genRules p.cls)).mp h r (C06_catalogue_sub p.cls r hr)

theorem conforms_of_steps (steps : List Step) (h : runSteps steps = .ok ()) (p : Part) (hp : Step.validate p ∈ steps) : p.Conforms :=
  conforms_of_validated p ((runSteps_ok_iff steps).mp h _ hp)

private theorem lfl {P : Prop} (h : LFlag.header = true → LFlag.tiHeader = true → LFlag.compose = true → LFlag.ciRelease = true → LFlag.ciBaseProduct = true
    → LFlag.ciVariant = true → LFlag.image = true → LFlag.disc = true → LFlag.loads = true → LFlag.tiRelease = true
    → LFlag.tiBaseProduct = true → LFlag.tiTree = true → P) : P := by
  obtain ⟨h1, h2, h3, h4, h5, h6, h7, h8, h9, h10, h11, h12, _⟩ := C07_flags
  exact h h1 h2 h3 h4 h5 h6 h7 h8 h9 h10 h11 h12

theorem simple_sound (fill : PyVal → Except Err SimpleM) (d : PyVal) (m : SimpleM) (h : loadsWith fill simpleChecks d = .ok m) :
    ∀ p ∈ simpleLoadedParts m, p.Conforms := by
  intro p hp
  refine conforms_of_steps _ (loadsWith_ok _ _ d m h).2 p ?_
  apply lfl; intro h1 _ h3 _ _ _ _ _ _ _ _ _
  simp only [simpleLoadedParts, List.mem_cons, List.not_mem_nil, or_false] at hp
  simp only [simpleChecks, vstep, h1, h3, if_true, List.mem_append, List.mem_cons, List.not_mem_nil, or_false]
  rcases hp with rfl | rfl <;> simp

/-- rpms: a loaded manifest has a valid header and compose section (its payload table is stored as given) -/
theorem C07_sound_rpms (d : PyVal) (m : SimpleM) (h : rpmsLoads d = .ok m) : ∀ p ∈ simpleLoadedParts m, p.Conforms :=
  simple_sound _ d m h
theorem C07_sound_modules (d : PyVal) (m : SimpleM) (h : modulesLoads d = .ok m) : ∀ p ∈ simpleLoadedParts m, p.Conforms :=
  simple_sound _ d m h
theorem C07_sound_extra_files (d : PyVal) (m : SimpleM) (h : extraFilesLoads d = .ok m) : ∀ p ∈ simpleLoadedParts m, p.Conforms :=
  simple_sound _ d m h

/-- images: header, compose and EVERY image of every cell of a loaded manifest satisfy the catalogue -/
theorem C07_sound_images (d : PyVal) (m : ImagesM) (h : imagesLoads d = .ok m) : ∀ p ∈ imagesLoadedParts m, p.Conforms := by
  intro p hp
  refine conforms_of_steps _ (loadsWith_ok _ _ d m h).2 p ?_
  apply lfl; intro h1 _ h3 _ _ _ h7 _ _ _ _ _
  simp only [imagesLoadedParts, List.mem_append, List.mem_cons, List.not_mem_nil, or_false, List.mem_map] at hp
  simp only [imagesChecks, vstep, h1, h3, h7, if_true, List.mem_append, List.mem_cons, List.not_mem_nil, or_false, List.mem_flatMap]
  rcases hp with (rfl | rfl) | ⟨o, ho, rfl⟩
  · simp
  · simp
  · exact Or.inl (Or.inr ⟨o, ho, rfl⟩)

theorem C07_sound_discinfo (d : PyVal) (m : DiscM) (h : discLoads d = .ok m) : ∀ p ∈ m.parts, p.Conforms := by
  intro p hp
  refine conforms_of_steps _ (loadsWith_ok _ _ d m h).2 p ?_
  apply lfl; intro _ _ _ _ _ _ _ h8 _ _ _ _
  simp only [DiscM.parts, List.mem_cons, List.not_mem_nil, or_false] at hp
  subst hp
  simp [discChecks, vstep, h8]

/-- composeinfo, leading sections (header, compose, release, base product of a layered release) -/
theorem C07_sound_composeinfo_front (d : PyVal) (f : CIFront) (h : ciFrontLoads d = .ok f) : ∀ p ∈ ciFrontParts f, p.Conforms := by
  intro p hp
  refine conforms_of_steps _ (loadsWith_ok _ _ d f h).2 p ?_
  apply lfl; intro h1 _ h3 h4 h5 _ _ _ _ _ _ _
  simp only [ciFrontParts, List.mem_append, List.mem_cons, List.not_mem_nil, or_false] at hp
  simp only [ciFrontChecks, vstep, h1, h3, h4, h5, if_true, List.mem_append, List.mem_cons, List.not_mem_nil, or_false]
  rcases hp with (rfl | rfl | rfl) | hb
  · simp
  · simp
  · simp
  · cases hbp : f.baseProduct with
    | none => simp [hbp] at hb
    | some bp =>
      simp only [hbp, List.mem_cons, List.not_mem_nil, or_false] at hb
      subst hb; simp

/-- composeinfo (every format version): every section and EVERY variant of the rebuilt forest, at any depth, and the release of
every layered product satisfy the catalogue.  The forest is the one `ciFill` rebuilds from the document by following the
`"%s-%s" % (uid, child)` references; the validate() calls are those of `Variant.deserialize` (last statement) and
`VariantBase.add` (on its argument) per the generated flags. -/
theorem C07_sound_composeinfo (d : PyVal) (m : ComposeInfoM) (h : ciLoads d = .ok m) : ∀ p ∈ ciLoadedParts m, p.Conforms := by
  intro p hp
  refine conforms_of_steps _ (loadsWith_ok _ _ d m h).2 p ?_
  apply lfl; intro h1 _ h3 h4 h5 h6 _ _ _ _ _ _
  simp only [ciLoadedParts, List.mem_append, List.mem_cons, List.not_mem_nil, or_false, List.mem_flatMap] at hp
  simp only [ciChecks, ciVariantChecks, vstep, h1, h3, h4, h5, h6, if_true, Bool.true_or, List.mem_append, List.mem_cons, List.not_mem_nil,
    or_false, List.mem_flatMap]
  rcases hp with ((rfl | rfl | rfl) | hb) | ⟨ev, hev, hpe⟩
  · simp
  · simp
  · simp
  · by_cases hl : m.layered = true
    · simp only [hl, if_true, List.mem_cons, List.not_mem_nil, or_false] at hb
      subst hb; simp [hl]
    · simp [hl] at hb
  · refine Or.inl (Or.inr ⟨ev, hev, ?_⟩)
    cases ev with
    | exit o =>
      simp only [List.mem_cons, List.not_mem_nil, or_false] at hpe
      subst hpe; simp
    | enter o rel =>
      by_cases hl : isLayeredProduct o = true
      · simp only [hl, if_true, List.mem_cons, List.not_mem_nil, or_false] at hpe
        subst hpe; simp [hl]
      · simp [hl] at hpe

/-- treeinfo (every format version and files without a header): every section — present or not — and every variant at any depth satisfy the catalogue -/
theorem C07_sound_treeinfo (d : PyVal) (m : TreeInfoM) (h : tiLoads d = .ok m) : ∀ p ∈ tiLoadedParts m, p.Conforms := by
  intro p hp
  refine conforms_of_steps _ (loadsWith_ok _ _ d m h).2 p ?_
  obtain ⟨_, h2, _, _, _, _, _, _, _, h10, h11, h12, h13, h14, h15, h16, h17, h18⟩ := C07_flags
  simp only [tiLoadedParts, List.mem_append, List.mem_cons, List.not_mem_nil, or_false, List.mem_map] at hp
  simp only [tiChecks, vstep, h2, h10, h11, h12, h13, h14, h15, h16, h17, h18, if_true, List.mem_append, List.mem_cons, List.not_mem_nil,
    or_false, List.mem_flatMap]
  rcases hp with ((((rfl | rfl) | hb) | rfl) | ⟨o, ho, rfl⟩) | (rfl | rfl | rfl | rfl | rfl)
  · simp
  · simp
  · by_cases hl : m.layered = true
    · simp only [hl, if_true, List.mem_cons, List.not_mem_nil, or_false] at hb
      subst hb; simp [hl]
    · simp [hl] at hb
  · simp
  · refine Or.inl (Or.inl (Or.inl (Or.inl (Or.inl (Or.inl (Or.inr ⟨o, ho, ?_⟩))))))
    simp
  · simp
  · simp
  · simp
  · simp
  · simp

/-! ## the header -/

/-- what a conforming header is: a string version matching `^\d+\.\d+$` (CPython's `$`: F15) -/
theorem header_conforms_iff (h : Obj) (hc : (⟨"common.Header", h⟩ : Part).Conforms) :
    ∃ s, h.get c!"version" = .str s ∧ pyMatches Spec.reHeaderVersion s = true := by
  have h1 := hc (.type c!"version" [.str]) (by show _ ∈ Spec.catalogue "common.Header"; decide)
  have h2 := hc (.re c!"version" [Spec.reHeaderVersion]) (by show _ ∈ Spec.catalogue "common.Header"; decide)
  replace h1 := Rule.check_type_any h1
  simp only [Rule.check] at h2
  cases hv : h.get c!"version" with
  | str s =>
    refine ⟨s, rfl, ?_⟩
    simp only [hv] at h2
    split at h2
    · rename_i hm
      simpa using hm
    · cases h2
  | _ => simp [hv, PyVal.isinstance] at h1

/-- C07, header: a document accepted by `Header.deserialize` has the class's own type whenever the generated gate holds for
its version, and the gate is `>= (1, 1)` (`C07_gate_boundary`) -/
theorem C07_header (expected : Str) (doc : PyVal) (h : Obj) (vt : Nat × Nat) (hf : headerFill expected doc = .ok (h, vt)) :
    (∃ sec ver, getItem doc c!"header" = .ok sec ∧ getItem sec c!"version" = .ok ver ∧ versionTuple ver = .ok vt ∧ h = [(c!"version", ver)])
    ∧ (Gen.gate_common_Header_deserialize_0.eval? vt = some true →
        ∃ sec ty, getItem doc c!"header" = .ok sec ∧ getItem sec c!"type" = .ok ty ∧ PyVal.pyEq ty (.str expected) = true) := by
  unfold headerFill at hf
  cases h1 : getItem doc c!"header" with
  | error e => simp [h1, bind, Except.bind] at hf
  | ok sec =>
    cases h2 : getItem sec c!"version" with
    | error e => simp [h1, h2, bind, Except.bind] at hf
    | ok ver =>
      cases h3 : versionTuple ver with
      | error e => simp [h1, h2, h3, bind, Except.bind] at hf
      | ok vt' =>
        simp only [h1, h2, h3, bind, Except.bind] at hf
        cases hg : Gen.gate_common_Header_deserialize_0.eval? vt' with
        | none => simp [hg] at hf
        | some b =>
          cases b with
          | false =>
            simp only [hg, Except.ok.injEq, Prod.mk.injEq] at hf
            obtain ⟨rfl, rfl⟩ := hf
            exact ⟨⟨sec, ver, rfl, h2, h3, rfl⟩, by intro hc; rw [hg] at hc; cases hc⟩
          | true =>
            simp only [hg] at hf
            cases h4 : getItem sec c!"type" with
            | error e => simp [h4] at hf
            | ok ty =>
              simp only [h4] at hf
              split at hf
              · rename_i heq
                simp only [Except.ok.injEq, Prod.mk.injEq] at hf
                obtain ⟨rfl, rfl⟩ := hf
                exact ⟨⟨sec, ver, rfl, h2, h3, rfl⟩, fun _ => ⟨sec, ty, rfl, h4, heq⟩⟩
              · cases hf

/-- the version tuple is only computed for a version that validates -/
theorem C07_version_validated (ver : PyVal) (vt : Nat × Nat) (h : versionTuple ver = .ok vt) :
    validate2 "common.Header" [(c!"version", ver)] = .ok () := by
  unfold versionTuple at h
  cases hv : validate2 "common.Header" [(c!"version", ver)] with
  | ok u => cases u; rfl
  | error e => simp [hv, bind, Except.bind] at h

def okIs (r : Except Err (Nat × Nat)) (v : Nat × Nat) : Bool := match r with | .ok x => x == v | .error _ => false
def rejected (r : Except Err (Nat × Nat)) : Bool := match r with | .ok _ => false | .error _ => true

/-- malformed versions are rejected (decided on the generated header rule): "1", "1.x", "1.2.3", "", an int, None -/
theorem C07_version_witnesses :
    rejected (versionTuple (.str c!"1")) = true ∧ rejected (versionTuple (.str c!"1.x")) = true
    ∧ rejected (versionTuple (.str c!"1.2.3")) = true ∧ rejected (versionTuple (.str [])) = true
    ∧ rejected (versionTuple (.int 12)) = true ∧ rejected (versionTuple .none) = true
    ∧ okIs (versionTuple (.str c!"1.2")) (1, 2) = true ∧ okIs (versionTuple (.str c!"1.10")) (1, 10) = true := by decide +kernel

/-- F15 witness: the trailing line feed is accepted by the header version rule -/
theorem C07_F15_witness : okIs (versionTuple (.str c!"1.2\n")) (1, 2) = true := by decide +kernel

/-! ## required sections and keys (JSON formats: header, version, payload, compose section and keys, payload table) -/

/-- a key lookup on a document that lacks the key fails (so the lemmas below apply to "delete one required key") -/
theorem C07_getItem_missing (kvs : List (Str × PyVal)) (k : Str) (h : kvs.all (fun kv => kv.1 != k) = true) :
    getItem (.dict kvs) k = .error .keyError := by
  unfold getItem
  have : kvs.find? (·.1 == k) = none := by
    rw [List.find?_eq_none]
    intro kv hkv
    have := List.all_eq_true.mp h kv hkv
    simpa using this
  simp [this]

theorem C07_required_header (cls : String) (expected table : Str) (g : Option Gate) (doc : PyVal) (e : Err)
    (h : getItem doc c!"header" = .error e) : ∀ m, simpleFill cls expected table g doc ≠ .ok m := by
  intro m hm
  simp [simpleFill, headerFill, h, bind, Except.bind] at hm

theorem C07_required_version (cls : String) (expected table : Str) (g : Option Gate) (doc sec : PyVal) (e : Err)
    (h1 : getItem doc c!"header" = .ok sec) (h2 : getItem sec c!"version" = .error e) :
    ∀ m, simpleFill cls expected table g doc ≠ .ok m := by
  intro m hm
  simp [simpleFill, headerFill, h1, h2, bind, Except.bind] at hm

/-- at a version for which the gate holds, the header type is required -/
theorem C07_required_type (expected : Str) (doc sec ver : PyVal) (vt : Nat × Nat) (e : Err)
    (h1 : getItem doc c!"header" = .ok sec) (h2 : getItem sec c!"version" = .ok ver) (h3 : versionTuple ver = .ok vt)
    (hg : Gen.gate_common_Header_deserialize_0.eval? vt = some true) (h4 : getItem sec c!"type" = .error e) :
    ∀ r, headerFill expected doc ≠ .ok r := by
  intro r hr
  simp [headerFill, h1, h2, h3, hg, h4, bind, Except.bind] at hr

/-- … and a type other than the class's own is refused -/
theorem C07_type_mismatch (expected : Str) (doc sec ver ty : PyVal) (vt : Nat × Nat)
    (h1 : getItem doc c!"header" = .ok sec) (h2 : getItem sec c!"version" = .ok ver) (h3 : versionTuple ver = .ok vt)
    (hg : Gen.gate_common_Header_deserialize_0.eval? vt = some true) (h4 : getItem sec c!"type" = .ok ty)
    (hne : PyVal.pyEq ty (.str expected) = false) : ∀ r, headerFill expected doc ≠ .ok r := by
  intro r hr
  simp [headerFill, h1, h2, h3, hg, h4, hne, bind, Except.bind] at hr

theorem C07_required_payload (cls : String) (expected table : Str) (doc : PyVal) (hv : Obj × (Nat × Nat)) (e : Err)
    (h1 : headerFill expected doc = .ok hv) (h2 : getItem doc c!"payload" = .error e) :
    ∀ m, simpleFill cls expected table none doc ≠ .ok m := by
  intro m hm
  simp [simpleFill, h1, h2, bind, Except.bind, pure, Except.pure] at hm

theorem C07_required_compose (vt : Nat × Nat) (payload : PyVal) (e : Err) (h : getItem payload c!"compose" = .error e) :
    ∀ o, composeFill vt payload ≠ .ok o := by
  intro o ho
  unfold composeFill at ho
  cases hn : gateB Gen.gate_composeinfo_Compose_deserialize_0 vt <;> simp [hn, h, bind, Except.bind] at ho

/-- `id` and `type` are required in every format version; `date` and `respin` from 0.3 on (below, `deserialize_0_3` decodes them
from the id and never looks at the keys: `C07_compose_0_2_no_date_witness`) -/
theorem C07_required_compose_key (vt : Nat × Nat) (payload sec : PyVal) (k : Str) (e : Err)
    (hk : k = c!"id" ∨ k = c!"type" ∨ ((k = c!"date" ∨ k = c!"respin") ∧ Gen.gate_composeinfo_Compose_deserialize_0.eval? vt = some false))
    (h1 : getItem payload c!"compose" = .ok sec) (h2 : getItem sec k = .error e) :
    ∀ o, composeFill vt payload ≠ .ok o := by
  intro o ho
  unfold composeFill gateB at ho
  cases hg : Gen.gate_composeinfo_Compose_deserialize_0.eval? vt with
  | none => simp [hg, bind, Except.bind] at ho
  | some b =>
    cases ha : getItem sec c!"id" <;> cases hb : getD sec c!"label" .none <;> cases hc : getItem sec c!"type" <;>
    cases hd : getItem sec c!"date" <;> cases he : getItem sec c!"respin" <;> cases b <;>
    rcases hk with rfl | rfl | ⟨rfl | rfl, hf⟩ <;> simp_all [bind, Except.bind]

/-- the payload table (`rpms` / `modules` / `extra_files`) is required -/
theorem C07_required_table (cls : String) (expected table : Str) (doc payload : PyVal) (hv : Obj × (Nat × Nat)) (c : Obj) (e : Err)
    (h1 : headerFill expected doc = .ok hv) (h2 : getItem doc c!"payload" = .ok payload) (h3 : composeFill hv.2 payload = .ok c)
    (h4 : getItem payload table = .error e) : ∀ m, simpleFill cls expected table none doc ≠ .ok m := by
  intro m hm
  simp [simpleFill, h1, h2, h3, h4, bind, Except.bind, pure, Except.pure] at hm


/-! ## every version: the readers selected by the version gates for older documents -/

/-- GENERATED OBLIGATION: every legacy reader is reached only through its class's dispatcher, under the generated gate, and the
dispatcher's `self.validate()` comes after the dispatch, unguarded, for BOTH branches (moving it into the `else:` branch, or returning
from the legacy branch, changes this list).  rpms `deserialize_0_3` files every entry through `self.add` (the refusals of `add` are
what rejects a bad 0.3 manifest); images `_add_1_1` files through `self.add` on both of its branches. -/
theorem C07_legacy_dispatch :
    callSeq Gen.struct_composeinfo_Compose_deserialize
      = [("call", "self.deserialize_0_3", ["gate:gate_composeinfo_Compose_deserialize_0"]),
         ("call", "self.deserialize_1_0", ["notgate:gate_composeinfo_Compose_deserialize_0"]), ("validate", "self", [])]
    ∧ callSeq Gen.struct_composeinfo_Release_deserialize
      = [("call", "self.deserialize_0_3", ["gate:gate_composeinfo_Release_deserialize_0"]),
         ("call", "self.deserialize_1_0", ["notgate:gate_composeinfo_Release_deserialize_0"]), ("validate", "self", [])]
    ∧ callSeq Gen.struct_rpms_Rpms_deserialize
      = [("call", "self.header.deserialize", []), ("call", "self.deserialize_0_3", ["gate:gate_rpms_Rpms_deserialize_0"]),
         ("call", "self.deserialize_1_0", ["notgate:gate_rpms_Rpms_deserialize_0"]), ("validate", "self", []),
         ("call", "self.header.set_current_version", [])] := by
  decide +kernel

theorem C07_legacy_dispatch_add :
    (callSeq Gen.struct_rpms_Rpms_deserialize_0_3).map (·.2.1) = ["self.compose.deserialize", "self.add", "self.add"]
    ∧ (callSeq Gen.struct_images_Images__add_1_1).map (fun e => (e.2.1, e.2.2))
      = [("self.add", ["ifeq:arch=src", "for:data['payload']['images'][variant]"]), ("self.add", ["ifne:arch=src"])] := by
  decide +kernel

theorem C07_legacy_dispatch_treeinfo :
    callSeq Gen.struct_treeinfo_Release_deserialize
      = [("call", "self.deserialize_0_0", ["gate:gate_treeinfo_Release_deserialize_0"]),
         ("call", "self.deserialize_0_3", ["notgate:gate_treeinfo_Release_deserialize_0", "gate:gate_treeinfo_Release_deserialize_1"]),
         ("call", "self.deserialize_1_0", ["notgate:gate_treeinfo_Release_deserialize_0", "notgate:gate_treeinfo_Release_deserialize_1"]),
         ("validate", "self", [])]
    ∧ callSeq Gen.struct_treeinfo_Tree_deserialize
      = [("call", "self.deserialize_0_0", ["gate:gate_treeinfo_Tree_deserialize_0"]),
         ("call", "self.deserialize_1_0", ["notgate:gate_treeinfo_Tree_deserialize_0"]), ("validate", "self", [])]
    ∧ callSeq Gen.struct_treeinfo_Media_deserialize
      = [("call", "self.deserialize_0_0", ["gate:gate_treeinfo_Media_deserialize_0"]),
         ("call", "self.deserialize_1_0", ["notgate:gate_treeinfo_Media_deserialize_0"]), ("validate", "self", [])]
    ∧ callSeq Gen.struct_treeinfo_VariantPaths_deserialize
      = [("call", "self.deserialize_0_0", ["gate:gate_treeinfo_VariantPaths_deserialize_0"]),
         ("call", "self.deserialize_0_3", ["notgate:gate_treeinfo_VariantPaths_deserialize_0", "gate:gate_treeinfo_VariantPaths_deserialize_1"]),
         ("call", "self.deserialize_1_0", ["notgate:gate_treeinfo_VariantPaths_deserialize_0", "notgate:gate_treeinfo_VariantPaths_deserialize_1"]),
         ("validate", "self", [])]
    ∧ (callSeq Gen.struct_treeinfo_Variants_deserialize).map (fun e => (e.2.1, e.2.2))
      = [("self.deserialize_0_0", ["gate:gate_treeinfo_Variants_deserialize_0"]), ("self.deserialize_1_0", ["notgate:gate_treeinfo_Variants_deserialize_0"]),
         ("variant.deserialize", ["for:variant_ids"]), ("self.add", ["for:variant_ids"]), ("self", [])]
    ∧ (callSeq Gen.struct_treeinfo_Variant_deserialize).map (fun e => (e.2.1, e.2.2))
      = [("self.deserialize_0_0", ["gate:gate_treeinfo_Variant_deserialize_1"]),
         ("self.deserialize_0_3", ["notgate:gate_treeinfo_Variant_deserialize_1", "gate:gate_treeinfo_Variant_deserialize_2"]),
         ("self.deserialize_1_0", ["notgate:gate_treeinfo_Variant_deserialize_1", "notgate:gate_treeinfo_Variant_deserialize_2"]),
         ("self.paths.deserialize", [])] := by
  decide +kernel

/-- no generated gate is a comparison the translator could not read: the models never leave a version undecided -/
theorem C07_gates_recognised : Gen.allGates.all (fun g => g.2.op != .unknown) = true := by decide +kernel

theorem gateB_total (g : Gate) (h : (g.op != .unknown) = true) (vt : Nat × Nat) : ∃ b, gateB g vt = .ok b := by
  unfold gateB Gate.eval?
  cases hop : g.op <;> simp_all

/-- for EVERY version each gate the JSON readers consult has a verdict -/
theorem C07_gates_total (vt : Nat × Nat) :
    (∃ b, gateB Gen.gate_composeinfo_Compose_deserialize_0 vt = .ok b) ∧ (∃ b, gateB Gen.gate_composeinfo_Release_deserialize_0 vt = .ok b)
    ∧ (∃ b, gateB Gen.gate_composeinfo_Variants_deserialize_0 vt = .ok b) ∧ (∃ b, gateB Gen.gate_composeinfo_Variant_deserialize_0 vt = .ok b)
    ∧ (∃ b, gateB Gen.gate_rpms_Rpms_deserialize_0 vt = .ok b) ∧ (∃ b, gateB Gen.gate_images_Images_deserialize_0 vt = .ok b)
    ∧ (∃ b, gateB Gen.gate_images_Image_deserialize_0 vt = .ok b) ∧ (∃ b, gateB Gen.gate_images_Images_add_0 vt = .ok b) := by
  refine ⟨gateB_total _ ?_ vt, gateB_total _ ?_ vt, gateB_total _ ?_ vt, gateB_total _ ?_ vt, gateB_total _ ?_ vt, gateB_total _ ?_ vt,
    gateB_total _ ?_ vt, gateB_total _ ?_ vt⟩ <;> decide

/-- … and the treeinfo selection (C05's `selsOf` of the eleven treeinfo gates) is defined for every version -/
theorem C07_ti_gates_total (vt : Nat × Nat) : ∃ b, tiIsLegacy vt = .ok b := by
  have h : ∀ g : Gate, (g.op != .unknown) = true → ∃ b, TI.Legacy.gateB g vt = .ok b := by
    intro g hg
    unfold TI.Legacy.gateB Gate.eval?
    cases hop : g.op <;> simp_all
  obtain ⟨b1, h1⟩ := h Gen.gate_treeinfo_Header_deserialize_0 (by decide)
  obtain ⟨b2, h2⟩ := h Gen.gate_treeinfo_Release_deserialize_0 (by decide)
  obtain ⟨b3, h3⟩ := h Gen.gate_treeinfo_Release_deserialize_1 (by decide)
  obtain ⟨b4, h4⟩ := h Gen.gate_treeinfo_Tree_deserialize_0 (by decide)
  obtain ⟨b5, h5⟩ := h Gen.gate_treeinfo_Variants_deserialize_0 (by decide)
  obtain ⟨b6, h6⟩ := h Gen.gate_treeinfo_VariantPaths_deserialize_0 (by decide)
  obtain ⟨b7, h7⟩ := h Gen.gate_treeinfo_VariantPaths_deserialize_1 (by decide)
  obtain ⟨b8, h8⟩ := h Gen.gate_treeinfo_Variant_deserialize_0 (by decide)
  obtain ⟨b9, h9⟩ := h Gen.gate_treeinfo_Variant_deserialize_1 (by decide)
  obtain ⟨b10, h10⟩ := h Gen.gate_treeinfo_Variant_deserialize_2 (by decide)
  obtain ⟨b11, h11⟩ := h Gen.gate_treeinfo_Images__fix_path_0 (by decide)
  obtain ⟨b12, h12⟩ := h Gen.gate_treeinfo_Stage2__fix_path_0 (by decide)
  obtain ⟨b13, h13⟩ := h Gen.gate_treeinfo_Checksums__fix_path_0 (by decide)
  obtain ⟨b14, h14⟩ := h Gen.gate_treeinfo_Media_deserialize_0 (by decide)
  unfold tiIsLegacy TI.Legacy.selsOf TI.Legacy.sel2
  simp only [h1, h2, h3, h4, h5, h6, h7, h8, h9, h10, h11, h12, h13, h14, bind, Except.bind, pure, Except.pure]
  cases b2 <;> cases b3 <;> cases b6 <;> cases b7 <;> cases b9 <;> cases b10 <;> exact ⟨_, rfl⟩

/-- C07, composeinfo, ANY format version: whatever a successful load returns — also through `Compose.deserialize_0_3` (< 0.3),
`Release.deserialize_0_3` (≤ 0.3, also for the release of a layered-product variant) and the prefix-derived variant table (< 1.0) —
every section, every variant of the forest at any depth and every layered product's release satisfy the rules writing enforces -/
theorem C07_sound_composeinfo_all_versions (d : PyVal) (m : ComposeInfoM) (h : ciLoads d = .ok m) : ∀ p ∈ ciLoadedParts m, p.Conforms :=
  C07_sound_composeinfo d m h

/-- C07, images, any format version (`Compose.deserialize_0_3` below 0.3, optional subvariant at ≤ 1.0, `_add_1_1` at ≤ 1.1) -/
theorem C07_sound_images_all_versions (d : PyVal) (m : ImagesM) (h : imagesLoads d = .ok m) : ∀ p ∈ imagesLoadedParts m, p.Conforms :=
  C07_sound_images d m h

/-- C07, rpms, any format version: header and compose section conform (the quantifier of C07 for rpms), and a manifest of format
≤ 0.3 was accepted entry by entry by `Rpms.add` (C05/C12's model: known binary arch, supported category, relative non-empty path,
well-formed NEVRAs, category/arch agreement) -/
theorem C07_sound_rpms_all_versions (d : PyVal) (m : SimpleM) (h : rpmsLoads d = .ok m) :
    (∀ p ∈ simpleLoadedParts m, p.Conforms)
    ∧ ∃ hv payload, headerFill Gen.HEADER_TYPE_Rpms d = .ok hv ∧ getItem d c!"payload" = .ok payload
        ∧ (Gen.gate_rpms_Rpms_deserialize_0.eval? hv.2 = some true → ∃ s, Mf.manifest03 payload = .ok s) := by
  refine ⟨C07_sound_rpms d m h, ?_⟩
  have hf := (loadsWith_ok _ _ d m h).1
  unfold simpleFill at hf
  cases h1 : headerFill Gen.HEADER_TYPE_Rpms d with
  | error e => simp [h1, bind, Except.bind] at hf
  | ok hv =>
    cases h2 : getItem d c!"payload" with
    | error e =>
      simp only [h1, h2, bind, Except.bind] at hf
      cases hg : gateB Gen.gate_rpms_Rpms_deserialize_0 hv.2 <;> simp [hg] at hf
    | ok payload =>
      refine ⟨hv, payload, rfl, rfl, ?_⟩
      intro hgt
      have hg : gateB Gen.gate_rpms_Rpms_deserialize_0 hv.2 = .ok true := by simp [gateB, hgt]
      simp only [h1, h2, hg, bind, Except.bind] at hf
      cases h3 : composeFill hv.2 payload with
      | error e => simp [h3] at hf
      | ok c =>
        simp only [h3] at hf
        cases h4 : Mf.manifest03 payload with
        | error e => simp [h4] at hf
        | ok s => exact ⟨s, rfl⟩

/-- C07, treeinfo, any format version and files without `[header]` (C05's reader of the pre-productmd layout, the `[product]`
reader of ≤ 0.3): every section — present or not — and every variant at any depth conform -/
theorem C07_sound_treeinfo_all_versions (d : PyVal) (m : TreeInfoM) (h : tiLoads d = .ok m) : ∀ p ∈ tiLoadedParts m, p.Conforms :=
  C07_sound_treeinfo d m h

/-- what `Compose.deserialize_0_3` does: below the generated gate the date, type and respin of the loaded compose are the ones
decoded from the id (`get_date_type_respin`), whatever the section says -/
theorem C07_compose_legacy_decoded (vt : Nat × Nat) (payload sec id : PyVal) (o : Obj)
    (hg : Gen.gate_composeinfo_Compose_deserialize_0.eval? vt = some true)
    (h1 : getItem payload c!"compose" = .ok sec) (h2 : getItem sec c!"id" = .ok id) (h : composeFill vt payload = .ok o) :
    ∃ dtr, Mf.dateTypeRespinOf id = .ok dtr ∧ o.get c!"date" = dtr.1 ∧ o.get c!"type" = dtr.2.1 ∧ o.get c!"respin" = dtr.2.2 := by
  unfold composeFill at h
  have hgb : gateB Gen.gate_composeinfo_Compose_deserialize_0 vt = .ok true := by simp [gateB, hg]
  simp only [hgb, h1, h2, bind, Except.bind] at h
  cases h3 : getD sec c!"label" .none with
  | error e => simp [h3] at h
  | ok l =>
    cases h4 : getItem sec c!"type" with
    | error e => simp [h3, h4] at h
    | ok t =>
      cases h5 : Mf.dateTypeRespinOf id with
      | error e => simp [h3, h4, h5] at h
      | ok dtr =>
        cases h6 : getD sec c!"final" (.bool false) with
        | error e => simp [h3, h4, h5, h6] at h
        | ok f =>
          simp only [h3, h4, h5, h6, if_true, Except.ok.injEq] at h
          subst h
          exact ⟨dtr, rfl, rfl, rfl, rfl⟩

/-- at ≤ 0.3 the release is read from `product`: a document that has only a `release` section is refused -/
theorem C07_required_product (vt : Nat × Nat) (data : PyVal) (e : Err)
    (hg : Gen.gate_composeinfo_Release_deserialize_0.eval? vt = some true) (h : getItem data c!"product" = .error e) :
    ∀ o, ciReleaseFill vt data ≠ .ok o := by
  intro o ho
  simp [ciReleaseFill, gateB, hg, h, bind, Except.bind] at ho

/-! ## non-vacuity -/

def exDoc (ver ty : String) : PyVal :=
  .dict [(c!"header", .dict [(c!"version", .str ver.toList), (c!"type", .str ty.toList)]),
         (c!"payload", .dict [(c!"compose", .dict [(c!"id", .str c!"F-1-20200101.n.0"), (c!"date", .str c!"20200101"), (c!"type", .str c!"nightly"),
                                                   (c!"respin", .int 0)]),
                              (c!"rpms", .dict [])])]

/-- a valid rpms document loads; the same document with another format's type is refused at 1.1 and 1.2 but not at 1.0;
a compose date that is not 8 digits is refused (the `validate()` at the end of `Compose.deserialize`) -/
example : isOk (rpmsLoads (exDoc "1.2" "productmd.rpms")) = true ∧ isOk (rpmsLoads (exDoc "1.1" "productmd.images")) = false
    ∧ isOk (rpmsLoads (exDoc "1.2" "productmd.images")) = false ∧ isOk (rpmsLoads (exDoc "1.0" "productmd.images")) = true := by
  decide +kernel

def exVarDoc (id uid : Str) (arches : List Str) (kids : Option (List Str)) : PyVal :=
  .dict ([(c!"id", .str id), (c!"uid", .str uid), (c!"name", .str c!"n"), (c!"type", .str c!"variant"),
          (c!"arches", .list (arches.map .str)), (c!"paths", .dict [])]
         ++ match kids with | some ks => [(c!"variants", .list (ks.map .str))] | none => [])

def exCIDoc (childArches : List Str) (refs : List Str) : PyVal :=
  .dict [(c!"header", .dict [(c!"version", .str c!"1.2"), (c!"type", .str c!"productmd.composeinfo")]),
         (c!"payload", .dict [(c!"compose", .dict [(c!"id", .str c!"F-1-20200101.n.0"), (c!"date", .str c!"20200101"), (c!"type", .str c!"nightly"),
                                                   (c!"respin", .int 0)]),
                              (c!"release", .dict [(c!"name", .str c!"F"), (c!"short", .str c!"F"), (c!"version", .str c!"1"), (c!"type", .str c!"ga")]),
                              (c!"variants", .dict [(c!"Server", exVarDoc c!"Server" c!"Server" [c!"x86_64"] (some refs)),
                                                    (c!"Server-optional", exVarDoc c!"optional" c!"Server-optional" childArches none)])])]

/-- a two-level compose loads (the forest is rebuilt: one top-level variant with one child); the same document with a child arch
outside its parent's, or with a reference to a child that has no entry, is refused -/
example : isOk (ciLoads (exCIDoc [c!"x86_64"] [c!"optional"])) = true
    ∧ (match ciLoads (exCIDoc [c!"x86_64"] [c!"optional"]) with | .ok m => m.variants.length == 1 && (m.variants.map (·.kids.length)) == [1] | _ => false) = true
    ∧ isOk (ciLoads (exCIDoc [c!"sparc"] [c!"optional"])) = false
    ∧ isOk (ciLoads (exCIDoc [c!"x86_64"] [c!"optional", c!"ghost"])) = false := by decide +kernel


/-! ### documents of older formats -/

def exOldCompose (id : Str) : PyVal := .dict [(c!"id", .str id), (c!"type", .str c!"whatever")]
def exOldVar (id uid : Str) (arches : List Str) : PyVal :=
  .dict [(c!"id", .str id), (c!"uid", .str uid), (c!"name", .str c!"n"), (c!"type", .str c!"variant"),
         (c!"arches", .list (arches.map .str)), (c!"paths", .dict [])]
/-- a composeinfo document in the layout of formats below 0.3: no header type, compose without date / respin (its `type` is there but
ignored), the release under `relKey`, variants related by UID prefix only -/
def exCIOld (ver : String) (relKey id : Str) (childArches : List Str) : PyVal :=
  .dict [(c!"header", .dict [(c!"version", .str ver.toList)]),
         (c!"payload", .dict [(c!"compose", exOldCompose id),
                              (relKey, .dict [(c!"name", .str c!"F"), (c!"short", .str c!"F"), (c!"version", .str c!"1")]),
                              (c!"variants", .dict [(c!"Server", exOldVar c!"Server" c!"Server" [c!"x86_64"]),
                                                    (c!"Server-optional", exOldVar c!"optional" c!"Server-optional" childArches)])])]

/-- C07 on a 0.2 composeinfo (witnesses, kernel-evaluated): the document loads, the forest is rebuilt from the UID prefixes (one
top-level variant with one child), date and respin are the ones inside the id; the same document is REFUSED when the child has an arch
its parent lacks, when the release sits under `release` instead of `product`, when the id carries no date, and at 0.4 (where
`date` / `respin` are required keys) -/
theorem C07_composeinfo_0_2_witness :
    (match ciLoads (exCIOld "0.2" c!"product" c!"F-1-20200101.n.3" [c!"x86_64"]) with
      | .ok m => m.variants.map (fun v => (CIVar.kids v).length) == [1] && PyVal.pyEq (m.compose.get c!"date") (PyVal.str c!"20200101")
                  && PyVal.pyEq (m.compose.get c!"respin") (PyVal.int 3) && PyVal.pyEq (m.compose.get c!"type") (PyVal.str c!"nightly")
      | .error _ => false) = true
    ∧ isOk (ciLoads (exCIOld "0.2" c!"product" c!"F-1-20200101.n.3" [c!"sparc"])) = false
    ∧ isOk (ciLoads (exCIOld "0.2" c!"release" c!"F-1-20200101.n.3" [c!"x86_64"])) = false
    ∧ isOk (ciLoads (exCIOld "0.2" c!"product" c!"F-1" [c!"x86_64"])) = false
    ∧ isOk (ciLoads (exCIOld "0.4" c!"release" c!"F-1-20200101.n.3" [c!"x86_64"])) = false := by decide +kernel

def exRpms03 (cat : Str) : PyVal :=
  .dict [(c!"header", .dict [(c!"version", .str c!"0.3")]),
         (c!"payload", .dict [(c!"compose", .dict [(c!"id", .str c!"F-1-20200101.n.0"), (c!"date", .str c!"20200101"), (c!"type", .str c!"nightly"), (c!"respin", .int 0)]),
            (c!"manifest", .dict [(c!"Server", .dict [(c!"x86_64", .dict [(c!"bash-0:4.3-1.src", .dict [(c!"bash-0:4.3-1.x86_64",
               .dict [(c!"path", .str c!"Server/b.rpm"), (c!"sigkey", .none), (c!"type", .str cat)])])])])])])]

/-- a 0.3 rpms manifest loads with the documented category `package`, and is refused with a category `Rpms.add` does not know -/
theorem C07_rpms_0_3_witness : isOk (rpmsLoads (exRpms03 c!"package")) = true ∧ isOk (rpmsLoads (exRpms03 c!"floppy")) = false := by
  decide +kernel

def exTI00 (arch : Str) : PyVal :=
  .dict [(c!"general", .dict [(c!"arch", .str arch), (c!"family", .str c!"Fedora"), (c!"version", .str c!"20"), (c!"variant", .str c!"Server")])]
def exTI03 (sec : Str) : PyVal :=
  .dict [(c!"header", .dict [(c!"version", .str c!"0.3")]),
         (sec, .dict [(c!"name", .str c!"Fedora"), (c!"short", .str c!"F"), (c!"version", .str c!"20")]),
         (c!"tree", .dict [(c!"arch", .str c!"x86_64"), (c!"build_timestamp", .str c!"1400000000"), (c!"platforms", .str c!"x86_64"), (c!"variants", .str c!"Server")]),
         (c!"variant-Server", .dict [(c!"id", .str c!"Server"), (c!"uid", .str c!"Server"), (c!"name", .str c!"Server"), (c!"type", .str c!"variant")])]

/-- a treeinfo without `[header]` is read as 0.0 from `[general]` (one variant, no timestamp: -1) and refused with a blank arch; a
0.3 treeinfo loads with `[product]` and is refused with `[release]` -/
theorem C07_treeinfo_legacy_witness :
    (match tiLoads (exTI00 c!"x86_64") with
      | .ok m => PyVal.pyEq (m.header.get c!"version") (PyVal.str c!"0.0") && m.variants.length == 1
                  && PyVal.pyEq (m.tree.get c!"build_timestamp") (PyVal.int (-1))
      | .error _ => false) = true
    ∧ isOk (tiLoads (exTI00 c!"")) = false
    ∧ isOk (tiLoads (exTI03 c!"product")) = true ∧ isOk (tiLoads (exTI03 c!"release")) = false := by decide +kernel


/-! ### child lists that form a cycle -/

def exCycDoc (vs : List (Str × PyVal)) : PyVal :=
  .dict [(c!"header", .dict [(c!"version", .str c!"1.2"), (c!"type", .str c!"productmd.composeinfo")]),
         (c!"payload", .dict [(c!"compose", .dict [(c!"id", .str c!"F-1-20200101.n.0"), (c!"date", .str c!"20200101"), (c!"type", .str c!"nightly"),
                                                   (c!"respin", .int 0)]),
                              (c!"release", .dict [(c!"name", .str c!"F"), (c!"short", .str c!"F"), (c!"version", .str c!"1"), (c!"type", .str c!"ga")]),
                              (c!"variants", .dict vs)])]

def isRecursion : Except Err ComposeInfoM → Bool | .error .runtimeError => true | _ => false

/-- a child-list cycle that is reachable from a top-level variant never ends (every reference builds a fresh `Variant`, so the
identity test "Dependency cycle detected" of `VariantBase.add` cannot fire on load): RecursionError — a self-loop and a 2-cycle
below `T`.  A cycle none of whose members is a top-level variant is never read: the document loads with no variants at all. -/
theorem C07_cycle_witness :
    isRecursion (ciLoads (exCycDoc [(c!"T", exVarDoc c!"T" c!"T" [c!"x86_64"] (some [c!"x"])),
                                    (c!"T-x", exVarDoc c!"x" c!"T" [c!"x86_64"] (some [c!"x"]))])) = true
    ∧ isRecursion (ciLoads (exCycDoc [(c!"T", exVarDoc c!"T" c!"T" [c!"x86_64"] (some [c!"x"])),
                                      (c!"T-x", exVarDoc c!"x" c!"T-x" [c!"x86_64"] (some [c!"y"])),
                                      (c!"T-x-y", exVarDoc c!"y" c!"T" [c!"x86_64"] (some [c!"x"]))])) = true
    ∧ (match ciLoads (exCycDoc [(c!"P-Q", exVarDoc c!"Q" c!"P-Q" [c!"x86_64"] (some [c!"R"])),
                                (c!"P-Q-R", exVarDoc c!"R" c!"P" [c!"x86_64"] (some [c!"Q"]))]) with
        | .ok m => m.variants.isEmpty
        | .error _ => false) = true := by decide +kernel

end PM
