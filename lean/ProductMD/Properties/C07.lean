import ProductMD.Properties.C06
import ProductMD.Model.Loads
import ProductMD.Model.LoadsForest
/-!
# C07 — documents violating a documented constraint are rejected on load

Model (`Model/Loads.lean`): `loads d = fill d >>= fun x => runSteps (checks x) >>= fun _ => pure x`, where `checks` are the
`validate()` calls of the section readers on what they filled — placed by the regenerated call structure — and `fill` is the
rest of the reader (key lookups, coercions, header version / type gate from the regenerated gate, `Images.add`).

Full statement: `loads d = ok x → ∀ part ∈ parts x, ∀ r ∈ catalogue part.cls, r holds` for every format, plus header and
required-key rejections.  Proved for all seven formats: rpms/modules/extra_files (header + compose, as the quantifier says), images (every image of
every cell), discinfo, composeinfo and treeinfo (every section, every variant of the rebuilt forest at any depth;
`Model/LoadsForest.lean`).  The readers that a version gate selects for documents older than 1.0 (composeinfo) / 0.4 (treeinfo) are
not modelled (C05): there the model answers `Err.other`, so the theorems say nothing about such documents.
-/
namespace PM
open PM.Val PM.Val.Loads

/-! ## obligations on the generated files -/

/-- every section reader ends by validating what it filled (no early return), `loads()` ends by validating the top-level
object, `add` validates the variant it is given -/
theorem C07_flags :
    LFlag.header = true ∧ LFlag.tiHeader = true ∧ LFlag.compose = true ∧ LFlag.ciRelease = true ∧ LFlag.ciBaseProduct = true
    ∧ LFlag.ciVariant = true ∧ LFlag.image = true ∧ LFlag.disc = true ∧ LFlag.loads = true ∧ LFlag.tiRelease = true
    ∧ LFlag.tiBaseProduct = true ∧ LFlag.tiTree = true ∧ LFlag.tiVariants = true ∧ LFlag.tiChecksums = true ∧ LFlag.tiImages = true
    ∧ LFlag.tiStage2 = true ∧ LFlag.tiMedia = true ∧ LFlag.addValidates = true := by decide +kernel

/-- the header type gate is exactly `version_tuple >= (1, 1)`, in both header readers -/
theorem C07_gate_boundary :
    Gen.gate_common_Header_deserialize_0 = { op := .ge, bound := (1, 1) }
    ∧ Gen.gate_treeinfo_Header_deserialize_0 = { op := .ge, bound := (1, 1) } := by decide +kernel

/-- hence: 1.0 is exempt, 1.1 and 1.2 are not -/
theorem C07_gate_probe :
    Gen.gate_common_Header_deserialize_0.eval? (1, 0) = some false ∧ Gen.gate_common_Header_deserialize_0.eval? (1, 1) = some true
    ∧ Gen.gate_common_Header_deserialize_0.eval? (1, 2) = some true ∧ Gen.gate_treeinfo_Header_deserialize_0.eval? (1, 0) = some false
    ∧ Gen.gate_treeinfo_Header_deserialize_0.eval? (1, 1) = some true := by decide +kernel

/-- the nested readers run in the documented order and the top-level readers of the composite formats call them all -/
theorem C07_call_order :
    (callSeq Gen.struct_composeinfo_ComposeInfo_deserialize).map (·.2.1)
      = ["self.header.deserialize", "self.compose.deserialize", "self.release.deserialize", "self.base_product.deserialize",
         "self.variants.deserialize", "self.header.set_current_version"]
    ∧ (callSeq Gen.struct_treeinfo_TreeInfo_deserialize).map (·.2.1)
      = ["self.header.deserialize", "self.release.deserialize", "self.base_product.deserialize", "self.tree.deserialize", "self.variants.deserialize",
         "self.checksums.deserialize", "self.images.deserialize", "self.stage2.deserialize", "self.media.deserialize", "self", "self.header.set_current_version"]
    ∧ (callSeq Gen.struct_images_Images_deserialize).map (·.2.1)
      = ["self.header.deserialize", "self.compose.deserialize", "image_obj.deserialize", "self._add_1_1", "self.add", "self.header.set_current_version"] := by
  decide +kernel

/-- the GUARD under which each nested reader is called (not only the order): the base product is read exactly when the release
just read says it is layered (`if self.release.is_layered:`) — the model `ciFrontFill`/`tiFrontFill` does the same, which is what
makes the base-product section REQUIRED for a layered release; a layered-product variant's own release is read under
`self.type == "layered-product"`; every image goes through `add` (or `_add_1_1` on the other side of the generated gate); all other
section readers are called unconditionally -/
theorem C07_call_guards :
    (callSeq Gen.struct_composeinfo_ComposeInfo_deserialize).map (fun e => (e.2.1, e.2.2))
      = [("self.header.deserialize", []), ("self.compose.deserialize", []), ("self.release.deserialize", []),
         ("self.base_product.deserialize", ["if:self.release.is_layered"]), ("self.variants.deserialize", []),
         ("self.header.set_current_version", [])]
    ∧ (callSeq Gen.struct_treeinfo_TreeInfo_deserialize).map (fun e => (e.2.1, e.2.2))
      = [("self.header.deserialize", []), ("self.release.deserialize", []), ("self.base_product.deserialize", ["if:self.release.is_layered"]),
         ("self.tree.deserialize", []), ("self.variants.deserialize", []), ("self.checksums.deserialize", []), ("self.images.deserialize", []),
         ("self.stage2.deserialize", []), ("self.media.deserialize", []), ("self", []), ("self.header.set_current_version", [])]
    ∧ (callSeq Gen.struct_composeinfo_Variant_deserialize).map (fun e => (e.2.1, e.2.2))
      = [("self.release.deserialize", ["ifeq:self.type=layered-product"]), ("self.paths.deserialize", []),
         ("variant.deserialize", ["for:variant_uids"]), ("self.add", ["for:variant_uids"]), ("self", [])]
    ∧ (callSeq Gen.struct_composeinfo_Variants_deserialize).map (fun e => (e.2.1, e.2.2))
      = [("child_variants.add", ["for:data[self._section].values()", "for:var.get('variants', [])"]),
         ("variant.deserialize", ["for:variant_ids"]), ("self.add", ["for:variant_ids"])]
    ∧ (callSeq Gen.struct_treeinfo_Variants_deserialize).map (fun e => (e.2.1, e.2.2))
      = [("self.deserialize_0_0", ["gate:gate_treeinfo_Variants_deserialize_0"]), ("self.deserialize_1_0", ["notgate:gate_treeinfo_Variants_deserialize_0"]),
         ("variant.deserialize", ["for:variant_ids"]), ("self.add", ["for:variant_ids"]), ("self", [])]
    ∧ (callSeq Gen.struct_images_Images_deserialize).map (fun e => (e.2.1, e.2.2))
      = [("self.header.deserialize", []), ("self.compose.deserialize", []),
         ("image_obj.deserialize", ["for:data['payload']['images']", "for:data['payload']['images'][variant]", "for:data['payload']['images'][variant][arch]"]),
         ("self._add_1_1", ["for:data['payload']['images']", "for:data['payload']['images'][variant]", "for:data['payload']['images'][variant][arch]",
                            "gate:gate_images_Images_deserialize_0"]),
         ("self.add", ["for:data['payload']['images']", "for:data['payload']['images'][variant]", "for:data['payload']['images'][variant][arch]",
                       "notgate:gate_images_Images_deserialize_0"]),
         ("self.header.set_current_version", [])] := by
  decide +kernel

/-! ## soundness of a successful load -/

theorem loadsWith_ok {α} (fill : PyVal → Except Err α) (checks : α → List Step) (d : PyVal) (x : α)
    (h : loadsWith fill checks d = .ok x) : fill d = .ok x ∧ runSteps (checks x) = .ok () := by
  unfold loadsWith at h
  split at h
  · cases h
  · rename_i y hy
    split at h
    · cases h; exact ⟨hy, by assumption⟩
    · cases h

/-- a part that passed `validate()` satisfies every documented rule of its class -/
theorem conforms_of_validated (p : Part) (h : (Step.validate p).run = .ok ()) : p.Conforms := by
  intro r hr
  exact (runRules_ok_iff customs2 p.obj (genRules p.cls)).mp h r (C06_catalogue_sub p.cls r hr)

theorem conforms_of_steps (steps : List Step) (h : runSteps steps = .ok ()) (p : Part) (hp : Step.validate p ∈ steps) : p.Conforms :=
  conforms_of_validated p ((runSteps_ok_iff steps).mp h _ hp)

private theorem lfl {P : Prop} (h : LFlag.header = true → LFlag.tiHeader = true → LFlag.compose = true → LFlag.ciRelease = true → LFlag.ciBaseProduct = true
    → LFlag.ciVariant = true → LFlag.image = true → LFlag.disc = true → LFlag.loads = true → LFlag.tiRelease = true
    → LFlag.tiBaseProduct = true → LFlag.tiTree = true → P) : P := by
  obtain ⟨h1, h2, h3, h4, h5, h6, h7, h8, h9, h10, h11, h12, _⟩ := C07_flags
  exact h h1 h2 h3 h4 h5 h6 h7 h8 h9 h10 h11 h12

theorem simple_sound (fill : PyVal → Except Err SimpleM) (d : PyVal) (m : SimpleM) (h : loadsWith fill simpleChecks d = .ok m) :
    ∀ p ∈ simpleLoadedParts m, p.Conforms := by
  intro p hp
  refine conforms_of_steps _ (loadsWith_ok _ _ d m h).2 p ?_
  apply lfl; intro h1 _ h3 _ _ _ _ _ _ _ _ _
  simp only [simpleLoadedParts, List.mem_cons, List.not_mem_nil, or_false] at hp
  simp only [simpleChecks, vstep, h1, h3, if_true, List.mem_append, List.mem_cons, List.not_mem_nil, or_false]
  rcases hp with rfl | rfl <;> simp

/-- rpms: a loaded manifest has a valid header and compose section (its payload table is stored as given) -/
theorem C07_sound_rpms (d : PyVal) (m : SimpleM) (h : rpmsLoads d = .ok m) : ∀ p ∈ simpleLoadedParts m, p.Conforms :=
  simple_sound _ d m h
theorem C07_sound_modules (d : PyVal) (m : SimpleM) (h : modulesLoads d = .ok m) : ∀ p ∈ simpleLoadedParts m, p.Conforms :=
  simple_sound _ d m h
theorem C07_sound_extra_files (d : PyVal) (m : SimpleM) (h : extraFilesLoads d = .ok m) : ∀ p ∈ simpleLoadedParts m, p.Conforms :=
  simple_sound _ d m h

/-- images: header, compose and EVERY image of every cell of a loaded manifest satisfy the catalogue -/
theorem C07_sound_images (d : PyVal) (m : ImagesM) (h : imagesLoads d = .ok m) : ∀ p ∈ imagesLoadedParts m, p.Conforms := by
  intro p hp
  refine conforms_of_steps _ (loadsWith_ok _ _ d m h).2 p ?_
  apply lfl; intro h1 _ h3 _ _ _ h7 _ _ _ _ _
  simp only [imagesLoadedParts, List.mem_append, List.mem_cons, List.not_mem_nil, or_false, List.mem_map] at hp
  simp only [imagesChecks, vstep, h1, h3, h7, if_true, List.mem_append, List.mem_cons, List.not_mem_nil, or_false, List.mem_flatMap]
  rcases hp with (rfl | rfl) | ⟨o, ho, rfl⟩
  · simp
  · simp
  · exact Or.inl (Or.inr ⟨o, ho, rfl⟩)

theorem C07_sound_discinfo (d : PyVal) (m : DiscM) (h : discLoads d = .ok m) : ∀ p ∈ m.parts, p.Conforms := by
  intro p hp
  refine conforms_of_steps _ (loadsWith_ok _ _ d m h).2 p ?_
  apply lfl; intro _ _ _ _ _ _ _ h8 _ _ _ _
  simp only [DiscM.parts, List.mem_cons, List.not_mem_nil, or_false] at hp
  subst hp
  simp [discChecks, vstep, h8]

/-- composeinfo, leading sections (header, compose, release, base product of a layered release) -/
theorem C07_sound_composeinfo_front (d : PyVal) (f : CIFront) (h : ciFrontLoads d = .ok f) : ∀ p ∈ ciFrontParts f, p.Conforms := by
  intro p hp
  refine conforms_of_steps _ (loadsWith_ok _ _ d f h).2 p ?_
  apply lfl; intro h1 _ h3 h4 h5 _ _ _ _ _ _ _
  simp only [ciFrontParts, List.mem_append, List.mem_cons, List.not_mem_nil, or_false] at hp
  simp only [ciFrontChecks, vstep, h1, h3, h4, h5, if_true, List.mem_append, List.mem_cons, List.not_mem_nil, or_false]
  rcases hp with (rfl | rfl | rfl) | hb
  · simp
  · simp
  · simp
  · cases hbp : f.baseProduct with
    | none => simp [hbp] at hb
    | some bp =>
      simp only [hbp, List.mem_cons, List.not_mem_nil, or_false] at hb
      subst hb; simp

/-- composeinfo (documents of format 1.0 and later; the readers the version gates select for older documents are C05's and
answer `Err.other` here, never `ok`): every section and EVERY variant of the rebuilt forest, at any depth, and the release of
every layered product satisfy the catalogue.  The forest is the one `ciFill` rebuilds from the document by following the
`"%s-%s" % (uid, child)` references; the validate() calls are those of `Variant.deserialize` (last statement) and
`VariantBase.add` (on its argument) per the generated flags. -/
theorem C07_sound_composeinfo (d : PyVal) (m : ComposeInfoM) (h : ciLoads d = .ok m) : ∀ p ∈ ciLoadedParts m, p.Conforms := by
  intro p hp
  refine conforms_of_steps _ (loadsWith_ok _ _ d m h).2 p ?_
  apply lfl; intro h1 _ h3 h4 h5 h6 _ _ _ _ _ _
  simp only [ciLoadedParts, List.mem_append, List.mem_cons, List.not_mem_nil, or_false, List.mem_flatMap] at hp
  simp only [ciChecks, ciVariantChecks, vstep, h1, h3, h4, h5, h6, if_true, Bool.true_or, List.mem_append, List.mem_cons, List.not_mem_nil,
    or_false, List.mem_flatMap]
  rcases hp with ((rfl | rfl | rfl) | hb) | ⟨ev, hev, hpe⟩
  · simp
  · simp
  · simp
  · by_cases hl : m.layered = true
    · simp only [hl, if_true, List.mem_cons, List.not_mem_nil, or_false] at hb
      subst hb; simp [hl]
    · simp [hl] at hb
  · refine Or.inl (Or.inr ⟨ev, hev, ?_⟩)
    cases ev with
    | exit o =>
      simp only [List.mem_cons, List.not_mem_nil, or_false] at hpe
      subst hpe; simp
    | enter o rel =>
      by_cases hl : isLayeredProduct o = true
      · simp only [hl, if_true, List.mem_cons, List.not_mem_nil, or_false] at hpe
        subst hpe; simp [hl]
      · simp [hl] at hpe

/-- treeinfo (documents newer than 0.3; older ones and files without a header are read by the legacy readers, C05's, and answer
`Err.other` here): every section — present or not — and every variant at any depth satisfy the catalogue -/
theorem C07_sound_treeinfo (d : PyVal) (m : TreeInfoM) (h : tiLoads d = .ok m) : ∀ p ∈ tiLoadedParts m, p.Conforms := by
  intro p hp
  refine conforms_of_steps _ (loadsWith_ok _ _ d m h).2 p ?_
  obtain ⟨_, h2, _, _, _, _, _, _, _, h10, h11, h12, h13, h14, h15, h16, h17, h18⟩ := C07_flags
  simp only [tiLoadedParts, List.mem_append, List.mem_cons, List.not_mem_nil, or_false, List.mem_map] at hp
  simp only [tiChecks, vstep, h2, h10, h11, h12, h13, h14, h15, h16, h17, h18, if_true, List.mem_append, List.mem_cons, List.not_mem_nil,
    or_false, List.mem_flatMap]
  rcases hp with ((((rfl | rfl) | hb) | rfl) | ⟨o, ho, rfl⟩) | (rfl | rfl | rfl | rfl | rfl)
  · simp
  · simp
  · by_cases hl : m.layered = true
    · simp only [hl, if_true, List.mem_cons, List.not_mem_nil, or_false] at hb
      subst hb; simp [hl]
    · simp [hl] at hb
  · simp
  · refine Or.inl (Or.inl (Or.inl (Or.inl (Or.inl (Or.inl (Or.inr ⟨o, ho, ?_⟩))))))
    simp
  · simp
  · simp
  · simp
  · simp
  · simp

/-! ## the header -/

/-- what a conforming header is: a string version matching `^\d+\.\d+$` (CPython's `$`: F15) -/
theorem header_conforms_iff (h : Obj) (hc : (⟨"common.Header", h⟩ : Part).Conforms) :
    ∃ s, h.get c!"version" = .str s ∧ pyMatches Spec.reHeaderVersion s = true := by
  have h1 := hc (.type c!"version" [.str]) (by show _ ∈ Spec.catalogue "common.Header"; decide)
  have h2 := hc (.re c!"version" [Spec.reHeaderVersion]) (by show _ ∈ Spec.catalogue "common.Header"; decide)
  replace h1 := Rule.check_type_any h1
  simp only [Rule.check] at h2
  cases hv : h.get c!"version" with
  | str s =>
    refine ⟨s, rfl, ?_⟩
    simp only [hv] at h2
    split at h2
    · rename_i hm
      simpa using hm
    · cases h2
  | _ => simp [hv, PyVal.isinstance] at h1

/-- C07, header: a document accepted by `Header.deserialize` has the class's own type whenever the generated gate holds for
its version, and the gate is `>= (1, 1)` (`C07_gate_boundary`) -/
theorem C07_header (expected : Str) (doc : PyVal) (h : Obj) (vt : Nat × Nat) (hf : headerFill expected doc = .ok (h, vt)) :
    (∃ sec ver, getItem doc c!"header" = .ok sec ∧ getItem sec c!"version" = .ok ver ∧ versionTuple ver = .ok vt ∧ h = [(c!"version", ver)])
    ∧ (Gen.gate_common_Header_deserialize_0.eval? vt = some true →
        ∃ sec ty, getItem doc c!"header" = .ok sec ∧ getItem sec c!"type" = .ok ty ∧ PyVal.pyEq ty (.str expected) = true) := by
  unfold headerFill at hf
  cases h1 : getItem doc c!"header" with
  | error e => simp [h1, bind, Except.bind] at hf
  | ok sec =>
    cases h2 : getItem sec c!"version" with
    | error e => simp [h1, h2, bind, Except.bind] at hf
    | ok ver =>
      cases h3 : versionTuple ver with
      | error e => simp [h1, h2, h3, bind, Except.bind] at hf
      | ok vt' =>
        simp only [h1, h2, h3, bind, Except.bind] at hf
        cases hg : Gen.gate_common_Header_deserialize_0.eval? vt' with
        | none => simp [hg] at hf
        | some b =>
          cases b with
          | false =>
            simp only [hg, Except.ok.injEq, Prod.mk.injEq] at hf
            obtain ⟨rfl, rfl⟩ := hf
            exact ⟨⟨sec, ver, rfl, h2, h3, rfl⟩, by intro hc; rw [hg] at hc; cases hc⟩
          | true =>
            simp only [hg] at hf
            cases h4 : getItem sec c!"type" with
            | error e => simp [h4] at hf
            | ok ty =>
              simp only [h4] at hf
              split at hf
              · rename_i heq
                simp only [Except.ok.injEq, Prod.mk.injEq] at hf
                obtain ⟨rfl, rfl⟩ := hf
                exact ⟨⟨sec, ver, rfl, h2, h3, rfl⟩, fun _ => ⟨sec, ty, rfl, h4, heq⟩⟩
              · cases hf

/-- the version tuple is only computed for a version that validates -/
theorem C07_version_validated (ver : PyVal) (vt : Nat × Nat) (h : versionTuple ver = .ok vt) :
    validate2 "common.Header" [(c!"version", ver)] = .ok () := by
  unfold versionTuple at h
  cases hv : validate2 "common.Header" [(c!"version", ver)] with
  | ok u => cases u; rfl
  | error e => simp [hv, bind, Except.bind] at h

def okIs (r : Except Err (Nat × Nat)) (v : Nat × Nat) : Bool := match r with | .ok x => x == v | .error _ => false
def rejected (r : Except Err (Nat × Nat)) : Bool := match r with | .ok _ => false | .error _ => true

/-- malformed versions are rejected (decided on the generated header rule): "1", "1.x", "1.2.3", "", an int, None -/
theorem C07_version_witnesses :
    rejected (versionTuple (.str c!"1")) = true ∧ rejected (versionTuple (.str c!"1.x")) = true
    ∧ rejected (versionTuple (.str c!"1.2.3")) = true ∧ rejected (versionTuple (.str [])) = true
    ∧ rejected (versionTuple (.int 12)) = true ∧ rejected (versionTuple .none) = true
    ∧ okIs (versionTuple (.str c!"1.2")) (1, 2) = true ∧ okIs (versionTuple (.str c!"1.10")) (1, 10) = true := by decide +kernel

/-- F15 witness: the trailing line feed is accepted by the header version rule -/
theorem C07_F15_witness : okIs (versionTuple (.str c!"1.2\n")) (1, 2) = true := by decide +kernel

/-! ## required sections and keys (JSON formats: header, version, payload, compose section and keys, payload table) -/

/-- a key lookup on a document that lacks the key fails (so the lemmas below apply to "delete one required key") -/
theorem C07_getItem_missing (kvs : List (Str × PyVal)) (k : Str) (h : kvs.all (fun kv => kv.1 != k) = true) :
    getItem (.dict kvs) k = .error .keyError := by
  unfold getItem
  have : kvs.find? (·.1 == k) = none := by
    rw [List.find?_eq_none]
    intro kv hkv
    have := List.all_eq_true.mp h kv hkv
    simpa using this
  simp [this]

theorem C07_required_header (cls : String) (expected table : Str) (g : Option Gate) (doc : PyVal) (e : Err)
    (h : getItem doc c!"header" = .error e) : ∀ m, simpleFill cls expected table g doc ≠ .ok m := by
  intro m hm
  simp [simpleFill, headerFill, h, bind, Except.bind] at hm

theorem C07_required_version (cls : String) (expected table : Str) (g : Option Gate) (doc sec : PyVal) (e : Err)
    (h1 : getItem doc c!"header" = .ok sec) (h2 : getItem sec c!"version" = .error e) :
    ∀ m, simpleFill cls expected table g doc ≠ .ok m := by
  intro m hm
  simp [simpleFill, headerFill, h1, h2, bind, Except.bind] at hm

/-- at a version for which the gate holds, the header type is required -/
theorem C07_required_type (expected : Str) (doc sec ver : PyVal) (vt : Nat × Nat) (e : Err)
    (h1 : getItem doc c!"header" = .ok sec) (h2 : getItem sec c!"version" = .ok ver) (h3 : versionTuple ver = .ok vt)
    (hg : Gen.gate_common_Header_deserialize_0.eval? vt = some true) (h4 : getItem sec c!"type" = .error e) :
    ∀ r, headerFill expected doc ≠ .ok r := by
  intro r hr
  simp [headerFill, h1, h2, h3, hg, h4, bind, Except.bind] at hr

/-- … and a type other than the class's own is refused -/
theorem C07_type_mismatch (expected : Str) (doc sec ver ty : PyVal) (vt : Nat × Nat)
    (h1 : getItem doc c!"header" = .ok sec) (h2 : getItem sec c!"version" = .ok ver) (h3 : versionTuple ver = .ok vt)
    (hg : Gen.gate_common_Header_deserialize_0.eval? vt = some true) (h4 : getItem sec c!"type" = .ok ty)
    (hne : PyVal.pyEq ty (.str expected) = false) : ∀ r, headerFill expected doc ≠ .ok r := by
  intro r hr
  simp [headerFill, h1, h2, h3, hg, h4, hne, bind, Except.bind] at hr

theorem C07_required_payload (cls : String) (expected table : Str) (doc : PyVal) (hv : Obj × (Nat × Nat)) (e : Err)
    (h1 : headerFill expected doc = .ok hv) (h2 : getItem doc c!"payload" = .error e) :
    ∀ m, simpleFill cls expected table none doc ≠ .ok m := by
  intro m hm
  simp [simpleFill, h1, h2, bind, Except.bind] at hm

theorem C07_required_compose (vt : Nat × Nat) (payload : PyVal) (e : Err) (h : getItem payload c!"compose" = .error e) :
    ∀ o, composeFill vt payload ≠ .ok o := by
  intro o ho
  unfold composeFill at ho
  cases hn : notLegacy Gen.gate_composeinfo_Compose_deserialize_0 vt <;> simp [hn, h, bind, Except.bind] at ho

theorem C07_required_compose_key (vt : Nat × Nat) (payload sec : PyVal) (k : Str) (e : Err)
    (hk : k = c!"id" ∨ k = c!"type" ∨ k = c!"date" ∨ k = c!"respin")
    (h1 : getItem payload c!"compose" = .ok sec) (h2 : getItem sec k = .error e) :
    ∀ o, composeFill vt payload ≠ .ok o := by
  intro o ho
  unfold composeFill at ho
  cases hn : notLegacy Gen.gate_composeinfo_Compose_deserialize_0 vt <;>
    cases ha : getItem sec c!"id" <;> cases hb : getD sec c!"label" .none <;> cases hc : getItem sec c!"type" <;>
    cases hd : getItem sec c!"date" <;> cases he : getItem sec c!"respin" <;>
    rcases hk with rfl | rfl | rfl | rfl <;> simp_all [bind, Except.bind]

/-- the payload table (`rpms` / `modules` / `extra_files`) is required -/
theorem C07_required_table (cls : String) (expected table : Str) (doc payload : PyVal) (hv : Obj × (Nat × Nat)) (c : Obj) (e : Err)
    (h1 : headerFill expected doc = .ok hv) (h2 : getItem doc c!"payload" = .ok payload) (h3 : composeFill hv.2 payload = .ok c)
    (h4 : getItem payload table = .error e) : ∀ m, simpleFill cls expected table none doc ≠ .ok m := by
  intro m hm
  simp [simpleFill, h1, h2, h3, h4, bind, Except.bind] at hm

/-! ## non-vacuity -/

def exDoc (ver ty : String) : PyVal :=
  .dict [(c!"header", .dict [(c!"version", .str ver.toList), (c!"type", .str ty.toList)]),
         (c!"payload", .dict [(c!"compose", .dict [(c!"id", .str c!"F-1-20200101.n.0"), (c!"date", .str c!"20200101"), (c!"type", .str c!"nightly"),
                                                   (c!"respin", .int 0)]),
                              (c!"rpms", .dict [])])]

/-- a valid rpms document loads; the same document with another format's type is refused at 1.1 and 1.2 but not at 1.0;
a compose date that is not 8 digits is refused (the `validate()` at the end of `Compose.deserialize`) -/
example : isOk (rpmsLoads (exDoc "1.2" "productmd.rpms")) = true ∧ isOk (rpmsLoads (exDoc "1.1" "productmd.images")) = false
    ∧ isOk (rpmsLoads (exDoc "1.2" "productmd.images")) = false ∧ isOk (rpmsLoads (exDoc "1.0" "productmd.images")) = true := by
  decide +kernel

def exVarDoc (id uid : Str) (arches : List Str) (kids : Option (List Str)) : PyVal :=
  .dict ([(c!"id", .str id), (c!"uid", .str uid), (c!"name", .str c!"n"), (c!"type", .str c!"variant"),
          (c!"arches", .list (arches.map .str)), (c!"paths", .dict [])]
         ++ match kids with | some ks => [(c!"variants", .list (ks.map .str))] | none => [])

def exCIDoc (childArches : List Str) (refs : List Str) : PyVal :=
  .dict [(c!"header", .dict [(c!"version", .str c!"1.2"), (c!"type", .str c!"productmd.composeinfo")]),
         (c!"payload", .dict [(c!"compose", .dict [(c!"id", .str c!"F-1-20200101.n.0"), (c!"date", .str c!"20200101"), (c!"type", .str c!"nightly"),
                                                   (c!"respin", .int 0)]),
                              (c!"release", .dict [(c!"name", .str c!"F"), (c!"short", .str c!"F"), (c!"version", .str c!"1"), (c!"type", .str c!"ga")]),
                              (c!"variants", .dict [(c!"Server", exVarDoc c!"Server" c!"Server" [c!"x86_64"] (some refs)),
                                                    (c!"Server-optional", exVarDoc c!"optional" c!"Server-optional" childArches none)])])]

/-- a two-level compose loads (the forest is rebuilt: one top-level variant with one child); the same document with a child arch
outside its parent's, or with a reference to a child that has no entry, is refused -/
example : isOk (ciLoads (exCIDoc [c!"x86_64"] [c!"optional"])) = true
    ∧ (match ciLoads (exCIDoc [c!"x86_64"] [c!"optional"]) with | .ok m => m.variants.length == 1 && (m.variants.map (·.kids.length)) == [1] | _ => false) = true
    ∧ isOk (ciLoads (exCIDoc [c!"sparc"] [c!"optional"])) = false
    ∧ isOk (ciLoads (exCIDoc [c!"x86_64"] [c!"optional", c!"ghost"])) = false := by decide +kernel

end PM
