import ProductMD.Proofs.Validation
import ProductMD.Generated.Regexes
/-!
# C06 — only objects meeting every documented field constraint can be written

Model (`Model/Validation.lean`): `dumps` = the walk of `validate()` calls and writer-side failure sources that `dump()`
performs up to the end of `serialize()`, first failure wins; `parts` = the objects the writer reaches (every section, every
variant of the forest at any depth, every image of every cell).  The rule lists `validate()` runs are regenerated from the
source (`Gen.allClasses`), the places where the writers call `validate()` are read from the regenerated call structure
(`Gen.struct_*`), the documented rules are the hand-written catalogue `Spec.catalogue`.

Full statement of the property:  ∀ obj, (∃ p ∈ parts obj, ∃ r ∈ catalogue p.cls, r violated on p) →
  ∃ e, dumps obj = .error e ∧ (e = .typeError ∨ e = .valueError);   conversely all rules hold → dumps obj = .ok.
The rejection half is proved in full (`C06_enforced_*`).  The error-class half is FALSE of the code (finding F19: a
hand-bound validator body can raise AttributeError), so it is proved as `C06_errclass_*_partial` with the exact exception:
the error of a failed dump is TypeError/ValueError unless it is the error of a hand-bound validator body (or the IndexError of
a treeinfo without variants, F12).  The converse carries every non-validator failure source of the writers as a hypothesis.
-/
namespace PM
open PM.Val

/-! ## obligations on the generated files (decide) -/

/-- every documented rule is among the rules `validate()` runs for its class (table form) -/
theorem C06_catalogue_enforced : ∀ e ∈ Spec.catalogueTable, rulesSubset e.2 (genRules e.1) = true := by decide +kernel

/-- nothing undocumented is enforced: every rule `validate()` runs is in the catalogue (needed for the converse) -/
theorem C06_catalogue_complete : ∀ e ∈ Gen.allClasses, rulesSubset e.2.flat (Spec.catalogue e.1) = true := by decide +kernel

theorem C06_catalogue_sub (cls : String) : ∀ r ∈ Spec.catalogue cls, r ∈ genRules cls :=
  catalogue_mem_of_table C06_catalogue_enforced cls

theorem C06_generated_sub (cls : String) : ∀ r ∈ genRules cls, r ∈ Spec.catalogue cls :=
  genRules_mem_of_table C06_catalogue_complete cls

/-- every validator body outside the translated idiom is one the catalogue names (and `customs2` binds) -/
theorem C06_customs_bound : ∀ n ∈ Gen.customNames, n ∈ Spec.customNames := by decide +kernel

/-- the label patterns of the source are exactly `^<NAME>-\d+\.\d+$` for the documented label names -/
theorem C06_label_patterns : Gen.re_composeinfo_LABEL_RE_LIST = Gen.LABEL_NAMES.map Spec.reLabel := by decide +kernel

/-- every nested writer calls `self.validate()` where the model places it (first statement; last for the composeinfo
variant; after the early `return` of an empty treeinfo section; after `set_current_version()` in the JSON header) -/
theorem C06_flags :
    Flag.headerJsonSetsThenValidates = true ∧ Flag.compose = true ∧ Flag.ciRelease = true ∧ Flag.ciBaseProduct = true
    ∧ Flag.ciVariants = true ∧ Flag.ciVariantLast = true ∧ Flag.image = true ∧ Flag.dumpTop = true ∧ Flag.tiDumpTop = true
    ∧ Flag.tiHeader = true ∧ Flag.tiRelease = true ∧ Flag.tiBaseProduct = true ∧ Flag.tiTree = true ∧ Flag.tiVariants = true
    ∧ Flag.tiVariant = true ∧ Flag.tiChecksums = true ∧ Flag.tiImages = true ∧ Flag.tiStage2 = true ∧ Flag.tiMedia = true
    ∧ Flag.disc = true := by decide +kernel

/-- the order of the nested writers of the composite formats (what `parts`/`steps` follow) -/
theorem C06_call_order :
    (callSeq Gen.struct_composeinfo_ComposeInfo_serialize).map (·.2.1)
      = ["self.header.serialize", "self.compose.serialize", "self.release.serialize", "self.base_product.serialize", "self.variants.serialize"]
    ∧ (callSeq Gen.struct_images_Images_serialize).map (·.2.1) = ["self.header.serialize", "self.compose.serialize", "image_obj.serialize"]
    ∧ (callSeq Gen.struct_treeinfo_TreeInfo_serialize).map (·.2.1)
      = ["self", "self.header.serialize", "self.release.serialize", "self.base_product.serialize", "self.tree.serialize", "self.variants.serialize",
         "self.checksums.serialize", "self.images.serialize", "self.stage2.serialize", "self.media.serialize", "general.serialize"]
    ∧ (callSeq Gen.struct_rpms_Rpms_serialize).map (·.2.1) = ["self.header.serialize", "self.compose.serialize"]
    ∧ (callSeq Gen.struct_modules_Modules_serialize).map (·.2.1) = ["self", "self.header.serialize", "self.compose.serialize"]
    ∧ (callSeq Gen.struct_extra_files_ExtraFiles_serialize).map (·.2.1) = ["self", "self.header.serialize", "self.compose.serialize"] := by
  decide +kernel

private theorem fl {P : Prop} (h : Flag.headerJsonSetsThenValidates = true → Flag.compose = true → Flag.ciRelease = true → Flag.ciBaseProduct = true
    → Flag.ciVariants = true → Flag.ciVariantLast = true → Flag.image = true → Flag.dumpTop = true → Flag.tiDumpTop = true
    → Flag.tiHeader = true → Flag.tiRelease = true → Flag.tiBaseProduct = true → Flag.tiTree = true → Flag.tiVariants = true
    → Flag.tiVariant = true → Flag.tiChecksums = true → Flag.tiImages = true → Flag.tiStage2 = true → Flag.tiMedia = true
    → Flag.disc = true → P) : P := by
  obtain ⟨h1, h2, h3, h4, h5, h6, h7, h8, h9, h10, h11, h12, h13, h14, h15, h16, h17, h18, h19, h20⟩ := C06_flags
  exact h h1 h2 h3 h4 h5 h6 h7 h8 h9 h10 h11 h12 h13 h14 h15 h16 h17 h18 h19 h20

/-! ## every part is validated by the walk -/

theorem mem_steps_simple (m : SimpleM) (p : Part) (hp : p ∈ m.parts) : Step.validate p ∈ m.steps := by
  apply fl; intro h1 h2 _ _ _ _ _ _ _ _ _ _ _ _ _ _ _ _ _ _
  simp only [SimpleM.parts, List.mem_cons, List.not_mem_nil, or_false] at hp
  simp only [SimpleM.steps, jsonHeaderSteps, h1, h2, vstep, if_true, List.mem_append, List.mem_cons, List.not_mem_nil, or_false]
  rcases hp with rfl | rfl <;> simp

theorem mem_steps_images (m : ImagesM) (p : Part) (hp : p ∈ m.parts) : Step.validate p ∈ m.steps := by
  apply fl; intro h1 h2 _ _ _ _ h7 _ _ _ _ _ _ _ _ _ _ _ _ _
  simp only [ImagesM.parts, List.mem_append, List.mem_cons, List.not_mem_nil, or_false, List.mem_map] at hp
  simp only [ImagesM.steps, jsonHeaderSteps, h1, h2, h7, vstep, if_true, List.mem_append, List.mem_cons, List.not_mem_nil, or_false,
    List.mem_flatMap]
  rcases hp with (rfl | rfl) | ⟨o, ho, rfl⟩
  · simp
  · simp
  · exact Or.inr ⟨o, ho, rfl⟩

theorem mem_evSteps (h3 : Flag.ciRelease = true) (h6 : Flag.ciVariantLast = true) (p : Part) :
    ∀ (evs : List Ev) (seen : List PyVal), (∃ ev ∈ evs, p ∈ evParts ev) → Step.validate p ∈ evSteps seen evs := by
  intro evs
  induction evs with
  | nil => intro _ h; simp at h
  | cons ev rest ih =>
    intro seen h
    obtain ⟨ev', hev, hp⟩ := h
    rcases List.mem_cons.mp hev with rfl | hrest
    · cases ev' with
      | enter o rel =>
        simp only [evParts] at hp
        split at hp
        · rename_i hl
          simp only [List.mem_cons, List.not_mem_nil, or_false] at hp
          subst hp
          simp [evSteps, hl, vstep, h3]
        · simp at hp
      | exit o =>
        simp only [evParts, List.mem_cons, List.not_mem_nil, or_false] at hp
        subst hp
        simp [evSteps, vstep, h6]
    · have := ih
      cases ev with
      | enter o rel =>
        simp only [evSteps, List.mem_append]
        exact Or.inr (ih seen ⟨ev', hrest, hp⟩)
      | exit o =>
        simp only [evSteps, List.mem_append]
        exact Or.inr (ih _ ⟨ev', hrest, hp⟩)

theorem mem_steps_composeinfo (m : ComposeInfoM) (p : Part) (hp : p ∈ m.parts) : Step.validate p ∈ m.steps := by
  apply fl; intro h1 h2 h3 h4 h5 h6 _ _ _ _ _ _ _ _ _ _ _ _ _ _
  simp only [ComposeInfoM.parts, List.mem_append, List.mem_cons, List.not_mem_nil, or_false, List.mem_flatMap] at hp
  simp only [ComposeInfoM.steps, jsonHeaderSteps, h1, h2, h3, h4, h5, vstep, if_true, List.mem_append, List.mem_cons, List.not_mem_nil, or_false]
  rcases hp with (((rfl | rfl | rfl) | hb) | rfl) | hev
  · simp
  · simp
  · simp
  · by_cases hl : m.layered = true
    · simp only [hl, if_true, List.mem_cons, List.not_mem_nil, or_false] at hb
      subst hb
      simp [hl]
    · simp [hl] at hb
  · simp
  · exact Or.inr (mem_evSteps h3 h6 p m.events [] hev)

theorem mem_steps_treeinfo (m : TreeInfoM) (p : Part) (hp : p ∈ m.parts) : Step.validate p ∈ m.steps := by
  apply fl; intro _ _ _ _ _ _ _ _ _ h10 h11 h12 h13 h14 h15 h16 h17 h18 h19 _
  simp only [TreeInfoM.parts, List.mem_append, List.mem_cons, List.not_mem_nil, or_false, List.mem_map] at hp
  simp only [TreeInfoM.steps, TreeInfoM.variantSteps, h10, h11, h12, h13, h14, h15, h16, h17, h18, h19, vstep, if_true, List.mem_append, List.mem_cons,
    List.not_mem_nil, or_false, List.mem_flatMap]
  rcases hp with (((((((rfl | rfl) | hb) | (rfl | rfl)) | ⟨o, ho, rfl⟩) | rfl) | hi) | hs) | hm
  · simp
  · simp
  · by_cases hl : m.layered = true
    · simp only [hl, if_true, List.mem_cons, List.not_mem_nil, or_false] at hb
      subst hb; simp [hl]
    · simp [hl] at hb
  · simp
  · simp
  · refine Or.inl (Or.inl (Or.inl (Or.inl (Or.inl (Or.inr ⟨o, ho, ?_⟩)))))
    simp
  · simp
  · by_cases hl : m.hasImages = true
    · simp only [hl, if_true, List.mem_cons, List.not_mem_nil, or_false] at hi
      subst hi; simp [hl]
    · simp [hl] at hi
  · by_cases hl : m.hasStage2 = true
    · simp only [hl, if_true, List.mem_cons, List.not_mem_nil, or_false] at hs
      subst hs; simp [hl]
    · simp [hl] at hs
  · by_cases hl : m.hasMedia = true
    · simp only [hl, if_true, List.mem_cons, List.not_mem_nil, or_false] at hm
      subst hm; simp [hl]
    · simp [hl] at hm

theorem mem_steps_discinfo (m : DiscM) (p : Part) (hp : p ∈ m.parts) : Step.validate p ∈ m.steps := by
  apply fl; intro _ _ _ _ _ _ _ h8 _ _ _ _ _ _ _ _ _ _ _ h20
  simp only [DiscM.parts, List.mem_cons, List.not_mem_nil, or_false] at hp
  subst hp
  simp [DiscM.steps, vstep, h8, h20]

/-! ## C06, rejection half: a violated documented rule on any written part makes the dump fail -/

private theorem enforced (steps : List Step) (p : Part) (hmem : Step.validate p ∈ steps) (hv : p.Violates) :
    ∃ e, runSteps steps = .error e :=
  runSteps_error_of_mem steps _ hmem (validate2_rejects C06_catalogue_sub p hv)

/-- rpms / modules / extra_files (header and compose are the validated parts) -/
theorem C06_enforced_simple (m : SimpleM) (p : Part) (hp : p ∈ m.parts) (hv : p.Violates) : ∃ e, m.dumps = .error e :=
  enforced m.steps p (mem_steps_simple m p hp) hv

/-- images: any image in any cell -/
theorem C06_enforced_images (m : ImagesM) (p : Part) (hp : p ∈ m.parts) (hv : p.Violates) : ∃ e, m.dumps = .error e :=
  enforced m.steps p (mem_steps_images m p hp) hv

/-- composeinfo: any section, any variant of the forest at any depth, the release of any layered product -/
theorem C06_enforced_composeinfo (m : ComposeInfoM) (p : Part) (hp : p ∈ m.parts) (hv : p.Violates) : ∃ e, m.dumps = .error e :=
  enforced m.steps p (mem_steps_composeinfo m p hp) hv

/-- treeinfo: any section, any variant at any depth -/
theorem C06_enforced_treeinfo (m : TreeInfoM) (p : Part) (hp : p ∈ m.parts) (hv : p.Violates) : ∃ e, m.dumps = .error e :=
  enforced m.steps p (mem_steps_treeinfo m p hp) hv

theorem C06_enforced_discinfo (m : DiscM) (p : Part) (hp : p ∈ m.parts) (hv : p.Violates) : ∃ e, m.dumps = .error e :=
  enforced m.steps p (mem_steps_discinfo m p hp) hv

/-! ## `parts` really is every variant of the forest (any depth) -/

/-- `v` occurs in the forest `vs` at some depth -/
inductive CIVar.In : CIVar → List CIVar → Prop where
  | top (v : CIVar) (vs : List CIVar) : CIVar.In v (v :: vs)
  | next (v w : CIVar) (vs : List CIVar) : CIVar.In v vs → CIVar.In v (w :: vs)
  | under (v : CIVar) (k : Str) (a r : Obj) (kids vs : List CIVar) : CIVar.In v kids → CIVar.In v (CIVar.mk k a r kids :: vs)

/-- every variant of the forest, at any depth, contributes its `exit` event, i.e. a `composeinfo.Variant` part -/
theorem C06_parts_forest (v : CIVar) (vs : List CIVar) (h : CIVar.In v vs) :
    ∀ parent, ∃ par, Ev.exit (ciVarObj par v.attrs v.kids) ∈ eventsList parent vs := by
  induction h with
  | top vs =>
    intro parent
    cases v with
    | mk k a r kids =>
      exact ⟨parent, by simp [eventsList, CIVar.events, CIVar.attrs, CIVar.kids]⟩
  | next w vs _ ih =>
    intro parent
    obtain ⟨par, hpar⟩ := ih parent
    exact ⟨par, by simp only [eventsList, List.mem_append]; exact Or.inr hpar⟩
  | under k a r kids vs _ ih =>
    intro parent
    obtain ⟨par, hpar⟩ := ih (parentPseudo a)
    exact ⟨par, by simp only [eventsList, CIVar.events, List.mem_append, List.mem_cons]; exact Or.inl (Or.inr (Or.inl hpar))⟩

/-! ## C06, error class (partial: F19) -/

def TV (e : Err) : Prop := e = .typeError ∨ e = .valueError

/-- the writer-side checks of the walk fail only with errors satisfying `P` -/
def CheckIn (P : Err → Prop) (steps : List Step) : Prop :=
  ∀ r, Step.check r ∈ steps → ∀ e, r = .error e → P e

/-- error of a failed walk: TypeError/ValueError from a translated rule, an error of a writer-side check, or the error of a
hand-bound validator body -/
theorem errclass_of_steps (P : Err → Prop) (steps : List Step) (hc : CheckIn P steps) (e : Err) (h : runSteps steps = .error e) :
    TV e ∨ P e ∨ ∃ p, Step.validate p ∈ steps ∧ ∃ n, customs2 n p.obj = .error e := by
  obtain ⟨s, hs, hrun⟩ := runSteps_error_src steps e h
  cases s with
  | validate p =>
    rcases runRules_errclass customs2 p.obj (genRules p.cls) e hrun with h1 | h1 | ⟨_, _, n, _, hn⟩
    · exact Or.inl (Or.inl h1)
    · exact Or.inl (Or.inr h1)
    · exact Or.inr (Or.inr ⟨p, hs, n, hn⟩)
  | check r => exact Or.inr (Or.inl (hc r hs e hrun))

theorem pySortedOk_tv (v : PyVal) (e : Err) (h : pySortedOk v = .error e) : e = .typeError := by
  unfold pySortedOk at h
  split at h <;> (try split at h) <;> simp_all

theorem hashable_tv (v : PyVal) (e : Err) (h : hashable v = .error e) : e = .typeError := by
  unfold hashable at h
  split at h <;> simp_all

theorem hashableElems_tv (v : PyVal) (e : Err) (h : hashableElems v = .error e) : e = .typeError := by
  unfold hashableElems at h
  split at h <;> (try split at h) <;> simp_all

theorem pyIntOk_tv (v : PyVal) (e : Err) (h : pyIntOk v = .error e) : e = .typeError := by
  unfold pyIntOk at h
  split at h <;> simp_all

theorem checkIn_vstep (P) (flag : Bool) (cls : String) (o : Obj) : CheckIn P (vstep flag cls o) := by
  intro r hr; unfold vstep at hr; split at hr <;> simp at hr

theorem checkIn_append {P} {a b : List Step} (ha : CheckIn P a) (hb : CheckIn P b) : CheckIn P (a ++ b) := by
  intro r hr e he
  rcases List.mem_append.mp hr with h | h
  · exact ha r h e he
  · exact hb r h e he

theorem checkIn_nil (P) : CheckIn P [] := by intro r hr; simp at hr

theorem checkIn_single (P : Err → Prop) (r : Except Err Unit) (h : ∀ e, r = .error e → P e) : CheckIn P [Step.check r] := by
  intro r' hr e he
  simp only [List.mem_cons, List.not_mem_nil, or_false, Step.check.injEq] at hr
  subst hr; exact h e he

theorem checkIn_ite (P) (c : Bool) {a b : List Step} (ha : CheckIn P a) (hb : CheckIn P b) : CheckIn P (if c then a else b) := by
  split
  · exact ha
  · exact hb

theorem checkIn_flatMap (P) {α} (l : List α) (f : α → List Step) (h : ∀ a, CheckIn P (f a)) : CheckIn P (l.flatMap f) := by
  intro r hr e he
  obtain ⟨a, _, ha⟩ := List.mem_flatMap.mp hr
  exact h a r ha e he

theorem checkIn_evSteps : ∀ (evs : List Ev) (seen : List PyVal), CheckIn TV (evSteps seen evs) := by
  intro evs
  induction evs with
  | nil => intro _; simpa [evSteps] using checkIn_nil TV
  | cons ev rest ih =>
    intro seen
    cases ev with
    | enter o rel =>
      simp only [evSteps]
      refine checkIn_append (checkIn_append (checkIn_append ?_ ?_) ?_) (ih seen)
      · exact checkIn_single _ _ fun e he => Or.inl (pySortedOk_tv _ e he)
      · exact checkIn_ite _ _ (checkIn_vstep _ _ _ _) (checkIn_nil _)
      · exact checkIn_single _ _ fun e he => Or.inl (hashableElems_tv _ e he)
    | exit o =>
      simp only [evSteps]
      refine checkIn_append (checkIn_append ?_ (checkIn_vstep _ _ _ _)) (ih _)
      have h1 : CheckIn TV [Step.check (hashable (o.get (L "uid")))] :=
        checkIn_single _ _ fun e he => Or.inl (hashable_tv _ e he)
      have h2 : CheckIn TV [Step.check (if seen.any (PyVal.pyEq (o.get (L "uid"))) then .error .valueError else .ok ())] :=
        checkIn_single _ _ fun e he => by
          split at he
          · exact Or.inr (by cases he; rfl)
          · cases he
      exact checkIn_append h1 h2

theorem checkIn_jsonHeader (P) (h : Obj) : CheckIn P (jsonHeaderSteps h) := by
  unfold jsonHeaderSteps
  split
  · intro r hr; simp at hr
  · exact checkIn_vstep _ _ _ _

/-- composeinfo: a failed dump raises TypeError or ValueError — except when the failure is the error of a hand-bound
validator body run on a validated part (F19: `_validate_uid` on a non-string uid without parent gives AttributeError). -/
theorem C06_errclass_composeinfo_partial (m : ComposeInfoM) (e : Err) (h : m.dumps = .error e) :
    e = .typeError ∨ e = .valueError ∨ ∃ p, Step.validate p ∈ m.steps ∧ ∃ n, customs2 n p.obj = .error e := by
  have hc : CheckIn TV m.steps := by
    unfold ComposeInfoM.steps
    exact checkIn_append (checkIn_append (checkIn_append (checkIn_append (checkIn_append (checkIn_append (checkIn_vstep _ _ _ _)
      (checkIn_jsonHeader _ _)) (checkIn_vstep _ _ _ _)) (checkIn_vstep _ _ _ _)) (checkIn_ite _ _ (checkIn_vstep _ _ _ _) (checkIn_nil _)))
      (checkIn_vstep _ _ _ _)) (checkIn_evSteps _ _)
  rcases errclass_of_steps TV m.steps hc e h with (h1 | h1) | (h1 | h1) | h1
  · exact Or.inl h1
  · exact Or.inr (Or.inl h1)
  · exact Or.inl h1
  · exact Or.inr (Or.inl h1)
  · exact Or.inr (Or.inr h1)

/-- images: no writer-side check at all -/
theorem C06_errclass_images_partial (m : ImagesM) (e : Err) (h : m.dumps = .error e) :
    e = .typeError ∨ e = .valueError ∨ ∃ p, Step.validate p ∈ m.steps ∧ ∃ n, customs2 n p.obj = .error e := by
  have hc : CheckIn (fun _ => False) m.steps := by
    unfold ImagesM.steps
    exact checkIn_append (checkIn_append (checkIn_append (checkIn_vstep _ _ _ _) (checkIn_jsonHeader _ _)) (checkIn_vstep _ _ _ _))
      (checkIn_flatMap _ _ _ fun o => checkIn_vstep _ _ _ _)
  rcases errclass_of_steps _ m.steps hc e h with (h1 | h1) | h1 | h1
  · exact Or.inl h1
  · exact Or.inr (Or.inl h1)
  · exact h1.elim
  · exact Or.inr (Or.inr h1)

/-- treeinfo: TypeError/ValueError, or IndexError (no variants: F12), or the error of a hand-bound validator body
(F19: `Images._validate_image_paths` on a non-string path gives AttributeError). -/
theorem C06_errclass_treeinfo_partial (m : TreeInfoM) (e : Err) (h : m.dumps = .error e) :
    e = .typeError ∨ e = .valueError ∨ (e = .indexError ∧ m.variants = [])
      ∨ ∃ p, Step.validate p ∈ m.steps ∧ ∃ n, customs2 n p.obj = .error e := by
  have hc : CheckIn (fun e => TV e ∨ (e = .indexError ∧ m.variants = [])) m.steps := by
    unfold TreeInfoM.steps
    refine checkIn_append (checkIn_append (checkIn_append (checkIn_append (checkIn_append (checkIn_append (checkIn_append (checkIn_append
      (checkIn_append (checkIn_append (checkIn_append (checkIn_vstep _ _ _ _) (checkIn_vstep _ _ _ _)) (checkIn_vstep _ _ _ _))
      (checkIn_ite _ _ (checkIn_vstep _ _ _ _) (checkIn_nil _))) (checkIn_vstep _ _ _ _)) (checkIn_vstep _ _ _ _)) ?_) (checkIn_vstep _ _ _ _))
      (checkIn_ite _ _ (checkIn_vstep _ _ _ _) (checkIn_nil _))) (checkIn_ite _ _ (checkIn_vstep _ _ _ _) (checkIn_nil _))) ?_) ?_
    · refine checkIn_flatMap _ _ _ fun o => ?_
      unfold TreeInfoM.variantSteps
      refine checkIn_append (checkIn_vstep _ _ _ _) (checkIn_single _ _ fun e he => ?_)
      split at he
      · cases he
      · exact Or.inl (Or.inl (by cases he; rfl))
    · refine checkIn_ite _ _ (checkIn_append (checkIn_vstep _ _ _ _) ?_) (checkIn_nil _)
      have h1 : CheckIn (fun e => TV e ∨ (e = .indexError ∧ m.variants = [])) [Step.check (pyIntOk (m.media.get (L "discnum")))] :=
        checkIn_single _ _ fun e he => Or.inl (Or.inl (pyIntOk_tv _ e he))
      have h2 : CheckIn (fun e => TV e ∨ (e = .indexError ∧ m.variants = [])) [Step.check (pyIntOk (m.media.get (L "totaldiscs")))] :=
        checkIn_single _ _ fun e he => Or.inl (Or.inl (pyIntOk_tv _ e he))
      exact checkIn_append h1 h2
    · refine checkIn_single _ _ fun e he => ?_
      split at he
      · rename_i hemp
        exact Or.inr ⟨by cases he; rfl, by simpa using hemp⟩
      · cases he
  rcases errclass_of_steps _ m.steps hc e h with (h1 | h1) | ((h1 | h1) | h1) | h1
  · exact Or.inl h1
  · exact Or.inr (Or.inl h1)
  · exact Or.inl h1
  · exact Or.inr (Or.inl h1)
  · exact Or.inr (Or.inr (Or.inl h1))
  · exact Or.inr (Or.inr (Or.inr h1))

/-! ## C06, converse: conforming objects are written -/

/-- a walk succeeds when every validated part conforms and no writer-side check fires -/
theorem converse_of_steps (steps : List Step) (hv : ∀ p, Step.validate p ∈ steps → p.Conforms)
    (hc : ∀ r, Step.check r ∈ steps → r = .ok ()) : runSteps steps = .ok () := by
  refine (runSteps_ok_iff steps).mpr fun s hs => ?_
  cases s with
  | validate p => exact validate2_accepts C06_generated_sub p (hv p hs)
  | check r => exact hc r hs

/-- a class without documented rules conforms trivially -/
theorem conforms_of_empty (p : Part) (h : Spec.catalogue p.cls = []) : p.Conforms := by
  intro r hr; rw [h] at hr; cases hr

theorem validate_mem_vstep {flag : Bool} {cls : String} {o : Obj} {p : Part} (h : Step.validate p ∈ vstep flag cls o) : p = ⟨cls, o⟩ := by
  unfold vstep at h
  split at h
  · simpa using h
  · cases h

theorem validate_mem_jsonHeader {h : Obj} {p : Part} (hm : Step.validate p ∈ jsonHeaderSteps h) :
    p = ⟨"common.Header", withCurrentVersion h⟩ := by
  have hflag := C06_flags.1
  unfold jsonHeaderSteps at hm
  simp only [hflag, if_true, List.mem_cons, List.not_mem_nil, or_false, Step.validate.injEq] at hm
  exact hm

/-- images: every valid manifest is written (no writer-side failure source exists in the walk) -/
theorem C06_converse_images (m : ImagesM) (h : ∀ p ∈ m.parts, p.Conforms) : m.dumps = .ok () := by
  refine converse_of_steps m.steps (fun p hp => ?_) (fun r hr => ?_)
  · simp only [ImagesM.steps, List.mem_append, List.mem_flatMap] at hp
    rcases hp with ((hp | hp) | hp) | ⟨o, ho, hp⟩
    · exact validate_mem_vstep hp ▸ conforms_of_empty _ (by decide)
    · exact validate_mem_jsonHeader hp ▸ h _ (by simp [ImagesM.parts])
    · exact validate_mem_vstep hp ▸ h _ (by simp [ImagesM.parts])
    · exact validate_mem_vstep hp ▸ h _ (by simp only [ImagesM.parts, List.mem_append, List.mem_map]; exact Or.inr ⟨o, ho, rfl⟩)
  · exfalso
    simp only [ImagesM.steps, jsonHeaderSteps, vstep, List.mem_append, List.mem_flatMap] at hr
    rcases hr with ((hr | hr) | hr) | ⟨o, _, hr⟩ <;> (repeat (split at hr)) <;> simp at hr

/-- rpms / modules / extra_files (`m.cls` one of the three top-level classes, none of which has a documented rule) -/
theorem C06_converse_simple (m : SimpleM) (hcls : Spec.catalogue m.cls = []) (h : ∀ p ∈ m.parts, p.Conforms) : m.dumps = .ok () := by
  refine converse_of_steps m.steps (fun p hp => ?_) (fun r hr => ?_)
  · simp only [SimpleM.steps, List.mem_append] at hp
    rcases hp with (hp | hp) | hp
    · exact validate_mem_vstep hp ▸ conforms_of_empty _ hcls
    · exact validate_mem_jsonHeader hp ▸ h _ (by simp [SimpleM.parts])
    · exact validate_mem_vstep hp ▸ h _ (by simp [SimpleM.parts])
  · exfalso
    simp only [SimpleM.steps, jsonHeaderSteps, vstep, List.mem_append] at hr
    rcases hr with (hr | hr) | hr <;> (repeat (split at hr)) <;> simp at hr

theorem C06_converse_discinfo (m : DiscM) (h : ∀ p ∈ m.parts, p.Conforms) : m.dumps = .ok () := by
  refine converse_of_steps m.steps (fun p hp => ?_) (fun r hr => ?_)
  · simp only [DiscM.steps, List.mem_append] at hp
    rcases hp with hp | hp <;> exact validate_mem_vstep hp ▸ h _ (by simp [DiscM.parts])
  · exfalso
    simp only [DiscM.steps, vstep, List.mem_append] at hr
    rcases hr with hr | hr <;> (repeat (split at hr)) <;> simp at hr

theorem validate_mem_evSteps (p : Part) : ∀ (evs : List Ev) (seen : List PyVal),
    Step.validate p ∈ evSteps seen evs → ∃ ev ∈ evs, p ∈ evParts ev := by
  intro evs
  induction evs with
  | nil => intro _ h; simp [evSteps] at h
  | cons ev rest ih =>
    intro seen h
    cases ev with
    | enter o rel =>
      simp only [evSteps, List.mem_append, List.mem_cons, List.not_mem_nil, or_false] at h
      rcases h with ((h | h) | h) | h
      · cases h
      · refine ⟨.enter o rel, List.mem_cons_self, ?_⟩
        split at h
        · rename_i hl
          have := validate_mem_vstep h
          simp [evParts, hl, this]
        · cases h
      · cases h
      · obtain ⟨ev, hev, hp⟩ := ih seen h
        exact ⟨ev, List.mem_cons_of_mem _ hev, hp⟩
    | exit o =>
      simp only [evSteps, List.mem_append, List.mem_cons, List.not_mem_nil, or_false] at h
      rcases h with ((h | h) | h) | h
      · cases h
      · cases h
      · exact ⟨.exit o, List.mem_cons_self, by simp [evParts, validate_mem_vstep h]⟩
      · obtain ⟨ev, hev, hp⟩ := ih _ h
        exact ⟨ev, List.mem_cons_of_mem _ hev, hp⟩

/-- composeinfo: all written parts conform and none of the writer's own failure sources fires — `sorted(arches)` on
incomparable elements, an unhashable arch or UID, a UID that an earlier variant already used — then the dump succeeds. -/
theorem C06_converse_composeinfo (m : ComposeInfoM) (h : ∀ p ∈ m.parts, p.Conforms)
    (hw : ∀ r, Step.check r ∈ evSteps [] m.events → r = .ok ()) : m.dumps = .ok () := by
  refine converse_of_steps m.steps (fun p hp => ?_) (fun r hr => ?_)
  · simp only [ComposeInfoM.steps, List.mem_append] at hp
    rcases hp with (((((hp | hp) | hp) | hp) | hp) | hp) | hp
    · exact validate_mem_vstep hp ▸ conforms_of_empty _ (by decide)
    · exact validate_mem_jsonHeader hp ▸ h _ (by simp [ComposeInfoM.parts])
    · exact validate_mem_vstep hp ▸ h _ (by simp [ComposeInfoM.parts])
    · exact validate_mem_vstep hp ▸ h _ (by simp [ComposeInfoM.parts])
    · split at hp
      · rename_i hl
        exact validate_mem_vstep hp ▸ h _ (by simp [ComposeInfoM.parts, hl])
      · cases hp
    · exact validate_mem_vstep hp ▸ h _ (by simp [ComposeInfoM.parts])
    · obtain ⟨ev, hev, hpe⟩ := validate_mem_evSteps p _ _ hp
      exact h p (by simp only [ComposeInfoM.parts, List.mem_append, List.mem_flatMap]; exact Or.inr ⟨ev, hev, hpe⟩)
  · simp only [ComposeInfoM.steps, List.mem_append] at hr
    rcases hr with (((((hr | hr) | hr) | hr) | hr) | hr) | hr
    · exact absurd hr (by unfold vstep; split <;> simp)
    · exact absurd hr (by unfold jsonHeaderSteps vstep; (repeat split) <;> simp)
    · exact absurd hr (by unfold vstep; split <;> simp)
    · exact absurd hr (by unfold vstep; split <;> simp)
    · exact absurd hr (by unfold vstep; (repeat split) <;> simp)
    · exact absurd hr (by unfold vstep; split <;> simp)
    · exact hw r hr

/-! ## F19: the witness (replayed on the real code by the harness) -/

/-- F23 (repaired by a `fix:` commit; this theorem used to state `AttributeError`): a childless top-level variant whose uid is
`None` is now refused with TypeError, because `_validate_uid` asserts the type of `uid` before calling `.replace` -/
theorem C06_F23_repaired :
    let v : Obj := [(c!"id", .str c!"Server"), (c!"uid", .none), (c!"name", .str c!"Server"), (c!"type", .str c!"variant"),
                    (c!"arches", .list [.str c!"x86_64"])]
    let m : ComposeInfoM := ⟨[], [(c!"id", .str c!"F-1-20200101.0"), (c!"date", .str c!"20200101"), (c!"type", .str c!"production"),
        (c!"respin", .int 0), (c!"label", .none), (c!"final", .bool false)],
      [(c!"name", .str c!"F"), (c!"short", .str c!"F"), (c!"version", .str c!"1"), (c!"type", .str c!"ga"), (c!"is_layered", .bool false),
       (c!"internal", .bool false)], [], [.mk c!"Server" v [] []]⟩
    (match m.dumps with | .error .typeError => true | _ => false) = true := by decide +kernel

/-! ## non-vacuity: concrete instances of the hypotheses -/

def isOk {α} : Except Err α → Bool | .ok _ => true | .error _ => false
def conformsB (p : Part) : Bool := (Spec.catalogue p.cls).all fun r => isOk (r.check customs2 p.obj)

def exCompose : Obj := [(c!"id", .str c!"F-1-20200101.n.0"), (c!"date", .str c!"20200101"), (c!"type", .str c!"nightly"),
  (c!"respin", .int 0), (c!"label", .str c!"RC-1.0"), (c!"final", .bool true)]
def exImage (size : PyVal) : Obj := [(c!"path", .str c!"Server/x86_64/iso/boot.iso"), (c!"mtime", .int 1), (c!"size", size), (c!"volume_id", .none),
  (c!"type", .str c!"boot"), (c!"format", .str c!"iso"), (c!"arch", .str c!"x86_64"), (c!"disc_number", .int 1), (c!"disc_count", .int 1),
  (c!"checksums", .dict [(c!"md5", .str c!"aa")]), (c!"implant_md5", .none), (c!"bootable", .bool true), (c!"subvariant", .str []),
  (c!"unified", .bool false), (c!"additional_variants", .list [])]
def exImages (size : PyVal) : ImagesM := ⟨[(c!"version", .str c!"0.0")], exCompose, [(c!"Server", [(c!"x86_64", [exImage size])])]⟩

/-- a manifest all of whose parts conform (hypothesis of `C06_converse_images`) and which is written -/
example : (exImages (.int 1)).parts.all conformsB = true ∧ isOk (exImages (.int 1)).dumps = true := by decide +kernel
/-- … and one image field corrupted (`size = 0`): a part violates the catalogue (hypothesis of `C06_enforced_images`), dump refused -/
example : (exImages (.int 0)).parts.all conformsB = false ∧ isOk (exImages (.int 0)).dumps = false := by decide +kernel

end PM
