import ProductMD.Proofs.Validation
import ProductMD.Proofs.ErrClass
import ProductMD.Generated.Regexes
/-!
# C06 — only objects meeting every documented field constraint can be written

Model (`Model/Validation.lean`): `dumps` = the walk of `validate()` calls and writer-side failure sources that `dump()`
performs up to the end of `serialize()`, first failure wins; `parts` = the objects the writer reaches (every section, every
variant of the forest at any depth, every image of every cell).  The rule lists `validate()` runs are regenerated from the
source (`Gen.allClasses`), the places where the writers call `validate()` are read from the regenerated call structure
(`Gen.struct_*`), the documented rules are the hand-written catalogue `Spec.catalogue`.

Full statement of the property:  ∀ obj, (∃ p ∈ parts obj, ∃ r ∈ catalogue p.cls, r violated on p) →
  ∃ e, dumps obj = .error e ∧ (e = .typeError ∨ e = .valueError);   conversely all rules hold → dumps obj = .ok.
`C06_enforced_*` (rejection) and `C06_errclass_*` (ANY failure of the walk is TypeError or ValueError) together give it.
Since the F23 repair no hand-bound validator body raises another class; what `C06_errclass_*` excludes is named exactly:
* treeinfo with no variant at all: IndexError from `variants[0]` in `General.serialize` (F12) — a disjunct of the theorem;
* `StepsInDomain`: parts where the MODEL does not know the class (`Err.other`): a variant whose parent's uid is a list / dict /
  foreign object (`"%s-%s" % …` cannot be computed; Python yields "equal or ValueError"), a parent arch container that is a
  foreign object; and wrong-shape SKELETONS: a treeinfo checksum table that is a str/list/foreign object or a platform table that
  is not a dict (the real code raises AttributeError there — not a field rule, the catalogue has no rule about container shapes).
  `Part.InDomain` is decidable; for images, rpms, modules, extra_files and discinfo it holds of every object (no hypothesis).
The converse carries every non-validator failure source of the writers as a hypothesis.
-/
namespace PM
open PM.Val

/-! ## obligations on the generated files (decide) -/

/-- every documented rule is among the rules `validate()` runs for its class (table form) -/
theorem C06_catalogue_enforced : ∀ e ∈ Spec.catalogueTable, rulesSubset e.2 (genRules e.1) = true := by decide +kernel

/-- nothing undocumented is enforced: every rule `validate()` runs is in the catalogue (needed for the converse) -/
theorem C06_catalogue_complete : ∀ e ∈ Gen.allClasses, rulesSubset e.2.flat (Spec.catalogue e.1) = true := by decide +kernel

/-- the documented TYPE rules are strict about `bool`: the source's `_assert_type` (shape regenerated as
`Gen.assertTypeBoolStrict`) accepts a bool only where `bool` itself is listed.  With the bare `isinstance` loop
(`bool <: int`) this obligation fails, so the catalogue's "non-integer size/mtime/disc number" is not silently weakened
together with the code (F22/F43). -/
theorem C06_type_rule_bool_strict : Gen.assertTypeBoolStrict = true := by decide

/-- … and therefore: whatever the class, a `type` rule that does not list `bool` refuses every object holding a bool in
that field, with TypeError. -/
theorem C06_type_rule_refuses_bool (customs : Str → Obj → Except Err Unit) (o : Obj) (f : Str) (ts : List PyType) (b : Bool)
    (hf : o.get f = .bool b) (hts : ts.contains .bool = false) :
    Rule.check customs o (.type f ts) = .error .typeError := by
  simp only [Rule.check, hf, C06_type_rule_bool_strict, PyVal.assertTypeOk_strict_bool b hts]
  rfl

theorem C06_catalogue_sub (cls : String) : ∀ r ∈ Spec.catalogue cls, r ∈ genRules cls :=
  catalogue_mem_of_table C06_catalogue_enforced cls

theorem C06_generated_sub (cls : String) : ∀ r ∈ genRules cls, r ∈ Spec.catalogue cls :=
  genRules_mem_of_table C06_catalogue_complete cls

/-- every validator body outside the translated idiom is one the catalogue names (and `customs2` binds) -/
theorem C06_customs_bound : ∀ n ∈ Gen.customNames, n ∈ Spec.customNames := by decide +kernel

/-- the label patterns of the source are exactly `^<NAME>-\d+\.\d+$` for the documented label names -/
theorem C06_label_patterns : Gen.re_composeinfo_LABEL_RE_LIST = Gen.LABEL_NAMES.map Spec.reLabel := by decide +kernel

/-- every nested writer calls `self.validate()` where the model places it (first statement; last for the composeinfo
variant; after the early `return` of an empty treeinfo section; after `set_current_version()` in the JSON header) -/
theorem C06_flags :
    Flag.headerJsonSetsThenValidates = true ∧ Flag.compose = true ∧ Flag.ciRelease = true ∧ Flag.ciBaseProduct = true
    ∧ Flag.ciVariants = true ∧ Flag.ciVariantLast = true ∧ Flag.image = true ∧ Flag.dumpTop = true ∧ Flag.tiDumpTop = true
    ∧ Flag.tiHeader = true ∧ Flag.tiRelease = true ∧ Flag.tiBaseProduct = true ∧ Flag.tiTree = true ∧ Flag.tiVariants = true
    ∧ Flag.tiVariant = true ∧ Flag.tiChecksums = true ∧ Flag.tiImages = true ∧ Flag.tiStage2 = true ∧ Flag.tiMedia = true
    ∧ Flag.disc = true := by decide +kernel

/-- the order of the nested writers of the composite formats (what `parts`/`steps` follow) -/
theorem C06_call_order :
    (callSeq Gen.struct_composeinfo_ComposeInfo_serialize).map (·.2.1)
      = ["self.header.serialize", "self.compose.serialize", "self.release.serialize", "self.base_product.serialize", "self.variants.serialize"]
    ∧ (callSeq Gen.struct_images_Images_serialize).map (·.2.1) = ["self.header.serialize", "self.compose.serialize", "image_obj.serialize"]
    ∧ (callSeq Gen.struct_treeinfo_TreeInfo_serialize).map (·.2.1)
      = ["self", "self.header.serialize", "self.release.serialize", "self.base_product.serialize", "self.tree.serialize", "self.variants.serialize",
         "self.checksums.serialize", "self.images.serialize", "self.stage2.serialize", "self.media.serialize", "general.serialize"]
    ∧ (callSeq Gen.struct_rpms_Rpms_serialize).map (·.2.1) = ["self.header.serialize", "self.compose.serialize"]
    ∧ (callSeq Gen.struct_modules_Modules_serialize).map (·.2.1) = ["self", "self.header.serialize", "self.compose.serialize"]
    ∧ (callSeq Gen.struct_extra_files_ExtraFiles_serialize).map (·.2.1) = ["self", "self.header.serialize", "self.compose.serialize"] := by
  decide +kernel

/-- … and the GUARD under which each nested writer is called: the base product is written exactly for a layered release, a variant's
own release exactly for a layered product (what `parts` / `steps` assume); everything else unconditionally -/
theorem C06_call_guards :
    (callSeq Gen.struct_composeinfo_ComposeInfo_serialize).map (fun e => (e.2.1, e.2.2))
      = [("self.header.serialize", []), ("self.compose.serialize", []), ("self.release.serialize", []),
         ("self.base_product.serialize", ["if:self.release.is_layered"]), ("self.variants.serialize", [])]
    ∧ (callSeq Gen.struct_treeinfo_TreeInfo_serialize).map (fun e => (e.2.1, e.2.2))
      = [("self", []), ("self.header.serialize", []), ("self.release.serialize", []), ("self.base_product.serialize", ["if:self.release.is_layered"]),
         ("self.tree.serialize", []), ("self.variants.serialize", []), ("self.checksums.serialize", []), ("self.images.serialize", []),
         ("self.stage2.serialize", []), ("self.media.serialize", []), ("general.serialize", [])]
    ∧ (callSeq Gen.struct_composeinfo_Variant_serialize).map (fun e => (e.2.1, e.2.2))
      = [("self.release.serialize", ["ifeq:self.type=layered-product"]), ("self.paths.serialize", []),
         ("variant.serialize", ["for:self.variants.values()"]), ("variant_ids.add", ["for:self.variants.values()"]), ("self", [])]
    ∧ (callSeq Gen.struct_images_Images_serialize).map (fun e => (e.2.1, e.2.2))
      = [("self.header.serialize", []), ("self.compose.serialize", []),
         ("image_obj.serialize", ["for:self.images", "for:self.images[variant]", "for:self.images[variant][arch]"])] := by
  decide +kernel

private theorem fl {P : Prop} (h : Flag.headerJsonSetsThenValidates = true → Flag.compose = true → Flag.ciRelease = true → Flag.ciBaseProduct = true
    → Flag.ciVariants = true → Flag.ciVariantLast = true → Flag.image = true → Flag.dumpTop = true → Flag.tiDumpTop = true
    → Flag.tiHeader = true → Flag.tiRelease = true → Flag.tiBaseProduct = true → Flag.tiTree = true → Flag.tiVariants = true
    → Flag.tiVariant = true → Flag.tiChecksums = true → Flag.tiImages = true → Flag.tiStage2 = true → Flag.tiMedia = true
    → Flag.disc = true → P) : P := by
  obtain ⟨h1, h2, h3, h4, h5, h6, h7, h8, h9, h10, h11, h12, h13, h14, h15, h16, h17, h18, h19, h20⟩ := C06_flags
  exact h h1 h2 h3 h4 h5 h6 h7 h8 h9 h10 h11 h12 h13 h14 h15 h16 h17 h18 h19 h20

/-! ## every part is validated by the walk -/

theorem mem_steps_simple (m : SimpleM) (p : Part) (hp : p ∈ m.parts) : Step.validate p ∈ m.steps := by
  apply fl; intro h1 h2 _ _ _ _ _ _ _ _ _ _ _ _ _ _ _ _ _ _
  simp only [SimpleM.parts, List.mem_cons, List.not_mem_nil, or_false] at hp
  simp only [SimpleM.steps, jsonHeaderSteps, h1, h2, vstep, if_true, List.mem_append, List.mem_cons, List.not_mem_nil, or_false]
  rcases hp with rfl | rfl <;> simp

theorem mem_steps_images (m : ImagesM) (p : Part) (hp : p ∈ m.parts) : Step.validate p ∈ m.steps := by
  apply fl; intro h1 h2 _ _ _ _ h7 _ _ _ _ _ _ _ _ _ _ _ _ _
  simp only [ImagesM.parts, List.mem_append, List.mem_cons, List.not_mem_nil, or_false, List.mem_map] at hp
  simp only [ImagesM.steps, jsonHeaderSteps, h1, h2, h7, vstep, if_true, List.mem_append, List.mem_cons, List.not_mem_nil, or_false,
    List.mem_flatMap]
  rcases hp with (rfl | rfl) | ⟨o, ho, rfl⟩
  · simp
  · simp
  · exact Or.inr ⟨o, ho, rfl⟩

theorem mem_evSteps (h3 : Flag.ciRelease = true) (h6 : Flag.ciVariantLast = true) (p : Part) :
    ∀ (evs : List Ev) (seen : List PyVal), (∃ ev ∈ evs, p ∈ evParts ev) → Step.validate p ∈ evSteps seen evs := by
  intro evs
  induction evs with
  | nil => intro _ h; simp at h
  | cons ev rest ih =>
    intro seen h
    obtain ⟨ev', hev, hp⟩ := h
    rcases List.mem_cons.mp hev with rfl | hrest
    · cases ev' with
      | enter o rel =>
        simp only [evParts] at hp
        split at hp
        · rename_i hl
          simp only [List.mem_cons, List.not_mem_nil, or_false] at hp
          subst hp
          simp [evSteps, hl, vstep, h3]
        · simp at hp
      | exit o =>
        simp only [evParts, List.mem_cons, List.not_mem_nil, or_false] at hp
        subst hp
        simp [evSteps, vstep, h6]
    · have := ih
      cases ev with
      | enter o rel =>
        simp only [evSteps, List.mem_append]
        exact Or.inr (ih seen ⟨ev', hrest, hp⟩)
      | exit o =>
        simp only [evSteps, List.mem_append]
        exact Or.inr (ih _ ⟨ev', hrest, hp⟩)

theorem mem_steps_composeinfo (m : ComposeInfoM) (p : Part) (hp : p ∈ m.parts) : Step.validate p ∈ m.steps := by
  apply fl; intro h1 h2 h3 h4 h5 h6 _ _ _ _ _ _ _ _ _ _ _ _ _ _
  simp only [ComposeInfoM.parts, List.mem_append, List.mem_cons, List.not_mem_nil, or_false, List.mem_flatMap] at hp
  simp only [ComposeInfoM.steps, jsonHeaderSteps, h1, h2, h3, h4, h5, vstep, if_true, List.mem_append, List.mem_cons, List.not_mem_nil, or_false]
  rcases hp with (((rfl | rfl | rfl) | hb) | rfl) | hev
  · simp
  · simp
  · simp
  · by_cases hl : m.layered = true
    · simp only [hl, if_true, List.mem_cons, List.not_mem_nil, or_false] at hb
      subst hb
      simp [hl]
    · simp [hl] at hb
  · simp
  · exact Or.inr (mem_evSteps h3 h6 p m.events [] hev)

theorem mem_steps_treeinfo (m : TreeInfoM) (p : Part) (hp : p ∈ m.parts) : Step.validate p ∈ m.steps := by
  apply fl; intro _ _ _ _ _ _ _ _ _ h10 h11 h12 h13 h14 h15 h16 h17 h18 h19 _
  simp only [TreeInfoM.parts, List.mem_append, List.mem_cons, List.not_mem_nil, or_false, List.mem_map] at hp
  simp only [TreeInfoM.steps, TreeInfoM.variantSteps, h10, h11, h12, h13, h14, h15, h16, h17, h18, h19, vstep, if_true, List.mem_append, List.mem_cons,
    List.not_mem_nil, or_false, List.mem_flatMap]
  rcases hp with (((((((rfl | rfl) | hb) | (rfl | rfl)) | ⟨o, ho, rfl⟩) | rfl) | hi) | hs) | hm
  · simp
  · simp
  · by_cases hl : m.layered = true
    · simp only [hl, if_true, List.mem_cons, List.not_mem_nil, or_false] at hb
      subst hb; simp [hl]
    · simp [hl] at hb
  · simp
  · simp
  · refine Or.inl (Or.inl (Or.inl (Or.inl (Or.inl (Or.inr ⟨o, ho, ?_⟩)))))
    simp
  · simp
  · by_cases hl : m.hasImages = true
    · simp only [hl, if_true, List.mem_cons, List.not_mem_nil, or_false] at hi
      subst hi; simp [hl]
    · simp [hl] at hi
  · by_cases hl : m.hasStage2 = true
    · simp only [hl, if_true, List.mem_cons, List.not_mem_nil, or_false] at hs
      subst hs; simp [hl]
    · simp [hl] at hs
  · by_cases hl : m.hasMedia = true
    · simp only [hl, if_true, List.mem_cons, List.not_mem_nil, or_false] at hm
      subst hm; simp [hl]
    · simp [hl] at hm

theorem mem_steps_discinfo (m : DiscM) (p : Part) (hp : p ∈ m.parts) : Step.validate p ∈ m.steps := by
  apply fl; intro _ _ _ _ _ _ _ h8 _ _ _ _ _ _ _ _ _ _ _ h20
  simp only [DiscM.parts, List.mem_cons, List.not_mem_nil, or_false] at hp
  subst hp
  simp [DiscM.steps, vstep, h8, h20]

/-! ## C06, rejection half: a violated documented rule on any written part makes the dump fail -/

private theorem enforced (steps : List Step) (p : Part) (hmem : Step.validate p ∈ steps) (hv : p.Violates) :
    ∃ e, runSteps steps = .error e :=
  runSteps_error_of_mem steps _ hmem (validate2_rejects C06_catalogue_sub p hv)

/-- rpms / modules / extra_files (header and compose are the validated parts) -/
theorem C06_enforced_simple (m : SimpleM) (p : Part) (hp : p ∈ m.parts) (hv : p.Violates) : ∃ e, m.dumps = .error e :=
  enforced m.steps p (mem_steps_simple m p hp) hv

/-- images: any image in any cell -/
theorem C06_enforced_images (m : ImagesM) (p : Part) (hp : p ∈ m.parts) (hv : p.Violates) : ∃ e, m.dumps = .error e :=
  enforced m.steps p (mem_steps_images m p hp) hv

/-- composeinfo: any section, any variant of the forest at any depth, the release of any layered product -/
theorem C06_enforced_composeinfo (m : ComposeInfoM) (p : Part) (hp : p ∈ m.parts) (hv : p.Violates) : ∃ e, m.dumps = .error e :=
  enforced m.steps p (mem_steps_composeinfo m p hp) hv

/-- treeinfo: any section, any variant at any depth -/
theorem C06_enforced_treeinfo (m : TreeInfoM) (p : Part) (hp : p ∈ m.parts) (hv : p.Violates) : ∃ e, m.dumps = .error e :=
  enforced m.steps p (mem_steps_treeinfo m p hp) hv

theorem C06_enforced_discinfo (m : DiscM) (p : Part) (hp : p ∈ m.parts) (hv : p.Violates) : ∃ e, m.dumps = .error e :=
  enforced m.steps p (mem_steps_discinfo m p hp) hv

/-! ## `parts` really is every variant of the forest (any depth) -/

/-- `v` occurs in the forest `vs` at some depth -/
inductive CIVar.In : CIVar → List CIVar → Prop where
  | top (v : CIVar) (vs : List CIVar) : CIVar.In v (v :: vs)
  | next (v w : CIVar) (vs : List CIVar) : CIVar.In v vs → CIVar.In v (w :: vs)
  | under (v : CIVar) (k : Str) (a r : Obj) (kids vs : List CIVar) : CIVar.In v kids → CIVar.In v (CIVar.mk k a r kids :: vs)

/-- every variant of the forest, at any depth, contributes its `exit` event, i.e. a `composeinfo.Variant` part -/
theorem C06_parts_forest (v : CIVar) (vs : List CIVar) (h : CIVar.In v vs) :
    ∀ parent, ∃ par, Ev.exit (ciVarObj par v.attrs v.kids) ∈ eventsList parent vs := by
  induction h with
  | top vs =>
    intro parent
    cases v with
    | mk k a r kids =>
      exact ⟨parent, by simp [eventsList, CIVar.events, CIVar.attrs, CIVar.kids]⟩
  | next w vs _ ih =>
    intro parent
    obtain ⟨par, hpar⟩ := ih parent
    exact ⟨par, by simp only [eventsList, List.mem_append]; exact Or.inr hpar⟩
  | under k a r kids vs _ ih =>
    intro parent
    obtain ⟨par, hpar⟩ := ih (parentPseudo a)
    exact ⟨par, by simp only [eventsList, CIVar.events, List.mem_append, List.mem_cons]; exact Or.inl (Or.inr (Or.inl hpar))⟩

/-! ## C06, error class: the writer-side checks -/

/-- the writer-side checks of the walk fail only with errors satisfying `P` -/
def CheckIn (P : Err → Prop) (steps : List Step) : Prop :=
  ∀ r, Step.check r ∈ steps → ∀ e, r = .error e → P e

theorem pySortedOk_tv (v : PyVal) (e : Err) (h : pySortedOk v = .error e) : e = .typeError := by
  unfold pySortedOk at h
  split at h <;> (try split at h) <;> simp_all

theorem hashable_tv (v : PyVal) (e : Err) (h : hashable v = .error e) : e = .typeError := by
  unfold hashable at h
  split at h <;> simp_all

theorem hashableElems_tv (v : PyVal) (e : Err) (h : hashableElems v = .error e) : e = .typeError := by
  unfold hashableElems at h
  split at h <;> (try split at h) <;> simp_all

theorem pyIntOk_tv (v : PyVal) (e : Err) (h : pyIntOk v = .error e) : e = .typeError := by
  unfold pyIntOk at h
  split at h <;> simp_all

theorem checkIn_vstep (P) (flag : Bool) (cls : String) (o : Obj) : CheckIn P (vstep flag cls o) := by
  intro r hr; unfold vstep at hr; split at hr <;> simp at hr

theorem checkIn_append {P} {a b : List Step} (ha : CheckIn P a) (hb : CheckIn P b) : CheckIn P (a ++ b) := by
  intro r hr e he
  rcases List.mem_append.mp hr with h | h
  · exact ha r h e he
  · exact hb r h e he

theorem checkIn_nil (P) : CheckIn P [] := by intro r hr; simp at hr

theorem checkIn_single (P : Err → Prop) (r : Except Err Unit) (h : ∀ e, r = .error e → P e) : CheckIn P [Step.check r] := by
  intro r' hr e he
  simp only [List.mem_cons, List.not_mem_nil, or_false, Step.check.injEq] at hr
  subst hr; exact h e he

theorem checkIn_ite (P) (c : Bool) {a b : List Step} (ha : CheckIn P a) (hb : CheckIn P b) : CheckIn P (if c then a else b) := by
  split
  · exact ha
  · exact hb

theorem checkIn_flatMap (P) {α} (l : List α) (f : α → List Step) (h : ∀ a, CheckIn P (f a)) : CheckIn P (l.flatMap f) := by
  intro r hr e he
  obtain ⟨a, _, ha⟩ := List.mem_flatMap.mp hr
  exact h a r ha e he

theorem checkIn_evSteps : ∀ (evs : List Ev) (seen : List PyVal), CheckIn TV (evSteps seen evs) := by
  intro evs
  induction evs with
  | nil => intro _; simpa [evSteps] using checkIn_nil TV
  | cons ev rest ih =>
    intro seen
    cases ev with
    | enter o rel =>
      simp only [evSteps]
      refine checkIn_append (checkIn_append (checkIn_append ?_ ?_) ?_) (ih seen)
      · exact checkIn_single _ _ fun e he => Or.inl (pySortedOk_tv _ e he)
      · exact checkIn_ite _ _ (checkIn_vstep _ _ _ _) (checkIn_nil _)
      · exact checkIn_single _ _ fun e he => Or.inl (hashableElems_tv _ e he)
    | exit o =>
      simp only [evSteps]
      refine checkIn_append (checkIn_append ?_ (checkIn_vstep _ _ _ _)) (ih _)
      have h1 : CheckIn TV [Step.check (hashable (o.get (L "uid")))] :=
        checkIn_single _ _ fun e he => Or.inl (hashable_tv _ e he)
      have h2 : CheckIn TV [Step.check (if seen.any (PyVal.pyEq (o.get (L "uid"))) then .error .valueError else .ok ())] :=
        checkIn_single _ _ fun e he => by
          split at he
          · exact Or.inr (by cases he; rfl)
          · cases he
      exact checkIn_append h1 h2

theorem checkIn_jsonHeader (P) (h : Obj) : CheckIn P (jsonHeaderSteps h) := by
  unfold jsonHeaderSteps
  split
  · intro r hr; simp at hr
  · exact checkIn_vstep _ _ _ _

/-! ## C06, converse: conforming objects are written -/

/-- a walk succeeds when every validated part conforms and no writer-side check fires -/
theorem converse_of_steps (steps : List Step) (hv : ∀ p, Step.validate p ∈ steps → p.Conforms)
    (hc : ∀ r, Step.check r ∈ steps → r = .ok ()) : runSteps steps = .ok () := by
  refine (runSteps_ok_iff steps).mpr fun s hs => ?_
  cases s with
  | validate p => exact validate2_accepts C06_generated_sub p (hv p hs)
  | check r => exact hc r hs

/-- a class without documented rules conforms trivially -/
theorem conforms_of_empty (p : Part) (h : Spec.catalogue p.cls = []) : p.Conforms := by
  intro r hr; rw [h] at hr; cases hr

theorem validate_mem_vstep {flag : Bool} {cls : String} {o : Obj} {p : Part} (h : Step.validate p ∈ vstep flag cls o) : p = ⟨cls, o⟩ := by
  unfold vstep at h
  split at h
  · simpa using h
  · cases h

theorem validate_mem_jsonHeader {h : Obj} {p : Part} (hm : Step.validate p ∈ jsonHeaderSteps h) :
    p = ⟨"common.Header", withCurrentVersion h⟩ := by
  have hflag := C06_flags.1
  unfold jsonHeaderSteps at hm
  simp only [hflag, if_true, List.mem_cons, List.not_mem_nil, or_false, Step.validate.injEq] at hm
  exact hm

/-- images: every valid manifest is written (no writer-side failure source exists in the walk) -/
theorem C06_converse_images (m : ImagesM) (h : ∀ p ∈ m.parts, p.Conforms) : m.dumps = .ok () := by
  refine converse_of_steps m.steps (fun p hp => ?_) (fun r hr => ?_)
  · simp only [ImagesM.steps, List.mem_append, List.mem_flatMap] at hp
    rcases hp with ((hp | hp) | hp) | ⟨o, ho, hp⟩
    · exact validate_mem_vstep hp ▸ conforms_of_empty _ (by decide)
    · exact validate_mem_jsonHeader hp ▸ h _ (by simp [ImagesM.parts])
    · exact validate_mem_vstep hp ▸ h _ (by simp [ImagesM.parts])
    · exact validate_mem_vstep hp ▸ h _ (by simp only [ImagesM.parts, List.mem_append, List.mem_map]; exact Or.inr ⟨o, ho, rfl⟩)
  · exfalso
    simp only [ImagesM.steps, jsonHeaderSteps, vstep, List.mem_append, List.mem_flatMap] at hr
    rcases hr with ((hr | hr) | hr) | ⟨o, _, hr⟩ <;> (repeat (split at hr)) <;> simp at hr

/-- rpms / modules / extra_files (`m.cls` one of the three top-level classes, none of which has a documented rule) -/
theorem C06_converse_simple (m : SimpleM) (hcls : Spec.catalogue m.cls = []) (h : ∀ p ∈ m.parts, p.Conforms) : m.dumps = .ok () := by
  refine converse_of_steps m.steps (fun p hp => ?_) (fun r hr => ?_)
  · simp only [SimpleM.steps, List.mem_append] at hp
    rcases hp with (hp | hp) | hp
    · exact validate_mem_vstep hp ▸ conforms_of_empty _ hcls
    · exact validate_mem_jsonHeader hp ▸ h _ (by simp [SimpleM.parts])
    · exact validate_mem_vstep hp ▸ h _ (by simp [SimpleM.parts])
  · exfalso
    simp only [SimpleM.steps, jsonHeaderSteps, vstep, List.mem_append] at hr
    rcases hr with (hr | hr) | hr <;> (repeat (split at hr)) <;> simp at hr

theorem C06_converse_discinfo (m : DiscM) (h : ∀ p ∈ m.parts, p.Conforms) : m.dumps = .ok () := by
  refine converse_of_steps m.steps (fun p hp => ?_) (fun r hr => ?_)
  · simp only [DiscM.steps, List.mem_append] at hp
    rcases hp with hp | hp <;> exact validate_mem_vstep hp ▸ h _ (by simp [DiscM.parts])
  · exfalso
    simp only [DiscM.steps, vstep, List.mem_append] at hr
    rcases hr with hr | hr <;> (repeat (split at hr)) <;> simp at hr

theorem validate_mem_evSteps (p : Part) : ∀ (evs : List Ev) (seen : List PyVal),
    Step.validate p ∈ evSteps seen evs → ∃ ev ∈ evs, p ∈ evParts ev := by
  intro evs
  induction evs with
  | nil => intro _ h; simp [evSteps] at h
  | cons ev rest ih =>
    intro seen h
    cases ev with
    | enter o rel =>
      simp only [evSteps, List.mem_append, List.mem_cons, List.not_mem_nil, or_false] at h
      rcases h with ((h | h) | h) | h
      · cases h
      · refine ⟨.enter o rel, List.mem_cons_self, ?_⟩
        split at h
        · rename_i hl
          have := validate_mem_vstep h
          simp [evParts, hl, this]
        · cases h
      · cases h
      · obtain ⟨ev, hev, hp⟩ := ih seen h
        exact ⟨ev, List.mem_cons_of_mem _ hev, hp⟩
    | exit o =>
      simp only [evSteps, List.mem_append, List.mem_cons, List.not_mem_nil, or_false] at h
      rcases h with ((h | h) | h) | h
      · cases h
      · cases h
      · exact ⟨.exit o, List.mem_cons_self, by simp [evParts, validate_mem_vstep h]⟩
      · obtain ⟨ev, hev, hp⟩ := ih _ h
        exact ⟨ev, List.mem_cons_of_mem _ hev, hp⟩

/-- composeinfo: all written parts conform and none of the writer's own failure sources fires — `sorted(arches)` on
incomparable elements, an unhashable arch or UID, a UID that an earlier variant already used — then the dump succeeds. -/
theorem C06_converse_composeinfo (m : ComposeInfoM) (h : ∀ p ∈ m.parts, p.Conforms)
    (hw : ∀ r, Step.check r ∈ evSteps [] m.events → r = .ok ()) : m.dumps = .ok () := by
  refine converse_of_steps m.steps (fun p hp => ?_) (fun r hr => ?_)
  · simp only [ComposeInfoM.steps, List.mem_append] at hp
    rcases hp with (((((hp | hp) | hp) | hp) | hp) | hp) | hp
    · exact validate_mem_vstep hp ▸ conforms_of_empty _ (by decide)
    · exact validate_mem_jsonHeader hp ▸ h _ (by simp [ComposeInfoM.parts])
    · exact validate_mem_vstep hp ▸ h _ (by simp [ComposeInfoM.parts])
    · exact validate_mem_vstep hp ▸ h _ (by simp [ComposeInfoM.parts])
    · split at hp
      · rename_i hl
        exact validate_mem_vstep hp ▸ h _ (by simp [ComposeInfoM.parts, hl])
      · cases hp
    · exact validate_mem_vstep hp ▸ h _ (by simp [ComposeInfoM.parts])
    · obtain ⟨ev, hev, hpe⟩ := validate_mem_evSteps p _ _ hp
      exact h p (by simp only [ComposeInfoM.parts, List.mem_append, List.mem_flatMap]; exact Or.inr ⟨ev, hev, hpe⟩)
  · simp only [ComposeInfoM.steps, List.mem_append] at hr
    rcases hr with (((((hr | hr) | hr) | hr) | hr) | hr) | hr
    · exact absurd hr (by unfold vstep; split <;> simp)
    · exact absurd hr (by unfold jsonHeaderSteps vstep; (repeat split) <;> simp)
    · exact absurd hr (by unfold vstep; split <;> simp)
    · exact absurd hr (by unfold vstep; split <;> simp)
    · exact absurd hr (by unfold vstep; (repeat split) <;> simp)
    · exact absurd hr (by unfold vstep; split <;> simp)
    · exact hw r hr

/-- treeinfo: all written parts conform and none of the writer's own failure sources fires — `General.serialize` succeeds
(`generalOk`: the build timestamp is a FINITE number — `int(inf)`/`int(nan)` raise, finding F35 — and there is at least one variant,
`variants[0]`, F12; with `main_variant=None`, the only way `dumps()` calls it, the key exists), every
variant's uid is a string (`"variant-" + self.uid`), a written `[media]` section has both numbers (`int(None)`) — then the
dump succeeds.  (Unvalidated attributes the INI writer needs as strings — variant names, path tables, platforms — are the
well-typed skeleton, not part of the model.) -/
theorem C06_converse_treeinfo (m : TreeInfoM) (h : ∀ p ∈ m.parts, p.Conforms) (hv : m.generalOk = .ok ())
    (hu : ∀ o ∈ m.flat, isStr (o.get c!"uid") = true)
    (hm : m.hasMedia = true → pyIntOk (m.media.get c!"discnum") = .ok () ∧ pyIntOk (m.media.get c!"totaldiscs") = .ok ()) :
    m.dumps = .ok () := by
  refine converse_of_steps m.steps (fun p hp => ?_) (fun r hr => ?_)
  · simp only [TreeInfoM.steps, List.mem_append, List.mem_flatMap] at hp
    rcases hp with ((((((((((hp | hp) | hp) | hp) | hp) | hp) | ⟨o, ho, hp⟩) | hp) | hp) | hp) | hp) | hp
    · exact validate_mem_vstep hp ▸ conforms_of_empty _ (by decide)
    · exact validate_mem_vstep hp ▸ h _ (by simp [TreeInfoM.parts])
    · exact validate_mem_vstep hp ▸ h _ (by simp [TreeInfoM.parts])
    · split at hp
      · rename_i hl
        exact validate_mem_vstep hp ▸ h _ (by simp [TreeInfoM.parts, hl])
      · cases hp
    · exact validate_mem_vstep hp ▸ h _ (by simp [TreeInfoM.parts])
    · exact validate_mem_vstep hp ▸ h _ (by simp [TreeInfoM.parts])
    · simp only [TreeInfoM.variantSteps, List.mem_append, List.mem_cons, List.not_mem_nil, or_false] at hp
      rcases hp with hp | hp
      · exact validate_mem_vstep hp ▸ h _ (by
          simp only [TreeInfoM.parts, List.mem_append, List.mem_map]
          exact Or.inl (Or.inl (Or.inl (Or.inl (Or.inr ⟨o, ho, rfl⟩)))))
      · cases hp
    · exact validate_mem_vstep hp ▸ h _ (by simp [TreeInfoM.parts])
    · split at hp
      · rename_i hl
        exact validate_mem_vstep hp ▸ h _ (by simp [TreeInfoM.parts, hl])
      · cases hp
    · split at hp
      · rename_i hl
        exact validate_mem_vstep hp ▸ h _ (by simp [TreeInfoM.parts, hl])
      · cases hp
    · split at hp
      · rename_i hl
        simp only [List.mem_append, List.mem_cons, List.not_mem_nil, or_false] at hp
        rcases hp with hp | hp | hp
        · exact validate_mem_vstep hp ▸ h _ (by simp [TreeInfoM.parts, hl])
        · cases hp
        · cases hp
      · cases hp
    · simp at hp
  · simp only [TreeInfoM.steps, List.mem_append, List.mem_flatMap] at hr
    have nov : ∀ {flag cls o}, Step.check r ∈ vstep flag cls o → False := by
      intro flag cls o hx; unfold vstep at hx; split at hx <;> simp at hx
    rcases hr with ((((((((((hr | hr) | hr) | hr) | hr) | hr) | ⟨o, ho, hr⟩) | hr) | hr) | hr) | hr) | hr
    · exact (nov hr).elim
    · exact (nov hr).elim
    · exact (nov hr).elim
    · split at hr
      · exact (nov hr).elim
      · cases hr
    · exact (nov hr).elim
    · exact (nov hr).elim
    · simp only [TreeInfoM.variantSteps, List.mem_append, List.mem_cons, List.not_mem_nil, or_false] at hr
      rcases hr with hr | hr
      · exact (nov hr).elim
      · simp only [Step.check.injEq] at hr
        subst hr
        simp [hu o ho]
    · exact (nov hr).elim
    · split at hr
      · exact (nov hr).elim
      · cases hr
    · split at hr
      · exact (nov hr).elim
      · cases hr
    · split at hr
      · rename_i hl
        simp only [List.mem_append, List.mem_cons, List.not_mem_nil, or_false] at hr
        rcases hr with hr | hr | hr
        · exact (nov hr).elim
        · simp only [Step.check.injEq] at hr; subst hr; exact (hm hl).1
        · simp only [Step.check.injEq] at hr; subst hr; exact (hm hl).2
      · cases hr
    · simp only [List.mem_cons, List.not_mem_nil, or_false, Step.check.injEq] at hr
      subst hr
      exact hv

/-! ## C06, error class: every failure of the walk is TypeError or ValueError -/

/-- hand-bound rules occur bare in the generated rule lists and are the nine the catalogue names -/
theorem C06_customs_bare : ∀ c ∈ Gen.allClasses, ∀ r ∈ c.2.flat, ∀ n ∈ Rule.customNamesIn r, r = .custom n ∧ n ∈ Spec.customNames := by
  decide +kernel

/-- in every class `_assert_type("id", str)` runs before the uid alignment body (method order `_validate_id` < `_validate_uid`) -/
theorem C06_id_before_uid : ∀ c ∈ Gen.allClasses,
    precededBy idRule (.custom Spec.cCiUid) c.2.flat = true ∧ precededBy idRule (.custom Spec.cTiUid) c.2.flat = true := by
  decide +kernel

theorem genRules_cases (cls : String) : genRules cls = [] ∨ ∃ c ∈ Gen.allClasses, genRules cls = c.2.flat := by
  unfold genRules
  cases hf : Gen.allClasses.find? (·.1 == cls) with
  | none => exact Or.inl rfl
  | some c => exact Or.inr ⟨c, List.mem_of_find?_eq_some hf, rfl⟩

theorem customs_bare (cls : String) : ∀ r ∈ genRules cls, ∀ n ∈ Rule.customNamesIn r, r = .custom n ∧ n ∈ Spec.customNames := by
  rcases genRules_cases cls with h | ⟨c, hc, h⟩
  · rw [h]; intro r hr; cases hr
  · rw [h]; exact C06_customs_bare c hc

theorem id_before_uid (cls : String) :
    precededBy idRule (.custom Spec.cCiUid) (genRules cls) = true ∧ precededBy idRule (.custom Spec.cTiUid) (genRules cls) = true := by
  rcases genRules_cases cls with h | ⟨c, hc, h⟩
  · rw [h]; exact ⟨rfl, rfl⟩
  · rw [h]; exact C06_id_before_uid c hc

/-- every validated part of the walk lies where the model knows the exception class (see the file header) -/
def StepsInDomain (steps : List Step) : Prop := ∀ p, Step.validate p ∈ steps → p.InDomain = true

/-- a failed walk whose validated parts are in the domain fails with TypeError/ValueError or with the error of a writer check -/
theorem errclass_of_steps (P : Err → Prop) (steps : List Step) (hc : CheckIn P steps) (hd : StepsInDomain steps)
    (e : Err) (h : runSteps steps = .error e) : TV e ∨ P e := by
  obtain ⟨s, hs, hrun⟩ := runSteps_error_src steps e h
  cases s with
  | validate p => exact Or.inl (validate2_tv customs_bare id_before_uid p (hd p hs) e hrun)
  | check r => exact Or.inr (hc r hs e hrun)

/-- classes none of whose hand-bound rules has a domain condition: every part is in the domain -/
def plainClass (cls : String) : Bool :=
  ((genRules cls).flatMap Rule.customNamesIn).all fun n =>
    !(n == Spec.cCiParentArch) && !(n == Spec.cCiUid || n == Spec.cTiUid) && !(n == Spec.cTiChecksumPaths) && !(n == Spec.cTiImagePaths)

theorem inDomain_of_plain (p : Part) (h : plainClass p.cls = true) : p.InDomain = true := by
  unfold Part.InDomain
  unfold plainClass at h
  refine List.all_eq_true.mpr fun n hn => ?_
  have := List.all_eq_true.mp h n hn
  simp only [Bool.and_eq_true, Bool.not_eq_true'] at this
  obtain ⟨⟨⟨h1, h2⟩, h3⟩, h4⟩ := this
  simp [nameDomain, h1, h2, h3, h4]

theorem plain_classes : plainClass "common.Header" = true ∧ plainClass "composeinfo.Compose" = true ∧ plainClass "composeinfo.Release" = true
    ∧ plainClass "composeinfo.BaseProduct" = true ∧ plainClass "composeinfo.Variants" = true ∧ plainClass "composeinfo.ComposeInfo" = true
    ∧ plainClass "images.Image" = true ∧ plainClass "images.Images" = true ∧ plainClass "discinfo.DiscInfo" = true
    ∧ plainClass "treeinfo.Header" = true ∧ plainClass "treeinfo.Release" = true ∧ plainClass "treeinfo.BaseProduct" = true
    ∧ plainClass "treeinfo.Tree" = true ∧ plainClass "treeinfo.Variants" = true ∧ plainClass "treeinfo.Stage2" = true
    ∧ plainClass "treeinfo.Media" = true ∧ plainClass "treeinfo.TreeInfo" = true ∧ plainClass "rpms.Rpms" = true
    ∧ plainClass "modules.Modules" = true ∧ plainClass "extra_files.ExtraFiles" = true := by decide +kernel

/-- images: ANY failure of the dump is TypeError or ValueError (no hypothesis) -/
theorem C06_errclass_images (m : ImagesM) (e : Err) (h : m.dumps = .error e) : e = .typeError ∨ e = .valueError := by
  obtain ⟨p1, p2, _, _, _, _, p7, p8, _⟩ := plain_classes
  have hc : CheckIn (fun _ => False) m.steps := by
    unfold ImagesM.steps
    exact checkIn_append (checkIn_append (checkIn_append (checkIn_vstep _ _ _ _) (checkIn_jsonHeader _ _)) (checkIn_vstep _ _ _ _))
      (checkIn_flatMap _ _ _ fun o => checkIn_vstep _ _ _ _)
  have hd : StepsInDomain m.steps := by
    intro p hp
    simp only [ImagesM.steps, List.mem_append, List.mem_flatMap] at hp
    rcases hp with ((hp | hp) | hp) | ⟨o, _, hp⟩
    · exact inDomain_of_plain p (validate_mem_vstep hp ▸ p8)
    · exact inDomain_of_plain p (validate_mem_jsonHeader hp ▸ p1)
    · exact inDomain_of_plain p (validate_mem_vstep hp ▸ p2)
    · exact inDomain_of_plain p (validate_mem_vstep hp ▸ p7)
  rcases errclass_of_steps _ m.steps hc hd e h with h1 | h1
  · exact h1
  · exact h1.elim

/-- rpms / modules / extra_files -/
theorem C06_errclass_simple (m : SimpleM) (hcls : plainClass m.cls = true) (e : Err) (h : m.dumps = .error e) :
    e = .typeError ∨ e = .valueError := by
  obtain ⟨p1, p2, _⟩ := plain_classes
  have hc : CheckIn (fun _ => False) m.steps := by
    unfold SimpleM.steps
    exact checkIn_append (checkIn_append (checkIn_vstep _ _ _ _) (checkIn_jsonHeader _ _)) (checkIn_vstep _ _ _ _)
  have hd : StepsInDomain m.steps := by
    intro p hp
    simp only [SimpleM.steps, List.mem_append] at hp
    rcases hp with (hp | hp) | hp
    · exact inDomain_of_plain p (validate_mem_vstep hp ▸ hcls)
    · exact inDomain_of_plain p (validate_mem_jsonHeader hp ▸ p1)
    · exact inDomain_of_plain p (validate_mem_vstep hp ▸ p2)
  rcases errclass_of_steps _ m.steps hc hd e h with h1 | h1
  · exact h1
  · exact h1.elim

theorem C06_errclass_discinfo (m : DiscM) (e : Err) (h : m.dumps = .error e) : e = .typeError ∨ e = .valueError := by
  obtain ⟨_, _, _, _, _, _, _, _, p9, _⟩ := plain_classes
  have hc : CheckIn (fun _ => False) m.steps := by
    unfold DiscM.steps
    exact checkIn_append (checkIn_vstep _ _ _ _) (checkIn_vstep _ _ _ _)
  have hd : StepsInDomain m.steps := by
    intro p hp
    simp only [DiscM.steps, List.mem_append] at hp
    rcases hp with hp | hp <;> exact inDomain_of_plain p (validate_mem_vstep hp ▸ p9)
  rcases errclass_of_steps _ m.steps hc hd e h with h1 | h1
  · exact h1
  · exact h1.elim

/-- composeinfo: ANY failure of the dump is TypeError or ValueError, for objects whose validated parts are in the model's domain
(scalar parent uids, no foreign arch container) -/
theorem C06_errclass_composeinfo (m : ComposeInfoM) (hd : StepsInDomain m.steps) (e : Err) (h : m.dumps = .error e) :
    e = .typeError ∨ e = .valueError := by
  have hc : CheckIn TV m.steps := by
    unfold ComposeInfoM.steps
    exact checkIn_append (checkIn_append (checkIn_append (checkIn_append (checkIn_append (checkIn_append (checkIn_vstep _ _ _ _)
      (checkIn_jsonHeader _ _)) (checkIn_vstep _ _ _ _)) (checkIn_vstep _ _ _ _)) (checkIn_ite _ _ (checkIn_vstep _ _ _ _) (checkIn_nil _)))
      (checkIn_vstep _ _ _ _)) (checkIn_evSteps _ _)
  rcases errclass_of_steps TV m.steps hc hd e h with h1 | h1 <;> exact h1

/-- what `StepsInDomain` asks of a composeinfo object, spelled out: only the variants matter, and of them only the two
pseudo-attributes read through the parent -/
theorem composeinfo_inDomain (m : ComposeInfoM)
    (hv : ∀ ev ∈ m.events, ∀ o, ev = Ev.exit o → parentArchesKnown o = true ∧ parentUidKnown o = true) : StepsInDomain m.steps := by
  obtain ⟨p1, p2, p3, p4, p5, p6, _⟩ := plain_classes
  intro p hp
  simp only [ComposeInfoM.steps, List.mem_append] at hp
  rcases hp with (((((hp | hp) | hp) | hp) | hp) | hp) | hp
  · exact inDomain_of_plain p (validate_mem_vstep hp ▸ p6)
  · exact inDomain_of_plain p (validate_mem_jsonHeader hp ▸ p1)
  · exact inDomain_of_plain p (validate_mem_vstep hp ▸ p2)
  · exact inDomain_of_plain p (validate_mem_vstep hp ▸ p3)
  · split at hp
    · exact inDomain_of_plain p (validate_mem_vstep hp ▸ p4)
    · cases hp
  · exact inDomain_of_plain p (validate_mem_vstep hp ▸ p5)
  · obtain ⟨ev, hev, hpe⟩ := validate_mem_evSteps p _ _ hp
    cases ev with
    | enter o rel =>
      simp only [evParts] at hpe
      split at hpe
      · simp only [List.mem_cons, List.not_mem_nil, or_false] at hpe
        exact inDomain_of_plain p (hpe ▸ p3)
      · cases hpe
    | exit o =>
      simp only [evParts, List.mem_cons, List.not_mem_nil, or_false] at hpe
      obtain ⟨ha, hu⟩ := hv _ hev o rfl
      subst hpe
      have hnames : (genRules "composeinfo.Variant").flatMap Rule.customNamesIn = [Spec.cCiParentArch, Spec.cCiUid, Spec.cVariantKeys] := by
        decide +kernel
      simp only [Part.InDomain, hnames, List.all_cons, List.all_nil, Bool.and_true, Bool.and_eq_true]
      refine ⟨?_, ?_, ?_⟩
      · simpa [nameDomain] using ha
      · have : nameDomain Spec.cCiUid o = parentUidKnown o := by
          unfold nameDomain
          have h1 : (Spec.cCiUid == Spec.cCiParentArch) = false := by decide
          simp [h1]
        rw [this]; exact hu
      · have h1 : (Spec.cVariantKeys == Spec.cCiParentArch) = false := by decide
        have h2 : (Spec.cVariantKeys == Spec.cCiUid) = false := by decide
        have h3 : (Spec.cVariantKeys == Spec.cTiUid) = false := by decide
        have h4 : (Spec.cVariantKeys == Spec.cTiChecksumPaths) = false := by decide
        have h5 : (Spec.cVariantKeys == Spec.cTiImagePaths) = false := by decide
        simp [nameDomain, h1, h2, h3, h4, h5]

/-- treeinfo: ANY failure of the dump is TypeError or ValueError — or a failure of `General.serialize` (`C06_general_failures`:
IndexError of a tree without variants, F12; a non-finite float build timestamp, F35) — for objects whose validated parts are in
the model's domain (scalar parent uids; checksum and platform tables that are dicts) -/
theorem C06_errclass_treeinfo (m : TreeInfoM) (hd : StepsInDomain m.steps) (e : Err) (h : m.dumps = .error e) :
    e = .typeError ∨ e = .valueError ∨ (m.generalOk = .error e) := by
  have hc : CheckIn (fun e => TV e ∨ m.generalOk = .error e) m.steps := by
    unfold TreeInfoM.steps
    refine checkIn_append (checkIn_append (checkIn_append (checkIn_append (checkIn_append (checkIn_append (checkIn_append (checkIn_append
      (checkIn_append (checkIn_append (checkIn_append (checkIn_vstep _ _ _ _) (checkIn_vstep _ _ _ _)) (checkIn_vstep _ _ _ _))
      (checkIn_ite _ _ (checkIn_vstep _ _ _ _) (checkIn_nil _))) (checkIn_vstep _ _ _ _)) (checkIn_vstep _ _ _ _)) ?_) (checkIn_vstep _ _ _ _))
      (checkIn_ite _ _ (checkIn_vstep _ _ _ _) (checkIn_nil _))) (checkIn_ite _ _ (checkIn_vstep _ _ _ _) (checkIn_nil _))) ?_) ?_
    · refine checkIn_flatMap _ _ _ fun o => ?_
      unfold TreeInfoM.variantSteps
      refine checkIn_append (checkIn_vstep _ _ _ _) (checkIn_single _ _ fun e he => ?_)
      split at he
      · cases he
      · exact Or.inl (Or.inl (by cases he; rfl))
    · refine checkIn_ite _ _ (checkIn_append (checkIn_vstep _ _ _ _) ?_) (checkIn_nil _)
      have h1 : CheckIn (fun e => TV e ∨ m.generalOk = .error e) [Step.check (pyIntOk (m.media.get c!"discnum"))] :=
        checkIn_single _ _ fun e he => Or.inl (Or.inl (pyIntOk_tv _ e he))
      have h2 : CheckIn (fun e => TV e ∨ m.generalOk = .error e) [Step.check (pyIntOk (m.media.get c!"totaldiscs"))] :=
        checkIn_single _ _ fun e he => Or.inl (Or.inl (pyIntOk_tv _ e he))
      exact checkIn_append h1 h2
    · exact checkIn_single _ _ fun e he => Or.inr he
  rcases errclass_of_steps _ m.steps hc hd e h with (h1 | h1) | ((h1 | h1) | h1)
  · exact Or.inl h1
  · exact Or.inr (Or.inl h1)
  · exact Or.inl h1
  · exact Or.inr (Or.inl h1)
  · exact Or.inr (Or.inr h1)

/-- the failures of `General.serialize`, exactly: IndexError iff there is no variant (F12), and for a build timestamp that is a
float `nan` ValueError, `inf` OverflowError (`Err.other`) (F35) -/
theorem C06_general_failures (m : TreeInfoM) (e : Err) (h : m.generalOk = .error e) :
    (e = .indexError ∧ m.variants = []) ∨ ((e = .valueError ∨ e = .other) ∧ ∃ r, m.tree.get c!"build_timestamp" = .float r) := by
  unfold TreeInfoM.generalOk at h
  cases hn : nonFinite (m.tree.get c!"build_timestamp") with
  | some e' =>
    simp only [hn] at h
    cases h
    right
    unfold nonFinite at hn
    split at hn
    · rename_i r hr
      refine ⟨?_, r, hr⟩
      split at hn
      · cases hn; exact Or.inl rfl
      · split at hn
        · cases hn; exact Or.inr rfl
        · cases hn
    · cases hn
  | none =>
    simp only [hn] at h
    split at h
    · rename_i hemp
      cases h; exact Or.inl ⟨rfl, by simpa using hemp⟩
    · cases h

/-! ## F19: the witness (replayed on the real code by the harness) -/

/-- F23 (repaired by a `fix:` commit; this theorem used to state `AttributeError`): a childless top-level variant whose uid is
`None` is now refused with TypeError, because `_validate_uid` asserts the type of `uid` before calling `.replace` -/
theorem C06_F23_repaired :
    let v : Obj := [(c!"id", .str c!"Server"), (c!"uid", .none), (c!"name", .str c!"Server"), (c!"type", .str c!"variant"),
                    (c!"arches", .list [.str c!"x86_64"])]
    let m : ComposeInfoM := ⟨[], [(c!"id", .str c!"F-1-20200101.0"), (c!"date", .str c!"20200101"), (c!"type", .str c!"production"),
        (c!"respin", .int 0), (c!"label", .none), (c!"final", .bool false)],
      [(c!"name", .str c!"F"), (c!"short", .str c!"F"), (c!"version", .str c!"1"), (c!"type", .str c!"ga"), (c!"is_layered", .bool false),
       (c!"internal", .bool false)], [], [.mk c!"Server" v [] []]⟩
    (match m.dumps with | .error .typeError => true | _ => false) = true := by decide +kernel

/-! ## non-vacuity: concrete instances of the hypotheses -/

def isOk {α} : Except Err α → Bool | .ok _ => true | .error _ => false
def conformsB (p : Part) : Bool := (Spec.catalogue p.cls).all fun r => isOk (r.check customs2 p.obj)

def exCompose : Obj := [(c!"id", .str c!"F-1-20200101.n.0"), (c!"date", .str c!"20200101"), (c!"type", .str c!"nightly"),
  (c!"respin", .int 0), (c!"label", .str c!"RC-1.0"), (c!"final", .bool true)]
def exImage (size : PyVal) : Obj := [(c!"path", .str c!"Server/x86_64/iso/boot.iso"), (c!"mtime", .int 1), (c!"size", size), (c!"volume_id", .none),
  (c!"type", .str c!"boot"), (c!"format", .str c!"iso"), (c!"arch", .str c!"x86_64"), (c!"disc_number", .int 1), (c!"disc_count", .int 1),
  (c!"checksums", .dict [(c!"md5", .str c!"aa")]), (c!"implant_md5", .none), (c!"bootable", .bool true), (c!"subvariant", .str []),
  (c!"unified", .bool false), (c!"additional_variants", .list [])]
def exImages (size : PyVal) : ImagesM := ⟨[(c!"version", .str c!"0.0")], exCompose, [(c!"Server", [(c!"x86_64", [exImage size])])]⟩

/-- a manifest all of whose parts conform (hypothesis of `C06_converse_images`) and which is written -/
example : (exImages (.int 1)).parts.all conformsB = true ∧ isOk (exImages (.int 1)).dumps = true := by decide +kernel
/-- … and one image field corrupted (`size = 0`): a part violates the catalogue (hypothesis of `C06_enforced_images`), dump refused -/
example : (exImages (.int 0)).parts.all conformsB = false ∧ isOk (exImages (.int 0)).dumps = false := by decide +kernel

/-! ### the domain hypothesis of `C06_errclass_composeinfo/_treeinfo` and the hypotheses of `C06_converse_treeinfo` -/

def stepsInDomainB (steps : List Step) : Bool := steps.all fun s => match s with | .validate p => p.InDomain | .check _ => true

theorem stepsInDomain_of_B {steps : List Step} (h : stepsInDomainB steps = true) : StepsInDomain steps := by
  intro p hp
  exact List.all_eq_true.mp h _ hp

def exRelease : Obj := [(c!"name", .str c!"F"), (c!"short", .str c!"F"), (c!"version", .str c!"1"), (c!"type", .str c!"ga"),
  (c!"is_layered", .bool false), (c!"internal", .bool false)]
def exVar (id uid : PyVal) (arches : List PyVal) : Obj :=
  [(c!"id", id), (c!"uid", uid), (c!"name", .str c!"n"), (c!"type", .str c!"variant"), (c!"arches", .list arches)]
/-- `Server` with a child `optional`; the parent's uid and the child's arches are the parameters -/
def exCI (puid : PyVal) (karch : PyVal) : ComposeInfoM :=
  ⟨[], exCompose, exRelease, [],
   [.mk c!"Server" (exVar (.str c!"Server") puid [.str c!"x86_64"]) []
      [.mk c!"optional" (exVar (.str c!"optional") (.str c!"Server-optional") [karch]) [] []]]⟩

/-- a two-level compose in the domain that is written; with a foreign child arch it is in the domain and refused with ValueError;
with a LIST as the parent's uid the child's alignment cannot be computed: outside the domain (`Err.other`) -/
example : stepsInDomainB (exCI (.str c!"Server") (.str c!"x86_64")).steps = true ∧ isOk (exCI (.str c!"Server") (.str c!"x86_64")).dumps = true
    ∧ stepsInDomainB (exCI (.str c!"Server") (.str c!"sparc")).steps = true
    ∧ (match (exCI (.str c!"Server") (.str c!"sparc")).dumps with | .error .valueError => true | _ => false) = true
    ∧ stepsInDomainB (exCI (.list []) (.str c!"x86_64")).steps = false := by decide +kernel

def exTI (variants : List TIVar) (media : Obj) : TreeInfoM :=
  ⟨[(c!"version", .str c!"1.2")], [(c!"name", .str c!"F"), (c!"short", .str c!"F"), (c!"version", .str c!"1"), (c!"is_layered", .bool false)], [],
   [(c!"arch", .str c!"x86_64"), (c!"build_timestamp", .int 1), (c!"platforms", .list [.str c!"x86_64"])], variants,
   [(c!"checksums", .dict [])], [(c!"images", .dict [(c!"x86_64", .dict [(c!"kernel", .str c!"images/kernel")])])],
   [(c!"mainimage", .none), (c!"instimage", .none)], media⟩
def exTIVar : TIVar := .mk c!"S" [(c!"id", .str c!"S"), (c!"uid", .str c!"S"), (c!"name", .str c!"S"), (c!"type", .str c!"variant")] []
def noMedia : Obj := [(c!"discnum", .none), (c!"totaldiscs", .none)]

/-- a tree meeting every hypothesis of `C06_converse_treeinfo` (written), and the three writer-side failure sources, each with all
parts conforming: no variant (IndexError, F12), `[media]` with one number (`int(None)`, TypeError) -/
example : (exTI [exTIVar] noMedia).parts.all conformsB = true ∧ isOk (exTI [exTIVar] noMedia).dumps = true
    ∧ stepsInDomainB (exTI [exTIVar] noMedia).steps = true
    ∧ (exTI [] noMedia).parts.all conformsB = true ∧ (match (exTI [] noMedia).dumps with | .error .indexError => true | _ => false) = true
    ∧ (exTI [exTIVar] [(c!"discnum", .int 1), (c!"totaldiscs", .none)]).parts.all conformsB = true
    ∧ (match (exTI [exTIVar] [(c!"discnum", .int 1), (c!"totaldiscs", .none)]).dumps with | .error .typeError => true | _ => false) = true := by
  decide +kernel

end PM
