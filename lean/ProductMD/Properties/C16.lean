import ProductMD.Proofs.Checksum
/-!
# C16 — checksums recorded in metadata are the true digests of the right files

Model: `Model/Checksum.lean` (mirrors `compute_checksum`, `Checksums.add/serialize/deserialize`, `Image.add_checksum`);
the chunk size, the loop shape, the legacy length→type chain and its final `else: raise` are regenerated from the
source on every run (`Generated/Checksums.lean`).
-/
namespace PM
open Checksum

/-! ### the digest is that of the whole content, for any size and any chunk size -/

/-- Streaming hash laws as explicit hypotheses (`hashlib`: feeding `a` then `b` is feeding `a ++ b`; feeding nothing
changes nothing).  For ANY content and ANY chunk size > 0 the read-until-empty loop yields the one-shot digest. -/
theorem C16_chunked {H : Type} (init : H) (upd : H → Bytes → H) (dig : H → Str)
    (law : ∀ h a b, upd (upd h a) b = upd h (a ++ b)) (unit : ∀ h, upd h [] = h)
    (n : Nat) (hn : 0 < n) (content : Bytes) :
    chunkedDigest init upd dig n content = dig (upd init content) := by
  unfold chunkedDigest
  rw [readLoop_state upd law unit n hn (content.length + 1) init content (by omega)]

/-- what the reads look like: they add up to the file, none exceeds the chunk size, exactly the last one is empty -/
theorem C16_chunk_trace (n : Nat) (hn : 0 < n) (size : Nat) :
    (readTrace true n size).sum = size ∧ (∀ k ∈ readTrace true n size, k ≤ n)
    ∧ (readTrace true n size).getLast? = some 0 ∧ (∀ k ∈ (readTrace true n size).dropLast, 0 < k) := by
  have := readLoop_trace (fun (h : Nat) (c : Bytes) => h + c.length) n hn (size + 1) 0 (List.replicate size 0) (by simp)
  simpa [readTrace] using this

/-- obligation on the code as it is now: the read is in the loop, with a positive chunk size -/
theorem C16_here : Gen.checksumLoops = true ∧ 0 < Gen.checksumChunkSize := by decide

/-- `compute_checksum` as written returns the digest of the full content, whatever the file size -/
theorem C16_compute {H : Type} (init : H) (upd : H → Bytes → H) (dig : H → Str)
    (law : ∀ h a b, upd (upd h a) b = upd h (a ++ b)) (unit : ∀ h, upd h [] = h) (content : Bytes) :
    compute init upd dig content = dig (upd init content) := by
  unfold compute
  rw [if_pos C16_here.1]
  exact C16_chunked init upd dig law unit _ C16_here.2 content

/-- a single read (the code without its `while`) is wrong as soon as the file is longer than one chunk -/
theorem C16_read_once_witness :
    (readOnce (fun (h : Bytes) c => h ++ c) 2 [] [1, 2, 3]).1 ≠ [1, 2, 3] := by decide

/-! ### add: normalised relative key, absolute paths refused -/

/-- an absolute path is refused and the table is left alone -/
theorem C16_add_absolute (dg : Str → Str → Except Err Str) (tbl : Table) (rel ct : Str) (v root : Option Str)
    (h : Str.startsWith rel ['/'] = true) :
    add dg tbl rel ct v root = (tbl, .error .valueError) := by
  simp [add, Gen.addRefusesAbsolute, h]

/-- any refusal leaves the table alone -/
theorem C16_add_refusal (dg : Str → Str → Except Err Str) (tbl : Table) (rel ct : Str) (v root : Option Str) (e : Err)
    (h : (add dg tbl rel ct v root).2 = .error e) : (add dg tbl rel ct v root).1 = tbl := by
  by_cases habs : Gen.addRefusesAbsolute = true ∧ Str.startsWith rel ['/'] = true
  · simp [add, habs]
  · cases hg : givenValue v with
    | some v0 => simp [add, habs, hg] at h
    | none =>
      cases root with
      | none => simp [add, habs, hg]
      | some r =>
        cases hd : dg (pathJoin r (if Gen.addNormalises = true then normpath rel else rel)) ct with
        | ok d => simp [add, habs, hg, hd] at h
        | error e' => simp [add, habs, hg, hd]

/-- a successful add records the entry under `normpath` of the given path, which is never absolute; the value is
the one given, or – when none/empty was given – the digest computed for `root_dir/normpath(path)` -/
theorem C16_add (dg : Str → Str → Except Err Str) (tbl : Table) (rel ct : Str) (v root : Option Str)
    (hrel : Str.startsWith rel ['/'] = false) (hok : (add dg tbl rel ct v root).2 = .ok ()) :
    ∃ d, (add dg tbl rel ct v root).1 = tbl.set (normpath rel) (ct, d)
      ∧ Str.startsWith (normpath rel) ['/'] = false
      ∧ (valTruthy v = true → v = some d)
      ∧ (valTruthy v = false → ∃ r, root = some r ∧ dg (pathJoin r (normpath rel)) ct = .ok d) := by
  have hn := normpath_relative rel hrel
  have hN : Gen.addNormalises = true := by decide
  cases hg : givenValue v with
  | some v0 =>
    have hv : valTruthy v = true ∧ v = some v0 := by
      unfold givenValue at hg
      by_cases ht : valTruthy v = true
      · simp [ht] at hg; exact ⟨ht, hg⟩
      · simp [ht] at hg
    refine ⟨v0, by simp [add, hrel, hg, hN], hn, fun _ => hv.2, ?_⟩
    intro hf; rw [hv.1] at hf; cases hf
  | none =>
    have hv : valTruthy v = false := by
      unfold givenValue at hg
      by_cases ht : valTruthy v = true
      · simp only [ht, if_true] at hg; subst hg; simp [valTruthy] at ht
      · simpa using ht
    cases root with
    | none => simp [add, hrel, hg] at hok
    | some r =>
      cases hd : dg (pathJoin r (normpath rel)) ct with
      | error e => simp [add, hrel, hg, hN, hd] at hok
      | ok d =>
        refine ⟨d, by simp [add, hrel, hg, hN, hd], hn, ?_, fun _ => ⟨r, rfl, hd⟩⟩
        intro ht; rw [hv] at ht; cases ht

/-- the first sentence of the property in one statement: `add(path, type)` without a value on a file system `files`
records, under the normalised relative path, the one-shot digest of the FULL content of `root/normpath(path)` -/
theorem C16_add_computes {H : Type} (init : H) (upd : H → Bytes → H) (dig : H → Str)
    (law : ∀ h a b, upd (upd h a) b = upd h (a ++ b)) (unit : ∀ h, upd h [] = h)
    (files : Str → Option Bytes) (tbl : Table) (rel ct root : Str)
    (hrel : Str.startsWith rel ['/'] = false)
    (hok : (add (fun p _ => match files p with
                   | some c => .ok (compute init upd dig c)
                   | none => .error .other) tbl rel ct none (some root)).2 = .ok ()) :
    ∃ content, files (pathJoin root (normpath rel)) = some content
      ∧ (add (fun p _ => match files p with
                   | some c => .ok (compute init upd dig c)
                   | none => .error .other) tbl rel ct none (some root)).1
          = tbl.set (normpath rel) (ct, dig (upd init content)) := by
  obtain ⟨d, hd, _, _, hcomp⟩ := C16_add _ tbl rel ct none (some root) hrel hok
  obtain ⟨r, hr, hdig⟩ := hcomp (by simp [valTruthy])
  have : r = root := by simpa using hr.symm
  subst this
  cases hf : files (pathJoin r (normpath rel)) with
  | none => simp [hf] at hdig
  | some content =>
    simp only [hf, Except.ok.injEq] at hdig
    refine ⟨content, rfl, ?_⟩
    rw [hd, ← hdig, C16_compute init upd dig law unit content]

/-- invariant over ANY history of adds: if no key of the table is absolute, none is afterwards (so the
relative-path validator can never fire on a table built through `add`) -/
theorem C16_add_invariant (dg : Str → Str → Except Err Str) (tbl : Table) (rel ct : Str) (v root : Option Str)
    (h : validatePaths tbl = .ok ()) : validatePaths (add dg tbl rel ct v root).1 = .ok () := by
  by_cases hrel : Str.startsWith rel ['/'] = true
  · rw [C16_add_absolute dg tbl rel ct v root hrel]; exact h
  · have hrel' : Str.startsWith rel ['/'] = false := by simpa using hrel
    cases hr : (add dg tbl rel ct v root).2 with
    | error e => rw [C16_add_refusal dg tbl rel ct v root e hr]; exact h
    | ok u =>
      cases u
      obtain ⟨d, hd, hn, _, _⟩ := C16_add dg tbl rel ct v root hrel' hr
      rw [hd]
      unfold validatePaths at h ⊢
      rw [Table.set_keys_any tbl (normpath rel) (ct, d) (fun k => Str.startsWith k ['/'])]
      by_cases ha : tbl.any (fun e => Str.startsWith e.1 ['/']) = true
      · simp [ha] at h
      · simp [ha, hn]

/-! ### the hash object modelled: no streaming hypothesis left

`Model/HashMD.lean`: a hash object = (chaining value, pending bytes shorter than a block, total length); `update`
buffers and compresses every complete block; `digest` pads and finalises.  `Proofs/HashMD.lean` proves the streaming
and the unit law for EVERY block size > 0 and EVERY compression/finalisation function – so the theorems below hold
for md5, sha1, the sha2 family (given as executable instances and compared with `hashlib` on every run) and for any
other algorithm of this shape (sha3 absorption, sm3, ripemd160, …: compression function left abstract). -/

/-- **the streaming law, proved**: for any block-buffered hash, feeding `a` then `b` is feeding `a ++ b`, feeding
nothing changes nothing, and feeding any list of chunks is feeding their concatenation -/
theorem C16_streaming_md {S : Type} (A : HashMD.Alg S) (hbs : 0 < A.blockSize) :
    (∀ h a b, HashMD.update A (HashMD.update A h a) b = HashMD.update A h (a ++ b))
    ∧ (∀ h, h.WF A → HashMD.update A h [] = h)
    ∧ (HashMD.init A).WF A ∧ (∀ h a, (HashMD.update A h a).WF A)
    ∧ (∀ chunks : List Bytes, HashMD.digest A (chunks.foldl (HashMD.update A) (HashMD.init A))
        = HashMD.hashBytes A chunks.flatten) :=
  ⟨HashMD.update_update A hbs, HashMD.update_nil A, HashMD.init_wf A hbs, HashMD.update_wf A hbs,
   HashMD.digest_foldl_update A hbs⟩

/-- for ANY block-buffered hash, ANY content and ANY chunk size > 0 the library's read-until-empty loop returns the
(lower-cased) one-shot digest – NO hypothesis about the hash -/
theorem C16_chunked_md {S : Type} (A : HashMD.Alg S) (hbs : 0 < A.blockSize) (n : Nat) (hn : 0 < n) (content : Bytes) :
    chunkedMD A n content = Str.lowerAscii (HashMD.hashBytes A content) := by
  unfold chunkedMD chunkedDigest
  rw [readLoop_state_inv (HashMD.update A) (fun h => h.WF A) (HashMD.update_wf A hbs) (HashMD.update_update A hbs)
    (HashMD.update_nil A) n hn (content.length + 1) (HashMD.init A) content (HashMD.init_wf A hbs) (by omega)]
  rfl

/-- …and so does a caller who cuts the content into chunks of ARBITRARY sizes (empty chunks included) -/
theorem C16_any_chunking_md {S : Type} (A : HashMD.Alg S) (hbs : 0 < A.blockSize) (sizes : List Nat) (content : Bytes) :
    fedInChunks A sizes content = Str.lowerAscii (HashMD.hashBytes A content) := by
  unfold fedInChunks hexdigestLower
  rw [HashMD.digest_foldl_update A hbs, cutChunks_flatten]

/-- `compute_checksum` as written, over any block-buffered hash: the digest of the full content, whatever the size -/
theorem C16_compute_md {S : Type} (A : HashMD.Alg S) (hbs : 0 < A.blockSize) (content : Bytes) :
    computeMD A content = Str.lowerAscii (HashMD.hashBytes A content) := by
  unfold computeMD compute
  rw [if_pos C16_here.1]
  exact C16_chunked_md A hbs _ C16_here.2 content

/-- the one-shot digest is what the algorithm's definition says: every complete block of the content compressed
in order, the remaining `length mod blockSize` bytes and the total length given to the finaliser -/
theorem C16_oneshot_md {S : Type} (A : HashMD.Alg S) (hbs : 0 < A.blockSize) (content : Bytes) :
    HashMD.hashBytes A content = A.finish (HashMD.absorbAll A.blockSize A.compress A.iv content).1
        (HashMD.absorbAll A.blockSize A.compress A.iv content).2 content.length
    ∧ (HashMD.absorbAll A.blockSize A.compress A.iv content).2.length = content.length % A.blockSize :=
  ⟨HashMD.hashBytes_eq A content, HashMD.absorbAll_pending A.blockSize hbs A.compress content.length A.iv content (Nat.le_refl _)⟩

/-- the modelled algorithms print lower-case hex: the code's `.lower()` changes nothing -/
theorem C16_lower_noop (b : Bytes) : Str.lowerAscii (HashMD.hexOfBytes b) = HashMD.hexOfBytes b := lowerAscii_hexOfBytes b

/-- md5 (RFC 1321, executable, compared with hashlib on every run): chunk loop of any chunk size = one-shot md5 -/
theorem C16_chunked_md5 (n : Nat) (hn : 0 < n) (content : Bytes) :
    chunkedMD HashMD.md5 n content = HashMD.hashBytes HashMD.md5 content := by
  rw [C16_chunked_md HashMD.md5 (by decide) n hn content]; exact lowerAscii_hexOfBytes _

theorem C16_chunked_sha1 (n : Nat) (hn : 0 < n) (content : Bytes) :
    chunkedMD HashMD.sha1 n content = HashMD.hashBytes HashMD.sha1 content := by
  rw [C16_chunked_md HashMD.sha1 (by decide) n hn content]; exact lowerAscii_hexOfBytes _

theorem C16_chunked_sha256 (n : Nat) (hn : 0 < n) (content : Bytes) :
    chunkedMD HashMD.sha256 n content = HashMD.hashBytes HashMD.sha256 content := by
  rw [C16_chunked_md HashMD.sha256 (by decide) n hn content]; exact lowerAscii_hexOfBytes _

theorem C16_chunked_sha224 (n : Nat) (hn : 0 < n) (content : Bytes) :
    chunkedMD HashMD.sha224 n content = HashMD.hashBytes HashMD.sha224 content := by
  rw [C16_chunked_md HashMD.sha224 (by decide) n hn content]; exact lowerAscii_hexOfBytes _

theorem C16_chunked_sha384 (n : Nat) (hn : 0 < n) (content : Bytes) :
    chunkedMD HashMD.sha384 n content = HashMD.hashBytes HashMD.sha384 content := by
  rw [C16_chunked_md HashMD.sha384 (by decide) n hn content]; exact lowerAscii_hexOfBytes _

theorem C16_chunked_sha512 (n : Nat) (hn : 0 < n) (content : Bytes) :
    chunkedMD HashMD.sha512 n content = HashMD.hashBytes HashMD.sha512 content := by
  rw [C16_chunked_md HashMD.sha512 (by decide) n hn content]; exact lowerAscii_hexOfBytes _

/-- by NAME, as `compute_checksum(path, name)` is called: for every modelled name (any letter case) the code's
loop with the code's chunk size returns that algorithm's one-shot digest of the whole content -/
theorem C16_compute_by_name (name : Str) (content : Bytes) (d : Str) (h : computeByName name content = some d) :
    withAlg name (fun A => HashMD.hashBytes A content) = some d := by
  unfold computeByName withAlg at h
  unfold withAlg
  have e : ∀ {S : Type} (A : HashMD.Alg S) (hbs : 0 < A.blockSize)
      (hout : ∀ st, Str.lowerAscii (HashMD.digest A st) = HashMD.digest A st),
      computeMD A content = HashMD.hashBytes A content := by
    intro S A hbs hout
    rw [C16_compute_md A hbs content]; exact hout _
  simp only [] at h ⊢
  split at h
  · rw [if_pos ‹_›, ← e HashMD.md5 (by decide) (fun _ => lowerAscii_hexOfBytes _)]; exact h
  · rw [if_neg ‹_›]; split at h
    · rw [if_pos ‹_›, ← e HashMD.sha1 (by decide) (fun _ => lowerAscii_hexOfBytes _)]; exact h
    · rw [if_neg ‹_›]; split at h
      · rw [if_pos ‹_›, ← e HashMD.sha224 (by decide) (fun _ => lowerAscii_hexOfBytes _)]; exact h
      · rw [if_neg ‹_›]; split at h
        · rw [if_pos ‹_›, ← e HashMD.sha256 (by decide) (fun _ => lowerAscii_hexOfBytes _)]; exact h
        · rw [if_neg ‹_›]; split at h
          · rw [if_pos ‹_›, ← e HashMD.sha384 (by decide) (fun _ => lowerAscii_hexOfBytes _)]; exact h
          · rw [if_neg ‹_›]; split at h
            · rw [if_pos ‹_›, ← e HashMD.sha512 (by decide) (fun _ => lowerAscii_hexOfBytes _)]; exact h
            · cases h

/-- the first sentence of the property with the hash MODELLED: `add(path, type)` without a value records, under the
normalised relative path, the one-shot digest (of the block-buffered hash `A` that `hashlib.new(type)` denotes) of
the FULL content of `root/normpath(path)` – no law hypotheses -/
theorem C16_add_computes_md {S : Type} (A : HashMD.Alg S) (hbs : 0 < A.blockSize)
    (files : Str → Option Bytes) (tbl : Table) (rel ct root : Str)
    (hrel : Str.startsWith rel ['/'] = false)
    (hok : (add (fun p _ => match files p with
                   | some c => .ok (computeMD A c)
                   | none => .error .other) tbl rel ct none (some root)).2 = .ok ()) :
    ∃ content, files (pathJoin root (normpath rel)) = some content
      ∧ (add (fun p _ => match files p with
                   | some c => .ok (computeMD A c)
                   | none => .error .other) tbl rel ct none (some root)).1
          = tbl.set (normpath rel) (ct, Str.lowerAscii (HashMD.hashBytes A content)) := by
  obtain ⟨d, hd, _, _, hcomp⟩ := C16_add _ tbl rel ct none (some root) hrel hok
  obtain ⟨r, hr, hdig⟩ := hcomp (by simp [valTruthy])
  have : r = root := by simpa using hr.symm
  subst this
  cases hf : files (pathJoin r (normpath rel)) with
  | none => simp [hf] at hdig
  | some content =>
    simp only [hf, Except.ok.injEq] at hdig
    refine ⟨content, rfl, ?_⟩
    rw [hd, ← hdig, C16_compute_md A hbs content]

/-- …and by NAME: `add(path, "sha256")` (any modelled name, any letter case) without a value records, under the
normalised relative path, THAT algorithm's one-shot digest of the full content of `root/normpath(path)` -/
theorem C16_add_computes_by_name (files : Str → Option Bytes) (tbl : Table) (rel ct root : Str)
    (hrel : Str.startsWith rel ['/'] = false)
    (hok : (add (digestByName files) tbl rel ct none (some root)).2 = .ok ()) :
    ∃ content d, files (pathJoin root (normpath rel)) = some content
      ∧ withAlg ct (fun A => HashMD.hashBytes A content) = some d
      ∧ (add (digestByName files) tbl rel ct none (some root)).1 = tbl.set (normpath rel) (ct, d) := by
  obtain ⟨d, hd, _, _, hcomp⟩ := C16_add _ tbl rel ct none (some root) hrel hok
  obtain ⟨r, hr, hdig⟩ := hcomp (by simp [valTruthy])
  have : r = root := by simpa using hr.symm
  subst this
  unfold digestByName at hdig
  cases hf : files (pathJoin r (normpath rel)) with
  | none => simp [hf] at hdig
  | some content =>
    simp only [hf] at hdig
    cases hc : computeByName ct content with
    | none => simp [hc] at hdig
    | some d' =>
      simp only [hc, Except.ok.injEq] at hdig
      subst hdig
      exact ⟨content, d', rfl, C16_compute_by_name ct content d' hc, hd⟩

/-- the Merkle–Damgård finaliser is well formed for EVERY pending buffer and length: pending ++ 0x80 ++ zeros ++ length
is a whole number of blocks – the smallest that fits –, starts with the pending bytes, and is compressed completely
(nothing is left over), whatever the compression function -/
theorem C16_md_padding (bs lb : Nat) (hbs : 0 < bs) (be : Bool) (pending : Bytes) (total : Nat) :
    (HashMD.mdPad bs lb be pending total).length % bs = 0
    ∧ pending.length + 1 + lb ≤ (HashMD.mdPad bs lb be pending total).length
    ∧ (HashMD.mdPad bs lb be pending total).length < pending.length + 1 + lb + bs
    ∧ pending ++ [0x80] <+: HashMD.mdPad bs lb be pending total
    ∧ (∀ {S : Type} (f : S → Bytes → S) (cv : S), (HashMD.absorbAll bs f cv (HashMD.mdPad bs lb be pending total)).2 = []) :=
  ⟨(HashMD.mdPad_blocks bs lb hbs be pending total).1, (HashMD.mdPad_blocks bs lb hbs be pending total).2.1,
   (HashMD.mdPad_blocks bs lb hbs be pending total).2.2, HashMD.mdPad_prefix bs lb be pending total,
   fun f cv => HashMD.mdFinish_consumes bs lb hbs be f cv pending total⟩

/-- test vectors checked by the kernel (RFC 1321 A.5, FIPS 180-4 examples): the empty string and "abc" -/
theorem C16_test_vectors :
    HashMD.hashBytes HashMD.md5 [] = "d41d8cd98f00b204e9800998ecf8427e".toList
    ∧ HashMD.hashBytes HashMD.md5 [0x61, 0x62, 0x63] = "900150983cd24fb0d6963f7d28e17f72".toList
    ∧ HashMD.hashBytes HashMD.sha1 [] = "da39a3ee5e6b4b0d3255bfef95601890afd80709".toList
    ∧ HashMD.hashBytes HashMD.sha1 [0x61, 0x62, 0x63] = "a9993e364706816aba3e25717850c26c9cd0d89d".toList
    ∧ HashMD.hashBytes HashMD.sha256 [] = "e3b0c44298fc1c149afbf4c8996fb92427ae41e4649b934ca495991b7852b855".toList
    ∧ HashMD.hashBytes HashMD.sha256 [0x61, 0x62, 0x63]
        = "ba7816bf8f01cfea414140de5dae2223b00361a396177a9cb410ff61f20015ad".toList
    ∧ HashMD.hashBytes HashMD.sha224 [0x61, 0x62, 0x63] = "23097d223405d8228642a477bda255b32aadbce4bda0b3f7e36c9da7".toList
    ∧ HashMD.hashBytes HashMD.sha384 [0x61, 0x62, 0x63]
        = "cb00753f45a35e8bb5a03d699ac65007272c32ab0eded1631a8b605a43ff5bed8086072ba1e7cc2358baeca134c825a7".toList
    ∧ HashMD.hashBytes HashMD.sha512 [0x61, 0x62, 0x63]
        = "ddaf35a193617abacc417349ae20413112e6fa4e89a97ea20a9eeee64b55d39a2192992a274fc1a836ba3c23a3feebbd454d4423643ce80e2a9ac94fa54ca49f".toList := by
  decide +kernel

/-! ### reading a `[checksums]` section: every path gets exactly its own entry -/

/-- value of the last entry for `p` (what a dict built by successive assignments holds) -/
def lastVal : List (Str × Str) → Str → Option Str
  | [], _ => none
  | (k, v) :: rest, p => match lastVal rest p with
    | some w => some w
    | none => if k = p then some v else none

theorem entryOf_eq_typed (hE : Gen.legacyElseRaises = true) (prev : Option (Str × Str)) (v : Str) :
    entryOf prev v = typed v := by
  unfold entryOf typed typedBare
  by_cases hc : v.contains ':' = true
  · simp only [hc, if_true]
  · by_cases hb : bareRefused v = true
    · simp only [hc, hb, if_true, Bool.false_eq_true, if_false]
    · simp only [hc, hb, Bool.false_eq_true, if_false]
      cases chainBare v <;> simp [hE]

theorem deserLoop_pointwise (hE : Gen.legacyElseRaises = true) :
    ∀ (sec : List (Str × Str)) (prev : Option (Str × Str)) (tbl cs : Table),
      deserLoop false sec prev tbl = .ok cs →
      ∀ p, cs.get? p = match lastVal sec p with
        | some v => (typed v).toOption
        | none => tbl.get? p := by
  intro sec
  induction sec with
  | nil => intro prev tbl cs h p; simp [deserLoop] at h; subst h; simp [lastVal]
  | cons e rest ih =>
    intro prev tbl cs h p
    obtain ⟨k, v⟩ := e
    simp only [deserLoop, entryOf_eq_typed hE] at h
    cases ht : typed v with
    | error e => simp [ht] at h
    | ok tv =>
      simp only [ht] at h
      have := ih _ _ _ h p
      rw [this]
      simp only [lastVal]
      cases hl : lastVal rest p with
      | some w => rfl
      | none =>
        simp only [Table.get?_set, fixPath, Bool.false_eq_true, false_and, if_false]
        by_cases hk : k = p <;> simp [hk, ht, Except.toOption]

/-- **Pointwise reading** (true since the F3 fix; `decide`s that the legacy chain ends in `else: raise`).
If a current-format `[checksums]` section loads, then every path maps to `typed` of ITS OWN raw value –
`typed` looks at that one value only: `type:value` split at the colon, or a bare digest typed by its length.
No path carries a checksum written for another. -/
theorem C16_pointwise (sec : List (Str × Str)) (cs : Table) (h : deserialize false sec = .ok cs) :
    ∀ p, cs.get? p = (lastVal sec p).bind (fun v => (typed v).toOption) := by
  intro p
  unfold deserialize at h
  cases hl : deserLoop false sec none [] with
  | error e => simp [hl] at h
  | ok t =>
    simp only [hl] at h
    cases hv : validatePaths t with
    | error e => simp [hv] at h
    | ok u =>
      simp only [hv] at h
      have : t = cs := by simpa using h
      subst this
      have := deserLoop_pointwise (by decide) sec none [] t hl p
      rw [this]
      cases lastVal sec p <;> simp [Table.get?]

theorem deserLoop_all_typed (lg : Bool) : ∀ (sec : List (Str × Str)) (prev : Option (Str × Str)) (tbl t : Table),
    deserLoop lg sec prev tbl = .ok t → ∀ e ∈ sec, ∃ tv, typed e.2 = .ok tv := by
  intro sec
  induction sec with
  | nil => intro _ _ _ _ e he; simp at he
  | cons x rest ih =>
    intro prev tbl t h e he
    obtain ⟨k, v⟩ := x
    have hE : Gen.legacyElseRaises = true := by decide
    simp only [deserLoop, entryOf_eq_typed hE] at h
    cases ht : typed v with
    | error e' => simp [ht] at h
    | ok tv =>
      simp only [ht] at h
      simp only [List.mem_cons] at he
      rcases he with he | he
      · subst he; exact ⟨tv, ht⟩
      · exact ih _ _ _ h e he

/-- …and every entry of a section that loads (current or header-less file) is individually well-formed -/
theorem C16_all_typed (sec : List (Str × Str)) (cs : Table) (h : deserialize false sec = .ok cs) :
    ∀ e ∈ sec, ∃ tv, typed e.2 = .ok tv := by
  unfold deserialize at h
  cases hl : deserLoop false sec none [] with
  | error e => simp [hl] at h
  | ok t => exact deserLoop_all_typed false sec none [] t hl

theorem C16_all_typed_legacy (sec : List (Str × Str)) (cs : Table) (h : deserialize true sec = .ok cs) :
    ∀ e ∈ sec, ∃ tv, typed e.2 = .ok tv := by
  unfold deserialize at h
  cases hl : deserLoop true sec none [] with
  | error e => simp [hl] at h
  | ok t => exact deserLoop_all_typed true sec none [] t hl

/-- header-less (pre-productmd) files: `_fix_path` only rewrites ABSOLUTE keys, so a section whose keys are all
relative is read exactly like a current one – the pointwise statement carries over -/
theorem C16_pointwise_legacy (sec : List (Str × Str)) (cs : Table)
    (hrel : ∀ e ∈ sec, Str.startsWith e.1 ['/'] = false) (h : deserialize true sec = .ok cs) :
    ∀ p, cs.get? p = (lastVal sec p).bind (fun v => (typed v).toOption) := by
  have key : ∀ (sec : List (Str × Str)) (prev : Option (Str × Str)) (tbl : Table),
      (∀ e ∈ sec, Str.startsWith e.1 ['/'] = false) → deserLoop true sec prev tbl = deserLoop false sec prev tbl := by
    intro sec
    induction sec with
    | nil => intro _ _ _; rfl
    | cons x rest ih =>
      intro prev tbl hr
      obtain ⟨k, v⟩ := x
      have hk : Str.startsWith k ['/'] = false := hr (k, v) (by simp)
      simp only [deserLoop, fixPath, hk, Bool.false_eq_true, and_false, false_and, if_false]
      cases entryOf prev v with
      | error e => rfl
      | ok tv => exact ih _ _ (fun e he => hr e (by simp [he]))
  have : deserialize false sec = .ok cs := by
    unfold deserialize at h ⊢
    rw [← key sec none [] hrel]
    exact h
  exact C16_pointwise sec cs this

/-- the 22 hexadecimal digits (`string.hexdigits`) -/
def hexDigits : Str := "0123456789abcdefABCDEF".toList

/-- made of hexadecimal digits only (the empty string included) -/
def isHex (v : Str) : Bool := v.all fun c => hexDigits.contains c

theorem isHex_iff (v : Str) : isHex v = true ↔ ∀ c ∈ v, c ∈ hexDigits := by
  simp [isHex, List.all_eq_true]

/-- the legacy typing is the documented one: hex digits only (the guard is there and its digit table is
`string.hexdigits`), 32/40/64 characters are md5/sha1/sha256, nothing else is accepted -/
theorem C16_legacy_table :
    Gen.legacyDigestTypes = [(32, "md5".toList), (40, "sha1".toList), (64, "sha256".toList)]
    ∧ Gen.legacyElseRaises = true
    ∧ Gen.legacyHexGuard = true ∧ Gen.legacyHexDigits = hexDigits := by decide

theorem bareRefused_eq (v : Str) : bareRefused v = !isHex v := by
  simp only [bareRefused, C16_legacy_table.2.2.1, C16_legacy_table.2.2.2, Bool.true_and, isHex]

theorem C16_typed_bare (v : Str) (hc : v.contains ':' = false) :
    typed v = if isHex v = false then .error .valueError
              else if v.length = 32 then .ok ("md5".toList, v)
              else if v.length = 40 then .ok ("sha1".toList, v)
              else if v.length = 64 then .ok ("sha256".toList, v)
              else .error .valueError := by
  simp only [typed, hc, Bool.false_eq_true, if_false, typedBare, bareRefused_eq]
  by_cases hx : isHex v = true
  · simp only [hx, Bool.not_true, Bool.false_eq_true, if_false, chainBare, C16_legacy_table.1, List.find?]
    by_cases h1 : v.length = 32
    · simp [h1]
    · by_cases h2 : v.length = 40
      · simp [h2]
      · by_cases h3 : v.length = 64
        · simp [h3]
        · have e1 : ((32 : Nat) == v.length) = false := by simp; omega
          have e2 : ((40 : Nat) == v.length) = false := by simp; omega
          have e3 : ((64 : Nat) == v.length) = false := by simp; omega
          simp [h1, h2, h3, e1, e2, e3]
  · have hx' : isHex v = false := by simpa using hx
    simp [hx']

/-- **every bare value containing a character that is not a hex digit is refused, whatever its length** (F36 fixed;
`decide`s that the guard is in the source with `string.hexdigits` as its table) – and a section holding such an entry,
in a current or a header-less file, does not load -/
theorem C16_bare_nonhex_refused (v : Str) (hc : v.contains ':' = false) (c : Char) (hcv : c ∈ v) (hch : c ∉ hexDigits) :
    typed v = .error .valueError
    ∧ (∀ (legacy : Bool) (sec : List (Str × Str)) (p : Str) (cs : Table), (p, v) ∈ sec → deserialize legacy sec ≠ .ok cs) := by
  have hx : isHex v = false := by
    cases h : isHex v with
    | false => rfl
    | true => exact absurd ((isHex_iff v).mp h c hcv) hch
  have ht : typed v = .error .valueError := by rw [C16_typed_bare v hc]; simp [hx]
  refine ⟨ht, ?_⟩
  intro legacy sec p cs hmem hok
  have := match legacy, hok with
    | false, hok => C16_all_typed sec cs hok (p, v) hmem
    | true, hok => C16_all_typed_legacy sec cs hok (p, v) hmem
  obtain ⟨tv, htv⟩ := this
  rw [ht] at htv
  cases htv

/-- **the property's sentence at full strength**: a bare value (no colon) is accepted IFF it consists of 32, 40 or 64
hexadecimal digits, and then it is typed md5, sha1, sha256 respectively with the value kept verbatim -/
theorem C16_bare_typed_iff (v : Str) (hc : v.contains ':' = false) (tv : Str × Str) :
    typed v = .ok tv ↔ (∀ c ∈ v, c ∈ hexDigits)
      ∧ ((v.length = 32 ∧ tv = ("md5".toList, v)) ∨ (v.length = 40 ∧ tv = ("sha1".toList, v))
         ∨ (v.length = 64 ∧ tv = ("sha256".toList, v))) := by
  rw [C16_typed_bare v hc, ← isHex_iff]
  by_cases hx : isHex v = true
  · simp only [hx, Bool.true_eq_false, if_false, true_and]
    by_cases h1 : v.length = 32
    · simp only [h1, if_true, Except.ok.injEq, true_and]
      constructor
      · intro h; exact Or.inl h.symm
      · intro h; rcases h with h | h | h
        · exact h.symm
        · omega
        · omega
    · by_cases h2 : v.length = 40
      · simp only [h2, (by decide : ¬ (40 : Nat) = 32), (by decide : ¬ (40 : Nat) = 64), if_false, if_true, Except.ok.injEq, true_and, false_and, false_or, or_false]
        exact ⟨fun h => h.symm, fun h => h.symm⟩
      · by_cases h3 : v.length = 64
        · simp only [h3, (by decide : ¬ (64 : Nat) = 32), (by decide : ¬ (64 : Nat) = 40), if_false, if_true, Except.ok.injEq, true_and, false_and, false_or, or_false]
          exact ⟨fun h => h.symm, fun h => h.symm⟩
        · simp [h1, h2, h3]
  · have hx' : isHex v = false := by simpa using hx
    simp [hx']

/-- a value made of hex digits only is bare: the hypothesis "no colon" of the two theorems above is implied -/
theorem C16_hex_is_bare (v : Str) (h : isHex v = true) : v.contains ':' = false := by
  cases hc : v.contains ':' with
  | false => rfl
  | true =>
    have hm : ':' ∈ v := by simpa using hc
    have := (isHex_iff v).mp h ':' hm
    exact absurd this (by decide)

/-- the defect repaired by F3, as a statement about the loop without the final `else: raise`: the witness is kept so
that the shape of the failure stays documented (here: what `typed` says about the input of the original report) -/
theorem C16_unrecognised_length_refused :
    deserialize false [("a".toList, "sha256:00".toList), ("b".toList, List.replicate 33 'f')] = .error .valueError := by
  rfl

/-! ### write, then read -/

theorem deserLoop_serialized : ∀ (tbl acc : Table) (prev : Option (Str × Str)),
    (∀ e ∈ tbl, ':' ∉ e.2.1 ∧ ':' ∉ e.2.2) → (tbl.map (·.1)).Nodup → (∀ e ∈ tbl, e.1 ∉ acc.map (·.1)) →
    deserLoop false (tbl.map fun e => (e.1, e.2.1 ++ ':' :: e.2.2)) prev acc = .ok (acc ++ tbl) := by
  intro tbl
  induction tbl with
  | nil => intro acc prev _ _ _; simp [deserLoop]
  | cons e rest ih =>
    intro acc prev hc hnd hdis
    obtain ⟨k, t, v⟩ := e
    have hcol := hc (k, t, v) (by simp)
    have hcont : (t ++ ':' :: v).contains ':' = true := by simp
    simp only [List.map_cons, deserLoop, entryOf, hcont, if_true, splitTyped_join t v hcol.1 hcol.2, fixPath,
      Bool.false_eq_true, false_and, if_false]
    have hk : k ∉ acc.map (·.1) := hdis (k, t, v) (by simp)
    rw [Table.set_of_not_mem acc k (t, v) hk]
    simp only [List.map_cons, List.nodup_cons] at hnd
    rw [ih (acc ++ [(k, (t, v))]) (some (t, v)) (fun e he => hc e (by simp [he])) hnd.2 ?_]
    · simp
    · intro e he
      simp only [List.map_append, List.map_cons, List.map_nil, List.mem_append, List.mem_cons, List.not_mem_nil, or_false, not_or]
      refine ⟨hdis e (by simp [he]), ?_⟩
      intro hek
      exact hnd.1 (by rw [← hek]; exact List.mem_map_of_mem (f := (·.1)) he)

/-- **Round trip.**  A table with distinct relative paths whose types and values contain no `:` is written and read
back as exactly itself: every path maps to its own (type, value). -/
theorem C16_roundtrip (tbl : Table) (hrel : validatePaths tbl = .ok ())
    (hnd : (tbl.map (·.1)).Nodup) (hc : ∀ e ∈ tbl, ':' ∉ e.2.1 ∧ ':' ∉ e.2.2) :
    (serialize tbl).bind (fun sec => deserialize false sec) = .ok tbl := by
  simp only [serialize, hrel, Except.bind]
  unfold deserialize
  rw [deserLoop_serialized tbl [] none hc hnd (by simp)]
  simp [hrel]

theorem splitOn_length (sep : Char) : ∀ (s : Str), (Str.splitOn sep s).length = Str.count sep s + 1 := by
  intro s
  induction s with
  | nil => simp [Str.splitOn, Str.count]
  | cons c cs ih =>
    simp only [Str.splitOn, Str.count] at ih ⊢
    by_cases hc : c = sep
    · simp [hc, ih]
    · simp only [hc, if_false]
      cases hs : Str.splitOn sep cs with
      | nil => exact absurd hs (splitOn_ne_nil sep cs)
      | cons h t =>
        rw [hs] at ih
        simp only [List.length_cons] at ih ⊢
        simp [List.filter_cons, hc, ih]

theorem splitTyped_two_colons (t v : Str) (h : ':' ∈ t ∨ ':' ∈ v) : splitTyped (t ++ ':' :: v) = .error .valueError := by
  have hlen : 3 ≤ (Str.splitOn ':' (t ++ ':' :: v)).length := by
    rw [splitOn_length]
    simp only [Str.count, List.filter_append, List.length_append, List.filter_cons, if_true, decide_true, List.length_cons]
    rcases h with h | h
    · have : 0 < (t.filter (fun x => decide (x = ':'))).length :=
        List.length_pos_iff.mpr (by intro h0; have := List.filter_eq_nil_iff.mp h0 ':' h; simp at this)
      omega
    · have : 0 < (v.filter (fun x => decide (x = ':'))).length :=
        List.length_pos_iff.mpr (by intro h0; have := List.filter_eq_nil_iff.mp h0 ':' h; simp at this)
      omega
  unfold splitTyped
  split
  · rename_i a b heq; rw [heq] at hlen; simp at hlen
  · rfl

/-- a table in which some type or value contains `:` cannot be read back – and it is REFUSED (ValueError), never read
back as something else -/
theorem C16_roundtrip_refuses (tbl : Table) (hrel : validatePaths tbl = .ok ())
    (hc : ∃ e ∈ tbl, ':' ∈ e.2.1 ∨ ':' ∈ e.2.2) :
    (serialize tbl).bind (fun sec => deserialize false sec) = .error .valueError := by
  simp only [serialize, hrel, Except.bind]
  have key : ∀ (tbl : Table) (prev : Option (Str × Str)) (acc : Table), (∃ e ∈ tbl, ':' ∈ e.2.1 ∨ ':' ∈ e.2.2) →
      deserLoop false (tbl.map fun e => (e.1, e.2.1 ++ ':' :: e.2.2)) prev acc = .error .valueError := by
    intro tbl
    induction tbl with
    | nil => intro _ _ h; obtain ⟨e, he, _⟩ := h; simp at he
    | cons x rest ih =>
      intro prev acc h
      obtain ⟨k, t, v⟩ := x
      have hcont : (t ++ ':' :: v).contains ':' = true := by simp
      simp only [List.map_cons, deserLoop, entryOf, hcont, if_true]
      by_cases hx : ':' ∈ t ∨ ':' ∈ v
      · simp [splitTyped_two_colons t v hx]
      · have hx' : ':' ∉ t ∧ ':' ∉ v := by simpa [not_or] using hx
        simp only [splitTyped_join t v hx'.1 hx'.2]
        apply ih
        obtain ⟨e, he, hbad⟩ := h
        simp only [List.mem_cons] at he
        rcases he with he | he
        · subst he; exact absurd hbad hx
        · exact ⟨e, he, hbad⟩
  unfold deserialize
  rw [key tbl none [] hc]

/-! ### Image.add_checksum never replaces a recorded value -/

theorem C16_image_step (tbl : ImgSums) (t : Str) (v : Option Str) (t0 : Str) (v0 : Option Str)
    (h : tbl.lookup t0 = some v0) : (addChecksum tbl t v).1.lookup t0 = some v0 := by
  unfold addChecksum
  cases hl : tbl.lookup t with
  | some old => simp only; split <;> exact h
  | none => simp only [List.lookup_append, h, Option.some_or]

/-- over ANY sequence of `add_checksum` calls (equal, different, empty or `None` values, refused or not) a recorded
(type, value) pair – an empty one included – stays what it was -/
theorem C16_image_monotone (ops : List (Str × Option Str)) (tbl : ImgSums) (t0 : Str) (v0 : Option Str)
    (h : tbl.lookup t0 = some v0) : (addChecksums tbl ops).lookup t0 = some v0 := by
  induction ops generalizing tbl with
  | nil => exact h
  | cons op rest ih =>
    simp only [addChecksums, List.foldl_cons]
    exact ih _ (C16_image_step tbl op.1 op.2 t0 v0 h)

/-- a different non-empty value for a recorded type is refused loudly, the same or an empty one returns the recorded -/
theorem C16_image_conflict (tbl : ImgSums) (t : Str) (v old : Option Str) (h : tbl.lookup t = some old) :
    addChecksum tbl t v = if valTruthy v = true ∧ v ≠ old then (tbl, .error .valueError) else (tbl, .ok old) := by
  simp only [addChecksum, h]

/-! ### non-vacuity -/
example : normpath "./x//y/../Z.img".toList = "x/Z.img".toList := by decide
example : normpath "x/../..".toList = "..".toList := by decide
example : Str.startsWith (normpath "a/./b".toList) ['/'] = false := by decide
example : deserialize false [("a".toList, "sha256:00".toList), ("b".toList, List.replicate 32 'f')]
    = .ok [("a".toList, ("sha256".toList, "00".toList)), ("b".toList, ("md5".toList, List.replicate 32 'f'))] := by rfl
/-- F36: what used to be typed by length alone is refused – 32 `z`, 32 full-width sevens, 64 `g`, hex with a line feed
inside (an INI continuation line), hex of an unrecognised length; upper- and mixed-case hex digits are hex digits -/
example : typed (List.replicate 32 'z') = .error .valueError ∧ typed (List.replicate 32 '７') = .error .valueError
    ∧ typed (List.replicate 64 'g') = .error .valueError
    ∧ typed (List.replicate 16 'a' ++ '\n' :: List.replicate 15 'b') = .error .valueError
    ∧ typed (List.replicate 33 'f') = .error .valueError
    ∧ typed (List.replicate 20 'A' ++ List.replicate 20 'b') = .ok ("sha1".toList, List.replicate 20 'A' ++ List.replicate 20 'b') := by
  exact ⟨by rfl, by rfl, by rfl, by rfl, by rfl, by rfl⟩
example : (addChecksums [] [("md5".toList, some "a".toList), ("md5".toList, some "b".toList), ("md5".toList, none)]).lookup "md5".toList
    = some (some "a".toList) := by decide
example : readTrace true 4 9 = [4, 4, 1, 0] := by decide
/-- the chunk loop over a real algorithm, run by the kernel: 150 bytes (two md5 blocks and a rest) read 7 at a time -/
example : chunkedMD HashMD.md5 7 (List.replicate 150 0x61) = HashMD.hashBytes HashMD.md5 (List.replicate 150 0x61) := by decide +kernel
example : computeByName "SHA256".toList [0x61, 0x62, 0x63]
    = some "ba7816bf8f01cfea414140de5dae2223b00361a396177a9cb410ff61f20015ad".toList := by decide +kernel
example : computeByName "sha3_256".toList [] = none := by decide
example : (add (digestByName fun p => if p = "R/a/Z.img".toList then some [0x61, 0x62, 0x63] else none) [] "./a//x/../Z.img".toList
    "md5".toList none (some "R".toList)).1 = [("a/Z.img".toList, ("md5".toList, "900150983cd24fb0d6963f7d28e17f72".toList))] := by decide +kernel
/-- the hypotheses of the generic theorems hold of a sponge-shaped instance too (rate 136 = sha3-256's) -/
example : 0 < (⟨136, (), fun _ _ => (), fun _ _ _ => []⟩ : HashMD.Alg Unit).blockSize := by decide
/-- padding: 55 bytes still fit one block with the length, 56 need a second block -/
example : (HashMD.mdPad 64 8 true (List.replicate 55 0) 55).length = 64
    ∧ (HashMD.mdPad 64 8 true (List.replicate 56 0) 56).length = 128
    ∧ (HashMD.mdPad 128 16 true (List.replicate 111 0) 111).length = 128
    ∧ (HashMD.mdPad 128 16 true (List.replicate 112 0) 112).length = 256 := by decide +kernel
/-- keys are exact spellings: `SHA256` and `sha256` are two independent types (what the code does; `C16_image_monotone`
is about the exact key), and a second value under the SAME spelling is refused -/
example : addChecksums [] [("sha256".toList, some "a".toList), ("SHA256".toList, some "b".toList)]
    = [("sha256".toList, some "a".toList), ("SHA256".toList, some "b".toList)] := by decide
example : (addChecksum [("SHA256".toList, some "a".toList)] "SHA256".toList (some "b".toList)).2 = .error .valueError := by rfl

end PM
