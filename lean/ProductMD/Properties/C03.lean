import ProductMD.Proofs.RulesIndep
import ProductMD.Proofs.JsonRoundTrip
/-!
# C03 — RPM, module and extra-file manifests survive a write/read cycle unchanged

Model: `Model/Builders.lean` (the add operations, `runOps`), `Model/ManifestIO.lean` (`serialize`, `deserialize`,
`dumps`, `roundtrip`; header and compose validated by the rule lists generated from the source; payload stored and
emitted verbatim; text = `JsonText.dumps`, byte-exact `json.dump(indent=4, sort_keys=True)`).

The JSON *parser* is not modelled: `reparse doc = canon doc` says that `json.load` gives back the document that was
written, with every dict in the (sorted) order of the text.  The harness compares the model's re-read manifest with
the real `loads()` on every case.
-/
namespace PM.Mf
open PM

/-- arguments that are JSON values themselves (strings always are; `rpms` may be a list or a TUPLE of JSON values;
`size` and `checksums` any JSON value) -/
def AddOp.argsRep : AddOp → Bool
  | .rpms _ => true
  | .modules a => a.rpms.jsonRep
  | .extra a => jsonRep a.size && jsonRep a.checksums

theorem step_jsonRep (s : PyVal) (op : AddOp) (ha : op.argsRep = true) (h : jsonRep s = true) :
    jsonRep (step s op).1 = true := by
  cases op with
  | rpms a => exact rpms_add_jsonRep s a h
  | modules a => exact modules_add_jsonRep s a ha h
  | extra a =>
    simp only [AddOp.argsRep, Bool.and_eq_true] at ha
    exact extra_add_jsonRep s a ha h

/-- **Every mapping reachable by add calls is JSON-representable**: after any history of calls (accepted or refused,
any arguments that are JSON values, tuples allowed for `rpms`) the mapping consists only of None/bool/int/float/
str/list/dict-with-distinct-string-keys — no tuple, set or foreign object can get in.  (A change that stores the
caller's tuple makes `Modules.add`'s model store a `PyVal.other` and breaks this proof.) -/
theorem C03_json_closed (ops : List AddOp) (hargs : ∀ op ∈ ops, op.argsRep = true) :
    jsonRep (runOps empty ops) = true := by
  suffices ∀ s, jsonRep s = true → jsonRep (runOps s ops) = true from this empty rfl
  induction ops with
  | nil => intro s hs; exact hs
  | cons op rest ih =>
    intro s hs
    exact ih (fun o ho => hargs o (List.mem_cons_of_mem _ ho)) _
      (step_jsonRep s op (hargs op (List.mem_cons_self)) hs)

/-- histories of `Rpms.add` calls need no hypothesis at all: every argument is a string or None -/
theorem C03_json_closed_rpms (h : List RpmsArgs) : jsonRep (runRpms empty h) = true := by
  suffices ∀ s, jsonRep s = true → jsonRep (runRpms s h) = true from this empty rfl
  induction h with
  | nil => intro s hs; exact hs
  | cons a rest ih => intro s hs; exact ih _ (rpms_add_jsonRep s a hs)

/-- key sorting commutes with every chain of lookups: whatever `m[k1][k2]…` read in the built mapping, it reads the
same (key-sorted) value in the re-read one, and what was absent stays absent -/
theorem getPath_canon : ∀ (path : List Str) (v : PyVal), jsonRep v = true →
    getPath (PyVal.canon v) path = (getPath v path).map PyVal.canon := by
  intro path
  induction path with
  | nil => intro v _; simp [getPath_nil]
  | cons k ks ih =>
    intro v hv
    cases v with
    | dict kvs =>
      simp only [jsonRep] at hv
      simp only [PyVal.canon]
      rw [getPath_dict_cons, getPath_dict_cons, lookup_sortKvs_canonKvs kvs k hv]
      cases hl : lookup kvs k with
      | none => rfl
      | some c => simpa using ih c (jsonRep_of_lookup kvs k c hv hl)
    | list xs => simp [PyVal.canon, getPath]
    | none => simp [PyVal.canon, getPath]
    | bool b => simp [PyVal.canon, getPath]
    | int n => simp [PyVal.canon, getPath]
    | float r => simp [PyVal.canon, getPath]
    | str t => simp [PyVal.canon, getPath]
    | other t => simp [PyVal.canon, getPath]

/-- the write/read/write cycle on ANY JSON-representable mapping (e.g. one that was itself loaded) -/
theorem C03_roundtrip_payload (k : Kind) (v0 : PyVal) (c : ComposeT) (p : PyVal) (hp : jsonRep p = true)
    (hv : composeValidate c.toObj = .ok ()) :
    ∃ rt, roundtrip k { version := v0, compose := c.toObj, payload := p } = .ok rt
      ∧ rt.reloaded.payload = PyVal.canon p
      ∧ PyVal.pyEq rt.reloaded.payload p = true
      ∧ rt.reloaded.compose = c.norm.toObj
      ∧ rt.reloaded.version = .str currentVersion
      ∧ rt.text2 = rt.text1 := by
  have hn := composeValidate_norm c hv
  unfold roundtrip
  rw [dumpDoc_eq k v0 c p hv]
  simp only
  rw [deserialize_reparse k c p hp hn]
  simp only
  rw [dumpDoc_eq k _ c.norm (PyVal.canon p) hn]
  exact ⟨_, rfl, rfl, pyEq_canon p hp, rfl, rfl, dumps_docOf_canon k c p hp⟩

/-- **Round trip, any history** — for every kind of manifest, every history of add calls (accepted or refused), every
compose section that validates, and whatever the header version was: `dumps` succeeds; `loads` of that text
succeeds; the re-read mapping is the built mapping with sorted keys, i.e. Python-equal to it; the compose section
is the same up to the documented normalisation (`final` travels only with a label: `c.norm`); the header carries
the current version; a second `dumps` gives the same bytes. -/
theorem C03_roundtrip (k : Kind) (ops : List AddOp) (hargs : ∀ op ∈ ops, op.argsRep = true)
    (v0 : PyVal) (c : ComposeT) (hv : composeValidate c.toObj = .ok ()) :
    ∃ rt, roundtrip k { version := v0, compose := c.toObj, payload := runOps empty ops } = .ok rt
      ∧ rt.reloaded.payload = PyVal.canon (runOps empty ops)
      ∧ PyVal.pyEq rt.reloaded.payload (runOps empty ops) = true
      ∧ rt.reloaded.compose = c.norm.toObj
      ∧ rt.reloaded.version = .str currentVersion
      ∧ rt.text2 = rt.text1 :=
  C03_roundtrip_payload k v0 c (runOps empty ops) (C03_json_closed ops hargs) hv

/-- **Pointwise form of "exactly the same mapping"** — for every history and every chain of keys
`[variant][arch][…]…`: the re-read manifest holds there the key-sorted value the built manifest held (in particular
the same strings, numbers and None), and nothing where the built manifest held nothing. -/
theorem C03_pointwise (k : Kind) (ops : List AddOp) (hargs : ∀ op ∈ ops, op.argsRep = true)
    (v0 : PyVal) (c : ComposeT) (hv : composeValidate c.toObj = .ok ()) (path : List Str) :
    ∃ rt, roundtrip k { version := v0, compose := c.toObj, payload := runOps empty ops } = .ok rt
      ∧ getPath rt.reloaded.payload path = (getPath (runOps empty ops) path).map PyVal.canon := by
  obtain ⟨rt, h1, h2, _⟩ := C03_roundtrip k ops hargs v0 c hv
  exact ⟨rt, h1, by rw [h2]; exact getPath_canon path _ (C03_json_closed ops hargs)⟩

/-- **Byte level** — with the JSON parser as a parameter: for ANY `parse` that gives back the document that was
written (dict order = order of the text; this is the one assumption on the stdlib, stated on the document at hand),
`loads(dumps(m))` succeeds and `dumps` of the result is the same text, byte for byte. -/
theorem C03_bytes (parse : Str → Except Err PyVal) (k : Kind) (ops : List AddOp)
    (hargs : ∀ op ∈ ops, op.argsRep = true) (v0 : PyVal) (c : ComposeT) (hv : composeValidate c.toObj = .ok ())
    (hparse : ∀ doc, (dumpDoc k { version := v0, compose := c.toObj, payload := runOps empty ops }).2 = .ok doc →
        parse (JsonText.dumps doc) = .ok (reparse doc)) :
    ∃ t m2, (dumps k { version := v0, compose := c.toObj, payload := runOps empty ops }).2 = .ok t
      ∧ (parse t).bind (deserialize k) = .ok m2
      ∧ (dumps k m2).2 = .ok t := by
  obtain ⟨rt, h1, _, _, _, _, h6⟩ := C03_roundtrip k ops hargs v0 c hv
  unfold roundtrip at h1
  cases hd : (dumpDoc k { version := v0, compose := c.toObj, payload := runOps empty ops }).2 with
  | error e => rw [hd] at h1; cases h1
  | ok doc =>
    rw [hd] at h1
    simp only at h1
    cases hds : deserialize k (reparse doc) with
    | error e => rw [hds] at h1; cases h1
    | ok m2 =>
      rw [hds] at h1
      simp only at h1
      cases hd2 : (dumpDoc k m2).2 with
      | error e => rw [hd2] at h1; cases h1
      | ok doc2 =>
        rw [hd2] at h1
        simp only [Except.ok.injEq] at h1
        subst h1
        simp only at h6
        refine ⟨JsonText.dumps doc, m2, ?_, ?_, ?_⟩
        · simp [dumps, hd, Except.map]
        · rw [hparse doc hd]
          exact hds
        · simp [dumps, hd2, Except.map, h6]

/-! ### loading into an object that already holds content -/

/-- obligation on the generated facts (tools/gen_builders.py): the three readers consist of the pinned statements —
header, compose, `self.<table> = data["payload"][<key>]`, validate — i.e. they REPLACE the table.  A reader that
re-files the records through `add()` onto whatever the object holds is `.unknown` and breaks this. -/
theorem C03_load_modes : ∀ k : Kind, k.loadMode = .replace := by
  intro k; cases k <;> decide

theorem deserialize_payload (k : Kind) (doc : PyVal) (m' : Manifest) (h : deserialize k doc = .ok m') :
    ∃ pl, getItem doc (lit "payload") = .ok pl ∧ getItem pl k.payloadKey = .ok m'.payload := by
  unfold deserialize at h
  cases hh : headerDeserialize k doc with
  | error e => rw [hh] at h; cases h
  | ok vt =>
    obtain ⟨ver, t⟩ := vt
    rw [hh] at h
    cases k <;> cases t <;> simp only [Bool.false_eq_true, ↓reduceIte] at h
    all_goals
      repeat' split at h
      all_goals first
        | (cases h; exact ⟨_, by assumption, by assumption⟩)
        | cases h

/-- **A load REPLACES what the object held** — for every kind, every object state `m` (fresh, filled by adds, loaded
before) and every document: after a successful `loads`/`deserialize` the mapping is exactly the document's payload
table, header and compose are the document's, and nothing of `m` survives (the result is the same for every prior
state `m0`); after a refused load the mapping is what it was. -/
theorem C03_load_replaces (k : Kind) (m : Manifest) (doc : PyVal) :
    ((loadS k m doc).2 = .ok () →
        (∃ pl, getItem doc (lit "payload") = .ok pl ∧ getItem pl k.payloadKey = .ok (loadS k m doc).1.payload)
        ∧ deserialize k doc = .ok (loadS k m doc).1
        ∧ ∀ m0, loadS k m0 doc = loadS k m doc)
    ∧ (∀ e, (loadS k m doc).2 = .error e → (loadS k m doc).1.payload = m.payload) := by
  unfold loadS
  rw [C03_load_modes k]
  cases hd : deserialize k doc with
  | error e => exact ⟨fun h => by simp at h, fun _ _ => rfl⟩
  | ok m' =>
    refine ⟨fun _ => ⟨deserialize_payload k doc m' hd, rfl, fun m0 => rfl⟩, fun e h => by simp at h⟩

/-- loading the same document again changes nothing (no accumulation) -/
theorem C03_load_twice (k : Kind) (m : Manifest) (doc : PyVal) (h : (loadS k m doc).2 = .ok ()) :
    loadS k (loadS k m doc).1 doc = loadS k m doc :=
  ((C03_load_replaces k m doc).1 h).2.2 _

/-- an object filled by ANY history of adds that re-reads its own dump — or is handed the dump of any other history —
ends up holding exactly (the key-sorted form of) what was dumped, not a union with what it held -/
theorem C03_reload_into_used_object (k : Kind) (held : Manifest) (ops : List AddOp)
    (hargs : ∀ op ∈ ops, op.argsRep = true) (c : ComposeT) (hv : composeValidate c.toObj = .ok ()) :
    loadS k held (reparse (docOf k c (runOps empty ops)))
      = ({ version := .str currentVersion, compose := c.norm.toObj, payload := PyVal.canon (runOps empty ops) }, .ok ()) := by
  unfold loadS
  rw [C03_load_modes k, deserialize_reparse k c _ (C03_json_closed ops hargs) (composeValidate_norm c hv)]

/-- the normalisation is the identity on the compose sections that a reader can produce: re-reading a re-read
manifest changes nothing at all -/
theorem C03_norm_idem (c : ComposeT) : c.norm.norm = c.norm := by
  unfold ComposeT.norm
  cases h : c.labelSet
  · simp [ComposeT.labelSet, optStr, PyVal.truthy]
  · simp [h]

/-- obligation on the generated validators: the compose rules look at `final` only under `if self.label:` (this is
what makes the normalised section valid again; it stops compiling if a validator starts reading `final`) -/
theorem C03_final_only_with_label :
    composeRules.all (ruleIndep (lit "final") (lit "label") [labelCustom]) = true := compose_rules_indep

/-- a section with a label is in normal form -/
theorem C03_norm_of_label (c : ComposeT) (h : c.labelSet = true) : c.norm = c := by simp [ComposeT.norm, h]

/-- so is one without label whose `final` is False -/
theorem C03_norm_of_not_final (c : ComposeT) (h1 : c.label = none) (h2 : c.final = false) : c.norm = c := by
  obtain ⟨id, ty, date, respin, label, final⟩ := c
  simp only at h1 h2
  subst h1 h2
  rfl

/-- the gates the round trip depends on, read from the generated `VERSION` and the generated gates (tools/gen_gates.py): documents are written with a version
the reader treats as current (type checked, no legacy conversion) -/
theorem C03_version_gates :
    versionTuple (.str currentVersion) = .ok (.nums Gen.VERSION)
    ∧ Gen.gate_common_Header_deserialize_0.eval? Gen.VERSION = some true
    ∧ Gen.gate_rpms_Rpms_deserialize_0.eval? Gen.VERSION = some false
    ∧ Gen.gate_composeinfo_Compose_deserialize_0.eval? Gen.VERSION = some false :=
  ⟨versionTuple_current, gate_header_some, gate_rpms_some, gate_compose_some⟩

/-! ### non-vacuity: concrete compose sections satisfy the hypotheses; a concrete history goes round -/

def exampleCompose : ComposeT :=
  { id := lit "Fedora-23-20151030.n.0", type := lit "nightly", date := lit "20151030", respin := 0,
    label := some (lit "RC-1.2"), final := true }

def exampleComposeNoLabel : ComposeT :=
  { id := lit "Fedora-23-20151030.0", type := lit "production", date := lit "20151030", respin := 0,
    label := none, final := true }

example : exampleCompose.norm = exampleCompose ∧ composeValidate exampleCompose.toObj = .ok () := by
  refine ⟨C03_norm_of_label _ (by decide), by decide +kernel⟩

example : composeValidate exampleComposeNoLabel.toObj = .ok ()
    ∧ exampleComposeNoLabel.norm.final = false := by
  constructor
  · decide +kernel
  · decide

/-- the parser hypothesis of `C03_bytes` is satisfiable for every manifest (it constrains `parse` on one text) -/
example (k : Kind) (m : Manifest) :
    ∃ parse : Str → Except Err PyVal, ∀ doc, (dumpDoc k m).2 = .ok doc → parse (JsonText.dumps doc) = .ok (reparse doc) := by
  cases h : (dumpDoc k m).2 with
  | error e => exact ⟨fun _ => .error .other, by intro doc hd; cases hd⟩
  | ok d => exact ⟨fun _ => .ok (reparse d), by intro doc hd; cases hd; rfl⟩

def exampleOps : List AddOp :=
  [.rpms { variant := lit "Server", arch := lit "x86_64", nevra := lit "foo-bar-1:2.0-3.el7.x86_64.rpm",
           path := lit "Packages/f/foo-bar.rpm", sigkey := some (lit "FD431D51"), category := lit "binary",
           srpm := some (lit "foo-1:2.0-3.el7.src.rpm") },
   .rpms { variant := lit "Client", arch := lit "x86_64", nevra := lit "foo-1:2.0-3.el7.src.rpm",
           path := lit "Packages/f/foo.src.rpm", sigkey := none, category := lit "source" }]

theorem C03_example :
    (∀ op ∈ exampleOps, op.argsRep = true)
    ∧ ((roundtrip .rpms { version := .str (lit "0.0"), compose := exampleCompose.toObj,
                          payload := runOps empty exampleOps }).toOption.map
        (fun rt => rt.text1 == rt.text2 && rt.text1.length > 400)) = some true := by
  constructor
  · decide
  · decide +kernel

end PM.Mf

/-! ## bytes through the modelled JSON parser (builder jsonparse)

`JsonParse.parseWith lim` (Model/JsonParse.lean) is the model of CPython's `json.loads` under
`sys.set_int_max_str_digits(lim)` (`lim = 0`: no limit; CPython's default is `JsonParse.defaultLimit = 4300`), tied to
the real parser by `harness/json_diff.py`; `Proofs/JsonRoundTrip.lean` proves that it inverts `JsonText.dumps` on
JSON-representable documents.  The parser hypothesis of `C03_bytes` is discharged; what remains explicit is the side
condition on NUMBERS in the built mapping (`numsOk`: float tokens are float literals; integers within `int()`'s digit
limit — the real `dumps` itself raises beyond it) and on the compose section's `respin`. -/
namespace PM.Mf
open PM

theorem numsOk_docOf (lim : Nat) (k : Kind) (c : ComposeT) (p : PyVal) (hp : JsonParse.numsOk lim p = true)
    (hr : JsonParse.intFits lim c.respin = true) : JsonParse.numsOk lim (docOf k c p) = true := by
  have hc : JsonParse.numsOk lim (composeDoc c) = true := by
    unfold composeDoc
    cases c.labelSet
    · simp [JsonParse.numsOk, JsonParse.numsOkKvs, hr]
    · cases h : c.label <;> simp [JsonParse.numsOk, JsonParse.numsOkKvs, hr, optStr]
  cases k <;> simp [docOf, payloadDoc, headerDoc, JsonParse.numsOk, JsonParse.numsOkKvs, hp, hc]

/-- **Byte level, parser modelled** — for every history of add calls, every kind and every valid compose section:
`dumps` succeeds, the modelled `json.loads` reads that very text, `deserialize` of what it returns succeeds, and
`dumps` of the re-read manifest is the same text, byte for byte.  No assumption on the parser is left. -/
theorem C03_bytes_parsed (lim : Nat) (k : Kind) (ops : List AddOp)
    (hargs : ∀ op ∈ ops, op.argsRep = true) (v0 : PyVal) (c : ComposeT) (hv : composeValidate c.toObj = .ok ())
    (hnum : JsonParse.numsOk lim (runOps empty ops) = true) (hr : JsonParse.intFits lim c.respin = true) :
    ∃ t m2, (dumps k { version := v0, compose := c.toObj, payload := runOps empty ops }).2 = .ok t
      ∧ (JsonParse.parseWith lim t).bind (deserialize k) = .ok m2
      ∧ (dumps k m2).2 = .ok t := by
  refine C03_bytes (JsonParse.parseWith lim) k ops hargs v0 c hv ?_
  intro doc hd
  rw [dumpDoc_eq k v0 c _ hv] at hd
  cases hd
  exact JsonParse.parseWith_dumps lim _ (jsonRep_docOf k c _ (C03_json_closed ops hargs))
    (numsOk_docOf lim k c _ hnum hr)

/-- the same for any JSON-representable mapping (e.g. one that was itself loaded), not only built ones -/
theorem C03_bytes_parsed_payload (lim : Nat) (k : Kind) (v0 : PyVal) (c : ComposeT) (p : PyVal) (hp : jsonRep p = true)
    (hv : composeValidate c.toObj = .ok ())
    (hnum : JsonParse.numsOk lim p = true) (hr : JsonParse.intFits lim c.respin = true) :
    ∃ t rt, roundtrip k { version := v0, compose := c.toObj, payload := p } = .ok rt ∧ rt.text1 = t ∧ rt.text2 = t
      ∧ (JsonParse.parseWith lim t).bind (deserialize k) = .ok rt.reloaded := by
  obtain ⟨rt, h1, _, _, _, _, h6⟩ := C03_roundtrip_payload k v0 c p hp hv
  refine ⟨rt.text1, rt, h1, rfl, h6, ?_⟩
  unfold roundtrip at h1
  rw [dumpDoc_eq k v0 c p hv] at h1
  simp only at h1
  cases hds : deserialize k (reparse (docOf k c p)) with
  | error e => rw [hds] at h1; cases h1
  | ok m2 =>
    rw [hds] at h1
    simp only at h1
    cases hd2 : (dumpDoc k m2).2 with
    | error e => rw [hd2] at h1; cases h1
    | ok doc2 =>
      rw [hd2] at h1
      simp only [Except.ok.injEq] at h1
      subst h1
      simp only
      rw [JsonParse.parseWith_dumps lim _ (jsonRep_docOf k c p hp) (numsOk_docOf lim k c p hnum hr)]
      exact hds

/-- non-vacuity: the example history satisfies the number side condition under CPython's default limit, and the
kernel runs the modelled parser on the text of the example manifest: it reads back the key-sorted document -/
example : JsonParse.numsOk JsonParse.defaultLimit (runOps empty exampleOps) = true
    ∧ JsonParse.intFits JsonParse.defaultLimit exampleCompose.respin = true := by decide +kernel

example : (match (dumpDoc .rpms { version := .str (lit "0.0"), compose := exampleCompose.toObj,
                                  payload := runOps empty exampleOps }).2 with
    | .ok doc => (match JsonParse.parse (JsonText.dumps doc) with
                  | .ok w => PyVal.beq w (reparse doc) | .error _ => false)
    | .error _ => false) = true := by decide +kernel

end PM.Mf
