import ProductMD.Model.ManifestIO
import ProductMD.Proofs.PyCanon
namespace PM.Mf
theorem C03_placeholder : True := trivial
end PM.Mf
