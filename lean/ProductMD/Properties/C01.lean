import ProductMD.Proofs.CINormal
import ProductMD.Proofs.CIDistinct
import ProductMD.Proofs.CIApi
import ProductMD.Proofs.CIRep
import ProductMD.Proofs.JsonRoundTrip
/-!
# C01 — composeinfo survives a write/read cycle unchanged

Model: `Model/ComposeInfo.lean` (typed records, nested-inductive variant forest; `serialize`/`deserialize` mirror
`productmd/composeinfo.py` for the current format, validators = the rule lists generated from the source).
-/
namespace PM
open CI

/-- all UIDs of the forest are different (decidable) -/
def CI.UidsDistinct (ci : ComposeInfo) : Prop := (uidsL ci.variants).Nodup

instance (ci : ComposeInfo) : Decidable (CI.UidsDistinct ci) := by unfold CI.UidsDistinct; infer_instance

/-- dict keys are the variant ids and no dict holds a key twice, at every level (what `add()` produces) -/
def CI.WellKeyed (ci : ComposeInfo) : Prop := wellKeyedTop ci.variants = true

instance (ci : ComposeInfo) : Decidable (CI.WellKeyed ci) := by unfold CI.WellKeyed; infer_instance

/-- read-back with UID distinctness still as a hypothesis (discharged by `C01_written_uids_distinct` below) -/
theorem CI.readback_of_distinct (ci : ComposeInfo) (j : PyVal) (hk : WellKeyed ci) (hu : UidsDistinct ci) :
    serialize ci = .ok j → deserialize j = .ok ci.norm := by
  intro h
  unfold serialize at h
  split at h
  · cases h
  · rename_i hH
    split at h
    · cases h
    · rename_i hC
      split at h
      · cases h
      · rename_i hR
        split at h
        · cases h
        · rename_i hB
          split at h
          · cases h
          · rename_i d hV
            cases h
            unfold variantsSer at hV
            split at hV
            · cases hV
            · have hv10 := version_not_lt_1_0
              have hv03 := verLt_0_3_of Gen.VERSION hv10
              obtain ⟨compose, release, base, variants⟩ := ci
              simp only at hH hC hR hB hV hk hu ⊢
              unfold deserialize
              rw [headerDe_ok _ hH]
              simp only [sub, PyVal.get?, List.find?_cons]
              simp only [show ((k%"header" : Str) == k%"payload") = false by decide, show ((k%"payload" : Str) == k%"payload") = true by decide,
                Option.map_some, List.cons_append, List.nil_append]
              rw [composeDe_ok _ hv03.1 compose _ hC]
              cases hlay : release.isLayered with
              | false =>
                have hnl : release.norm.isLayered = false := by simp [Release.norm, hlay]
                rw [releaseDe_ok _ hv03.2 release _ (by simp [PyVal.get?]) hR]
                simp only [baseDeIf, hnl]
                rw [variantsDe_ok _ hv10 variants d _ (by simp [PyVal.get?]) hV hk hu]
                simp [ComposeInfo.norm, hlay]
              | true =>
                have hnl : release.norm.isLayered = true := by simp [Release.norm, hlay]
                simp only [hlay, if_true] at hB
                cases base with
                | none =>
                  have := blank_base_invalid
                  rw [hB] at this
                  simp [isOk] at this
                | some b =>
                  rw [releaseDe_ok _ hv03.2 release _ (by simp [PyVal.get?]) hR]
                  simp only [baseDeIf, hnl, if_true]
                  rw [baseDe_ok b _ (by simp [PyVal.get?]) hB]
                  rw [variantsDe_ok _ hv10 variants d _ (by simp [PyVal.get?]) hV hk hu]
                  simp [ComposeInfo.norm, hlay]

/-- fixpoint with UID distinctness still as a hypothesis -/
theorem CI.fixpoint_of_distinct (ci : ComposeInfo) (j : PyVal) (hk : WellKeyed ci) (hu : UidsDistinct ci) :
    serialize ci = .ok j → serialize ci.norm = .ok j := by
  intro h
  unfold serialize at h
  split at h
  · cases h
  · rename_i hH
    split at h
    · cases h
    · rename_i hC
      split at h
      · cases h
      · rename_i hR
        split at h
        · cases h
        · rename_i hB
          split at h
          · cases h
          · rename_i d hV
            cases h
            obtain ⟨compose, release, base, variants⟩ := ci
            simp only at hH hC hR hB hV hk hu ⊢
            have hrel : release.norm = release := release_norm_eq release hR
            have hcv : composeVal compose.norm = composeVal compose ∧
                validateClass "composeinfo.Compose" (composeObj compose.norm) = .ok () := by
              obtain ⟨id, type, date, respin, label, final⟩ := compose
              cases label with
              | none =>
                simp only [composeObj] at hC
                rw [compose_final_irrelevant _ _ _ _ final false] at hC
                exact ⟨by simp [Compose.norm, composeVal], by simpa [Compose.norm, composeObj] using hC⟩
              | some l =>
                cases l with
                | nil => exact absurd hC (compose_empty_label_invalid _ rfl)
                | cons ch cs => exact ⟨by simp [Compose.norm, composeVal], by simpa [Compose.norm, composeObj] using hC⟩
            have hV' := variantsSer_norm variants d hV hk hu
            unfold serialize
            simp only [ComposeInfo.norm, hrel, hH, hcv.1, hcv.2, hR, hV']
            cases hlay : release.isLayered with
            | false => simp
            | true =>
              simp only [hlay, if_true] at hB
              simp [hB]

/-- **The writer's refusal of duplicate UIDs.** If the library agrees to write a description whose dicts are keyed the
way `add()` keys them, no two variants anywhere in the forest share a UID — including the F14 shape (a dashed top-level
UID `Server-Tools` next to `Server` → `Tools`): the two would file different entries (ids `ServerTools` / `Tools`) under
one key and `Variant.serialize` raises.  Uses the generated validators: UID alignment below a parent, `uid` without
dashes = `id` at the top level, and a non-empty id. -/
theorem C01_written_uids_distinct (ci : ComposeInfo) (j : PyVal) (hk : WellKeyed ci) (h : serialize ci = .ok j) :
    UidsDistinct ci := by
  obtain ⟨d, hd⟩ := serialize_variantsSer h
  exact variantsSer_distinct ci.variants d hd hk

/-- **Read-back.** Whatever the writer agrees to write is read back as the normal form of what was written:
every section, every variant at any depth with its fields, arches, paths, release and children.
The only hypothesis is the key convention `add()` establishes. -/
theorem C01_readback (ci : ComposeInfo) (j : PyVal) (hk : WellKeyed ci) :
    serialize ci = .ok j → deserialize j = .ok ci.norm :=
  fun h => readback_of_distinct ci j hk (C01_written_uids_distinct ci j hk h) h

/-- **Fixpoint.** Writing the normal form (= the re-read object, by `C01_readback`) produces the very same document. -/
theorem C01_fixpoint (ci : ComposeInfo) (j : PyVal) (hk : WellKeyed ci) :
    serialize ci = .ok j → serialize ci.norm = .ok j :=
  fun h => fixpoint_of_distinct ci j hk (C01_written_uids_distinct ci j hk h) h

/-- **Bytes.** The text of the first `dumps()`, parsed and loaded, is dumped to the same text.  `parse` stands for
`json.load`; that it inverts the printer on the written document is the explicit hypothesis `hjson` (trusted stdlib,
exercised on every generated case by the check). -/
theorem C01_bytes (parse : Str → Except Err PyVal) (ci : ComposeInfo) (t : Str) (hk : WellKeyed ci)
    (hjson : ∀ j, serialize ci = .ok j → parse (JsonText.dumps j) = .ok j) :
    dumps ci = .ok t → reloadDump parse t = .ok t := by
  intro h
  unfold dumps at h
  split at h
  · cases h
  · rename_i hv
    split at h
    · cases h
    · rename_i j hj
      cases h
      unfold reloadDump
      rw [hjson j hj]
      simp only [loadsDoc, C01_readback ci j hk hj, hv, dumps, C01_fixpoint ci j hk hj]

/-- the reader's result is exactly the normal form also through `loads` (which validates once more) -/
theorem C01_loads (ci : ComposeInfo) (j : PyVal) (hk : WellKeyed ci)
    (h : serialize ci = .ok j) (hv : validateClass "composeinfo.ComposeInfo" [] = .ok ()) : loadsDoc j = .ok ci.norm := by
  simp only [loadsDoc, C01_readback ci j hk h, hv]

/-- **Normal form, identity.** On a description that already has the shape the reader returns (`Normal`, decidable:
final only with a label, lower-case release type, base product only when layered, top level sorted by UID, every variant
keyed by id with sorted arches, stored-form paths, release only on layered products, children sorted by id) `norm` does
nothing. -/
theorem C01_norm_id (ci : ComposeInfo) (h : Normal ci) : ci.norm = ci := by
  obtain ⟨compose, release, base, variants⟩ := ci
  obtain ⟨hfin, hlab, hlow, hbase, hsorted, hnl⟩ := h
  simp only at hfin hlab hlow hbase hsorted hnl
  have hc : compose.norm = compose := by
    obtain ⟨id, type, date, respin, label, final⟩ := compose
    simp only at hfin hlab
    cases label with
    | none => simp [Compose.norm, hfin rfl]
    | some l =>
      cases l with
      | nil => exact absurd rfl hlab
      | cons ch cs => simp [Compose.norm]
  have hr : release.norm = release := by
    obtain ⟨name, short, version, type, lay, int⟩ := release
    simp only at hlow
    simp [Release.norm, hlow]
  have hv : normTop variants = variants := by
    unfold normTop
    rw [norms_of_normal variants hnl, sortDedup_of_sorted hsorted]
    exact pickUid_self variants hsorted.nodup
  simp only [ComposeInfo.norm, hc, hr, hv]
  cases hlay : release.isLayered with
  | true => simp
  | false => simp [hbase hlay]

/-- **Normal form, what it keeps (sections).** Only the documented normalisations happen: `final` is dropped without a
label (an empty label counts as none), the release type is case-folded, the base product is dropped unless layered. -/
theorem C01_norm_sections (ci : ComposeInfo) :
    ci.norm.compose.id = ci.compose.id ∧ ci.norm.compose.type = ci.compose.type ∧ ci.norm.compose.date = ci.compose.date ∧
    ci.norm.compose.respin = ci.compose.respin ∧
    (∀ ch cs, ci.compose.label = some (ch :: cs) → ci.norm.compose.label = ci.compose.label ∧ ci.norm.compose.final = ci.compose.final) ∧
    ((ci.compose.label = none ∨ ci.compose.label = some []) → ci.norm.compose.label = none ∧ ci.norm.compose.final = false) ∧
    ci.norm.release.name = ci.release.name ∧ ci.norm.release.short = ci.release.short ∧
    ci.norm.release.version = ci.release.version ∧ ci.norm.release.type = Str.lowerAscii ci.release.type ∧
    ci.norm.release.isLayered = ci.release.isLayered ∧ ci.norm.release.internal = ci.release.internal ∧
    (ci.release.isLayered = true → ci.norm.base = ci.base) ∧ (ci.release.isLayered = false → ci.norm.base = none) := by
  obtain ⟨⟨id, type, date, respin, label, final⟩, release, base, variants⟩ := ci
  refine ⟨rfl, rfl, rfl, rfl, ?_, ?_, rfl, rfl, rfl, rfl, rfl, rfl, ?_, ?_⟩
  · intro ch cs h
    simp only at h
    simp [ComposeInfo.norm, Compose.norm, h]
  · intro h
    simp only at h
    rcases h with h | h <;> simp [ComposeInfo.norm, Compose.norm, h]
  · intro h; simp only at h; simp [ComposeInfo.norm, h]
  · intro h; simp only at h; simp [ComposeInfo.norm, h]

/-- **Normal form, what it keeps (variants).** Identity fields are untouched, the arch set is the same set, a path is kept
exactly when its category is one of the generated `_fields`, its arch is one of the variant's own and it is not empty. -/
theorem C01_norm_variant (v : Variant) :
    v.norm.id = v.id ∧ v.norm.uid = v.uid ∧ v.norm.name = v.name ∧ v.norm.type = v.type ∧ v.norm.key = v.id ∧
    (∀ a, a ∈ v.norm.arches ↔ a ∈ v.arches) ∧
    v.norm.paths = storedPaths (Str.sortDedup v.arches) v.paths ∧
    (v.type ≠ layeredProduct → v.norm.release = none) ∧
    (v.type = layeredProduct → v.norm.release = v.release.map fun r => { r with isLayered := true, type := Str.lowerAscii r.type }) := by
  cases v with
  | mk key id uid name type arches paths rel kids =>
  refine ⟨rfl, rfl, rfl, rfl, rfl, fun a => mem_sortDedup, rfl, ?_, ?_⟩
  · intro h; simp only [Variant.type] at h; simp [Variant.norm, Variant.release, h]
  · intro h; simp only [Variant.type] at h; simp [Variant.norm, Variant.release, h, forceLayered, Release.norm]

/-- what `storedPaths` keeps, cell by cell -/
theorem C01_stored_path (arches : List Str) (p : PathTable) (cat a : Str)
    (hc : cat ∈ Gen.COMPOSEINFO_PATH_FIELDS) (ha : a ∈ arches) :
    pathAt (storedPaths arches p) cat a = (match pathAt p cat a with | some v => if v = [] then none else some v | none => none) := by
  unfold pathAt
  have hsp : storedPaths arches p = Gen.COMPOSEINFO_PATH_FIELDS.map fun c => (c, arches.filterMap fun a =>
      match pathAt p c a with
      | some v => if v = [] then none else some (a, v)
      | none => none) := rfl
  rw [hsp, lookup_map_self _ cat _ hc]
  simp only
  rw [lookup_filterMap_cell _ _ a arches ha]
  · unfold pathAt
    cases lookup cat p with
    | none => rfl
    | some t =>
      simp only
      cases lookup a t with
      | none => rfl
      | some v => by_cases hv : v = [] <;> simp [hv]
  · intro a' x hx
    split at hx
    · split at hx
      · cases hx
      · cases hx; rfl
    · cases hx


/-! ### non-vacuity: a layered compose with a label, a depth-3 forest, a layered-product variant with its own release,
a dashed top-level UID, stray and empty paths -/
def CI.exRelease : Release := { name := k%"Fedora", short := k%"F", version := k%"22", type := k%"ga", isLayered := true, internal := true }
def CI.exCI : ComposeInfo :=
  { compose := { id := k%"F-22-20150522.n.0", type := k%"nightly", date := k%"20150522", respin := 0, label := some k%"RC-1.0", final := true },
    release := exRelease,
    base := some { name := k%"Base", short := k%"b", version := k%"7.1", type := k%"eus" },
    variants :=
      [.mk k%"Server" k%"Server" k%"Server" k%"Server" k%"variant" [k%"x86_64", k%"i386"]
          [(k%"os_tree", [(k%"x86_64", k%"Server/x86_64/os"), (k%"ppc64", k%"stray"), (k%"i386", [])]),
           (k%"debug_repository", [(k%"i386", k%"Server/i386/debug")])] none
          [.mk k%"optional" k%"optional" k%"Server-optional" k%"opt" k%"optional" [k%"x86_64"] [] none
             [.mk k%"LP" k%"LP" k%"Server-optional-LP" k%"lp" k%"layered-product" [k%"x86_64"] []
                (some { exRelease with isLayered := false, type := k%"updates" }) []],
           .mk k%"HA" k%"HA" k%"Server-HA" k%"ha" k%"addon" [k%"i386"] [] none []],
       .mk k%"ClientX" k%"ClientX" k%"Client-X" k%"Client" k%"variant" [k%"x86_64"] [] none []] }

example : WellKeyed exCI ∧ UidsDistinct exCI ∧ isOk (serialize exCI) = true := by decide +kernel
example : Normal exCI.norm ∧ ¬ Normal exCI := by decide +kernel
example : exCI.norm ≠ exCI := by
  intro h
  have := congrArg (fun c => (c.variants.map Variant.uid)) h
  revert this
  decide +kernel

/-- **The writer refuses conflicting duplicates.** After a successful `serialize`, any two variants of the forest that
carry the same UID filed exactly the same entry (`Variant UID already exist` otherwise).  This is the model-level content
of the refusal, without any hypothesis on keys; `C01_written_uids_distinct` sharpens it to "no duplicates at all" under
`WellKeyed`. -/
theorem C01_duplicate_uids_agree (ci : ComposeInfo) (j : PyVal) (h : serialize ci = .ok j) :
    ∀ x ∈ flats (byKeys ci.variants), ∀ y ∈ flats (byKeys ci.variants), x.1 = y.1 → x = y := by
  unfold serialize at h
  split at h
  · cases h
  · split at h
    · cases h
    · split at h
      · cases h
      · split at h
        · cases h
        · split at h
          · cases h
          · rename_i d hV
            unfold variantsSer at hV
            split at hV
            · cases hV
            · obtain ⟨_, hs, _, hall, _⟩ := sers_spec (byKeys ci.variants) none [] d hV (by simp [FSorted])
              exact hs.func.mono hall

/-- Why the key convention is a hypothesis: a parent holding the *same* child twice, once under its id and once under its
UID (only possible by writing into `.variants` directly, never through `add()`), is written without complaint and read
back with one child. -/
theorem C01_keyed_by_uid_witness :
    let kid := fun (key : Str) => Variant.mk key k%"B" k%"P-B" k%"b" k%"variant" [k%"x86_64"] [] none []
    let ci : ComposeInfo := { exCI with variants := [.mk k%"P" k%"P" k%"P" k%"p" k%"variant" [k%"x86_64"] [] none [kid k%"B", kid k%"P-B"]] }
    isOk (serialize ci) = true ∧ ¬ WellKeyed ci ∧ ¬ UidsDistinct ci ∧
      (ci.norm.variants.map fun v => v.kids.length) = [1] := by decide +kernel

/-! ### the key convention is what the public API builds (tie to the arena model of C11, `Model/Forest.lean`) -/

/-- **`WellKeyed` is established by `add()`.** Take ANY history of `add` calls from the empty `ComposeInfo` — any objects,
any containers, accepted or refused calls, objects added twice, any order — in which the top-level calls use the default
key (`ci.variants.add(v)`; `Variant.add` has no key parameter at all).  The forest the writer then walks (the arena state
unfolded to any depth `f`; `X` = the paths / per-variant releases, which `add` never looks at) satisfies `WellKeyed`.
With an explicit `variant_id` the statement is false (F29: `Variants.add(v, 'junk')`). -/
theorem C01_api_wellkeyed (U : Nat → Forest.Attrs) (X : Nat → Extra) (fuel : Nat) (ops : List Forest.Op)
    (hkey : ∀ o ∈ ops, o.c = none → o.key = none) (f : Nat) (compose : Compose) (release : Release) (base : Option BaseProduct) :
    WellKeyed { compose, release, base, variants := forestOf U X (Forest.run U fuel ops) f } :=
  forestOf_wellKeyed (invW_run U fuel ops) X f (run_top_keys U fuel ops hkey)

/-- **The property for everything built through the API**: no hypothesis on the forest is left.  If the library agrees to
write what a history of default-key `add` calls built, it is read back as its normal form and written again to the same
document. -/
theorem C01_api_roundtrip (U : Nat → Forest.Attrs) (X : Nat → Extra) (fuel : Nat) (ops : List Forest.Op)
    (hkey : ∀ o ∈ ops, o.c = none → o.key = none) (f : Nat) (compose : Compose) (release : Release) (base : Option BaseProduct)
    (j : PyVal) :
    let ci : ComposeInfo := { compose, release, base, variants := forestOf U X (Forest.run U fuel ops) f }
    serialize ci = .ok j → deserialize j = .ok ci.norm ∧ serialize ci.norm = .ok j := by
  intro ci h
  have hk := C01_api_wellkeyed U X fuel ops hkey f compose release base
  exact ⟨C01_readback ci j hk h, C01_fixpoint ci j hk h⟩

/-- non-vacuity: a history with a refused call (object 3 has a foreign arch) builds a depth-3 forest that is written -/
def CI.exU : Nat → Forest.Attrs := fun i =>
  [ { id := k%"A", uid := k%"A", name := k%"a", type := k%"variant", arches := [k%"x86_64", k%"i386"] },
    { id := k%"B", uid := k%"A-B", name := k%"b", type := k%"optional", arches := [k%"x86_64"] },
    { id := k%"C", uid := k%"A-B-C", name := k%"c", type := k%"addon", arches := [k%"x86_64"] },
    { id := k%"X", uid := k%"A-X", name := k%"x", type := k%"variant", arches := [k%"ppc64le"] },
    { id := k%"DE", uid := k%"D-E", name := k%"d", type := k%"variant", arches := [k%"s390x"] } ].getD i default
def CI.exOps : List Forest.Op := [⟨none, 0, none⟩, ⟨some 0, 1, none⟩, ⟨some 0, 3, none⟩, ⟨some 1, 2, none⟩, ⟨none, 4, none⟩]
def CI.exApiCI : ComposeInfo :=
  { exCI with variants := forestOf exU (fun _ => ⟨[], none⟩) (Forest.run exU 50 exOps) 4 }

example : (∀ o ∈ exOps, o.c = none → o.key = none) ∧ isOk (serialize exApiCI) = true ∧
    (uidsL exApiCI.variants) = [k%"A", k%"A-B", k%"A-B-C", k%"D-E"] := by decide +kernel

end PM

/-! ## bytes through the modelled JSON parser (builder jsonparse)

`JsonParse.parseWith lim` (Model/JsonParse.lean) models CPython's `json.loads` (tied to the real one by
`harness/json_diff.py`); `Proofs/JsonRoundTrip.lean` proves `parseWith lim (JsonText.dumps j) = .ok (PyVal.canon j)`:
the parser returns every dict in the order of the text, i.e. in SORTED key order.  The writer's document `j` is in
insertion order (`id, type, date, respin, …`), so the hypothesis `hjson` of `C01_bytes` (`parse (dumps j) = .ok j`)
is not what CPython does (`C01_hjson_witness`).  With the modelled parser the byte statement needs instead that
the READER does not depend on the key order of the document it is given (`C01_reader_order_independent`, proved in
general in Proofs/CIOrder.lean) and that the written document is representable (`C01_written_representable`,
Proofs/CIRep.lean). -/
namespace PM
open CI

/-- on the example compose the modelled CPython parser returns the key-sorted document, which is NOT the document the
writer built: no parser can satisfy `hjson` of `C01_bytes` and agree with CPython here -/
theorem C01_hjson_witness :
    (match serialize exCI with
     | .ok j => (match JsonParse.parse (JsonText.dumps j) with
                 | .ok w => PyVal.beq w (PyVal.canon j) && !(PyVal.beq w j)
                 | .error _ => false)
     | .error _ => false) = true := by decide +kernel

/-- **The reader is independent of the key order of its input.**  Whatever document (without a key twice in a dict)
`ComposeInfo.deserialize` accepts, it returns the same object for the key-sorted document — at every level, any forest
depth.  Below the top-level container the reader reaches into the document by key only (`build_canon`: literally the same
result, error branches included); `Variants.deserialize` iterates the flat dict, but only to build a SET of child UIDs and a
SORTED list of top-level UIDs (`variantsDe_canon`).  (Only which error is reported first for a document that is refused
can depend on the order.) -/
theorem C01_reader_order_independent (doc : PyVal) (ci : ComposeInfo) (hrep : Mf.jsonRep doc = true)
    (h : deserialize doc = .ok ci) : deserialize (PyVal.canon doc) = .ok ci :=
  deserialize_canon hrep ci h

/-- **The written document is JSON-representable** (every leaf is a str / int / bool or a list of str, no dict binds a key
twice) **and its only integer is the compose respin.** -/
theorem C01_written_representable (lim : Nat) (ci : ComposeInfo) (j : PyVal) (h : serialize ci = .ok j) :
    Mf.jsonRep j = true ∧ JsonParse.numsOk lim j = JsonParse.intFits lim ci.compose.respin :=
  serialize_rep lim ci j h

/-- **Bytes, parser modelled.**  The text of the first `dumps()`, parsed by the modelled `json.loads`
(`JsonParse.parseWith lim`, which returns every dict in the order of the text, i.e. key-sorted), loaded and dumped again,
is the same text.  Hypotheses: the key convention `add()` establishes, and that `int()` accepts the digits of the respin
under the interpreter's digit limit `lim` (nothing for `lim = 0`; any respin of at most 640 digits under any limit:
`C01_bytes_parsed_unlimited`, `C01_bytes_parsed_small`). -/
theorem C01_bytes_parsed (lim : Nat) (ci : ComposeInfo) (t : Str) (hk : WellKeyed ci)
    (hnum : JsonParse.intFits lim ci.compose.respin = true) :
    dumps ci = .ok t → reloadDump (JsonParse.parseWith lim) t = .ok t := by
  intro h
  have h' := h
  unfold dumps at h'
  split at h'
  · cases h'
  · rename_i hv
    split at h'
    · cases h'
    · rename_i j hj
      cases h'
      obtain ⟨hrep, hn⟩ := serialize_rep lim ci j hj
      have hp := JsonParse.parseWith_dumps lim j hrep (by rw [hn]; exact hnum)
      have hread := C01_readback ci j hk hj
      unfold reloadDump
      rw [hp]
      simp only [loadsDoc, deserialize_canon hrep _ hread, hv, dumps, C01_fixpoint ci j hk hj]

/-- the former hypothesis `hord`, now a theorem: reloading the key-sorted document and reloading the document as written
give the same text -/
theorem C01_reload_order_independent (ci : ComposeInfo) (j : PyVal) (hk : WellKeyed ci) (h : serialize ci = .ok j) (text : Str) :
    reloadDump (fun _ => .ok (PyVal.canon j)) text = reloadDump (fun _ => .ok j) text := by
  have hrep := (serialize_rep 0 ci j h).1
  have hread := C01_readback ci j hk h
  unfold reloadDump
  simp only [loadsDoc, deserialize_canon hrep _ hread, hread]

theorem C01_bytes_parsed_unlimited (ci : ComposeInfo) (t : Str) (hk : WellKeyed ci) :
    dumps ci = .ok t → reloadDump (JsonParse.parseWith 0) t = .ok t :=
  C01_bytes_parsed 0 ci t hk (JsonParse.intFits_zero _)

theorem C01_bytes_parsed_small (lim : Nat) (ci : ComposeInfo) (t : Str) (hk : WellKeyed ci)
    (hlen : (Str.natStr ci.compose.respin.natAbs).length ≤ 640) :
    dumps ci = .ok t → reloadDump (JsonParse.parseWith lim) t = .ok t :=
  C01_bytes_parsed lim ci t hk (JsonParse.intFits_of_length lim _ hlen)

/-- non-vacuity: the example compose (layered, label, depth-3 forest) is written, its text is parsed by the modelled
CPython parser under the default digit limit to a document that is NOT the writer's (`C01_hjson_witness`), and the reload
gives the same text -/
example : WellKeyed exCI ∧ JsonParse.intFits JsonParse.defaultLimit exCI.compose.respin = true ∧
    (match dumps exCI with
     | .ok t => (match reloadDump JsonParse.parse t with | .ok t' => t' == t | .error _ => false)
     | .error _ => false) = true := by decide +kernel

/-! ### a load replaces what the object held (F41, repaired) -/

/-- **A load REPLACES what the object held.**  Whatever the object holds — nothing, a compose filled in through the API, a
compose loaded before — a successful `loads()`/`load()` leaves exactly what a fresh object would hold after reading the
document: the result is the same for every prior state, and it is the reader's own result.  (Tied to the library by the
`preload` stream of the check: a second compose, or the same text, is loaded into a used object.) -/
theorem C01_load_replaces (held : ComposeInfo) (doc : PyVal) :
    (∀ held0, loadInto held0 doc = loadInto held doc) ∧
    (∀ ci, loadInto held doc = .ok ci → deserialize doc = .ok ci) := by
  refine ⟨fun _ => rfl, fun ci h => ?_⟩
  unfold loadInto loadsDoc at h
  split at h
  · cases h
  · rename_i c hc
    split at h
    · cases h
    · cases h; exact hc

/-- **Re-reading the own dump into a used object**: an object holding ANYTHING (for instance the very compose that was
written) that is handed the written document — as built by the writer or key-sorted as `json.load` returns it — ends up
holding exactly the normal form of what was written: no union with what it held, and the same text can be loaded any
number of times. -/
theorem C01_reload_into_used_object (held ci : ComposeInfo) (j : PyVal) (hk : WellKeyed ci) (h : serialize ci = .ok j)
    (hv : validateClass "composeinfo.ComposeInfo" [] = .ok ()) :
    loadInto held j = .ok ci.norm ∧ loadInto held (PyVal.canon j) = .ok ci.norm ∧
    loadInto ci.norm (PyVal.canon j) = .ok ci.norm := by
  have h1 := C01_loads ci j hk h hv
  have h2 := loadsDoc_canon (serialize_rep 0 ci j h).1 _ h1
  exact ⟨h1, h2, h2⟩

/-- non-vacuity: the depth-3 example compose is written; its document is loaded into an object that holds the forest
built by the `add` history `exOps` (other variants, other release) and into one that holds the example itself — both end
up with the normal form of the example, twice in a row -/
example : (match serialize exCI with
    | .ok j => (match loadInto exApiCI j, loadInto exCI (PyVal.canon j) with
        | .ok a, .ok b => (uidsL a.variants == uidsL exCI.norm.variants) && (uidsL b.variants == uidsL exCI.norm.variants)
            && (match loadInto a (PyVal.canon j) with | .ok c => uidsL c.variants == uidsL a.variants | .error _ => false)
            && !(uidsL exApiCI.variants == uidsL exCI.norm.variants)
        | _, _ => false)
    | .error _ => false) = true := by decide +kernel

/-! ### the documented enumerations are exactly the tables the code carries -/
def CI.sameSet (a b : List Str) : Bool := a.all (b.contains ·) && b.all (a.contains ·)

/-- **Tables, both inclusions.** The 14 path categories of the `VariantPaths` documentation, the 9 release types, 5 compose
types, 10 label names and 4 variant types of the property text are the generated tables — nothing missing, nothing extra
(a category lost or fused in `_fields`, a type dropped from a table: this stops compiling). -/
theorem C01_tables :
    sameSet Gen.COMPOSEINFO_PATH_FIELDS
      [k%"os_tree", k%"packages", k%"repository", k%"isos", k%"images", k%"jigdos", k%"source_tree", k%"source_packages",
       k%"source_repository", k%"source_isos", k%"source_jigdos", k%"debug_tree", k%"debug_packages", k%"debug_repository"] = true ∧
    Gen.COMPOSEINFO_PATH_FIELDS.Nodup ∧
    sameSet Gen.RELEASE_TYPES [k%"fast", k%"ga", k%"updates", k%"updates-testing", k%"eus", k%"aus", k%"els", k%"tus", k%"e4s"] = true ∧
    sameSet Gen.COMPOSE_TYPES [k%"test", k%"ci", k%"nightly", k%"production", k%"development"] = true ∧
    sameSet Gen.LABEL_NAMES [k%"EA", k%"DevelPhaseExit", k%"InternalAlpha", k%"Alpha", k%"InternalSnapshot", k%"Beta", k%"Snapshot",
      k%"RC", k%"Update", k%"SecurityFix"] = true ∧
    sameSet Gen.VARIANT_TYPES [k%"variant", k%"optional", k%"addon", k%"layered-product"] = true := by decide +kernel

end PM
