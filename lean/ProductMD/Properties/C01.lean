import ProductMD.Model.ComposeInfo
namespace PM
open CI
theorem C01_placeholder : True := trivial
end PM
