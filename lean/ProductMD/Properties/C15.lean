import ProductMD.Model.ComposeId
namespace PM
theorem C15_placeholder : True := trivial
end PM
