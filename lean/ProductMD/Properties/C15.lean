import ProductMD.Proofs.DtrExact
/-!
# C15 — compose ids encode date, type and respin recoverably

Model (Model/ComposeId.lean): `createComposeId` = `ComposeInfo.create_compose_id` as coded (type suffixes through the
encoder table obtained by evaluating `Compose.type_suffix` for every compose type, `BaseProduct.type_suffix`, layered
part, RHEL-5 variant hack); `getDateTypeRespin` = `get_date_type_respin` as coded: the generated pattern run through
the backtracking engine model (`pyMatch`, first success), `groupdict`, the generated decoder table, `int()`.
The theorems are about these regex-driven functions and hold for prefixes of any length and content.
-/
namespace PM
open PM.IdProof PM.NvraProof PM.Dec PM.First PM.Str

/-- The pattern and group table regenerated from the source are the ones the proofs decompose. -/
theorem C15_pattern : Gen.re_composeinfo_get_date_type_respin_0 = Spec.dtr
    ∧ Gen.re_composeinfo_get_date_type_respin_0_groups = Spec.dtrGroups := by decide

/-! ### encoder and decoder tables -/
/-- shape of a type suffix the decoder pattern can pick up: empty, or `.` followed by lower-case letters -/
def sufShape : Str → Bool
  | [] => true
  | c :: l => c == '.' && !l.isEmpty && l.all Spec.lowerCls.mem

def production : Str := ['p','r','o','d','u','c','t','i','o','n']

/-- what `get_date_type_respin` makes of a suffix written by the encoder (`none` = it raises or mis-reads) -/
def decodeSuffix (suf : Str) : Option Str :=
  if suf.isEmpty then some production
  else if sufShape suf then Gen.COMPOSE_TYPE_SUFFIXES.lookup (suf.drop 1) else none

/-- **decoder ∘ encoder = id on `COMPOSE_TYPES`** (on the regenerated tables): every compose type has a suffix, of a
shape the pattern captures, and the decoder table maps it back.  Breaks when a suffix is known to one side only. -/
theorem C15_tables : ∀ t ∈ Gen.COMPOSE_TYPES, (Gen.COMPOSE_TYPE_ENCODER.lookup t).bind decodeSuffix = some t := by
  decide

/-- Every documented spelling is in the decoder table with its documented meaning, and is lower-case letters. -/
theorem C15_documented : ∀ p ∈ Spec.documentedSuffixes,
    Gen.COMPOSE_TYPE_SUFFIXES.lookup p.1 = some p.2 ∧ p.1 ≠ [] ∧ p.1.all Spec.lowerCls.mem = true := by decide

/-- **The decoder table is EXACTLY the documented spellings** (`n`, `nightly`, `t`, `test`, `ci`, `d`, each with its
documented meaning): nothing documented is missing and nothing undocumented is accepted.  A spelling added to (or
dropped from) `COMPOSE_TYPE_SUFFIXES` breaks this obligation. -/
theorem C15_table_exact : (∀ p ∈ Gen.COMPOSE_TYPE_SUFFIXES, p ∈ Spec.documentedSuffixes)
    ∧ (∀ p ∈ Spec.documentedSuffixes, p ∈ Gen.COMPOSE_TYPE_SUFFIXES) := by decide

/-- **The encoder is EXACTLY the documented one**: the compose types are the documented five and each is written with
its documented suffix (none, `.n`, `.t`, `.ci`, `.d`) — both inclusions, on the regenerated tables. -/
theorem C15_encoder_exact : (∀ p ∈ Gen.COMPOSE_TYPE_ENCODER, p ∈ Spec.documentedEncoder)
    ∧ (∀ p ∈ Spec.documentedEncoder, p ∈ Gen.COMPOSE_TYPE_ENCODER)
    ∧ (∀ t ∈ Gen.COMPOSE_TYPES, t ∈ Spec.documentedEncoder.map Prod.fst)
    ∧ (∀ t ∈ Spec.documentedEncoder.map Prod.fst, t ∈ Gen.COMPOSE_TYPES) := by decide

theorem lookup_mem {k v : Str} : ∀ (l : List (Str × Str)), l.lookup k = some v → (k, v) ∈ l := by
  intro l
  induction l with
  | nil => intro h; simp [List.lookup] at h
  | cons x xs ih =>
    intro h
    obtain ⟨a, b⟩ := x
    simp only [List.lookup] at h
    split at h
    · rename_i hk
      simp only [Option.some.injEq] at h
      have : k = a := by simpa using hk
      subst this; subst h
      exact List.mem_cons_self
    · exact List.mem_cons_of_mem _ (ih h)

theorem sufShape_spec {suf : Str} (h : sufShape suf = true) :
    suf = sufStr (suf.drop 1) ∧ ∀ x ∈ suf.drop 1, Spec.lowerCls.mem x = true := by
  cases suf with
  | nil => exact ⟨rfl, by simp⟩
  | cons c l =>
    simp only [sufShape, Bool.and_eq_true, beq_iff_eq, Bool.not_eq_true', List.all_eq_true] at h
    obtain ⟨⟨rfl, hl⟩, hall⟩ := h
    cases l with
    | nil => simp at hl
    | cons x xs => exact ⟨rfl, by simpa using hall⟩

/-! ### decoding `prefix ++ date ++ [.letters] ++ [.respin]` -/
theorem dtr_groups (D L : Str) (r : Option Nat) :
    let caps : Caps := respCaps r ++ (sufCaps L ++ [(1, D)])
    namedGroup Spec.dtrGroups caps "date" = some D
    ∧ namedGroup Spec.dtrGroups caps "type" = (if L = [] then none else some ('.' :: L))
    ∧ namedGroup Spec.dtrGroups caps "respin" = r.map natStr := by
  cases r <;> cases L <;> simp [namedGroup, Spec.dtrGroups, List.lookup, Caps.get, respCaps, sufCaps]

/-- what decoding yields on any string of that shape, whatever the letters -/
theorem dtr_decode (P D L : Str) (r : Option Nat) (hP : '\n' ∉ P) (hD : D.length = 8)
    (hDd : ∀ x ∈ D, digitCls.mem x = true) (hL : ∀ x ∈ L, Spec.lowerCls.mem x = true)
    (hr : ∀ n, r = some n → n < 10 ^ 7) :
    getDateTypeRespin (P ++ (D ++ (sufStr L ++ respStr r))) =
      match (if L = [] then some production else Gen.COMPOSE_TYPE_SUFFIXES.lookup L) with
      | some t => .ok (some (some D, t, r.getD 0))
      | none => .error .valueError := by
  unfold getDateTypeRespin
  rw [C15_pattern.1, dtr_first P D L r hP hD hDd hL hr]
  simp only [C15_pattern.2]
  obtain ⟨h1, h2, h3⟩ := dtr_groups D L r
  simp only [h1, h2, h3]
  cases r with
  | none =>
    cases L with
    | nil => simp [production, Except.bind, Except.map]
    | cons l0 ls =>
      simp only [reduceCtorEq, if_false, List.drop_succ_cons, List.drop_zero]
      cases Gen.COMPOSE_TYPE_SUFFIXES.lookup (l0 :: ls) with
      | none => rfl
      | some t => simp [Except.bind, Except.map]
  | some n =>
    have hl := natStr_len n 7 (by decide) (hr n rfl)
    have hv := pyIntDigits_natStr n (Nat.le_trans hl (by decide))
    cases L with
    | nil => simp [production, Except.bind, Except.map, hv]
    | cons l0 ls =>
      simp only [reduceCtorEq, if_false, List.drop_succ_cons, List.drop_zero]
      cases Gen.COMPOSE_TYPE_SUFFIXES.lookup (l0 :: ls) with
      | none => rfl
      | some t => simp [Except.bind, Except.map, hv]

/-
FULL STATEMENT (false of the code, see `C15_respin_witness`): the same without the bound on the respin.
-/
/-- **Every documented suffix decodes; a missing respin is 0; no suffix is `production`** — for any prefix without
line feed (digit runs of any length allowed), any date of 8 digits, respins of at most 7 digits. -/
theorem C15_suffixes_partial (P D : Str) (r : Option Nat) (hP : '\n' ∉ P) (hD : D.length = 8)
    (hDd : ∀ x ∈ D, digitCls.mem x = true) (hr : ∀ n, r = some n → n < 10 ^ 7) :
    getDateTypeRespin (P ++ (D ++ respStr r)) = .ok (some (some D, production, r.getD 0))
    ∧ ∀ p ∈ Spec.documentedSuffixes,
        getDateTypeRespin (P ++ (D ++ ('.' :: p.1 ++ respStr r))) = .ok (some (some D, p.2, r.getD 0)) := by
  constructor
  · have := dtr_decode P D [] r hP hD hDd (by simp) hr
    simpa [sufStr] using this
  · intro p hp
    obtain ⟨h1, h2, h3⟩ := C15_documented p hp
    have := dtr_decode P D p.1 r hP hD hDd (by simpa using h3) hr
    rw [if_neg h2, h1] at this
    cases hp1 : p.1 with
    | nil => exact absurd hp1 h2
    | cons x xs => rw [hp1] at this; simpa [sufStr] using this

/-- **An unknown suffix is rejected**: lower-case letters that are not a key of the decoder table raise `ValueError`. -/
theorem C15_unknown_suffix_partial (P D L : Str) (r : Option Nat) (hP : '\n' ∉ P) (hD : D.length = 8)
    (hDd : ∀ x ∈ D, digitCls.mem x = true) (hL : ∀ x ∈ L, Spec.lowerCls.mem x = true) (hne : L ≠ [])
    (hr : ∀ n, r = some n → n < 10 ^ 7) (hunk : Gen.COMPOSE_TYPE_SUFFIXES.lookup L = none) :
    getDateTypeRespin (P ++ (D ++ ('.' :: L ++ respStr r))) = .error .valueError := by
  have := dtr_decode P D L r hP hD hDd hL hr
  rw [if_neg hne, hunk] at this
  cases hl : L with
  | nil => exact absurd hl hne
  | cons x xs => rw [hl] at this; simpa [sufStr] using this

/-! ### the decoder on every string -/
theorem dtr_groups_gen (D : Str) (ty r : Option Str) :
    let caps : Caps := rc r ++ (tc ty ++ [(1, D)])
    namedGroup Spec.dtrGroups caps "date" = some D ∧ namedGroup Spec.dtrGroups caps "type" = ty
    ∧ namedGroup Spec.dtrGroups caps "respin" = r := by
  cases r <;> cases ty <;> simp [namedGroup, Spec.dtrGroups, List.lookup, Caps.get, rc, tc]

theorem typeSplit_some {X t : Str} (h : (typeSplit X).1 = some t) : ∃ L, t = '.' :: L := by
  cases X with
  | nil => simp [typeSplit] at h
  | cons c l =>
    simp only [typeSplit] at h
    split at h
    · simp at h; exact ⟨_, h.symm⟩
    · simp at h

/-- **Exact behaviour of the decoder on EVERY string** (any length, any content, line feeds and Unicode digits
included): the regex-driven `getDateTypeRespin` equals the directly written `dtrDirect` — the date is the LAST run of
8 digits that starts in the first line, then the longest `.letters`, then the longest `.digits`; no such run gives
`(None, None, None)`.  This is the statement from which F10 is read off: a respin of 8 or more digits is itself the
last such run. -/
theorem C15_decoder_exact (s : Str) : getDateTypeRespin s = dtrDirect s := by
  unfold getDateTypeRespin dtrDirect
  rw [C15_pattern.1]
  cases h : lastWin s with
  | none => rw [dtr_none s h]
  | some p =>
    obtain ⟨D, X⟩ := p
    rw [dtr_some s D X h]
    simp only [C15_pattern.2]
    obtain ⟨h1, h2, h3⟩ := dtr_groups_gen D (typeSplit X).1 (respinSplit (typeSplit X).2)
    simp only [h1, h2, h3]
    cases hty : (typeSplit X).1 with
    | none => rfl
    | some t =>
      obtain ⟨L, rfl⟩ := typeSplit_some hty
      rfl

/-- **Everything outside the documented spellings is rejected**: lower-case letters that are not one of the documented
six raise `ValueError` (from `C15_table_exact`: the table has no other key). -/
theorem C15_undocumented_rejected_partial (P D L : Str) (r : Option Nat) (hP : '\n' ∉ P) (hD : D.length = 8)
    (hDd : ∀ x ∈ D, digitCls.mem x = true) (hL : ∀ x ∈ L, Spec.lowerCls.mem x = true) (hne : L ≠ [])
    (hr : ∀ n, r = some n → n < 10 ^ 7) (hundoc : ∀ t, (L, t) ∉ Spec.documentedSuffixes) :
    getDateTypeRespin (P ++ (D ++ ('.' :: L ++ respStr r))) = .error .valueError := by
  apply C15_unknown_suffix_partial P D L r hP hD hDd hL hne hr
  cases hl : Gen.COMPOSE_TYPE_SUFFIXES.lookup L with
  | none => rfl
  | some t => exact absurd (C15_table_exact.1 _ (lookup_mem _ hl)) (hundoc t)

example : ∀ t, ("development".toList, t) ∉ Spec.documentedSuffixes := by
  intro t h; simp [Spec.documentedSuffixes] at h

/-! ### created ids -/
/-- the domain of the property: a date of 8 digits, a compose type of the table, a natural respin; no line feed in
the part of the id before the date (see `C15_prefix_no_newline` for the field-wise condition) -/
structure IdDom (a : ComposeIdArgs) (D t : Str) (n : Nat) : Prop where
  prefix_nl : '\n' ∉ composeIdPrefix a
  date : a.date = some D
  date_len : D.length = 8
  date_digits : ∀ x ∈ D, digitCls.mem x = true
  ctype : a.ctype = some t
  ctype_mem : t ∈ Gen.COMPOSE_TYPES
  respin : a.respin = some (Int.ofNat n)

/-- the id that is created, in the shape the decoder lemma expects -/
theorem create_shape {a : ComposeIdArgs} {D t : Str} {n : Nat} (h : IdDom a D t n) :
    ∃ L, createComposeId a = .ok (composeIdPrefix a ++ (D ++ (sufStr L ++ respStr (some n))))
      ∧ (∀ x ∈ L, Spec.lowerCls.mem x = true)
      ∧ (if L = [] then some production else Gen.COMPOSE_TYPE_SUFFIXES.lookup L) = some t := by
  have ht := C15_tables t h.ctype_mem
  cases hs : Gen.COMPOSE_TYPE_ENCODER.lookup t with
  | none => rw [hs] at ht; simp at ht
  | some suf =>
    rw [hs] at ht
    simp only [Option.bind, decodeSuffix] at ht
    have hcreate : createComposeId a = .ok (composeIdPrefix a ++ (D ++ (suf ++ respStr (some n)))) := by
      simp [createComposeId, composeTypeSuffix, h.ctype, hs, h.date, h.respin, pctS, pctInt, intStr, respStr, Except.map]
    by_cases he : suf.isEmpty = true
    · have : suf = [] := by cases suf <;> simp_all
      subst this
      simp only [List.isEmpty_nil, if_true] at ht
      exact ⟨[], by simpa [sufStr] using hcreate, by simp, by simpa using ht⟩
    · simp only [he, Bool.false_eq_true, if_false] at ht
      by_cases hsh : sufShape suf = true
      · simp only [hsh, if_true] at ht
        obtain ⟨h1, h2⟩ := sufShape_spec hsh
        refine ⟨suf.drop 1, by rw [← h1]; exact hcreate, h2, ?_⟩
        have hne : suf.drop 1 ≠ [] := by
          intro e
          rw [e] at h1
          simp [sufStr] at h1
          rw [h1] at he; simp at he
        rw [if_neg hne]; exact ht
      · simp [hsh] at ht

/-
FULL STATEMENT (false of the code): the same for every respin; fails from 10^7 on, see `C15_respin_witness`.
-/
/-- **Decoding a created id yields exactly the date, compose type and respin it was created from** — for every
release / base product / variant set (any strings, any digit runs, layered or not, RHEL-5 hack or not; only: no line
feed before the date), every compose type of the regenerated table, every date of 8 digits, every respin < 10^7. -/
theorem C15_decode_create_partial (a : ComposeIdArgs) (D t : Str) (n : Nat) (h : IdDom a D t n) (hn : n < 10 ^ 7) :
    ∃ id, createComposeId a = .ok id ∧ getDateTypeRespin id = .ok (some (some D, t, n)) := by
  obtain ⟨L, h1, h2, h3⟩ := create_shape h
  refine ⟨_, h1, ?_⟩
  have := dtr_decode (composeIdPrefix a) D L (some n) h.prefix_nl h.date_len h.date_digits h2
    (fun m hm => by cases hm; exact hn)
  rw [h3] at this
  simpa using this

/-- F10, replayed on the real code by the harness: a respin of 8 digits is taken for the date. -/
theorem C15_respin_witness :
    (getDateTypeRespin "f-23-20160101.n.12345678".toList).toOption
      = some (some (some "12345678".toList, production, 0))
    ∧ (createComposeId { release := { short := some "f".toList, version := some "23".toList, type := some "ga".toList },
                         date := some "20160101".toList, ctype := some "nightly".toList, respin := some 12345678 }).toOption
      = some "f-23-20160101.n.12345678".toList := by decide +kernel

/-- **The id starts with short-version[-type]** (type left out when empty or, case-insensitively, `ga`). -/
theorem C15_prefix (a : ComposeIdArgs) (id : Str) (h : createComposeId a = .ok id) :
    ∃ rest, id = pctS a.release.short ++ '-' :: pctS a.release.version ++ a.release.typeSuffix ++ rest
    ∧ a.release.typeSuffix = (match a.release.type with
        | none => []
        | some t => if t = [] ∨ lowerAscii t = ['g', 'a'] then [] else '-' :: lowerAscii t) := by
  cases hs : composeTypeSuffix a.ctype with
  | error e => simp [createComposeId, hs, Except.map] at h
  | ok suf =>
    simp only [createComposeId, hs, Except.map, Except.ok.injEq] at h
    refine ⟨(if a.isLayered then
        '-' :: pctS a.baseProduct.short ++ '-' :: pctS a.baseProduct.version ++ a.baseProduct.typeSuffix else [])
        ++ rhel5Part a ++ ['-'] ++ pctS a.date ++ suf ++ '.' :: pctInt a.respin, ?_, ?_⟩
    · rw [← h]; simp [composeIdPrefix]
    · unfold Product.typeSuffix
      cases a.release.type with
      | none => rfl
      | some t => cases t <;> simp

/-! ### the library's own id validator -/
/-- the pattern can match the empty string -/
def _root_.PM.Re.nullable : Re → Bool
  | .eps | .bol | .star _ => true
  | .cat a b => a.nullable && b.nullable
  | .alt a b => a.nullable || b.nullable
  | .grp _ a => a.nullable
  | _ => false

theorem m_nullable : ∀ (r : Re) (f : Nat) (s : Str), r.nullable = true → s ∈ m f r s := by
  intro r
  induction r with
  | eps | bol => intro f s _; simp
  | eol | bad | cls => intro f s h; simp [Re.nullable] at h
  | star a _ =>
    intro f s _
    rw [m_star]
    cases f with
    | zero => simp
    | succ f => rw [starAux_succ]; simp
  | cat a b iha ihb =>
    intro f s h
    simp only [Re.nullable, Bool.and_eq_true] at h
    rw [m_cat]
    exact List.mem_flatMap.mpr ⟨s, iha f s h.1, ihb f s h.2⟩
  | alt a b iha ihb =>
    intro f s h
    simp only [Re.nullable, Bool.or_eq_true] at h
    rw [m_alt]
    rcases h with h | h
    · exact List.mem_append_left _ (iha f s h)
    · exact List.mem_append_right _ (ihb f s h)
  | grp n a iha => intro f s h; rw [m_grp]; exact iha f s h

/-- The regenerated validator pattern is `.*\d{8}` followed by optional parts only. -/
theorem C15_validator_shape : ∃ tail, Gen.re_composeinfo_Compose__validate_id_0
    = .cat Spec.anyStar (.cat Spec.digits8 tail) ∧ tail.nullable = true :=
  ⟨_, rfl, by decide⟩

theorem validates_of_shape (P D X : Str) (hP : '\n' ∉ P) (hD : D.length = 8)
    (hDd : ∀ x ∈ D, digitCls.mem x = true) : composeIdValidates (P ++ (D ++ X)) = true := by
  obtain ⟨tail, hre, hnull⟩ := C15_validator_shape
  have hmem : X ∈ m (P ++ (D ++ X)).length (.cat Spec.anyStar (.cat Spec.digits8 tail)) (P ++ (D ++ X)) := by
    rw [m_cat, Spec.anyStar, m_star]
    apply List.mem_flatMap.mpr
    refine ⟨D ++ X, ?_, ?_⟩
    · obtain ⟨L, L2, h1, _⟩ := star_decomp (P ++ (D ++ X)).length Cls.any P (D ++ X) (P ++ (D ++ X)).length []
        (any_all hP) (Nat.le_refl _)
      rw [← starAuxC_fst (mc _ (.cls Cls.any)) (m _ (.cls Cls.any)) (mc_fst (.cls Cls.any) _) _ _ [], h1]
      simp
    · rw [m_cat]
      apply List.mem_flatMap.mpr
      refine ⟨X, ?_, m_nullable tail _ X hnull⟩
      rw [← mc_fst Spec.digits8 _ _ [], Spec.digits8, rep_complete _ digitCls X [] 7 D hD hDd]
      simp
  unfold composeIdValidates pyMatches
  rw [hre]
  cases hm : m (P ++ (D ++ X)).length (.cat Spec.anyStar (.cat Spec.digits8 tail)) (P ++ (D ++ X)) with
  | nil => rw [hm] at hmem; simp at hmem
  | cons _ _ => rfl

/-- **A created id passes the library's own compose-id validator pattern** (any respin, any compose type). -/
theorem C15_validates (a : ComposeIdArgs) (D t : Str) (n : Nat) (h : IdDom a D t n) :
    ∃ id, createComposeId a = .ok id ∧ composeIdValidates id = true := by
  obtain ⟨L, h1, _, _⟩ := create_shape h
  exact ⟨_, h1, validates_of_shape _ D _ h.prefix_nl h.date_len h.date_digits⟩

/-! ### the field-wise condition behind `IdDom.prefix_nl` -/
def NoNl (o : Option Str) : Prop := ∀ s, o = some s → '\n' ∉ s

theorem upper_lowered_ne_nl : ∀ n, n < 91 → 65 ≤ n → Char.ofNat (n + 32) ≠ '\n' := by decide

theorem lowerAscii_nl {t : Str} (h : '\n' ∉ t) : '\n' ∉ lowerAscii t := by
  intro hm
  simp only [lowerAscii, List.mem_map] at hm
  obtain ⟨c, hc, he⟩ := hm
  by_cases hu : 'A' ≤ c ∧ c ≤ 'Z'
  · rw [if_pos hu] at he
    have h1 : 65 ≤ c.toNat := by
      have := hu.1; rw [Char.le_def, UInt32.le_iff_toNat_le] at this; exact this
    have h2 : c.toNat ≤ 90 := by
      have := hu.2; rw [Char.le_def, UInt32.le_iff_toNat_le] at this; exact this
    exact upper_lowered_ne_nl c.toNat (by omega) h1 he
  · rw [if_neg hu] at he; subst he; exact h hc

theorem nl_append {x y : Str} (hx : '\n' ∉ x) (hy : '\n' ∉ y) : '\n' ∉ x ++ y := by
  simp [List.mem_append, hx, hy]
theorem nl_cons {c : Char} {y : Str} (hc : '\n' ≠ c) (hy : '\n' ∉ y) : '\n' ∉ c :: y := by
  simp [hc, hy]

theorem pctS_nl {o : Option Str} (h : NoNl o) : '\n' ∉ pctS o := by
  cases o with
  | none => decide
  | some s => exact h s rfl

theorem typeSuffix_nl {p : Product} (h : NoNl p.type) : '\n' ∉ p.typeSuffix := by
  unfold Product.typeSuffix
  cases ht : p.type with
  | none => simp
  | some t =>
    simp only
    split
    · simp
    · simp only [List.mem_cons, not_or]
      exact ⟨by decide, lowerAscii_nl (h t ht)⟩

theorem rhel5Part_nl (a : ComposeIdArgs) : '\n' ∉ rhel5Part a := by
  unfold rhel5Part
  simp only
  split
  · split
    · rename_i v _
      split
      · rename_i hv
        simp only [Bool.or_eq_true, beq_iff_eq] at hv
        rcases hv with rfl | rfl <;> decide
      · simp
    · simp
  · simp

/-- No line feed in the release / base-product short, version and type (an unset attribute prints as `None`)
⇒ no line feed before the date.  The variant part of the RHEL-5 hack is `-Client` or `-Server`. -/
theorem C15_prefix_no_newline (a : ComposeIdArgs)
    (h1 : NoNl a.release.short) (h2 : NoNl a.release.version) (h3 : NoNl a.release.type)
    (h4 : a.isLayered = true → NoNl a.baseProduct.short ∧ NoNl a.baseProduct.version ∧ NoNl a.baseProduct.type) :
    '\n' ∉ composeIdPrefix a := by
  unfold composeIdPrefix
  have hbp : '\n' ∉ (if a.isLayered then
      '-' :: pctS a.baseProduct.short ++ '-' :: pctS a.baseProduct.version ++ a.baseProduct.typeSuffix else []) := by
    split
    · rename_i hl
      obtain ⟨g1, g2, g3⟩ := h4 hl
      exact nl_append (nl_append (nl_cons (c := '-') (by decide) (pctS_nl g1)) (nl_cons (c := '-') (by decide) (pctS_nl g2)))
        (typeSuffix_nl g3)
    · simp
  exact nl_append (nl_append (nl_append (nl_append (nl_append (pctS_nl h1) (nl_cons (c := '-') (by decide) (pctS_nl h2)))
    (typeSuffix_nl h3)) hbp) (rhel5Part_nl a)) (by decide)

/-! ### non-vacuity -/
def exampleArgs : ComposeIdArgs :=
  { release := { short := some "RHEL".toList, version := some "5.11".toList, type := some "EUS".toList },
    isLayered := true,
    baseProduct := { short := some "RHEL".toList, version := some "5".toList, type := some "ga".toList },
    variants := ["Server".toList, "Client".toList],
    date := some "20160101".toList, ctype := some "test".toList, respin := some 31 }

example : IdDom exampleArgs "20160101".toList "test".toList 31 :=
  { prefix_nl := by decide, date := rfl, date_len := rfl, date_digits := by decide, ctype := rfl, ctype_mem := by decide,
    respin := rfl }
example : (createComposeId exampleArgs).toOption = some "RHEL-5.11-eus-RHEL-5-Client-20160101.t.31".toList := by
  decide +kernel
example : (getDateTypeRespin "RHEL-5.11-eus-RHEL-5-Client-20160101.t.31".toList).toOption
    = some (some (some "20160101".toList, "test".toList, 31)) := by decide +kernel
example : (match getDateTypeRespin "f-23-20160101.x.1".toList with | .error .valueError => true | _ => false) = true := by
  decide +kernel
example : Gen.COMPOSE_TYPE_SUFFIXES.lookup "x".toList = none := by decide

end PM
