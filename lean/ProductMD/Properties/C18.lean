import ProductMD.Model.Dump
import ProductMD.Generated.Effects
/-!
# C18 — a dump that fails validation leaves the destination file untouched

`run sc obj fs path` interprets an effect script `sc` (the order of statements of a `dump` method) on an abstract
object `obj` (arbitrary outcomes of `validate()`, `_get_parser()`, `serialize()` – i.e. any failure point, at top
level or in any nested section writer) and an abstract file system.  The scripts of the real `dump` methods are
`Gen.dumpScript_*`, regenerated from the source AST on every run.
-/
namespace PM

/-! ### the general theorem -/

/-- once the destination is open and only infallible statements remain, the only thing that can still fail is the
encoder inside `build_file` -/
theorem exec_after_open (o : DumpObj) (path : Path) (ho : o.openErr = none) :
    ∀ (sc : List Eff) (st : DumpSt), sc.all (fun e => !e.fallible) = true →
      ∀ f, (exec o path sc st).result = .error f → f.1 = .buildFile := by
  intro sc
  induction sc with
  | nil => intro st _ f h; simp [exec] at h
  | cons e rest ih =>
    intro st hall f h
    simp only [List.all_cons, Bool.and_eq_true] at hall
    obtain ⟨he, hrest⟩ := hall
    cases e with
    | validate => simp [Eff.fallible] at he
    | getParser => simp [Eff.fallible] at he
    | serialize => simp [Eff.fallible] at he
    | unknown => simp [Eff.fallible] at he
    | openW =>
      simp only [exec, step, ho] at h
      exact ih _ hrest f h
    | buildFile =>
      simp only [exec, step] at h
      cases hp : st.parser with
      | none => simp [hp] at h; rw [← h]
      | some t =>
        simp only [hp] at h
        by_cases hop : st.opened = true
        · simp only [hop, if_true] at h
          cases hb : o.buildFail with
          | none => simp only [hb] at h; exact ih _ hrest f h
          | some ne => simp only [hb] at h; simp at h; rw [← h]
        · simp [hop] at h; rw [← h]

/-- before the destination is opened no statement touches the file system; if the script has the safe shape, a
failure anywhere except inside the encoder of `build_file` leaves the file system as it was -/
theorem exec_safe (o : DumpObj) (path : Path) :
    ∀ (sc : List Eff) (st : DumpSt), noFallibleAfterOpen sc = true → st.opened = false →
      ∀ f, (exec o path sc st).result = .error f → f.1 ≠ .buildFile → (exec o path sc st).st.fs = st.fs := by
  intro sc
  induction sc with
  | nil => intro st _ _ f h; simp [exec] at h
  | cons e rest ih =>
    intro st hs hop f h hne
    cases e with
    | openW =>
      simp only [noFallibleAfterOpen] at hs
      cases ho : o.openErr with
      | some e => simp [exec, step, ho]
      | none =>
        exfalso
        simp only [exec, step, ho] at h
        exact hne (exec_after_open o path ho rest _ hs f h)
    | validate =>
      simp only [noFallibleAfterOpen] at hs
      simp only [exec, step] at h ⊢
      cases hv : o.validate with
      | ok u => cases u; simp only [hv, liftErr] at h ⊢; exact ih st hs hop f h hne
      | error e => simp [hv, liftErr]
    | unknown =>
      simp only [noFallibleAfterOpen] at hs
      simp only [exec, step] at h ⊢
      cases hv : o.unknown with
      | ok u => cases u; simp only [hv, liftErr] at h ⊢; exact ih st hs hop f h hne
      | error e => simp [hv, liftErr]
    | getParser =>
      simp only [noFallibleAfterOpen] at hs
      simp only [exec, step] at h ⊢
      cases hv : o.getParser with
      | ok t => simp only [hv] at h ⊢; exact ih _ hs hop f h hne
      | error e => simp [hv]
    | serialize =>
      simp only [noFallibleAfterOpen] at hs
      simp only [exec, step] at h ⊢
      cases hp : st.parser with
      | none => simp [hp]
      | some t0 =>
        simp only [hp] at h ⊢
        cases hv : o.serialize with
        | ok t => simp only [hv] at h ⊢; exact ih _ hs hop f h hne
        | error e => simp [hv]
    | buildFile =>
      simp only [noFallibleAfterOpen] at hs
      simp only [exec, step] at h ⊢
      cases hp : st.parser with
      | none => simp [hp]
      | some t => simp [hp, hop]

/-- **C18, for ANY script of the safe shape, any object, any failure point, any file system.**
If `dump` fails at a statement other than the encoder in `build_file` (that is: in `validate()`, in `serialize()` at
whichever nested validator, in `_get_parser()`, in an unrecognised statement, or because the destination could not be
opened), the file system – every path, the destination included – is exactly what it was. -/
theorem C18_general (sc : List Eff) (h : noFallibleAfterOpen sc = true)
    (obj : DumpObj) (fs : FS) (path : Path) (eff : Eff) (e : Err) :
    (run sc obj fs path).2 = .error (eff, e) → eff ≠ .buildFile → (run sc obj fs path).1 = fs := by
  intro hr hne
  exact exec_safe obj path sc { fs := fs } h rfl (eff, e) hr hne

/-- in particular: the bytes at the destination are the old ones, and no file appears where there was none -/
theorem C18_destination (sc : List Eff) (h : noFallibleAfterOpen sc = true)
    (obj : DumpObj) (fs : FS) (path : Path) (eff : Eff) (e : Err)
    (hr : (run sc obj fs path).2 = .error (eff, e)) (hne : eff ≠ .buildFile) :
    (run sc obj fs path).1 path = fs path ∧ (fs path = none → (run sc obj fs path).1 path = none) := by
  rw [C18_general sc h obj fs path eff e hr hne]
  exact ⟨rfl, id⟩

/-! ### the obligation on the code as it is now -/

/-- Both `dump` methods of the library have the safe shape (decided on the scripts regenerated from the source;
false for the order before the F2 fix, see `C18_counterexample`). -/
theorem C18_here : noFallibleAfterOpen Gen.dumpScript_MetadataBase = true
                 ∧ noFallibleAfterOpen Gen.dumpScript_TreeInfo = true := by decide

/-- …and so has every `dump` defined anywhere in the library; each of the seven formats runs one of them. -/
theorem C18_every_dump :
    (∀ p ∈ Gen.dumpScripts, noFallibleAfterOpen p.2 = true)
    ∧ (∀ p ∈ Gen.dumpOwner, (Gen.dumpScripts.map (·.1)).contains p.2 = true)
    ∧ Gen.dumpOwner.length = 7 := by decide

/-- C18 for the real scripts. -/
theorem C18_dump (p : String × List Eff) (hp : p ∈ Gen.dumpScripts)
    (obj : DumpObj) (fs : FS) (path : Path) (eff : Eff) (e : Err)
    (hr : (run p.2 obj fs path).2 = .error (eff, e)) (hne : eff ≠ .buildFile) :
    (run p.2 obj fs path).1 = fs :=
  C18_general p.2 (C18_every_dump.1 p hp) obj fs path eff e hr hne

/-! ### every nested validator -/

/-- Sections as a tree of validator outcomes.  If ANY reached validator of ANY nested section refuses
(`top.check = .error e`), `dump` – the real scripts – FAILS (it does not silently write something) with that error,
before anything was opened, and the file system is untouched: whether the top-level `validate()` saw the problem or
only a nested section writer did. -/
theorem C18_nested (p : String × List Eff) (hp : p ∈ Gen.dumpScripts)
    (top : Sect) (text empty : Content) (fs : FS) (path : Path) (e : Err) (h : top.check = .error e) :
    ∃ eff, (eff = .validate ∨ eff = .serialize) ∧
      run p.2 (DumpObj.ofSect top text empty) fs path = (fs, .error (eff, e)) := by
  have hcases : p.2 = Gen.dumpScript_MetadataBase ∨ p.2 = Gen.dumpScript_TreeInfo := by
    simp only [Gen.dumpScripts, List.mem_cons, List.not_mem_nil, or_false] at hp
    rcases hp with hp | hp <;> simp [hp]
  have hscript : p.2 = [.validate, .getParser, .serialize, .openW, .buildFile] := by
    rcases hcases with hc | hc <;> rw [hc] <;> rfl
  rw [hscript]
  obtain ⟨vs, kids⟩ := top
  cases hv : firstErr vs with
  | error e' =>
    have : e' = e := by simp [Sect.check, hv] at h; exact h
    subst this
    exact ⟨.validate, .inl rfl, by simp [run, exec, step, DumpObj.ofSect, Sect.validators, hv, liftErr]⟩
  | ok u =>
    cases u
    exact ⟨.serialize, .inr rfl, by simp [run, exec, step, DumpObj.ofSect, Sect.validators, hv, liftErr, h]⟩

/-- and when nothing refuses, the same scripts write exactly the serialised text to the destination and touch
nothing else (so the theorems above are not about a `dump` that never writes) -/
theorem C18_success (p : String × List Eff) (hp : p ∈ Gen.dumpScripts)
    (obj : DumpObj) (fs : FS) (path : Path) (t0 t : Content)
    (h1 : obj.validate = .ok ()) (h2 : obj.getParser = .ok t0) (h3 : obj.serialize = .ok t)
    (h4 : obj.openErr = none) (h5 : obj.buildFail = none) :
    run p.2 obj fs path = (fs.write path t, .ok ()) := by
  have hscript : p.2 = [.validate, .getParser, .serialize, .openW, .buildFile] := by
    simp only [Gen.dumpScripts, List.mem_cons, List.not_mem_nil, or_false] at hp
    rcases hp with hp | hp <;> rw [hp] <;> rfl
  rw [hscript]
  have hw : (fs.write path []).write path t = fs.write path t := by
    funext q
    by_cases hq : q = path <;> simp [FS.write, hq]
  have hcur : (fs.write path []) path = some [] := by simp [FS.write]
  simp [run, exec, step, h1, h2, h3, h4, h5, liftErr, hcur, hw]

/-! ### what is NOT guaranteed -/

/-- The order the library had before the F2 fix (`validate; with open: get_parser; serialize; build_file`) does not
have the safe shape, and the model exhibits the damage: a nested validator refuses inside `serialize`, the good copy
at the destination is gone (empty file), and on a fresh path an empty file has appeared. -/
theorem C18_counterexample :
    noFallibleAfterOpen [.validate, .openW, .getParser, .serialize, .buildFile] = false
    ∧ ∃ (obj : DumpObj) (fs : FS) (path : Path),
        (run [.validate, .openW, .getParser, .serialize, .buildFile] obj fs path).2 = .error (.serialize, .valueError)
        ∧ fs path = some "good".toList
        ∧ (run [.validate, .openW, .getParser, .serialize, .buildFile] obj fs path).1 path = some []
        ∧ (run [.validate, .openW, .getParser, .serialize, .buildFile] obj (fun _ => none) path).1 path = some [] := by
  refine ⟨by decide, { serialize := .error .valueError }, (fun _ => some "good".toList), "p".toList, ?_, rfl, ?_, ?_⟩
    <;> simp [run, exec, step, liftErr, FS.write]

/-- A failure of the ENCODER inside `build_file` (after the destination was opened) is outside the guarantee for
every script that opens before it writes – the current ones included: the old content is replaced by whatever had
been written when the encoder gave up.  (On the real library: an `Rpms`/`Modules`/`ExtraFiles` payload holding a
value `json` cannot encode, e.g. a `set`.) -/
theorem C18_encoder_failure_not_covered (p : String × List Eff) (hp : p ∈ Gen.dumpScripts) :
    ∃ (obj : DumpObj) (fs : FS) (path : Path),
      (run p.2 obj fs path).2 = .error (.buildFile, .typeError)
      ∧ fs path = some "good".toList ∧ (run p.2 obj fs path).1 path = some "{".toList := by
  have hscript : p.2 = [.validate, .getParser, .serialize, .openW, .buildFile] := by
    simp only [Gen.dumpScripts, List.mem_cons, List.not_mem_nil, or_false] at hp
    rcases hp with hp | hp <;> rw [hp] <;> rfl
  rw [hscript]
  refine ⟨{ serialize := .ok "{}".toList, buildFail := some (1, .typeError) }, (fun _ => some "good".toList), "p".toList, ?_, rfl, ?_⟩
    <;> simp [run, exec, step, liftErr, FS.write]

/-! ### non-vacuity -/
example : noFallibleAfterOpen [.validate, .getParser, .serialize, .openW, .buildFile] = true := by decide
example : ∃ obj : DumpObj, ∃ fs path eff e, (run Gen.dumpScript_MetadataBase obj fs path).2 = .error (eff, e) ∧ eff ≠ .buildFile :=
  ⟨{ serialize := .error .valueError }, fun _ => none, [], .serialize, .valueError, rfl, by decide⟩
example : (Sect.node [.ok ()] [.node [.ok (), .error .typeError] []]).check = .error .typeError := rfl

end PM
