import ProductMD.Model.Dump
import ProductMD.Generated.Effects
/-!
# C18 — a dump that fails validation leaves the destination file untouched

`run sc obj fs path` interprets an effect script `sc` (the order of statements of a `dump` method) on an abstract
object `obj` (arbitrary outcomes of `validate()`, `_get_parser()`, `serialize()` – i.e. any failure point, at top
level or in any nested section writer) and an abstract file system.  The scripts of the real `dump` methods are
`Gen.dumpScript_*`, regenerated from the source AST on every run.
-/
namespace PM

/-! ### the general theorem -/

/-- once the destination is open and only infallible statements remain, the only thing that can still fail is the
encoder inside `build_file` -/
theorem exec_after_open (o : DumpObj) (path : Path) (ho : o.openErr = none) :
    ∀ (sc : List Eff) (st : DumpSt), sc.all (fun e => !e.fallible) = true →
      ∀ f, (exec o path sc st).result = .error f → f.1 = .buildFile := by
  intro sc
  induction sc with
  | nil => intro st _ f h; simp [exec] at h
  | cons e rest ih =>
    intro st hall f h
    simp only [List.all_cons, Bool.and_eq_true] at hall
    obtain ⟨he, hrest⟩ := hall
    cases e with
    | validate => simp [Eff.fallible] at he
    | getParser => simp [Eff.fallible] at he
    | serialize => simp [Eff.fallible] at he
    | unknown => simp [Eff.fallible] at he
    | openW =>
      simp only [exec, step, ho] at h
      exact ih _ hrest f h
    | buildFile =>
      simp only [exec, step] at h
      cases hp : st.parser with
      | none => simp [hp] at h; rw [← h]
      | some t =>
        simp only [hp] at h
        by_cases hop : st.opened = true
        · simp only [hop, if_true] at h
          cases hb : o.buildFail with
          | none => simp only [hb] at h; exact ih _ hrest f h
          | some ne => simp only [hb] at h; simp at h; rw [← h]
        · simp [hop] at h; rw [← h]

/-- before the destination is opened no statement touches the file system; if the script has the safe shape, a
failure anywhere except inside the encoder of `build_file` leaves the file system as it was -/
theorem exec_safe (o : DumpObj) (path : Path) :
    ∀ (sc : List Eff) (st : DumpSt), noFallibleAfterOpen sc = true → st.opened = false →
      ∀ f, (exec o path sc st).result = .error f → f.1 ≠ .buildFile → (exec o path sc st).st.fs = st.fs := by
  intro sc
  induction sc with
  | nil => intro st _ _ f h; simp [exec] at h
  | cons e rest ih =>
    intro st hs hop f h hne
    cases e with
    | openW =>
      simp only [noFallibleAfterOpen] at hs
      cases ho : o.openErr with
      | some e => simp [exec, step, ho]
      | none =>
        exfalso
        simp only [exec, step, ho] at h
        exact hne (exec_after_open o path ho rest _ hs f h)
    | validate =>
      simp only [noFallibleAfterOpen] at hs
      simp only [exec, step] at h ⊢
      cases hv : o.validate with
      | ok u => cases u; simp only [hv, liftErr] at h ⊢; exact ih st hs hop f h hne
      | error e => simp [hv, liftErr]
    | unknown =>
      simp only [noFallibleAfterOpen] at hs
      simp only [exec, step] at h ⊢
      cases hv : o.unknown with
      | ok u => cases u; simp only [hv, liftErr] at h ⊢; exact ih st hs hop f h hne
      | error e => simp [hv, liftErr]
    | getParser =>
      simp only [noFallibleAfterOpen] at hs
      simp only [exec, step] at h ⊢
      cases hv : o.getParser with
      | ok t => simp only [hv] at h ⊢; exact ih _ hs hop f h hne
      | error e => simp [hv]
    | serialize =>
      simp only [noFallibleAfterOpen] at hs
      simp only [exec, step] at h ⊢
      cases hp : st.parser with
      | none => simp [hp]
      | some t0 =>
        simp only [hp] at h ⊢
        cases hv : o.serialize with
        | ok t => simp only [hv] at h ⊢; exact ih _ hs hop f h hne
        | error e => simp [hv]
    | buildFile =>
      simp only [noFallibleAfterOpen] at hs
      simp only [exec, step] at h ⊢
      cases hp : st.parser with
      | none => simp [hp]
      | some t => simp [hp, hop]

/-- **C18, for ANY script of the safe shape, any object, any failure point, any file system.**
If `dump` fails at a statement other than the encoder in `build_file` (that is: in `validate()`, in `serialize()` at
whichever nested validator, in `_get_parser()`, in an unrecognised statement, or because the destination could not be
opened), the file system – every path, the destination included – is exactly what it was. -/
theorem C18_general (sc : List Eff) (h : noFallibleAfterOpen sc = true)
    (obj : DumpObj) (fs : FS) (path : Path) (eff : Eff) (e : Err) :
    (run sc obj fs path).2 = .error (eff, e) → eff ≠ .buildFile → (run sc obj fs path).1 = fs := by
  intro hr hne
  exact exec_safe obj path sc { fs := fs } h rfl (eff, e) hr hne

/-- in particular: the bytes at the destination are the old ones, and no file appears where there was none -/
theorem C18_destination (sc : List Eff) (h : noFallibleAfterOpen sc = true)
    (obj : DumpObj) (fs : FS) (path : Path) (eff : Eff) (e : Err)
    (hr : (run sc obj fs path).2 = .error (eff, e)) (hne : eff ≠ .buildFile) :
    (run sc obj fs path).1 path = fs path ∧ (fs path = none → (run sc obj fs path).1 path = none) := by
  rw [C18_general sc h obj fs path eff e hr hne]
  exact ⟨rfl, id⟩

/-! ### the obligation on the code as it is now -/

/-- Both `dump` methods of the library have the safe shape (decided on the scripts regenerated from the source;
false for the order before the F2 fix, see `C18_counterexample`). -/
theorem C18_here : noFallibleAfterOpen Gen.dumpScript_MetadataBase = true
                 ∧ noFallibleAfterOpen Gen.dumpScript_TreeInfo = true := by decide

/-- …and so has every `dump` defined anywhere in the library; each of the seven formats runs one of them. -/
theorem C18_every_dump :
    (∀ p ∈ Gen.dumpScripts, noFallibleAfterOpen p.2 = true)
    ∧ (∀ p ∈ Gen.dumpOwner, (Gen.dumpScripts.map (·.1)).contains p.2 = true)
    ∧ Gen.dumpOwner.length = 7 := by decide

/-- C18 for the real scripts. -/
theorem C18_dump (p : String × List Eff) (hp : p ∈ Gen.dumpScripts)
    (obj : DumpObj) (fs : FS) (path : Path) (eff : Eff) (e : Err)
    (hr : (run p.2 obj fs path).2 = .error (eff, e)) (hne : eff ≠ .buildFile) :
    (run p.2 obj fs path).1 = fs :=
  C18_general p.2 (C18_every_dump.1 p hp) obj fs path eff e hr hne

/-! ### scripts of the standard shape: what a dump does when nothing / something refuses -/

/-- both `dump` methods have the standard shape `validate* getParser validate* serialize validate* openW buildFile`
(decided on the regenerated scripts; a reordering that keeps the shape keeps every theorem below) -/
theorem C18_shape : ∀ p ∈ Gen.dumpScripts, standardShape p.2 = true := by decide

theorem phases_done_nil : ∀ (sc : List Eff), phases .done sc = some .done → sc = [] := by
  intro sc h
  cases sc with
  | nil => rfl
  | cons e r => cases e <;> simp [phases, phaseStep] at h

/-- all steps succeed up to the encoder: the destination ends up holding what `build_file` wrote -/
theorem exec_standard (o : DumpObj) (fs : FS) (path : Path) (t0 t : Content)
    (h1 : o.validate = .ok ()) (h2 : o.getParser = .ok t0) (h3 : o.serialize = .ok t) (h4 : o.openErr = none) :
    ∀ (sc : List Eff) (p : Phase), p ≠ .done → phases p sc = some .done →
      (exec o path sc (stateAt fs path t0 t p)).st.fs
          = fs.write path (match o.buildFail with | none => t | some (n, _) => t.take n)
      ∧ (exec o path sc (stateAt fs path t0 t p)).result
          = (match o.buildFail with | none => .ok () | some (_, e) => .error (.buildFile, e)) := by
  have hw : ∀ c : Content, (fs.write path []).write path c = fs.write path c := by
    intro c; funext q; by_cases hq : q = path <;> simp [FS.write, hq]
  have hcur : (fs.write path []) path = some [] := by simp [FS.write]
  intro sc
  induction sc with
  | nil => intro p hp h; simp only [phases, Option.some.injEq] at h; exact absurd h hp
  | cons e rest ih =>
    intro p hp h
    cases p <;> cases e <;> simp only [phases, phaseStep] at h <;> try (exact absurd h (by simp))
    · -- init, validate
      simp only [exec, step, stateAt, h1, liftErr]
      exact ih .init (by simp) h
    · -- init, getParser
      simp only [exec, step, stateAt, h2]
      exact ih .parsed (by simp) h
    · -- parsed, validate
      simp only [exec, step, stateAt, h1, liftErr]
      exact ih .parsed (by simp) h
    · -- parsed, serialize
      simp only [exec, step, stateAt, h3]
      exact ih .serialized (by simp) h
    · -- serialized, validate
      simp only [exec, step, stateAt, h1, liftErr]
      exact ih .serialized (by simp) h
    · -- serialized, openW
      simp only [exec, step, stateAt, h4]
      exact ih .opened (by simp) h
    · -- opened, buildFile
      have hr := phases_done_nil rest h
      subst hr
      cases hb : o.buildFail with
      | none => simp [exec, step, stateAt, hb, hcur, hw]
      | some ne => obtain ⟨n, e⟩ := ne; simp [exec, step, stateAt, hb, hcur, hw]

/-- something refuses before the open (the top-level `validate()` or, if that passes, `serialize`): the script stops
there, with that error, and the file system is the one it started with -/
theorem exec_standard_refused (o : DumpObj) (fs : FS) (path : Path) (t0 : Content) (e : Err)
    (h2 : o.getParser = .ok t0) (h3 : o.serialize = .error e) (hv : o.validate = .ok () ∨ o.validate = .error e) :
    ∀ (sc : List Eff) (p : Phase), (p = .init ∨ p = .parsed) → phases p sc = some .done →
      ∃ eff, (eff = .validate ∨ eff = .serialize)
        ∧ (exec o path sc (stateAt fs path t0 t0 p)).st.fs = fs
        ∧ (exec o path sc (stateAt fs path t0 t0 p)).result = .error (eff, e) := by
  intro sc
  induction sc with
  | nil => intro p hp h; simp only [phases, Option.some.injEq] at h; rcases hp with hp | hp <;> rw [hp] at h <;> cases h
  | cons x rest ih =>
    intro p hp h
    rcases hp with hp | hp <;> subst hp <;> cases x <;> simp only [phases, phaseStep] at h <;> try (exact absurd h (by simp))
    · -- init, validate
      rcases hv with hv | hv
      · simp only [exec, step, stateAt, hv, liftErr]; exact ih .init (.inl rfl) h
      · exact ⟨.validate, .inl rfl, by simp [exec, step, stateAt, hv, liftErr]⟩
    · -- init, getParser
      simp only [exec, step, stateAt, h2]; exact ih .parsed (.inr rfl) h
    · -- parsed, validate
      rcases hv with hv | hv
      · simp only [exec, step, stateAt, hv, liftErr]; exact ih .parsed (.inr rfl) h
      · exact ⟨.validate, .inl rfl, by simp [exec, step, stateAt, hv, liftErr]⟩
    · -- parsed, serialize
      exact ⟨.serialize, .inr rfl, by simp [exec, step, stateAt, h3]⟩

/-! ### every nested validator -/

/-- Sections as a tree of validator outcomes.  If ANY reached validator of ANY nested section refuses
(`top.check = .error e`), `dump` through ANY script of the standard shape FAILS (it does not silently write
something) with that error, at `validate()` or inside `serialize`, before anything was opened, and the file system
is untouched: whether the top-level `validate()` saw the problem or only a nested section writer did. -/
theorem C18_nested (sc : List Eff) (hs : standardShape sc = true)
    (top : Sect) (text empty : Content) (fs : FS) (path : Path) (e : Err) (h : top.check = .error e) :
    ∃ eff, (eff = .validate ∨ eff = .serialize) ∧
      run sc (DumpObj.ofSect top text empty) fs path = (fs, .error (eff, e)) := by
  have hph : phases .init sc = some .done := by simpa [standardShape] using hs
  obtain ⟨vs, kids⟩ := top
  have hv : (DumpObj.ofSect (.node vs kids) text empty).validate = .ok ()
      ∨ (DumpObj.ofSect (.node vs kids) text empty).validate = .error e := by
    simp only [DumpObj.ofSect, Sect.validators]
    cases hf : firstErr vs with
    | ok u => cases u; exact .inl rfl
    | error e' => simp [Sect.check, hf] at h; subst h; exact .inr rfl
  obtain ⟨eff, he, h1, h2⟩ := exec_standard_refused (DumpObj.ofSect (.node vs kids) text empty) fs path empty e
    rfl (by simp [DumpObj.ofSect, h]) hv sc .init (.inl rfl) hph
  refine ⟨eff, he, ?_⟩
  simp only [run]
  simp only [stateAt] at h1 h2
  rw [h1, h2]

/-- the same for the real scripts -/
theorem C18_nested_here (p : String × List Eff) (hp : p ∈ Gen.dumpScripts)
    (top : Sect) (text empty : Content) (fs : FS) (path : Path) (e : Err) (h : top.check = .error e) :
    ∃ eff, (eff = .validate ∨ eff = .serialize) ∧
      run p.2 (DumpObj.ofSect top text empty) fs path = (fs, .error (eff, e)) :=
  C18_nested p.2 (C18_shape p hp) top text empty fs path e h

/-- and when nothing refuses, a script of the standard shape writes exactly the serialised text to the destination
and touches nothing else (so the theorems above are not about a `dump` that never writes) -/
theorem C18_success (sc : List Eff) (hs : standardShape sc = true)
    (obj : DumpObj) (fs : FS) (path : Path) (t0 t : Content)
    (h1 : obj.validate = .ok ()) (h2 : obj.getParser = .ok t0) (h3 : obj.serialize = .ok t)
    (h4 : obj.openErr = none) (h5 : obj.buildFail = none) :
    run sc obj fs path = (fs.write path t, .ok ()) := by
  have hph : phases .init sc = some .done := by simpa [standardShape] using hs
  obtain ⟨a, b⟩ := exec_standard obj fs path t0 t h1 h2 h3 h4 sc .init (by simp) hph
  simp only [stateAt, h5] at a b
  simp only [run, a, b]

/-! ### what is NOT guaranteed -/

/-- The order the library had before the F2 fix (`validate; with open: get_parser; serialize; build_file`) does not
have the safe shape, and the model exhibits the damage: a nested validator refuses inside `serialize`, the good copy
at the destination is gone (empty file), and on a fresh path an empty file has appeared. -/
theorem C18_counterexample :
    noFallibleAfterOpen [.validate, .openW, .getParser, .serialize, .buildFile] = false
    ∧ ∃ (obj : DumpObj) (fs : FS) (path : Path),
        (run [.validate, .openW, .getParser, .serialize, .buildFile] obj fs path).2 = .error (.serialize, .valueError)
        ∧ fs path = some "good".toList
        ∧ (run [.validate, .openW, .getParser, .serialize, .buildFile] obj fs path).1 path = some []
        ∧ (run [.validate, .openW, .getParser, .serialize, .buildFile] obj (fun _ => none) path).1 path = some [] := by
  refine ⟨by decide, { serialize := .error .valueError }, (fun _ => some "good".toList), "p".toList, ?_, rfl, ?_, ?_⟩
    <;> simp [run, exec, step, liftErr, FS.write]

/-- A failure of the ENCODER inside `build_file` (after the destination was opened) is outside the guarantee for
every script of the standard shape – the current ones included (`C18_shape`): the old content is replaced by whatever
had been written when the encoder gave up.  (On the real library: an `Rpms`/`Modules`/`ExtraFiles` payload holding a
value `json` cannot encode, e.g. a `set` – finding F19.) -/
theorem C18_encoder_failure_not_covered (sc : List Eff) (hs : standardShape sc = true)
    (obj : DumpObj) (fs : FS) (path : Path) (t0 t : Content) (n : Nat) (e : Err)
    (h1 : obj.validate = .ok ()) (h2 : obj.getParser = .ok t0) (h3 : obj.serialize = .ok t)
    (h4 : obj.openErr = none) (h5 : obj.buildFail = some (n, e)) :
    run sc obj fs path = (fs.write path (t.take n), .error (.buildFile, e)) := by
  have hph : phases .init sc = some .done := by simpa [standardShape] using hs
  obtain ⟨a, b⟩ := exec_standard obj fs path t0 t h1 h2 h3 h4 sc .init (by simp) hph
  simp only [stateAt, h5] at a b
  simp only [run, a, b]

/-! ### non-vacuity -/
example : noFallibleAfterOpen [.validate, .getParser, .serialize, .openW, .buildFile] = true := by decide
example : ∃ obj : DumpObj, ∃ fs path eff e, (run Gen.dumpScript_MetadataBase obj fs path).2 = .error (eff, e) ∧ eff ≠ .buildFile :=
  ⟨{ serialize := .error .valueError }, fun _ => none, [], .serialize, .valueError, rfl, by decide⟩
example : (Sect.node [.ok ()] [.node [.ok (), .error .typeError] []]).check = .error .typeError := rfl
example : standardShape [.getParser, .validate, .serialize, .openW, .buildFile] = true := by decide
example : standardShape [.validate, .openW, .getParser, .serialize, .buildFile] = false := by decide
example : ∃ obj : DumpObj, obj.buildFail = some (1, .typeError) ∧ obj.serialize = .ok "{}".toList :=
  ⟨{ serialize := .ok "{}".toList, buildFail := some (1, .typeError) }, rfl, rfl⟩

end PM
