import ProductMD.Model.Dump
import ProductMD.Generated.Effects
/-!
# C18 — a dump that fails validation leaves the destination file untouched

`run sc obj fs path` interprets an effect script `sc` (the order of statements of a `dump` method) on an abstract
object `obj` (arbitrary outcomes of `validate()`, `_get_parser()`, `serialize()`, of the encoder in `build_file` – i.e.
any failure point, at top level, in any nested section writer or in the encoder) and an abstract file system.  The
scripts of the real `dump` methods are `Gen.dumpScript_*`, regenerated from the source AST on every run.
-/
namespace PM

/-! ### the general theorem -/

/-- once something destructive has happened and only infallible statements remain (`openW`, `unlink`, `newBuf`,
`writeBuf`; and the open either cannot fail or does not occur), the only thing that can still go wrong is a `writeBuf`
on an unbound buffer / unopened file (a programming error, not a refusal) -/
theorem exec_after_open (o : DumpObj) (path : Path) :
    ∀ (sc : List Eff) (st : DumpSt), sc.all (fun e => !e.fallible) = true →
      (o.openErr = none ∨ sc.all (fun e => e != .openW) = true) →
      ∀ f, (exec o path sc st).result = .error f → f.1 = .writeBuf := by
  intro sc
  induction sc with
  | nil => intro st _ _ f h; simp [exec] at h
  | cons e rest ih =>
    intro st hall ho f h
    simp only [List.all_cons, Bool.and_eq_true] at hall
    obtain ⟨he, hrest⟩ := hall
    have ho' : o.openErr = none ∨ rest.all (fun e => e != .openW) = true := by
      rcases ho with ho | ho
      · exact .inl ho
      · simp only [List.all_cons, Bool.and_eq_true] at ho; exact .inr ho.2
    cases e with
    | validate => simp [Eff.fallible] at he
    | getParser => simp [Eff.fallible] at he
    | serialize => simp [Eff.fallible] at he
    | unknown => simp [Eff.fallible] at he
    | buildFile => simp [Eff.fallible] at he
    | buildMem => simp [Eff.fallible] at he
    | readBack => simp [Eff.fallible] at he
    | openW =>
      have hoe : o.openErr = none := by
        rcases ho with ho | ho
        · exact ho
        · simp at ho
      simp only [exec, step, hoe] at h
      exact ih _ hrest ho' f h
    | unlink =>
      simp only [exec, step] at h
      exact ih _ hrest ho' f h
    | newBuf =>
      simp only [exec, step] at h
      exact ih _ hrest ho' f h
    | writeBuf =>
      simp only [exec, step] at h
      cases hb : st.buffer with
      | none => simp [hb] at h; rw [← h]
      | some b =>
        simp only [hb] at h
        by_cases hop : st.opened = true
        · simp only [hop, if_true] at h; exact ih _ hrest ho' f h
        · simp [hop] at h; rw [← h]

theorem all_and_left {α : Type} (l : List α) (p q : α → Bool) (h : l.all (fun e => p e && q e) = true) :
    l.all p = true ∧ l.all q = true := by
  rw [List.all_eq_true] at h
  constructor <;> rw [List.all_eq_true] <;> intro x hx
  · exact (Bool.and_eq_true _ _ ▸ h x hx).1
  · exact (Bool.and_eq_true _ _ ▸ h x hx).2

/-- before the destination is opened no statement touches the file system; if the script has the safe shape, a
failure anywhere except in `writeBuf` leaves the file system as it was -/
theorem exec_safe (o : DumpObj) (path : Path) :
    ∀ (sc : List Eff) (st : DumpSt), noFallibleAfterOpen sc = true → st.opened = false →
      ∀ f, (exec o path sc st).result = .error f → f.1 ≠ .writeBuf → (exec o path sc st).st.fs = st.fs := by
  intro sc
  induction sc with
  | nil => intro st _ _ f h; simp [exec] at h
  | cons e rest ih =>
    intro st hs hop f h hne
    cases e with
    | openW =>
      simp only [noFallibleAfterOpen] at hs
      cases ho : o.openErr with
      | some e => simp [exec, step, ho]
      | none =>
        exfalso
        simp only [exec, step, ho] at h
        exact hne (exec_after_open o path rest _ (all_and_left rest _ _ hs).1 (.inl ho) f h)
    | unlink =>
      simp only [noFallibleAfterOpen] at hs
      exfalso
      simp only [exec, step] at h
      exact hne (exec_after_open o path rest _ (all_and_left rest _ _ hs).1 (.inr (all_and_left rest _ _ hs).2) f h)
    | validate =>
      simp only [noFallibleAfterOpen] at hs
      simp only [exec, step] at h ⊢
      cases hv : o.validate with
      | ok u => cases u; simp only [hv, liftErr] at h ⊢; exact ih st hs hop f h hne
      | error e => simp [liftErr]
    | unknown =>
      simp only [noFallibleAfterOpen] at hs
      simp only [exec, step] at h ⊢
      cases hv : o.unknown with
      | ok u => cases u; simp only [hv, liftErr] at h ⊢; exact ih st hs hop f h hne
      | error e => simp [liftErr]
    | readBack =>
      simp only [noFallibleAfterOpen] at hs
      simp only [exec, step] at h ⊢
      cases hv : o.readBack with
      | ok u => cases u; simp only [hv, liftErr] at h ⊢; exact ih st hs hop f h hne
      | error e => simp [liftErr]
    | getParser =>
      simp only [noFallibleAfterOpen] at hs
      simp only [exec, step] at h ⊢
      cases hv : o.getParser with
      | ok t => simp only [hv] at h ⊢; exact ih _ hs hop f h hne
      | error e => simp
    | serialize =>
      simp only [noFallibleAfterOpen] at hs
      simp only [exec, step] at h ⊢
      cases hp : st.parser with
      | none => simp
      | some t0 =>
        simp only [hp] at h ⊢
        cases hv : o.serialize with
        | ok t => simp only [hv] at h ⊢; exact ih _ hs hop f h hne
        | error e => simp
    | buildFile =>
      simp only [noFallibleAfterOpen] at hs
      simp only [exec, step] at h ⊢
      cases hp : st.parser with
      | none => simp
      | some t => simp [hop]
    | newBuf =>
      simp only [noFallibleAfterOpen] at hs
      simp only [exec, step] at h ⊢
      exact ih _ hs hop f h hne
    | buildMem =>
      simp only [noFallibleAfterOpen] at hs
      simp only [exec, step] at h ⊢
      cases hp : st.parser with
      | none => simp
      | some t =>
        cases hb : st.buffer with
        | none => simp
        | some b =>
          simp only [hp, hb] at h ⊢
          cases hf : o.buildFail with
          | none => simp only [hf] at h ⊢; exact ih _ hs hop f h hne
          | some ne => simp
    | writeBuf =>
      simp only [noFallibleAfterOpen] at hs
      simp only [exec, step] at h ⊢
      cases hb : st.buffer with
      | none => simp
      | some b => simp [hop]

/-- **C18, for ANY script of the safe shape, any object, any failure point, any file system.**
If `dump` fails in `validate()`, in `serialize()` at whichever nested validator or section writer, in the encoder of
`build_file`, in `_get_parser()`, in an unrecognised statement, or because the destination could not be opened –
anywhere but in the final plain write –, the file system (every path, the destination included) is exactly what it
was.  "Safe shape": nothing that runs code of the object, the encoder included, comes after the open, and nothing fallible
at all (the open included) after a removal of the destination. -/
theorem C18_general (sc : List Eff) (h : noFallibleAfterOpen sc = true)
    (obj : DumpObj) (fs : FS) (path : Path) (eff : Eff) (e : Err) :
    (run sc obj fs path).2 = .error (eff, e) → eff ≠ .writeBuf → (run sc obj fs path).1 = fs := by
  intro hr hne
  exact exec_safe obj path sc { fs := fs } h rfl (eff, e) hr hne

/-- in particular: the bytes at the destination are the old ones, and no file appears where there was none -/
theorem C18_destination (sc : List Eff) (h : noFallibleAfterOpen sc = true)
    (obj : DumpObj) (fs : FS) (path : Path) (eff : Eff) (e : Err)
    (hr : (run sc obj fs path).2 = .error (eff, e)) (hne : eff ≠ .writeBuf) :
    (run sc obj fs path).1 path = fs path ∧ (fs path = none → (run sc obj fs path).1 path = none) := by
  rw [C18_general sc h obj fs path eff e hr hne]
  exact ⟨rfl, id⟩

/-! ### the obligation on the code as it is now -/

/-- Both `dump` methods of the library have the safe shape (decided on the scripts regenerated from the source;
false for the order before the F2 fix and for the order before the F19 fix, see the witnesses below). -/
theorem C18_here : noFallibleAfterOpen Gen.dumpScript_MetadataBase = true
                 ∧ noFallibleAfterOpen Gen.dumpScript_TreeInfo = true := by decide

/-- …and so has every `dump` defined anywhere in the library; each of the seven formats runs one of them. -/
theorem C18_every_dump :
    (∀ p ∈ Gen.dumpScripts, noFallibleAfterOpen p.2 = true)
    ∧ (∀ p ∈ Gen.dumpOwner, (Gen.dumpScripts.map (·.1)).contains p.2 = true)
    ∧ Gen.dumpOwner.length = 7 := by decide

/-- both have the standard shape `validate* getParser validate* serialize validate* newBuf buildMem openW writeBuf`
(a reordering that keeps the shape keeps every theorem below) -/
theorem C18_shape : ∀ p ∈ Gen.dumpScripts, standardShape p.2 = true := by decide

/-! ### scripts of the standard shape: EVERY failure leaves the file system alone -/

/-- what is known about the interpreter state at each phase, whatever the object did so far -/
def PhaseInv : Phase → DumpSt → Prop
  | .init, st => st.opened = false
  | .parsed, st => st.opened = false ∧ st.parser.isSome = true
  | .serialized, st => st.opened = false ∧ st.parser.isSome = true
  | .buffered, st => st.opened = false ∧ st.parser.isSome = true ∧ st.buffer.isSome = true
  | .built, st => st.opened = false ∧ st.buffer.isSome = true
  | .opened, st => st.opened = true ∧ st.buffer.isSome = true
  | .done, _ => True

theorem phases_done_nil : ∀ (sc : List Eff), phases .done sc = some .done → sc = [] := by
  intro sc h
  cases sc with
  | nil => rfl
  | cons e r => cases e <;> simp [phases, phaseStep] at h

/-- after the open only the plain write remains, and it cannot fail -/
theorem exec_opened_ok (o : DumpObj) (path : Path) (sc : List Eff) (st : DumpSt)
    (h : phases .opened sc = some .done) (hi : PhaseInv .opened st) : (exec o path sc st).result = .ok () := by
  cases sc with
  | nil => simp [phases] at h
  | cons e rest =>
    cases e <;> simp only [phases, phaseStep] at h <;> try (exact absurd h (by simp))
    have hr := phases_done_nil rest h
    subst hr
    obtain ⟨hop, hb⟩ := hi
    cases hbuf : st.buffer with
    | none => simp [hbuf] at hb
    | some b => simp [exec, step, hbuf, hop]

/-- for a script of the standard shape started in a state that satisfies the phase invariant, ANY failure – of any
statement, for any object – leaves the file system as it was -/
theorem exec_standard_any (o : DumpObj) (path : Path) :
    ∀ (sc : List Eff) (p : Phase) (st : DumpSt), phases p sc = some .done → PhaseInv p st →
      ∀ f, (exec o path sc st).result = .error f → (exec o path sc st).st.fs = st.fs := by
  intro sc
  induction sc with
  | nil => intro p st _ _ f h; simp [exec] at h
  | cons e rest ih =>
    intro p st hph hi f h
    cases p <;> cases e <;> simp only [phases, phaseStep] at hph <;> try (exact absurd hph (by simp))
    · -- init, validate
      simp only [exec, step] at h ⊢
      cases hv : o.validate with
      | ok u => cases u; simp only [hv, liftErr] at h ⊢; exact ih .init st hph hi f h
      | error e => simp [liftErr]
    · -- init, getParser
      simp only [exec, step] at h ⊢
      cases hv : o.getParser with
      | ok t => simp only [hv] at h ⊢; exact ih .parsed _ hph ⟨hi, rfl⟩ f h
      | error e => simp
    · -- parsed, validate
      simp only [exec, step] at h ⊢
      cases hv : o.validate with
      | ok u => cases u; simp only [hv, liftErr] at h ⊢; exact ih .parsed st hph hi f h
      | error e => simp [liftErr]
    · -- parsed, serialize
      simp only [exec, step] at h ⊢
      cases hp : st.parser with
      | none => simp
      | some t0 =>
        simp only [hp] at h ⊢
        cases hv : o.serialize with
        | ok t => simp only [hv] at h ⊢; exact ih .serialized _ hph ⟨hi.1, rfl⟩ f h
        | error e => simp
    · -- serialized, validate
      simp only [exec, step] at h ⊢
      cases hv : o.validate with
      | ok u => cases u; simp only [hv, liftErr] at h ⊢; exact ih .serialized st hph hi f h
      | error e => simp [liftErr]
    · -- serialized, newBuf
      simp only [exec, step] at h ⊢
      exact ih .buffered _ hph ⟨hi.1, hi.2, rfl⟩ f h
    · -- buffered, buildMem
      simp only [exec, step] at h ⊢
      obtain ⟨hop, hp, hb⟩ := hi
      cases hpar : st.parser with
      | none => simp [hpar] at hp
      | some t =>
        cases hbuf : st.buffer with
        | none => simp [hbuf] at hb
        | some b =>
          simp only [hpar, hbuf] at h ⊢
          cases hf : o.buildFail with
          | none => simp only [hf] at h ⊢; exact ih .built _ hph ⟨hop, rfl⟩ f h
          | some ne => simp
    · -- built, openW
      simp only [exec, step] at h ⊢
      cases ho : o.openErr with
      | some e => simp
      | none =>
        exfalso
        simp only [ho] at h
        have := exec_opened_ok o path rest { st with fs := st.fs.write path [], opened := true } hph ⟨rfl, hi.2⟩
        rw [this] at h
        cases h
    · -- opened, writeBuf
      exfalso
      have := exec_opened_ok o path (.writeBuf :: rest) st (by simp [phases, phaseStep, hph]) hi
      rw [this] at h
      cases h

/-- **C18 for the standard shape, without any exception**: whatever fails – a validator at top level, a validator
or a plain exception inside a nested section writer, the ENCODER (`json.dump` meeting a value it cannot encode),
`_get_parser`, or the open itself – the file system is exactly what it was. -/
theorem C18_standard (sc : List Eff) (hs : standardShape sc = true)
    (obj : DumpObj) (fs : FS) (path : Path) (f : Failure) (hr : (run sc obj fs path).2 = .error f) :
    (run sc obj fs path).1 = fs := by
  have hph : phases .init sc = some .done := by simpa [standardShape] using hs
  exact exec_standard_any obj path sc .init { fs := fs } hph rfl f hr

/-- C18 for the real scripts: any failure of `MetadataBase.dump` / `TreeInfo.dump` leaves every path as it was -/
theorem C18_dump (p : String × List Eff) (hp : p ∈ Gen.dumpScripts)
    (obj : DumpObj) (fs : FS) (path : Path) (f : Failure) (hr : (run p.2 obj fs path).2 = .error f) :
    (run p.2 obj fs path).1 = fs :=
  C18_standard p.2 (C18_shape p hp) obj fs path f hr

/-! ### what exactly a standard script does -/

/-- all steps up to the encoder succeed: either the encoder fails (in memory: nothing is touched) or the destination
ends up holding exactly the serialised text -/
theorem exec_standard (o : DumpObj) (fs : FS) (path : Path) (t0 t : Content)
    (h1 : o.validate = .ok ()) (h2 : o.getParser = .ok t0) (h3 : o.serialize = .ok t) (h4 : o.openErr = none) :
    ∀ (sc : List Eff) (p : Phase), (p = .init ∨ p = .parsed ∨ p = .serialized ∨ p = .buffered) → phases p sc = some .done →
      (exec o path sc (stateAt fs path t0 t p)).st.fs
          = (match o.buildFail with | none => fs.write path t | some _ => fs)
      ∧ (exec o path sc (stateAt fs path t0 t p)).result
          = (match o.buildFail with | none => .ok () | some (_, e) => .error (.buildMem, e)) := by
  have hw : ∀ c : Content, (fs.write path []).write path c = fs.write path c := by
    intro c; funext q; by_cases hq : q = path <;> simp [FS.write, hq]
  have hcur : (fs.write path []) path = some [] := by simp [FS.write]
  intro sc
  induction sc with
  | nil =>
    intro p hp h; simp only [phases, Option.some.injEq] at h
    rcases hp with hp | hp | hp | hp <;> rw [hp] at h <;> cases h
  | cons e rest ih =>
    intro p hp h
    rcases hp with hp | hp | hp | hp <;> subst hp <;> cases e <;> simp only [phases, phaseStep] at h <;>
      try (exact absurd h (by simp))
    · simp only [exec, step, stateAt, h1, liftErr]; exact ih .init (by simp) h
    · simp only [exec, step, stateAt, h2]; exact ih .parsed (by simp) h
    · simp only [exec, step, stateAt, h1, liftErr]; exact ih .parsed (by simp) h
    · simp only [exec, step, stateAt, h3]; exact ih .serialized (by simp) h
    · simp only [exec, step, stateAt, h1, liftErr]; exact ih .serialized (by simp) h
    · simp only [exec, step, stateAt]; exact ih .buffered (by simp) h
    · -- buffered, buildMem: the rest is openW, writeBuf
      cases hb : o.buildFail with
      | some ne => obtain ⟨n, e⟩ := ne; simp [exec, step, stateAt, hb]
      | none =>
        cases rest with
        | nil => simp [phases] at h
        | cons e2 rest2 =>
          cases e2 <;> simp only [phases, phaseStep] at h <;> try (exact absurd h (by simp))
          cases rest2 with
          | nil => simp [phases] at h
          | cons e3 rest3 =>
            cases e3 <;> simp only [phases, phaseStep] at h <;> try (exact absurd h (by simp))
            have hr := phases_done_nil rest3 h
            subst hr
            simp [exec, step, stateAt, hb, h4, hcur, hw]

/-- something refuses before the encoder (the top-level `validate()` or, if that passes, `serialize`): the script
stops there, with that error, and the file system is the one it started with -/
theorem exec_standard_refused (o : DumpObj) (fs : FS) (path : Path) (t0 : Content) (e : Err)
    (h2 : o.getParser = .ok t0) (h3 : o.serialize = .error e) (hv : o.validate = .ok () ∨ o.validate = .error e) :
    ∀ (sc : List Eff) (p : Phase), (p = .init ∨ p = .parsed) → phases p sc = some .done →
      ∃ eff, (eff = .validate ∨ eff = .serialize)
        ∧ (exec o path sc (stateAt fs path t0 t0 p)).st.fs = fs
        ∧ (exec o path sc (stateAt fs path t0 t0 p)).result = .error (eff, e) := by
  intro sc
  induction sc with
  | nil => intro p hp h; simp only [phases, Option.some.injEq] at h; rcases hp with hp | hp <;> rw [hp] at h <;> cases h
  | cons x rest ih =>
    intro p hp h
    rcases hp with hp | hp <;> subst hp <;> cases x <;> simp only [phases, phaseStep] at h <;> try (exact absurd h (by simp))
    · rcases hv with hv | hv
      · simp only [exec, step, stateAt, hv, liftErr]; exact ih .init (.inl rfl) h
      · exact ⟨.validate, .inl rfl, by simp [exec, step, stateAt, hv, liftErr]⟩
    · simp only [exec, step, stateAt, h2]; exact ih .parsed (.inr rfl) h
    · rcases hv with hv | hv
      · simp only [exec, step, stateAt, hv, liftErr]; exact ih .parsed (.inr rfl) h
      · exact ⟨.validate, .inl rfl, by simp [exec, step, stateAt, hv, liftErr]⟩
    · exact ⟨.serialize, .inr rfl, by simp [exec, step, stateAt, h3]⟩

/-- Sections as a tree of validator outcomes.  If ANY reached validator of ANY nested section refuses
(`top.check = .error e`), `dump` through ANY script of the standard shape FAILS (it does not silently write
something) with that error, at `validate()` or inside `serialize`, before anything was opened, and the file system
is untouched: whether the top-level `validate()` saw the problem or only a nested section writer did. -/
theorem C18_nested (sc : List Eff) (hs : standardShape sc = true)
    (top : Sect) (text empty : Content) (fs : FS) (path : Path) (e : Err) (h : top.check = .error e) :
    ∃ eff, (eff = .validate ∨ eff = .serialize) ∧
      run sc (DumpObj.ofSect top text empty) fs path = (fs, .error (eff, e)) := by
  have hph : phases .init sc = some .done := by simpa [standardShape] using hs
  obtain ⟨vs, kids⟩ := top
  have hv : (DumpObj.ofSect (.node vs kids) text empty).validate = .ok ()
      ∨ (DumpObj.ofSect (.node vs kids) text empty).validate = .error e := by
    simp only [DumpObj.ofSect, Sect.validators]
    cases hf : firstErr vs with
    | ok u => cases u; exact .inl rfl
    | error e' => simp [Sect.check, hf] at h; subst h; exact .inr rfl
  obtain ⟨eff, he, h1, h2⟩ := exec_standard_refused (DumpObj.ofSect (.node vs kids) text empty) fs path empty e
    rfl (by simp [DumpObj.ofSect, h]) hv sc .init (.inl rfl) hph
  refine ⟨eff, he, ?_⟩
  simp only [run]
  simp only [stateAt] at h1 h2
  rw [h1, h2]

/-- the same for the real scripts -/
theorem C18_nested_here (p : String × List Eff) (hp : p ∈ Gen.dumpScripts)
    (top : Sect) (text empty : Content) (fs : FS) (path : Path) (e : Err) (h : top.check = .error e) :
    ∃ eff, (eff = .validate ∨ eff = .serialize) ∧
      run p.2 (DumpObj.ofSect top text empty) fs path = (fs, .error (eff, e)) :=
  C18_nested p.2 (C18_shape p hp) top text empty fs path e h

/-- and when nothing refuses, a script of the standard shape writes exactly the serialised text to the destination
and touches nothing else (so the theorems above are not about a `dump` that never writes) -/
theorem C18_success (sc : List Eff) (hs : standardShape sc = true)
    (obj : DumpObj) (fs : FS) (path : Path) (t0 t : Content)
    (h1 : obj.validate = .ok ()) (h2 : obj.getParser = .ok t0) (h3 : obj.serialize = .ok t)
    (h4 : obj.openErr = none) (h5 : obj.buildFail = none) :
    run sc obj fs path = (fs.write path t, .ok ()) := by
  have hph : phases .init sc = some .done := by simpa [standardShape] using hs
  obtain ⟨a, b⟩ := exec_standard obj fs path t0 t h1 h2 h3 h4 sc .init (.inl rfl) hph
  simp only [stateAt, h5] at a b
  simp only [run, a, b]

/-- **The encoder failure is covered** (since the F19 fix): when everything validates and serialises but `build_file`
meets a value it cannot encode – after any number `n` of characters – a script of the standard shape fails in the
in-memory build and the file system, the destination included, is untouched.  (On the real library: an
`Rpms`/`Modules`/`ExtraFiles` payload, a composeinfo path or an image checksum holding e.g. a `set`.) -/
theorem C18_encoder_failure_covered (sc : List Eff) (hs : standardShape sc = true)
    (obj : DumpObj) (fs : FS) (path : Path) (t0 t : Content) (n : Nat) (e : Err)
    (h1 : obj.validate = .ok ()) (h2 : obj.getParser = .ok t0) (h3 : obj.serialize = .ok t)
    (h4 : obj.openErr = none) (h5 : obj.buildFail = some (n, e)) :
    run sc obj fs path = (fs, .error (.buildMem, e)) := by
  have hph : phases .init sc = some .done := by simpa [standardShape] using hs
  obtain ⟨a, b⟩ := exec_standard obj fs path t0 t h1 h2 h3 h4 sc .init (.inl rfl) hph
  simp only [stateAt, h5] at a b
  simp only [run, a, b]

/-! ### the two earlier orders, kept as witnesses -/

/-- The order the library had before the F2 fix (`validate; with open: get_parser; serialize; build_file`) does not
have the safe shape, and the model exhibits the damage: a nested validator refuses inside `serialize`, the good copy
at the destination is gone (empty file), and on a fresh path an empty file has appeared. -/
theorem C18_counterexample :
    noFallibleAfterOpen [.validate, .openW, .getParser, .serialize, .buildFile] = false
    ∧ ∃ (obj : DumpObj) (fs : FS) (path : Path),
        (run [.validate, .openW, .getParser, .serialize, .buildFile] obj fs path).2 = .error (.serialize, .valueError)
        ∧ fs path = some "good".toList
        ∧ (run [.validate, .openW, .getParser, .serialize, .buildFile] obj fs path).1 path = some []
        ∧ (run [.validate, .openW, .getParser, .serialize, .buildFile] obj (fun _ => none) path).1 path = some [] := by
  refine ⟨by decide, { serialize := .error .valueError }, (fun _ => some "good".toList), "p".toList, ?_, rfl, ?_, ?_⟩
    <;> simp [run, exec, step, liftErr, FS.write]

/-- The order between the F2 and the F19 fix (`validate; get_parser; serialize; with open: build_file`) is not safe
either – the encoder runs on the opened destination – and the model exhibits finding F19: everything validates,
`json.dump` gives up after one character, the good copy is replaced by `{` and a fresh path holds `{`. -/
theorem C18_preF19_witness :
    noFallibleAfterOpen preF19Shape = false ∧ standardShape preF19Shape = false
    ∧ ∃ (obj : DumpObj) (fs : FS) (path : Path),
        (run preF19Shape obj fs path).2 = .error (.buildFile, .typeError)
        ∧ fs path = some "good".toList
        ∧ (run preF19Shape obj fs path).1 path = some "{".toList
        ∧ (run preF19Shape obj (fun _ => none) path).1 path = some "{".toList := by
  refine ⟨by decide, by decide, { serialize := .ok "{}".toList, buildFail := some (1, .typeError) },
    (fun _ => some "good".toList), "p".toList, ?_, rfl, ?_, ?_⟩
    <;> simp [preF19Shape, run, exec, step, liftErr, FS.write]

/-- A removal of the destination before the work is done (seeded change C18-t4a: "break the hardlink" right after the
top-level `validate()`) does not have the safe shape either: a nested validator refuses inside `serialize` and the
last good copy is gone from the path. -/
theorem C18_unlink_witness :
    noFallibleAfterOpen [.validate, .unlink, .getParser, .serialize, .newBuf, .buildMem, .openW, .writeBuf] = false
    ∧ ∃ (obj : DumpObj) (fs : FS) (path : Path),
        (run [.validate, .unlink, .getParser, .serialize, .newBuf, .buildMem, .openW, .writeBuf] obj fs path).2
            = .error (.serialize, .valueError)
        ∧ fs path = some "good".toList
        ∧ (run [.validate, .unlink, .getParser, .serialize, .newBuf, .buildMem, .openW, .writeBuf] obj fs path).1 path = none := by
  refine ⟨by decide, { serialize := .error .valueError }, (fun _ => some "good".toList), "p".toList, ?_, rfl, ?_⟩
    <;> simp [run, exec, step, liftErr]

/-- Reading the written file back inside `dump` (seeded change C18-u5a) is a second validation pass AFTER the
destination has been replaced: an object every writer accepts but the reader refuses makes the dump fail with the
good copy already overwritten. -/
theorem C18_readback_witness :
    noFallibleAfterOpen [.validate, .getParser, .serialize, .newBuf, .buildMem, .openW, .writeBuf, .readBack] = false
    ∧ ∃ (obj : DumpObj) (fs : FS) (path : Path),
        (run [.validate, .getParser, .serialize, .newBuf, .buildMem, .openW, .writeBuf, .readBack] obj fs path).2
            = .error (.readBack, .valueError)
        ∧ fs path = some "good".toList
        ∧ (run [.validate, .getParser, .serialize, .newBuf, .buildMem, .openW, .writeBuf, .readBack] obj fs path).1 path
            = some "unreadable".toList := by
  refine ⟨by decide, { serialize := .ok "unreadable".toList, readBack := .error .valueError },
    (fun _ => some "good".toList), "p".toList, ?_, rfl, ?_⟩ <;> simp [run, exec, step, liftErr, FS.write]

/-! ### non-vacuity -/
example : noFallibleAfterOpen [.validate, .getParser, .serialize, .newBuf, .buildMem, .openW, .writeBuf] = true := by decide
example : ∃ obj : DumpObj, ∃ fs path eff e, (run Gen.dumpScript_MetadataBase obj fs path).2 = .error (eff, e) ∧ eff ≠ .writeBuf :=
  ⟨{ serialize := .error .valueError }, fun _ => none, [], .serialize, .valueError, rfl, by decide⟩
example : (Sect.node [.ok ()] [.node [.ok (), .error .typeError] []]).check = .error .typeError := rfl
example : standardShape [.getParser, .validate, .serialize, .newBuf, .buildMem, .openW, .writeBuf] = true := by decide
example : standardShape [.validate, .openW, .getParser, .serialize, .buildFile] = false := by decide
example : ∃ obj : DumpObj, obj.buildFail = some (1, .typeError) ∧ obj.serialize = .ok "{}".toList :=
  ⟨{ serialize := .ok "{}".toList, buildFail := some (1, .typeError) }, rfl, rfl⟩
example : (run Gen.dumpScript_TreeInfo { serialize := .ok "x".toList, buildFail := some (0, .typeError) }
    (fun _ => some "good".toList) "p".toList).1 "p".toList = some "good".toList := by rfl

end PM
