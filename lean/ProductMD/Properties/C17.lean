import ProductMD.Proofs.TreeInfoDoc
import ProductMD.Proofs.C17General
import ProductMD.Model.TreeInfoText
import ProductMD.Proofs.TextOKDecide
import ProductMD.Proofs.C17Legacy
import ProductMD.Proofs.C17LegacySame
import ProductMD.Proofs.C17RelPaths
import ProductMD.Proofs.TreeInfoDecEq
import ProductMD.Proofs.C05WitnessTI
/-!
# C17 — the legacy `[general]` section mirrors the authoritative sections

`Ini.opt d s k` is the value stored under option `k` of section `s` of the written document `d`
(`parser.get(s, k)` returns it: `C17_get_of_opt`).  The theorem is about the document `TreeInfo.dump` hands to
`SortedConfigParser.write`, for every tree and every `main_variant` the writer accepts — any number of variants,
any nesting, integer or float timestamp (the float's `int()` is carried by its token).
-/
namespace PM
open Ini TI

theorem C17_get_of_opt (d : Ini) (s k v : Str) (h : opt d s k = some v) : Ini.get d s k = .ok v := by
  unfold opt at h
  unfold Ini.get
  cases hl : d.lookup s with
  | none => simp [hl] at h
  | some o =>
    simp only [hl, Option.bind_some] at h
    simp [h]

private theorem lookup_general (t : TreeInfo) (g : IniSec) : (docList t g).lookup sGeneral = some g := by
  rw [docList_lookup_fixed t g sGeneral (by decide) (by decide)]
  simp [fixedList, lookup_cons_eq]

private theorem lookup_release (t : TreeInfo) (g : IniSec) :
    (docList t g).lookup sRelease = some (releaseOpts t.release t.isLayered) := by
  rw [docList_lookup_fixed t g sRelease (by decide) (by decide)]
  simp only [fixedList, List.lookup_append, optSec_lookup_ne _ sMedia sRelease _ (by decide),
    optSec_lookup_ne _ sStage2 sRelease _ (by decide), optSec_lookup_ne _ sChecksums sRelease _ (by decide),
    baseL_lookup_ne t sRelease (by decide)]
  have h1 : ¬ sGeneral = sRelease := by decide
  have h2 : ¬ sTree = sRelease := by decide
  simp [lookup_cons_eq, h1, h2]

private theorem lookup_tree (t : TreeInfo) (g : IniSec) : (docList t g).lookup sTree = some (treeOptsFull t) := by
  rw [docList_lookup_fixed t g sTree (by decide) (by decide)]
  simp only [fixedList, List.lookup_append, optSec_lookup_ne _ sMedia sTree _ (by decide),
    optSec_lookup_ne _ sStage2 sTree _ (by decide), optSec_lookup_ne _ sChecksums sTree _ (by decide)]
  have h1 : ¬ sGeneral = sTree := by decide
  simp [lookup_cons_eq, h1]

/-- **The `src` fallback is for `src` trees only** (obligation on the generated facts).  The branches of `General.serialize`
that write `packagedir` / `repository`, as the translator reads them from the source on every run: each option is the
variant's `packages` / `repository` path, and falls back to `source_packages` / `source_repository` exactly when `tree.arch` is
one of the listed constants — which must be `src` and nothing else; no other statement of the function looks at
`tree.arch` or at a path.  `generalPath` (in `Mirrors` below) consults these generated constants. -/
theorem C17_src_fallback_documented :
    Gen.TREEINFO_GENERAL_PATH_BRANCHES =
      [("packagedir".toList, "packages".toList, "source_packages".toList, ["src".toList]),
       ("repository".toList, "repository".toList, "source_repository".toList, ["src".toList])]
    ∧ Gen.TREEINFO_GENERAL_PATH_BRANCHES_EXACT = true := by decide

/-- …hence `generalPath` is what the property text says: the path, else — in a tree whose arch is exactly `src` — the source path -/
theorem C17_generalPath_plain (arch : Str) (paths : List (Str × Str)) :
    generalPath arch paths "packages".toList "source_packages".toList =
      (match paths.lookup "packages".toList with
       | some p => some p
       | none => if arch = "src".toList then paths.lookup "source_packages".toList else none) ∧
    generalPath arch paths "repository".toList "source_repository".toList =
      (match paths.lookup "repository".toList with
       | some p => some p
       | none => if arch = "src".toList then paths.lookup "source_repository".toList else none) := by
  have a1 : srcFallbackArches "packages".toList "source_packages".toList = ["src".toList] := by decide
  have a2 : srcFallbackArches "repository".toList "source_repository".toList = ["src".toList] := by decide
  have hc : ∀ a : Str, (["src".toList].contains a) = decide (a = "src".toList) := by
    intro a
    rw [List.contains_cons, List.contains_nil, Bool.or_false]
    by_cases h : a = "src".toList
    · subst h; rfl
    · rw [decide_eq_false h]; exact beq_eq_false_iff_ne.mpr h
  unfold generalPath
  rw [a1, a2, hc]
  constructor
  · cases paths.lookup "packages".toList with
    | some p => rfl
    | none => simp only [decide_eq_true_eq]
  · cases paths.lookup "repository".toList with
    | some p => rfl
    | none => simp only [decide_eq_true_eq]

/-- what the property says of a document `d` written for tree `t` with requested main variant `mv`:
family, version, name, arch, platforms of `[general]` equal `[release]` name / version, `"<name> <version>"`, `[tree]`
arch / platforms; `timestamp` is the decimal form of `int(build_timestamp)` while `[tree] build_timestamp` is
`str(build_timestamp)`; `variant` is the requested main variant, else the first *container key* in sorted order (`chosenKey`),
`variants` the sorted container keys; `packagedir` / `repository` are the `packages` / `repository` paths of the variant that
key designates (`getItem`), in a `src` tree falling back to `source_packages` / `source_repository` (`generalPath`), and are
absent exactly when that yields nothing. -/
def Mirrors (t : TreeInfo) (mv : Option Str) (d : Ini) : Prop :=
    ∃ n key v, t.tree.ts.toInt = .ok n ∧ chosenKey t.variants mv = .ok key ∧ getItem (key.length + 1) t.variants key = .ok v ∧
      opt d sGeneral kFamily = opt d sRelease kName ∧ opt d sRelease kName = some t.release.name ∧
      opt d sGeneral kVersion = opt d sRelease kVersion ∧ opt d sRelease kVersion = some t.release.version ∧
      opt d sGeneral kName = some (t.release.name ++ ' ' :: t.release.version) ∧
      opt d sGeneral kArch = opt d sTree kArch ∧ opt d sTree kArch = some t.tree.arch ∧
      opt d sGeneral kPlatforms = opt d sTree kPlatforms ∧ opt d sTree kPlatforms = some (platformsStr t.tree) ∧
      opt d sGeneral kTimestamp = some (Str.intStr n) ∧ opt d sTree kBuildTs = some t.tree.ts.str ∧
      opt d sGeneral tVariant = some key ∧
      opt d sGeneral kVariants = some (Str.joinWith ',' (Ini.sortS (t.variants.map Variant.key))) ∧
      opt d sGeneral kPackagedir = generalPath t.tree.arch v.paths "packages".toList "source_packages".toList ∧
      opt d sGeneral kRepository = generalPath t.tree.arch v.paths "repository".toList "source_repository".toList

/-- **C17, on the document.**  For every tree `t` and requested main variant `mv` that `dump` accepts, the written document
mirrors the authoritative sections in `[general]` (`Mirrors`, spelled out above) — any number of variants, any nesting,
integer or float timestamp. -/
theorem C17_mirror (t : TreeInfo) (mv : Option Str) (d : Ini) (h : serialize t mv = .ok d) : Mirrors t mv d := by
  obtain ⟨n, key, v, w⟩ := serialize_spec h
  refine ⟨n, key, v, w.hn, w.hkey, w.hchosen, ?_⟩
  have hG : d.lookup sGeneral = some (generalOpts t n key v) := by rw [w.look, lookup_general]
  have hR : d.lookup sRelease = some (releaseOpts t.release t.isLayered) := by rw [w.look, lookup_release]
  have hT : d.lookup sTree = some (treeOptsFull t) := by rw [w.look, lookup_tree]
  simp only [opt, hG, hR, hT, Option.bind_some]
  have hb : ∀ k, k ≠ kWarn0 → k ≠ kWarn1 → (generalBase t).lookup k =
      if kPlatforms = k then some (platformsStr t.tree) else if kArch = k then some t.tree.arch
      else if kVersion = k then some t.release.version else if kFamily = k then some t.release.name
      else if kName = k then some (t.release.name ++ ' ' :: t.release.version) else none := by
    intro k h0 h1
    have h0' : ¬ kWarn0 = k := fun e => h0 e.symm
    have h1' : ¬ kWarn1 = k := fun e => h1 e.symm
    simp only [generalBase, setsKV, List.foldl, lookup_setKV, lookup_cons_eq, h0', h1', if_false, List.lookup]
  have hg : ∀ k, k ≠ kWarn0 → k ≠ kWarn1 → (generalOpts t n key v).lookup k =
      match (if kRepository = k then generalPath t.tree.arch v.paths "repository".toList "source_repository".toList else none) with
      | some p => some p
      | none =>
        match (if kPackagedir = k then generalPath t.tree.arch v.paths "packages".toList "source_packages".toList else none) with
        | some p => some p
        | none =>
          if tVariant = k then some key
          else if kVariants = k then some (Str.joinWith ',' (Ini.sortS (t.variants.map Variant.key)))
          else if kTimestamp = k then some (Str.intStr n) else (generalBase t).lookup k := by
    intro k h0 h1
    simp only [generalOpts]
    generalize generalPath t.tree.arch v.paths "packages".toList "source_packages".toList = pk
    generalize generalPath t.tree.arch v.paths "repository".toList "source_repository".toList = rp
    cases pk <;> cases rp <;> simp only [withOpt, lookup_setKV] <;>
      by_cases e1 : kRepository = k <;> by_cases e2 : kPackagedir = k <;> simp [e1, e2]
  have key_ne : ∀ {a b : Str}, (a == b) = false → ¬ a = b := fun h e => by simp [e] at h
  refine ⟨?_, ?_, ?_, ?_, ?_, ?_, ?_, ?_, ?_, ?_, ?_, ?_, ?_, ?_, ?_⟩
  all_goals
    cases hl : t.isLayered <;>
    simp (decide := true) [hg, hb, releaseOpts, treeOptsFull, treeOpts, lookup_setsKV, lookup_setKV, lookup_cons_eq, hl] <;>
    (generalize generalPath _ _ _ _ = x; cases x <;> rfl)

/-- only options that are not comment-named enter `Mirrors`, so it transfers to any document that agrees on those -/
theorem Mirrors.congr {t : TreeInfo} {mv : Option Str} {d d' : Ini} (he : ∀ s k, nc k = true → opt d' s k = opt d s k)
    (h : Mirrors t mv d) : Mirrors t mv d' := by
  obtain ⟨n, key, v, h1, h2, h3, m⟩ := h
  refine ⟨n, key, v, h1, h2, h3, ?_⟩
  rw [he sGeneral kFamily (by decide), he sRelease kName (by decide), he sGeneral kVersion (by decide), he sRelease kVersion (by decide),
    he sGeneral kName (by decide), he sGeneral kArch (by decide), he sTree kArch (by decide), he sGeneral kPlatforms (by decide),
    he sTree kPlatforms (by decide), he sGeneral kTimestamp (by decide), he sTree kBuildTs (by decide), he sGeneral tVariant (by decide),
    he sGeneral kVariants (by decide), he sGeneral kPackagedir (by decide), he sGeneral kRepository (by decide)]
  exact m

/-- **C17, on the bytes.**  The text `dumps()` returns, read by the INI reader model (`IniParse.parse`, CPython's
`configparser` as the library configures it, with blank predicate `sp`), is a document with the same mirror: the reader
inverts the writer (`Proofs/IniRoundTrip.lean`) and drops exactly the comment-named `; WARNING.n` lines of `[general]`
(`Proofs/IniTextTie.lean`).  `TextOK` (as in `C04_tree_text`): the written document is representable in the file syntax. -/
theorem C17_text (sp : Char → Bool) (hsp : IniParse.SpOK sp) (hh : sp '#' = false) (hs : sp ';' = false)
    (t : TreeInfo) (mv : Option Str) (text : Str) (h : dumps t mv = .ok text)
    (htext : ∀ d, serialize t mv = .ok d → TextOK sp d) :
    ∃ d', IniParse.parse sp text = .ok d' ∧ Mirrors t mv d' := by
  unfold dumps at h
  cases hser : serialize t mv with
  | error e => rw [hser] at h; cases h
  | ok d =>
    rw [hser] at h
    simp only [Except.map] at h
    injection h with h
    subst h
    obtain ⟨n0, key, chosen, w⟩ := serialize_spec hser
    obtain ⟨hnl, hrep⟩ := htext d hser
    refine ⟨readDoc d, ?_, (C17_mirror t mv d hser).congr (fun s k hk => opt_readDoc d s k hk)⟩
    rw [render_eq_canon d w.view.noDefault]
    exact IniParse.parse_render_dropComments hsp hh hs _ hnl hrep

/-- `C17_text` for CPython's `str.isspace`, with the decidable representability criterion the driver evaluates -/
theorem C17_text_py (t : TreeInfo) (mv : Option Str) (text : Str) (h : dumps t mv = .ok text)
    (hrep : ∀ d, serialize t mv = .ok d → IniText.Representable d = true) :
    ∃ d', IniParse.parse Str.isPySpace text = .ok d' ∧ Mirrors t mv d' :=
  C17_text Str.isPySpace spOK_py py_hash py_semi t mv text h (fun d hd => textOK_of_representable d (hrep d hd))

/-- **Platforms always include the tree architecture.**  `[tree] platforms`, hence `[general] platforms`, is the comma list
of a strictly increasing list `L` (sorted, no duplicates) whose members are exactly the platforms of the tree and its
architecture. -/
theorem C17_platforms_include_arch (t : TreeInfo) (mv : Option Str) (d : Ini) (h : serialize t mv = .ok d) :
    ∃ L : List Str, opt d sTree kPlatforms = some (Str.joinWith ',' L) ∧ opt d sGeneral kPlatforms = some (Str.joinWith ',' L) ∧
      t.tree.arch ∈ L ∧ L.Pairwise (fun a b => a < b) ∧ ∀ p, p ∈ L ↔ (p ∈ t.tree.platforms ∨ p = t.tree.arch) := by
  obtain ⟨n, key, v, _, _, _, _, _, _, _, _, _, _, hgp, htp, _⟩ := C17_mirror t mv d h
  refine ⟨Str.sortDedup (t.tree.platforms ++ [t.tree.arch]), htp, by rw [hgp]; exact htp, ?_, sortDedup_sorted _, ?_⟩
  · rw [mem_sortDedup]; simp
  · intro p; rw [mem_sortDedup]; simp

/-- **A requested main variant must designate a variant.**  If `dump(main_variant=mv)` succeeds, `mv` is written as
`[general] variant` and designates a variant of the tree the way `VariantBase.__getitem__` resolves names: a top-level
container key; or, only for a name containing `-` that is no key, the UID of a top-level variant, or a dashed path
`<top-level key>-<rest>` into the children.  A name without a dash therefore IS a top-level container key. -/
theorem C17_main_variant (t : TreeInfo) (mv : Str) (d : Ini) (h : serialize t (some mv) = .ok d) :
    opt d sGeneral tVariant = some mv ∧ ∃ v, Designates t.variants mv v ∧
      (mv.contains '-' = false → v ∈ t.variants ∧ v.key = mv) := by
  obtain ⟨n, key, v, _, hkey, hget, _, _, _, _, _, _, _, _, _, _, _, hvar, _⟩ := C17_mirror t (some mv) d h
  have e : key = mv := by simp only [chosenKey] at hkey; injection hkey with e; exact e.symm
  subst e
  exact ⟨hvar, v, getItem_designates _ _ _ _ hget, fun hd => getItem_dashless _ _ _ _ hd hget⟩

/-- …and a name that designates nothing is refused: the dump cannot succeed, and the lookup itself fails with `KeyError`
(never by running out of fuel) -/
theorem C17_main_variant_refused (t : TreeInfo) (mv : Str) (e : Err)
    (hno : getItem (mv.length + 1) t.variants mv = .error e) : e = .keyError ∧ ∀ d, serialize t (some mv) ≠ .ok d := by
  refine ⟨getItem_error _ _ _ _ (by omega) hno, ?_⟩
  intro d h
  obtain ⟨n, key, v, _, hkey, hget, _⟩ := C17_mirror t (some mv) d h
  have e' : key = mv := by simp only [chosenKey] at hkey; injection hkey with e'; exact e'.symm
  subst e'
  rw [hno] at hget; cases hget

/-- **The default main variant is the least container key** in Python's string order (code points): it is the key of a
top-level variant and every other key is `≥` it; there is none exactly when the tree has no variants (`IndexError`). -/
theorem C17_default_main_variant (tops : List Variant) :
    (∀ k, chosenKey tops none = .ok k → (∃ v ∈ tops, v.key = k) ∧ ∀ v ∈ tops, k ≤ v.key) ∧
    (tops = [] ↔ chosenKey tops none = .error .indexError) := by
  constructor
  · intro k hk
    simp only [chosenKey] at hk
    cases hs : sortS (tops.map Variant.key) with
    | nil => rw [hs] at hk; cases hk
    | cons k0 r =>
      rw [hs] at hk
      injection hk with e; subst e
      obtain ⟨hm, hmin⟩ := sortS_head_min _ _ _ hs
      obtain ⟨v, hv, hvk⟩ := List.mem_map.mp hm
      exact ⟨⟨v, hv, hvk⟩, fun w hw => hmin _ (List.mem_map.mpr ⟨w, hw, rfl⟩)⟩
  · constructor
    · intro e; subst e; rfl
    · intro h
      simp only [chosenKey] at h
      cases hs : sortS (tops.map Variant.key) with
      | nil =>
        have := (sortBy_eq_nil id _).mp hs
        simpa using this
      | cons k0 r => rw [hs] at h; cases h

/-! ### the last sentence: a pre-productmd reader given only the compatibility sections

Stand-in for "a pre-productmd reader": the library's own reader for files without `[header]` (`Legacy.deserialize`, which
then takes header version 0.0; `Model/TreeInfoLegacy.lean`, tied to `treeinfo.py` by the C05 correspondence and by the
`legacy` observation of `harness/props/c17.py`).  It is handed the written document restricted to `compatDoc`: exactly
`[general]`, `[stage2]`, `[checksums]` and every `[images-*]` — the sections a pre-productmd file has.  Of these the 0.0
reader consults: `[general] family, version, arch, timestamp, variant, repository, packagedir` (and looks in vain for
`addons, packages, packagedirs, identity, discnum, totaldiscs`), the `images-*` section NAMES for the platform list, all of
`[stage2]`, `[checksums]`, `[images-*]`.  It does NOT read `[general] name, platforms, variants`.

What it yields is `legacyTree` (`Proofs/C17Legacy.lean`): release name / version through the family table and the
version heuristic of `Release.deserialize_0_0` (`legacyRelease`), the tree architecture, the integer timestamp, the
platform list "architecture + one per images section" (`legacyPlatforms`), ONE variant whose id = uid = name is
`[general] variant` with the paths `VariantPaths.deserialize_0_0` computes from `[general] repository / packagedir`
(`legacyPathVals`), checksums, images, stage2 as in C04, no media.  `C17_legacy_same` below says when that is "the same
tree". -/

/-- the side conditions of `C17_legacy_reader_partial` on the tree and the variant name in `[general]` — all decidable -/
structure LegacyOK (t : TreeInfo) (key : Str) : Prop where
  /-- the name is not empty (else the reader guesses a variant from the release short name) -/
  key_ne : key ≠ []
  /-- …and has no dash: a dashed name (a child designated by its path, or a dashed top-level UID) is split at the last dash
  into id ≠ uid, which `Variant.validate` refuses for a variant without parent (`C17_legacy_dashed_refused`) -/
  key_dashless : '-' ∉ key
  /-- the architecture is not itself the name of a kept section (the reader would read `platforms` from that section) -/
  arch : compatSec t.tree.arch = false
  /-- the RHEL 5 addon table does not apply (it invents children `Cluster`, `VT`, … for `Server` / `Client`) -/
  rhel5 : Legacy.rhel5Addons (legacyCtx t) key [] = []
  /-- `instimage` is not an absolute path: the 0.0 `_fix_path` cuts those (`C17_legacy_absolute_instimage_cut`).  Checksum
  paths, image paths and `mainimage` need no such condition: the writer's own `validate()` refuses absolute ones
  (`relPaths_of_written`, from the generated validators). -/
  instimage : ∀ p, t.instimage = some p → RelPath p

/-- on the written document itself -/
theorem C17_legacy_reader_doc_partial (fo : FloatOracle) (t : TreeInfo) (mv : Option Str) (d : Ini) (n n' : Int) (key : Str)
    (chosen : Variant) (h : serialize t mv = .ok d)
    (hn : t.tree.ts.toInt = .ok n) (hkey : chosenKey t.variants mv = .ok key)
    (hch : getItem (key.length + 1) t.variants key = .ok chosen)
    (hfl : fo.intOfFloatStr (Str.intStr n) = .ok n') (hok : LegacyOK t key)
    (hcs : ChecksumsOK t.checksums) (himg : ImagesOK t.tree.arch t.images)
    (hvr : validateClass "treeinfo.Release" (releaseObj (legacyRelease t) false) = .ok ())
    (hv : ReadValid (legacyTree t n' key chosen)) :
    Legacy.deserialize fo (compatDoc d) = .ok (legacyTree t n' key chosen) := by
  obtain ⟨n0, key0, chosen0, w⟩ := serialize_spec h
  have e1 : n0 = n := by have := w.hn; rw [hn] at this; injection this with this; exact this.symm
  have e2 : key0 = key := by have := w.hkey; rw [hkey] at this; injection this with this; exact this.symm
  subst e1 e2
  have e3 : chosen0 = chosen := by have := w.hchosen; rw [hch] at this; injection this with this; exact this.symm
  subst e3
  exact legacy_of_view fo t mv d d n0 n' key0 chosen0 w w.view hfl hok.key_ne hok.key_dashless hok.arch hok.rhel5 hcs himg
    (relPaths_of_written (serialize_valid h) hok.instimage) (fun _ => trivial) (fun _ _ => trivial) hvr hv

/-- **C17, the pre-productmd reader (partial).**  The bytes `dumps()` returns, read by the INI reader model, restricted to
the compatibility sections and handed to the 0.0 reader, yield `legacyTree`.  Hypotheses: the text-level ones of
`C04_tree_text` (`TextOK`, no comment-named checksum path / image name, `ChecksumsOK`, `ImagesOK`); `n` is
`int(build_timestamp)`, `key` the variant `[general]` names and `chosen` the variant it designates (all three are
determined by `t` and `mv`); `n'` is what `int(float(str(n)))` gives (`n' = n` up to 2^53, F17); `LegacyOK`; the tree
the reader is to return passes the `validate()` calls the reader makes (`hvr`, `hv` — this is where a timestamp `0` is
refused, `C17_legacy_zero_timestamp_refused`). -/
theorem C17_legacy_reader_partial (sp : Char → Bool) (hsp : IniParse.SpOK sp) (hh : sp '#' = false) (hs : sp ';' = false)
    (fo : FloatOracle) (t : TreeInfo) (mv : Option Str) (text : Str) (n n' : Int) (key : Str) (chosen : Variant)
    (h : dumps t mv = .ok text) (htext : ∀ d, serialize t mv = .ok d → TextOK sp d)
    (hn : t.tree.ts.toInt = .ok n) (hkey : chosenKey t.variants mv = .ok key)
    (hch : getItem (key.length + 1) t.variants key = .ok chosen)
    (hfl : fo.intOfFloatStr (Str.intStr n) = .ok n') (hok : LegacyOK t key)
    (hck : ∀ c ∈ t.checksums, nc c.1 = true) (himn : ∀ p ∈ t.images, ∀ kv ∈ p.2, nc kv.1 = true)
    (hcs : ChecksumsOK t.checksums) (himg : ImagesOK t.tree.arch t.images)
    (hvr : validateClass "treeinfo.Release" (releaseObj (legacyRelease t) false) = .ok ())
    (hv : ReadValid (legacyTree t n' key chosen)) :
    ∃ d', IniParse.parse sp text = .ok d' ∧ Legacy.deserialize fo (compatDoc d') = .ok (legacyTree t n' key chosen) := by
  unfold dumps at h
  cases hser : serialize t mv with
  | error e => rw [hser] at h; cases h
  | ok d =>
    rw [hser] at h
    simp only [Except.map] at h
    injection h with h
    subst h
    obtain ⟨n0, key0, chosen0, w⟩ := serialize_spec hser
    have e1 : n0 = n := by have := w.hn; rw [hn] at this; injection this with this; exact this.symm
    have e2 : key0 = key := by have := w.hkey; rw [hkey] at this; injection this with this; exact this.symm
    subst e1 e2
    have e3 : chosen0 = chosen := by have := w.hchosen; rw [hch] at this; injection this with this; exact this.symm
    subst e3
    obtain ⟨hnl, hrep⟩ := htext d hser
    refine ⟨readDoc d, ?_, ?_⟩
    · rw [render_eq_canon d w.view.noDefault]
      exact IniParse.parse_render_dropComments hsp hh hs _ hnl hrep
    · refine legacy_of_view fo t mv d (readDoc d) n0 n' key0 chosen0 w (view_readDoc w.view) hfl hok.key_ne hok.key_dashless
        hok.arch hok.rhel5 hcs himg (relPaths_of_written (serialize_valid hser) hok.instimage) ?_ ?_ hvr hv
      · intro _ kv hkv
        rw [checksumOpts_eq _ hcs.1] at hkv
        obtain ⟨c, hc, rfl⟩ := List.mem_map.mp hkv
        exact hck c hc
      · intro p hp kv hkv
        rw [setsKV_nil_nodup _ (himg.1 p hp)] at hkv
        exact himn p hp kv hkv

/-- **When that is "the same tree".**  Of `legacyTree`: architecture and integer timestamp are the tree's; the platforms
are the architecture and the platforms that have images (a platform without images is not seen: `[general] platforms` is
not read); there is exactly ONE variant and its id = uid = name is the `[general] variant`; the release name is the
tree's whenever the family table leaves it alone, the version whenever it has no `-` / `_`; checksums, images, stage2 are
what the current reader returns (C04); there is no media. -/
theorem C17_legacy_same (t : TreeInfo) (n : Int) (key : Str) (chosen : Variant) :
    (legacyTree t n key chosen).tree.arch = t.tree.arch ∧ (legacyTree t n key chosen).tree.ts = .int n ∧
    (∀ p, p ∈ (legacyTree t n key chosen).tree.platforms ↔ p = t.tree.arch ∨ p ∈ t.images.map (·.1)) ∧
    (∃ paths, (legacyTree t n key chosen).variants = [.mk key key key key tVariant paths []]) ∧
    ((Legacy.releaseShort00 t.release.name).1 = t.release.name → (legacyTree t n key chosen).release.name = t.release.name) ∧
    ((∀ c ∈ t.release.version, c ≠ '-' ∧ c ≠ '_') → (legacyTree t n key chosen).release.version = t.release.version) ∧
    (legacyTree t n key chosen).checksums = (norm t).checksums ∧ (legacyTree t n key chosen).images = (norm t).images ∧
    (legacyTree t n key chosen).mainimage = (norm t).mainimage ∧ (legacyTree t n key chosen).instimage = (norm t).instimage ∧
    (legacyTree t n key chosen).discnum = none ∧ (legacyTree t n key chosen).totaldiscs = none :=
  ⟨rfl, rfl, mem_legacyPlatforms t, ⟨_, rfl⟩, fun h => h, fun h => legacyVersion_plain _ h, rfl, rfl, rfl, rfl, rfl, rfl⟩

/-- **…and its paths.**  Outside the RHEL / Fedora special cases (`short` from the family table is neither), when
`[general]` carries clean `repository = r` and `packagedir = p` (not empty, no trailing `/`, not ending in `/repodata`):
the one variant has `packages = p`, `repository = r` — in a `src` tree `source_packages = p`, `source_repository = r` —
and no other path.  By `C17_mirror`, `p` / `r` are the `packages` / `repository` paths of the designated variant, in a
`src` tree falling back to its `source_*` paths. -/
theorem C17_legacy_paths (t : TreeInfo) (n : Int) (key r p : Str) (chosen : Variant)
    (h1 : (Legacy.releaseShort00 t.release.name).2 ≠ Legacy.sRHEL) (h2 : (Legacy.releaseShort00 t.release.name).2 ≠ Legacy.sFedora)
    (hr : generalPath t.tree.arch chosen.paths "repository".toList "source_repository".toList = some r)
    (hp : generalPath t.tree.arch chosen.paths "packages".toList "source_packages".toList = some p)
    (cr : CleanPath r) (cp : CleanPath p) :
    (legacyTree t n key chosen).variants = [.mk key key key key tVariant
      (if t.tree.arch == Legacy.sSrc then [(Legacy.kSourcePackages, p), (Legacy.kSourceRepository, r)]
       else [(Legacy.kPackages, p), (kRepository, r)]) []] := by
  have := legacyPaths_plain (legacyCtx t) key r p h1 h2 cr cp
  simp only [legacyTree, legacyVariant, hr, hp, this]
  rfl

/-! ### the side conditions are necessary: decided witnesses (both replayed on the real code, `harness/props/c17.py`) -/

/-- a float timestamp below 1: `int()` makes it `0`, `[general] timestamp = 0`, and the 0.0 reader refuses the tree
("build_timestamp must not be blank") although every other side condition holds -/
def C17_wZero : TreeInfo :=
  { headerVersion := "0.0".toList, release := ⟨"Foo".toList, "F".toList, "1.0".toList⟩, isLayered := false, baseProduct := none,
    tree := ⟨"x86_64".toList, .float "0.5".toList (.ok 0), []⟩,
    variants := [.mk "Server".toList "Server".toList "Server".toList "Server".toList "variant".toList
                    [("packages".toList, "Packages".toList), ("repository".toList, "repo".toList)] []],
    checksums := [], images := [], mainimage := none, instimage := none, discnum := none, totaldiscs := none }

theorem C17_legacy_zero_timestamp_refused :
    (match serialize C17_wZero none with
     | .ok d => (opt d sGeneral kTimestamp == some "0".toList) &&
                (match Legacy.deserialize intOracle (compatDoc d) with | .error .valueError => true | _ => false)
     | .error _ => false) = true := by decide +kernel

example : LegacyOK C17_wZero "Server".toList :=
  ⟨by decide, by decide, by decide +kernel, by decide +kernel, by simp [C17_wZero]⟩

/-- a main variant designated by a dashed path (a child): `dump` accepts it, `[general] variant = Server-HA`, and the 0.0
reader refuses the tree (id `HA` ≠ uid `Server-HA` in a variant without parent) -/
def C17_exTree' : TreeInfo :=
  { headerVersion := "0.0".toList, release := ⟨"Foo".toList, "F".toList, "21".toList⟩, isLayered := false, baseProduct := none,
    tree := ⟨"x86_64".toList, .int 1417653911, ["xen".toList]⟩,
    variants := [.mk "Server".toList "Server".toList "Server".toList "Server".toList "variant".toList
                    [("packages".toList, "Packages".toList), ("repository".toList, "repo".toList)]
                    [.mk "HA".toList "HA".toList "Server-HA".toList "HA".toList "addon".toList [] []],
                 .mk "Client".toList "Client".toList "Client".toList "Client".toList "variant".toList
                    [("packages".toList, "Client/Packages".toList), ("repository".toList, "Client".toList)] []],
    checksums := [("images/boot.iso".toList, "sha256".toList, "00".toList)],
    images := [("xen".toList, [("kernel".toList, "images/xen/vmlinuz".toList)])],
    mainimage := some "images/install.img".toList, instimage := none, discnum := some 1, totaldiscs := some 2 }

theorem C17_legacy_dashed_refused :
    (match serialize C17_exTree' (some "Server-HA".toList) with
     | .ok d => (opt d sGeneral tVariant == some "Server-HA".toList) &&
                (match Legacy.deserialize intOracle (compatDoc d) with | .error .valueError => true | _ => false)
     | .error _ => false) = true := by decide +kernel

/-- an absolute `instimage` (the one path the writer does not validate) is written as it stands and the 0.0 reader cuts it
after the first `/os/`: it sees `images/install.img` where the tree says `/mnt/os/images/install.img` -/
theorem C17_legacy_absolute_instimage_cut :
    (match serialize { C17_exTree' with instimage := some "/mnt/os/images/install.img".toList } none with
     | .ok d => (opt d sStage2 kInstimage == some "/mnt/os/images/install.img".toList) &&
                (match Legacy.deserialize intOracle (compatDoc d) with
                 | .ok lt => lt.instimage == some "images/install.img".toList
                 | _ => false)
     | .error _ => false) = true := by decide +kernel

/-! ### non-vacuity: a `src` tree with a nested addon, only source paths, media -/
def C17_exTree : TreeInfo :=
  { headerVersion := "0.0".toList, release := ⟨"Fedora".toList, "F".toList, "21".toList⟩, isLayered := false, baseProduct := none,
    tree := ⟨"src".toList, .float "1417653911.75".toList (.ok 1417653911), ["xen".toList]⟩,
    variants := [.mk "Server".toList "Server".toList "Server".toList "Server".toList "variant".toList
                    [("source_packages".toList, "Packages".toList)]
                    [.mk "HA".toList "HA".toList "Server-HA".toList "HA".toList "addon".toList [] []],
                 .mk "Client".toList "Client".toList "Client".toList "Client".toList "variant".toList [] []],
    checksums := [], images := [], mainimage := none, instimage := none, discnum := some 1, totaldiscs := some 2 }

/-- the hypothesis of `C17_mirror` is satisfiable, and the mirror is what the property says: first key `Client`,
timestamp truncated, `src` fallback for the requested main variant -/
example : (serialize C17_exTree none).toBool = true := by decide +kernel
example : (serialize C17_exTree none).toOption.map (fun d => (opt d sGeneral tVariant, opt d sGeneral kTimestamp))
    = some (some "Client".toList, some "1417653911".toList) := by decide +kernel
example : (serialize C17_exTree (some "Server".toList)).toOption.map (fun d => opt d sGeneral kPackagedir)
    = some (some "Packages".toList) := by decide +kernel

/-- the text-level hypotheses hold of the example (representable document), and the conclusion evaluated on the bytes -/
example : (serialize C17_exTree none).toOption.map IniText.Representable = some true := by decide +kernel
example : ((dumps C17_exTree none).toOption.bind fun text => (IniParse.parse Str.isPySpace text).toOption.map fun d' =>
    (opt d' sGeneral tVariant, opt d' sGeneral kPlatforms, opt d' sTree kPlatforms))
    = some (some "Client".toList, some "src,xen".toList, some "src,xen".toList) := by decide +kernel
/-- a name that designates nothing is refused with `KeyError`; a dashed path designates a child -/
example : (match getItem 7 C17_exTree.variants "Nobody".toList with | .error .keyError => true | _ => false) = true := by decide +kernel
example : (serialize C17_exTree (some "Nobody".toList)).toBool = false ∧ (serialize C17_exTree (some "Server-HA".toList)).toBool = true := by
  decide +kernel

/-- non-vacuity of `C17_legacy_reader_partial`: on `C17_exTree'` (two variants, a child, extra platform with images, checksums,
stage2, media) with the default main variant the reader succeeds and returns `legacyTree`; the side conditions hold; the
paths are the designated variant's -/
example : (serialize C17_exTree' none).toOption.map (fun d => Legacy.deserialize intOracle (compatDoc d))
    = some (.ok (legacyTree C17_exTree' 1417653911 "Client".toList
        (.mk "Client".toList "Client".toList "Client".toList "Client".toList "variant".toList
          [("packages".toList, "Client/Packages".toList), ("repository".toList, "Client".toList)] []))) := by decide +kernel
/-- …and through the bytes (the conclusion of `C17_legacy_reader_partial` itself) -/
example : ((dumps C17_exTree' none).toOption.bind fun text => (IniParse.parse Str.isPySpace text).toOption.map fun d' =>
      Legacy.deserialize intOracle (compatDoc d'))
    = some (.ok (legacyTree C17_exTree' 1417653911 "Client".toList
        (.mk "Client".toList "Client".toList "Client".toList "Client".toList "variant".toList
          [("packages".toList, "Client/Packages".toList), ("repository".toList, "Client".toList)] []))) := by decide +kernel
example : LegacyOK C17_exTree' "Client".toList :=
  ⟨by decide, by decide, by decide +kernel, by decide +kernel, by simp [C17_exTree']⟩
example : (legacyTree C17_exTree' 1417653911 "Client".toList
        (.mk "Client".toList "Client".toList "Client".toList "Client".toList "variant".toList
          [("packages".toList, "Client/Packages".toList), ("repository".toList, "Client".toList)] [])).variants
    = [.mk "Client".toList "Client".toList "Client".toList "Client".toList "variant".toList
          [("packages".toList, "Client/Packages".toList), ("repository".toList, "Client".toList)] []] := by decide +kernel

end PM
