import ProductMD.Model.TreeInfo
/-! placeholder while the harness is brought up -/
namespace PM
theorem C17_placeholder : True := trivial
end PM
