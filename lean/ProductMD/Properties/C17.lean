import ProductMD.Proofs.TreeInfoDoc
/-!
# C17 — the legacy `[general]` section mirrors the authoritative sections

`Ini.opt d s k` is the value stored under option `k` of section `s` of the written document `d`
(`parser.get(s, k)` returns it: `C17_get_of_opt`).  The theorem is about the document `TreeInfo.dump` hands to
`SortedConfigParser.write`, for every tree and every `main_variant` the writer accepts — any number of variants,
any nesting, integer or float timestamp (the float's `int()` is carried by its token).
-/
namespace PM
open Ini TI

theorem C17_get_of_opt (d : Ini) (s k v : Str) (h : opt d s k = some v) : Ini.get d s k = .ok v := by
  unfold opt at h
  unfold Ini.get
  cases hl : d.lookup s with
  | none => simp [hl] at h
  | some o =>
    simp only [hl, Option.bind_some] at h
    simp [h]

private theorem lookup_general (t : TreeInfo) (g : IniSec) : (docList t g).lookup sGeneral = some g := by
  rw [docList_lookup_fixed t g sGeneral (by decide) (by decide)]
  simp [fixedList, lookup_cons_eq]

private theorem lookup_release (t : TreeInfo) (g : IniSec) :
    (docList t g).lookup sRelease = some (releaseOpts t.release t.isLayered) := by
  rw [docList_lookup_fixed t g sRelease (by decide) (by decide)]
  simp only [fixedList, List.lookup_append, optSec_lookup_ne _ sMedia sRelease _ (by decide),
    optSec_lookup_ne _ sStage2 sRelease _ (by decide), optSec_lookup_ne _ sChecksums sRelease _ (by decide),
    baseL_lookup_ne t sRelease (by decide)]
  have h1 : ¬ sGeneral = sRelease := by decide
  have h2 : ¬ sTree = sRelease := by decide
  simp [lookup_cons_eq, h1, h2]

private theorem lookup_tree (t : TreeInfo) (g : IniSec) : (docList t g).lookup sTree = some (treeOptsFull t) := by
  rw [docList_lookup_fixed t g sTree (by decide) (by decide)]
  simp only [fixedList, List.lookup_append, optSec_lookup_ne _ sMedia sTree _ (by decide),
    optSec_lookup_ne _ sStage2 sTree _ (by decide), optSec_lookup_ne _ sChecksums sTree _ (by decide)]
  have h1 : ¬ sGeneral = sTree := by decide
  simp [lookup_cons_eq, h1]

/-- **C17.**  For every tree `t` and requested main variant `mv` that `dump` accepts, with `d` the written document:
family, version, name, arch, platforms of `[general]` equal `[release]` name / version, `"<name> <version>"`, `[tree]`
arch / platforms; `timestamp` is the decimal form of `int(build_timestamp)` while `[tree] build_timestamp` is
`str(build_timestamp)`; `variant` is the requested main variant, else the first *container key* in sorted order (`chosenKey`),
`variants` the sorted container keys; `packagedir` / `repository` are the `packages` / `repository` paths of the variant that
key designates (`getItem`), in a `src` tree falling back to `source_packages` / `source_repository` (`generalPath`), and are
absent exactly when that yields nothing. -/
theorem C17_mirror (t : TreeInfo) (mv : Option Str) (d : Ini) (h : serialize t mv = .ok d) :
    ∃ n key v, t.tree.ts.toInt = .ok n ∧ chosenKey t.variants mv = .ok key ∧ getItem (key.length + 1) t.variants key = .ok v ∧
      opt d sGeneral kFamily = opt d sRelease kName ∧ opt d sRelease kName = some t.release.name ∧
      opt d sGeneral kVersion = opt d sRelease kVersion ∧ opt d sRelease kVersion = some t.release.version ∧
      opt d sGeneral kName = some (t.release.name ++ ' ' :: t.release.version) ∧
      opt d sGeneral kArch = opt d sTree kArch ∧ opt d sTree kArch = some t.tree.arch ∧
      opt d sGeneral kPlatforms = opt d sTree kPlatforms ∧ opt d sTree kPlatforms = some (platformsStr t.tree) ∧
      opt d sGeneral kTimestamp = some (Str.intStr n) ∧ opt d sTree kBuildTs = some t.tree.ts.str ∧
      opt d sGeneral tVariant = some key ∧
      opt d sGeneral kVariants = some (Str.joinWith ',' (Ini.sortS (t.variants.map Variant.key))) ∧
      opt d sGeneral kPackagedir = generalPath t.tree.arch v.paths "packages".toList "source_packages".toList ∧
      opt d sGeneral kRepository = generalPath t.tree.arch v.paths "repository".toList "source_repository".toList := by
  obtain ⟨n, key, v, w⟩ := serialize_spec h
  refine ⟨n, key, v, w.hn, w.hkey, w.hchosen, ?_⟩
  have hG : d.lookup sGeneral = some (generalOpts t n key v) := by rw [w.look, lookup_general]
  have hR : d.lookup sRelease = some (releaseOpts t.release t.isLayered) := by rw [w.look, lookup_release]
  have hT : d.lookup sTree = some (treeOptsFull t) := by rw [w.look, lookup_tree]
  simp only [opt, hG, hR, hT, Option.bind_some]
  have hb : ∀ k, k ≠ kWarn0 → k ≠ kWarn1 → (generalBase t).lookup k =
      if kPlatforms = k then some (platformsStr t.tree) else if kArch = k then some t.tree.arch
      else if kVersion = k then some t.release.version else if kFamily = k then some t.release.name
      else if kName = k then some (t.release.name ++ ' ' :: t.release.version) else none := by
    intro k h0 h1
    have h0' : ¬ kWarn0 = k := fun e => h0 e.symm
    have h1' : ¬ kWarn1 = k := fun e => h1 e.symm
    simp only [generalBase, setsKV, List.foldl, lookup_setKV, lookup_cons_eq, h0', h1', if_false, List.lookup]
  have hg : ∀ k, k ≠ kWarn0 → k ≠ kWarn1 → (generalOpts t n key v).lookup k =
      match (if kRepository = k then generalPath t.tree.arch v.paths "repository".toList "source_repository".toList else none) with
      | some p => some p
      | none =>
        match (if kPackagedir = k then generalPath t.tree.arch v.paths "packages".toList "source_packages".toList else none) with
        | some p => some p
        | none =>
          if tVariant = k then some key
          else if kVariants = k then some (Str.joinWith ',' (Ini.sortS (t.variants.map Variant.key)))
          else if kTimestamp = k then some (Str.intStr n) else (generalBase t).lookup k := by
    intro k h0 h1
    simp only [generalOpts]
    generalize generalPath t.tree.arch v.paths "packages".toList "source_packages".toList = pk
    generalize generalPath t.tree.arch v.paths "repository".toList "source_repository".toList = rp
    cases pk <;> cases rp <;> simp only [withOpt, lookup_setKV] <;>
      by_cases e1 : kRepository = k <;> by_cases e2 : kPackagedir = k <;> simp [e1, e2]
  have key_ne : ∀ {a b : Str}, (a == b) = false → ¬ a = b := fun h e => by simp [e] at h
  refine ⟨?_, ?_, ?_, ?_, ?_, ?_, ?_, ?_, ?_, ?_, ?_, ?_, ?_, ?_, ?_⟩
  all_goals
    cases hl : t.isLayered <;>
    simp (decide := true) [hg, hb, releaseOpts, treeOptsFull, treeOpts, lookup_setsKV, lookup_setKV, lookup_cons_eq, hl] <;>
    (generalize generalPath _ _ _ _ = x; cases x <;> rfl)

/-! ### non-vacuity: a `src` tree with a nested addon, only source paths, media -/
def C17_exTree : TreeInfo :=
  { headerVersion := "0.0".toList, release := ⟨"Fedora".toList, "F".toList, "21".toList⟩, isLayered := false, baseProduct := none,
    tree := ⟨"src".toList, .float "1417653911.75".toList (.ok 1417653911), ["xen".toList]⟩,
    variants := [.mk "Server".toList "Server".toList "Server".toList "Server".toList "variant".toList
                    [("source_packages".toList, "Packages".toList)]
                    [.mk "HA".toList "HA".toList "Server-HA".toList "HA".toList "addon".toList [] []],
                 .mk "Client".toList "Client".toList "Client".toList "Client".toList "variant".toList [] []],
    checksums := [], images := [], mainimage := none, instimage := none, discnum := some 1, totaldiscs := some 2 }

/-- the hypothesis of `C17_mirror` is satisfiable, and the mirror is what the property says: first key `Client`,
timestamp truncated, `src` fallback for the requested main variant -/
example : (serialize C17_exTree none).toBool = true := by decide +kernel
example : (serialize C17_exTree none).toOption.map (fun d => (opt d sGeneral tVariant, opt d sGeneral kTimestamp))
    = some (some "Client".toList, some "1417653911".toList) := by decide +kernel
example : (serialize C17_exTree (some "Server".toList)).toOption.map (fun d => opt d sGeneral kPackagedir)
    = some (some "Packages".toList) := by decide +kernel

end PM
