import ProductMD.Proofs.C10ImagesRefile
import ProductMD.Proofs.C10RpmsRefile
import ProductMD.Properties.C09
/-!
# C10 — source content is always filed under binary architectures

Models (reused, not duplicated): `Img.add` = the statement list of `Images.add` **read from the current source**
(`Gen.images_add_script`, literal refusal list `Gen.images_add_refused`), `Img.deserialize` with `_add_1_1`'s
re-filing loop (`Img.refile`) behind the generated gate `<= (1, 1)`; `Mf.Rpms.add` (builder `builders`, literal list
`Gen.RPMS_ADD_SOURCE_ARCHES`) and the 0.3 reader `Mf.manifest03` / `Mf.deserializeL` (builder `c05`,
`Model/RpmsLegacy.lean`) behind the generated gate `<= (0, 3)`.

`Spec.BinaryArch a` : `a ∈ Gen.RPM_ARCHES ∧ a ≠ "src" ∧ a ≠ "nosrc"` (`Spec/Arches.lean`).
`Img.C10.archKeys` / `Mf.C10.archKeys` list EVERY key on the arch level of the manifest, also keys of empty tables.
-/
set_option Elab.async false
namespace PM
open PM.Spec

/-! ## obligations on the data read from the source -/

/-- `src` and `nosrc` ARE in the architecture table: the table check alone does not keep them out … -/
theorem C10_source_names_in_table : L "src" ∈ Gen.RPM_ARCHES ∧ L "nosrc" ∈ Gen.RPM_ARCHES := by decide

/-- … so both must be in the literal refusal list of `Images.add` and of `Rpms.add` -/
theorem C10_refusal_lists :
    (L "src" ∈ Gen.images_add_refused ∧ L "nosrc" ∈ Gen.images_add_refused)
    ∧ (L "src" ∈ Gen.RPMS_ADD_SOURCE_ARCHES ∧ L "nosrc" ∈ Gen.RPMS_ADD_SOURCE_ARCHES) := by decide

/-- … and NOTHING ELSE is in them (both inclusions, as sets): the refusal lists are exactly the two source names, so no
binary architecture is refused by these statements -/
theorem C10_refusal_lists_exact :
    (Gen.images_add_refused.all (Spec.sourceArchNames.contains ·) && Spec.sourceArchNames.all (Gen.images_add_refused.contains ·)) = true
    ∧ (Gen.RPMS_ADD_SOURCE_ARCHES.all (Spec.sourceArchNames.contains ·) && Spec.sourceArchNames.all (Gen.RPMS_ADD_SOURCE_ARCHES.contains ·)) = true := by
  decide

/-- a binary architecture passes both arch checks of both builders -/
theorem C10_binary_not_refused (a : Str) (h : BinaryArch a) :
    Gen.RPM_ARCHES.contains a = true ∧ Img.refusedArches.contains a = false ∧ a ∉ Mf.srcArches := by
  obtain ⟨h1, h2, h3⟩ := h
  have hs : a ∉ Spec.sourceArchNames := by
    intro hm
    simp only [Spec.sourceArchNames, List.mem_cons, List.not_mem_nil, or_false] at hm
    rcases hm with e | e
    · exact h2 e
    · exact h3 e
  have e1 := C10_refusal_lists_exact.1
  have e2 := C10_refusal_lists_exact.2
  simp only [Bool.and_eq_true, List.all_eq_true] at e1 e2
  refine ⟨by simpa using h1, ?_, ?_⟩
  · cases hc : Img.refusedArches.contains a
    · rfl
    · exfalso
      have hm : a ∈ Gen.images_add_refused := by simpa [Img.refusedArches] using hc
      exact hs (by simpa using e1.1 a hm)
  · intro hm
    exact hs (by simpa using e2.1 a hm)

/-- statement order of `Images.add` as it is in the source now: the insertion comes after both arch checks, both
checks stand at the head of the body, nothing that can raise follows the insertion -/
theorem C10_images_script :
    Img.C10.archGuard Gen.images_add_script false false = true ∧ Img.C10.headChecks Gen.images_add_script = (true, true)
    ∧ Img.safeOrder Gen.images_add_script = true := by decide

/-- the explicit refusal is necessary: with the table check alone an `add` under `src` files the image there -/
theorem C10_refusal_necessary :
    Img.C10.archKeys (Img.runSteps (L "Server") (L "src") 0 {} [.archTable, .insert] {}).1.cells = [L "src"]
    ∧ Img.C10.archKeys (Img.runSteps (L "Server") (L "nosrc") 0 {} [.archTable, .insert] {}).1.cells = [L "nosrc"] := by decide

theorem c10_images_admissible_binary {a : Str} (h : Img.C10.Admissible a) : BinaryArch a := by
  obtain ⟨h1, h2⟩ := h
  have h2' : a ∉ Gen.images_add_refused := by
    intro hm
    have : Img.refusedArches.contains a = true := by simpa [Img.refusedArches] using hm
    rw [h2] at this; cases this
  refine ⟨by simpa using h1, ?_, ?_⟩
  · rintro rfl; exact h2' C10_refusal_lists.1.1
  · rintro rfl; exact h2' C10_refusal_lists.1.2

theorem c10_rpms_admissible_binary {a : Str} (h : Mf.C10.Admissible a) : BinaryArch a := by
  obtain ⟨h1, h2⟩ := h
  refine ⟨h1, ?_, ?_⟩
  · rintro rfl; exact h2 C10_refusal_lists.2.1
  · rintro rfl; exact h2 C10_refusal_lists.2.2

theorem c10_images_not_binary {a : Str} (h : ¬ BinaryArch a) :
    Gen.RPM_ARCHES.contains a = false ∨ Img.refusedArches.contains a = true := by
  by_cases h1 : Gen.RPM_ARCHES.contains a = true
  · right
    by_cases h2 : Img.refusedArches.contains a = true
    · exact h2
    · exact absurd (c10_images_admissible_binary ⟨h1, by simpa using h2⟩) h
  · left; simpa using h1

/-! ## Images.add -/

/-- **step**: whatever the call (accepted or refused, any arch string), the arch keys stay binary -/
theorem C10_images_step (s : Img.ImgState) (v a : Str) (id : Nat) (img : Img.Image) (hk : Img.C10.KeysOK s.cells) :
    Img.C10.KeysOK (Img.add s v a id img).1.cells :=
  Img.C10.keys_of_archGuard v a id img Img.addScript s false false C10_images_script.1 (fun h => by cases h) (fun h => by cases h) hk

/-- **refusal**: adding under `src`, `nosrc` or a name outside the table raises ValueError and the manifest is
IDENTICAL to what it was — no variant key, no empty arch table is left behind (any state, any header version) -/
theorem C10_images_refused (s : Img.ImgState) (v a : Str) (id : Nat) (img : Img.Image) (h : ¬ BinaryArch a) :
    Img.add s v a id img = (s, .error .valueError) := by
  apply Img.C10.refused_of_headChecks
  have e : Img.C10.headChecks Img.addScript = (true, true) := C10_images_script.2.1
  rw [e]
  rcases c10_images_not_binary h with h | h
  · exact Or.inl ⟨h, rfl⟩
  · exact Or.inr ⟨h, rfl⟩

/-- **histories**: every state reachable from the empty manifest by any list of `add` calls (refused ones
included, any arch strings, any header version set by the caller) has only binary arch keys -/
theorem C10_keys_images_add (ver : Str) (ops : List Img.AddOp) :
    ∀ a ∈ Img.C10.archKeys (ops.foldl Img.step (Img.empty ver)).cells, BinaryArch a := by
  suffices h : ∀ (s : Img.ImgState), Img.C10.KeysOK s.cells → Img.C10.KeysOK (ops.foldl Img.step s).cells by
    intro a ha
    exact c10_images_admissible_binary (h (Img.empty ver) (by intro x hx; simp [Img.empty, Img.C10.archKeys] at hx) a ha)
  induction ops with
  | nil => intro s hs; exact hs
  | cons op rest ih =>
    intro s hs
    simp only [List.foldl_cons]
    exact ih _ (Img.C10.keys_of_archGuard op.variant op.arch op.id op.img Img.addScript s false false C10_images_script.1
      (fun h => by cases h) (fun h => by cases h) hs)

/-- **loading**: every manifest obtained from ANY images document (any header version: 1.0 / 1.1 with `src`
re-filing, 1.2 …; any shape of the image table) has only binary arch keys -/
theorem C10_keys_images_load (doc : PyVal) (s : Img.ImgState) (h : Img.deserialize doc = .ok s) :
    ∀ a ∈ Img.C10.archKeys s.cells, BinaryArch a := by
  have hk : Img.C10.KeysOK s.cells := by
    refine Img.deserialize_inv doc s (fun s => Img.C10.KeysOK s.cells) (fun _ _ e h => e ▸ h) ?_ ?_ h
    · intro ver _
      refine ⟨fun s v a id img s' _ hk hadd => ?_⟩
      have := Img.C10.keys_of_archGuard v a id img Img.addScript s false false C10_images_script.1
        (fun h => by cases h) (fun h => by cases h) hk
      have e : Img.runSteps v a id img Img.addScript s = Img.add s v a id img := rfl
      rw [e, hadd] at this
      exact this
    · intro x hx; simp [Img.C10.archKeys] at hx
  intro a ha
  exact c10_images_admissible_binary (hk a ha)

/-! ## Rpms.add and the 0.3 reader -/

/-- **refusal**: `Rpms.add` under `src`, `nosrc` or a name outside the table raises ValueError and returns the
identical mapping (any mapping, any other arguments) -/
theorem C10_rpms_refused (s : PyVal) (a : Mf.RpmsArgs) (h : ¬ BinaryArch a.arch) :
    Mf.Rpms.add s a = (s, .error .valueError) := by
  apply Mf.C12_rpms_refuses
  by_cases h1 : a.arch ∈ Gen.RPM_ARCHES
  · right; left
    by_cases h2 : a.arch ∈ Mf.srcArches
    · exact h2
    · exact absurd (c10_rpms_admissible_binary ⟨h1, h2⟩) h
  · left; exact h1

/-- **histories**: every mapping reachable from the empty one by any list of `Rpms.add` calls (refused ones
included) has only binary arch keys -/
theorem C10_keys_rpms_add (h : List Mf.RpmsArgs) : ∀ a ∈ Mf.C10.archKeys (Mf.runRpms Mf.empty h), BinaryArch a :=
  fun a ha => c10_rpms_admissible_binary (Mf.C10.keysOK_run h Mf.empty Mf.C10.keysOK_empty a ha)

/-- **0.3 conversion**: the mapping `deserialize_0_3` builds from ANY `payload` has only binary arch keys -/
theorem C10_keys_rpms_manifest03 (pl s : PyVal) (h : Mf.manifest03 pl = .ok s) : ∀ a ∈ Mf.C10.archKeys s, BinaryArch a :=
  fun a ha => c10_rpms_admissible_binary
    (Mf.C10.manifest03_inv Mf.C10.KeysOK (fun s a hs => Mf.C10.keysOK_add s a hs) h Mf.C10.keysOK_empty a ha)

/-- … in particular the mapping of a manifest loaded from a document whose header version passes the generated gate
`<= (0, 3)` -/
theorem C10_keys_rpms_load03 (doc : PyVal) (m : Mf.Manifest) (h : Mf.deserializeL .rpms doc = .ok m)
    (ver : PyVal) (l : Nat × Nat) (hh : Mf.headerDeserialize .rpms doc = .ok (ver, .nums l))
    (hg : Mf.gateHolds Gen.gate_rpms_Rpms_deserialize_0 l = true) : ∀ a ∈ Mf.C10.archKeys m.payload, BinaryArch a := by
  obtain ⟨pl, _, hm⟩ := Mf.C10.deserializeL_legacy doc m h ver l hh hg
  exact C10_keys_rpms_manifest03 pl m.payload hm

/-- the gate in front of the 0.3 reader is `<= (0, 3)`, the gate in front of `_add_1_1` is `<= (1, 1)` -/
theorem C10_gates : Gen.gate_rpms_Rpms_deserialize_0 = { op := .le, bound := (0, 3) }
    ∧ Gen.gate_images_Images_deserialize_0 = { op := .le, bound := (1, 1) } := by decide

/-- **C10_keys**: for every state reachable by `Images.add` / `Rpms.add` from the empty manifest (any op list, any
arch strings), and for every state obtained by loading any images document (any version) or an rpms document of
format ≤ 0.3, every arch key is in `Gen.RPM_ARCHES` minus {`src`, `nosrc`} -/
theorem C10_keys :
    (∀ (ver : Str) (ops : List Img.AddOp), ∀ a ∈ Img.C10.archKeys (ops.foldl Img.step (Img.empty ver)).cells, BinaryArch a)
    ∧ (∀ (h : List Mf.RpmsArgs), ∀ a ∈ Mf.C10.archKeys (Mf.runRpms Mf.empty h), BinaryArch a)
    ∧ (∀ (doc : PyVal) (s : Img.ImgState), Img.loads doc = .ok s → ∀ a ∈ Img.C10.archKeys s.cells, BinaryArch a)
    ∧ (∀ (doc : PyVal) (m : Mf.Manifest) (ver : PyVal) (l : Nat × Nat), Mf.deserializeL .rpms doc = .ok m →
         Mf.headerDeserialize .rpms doc = .ok (ver, .nums l) → Mf.gateHolds Gen.gate_rpms_Rpms_deserialize_0 l = true →
         ∀ a ∈ Mf.C10.archKeys m.payload, BinaryArch a) := by
  refine ⟨C10_keys_images_add, C10_keys_rpms_add, ?_, fun doc m ver l h hh hg => C10_keys_rpms_load03 doc m h ver l hh hg⟩
  intro doc s h
  unfold Img.loads at h
  obtain ⟨s', hd, h⟩ := Img.bind_ok h
  obtain ⟨_, _, h⟩ := Img.bind_ok h
  injection h with h
  subst h
  exact C10_keys_images_load doc s' hd

/-! ## what is written back -/

theorem c10_archKeys_toPy (o : Img.OutCells) : Mf.C10.archKeys o.toPy = Img.C10.outArchKeys o := by
  simp only [Img.OutCells.toPy, Mf.C10.archKeys, Img.C10.outArchKeys, List.flatMap_map]
  congr 1
  funext va
  simp [Mf.C10.dictKeys, List.map_map, Function.comp_def]

/-- **images, written back**: the document `serialize` builds from a loaded manifest has only binary arch keys in
its image table (`Mf.C10.archKeys` = every key on the second level of the table) -/
theorem C10_images_written (doc : PyVal) (s : Img.ImgState) (h : Img.deserialize doc = .ok s) (out : PyVal)
    (hs : (Img.serialize s).2 = .ok out) :
    ∃ payload tbl, PyOps.item out (L "payload") = .ok payload ∧ PyOps.item payload (L "images") = .ok tbl
      ∧ ∀ a ∈ Mf.C10.archKeys tbl, BinaryArch a := by
  obtain ⟨hdr, comp, o, rfl, hk⟩ := Img.C10.serialize_keys s out hs
  refine ⟨_, o.toPy, rfl, rfl, ?_⟩
  intro a ha
  rw [c10_archKeys_toPy] at ha
  exact C10_keys_images_load doc s h a (hk a ha)

/-- **rpms, written back**: the document written from a manifest converted from format ≤ 0.3 carries the converted
mapping verbatim: only binary arch keys, no `src` -/
theorem C10_rpms_written (doc : PyVal) (m : Mf.Manifest) (h : Mf.deserializeL .rpms doc = .ok m)
    (ver : PyVal) (l : Nat × Nat) (hh : Mf.headerDeserialize .rpms doc = .ok (ver, .nums l))
    (hg : Mf.gateHolds Gen.gate_rpms_Rpms_deserialize_0 l = true) (out : PyVal) (hs : (Mf.serialize .rpms m).2 = .ok out) :
    ∃ payload tbl, Mf.getItem out (Mf.lit "payload") = .ok payload ∧ Mf.getItem payload (Mf.lit "rpms") = .ok tbl
      ∧ (∀ a ∈ Mf.C10.archKeys tbl, BinaryArch a) ∧ L "src" ∉ Mf.C10.archKeys tbl := by
  obtain ⟨pl, h1, h2⟩ := Mf.C10.serialize_rpms_payload m out hs
  have hk := C10_keys_rpms_load03 doc m h ver l hh hg
  exact ⟨pl, m.payload, h1, h2, hk, fun hm => (hk _ hm).2.1 rfl⟩

/-! ## C10_images_refile -/

open PM.Img PM.Img.C10 in
/-- **exact filing of a document of format ≤ 1.1** (generated gate) whose image table is `O` — any parsed JSON object
variant ↦ arch ↦ list, i.e. unique keys on both levels.  The k-th image dictionary of the table (iteration order) is
read as ONE object with identity k, and the filings `(variant, arch, object, attributes)` of the loaded manifest are
exactly: that object under `(v, b)` for every `b ∈ targets (arch keys of v) a`, where `(v, a)` is where the
dictionary stood — all arch keys of `v` other than `src` when `a = src`, `a` itself otherwise. -/
theorem C10_images_refile (doc : PyVal) (s : ImgState) (h : Img.deserialize doc = .ok s)
    (ver : PyVal) (hver : Img.headerDeserialize doc = .ok ver) (vt : VerT) (hvt : Img.versionTuple ver = .ok vt)
    (hold : gateEval Gen.gate_images_Images_deserialize_0 vt = .ok true)
    (payload : PyVal) (hp : PyOps.item doc (L "payload") = .ok payload) (O : OutCells) (hO : OutNodup O)
    (himg : PyOps.item payload (L "images") = .ok O.toPy) :
    ∀ v b k img, (v, b, k, img) ∈ entries s.cells ↔
      ∃ a d as, (outTriples O)[k]? = some (v, a, d) ∧ Image.deserialize ver d = .ok img ∧ (v, as) ∈ O
        ∧ b ∈ targets (as.map (·.1)) a := by
  unfold Img.deserialize at h
  obtain ⟨ver', hver', hA⟩ := bind_ok h
  rw [hver] at hver'; injection hver' with hver'; subst hver'
  obtain ⟨payload', hp', hB⟩ := bind_ok hA
  rw [hp] at hp'; injection hp' with hp'; subst hp'
  obtain ⟨comp, _, hC⟩ := bind_ok hB
  obtain ⟨images, himg', hD⟩ := bind_ok hC
  rw [himg] at himg'; injection himg' with himg'; subst himg'
  obtain ⟨vs, hvs, hE⟩ := bind_ok hD
  have e3 : PyOps.iter O.toPy = .ok (O.map fun va => .str va.1) := by
    simp [toPy_eq, PyOps.iter, List.map_map, Function.comp_def]
  rw [e3] at hvs; injection hvs with hvs; subst hvs
  obtain ⟨r, hl, hF⟩ := bind_ok hE
  obtain ⟨s1, n⟩ := r
  injection hF with hF
  have hcells : s.cells = s1.cells := by rw [← hF]
  rw [hcells]
  exact load_old_files ver vt hvt hold O hO _ rfl (s1, n) hl

theorem c10_mem_unique {β : Type} {l : List (Str × β)} (hn : (l.map (·.1)).Nodup) {k : Str} {x y : β} (hx : (k, x) ∈ l) (hy : (k, y) ∈ l) :
    x = y := by
  have h1 := Img.find_key (fun b : β => b) l k x hn hx
  have h2 := Img.find_key (fun b : β => b) l k y hn hy
  rw [h1] at h2
  injection h2 with h2
  injection h2

open PM.Img PM.Img.C10 in
/-- **the property's words**: for a ≤ 1.1 document and a variant `v` with arch keys `as`, the image read from the
k-th dictionary, standing under `(v, src)`, is filed under `(v, b)` for EVERY arch key `b ≠ src` of `v` — the same
object in each — and nowhere else: not under another variant, not under `src` -/
theorem C10_images_refile_src (doc : PyVal) (s : ImgState) (h : Img.deserialize doc = .ok s)
    (ver : PyVal) (hver : Img.headerDeserialize doc = .ok ver) (vt : VerT) (hvt : Img.versionTuple ver = .ok vt)
    (hold : gateEval Gen.gate_images_Images_deserialize_0 vt = .ok true)
    (payload : PyVal) (hp : PyOps.item doc (L "payload") = .ok payload) (O : OutCells) (hO : OutNodup O)
    (himg : PyOps.item payload (L "images") = .ok O.toPy)
    (v : Str) (as : List (Str × List PyVal)) (hv : (v, as) ∈ O) (k : Nat) (d : PyVal)
    (hk : (outTriples O)[k]? = some (v, L "src", d)) (img : Image) (hd : Image.deserialize ver d = .ok img) :
    ∀ v' b img', (v', b, k, img') ∈ entries s.cells ↔ (v' = v ∧ img' = img ∧ b ∈ as.map (·.1) ∧ b ≠ L "src") := by
  intro v' b img'
  rw [C10_images_refile doc s h ver hver vt hvt hold payload hp O hO himg]
  constructor
  · rintro ⟨a', d', as', hk', hd', hv', hb⟩
    rw [hk] at hk'
    injection hk' with hk'
    injection hk' with e1 hk'
    injection hk' with e2 e3
    subst e1 e2 e3
    rw [hd] at hd'; injection hd' with hd'
    have := c10_mem_unique hO.1 hv hv'
    subst this
    simp only [targets, ↓reduceIte, List.mem_filter, decide_eq_true_eq] at hb
    exact ⟨rfl, hd'.symm, hb.1, hb.2⟩
  · rintro ⟨rfl, rfl, hb1, hb2⟩
    refine ⟨L "src", d, as, hk, hd, hv, ?_⟩
    simp only [targets, ↓reduceIte, List.mem_filter, decide_eq_true_eq]
    exact ⟨hb1, hb2⟩

open PM.Img PM.Img.C10 in
/-- … and an image that did not stand under `src` is filed in its own cell and nowhere else -/
theorem C10_images_refile_other (doc : PyVal) (s : ImgState) (h : Img.deserialize doc = .ok s)
    (ver : PyVal) (hver : Img.headerDeserialize doc = .ok ver) (vt : VerT) (hvt : Img.versionTuple ver = .ok vt)
    (hold : gateEval Gen.gate_images_Images_deserialize_0 vt = .ok true)
    (payload : PyVal) (hp : PyOps.item doc (L "payload") = .ok payload) (O : OutCells) (hO : OutNodup O)
    (himg : PyOps.item payload (L "images") = .ok O.toPy)
    (v a : Str) (ha : a ≠ L "src") (k : Nat) (d : PyVal)
    (hk : (outTriples O)[k]? = some (v, a, d)) (img : Image) (hd : Image.deserialize ver d = .ok img) :
    ∀ v' b img', (v', b, k, img') ∈ entries s.cells ↔ (v' = v ∧ img' = img ∧ b = a) := by
  intro v' b img'
  rw [C10_images_refile doc s h ver hver vt hvt hold payload hp O hO himg]
  constructor
  · rintro ⟨a', d', as', hk', hd', hv', hb⟩
    rw [hk] at hk'
    injection hk' with hk'
    injection hk' with e1 hk'
    injection hk' with e2 e3
    subst e1 e2 e3
    rw [hd] at hd'; injection hd' with hd'
    simp only [targets, ha, ↓reduceIte, List.mem_singleton] at hb
    exact ⟨rfl, hd'.symm, hb⟩
  · rintro ⟨rfl, rfl, rfl⟩
    obtain ⟨as, hmem, _⟩ := mem_outTriples (List.mem_of_getElem? hk)
    refine ⟨b, d, as, hk, hd, hmem, ?_⟩
    simp [targets, ha]

open PM.Img PM.Img.C10 in
/-- **a ≤ 1.1 document that loads needs only binary arches**: if the document loads, every arch key under which one of
its image dictionaries has to be filed — its own key, or for a `src` image EVERY other arch key of the variant, also
one whose own list is empty — is binary.  (Contrapositive: a document with images under `nosrc` / an unknown name,
or with source images next to such a key, is refused.) -/
theorem C10_images_old_doc_arches (doc : PyVal) (s : ImgState) (h : Img.deserialize doc = .ok s)
    (ver : PyVal) (hver : Img.headerDeserialize doc = .ok ver) (vt : VerT) (hvt : Img.versionTuple ver = .ok vt)
    (hold : gateEval Gen.gate_images_Images_deserialize_0 vt = .ok true)
    (payload : PyVal) (hp : PyOps.item doc (L "payload") = .ok payload) (O : OutCells) (hO : OutNodup O)
    (himg : PyOps.item payload (L "images") = .ok O.toPy)
    (v : Str) (as : List (Str × List PyVal)) (hv : (v, as) ∈ O) (a : Str) (l : List PyVal) (ha : (a, l) ∈ as) (d : PyVal) (hd : d ∈ l) :
    ∀ b ∈ targets (as.map (·.1)) a, BinaryArch b := by
  intro b hb
  have hfiles := C10_images_refile doc s h ver hver vt hvt hold payload hp O hO himg
  have ht : (v, a, d) ∈ outTriples O := by
    simp only [outTriples, archTriples, List.mem_flatMap, List.mem_map]
    exact ⟨(v, as), hv, (a, l), ha, d, hd, rfl⟩
  obtain ⟨k, hk⟩ := List.getElem?_of_mem ht
  -- the reader got through every dictionary
  have hread : ∃ img, Image.deserialize ver d = .ok img := by
    unfold Img.deserialize at h
    obtain ⟨ver', hver', hA⟩ := bind_ok h
    rw [hver] at hver'; injection hver' with hver'; subst hver'
    obtain ⟨payload', hp', hB⟩ := bind_ok hA
    rw [hp] at hp'; injection hp' with hp'; subst hp'
    obtain ⟨comp, _, hC⟩ := bind_ok hB
    obtain ⟨images, himg', hD⟩ := bind_ok hC
    rw [himg] at himg'; injection himg' with himg'; subst himg'
    obtain ⟨vs, hvs, hE⟩ := bind_ok hD
    have e3 : PyOps.iter O.toPy = .ok (O.map fun va => .str va.1) := by
      simp [toPy_eq, PyOps.iter, List.map_map, Function.comp_def]
    rw [e3] at hvs; injection hvs with hvs; subst hvs
    obtain ⟨r, hl, _⟩ := bind_ok hE
    rw [loadVariants_eq ver O hO O (fun _ h => h)] at hl
    exact loadTriples_reads ver O.toPy (outTriples O) _ r hl (v, a, d) ht
  obtain ⟨img, hdi⟩ := hread
  have hmem : (v, b, k, img) ∈ entries s.cells := (hfiles v b k img).mpr ⟨a, d, as, hk, hdi, hv, hb⟩
  exact C10_keys_images_load doc s h b (archKey_of_entry hmem)

/-! ### a concrete 1.1 document: hypotheses are satisfiable, the statement is not vacuous -/

def c10_exImage (path arch : String) (n : Int) : PyVal :=
  .dict [(L "path", .str (L path)), (L "mtime", .int 1), (L "size", .int 2), (L "volume_id", .none), (L "type", .str (L "dvd")),
         (L "format", .str (L "iso")), (L "arch", .str (L arch)), (L "disc_number", .int n), (L "disc_count", .int 1),
         (L "checksums", .dict [(L "md5", .str (L "0"))]), (L "implant_md5", .none), (L "bootable", .bool false),
         (L "subvariant", .str (L "S"))]

def c10_exTable : Img.OutCells :=
  [(L "Server", [(L "src", [c10_exImage "Server/source/a.iso" "src" 1]), (L "x86_64", [c10_exImage "Server/x86_64/b.iso" "x86_64" 2]), (L "s390x", [])]),
   (L "Client", [(L "i386", [c10_exImage "Client/i386/c.iso" "i386" 3])])]

def c10_exImagesDoc : PyVal :=
  .dict [(L "header", .dict [(L "version", .str (L "1.1")), (L "type", .str (L "productmd.images"))]),
         (L "payload", .dict [
           (L "compose", .dict [(L "id", .str (L "F-22-20150522.0")), (L "type", .str (L "production")),
                                (L "date", .str (L "20150522")), (L "respin", .int 0)]),
           (L "images", c10_exTable.toPy)])]

/-- the Server source image (object 0) ends up under Server/x86_64 and Server/s390x (an arch key with no image of its
own), not under Client/i386; no `src` key -/
example : ((Img.deserialize c10_exImagesDoc).toOption.map fun s => ((entries s.cells).map fun e => (e.1, e.2.1, e.2.2.1), Img.C10.archKeys s.cells))
    = some ([(L "Server", L "x86_64", 0), (L "Server", L "x86_64", 1), (L "Server", L "s390x", 0), (L "Client", L "i386", 2)],
            [L "x86_64", L "s390x", L "i386"]) := by
  decide +kernel

example : Img.OutNodup c10_exTable ∧ (Img.outTriples c10_exTable)[0]? = some (L "Server", L "src", c10_exImage "Server/source/a.iso" "src" 1)
    ∧ ((Img.versionTuple (.str (L "1.1"))).bind (Img.gateEval Gen.gate_images_Images_deserialize_0)) = .ok true := by
  refine ⟨⟨by decide, by decide⟩, rfl, by decide +kernel⟩

/-! ## C10_rpms_refile -/

/-- **the re-filed source RPM** (general form).  `doc` is loaded through the 0.3 reader; its manifest is the JSON
object `vs` (unique keys); variant `v` has the arch table `as`, a `src` table `st` holding the entry `sd ≠ null` for
the source package `k`, and under the arch `a ≠ src` the non-empty table `rl` of packages built from `k`.
Then `[v][a][K][K]`, K = canonical N-E:V-R.A of `k`, holds `{sigkey: lower(sd.sigkey), path: sd.path, category:
"source"}` — path and key FROM THE SRC TABLE ENTRY.
Hypothesis `hdist` (why `_partial`): every OTHER source-package key of the same `[v][a]` table is non-empty and has a
canonical form different from K.  Two texts of one package in one table write the same slot and the later wins
(`C10_rpms_refile_collision_witness`). -/
theorem C10_rpms_refile_general_partial (doc : PyVal) (m : Mf.Manifest) (h : Mf.deserializeL .rpms doc = .ok m)
    (ver : PyVal) (l : Nat × Nat) (hh : Mf.headerDeserialize .rpms doc = .ok (ver, .nums l))
    (hg : Mf.gateHolds Gen.gate_rpms_Rpms_deserialize_0 l = true)
    (pl : PyVal) (hpl : Mf.getItem doc (Mf.lit "payload") = .ok pl)
    (vs : Mf.Kvs) (hman : Mf.getItem pl (Mf.lit "manifest") = .ok (.dict vs)) (hvs : (vs.map (·.1)).Nodup)
    (v : Str) (as : Mf.Kvs) (hv : (v, PyVal.dict as) ∈ vs) (has : (as.map (·.1)).Nodup)
    (a : Str) (ha : a ≠ L "src") (cell : Mf.Kvs) (hcell : (a, PyVal.dict cell) ∈ as) (hcn : (cell.map (·.1)).Nodup)
    (st : Mf.Kvs) (hsrc : (L "src", PyVal.dict st) ∈ as) (k : Str) (sd : PyVal) (hst : Mf.lookup st k = some sd) (hsd : sd ≠ .none)
    (dk : Nvra) (hparse : parseNvra k = .ok dk) (rl : Mf.Kvs) (hrl : rl ≠ []) (hk : (k, PyVal.dict rl) ∈ cell)
    (hdist : ∀ it ∈ cell, it.1 ≠ k → it.1 ≠ [] ∧ ∀ d', parseNvra it.1 = .ok d' → canonNvra d' ≠ canonNvra dk) :
    ∃ (p : Str) (sk : Option Str), PyOps.item sd (L "path") = .ok (.str p) ∧ PyOps.item sd (L "sigkey") = .ok (Mf.optStr sk) ∧
      Mf.getPath m.payload [v, a, canonNvra dk, canonNvra dk]
        = some (Mf.rpmRecord (sk.map Str.lowerAscii) p (L "source")) := by
  obtain ⟨pl', hpl', hm⟩ := Mf.C10.deserializeL_legacy doc m h ver l hh hg
  rw [hpl] at hpl'; injection hpl' with hpl'; subst hpl'
  exact Mf.C10.manifest03_refile pl m.payload hm vs hman hvs v as hv has a ha cell hcell hcn st hsrc k sd hst hsd dk hparse rl hrl hk hdist

theorem c10_canonNvra_ne_nil (d : Nvra) : canonNvra d ≠ [] := by
  unfold canonNvra
  intro e
  have := congrArg List.length e
  simp at this

/-- **C10_rpms_refile** — the statement in the property's own words, `[variant][arch][srpm][srpm]`: for a 0.3
manifest whose source-package keys in `[v][a]` are canonical N-E:V-R.A strings (what the 0.3 writer produced; it
makes `hdist` of the general form a consequence of the keys being distinct) -/
theorem C10_rpms_refile (doc : PyVal) (m : Mf.Manifest) (h : Mf.deserializeL .rpms doc = .ok m)
    (ver : PyVal) (l : Nat × Nat) (hh : Mf.headerDeserialize .rpms doc = .ok (ver, .nums l))
    (hg : Mf.gateHolds Gen.gate_rpms_Rpms_deserialize_0 l = true)
    (pl : PyVal) (hpl : Mf.getItem doc (Mf.lit "payload") = .ok pl)
    (vs : Mf.Kvs) (hman : Mf.getItem pl (Mf.lit "manifest") = .ok (.dict vs)) (hvs : (vs.map (·.1)).Nodup)
    (v : Str) (as : Mf.Kvs) (hv : (v, PyVal.dict as) ∈ vs) (has : (as.map (·.1)).Nodup)
    (a : Str) (ha : a ≠ L "src") (cell : Mf.Kvs) (hcell : (a, PyVal.dict cell) ∈ as) (hcn : (cell.map (·.1)).Nodup)
    (st : Mf.Kvs) (hsrc : (L "src", PyVal.dict st) ∈ as) (k : Str) (sd : PyVal) (hst : Mf.lookup st k = some sd) (hsd : sd ≠ .none)
    (rl : Mf.Kvs) (hrl : rl ≠ []) (hk : (k, PyVal.dict rl) ∈ cell)
    (hcanon : ∀ it ∈ cell, ∃ d, parseNvra it.1 = .ok d ∧ canonNvra d = it.1) :
    ∃ (p : Str) (sk : Option Str), PyOps.item sd (L "path") = .ok (.str p) ∧ PyOps.item sd (L "sigkey") = .ok (Mf.optStr sk) ∧
      Mf.getPath m.payload [v, a, k, k] = some (Mf.rpmRecord (sk.map Str.lowerAscii) p (L "source")) := by
  obtain ⟨dk, hparse, hcan⟩ := hcanon (k, .dict rl) hk
  simp only at hparse hcan
  have := C10_rpms_refile_general_partial doc m h ver l hh hg pl hpl vs hman hvs v as hv has a ha cell hcell hcn st hsrc k sd hst hsd
    dk hparse rl hrl hk (by
      intro it hit hne
      obtain ⟨d, hp, hc⟩ := hcanon it hit
      refine ⟨fun e => c10_canonNvra_ne_nil d (hc.trans e), fun d' hp' => ?_⟩
      rw [hp] at hp'; injection hp' with hp'; subst hp'
      rw [hc, hcan]; exact hne)
  rw [hcan] at this
  exact this

/-! ### concrete 0.3 manifests -/

def c10_exRpm (type path : String) (sigkey : PyVal) : PyVal :=
  .dict [(L "type", .str (L type)), (L "path", .str (L path)), (L "sigkey", sigkey)]

/-- an unsigned SRPM next to signed binaries, listed under two binary arches; a second variant without `src` -/
def c10_exManifest03 : PyVal :=
  .dict [(L "manifest", .dict [
    (L "Server", .dict [
      (L "src", .dict [(L "bash-0:4.2-5.src", .dict [(L "path", .str (L "Server/source/bash.src.rpm")), (L "sigkey", .none)])]),
      (L "x86_64", .dict [(L "bash-0:4.2-5.src", .dict [(L "bash-0:4.2-5.x86_64", c10_exRpm "package" "Server/x86_64/bash.rpm" (.str (L "FD431D51")))])]),
      (L "s390x", .dict [(L "bash-0:4.2-5.src", .dict [(L "bash-doc-0:4.2-5.noarch", c10_exRpm "package" "Server/s390x/bash-doc.rpm" (.str (L "FD431D51")))])])]),
    (L "Client", .dict [
      (L "i386", .dict [(L "bash-0:4.2-5.src", .dict [(L "bash-0:4.2-5.i686", c10_exRpm "package" "Client/i386/bash.rpm" (.none))])])])])]

example :
    (Mf.manifest03 c10_exManifest03).toOption.map (fun s =>
      (Mf.C10.archKeys s,
       Mf.getPath s [L "Server", L "x86_64", L "bash-0:4.2-5.src", L "bash-0:4.2-5.src"] == some (Mf.rpmRecord none (L "Server/source/bash.src.rpm") (L "source")),
       Mf.getPath s [L "Server", L "s390x", L "bash-0:4.2-5.src", L "bash-0:4.2-5.src"] == some (Mf.rpmRecord none (L "Server/source/bash.src.rpm") (L "source")),
       (Mf.getPath s [L "Client", L "i386", L "bash-0:4.2-5.src", L "bash-0:4.2-5.src"]).isNone))
    = some ([L "x86_64", L "s390x", L "i386"], true, true, true) := by
  decide +kernel

/-- the same manifest inside a whole document of format 0.3: header, compose section, gate -/
def c10_exRpmsDoc : PyVal :=
  .dict [(L "header", .dict [(L "version", .str (L "0.3"))]),
         (L "payload", .dict ((L "compose", .dict [(L "id", .str (L "RHEL-7.0-20140507.0")), (L "type", .str (L "production")),
                                                  (L "date", .str (L "20140507")), (L "respin", .int 0)])
                              :: (match c10_exManifest03 with | .dict kvs => kvs | _ => [])))]

example :
    ((Mf.deserializeL .rpms c10_exRpmsDoc).toOption.map fun m =>
      (Mf.C10.archKeys m.payload,
       Mf.getPath m.payload [L "Server", L "s390x", L "bash-0:4.2-5.src", L "bash-0:4.2-5.src"]
         == some (Mf.rpmRecord none (L "Server/source/bash.src.rpm") (L "source"))))
      = some ([L "x86_64", L "s390x", L "i386"], true)
    ∧ ((Mf.headerDeserialize .rpms c10_exRpmsDoc).toOption.map fun r =>
        match r.2 with | .nums l => Mf.gateHolds Gen.gate_rpms_Rpms_deserialize_0 l | .text => false) = some true := by
  decide +kernel

example : ∃ d, parseNvra (L "bash-0:4.2-5.src") = .ok d ∧ canonNvra d = L "bash-0:4.2-5.src" := by
  refine ⟨⟨some (L "bash"), 0, some (L "4.2"), some (L "5"), some (L "src")⟩, ?_, ?_⟩ <;> decide +kernel

/-- the region excluded by `hdist`: two texts of ONE source package in one table (`…src` and `…src.rpm`), each with its
own `src` entry — both write `[v][a][K][K]`, the later one stays -/
def c10_exCollision03 : PyVal :=
  .dict [(L "manifest", .dict [
    (L "Server", .dict [
      (L "src", .dict [(L "bash-0:4.2-5.src", .dict [(L "path", .str (L "first.src.rpm")), (L "sigkey", .none)]),
                       (L "bash-0:4.2-5.src.rpm", .dict [(L "path", .str (L "second.src.rpm")), (L "sigkey", .none)])]),
      (L "x86_64", .dict [
        (L "bash-0:4.2-5.src", .dict [(L "bash-0:4.2-5.x86_64", c10_exRpm "package" "a.rpm" .none)]),
        (L "bash-0:4.2-5.src.rpm", .dict [(L "bash-doc-0:4.2-5.noarch", c10_exRpm "package" "b.rpm" .none)])])])])]

theorem C10_rpms_refile_collision_witness :
    (Mf.manifest03 c10_exCollision03).toOption.map (fun s =>
      Mf.getPath s [L "Server", L "x86_64", L "bash-0:4.2-5.src", L "bash-0:4.2-5.src"] == some (Mf.rpmRecord none (L "second.src.rpm") (L "source")))
    = some true := by
  decide +kernel

end PM
