import ProductMD.Proofs.C10Images
import ProductMD.Proofs.C10Rpms
import ProductMD.Properties.C09
/-!
# C10 — source content is always filed under binary architectures

Models (reused, not duplicated): `Img.add` = the statement list of `Images.add` **read from the current source**
(`Gen.images_add_script`, literal refusal list `Gen.images_add_refused`), `Img.deserialize` with `_add_1_1`'s
re-filing loop (`Img.refile`) behind the generated gate `<= (1, 1)`; `Mf.Rpms.add` (builder `builders`, literal list
`Gen.RPMS_ADD_SOURCE_ARCHES`) and the 0.3 reader `Mf.manifest03` / `Mf.deserializeL` (builder `c05`,
`Model/RpmsLegacy.lean`) behind the generated gate `<= (0, 3)`.

`Spec.BinaryArch a` : `a ∈ Gen.RPM_ARCHES ∧ a ≠ "src" ∧ a ≠ "nosrc"` (`Spec/Arches.lean`).
`Img.archKeys` / `Mf.archKeys` list EVERY key on the arch level of the manifest, also keys of empty tables.
-/
set_option Elab.async false
namespace PM
open PM.Spec

/-! ## obligations on the data read from the source -/

/-- `src` and `nosrc` ARE in the architecture table: the table check alone does not keep them out … -/
theorem C10_source_names_in_table : L "src" ∈ Gen.RPM_ARCHES ∧ L "nosrc" ∈ Gen.RPM_ARCHES := by decide

/-- … so both must be in the literal refusal list of `Images.add` and of `Rpms.add` -/
theorem C10_refusal_lists :
    (L "src" ∈ Gen.images_add_refused ∧ L "nosrc" ∈ Gen.images_add_refused)
    ∧ (L "src" ∈ Gen.RPMS_ADD_SOURCE_ARCHES ∧ L "nosrc" ∈ Gen.RPMS_ADD_SOURCE_ARCHES) := by decide

/-- statement order of `Images.add` as it is in the source now: the insertion comes after both arch checks, both
checks stand at the head of the body, nothing that can raise follows the insertion -/
theorem C10_images_script :
    Img.archGuard Gen.images_add_script false false = true ∧ Img.headChecks Gen.images_add_script = (true, true)
    ∧ Img.safeOrder Gen.images_add_script = true := by decide

/-- the explicit refusal is necessary: with the table check alone an `add` under `src` files the image there -/
theorem C10_refusal_necessary :
    Img.archKeys (Img.runSteps (L "Server") (L "src") 0 {} [.archTable, .insert] {}).1.cells = [L "src"]
    ∧ Img.archKeys (Img.runSteps (L "Server") (L "nosrc") 0 {} [.archTable, .insert] {}).1.cells = [L "nosrc"] := by decide

theorem images_admissible_binary {a : Str} (h : Img.Admissible a) : BinaryArch a := by
  obtain ⟨h1, h2⟩ := h
  have h2' : a ∉ Gen.images_add_refused := by
    intro hm
    have : Img.refusedArches.contains a = true := by simpa [Img.refusedArches] using hm
    rw [h2] at this; cases this
  refine ⟨by simpa using h1, ?_, ?_⟩
  · rintro rfl; exact h2' C10_refusal_lists.1.1
  · rintro rfl; exact h2' C10_refusal_lists.1.2

theorem rpms_admissible_binary {a : Str} (h : Mf.Admissible a) : BinaryArch a := by
  obtain ⟨h1, h2⟩ := h
  refine ⟨h1, ?_, ?_⟩
  · rintro rfl; exact h2 C10_refusal_lists.2.1
  · rintro rfl; exact h2 C10_refusal_lists.2.2

theorem images_not_binary {a : Str} (h : ¬ BinaryArch a) :
    Gen.RPM_ARCHES.contains a = false ∨ Img.refusedArches.contains a = true := by
  by_cases h1 : Gen.RPM_ARCHES.contains a = true
  · right
    by_cases h2 : Img.refusedArches.contains a = true
    · exact h2
    · exact absurd (images_admissible_binary ⟨h1, by simpa using h2⟩) h
  · left; simpa using h1

/-! ## Images.add -/

/-- **step**: whatever the call (accepted or refused, any arch string), the arch keys stay binary -/
theorem C10_images_step (s : Img.ImgState) (v a : Str) (id : Nat) (img : Img.Image) (hk : Img.KeysOK s.cells) :
    Img.KeysOK (Img.add s v a id img).1.cells :=
  Img.keys_of_archGuard v a id img Img.addScript s false false C10_images_script.1 (fun h => by cases h) (fun h => by cases h) hk

/-- **refusal**: adding under `src`, `nosrc` or a name outside the table raises ValueError and the manifest is
IDENTICAL to what it was — no variant key, no empty arch table is left behind (any state, any header version) -/
theorem C10_images_refused (s : Img.ImgState) (v a : Str) (id : Nat) (img : Img.Image) (h : ¬ BinaryArch a) :
    Img.add s v a id img = (s, .error .valueError) := by
  apply Img.refused_of_headChecks
  have e : Img.headChecks Img.addScript = (true, true) := C10_images_script.2.1
  rw [e]
  rcases images_not_binary h with h | h
  · exact Or.inl ⟨h, rfl⟩
  · exact Or.inr ⟨h, rfl⟩

/-- **histories**: every state reachable from the empty manifest by any list of `add` calls (refused ones
included, any arch strings, any header version set by the caller) has only binary arch keys -/
theorem C10_keys_images_add (ver : Str) (ops : List Img.AddOp) :
    ∀ a ∈ Img.archKeys (ops.foldl Img.step (Img.empty ver)).cells, BinaryArch a := by
  suffices h : ∀ (s : Img.ImgState), Img.KeysOK s.cells → Img.KeysOK (ops.foldl Img.step s).cells by
    intro a ha
    exact images_admissible_binary (h (Img.empty ver) (by intro x hx; simp [Img.empty, Img.archKeys] at hx) a ha)
  induction ops with
  | nil => intro s hs; exact hs
  | cons op rest ih =>
    intro s hs
    simp only [List.foldl_cons]
    exact ih _ (Img.keys_of_archGuard op.variant op.arch op.id op.img Img.addScript s false false C10_images_script.1
      (fun h => by cases h) (fun h => by cases h) hs)

/-- **loading**: every manifest obtained from ANY images document (any header version: 1.0 / 1.1 with `src`
re-filing, 1.2 …; any shape of the image table) has only binary arch keys -/
theorem C10_keys_images_load (doc : PyVal) (s : Img.ImgState) (h : Img.deserialize doc = .ok s) :
    ∀ a ∈ Img.archKeys s.cells, BinaryArch a := by
  have hk : Img.KeysOK s.cells := by
    refine Img.deserialize_inv doc s (fun s => Img.KeysOK s.cells) (fun _ _ e h => e ▸ h) ?_ ?_ h
    · intro ver _
      refine ⟨fun s v a id img s' _ hk hadd => ?_⟩
      have := Img.keys_of_archGuard v a id img Img.addScript s false false C10_images_script.1
        (fun h => by cases h) (fun h => by cases h) hk
      have e : Img.runSteps v a id img Img.addScript s = Img.add s v a id img := rfl
      rw [e, hadd] at this
      exact this
    · intro x hx; simp [Img.archKeys] at hx
  intro a ha
  exact images_admissible_binary (hk a ha)

/-! ## Rpms.add and the 0.3 reader -/

/-- **refusal**: `Rpms.add` under `src`, `nosrc` or a name outside the table raises ValueError and returns the
identical mapping (any mapping, any other arguments) -/
theorem C10_rpms_refused (s : PyVal) (a : Mf.RpmsArgs) (h : ¬ BinaryArch a.arch) :
    Mf.Rpms.add s a = (s, .error .valueError) := by
  apply Mf.C12_rpms_refuses
  by_cases h1 : a.arch ∈ Gen.RPM_ARCHES
  · right; left
    by_cases h2 : a.arch ∈ Mf.srcArches
    · exact h2
    · exact absurd (rpms_admissible_binary ⟨h1, h2⟩) h
  · left; exact h1

/-- **histories**: every mapping reachable from the empty one by any list of `Rpms.add` calls (refused ones
included) has only binary arch keys -/
theorem C10_keys_rpms_add (h : List Mf.RpmsArgs) : ∀ a ∈ Mf.archKeys (Mf.runRpms Mf.empty h), BinaryArch a :=
  fun a ha => rpms_admissible_binary (Mf.keysOK_run h Mf.empty Mf.keysOK_empty a ha)

/-- **0.3 conversion**: the mapping `deserialize_0_3` builds from ANY `payload` has only binary arch keys -/
theorem C10_keys_rpms_manifest03 (pl s : PyVal) (h : Mf.manifest03 pl = .ok s) : ∀ a ∈ Mf.archKeys s, BinaryArch a :=
  fun a ha => rpms_admissible_binary
    (Mf.manifest03_inv Mf.KeysOK (fun s a hs => Mf.keysOK_add s a hs) h Mf.keysOK_empty a ha)

end PM
