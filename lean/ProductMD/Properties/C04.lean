import ProductMD.Model.IniText
import ProductMD.Model.TreeInfo
import ProductMD.Model.DiscInfo
/-! placeholder while the harness is brought up -/
namespace PM
theorem C04_placeholder : True := trivial
end PM
