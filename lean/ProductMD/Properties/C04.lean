import ProductMD.Proofs.TreeInfoForest
import ProductMD.Model.DiscInfo
import ProductMD.Model.IniText
/-!
# C04 — treeinfo and discinfo survive a write/read cycle

What is proved here, for trees of any size (any number of variants, any nesting depth, any number of platforms,
images, checksums):

* `C04_tree_written` — the document `TreeInfo.dump` hands to `SortedConfigParser.write` contains, for **every** variant
  at **every** depth, one section of its own (`[addon-UID]` for addons, `[variant-UID]` otherwise) holding exactly
  `varOpts`: id, uid, name, type, each of the path kinds of the generated field list that is set, the parent's UID
  for children, and the sorted child UIDs; section names are pairwise distinct; `[release]`, `[tree]` (with the sorted
  top-level UIDs) and the other sections hold exactly the tree's facts (`docList`).
* `C04_release_readback` — the `[release]` reader returns the release facts from that document.
* `C04_disc_readback_partial` — the discinfo reader inverts the writer on the list of lines.

The full statement `serialize t mv = .ok d → deserialize fo d = .ok (norm t)` (kept below as a comment with the
hypotheses the proof attempt forced) is validated on every generated case by the correspondence check
(`ti_cycle`: model load = `norm` = real load) but is NOT proved in Lean for the reader of the forest.
-/
namespace PM
open Ini TI

/-- **Writer faithfulness, unbounded.**  If `dump` accepts the tree then in the written document every variant `x.2`
of the forest (with parent UID `x.1`) is found under its own section name with exactly its facts, all section names
are distinct, and the number of sections is that of `docList`. -/
theorem C04_tree_written (t : TreeInfo) (mv : Option Str) (d : Ini) (h : serialize t mv = .ok d) :
    ∃ g, (∀ s, d.lookup s = (docList t g).lookup s) ∧ ((docList t g).map (·.1)).Nodup ∧ d.length = (docList t g).length ∧
      ∀ x ∈ subVs none t.variants, d.lookup (secName x.2.type x.2.uid) = some (varOpts x.1 x.2) := by
  obtain ⟨n, key, v, w⟩ := serialize_spec h
  exact ⟨_, w.look, w.nodup, w.length, fun x hx => written_variant w x hx⟩

/-- the identifying options of a variant section are the variant's own (the path kinds cannot shadow them: a
`decide`d condition on the generated field list) -/
theorem C04_path_fields_disjoint :
    ∀ f ∈ Gen.TREEINFO_PATH_FIELDS, f ≠ kId ∧ f ≠ kUid ∧ f ≠ kName ∧ f ≠ kType ∧ f ≠ kParent ∧ f ≠ kAddons := by decide

theorem C04_path_fields_nodup : Gen.TREEINFO_PATH_FIELDS.Nodup := by decide

private theorem lookup_fixed_default (t : TreeInfo) (g : IniSec) : (docList t g).lookup DEFAULT = none := by
  rw [docList_lookup_fixed t g DEFAULT (by decide) (by decide)]
  simp only [fixedList, List.lookup_append, optSec_lookup_ne _ sMedia DEFAULT _ (by decide),
    optSec_lookup_ne _ sStage2 DEFAULT _ (by decide), optSec_lookup_ne _ sChecksums DEFAULT _ (by decide),
    baseL_lookup_ne t DEFAULT (by decide)]
  have h1 : ¬ sGeneral = DEFAULT := by decide
  have h2 : ¬ sTree = DEFAULT := by decide
  have h3 : ¬ sRelease = DEFAULT := by decide
  have h4 : ¬ sHeader = DEFAULT := by decide
  simp [lookup_cons_eq, h1, h2, h3, h4]

private theorem lookup_release' (t : TreeInfo) (g : IniSec) :
    (docList t g).lookup sRelease = some (releaseOpts t.release t.isLayered) := by
  rw [docList_lookup_fixed t g sRelease (by decide) (by decide)]
  simp only [fixedList, List.lookup_append, optSec_lookup_ne _ sMedia sRelease _ (by decide),
    optSec_lookup_ne _ sStage2 sRelease _ (by decide), optSec_lookup_ne _ sChecksums sRelease _ (by decide),
    baseL_lookup_ne t sRelease (by decide)]
  have h1 : ¬ sGeneral = sRelease := by decide
  have h2 : ¬ sTree = sRelease := by decide
  simp [lookup_cons_eq, h1, h2]

/-- the written document has no `[DEFAULT]` block, so `get`/`has_option` never fall back -/
theorem C04_no_default (t : TreeInfo) (mv : Option Str) (d : Ini) (h : serialize t mv = .ok d) : Ini.NoDefault d := by
  obtain ⟨n, key, v, w⟩ := serialize_spec h
  unfold Ini.NoDefault
  rw [w.look, lookup_fixed_default]

/-- **`[release]` read back.**  The current-format reader returns the release's name, short name, version and the
layered flag from the written document. -/
theorem C04_release_readback (t : TreeInfo) (mv : Option Str) (d : Ini) (h : serialize t mv = .ok d) :
    deRelease .v1_0 d = .ok (t.release, t.isLayered) := by
  have hnd := C04_no_default t mv d h
  have hval : validateClass "treeinfo.Release" (releaseObj t.release t.isLayered) = .ok () := by
    unfold serialize at h
    obtain ⟨_, _, h⟩ := bind_ok h
    unfold serializeInto at h
    obtain ⟨_, _, h⟩ := bind_ok h
    obtain ⟨d1, h1, h⟩ := bind_ok h
    obtain ⟨d2, h2, h⟩ := bind_ok h
    exact (serRelease_spec h2).2
  obtain ⟨n, key, v, w⟩ := serialize_spec h
  have hR : d.lookup sRelease = some (releaseOpts t.release t.isLayered) := by rw [w.look, lookup_release']
  have hD : Ini.defaults d = [] := by unfold Ini.defaults; rw [hnd]; rfl
  have e1 : (sRelease == DEFAULT) = false := by decide
  have e2 : sRelease.isEmpty = false := by decide
  have hget : ∀ k v, (releaseOpts t.release t.isLayered).lookup k = some v → Ini.get d sRelease k = .ok v := by
    intro k v hk; simp [Ini.get, hR, hk]
  have hhas : ∀ k, Ini.hasOption d sRelease k = ((releaseOpts t.release t.isLayered).lookup k).isSome := by
    intro k; simp [Ini.hasOption, e1, e2, hR, hD]
  have n1 : ¬ kVersion = kName := by decide
  have n2 : ¬ kShort = kName := by decide
  have n3 : ¬ kIsLayered = kName := by decide
  have n4 : ¬ kShort = kVersion := by decide
  have n5 : ¬ kIsLayered = kVersion := by decide
  have n6 : ¬ kIsLayered = kShort := by decide
  have n7 : ¬ kName = kIsLayered := by decide
  have n8 : ¬ kVersion = kIsLayered := by decide
  have n9 : ¬ kShort = kIsLayered := by decide
  have l1 : (releaseOpts t.release t.isLayered).lookup kName = some t.release.name := by
    cases t.isLayered <;> simp [releaseOpts, lookup_setsKV, lookup_cons_eq, n1, n2, n3]
  have l2 : (releaseOpts t.release t.isLayered).lookup kVersion = some t.release.version := by
    cases t.isLayered <;> simp [releaseOpts, lookup_setsKV, lookup_cons_eq, n4, n5]
  have l3 : (releaseOpts t.release t.isLayered).lookup kShort = some t.release.short := by
    cases t.isLayered <;> simp [releaseOpts, lookup_setsKV, lookup_cons_eq, n6]
  have l4 : (releaseOpts t.release t.isLayered).lookup kIsLayered = if t.isLayered then some "true".toList else none := by
    cases t.isLayered <;> simp [releaseOpts, lookup_setsKV, lookup_cons_eq, n7, n8, n9, n3, n5, n6]
  have hb : Ini.toBoolean ['t', 'r', 'u', 'e'] = .ok true := by rfl
  have eta : ({ name := t.release.name, short := t.release.short, version := t.release.version } : Product) = t.release := by
    cases t.release; rfl
  unfold deRelease
  simp only [hget _ _ l1, hget _ _ l2, hget _ _ l3, hhas, l3, l4, bind, Except.bind, pure, Except.pure, Option.isSome_some, if_true]
  cases hl : t.isLayered
  · simp [hl] at hval ⊢
    first | done | simp [hval, eta]
  · have hgl : Ini.get d sRelease kIsLayered = .ok "true".toList := hget _ _ (by rw [l4, hl]; rfl)
    simp [hl, Ini.getBoolean, hgl, hb, bind, Except.bind] at hval ⊢
    first | done | simp [hval, hb, eta]

/-- the decimal list of disc numbers reads back (a fact about `str(int)` / `int(str)` and `split(",")`, validated per case) -/
def DiscsRT : DI.Discs → Prop
  | .all => True
  | .nums ns =>
    let dn := Str.strip (Str.joinWith ',' (ns.map Str.intStr))
    dn.isEmpty = false ∧ (dn == "ALL".toList) = false ∧ DI.mapMInt (Str.splitOn ',' dn) = .ok ns

/-- **discinfo, on the list of lines the writer hands to `build_file`.**  Hypotheses (each justified against the
quantifier): `float(repr x) = x` for the finite timestamp (`hts`, CPython); description and arch without outer blanks,
description not starting or ending with a quote character (F17d outside); the integer list reads back (`hd`).
Missing for the full statement: the join/split of the four lines at line feeds (validated per case). -/
theorem C04_disc_readback_partial (fo : FloatOracle) (x : DI.DiscInfo) (lines : List Str)
    (h : DI.serialize x = .ok lines)
    (hts : fo.reprOfFloatStr (Str.strip (Str.strip x.timestamp)) = .ok x.timestamp)
    (hdesc : Str.strip x.description = x.description) (hq : DI.stripQuotes x.description = x.description)
    (harch : Str.strip x.arch = x.arch) (hd : DiscsRT x.discs) :
    DI.deserialize fo lines = .ok x := by
  unfold DI.serialize at h
  obtain ⟨u, hv, h⟩ := bind_ok h
  cases u
  injection h with h
  subst h
  obtain ⟨ts, desc, arch, discs⟩ := x
  simp only at hts hdesc hq harch hd hv
  cases discs with
  | all =>
    have e : Str.strip ['A', 'L', 'L'] = ['A', 'L', 'L'] := by decide
    simp [DI.deserialize, hts, hdesc, hq, harch, e, hv]
  | nums ns =>
    obtain ⟨h1, h2, h3⟩ := hd
    simp only [DI.deserialize, hts, hdesc, hq, harch, h1, h2, h3, Bool.false_or, Except.map, hv]
    simp [hv]

/-! ### non-vacuity -/
def C04_exTree : TreeInfo :=
  { headerVersion := "0.0".toList, release := ⟨"Fedora".toList, "F".toList, "21".toList⟩, isLayered := true,
    baseProduct := some ⟨"Base".toList, "B".toList, "7".toList⟩,
    tree := ⟨"x86_64".toList, .int 1417653911, ["xen".toList, "x86_64".toList]⟩,
    variants := [.mk "Server-optional".toList "optional".toList "Server-optional".toList "opt".toList "optional".toList [] [],
                 .mk "Server".toList "Server".toList "Server".toList "Server".toList "variant".toList
                    [("packages".toList, "Packages".toList), ("identity".toList, "id.pem".toList)]
                    [.mk "HA".toList "HA".toList "Server-HA".toList "HA".toList "addon".toList []
                      [.mk "X".toList "X".toList "Server-HA-X".toList "X".toList "variant".toList [] []]]],
    checksums := [("images/boot.iso".toList, "sha256".toList, "ab".toList)],
    images := [("x86_64".toList, [("kernel".toList, "images/vmlinuz".toList)])],
    mainimage := some "LiveOS/squashfs.img".toList, instimage := none, discnum := some 1, totaldiscs := some 2 }

/-- the hypothesis of `C04_tree_written` / `C04_release_readback` is satisfiable by a layered tree with a dashed
top-level UID and three levels of nesting; the written text is representable -/
example : (serialize C04_exTree none).toBool = true := by decide +kernel
example : (serialize C04_exTree none).toOption.map (fun d => IniText.Representable d) = some true := by decide +kernel
example : (subVs none C04_exTree.variants).length = 4 := by decide +kernel

/-- the hypotheses of `C04_disc_readback_partial` are satisfiable -/
example : DiscsRT (.nums [1, 2, 10]) := ⟨by decide, by decide, by rfl⟩
example : DiscsRT .all := trivial
example : Str.strip "Fedora 21".toList = "Fedora 21".toList ∧ DI.stripQuotes "Fedora 21".toList = "Fedora 21".toList := by decide
example : (DI.serialize ⟨"1417653911.123".toList, "Fedora 21".toList, "x86_64".toList, .nums [1, 2]⟩).toBool = true := by
  decide +kernel

end PM
