import ProductMD.Proofs.TextOKDecide
import ProductMD.Proofs.TreeInfoAligned
import ProductMD.Proofs.TreeInfoSecondDump
import ProductMD.Proofs.TreeInfoDecEq
import ProductMD.Model.TreeInfoText
import ProductMD.Model.DiscInfo
import ProductMD.Proofs.DiscInfoRT
/-!
# C04 — treeinfo and discinfo survive a write/read cycle

For trees of any size — any number of top-level variants, children of every type at any depth, any number of
platforms, images and checksums:

* `C04_tree_written`   — writer: every fact of every variant is in the document, under a section of its own.
* `C04_tree_readback`  — **`serialize t mv = ok d → deserialize fo d = ok (norm t)`**: the assembled current-format
  reader (header, release, base product, `[tree]`, the forest with the F7 section fallback, checksums, images with the
  platform-suffix rule, stage2, media) returns the documented normal form of the tree.
* `C04_tree_fixpoint`  — on a tree in normal form (`norm t = t`) the reader returns the tree itself; no validity
  hypothesis is left (it follows from the dump having succeeded), and a second dump yields the same document.
* `C04_tree_text`      — the same through the text: `loads (dumps t) = ok (norm t)`; the reader side is the proved
  `parse ∘ render` theorem of `Proofs/IniRoundTrip.lean`, extended here to the comment-named `; WARNING.n` options of
  `[general]` which the writer emits and the reader skips.
* `C04_tree_bytes`     — `dumps (loads (dumps t)) = dumps t` for every tree the writer accepts with top-level variants filed under
  their UID: the re-read object can be written again and shows the same bytes (`C04_tree_second_dump` on the document).
* `C04_disc_readback`  — discinfo, on the text.

Every hypothesis is a decidable property of the tree (or of the written document) and is justified against the
quantifier of the property next to its definition; regions where the real library violates the property are
excluded by an explicit hypothesis and have a `decide`d witness below (F8, F17, F24, F25).
Dictionaries are association lists; `norm` puts them in `SortedDict` order, so "normal form" fixes the representative
of each Python dict — independence of the bytes from the insertion order is C08.
-/
namespace PM
open Ini TI

/-- **Writer faithfulness, unbounded.** -/
theorem C04_tree_written (t : TreeInfo) (mv : Option Str) (d : Ini) (h : serialize t mv = .ok d) :
    ∃ g, (∀ s, d.lookup s = (docList t g).lookup s) ∧ ((docList t g).map (·.1)).Nodup ∧ d.length = (docList t g).length ∧
      ∀ x ∈ subVs none t.variants, d.lookup (secName x.2.type x.2.uid) = some (varOpts x.1 x.2) := by
  obtain ⟨n, key, v, w⟩ := serialize_spec h
  exact ⟨_, w.look, w.nodup, w.length, fun x hx => written_variant w x hx⟩

/-- the path kinds cannot shadow the identifying options of a variant section (obligation on the generated field list) -/
theorem C04_path_fields_disjoint :
    ∀ f ∈ Gen.TREEINFO_PATH_FIELDS, f ≠ kId ∧ f ≠ kUid ∧ f ≠ kName ∧ f ≠ kType ∧ f ≠ kParent ∧ f ≠ kAddons := by decide

theorem C04_path_fields_nodup : Gen.TREEINFO_PATH_FIELDS.Nodup := by decide

/-- the "seven path kinds" of the property are EXACTLY the generated field list, and the variant types exactly the three
documented ones (equalities, both inclusions: a kind added to or dropped from the code breaks this) -/
theorem C04_tables_documented :
    Gen.TREEINFO_PATH_FIELDS = ["packages", "repository", "source_packages", "source_repository", "debug_packages", "debug_repository",
      "identity"].map String.toList ∧
    Gen.TREEINFO_VARIANT_TYPES = ["variant", "optional", "addon"].map String.toList := by decide

/-- the written document has no `[DEFAULT]` block, so `get`/`has_option` never fall back -/
theorem C04_no_default (t : TreeInfo) (mv : Option Str) (d : Ini) (h : serialize t mv = .ok d) : Ini.NoDefault d := by
  obtain ⟨n, key, v, w⟩ := serialize_spec h
  exact w.view.noDefault

/-- **C04, trees, on the document.**  Hypotheses (all decidable):
* `hts`/`hfl` — integer build timestamp that survives `int(float(str n))` (true for `|n| ≤ 2^53`; beyond: F17); a bool is no
  integer any more (F43 repaired: `C04_bool_timestamp_refused`), so `hts` excludes float timestamps only;
* `hplat`, `huok` — platform names and UIDs are non-empty and free of `,` (they travel in comma-separated options: a name
  with a comma is not representable in the file syntax);
* `hnd` — UIDs are pairwise distinct in the forest (a UID identifies a variant; that sibling ids are then distinct too is
  derived from the UID alignment the generated validator enforces: `kidIds_of_valid`);
* `htop` — no top-level variant of type `addon` (F24);
* `hcs` — checksum paths are dictionary keys, type and value free of `:` (the `type:value` syntax);
* `himg` — image names are dictionary keys; no platform with images is called `<x>-<tree arch>` (F25);
* `hv` — the normal form passes the validators the reader runs (`ReadValid`; for a tree already in normal form this
  follows from the dump having succeeded: `C04_tree_fixpoint`). -/
theorem C04_tree_readback (fo : FloatOracle) (t : TreeInfo) (mv : Option Str) (d : Ini) (n : Int)
    (h : serialize t mv = .ok d)
    (hts : t.tree.ts = .int n) (hfl : fo.intOfFloatStr (Str.intStr n) = .ok n)
    (hplat : PlatformsOK t.tree) (huok : UidsOK t.variants) (hnd : UidsNodup t.variants) 
    (htop : TopNotAddon t.variants) (hcs : ChecksumsOK t.checksums) (himg : ImagesOK t.tree.arch t.images)
    (hv : ReadValid (norm t)) :
    deserialize fo d = .ok (norm t) := by
  obtain ⟨n0, key, chosen, w⟩ := serialize_spec h
  exact readback_of_view fo t mv d d n n0 key chosen w (serialize_valid h) w.view hts hfl hplat ⟨huok, hnd, kidIds_of_valid (serialize_valid h).forest hnd, htop⟩ hcs himg
    (fun _ => trivial) (fun _ _ => trivial) hv

/-- **C04, trees in normal form: the cycle is the identity**, and the second dump produces the same document. -/
theorem C04_tree_fixpoint (fo : FloatOracle) (t : TreeInfo) (mv : Option Str) (d : Ini) (n : Int)
    (h : serialize t mv = .ok d) (hnorm : norm t = t)
    (hts : t.tree.ts = .int n) (hfl : fo.intOfFloatStr (Str.intStr n) = .ok n)
    (hplat : PlatformsOK t.tree) (huok : UidsOK t.variants) (hnd : UidsNodup t.variants) 
    (htop : TopNotAddon t.variants) (hcs : ChecksumsOK t.checksums) (himg : ImagesOK t.tree.arch t.images) :
    deserialize fo d = .ok t ∧ (deserialize fo d).bind (serialize · mv) = .ok d := by
  have hv : ReadValid (norm t) := by rw [hnorm]; exact readValid_of_normal (serialize_valid h) hnorm
  have := C04_tree_readback fo t mv d n h hts hfl hplat huok hnd htop hcs himg hv
  rw [hnorm] at this
  exact ⟨this, by rw [this]; exact h⟩

/-! ### F43 repaired: a bool is no build timestamp

`Tree.build_timestamp = True` used to pass `_assert_type("build_timestamp", [int, float])` (`bool <: int`), was written as
`build_timestamp = True`, and the file could not be loaded (`float("True")`).  `_assert_type` now accepts a bool only where
`bool` is listed (`Gen.assertTypeBoolStrict`, translated from the method's body): such a tree is refused by the writer, so the
excluded region of `hts` (`t.tree.ts = .int n`) contains floats only. -/

theorem tree_validate_unfold (o : Obj) : validateClass "treeinfo.Tree" o = runRules customs o Gen.rules_treeinfo_Tree.flat := by rfl

theorem rule_build_timestamp_mem : Rule.type kBuildTs [.int, .float] ∈ Gen.rules_treeinfo_Tree.flat := by
  simp only [Gen.rules_treeinfo_Tree, MethodRules.flat, List.flatMap_cons, List.flatMap_nil, List.cons_append, List.nil_append, List.append_nil]
  repeat (first | exact List.Mem.head _ | apply List.Mem.tail)

/-- **a tree whose build timestamp is a bool is not written** (every tree, either truth value) … -/
theorem C04_bool_timestamp_refused (t : TreeInfo) (mv : Option Str) (b : Bool) (hb : t.tree.ts = .bool b) (d : Ini) :
    serialize t mv ≠ .ok d := by
  intro h
  have hv := (serialize_valid h).tree
  rw [tree_validate_unfold] at hv
  have h1 := Rule.check_type_ok ((runRules_ok_iff _ _ _).mp hv _ rule_build_timestamp_mem)
  have hg : (treeObj t.tree).get kBuildTs = .bool b := by
    cases ht : t.tree with
    | mk arch ts platforms =>
      rw [ht] at hb; simp only at hb; subst hb; rfl
  rw [hg] at h1
  cases b <;> cases h1

/-- … consequently a written tree's timestamp is an int or a float … -/
theorem C04_written_timestamp_int_or_float (t : TreeInfo) (mv : Option Str) (d : Ini) (h : serialize t mv = .ok d) :
    (∃ n, t.tree.ts = .int n) ∨ (∃ r i, t.tree.ts = .float r i) := by
  cases hts : t.tree.ts with
  | int n => exact .inl ⟨n, rfl⟩
  | float r i => exact .inr ⟨r, i, rfl⟩
  | bool b => exact absurd h (C04_bool_timestamp_refused t mv b hts d)

/-- `TextOK sp d` (`Proofs/TextOKDecide.lean`): the written document can travel as text — no line feed anywhere, and what the
reader is to return (the sorted document without the comment-named options) is representable: single-line values and
option names without outer blanks, names free of `=`/`:` and not starting with `#`, `;`, `[`.  For CPython's blank
predicate it follows from the Boolean criterion the driver evaluates on every case: -/
theorem C04_textOK_criterion (d : Ini) (h : IniText.Representable d = true) : TextOK Str.isPySpace d :=
  textOK_of_representable d h

/-- **C04, trees, through the text.**  Beyond `C04_tree_readback`: `sp` is the blank predicate of `str.strip()` with
the five facts of `SpOK` and `#`, `;` not blank; the written document satisfies `TextOK`; checksum paths and image names
do not start with `#`/`;` (as the quantifier says). -/
theorem C04_tree_text (sp : Char → Bool) (hsp : IniParse.SpOK sp) (hh : sp '#' = false) (hs : sp ';' = false)
    (fo : FloatOracle) (t : TreeInfo) (mv : Option Str) (text : Str) (n : Int)
    (h : dumps t mv = .ok text)
    (htext : ∀ d, serialize t mv = .ok d → TextOK sp d)
    (hck : ∀ c ∈ t.checksums, nc c.1 = true) (himn : ∀ p ∈ t.images, ∀ kv ∈ p.2, nc kv.1 = true)
    (hts : t.tree.ts = .int n) (hfl : fo.intOfFloatStr (Str.intStr n) = .ok n)
    (hplat : PlatformsOK t.tree) (huok : UidsOK t.variants) (hnd : UidsNodup t.variants) 
    (htop : TopNotAddon t.variants) (hcs : ChecksumsOK t.checksums) (himg : ImagesOK t.tree.arch t.images)
    (hv : ReadValid (norm t)) :
    loads sp fo text = .ok (norm t) := by
  unfold dumps at h
  cases hser : serialize t mv with
  | error e => rw [hser] at h; cases h
  | ok d =>
    rw [hser] at h
    simp only [Except.map] at h
    injection h with h
    subst h
    obtain ⟨n0, key, chosen, w⟩ := serialize_spec hser
    obtain ⟨hnl, hrep⟩ := htext d hser
    have hparse : IniParse.parse sp (IniText.render d) = .ok (readDoc d) := by
      rw [render_eq_canon d w.view.noDefault]
      exact IniParse.parse_render_dropComments hsp hh hs _ hnl hrep
    unfold loads
    rw [hparse]
    show deserialize fo (readDoc d) = .ok (norm t)
    refine readback_of_view fo t mv d (readDoc d) n n0 key chosen w (serialize_valid hser) (view_readDoc w.view) hts hfl hplat
      ⟨huok, hnd, kidIds_of_valid (serialize_valid hser).forest hnd, htop⟩ hcs himg ?_ ?_ hv
    · intro _ kv hkv
      rw [checksumOpts_eq _ hcs.1] at hkv
      obtain ⟨c, hc, rfl⟩ := List.mem_map.mp hkv
      exact hck c hc
    · intro p hp kv hkv
      rw [setsKV_nil_nodup _ (himg.1 p hp)] at hkv
      exact himn p hp kv hkv

/-- C04, trees in normal form: the cycle is the identity on the text as well (no validity hypothesis left). -/
theorem C04_tree_bytes_normal (sp : Char → Bool) (hsp : IniParse.SpOK sp) (hh : sp '#' = false) (hs : sp ';' = false)
    (fo : FloatOracle) (t : TreeInfo) (mv : Option Str) (text : Str) (n : Int)
    (h : dumps t mv = .ok text) (hnorm : norm t = t)
    (htext : ∀ d, serialize t mv = .ok d → TextOK sp d)
    (hck : ∀ c ∈ t.checksums, nc c.1 = true) (himn : ∀ p ∈ t.images, ∀ kv ∈ p.2, nc kv.1 = true)
    (hts : t.tree.ts = .int n) (hfl : fo.intOfFloatStr (Str.intStr n) = .ok n)
    (hplat : PlatformsOK t.tree) (huok : UidsOK t.variants) (hnd : UidsNodup t.variants) 
    (htop : TopNotAddon t.variants) (hcs : ChecksumsOK t.checksums) (himg : ImagesOK t.tree.arch t.images) :
    loads sp fo text = .ok t ∧ (loads sp fo text).bind (dumps · mv) = .ok text := by
  have hser : ∃ d, serialize t mv = .ok d := by
    unfold dumps at h
    cases hs' : serialize t mv with
    | error e => rw [hs'] at h; cases h
    | ok d => exact ⟨d, rfl⟩
  obtain ⟨d, hd⟩ := hser
  have hv : ReadValid (norm t) := by rw [hnorm]; exact readValid_of_normal (serialize_valid hd) hnorm
  have := C04_tree_text sp hsp hh hs fo t mv text n h htext hck himn hts hfl hplat huok hnd htop hcs himg hv
  rw [hnorm] at this
  exact ⟨this, by rw [this]; exact h⟩

/-- **C04, trees: writing the re-read object reproduces the file byte for byte.**  For any tree the writer accepts (not only
normal forms): the re-read object `norm t` can be written again (`serialize_conv`: every validator passes, every section name is
fresh) and its document renders to the same bytes (`render_norm`: same sections with the same options up to creation order,
which `SortedConfigParser.write` does not show).  Beyond `C04_tree_text`: every top-level variant is filed under its UID (`hk`;
outside: F8, witness below) and the requested main variant, if any, is the key of a top-level variant (`hmv`). -/
theorem C04_tree_bytes (sp : Char → Bool) (hsp : IniParse.SpOK sp) (hh : sp '#' = false) (hs : sp ';' = false)
    (fo : FloatOracle) (t : TreeInfo) (mv : Option Str) (text : Str) (n : Int)
    (h : dumps t mv = .ok text)
    (htext : ∀ d, serialize t mv = .ok d → TextOK sp d)
    (hck : ∀ c ∈ t.checksums, nc c.1 = true) (himn : ∀ p ∈ t.images, ∀ kv ∈ p.2, nc kv.1 = true)
    (hts : t.tree.ts = .int n) (hfl : fo.intOfFloatStr (Str.intStr n) = .ok n)
    (hplat : PlatformsOK t.tree) (huok : UidsOK t.variants) (hnd : UidsNodup t.variants)
    (htop : TopNotAddon t.variants) (hcs : ChecksumsOK t.checksums) (himg : ImagesOK t.tree.arch t.images)
    (hv : ReadValid (norm t)) (hk : TopKeyedByUid t.variants) (hmv : MainVariantTop t mv) :
    loads sp fo text = .ok (norm t) ∧ (loads sp fo text).bind (dumps · mv) = .ok text := by
  have hload := C04_tree_text sp hsp hh hs fo t mv text n h htext hck himn hts hfl hplat huok hnd htop hcs himg hv
  refine ⟨hload, ?_⟩
  rw [hload]
  unfold dumps at h
  cases hser : serialize t mv with
  | error e => rw [hser] at h; cases h
  | ok d =>
    rw [hser] at h
    simp only [Except.map] at h
    injection h with h
    obtain ⟨d', hd', hr⟩ := second_dump hser hv hk hnd hmv hcs.1 himg.1
    show dumps (norm t) mv = .ok text
    unfold dumps
    rw [hd']
    simp only [Except.map, hr, h]

/-- the same on the document, without the text layer: the second document renders like the first -/
theorem C04_tree_second_dump (t : TreeInfo) (mv : Option Str) (d : Ini) (h : serialize t mv = .ok d) (hv : ReadValid (norm t))
    (hk : TopKeyedByUid t.variants) (hnd : UidsNodup t.variants) (hmv : MainVariantTop t mv)
    (hcs : ChecksumsOK t.checksums) (himg : ImagesOK t.tree.arch t.images) :
    ∃ d', serialize (norm t) mv = .ok d' ∧ IniText.render d' = IniText.render d :=
  second_dump h hv hk hnd hmv hcs.1 himg.1

/-- `C04_tree_bytes_normal` for CPython's `str.isspace`, with the decidable representability criterion -/
theorem C04_tree_bytes_normal_py (fo : FloatOracle) (t : TreeInfo) (mv : Option Str) (text : Str) (n : Int)
    (h : dumps t mv = .ok text) (hnorm : norm t = t)
    (hrep : ∀ d, serialize t mv = .ok d → IniText.Representable d = true)
    (hck : ∀ c ∈ t.checksums, nc c.1 = true) (himn : ∀ p ∈ t.images, ∀ kv ∈ p.2, nc kv.1 = true)
    (hts : t.tree.ts = .int n) (hfl : fo.intOfFloatStr (Str.intStr n) = .ok n)
    (hplat : PlatformsOK t.tree) (huok : UidsOK t.variants) (hnd : UidsNodup t.variants) 
    (htop : TopNotAddon t.variants) (hcs : ChecksumsOK t.checksums) (himg : ImagesOK t.tree.arch t.images) :
    loads Str.isPySpace fo text = .ok t ∧ (loads Str.isPySpace fo text).bind (dumps · mv) = .ok text :=
  C04_tree_bytes_normal Str.isPySpace spOK_py py_hash py_semi fo t mv text n h hnorm
    (fun d hd => textOK_of_representable d (hrep d hd)) hck himn hts hfl hplat huok hnd htop hcs himg

/-! ### non-vacuity: a layered tree with a dashed top-level UID, three levels, children of all three types -/

def C04_exTree0 : TreeInfo :=
  { headerVersion := "0.0".toList, release := ⟨"Fedora".toList, "F".toList, "21".toList⟩, isLayered := true,
    baseProduct := some ⟨"Base".toList, "B".toList, "7".toList⟩,
    tree := ⟨"x86_64".toList, .int 1417653911, ["xen".toList]⟩,
    variants := [.mk "Server-optional".toList "optional".toList "Server-optional".toList "opt".toList "optional".toList [] [],
                 .mk "Server".toList "Server".toList "Server".toList "Server".toList "variant".toList
                    [("packages".toList, "Packages".toList), ("identity".toList, "id.pem".toList)]
                    [.mk "HA".toList "HA".toList "Server-HA".toList "HA".toList "addon".toList []
                      [.mk "X".toList "X".toList "Server-HA-X".toList "X".toList "variant".toList [] []],
                     .mk "AA".toList "AA".toList "Server-AA".toList "AA".toList "optional".toList [] []]],
    checksums := [("images/boot.iso".toList, "sha256".toList, "ab".toList)],
    images := [("xen".toList, [("kernel".toList, "images/vmlinuz".toList), ("Initrd".toList, "images/initrd".toList)])],
    mainimage := some "LiveOS/squashfs.img".toList, instimage := some [], discnum := some 1, totaldiscs := some 2 }

/-- its normal form (children and dictionaries sorted, `x86_64` among the platforms, empty `instimage` unset) -/
def C04_exTree : TreeInfo := norm C04_exTree0

/-- CPython's `int(float(s))` on the strings the examples need: exact below 2^53, rounding `2^53 + 1` down -/
def C04_fo : FloatOracle :=
  { intOfFloatStr := fun s => if s = "9007199254740993".toList then .ok 9007199254740992 else Str.pyInt s
    reprOfFloatStr := fun s => .ok s }

example : norm C04_exTree0 ≠ C04_exTree0 ∧ norm C04_exTree = C04_exTree := by decide +kernel
example : (serialize C04_exTree none).toBool = true ∧ (serialize C04_exTree0 none).toBool = true := by decide +kernel
/-- every hypothesis of `C04_tree_readback` / `C04_tree_fixpoint` holds of the example -/
example : C04_exTree.tree.ts = .int 1417653911 ∧ C04_fo.intOfFloatStr (Str.intStr 1417653911) = .ok 1417653911 ∧
    PlatformsOK C04_exTree.tree ∧ UidsOK C04_exTree.variants ∧ UidsNodup C04_exTree.variants ∧
    TopNotAddon C04_exTree.variants ∧ ChecksumsOK C04_exTree.checksums ∧ ImagesOK C04_exTree.tree.arch C04_exTree.images := by
  decide +kernel
/-- the text-level hypotheses hold too: the written document meets the representability criterion, no checksum path or
image name is comment-like -/
example : (serialize C04_exTree none).toOption.map IniText.Representable = some true ∧
    (∀ c ∈ C04_exTree.checksums, nc c.1 = true) ∧ (∀ p ∈ C04_exTree.images, ∀ kv ∈ p.2, nc kv.1 = true) := by decide +kernel
instance (vs : List Variant) : Decidable (TopKeyedByUid vs) := by unfold TopKeyedByUid; infer_instance
/-- the extra hypotheses of `C04_tree_bytes` hold of the un-normalised example: top-level variants filed under their UID, no
main variant requested (or the key of a top-level variant), and the normal form passes the reader's validators -/
example : TopKeyedByUid C04_exTree0.variants ∧ (∃ v ∈ C04_exTree0.variants, v.key = "Server".toList) := by decide +kernel
example : MainVariantTop C04_exTree0 none := fun _ h => nomatch h
example : ReadValid (norm C04_exTree0) := by
  have hn : norm C04_exTree = C04_exTree := by decide +kernel
  cases hs : serialize C04_exTree none with
  | error e =>
    have : (serialize C04_exTree none).toBool = true := by decide +kernel
    rw [hs] at this; cases this
  | ok d => exact readValid_of_normal (serialize_valid hs) hn
/-- F43 repaired, evaluated on the example: with `build_timestamp = True` the writer raises TypeError -/
theorem C04_bool_timestamp_refused_witness :
    (match serialize { C04_exTree with tree := { C04_exTree.tree with ts := .bool true } } none with
     | .error .typeError => true | _ => false) = true := by decide +kernel
/-- …and the conclusion, evaluated: reading the written document gives the tree back; for the un-normalised tree its normal form -/
example : (serialize C04_exTree none).toOption.map (deserialize C04_fo) = some (.ok C04_exTree) := by decide +kernel
example : (serialize C04_exTree0 none).toOption.map (deserialize C04_fo) = some (.ok (norm C04_exTree0)) := by decide +kernel

/-! ### witnesses for the excluded regions (real defects, replayed on the library by the check) -/

def C04_one (key id uid type : Str) : TreeInfo :=
  { headerVersion := "0.0".toList, release := ⟨"Fedora".toList, "F".toList, "21".toList⟩, isLayered := false, baseProduct := none,
    tree := ⟨"x86_64".toList, .int 7, ["x86_64".toList]⟩,
    variants := [.mk key id uid "n".toList type [] []],
    checksums := [], images := [], mainimage := none, instimage := none, discnum := none, totaldiscs := none }

/-- F8: a top-level variant with UID ≠ id filed under its id comes back filed under its UID, and `[general] variants` of
the second dump differs from the first -/
theorem C04_F8_witness :
    let t := C04_one "optional".toList "optional".toList "Server-optional".toList "optional".toList
    (serialize t none).toOption.map (fun d => ((deserialize C04_fo d).toOption.map fun t' =>
        (t'.variants.map Variant.key, ((serialize t' none).toOption.map fun d' => opt d' sGeneral kVariants), opt d sGeneral kVariants)))
      = some (some (["Server-optional".toList], some (some "Server-optional".toList), some "optional".toList)) := by
  decide +kernel

/-- F17: an integer timestamp beyond 2^53 comes back changed (with CPython's rounding of `float("9007199254740993")`) -/
theorem C04_F17_witness :
    let t := { C04_one "S".toList "S".toList "S".toList "variant".toList with
               tree := ⟨"x86_64".toList, .int 9007199254740993, ["x86_64".toList]⟩ }
    (serialize t none).toOption.map (fun d => (deserialize C04_fo d).toOption.map (·.tree.ts.str))
      = some (some "9007199254740992".toList) := by
  decide +kernel

/-- F24: a top-level variant of type `addon` is written but cannot be read back (`NoSectionError`) -/
theorem C04_F24_witness :
    (serialize (C04_one "HA".toList "HA".toList "HA".toList "addon".toList) none).toOption.map (deserialize C04_fo)
      = some (.error .parserError) := by
  decide +kernel

/-- F25: images for a platform called `xen-x86_64` in an `x86_64` tree are read back under `xen` and refused -/
theorem C04_F25_witness :
    let t := { C04_one "S".toList "S".toList "S".toList "variant".toList with
               tree := ⟨"x86_64".toList, .int 7, ["x86_64".toList, "xen-x86_64".toList]⟩
               images := [("xen-x86_64".toList, [("kernel".toList, "k".toList)])] }
    (serialize t none).toOption.map (deserialize C04_fo) = some (.error .valueError) := by
  decide +kernel

/-! ### discinfo -/

/-- **C04, discinfo, through the text.**  For every record the writer accepts: the float timestamp token reads back
(`hts`: `float(repr x) == x`, CPython, finite `x`; a `repr` has no blanks or line feed: `hts1`), description and arch are
single-line without outer blanks (`strip()` on write would alter them: F17d), the description does not start or end with a
quote character (F17d), the disc numbers are `ALL` or any non-empty list of integers.  The decimal round trip of the
numbers and the join/split of the four lines are proved, not assumed. -/
theorem C04_disc_readback (fo : FloatOracle) (x : DI.DiscInfo) (text : Str)
    (h : DI.dumps x = .ok text)
    (hts : fo.reprOfFloatStr x.timestamp = .ok x.timestamp) (hts1 : Str.strip x.timestamp = x.timestamp ∧ '\n' ∉ x.timestamp)
    (hdesc : Str.strip x.description = x.description ∧ '\n' ∉ x.description) (hq : DI.stripQuotes x.description = x.description)
    (harch : Str.strip x.arch = x.arch ∧ '\n' ∉ x.arch)
    (hd : x.discs = .all ∨ ∃ ns, x.discs = .nums ns ∧ ns ≠ []) :
    DI.loads fo text = .ok x := by
  obtain ⟨ts, desc, arch, discs⟩ := x
  simp only at hts hts1 hdesc hq harch hd
  unfold DI.dumps DI.serialize at h
  obtain ⟨u, hv, h⟩ : ∃ u, validateClass "discinfo.DiscInfo" (DI.obj ⟨ts, desc, arch, discs⟩) = .ok u ∧ _ := by
    cases hvv : validateClass "discinfo.DiscInfo" (DI.obj ⟨ts, desc, arch, discs⟩) with
    | error e => rw [hvv] at h; cases h
    | ok u => exact ⟨u, rfl, by rw [hvv] at h; exact h⟩
  cases u
  simp only [bind, Except.bind, pure, Except.pure, Except.map, hts1.1, hdesc.1, harch.1] at h
  injection h with h
  subst h
  -- the last line
  obtain ⟨hdsnl, hdsne, hread⟩ : '\n' ∉ DI.discsStr discs ∧ DI.discsStr discs ≠ [] ∧
      DI.readDiscs (Str.strip (Str.strip (DI.discsStr discs))) = .ok discs := by
    rcases hd with hd | ⟨ns, hd, hne⟩
    · subst hd
      exact ⟨by decide, by decide, by decide⟩
    · subst hd
      obtain ⟨r1, r2, r3, r4⟩ := DI.discs_roundtrip ns hne
      refine ⟨DI.discs_line_no_nl ns, ?_, ?_⟩
      · intro e
        simp only [DI.discsStr] at e
        rw [r4, e] at r1; cases r1
      · rw [r4] at r1 r2 r3
        simp only [DI.discsStr, DI.readDiscs, r4, r1, r2, r3, Bool.or_self, Bool.false_eq_true, if_false, Except.map]
  generalize DI.discsStr discs = ds at h hdsnl hdsne hread ⊢
  have hlines : IniParse.fileLines (DI.buildFile [ts, desc, arch, ds]) = [ts, desc, arch, ds] := by
    apply DI.fileLines_join
    · simp
    · intro l hl
      simp only [List.mem_cons, List.mem_nil_iff, or_false] at hl
      rcases hl with rfl | rfl | rfl | rfl
      · exact hts1.2
      · exact hdesc.2
      · exact harch.2
      · exact hdsnl
    · intro l hl
      simp at hl; subst hl; exact hdsne
  unfold DI.loads DI.parseFile
  rw [hlines]
  simp only [List.map, DI.deserialize, hts1.1, hdesc.1, harch.1, hts, hq, hread]
  simp [hv]

/-- the hypotheses of `C04_disc_readback` are satisfiable, with disc numbers of any sign and size -/
example : (DI.dumps ⟨"1417653911.123".toList, "Fedora 21".toList, "x86_64".toList, .nums [1, 2, -3, 10 ^ 30]⟩).toBool = true
    ∧ Str.strip "1417653911.123".toList = "1417653911.123".toList ∧ Str.strip "Fedora 21".toList = "Fedora 21".toList
    ∧ DI.stripQuotes "Fedora 21".toList = "Fedora 21".toList := by decide +kernel

end PM
