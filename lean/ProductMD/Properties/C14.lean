import ProductMD.Proofs.C14RoundTrip
import ProductMD.Proofs.C14F9
import ProductMD.Proofs.C14F9bp
import ProductMD.Proofs.C14Reorder
/-!
# C14 — release identifiers round-trip; the validity predicates accept exactly the documented names

Model: `Model/ReleaseId.lean` (`isValidRelease*`, `createReleaseId`, `parseReleaseId`, `parseReleaseIdPart` — the
code of `productmd/common.py` statement by statement, on the generated patterns and the generated table of known
release types).  Specification: `Spec/ReleaseNames.lean` (`SpecShort`, `SpecType`, `SpecVersion`: plain
predicates on `List Char`, built from `split` at the separator — no regular expression).

All theorems are for strings of any length.  Two parts of the property are false of the code and are stated with
the failing region as an explicit hypothesis plus a witness:

* F15 — CPython's `$` also matches before a final line feed, and `.` does not match a line feed:
  the predicates agree with the documented languages exactly on strings without `'\n'` (`_partial`), and the
  `_exact` theorems say what they accept on *all* strings;
* F9 — `create_release_id("my-prod", "1.0", "ga")` cannot be parsed back (`C14_F9_witness`); no decoder could,
  because creation is not injective there (`C14_not_injective`).
-/
namespace PM
open PM.Str PM.Spec PM.C14

/-! ## the predicates -/

/-- obligation on the generated file: the three patterns are (up to group marks) the ones analysed -/
theorem C14_patterns :
    Gen.re_common_RELEASE_SHORT_RE.strip = shortRe ∧ Gen.re_common_RELEASE_TYPE_RE.strip = shortRe
    ∧ Gen.re_common_RELEASE_VERSION_RE.strip = versionRe :=
  ⟨short_pattern, type_pattern, version_pattern⟩

/-- exact behaviour of `is_valid_release_short`, for every string -/
theorem C14_short_exact (s : Str) :
    isValidReleaseShort s = true ↔ SpecShort s ∨ ∃ t, s = t ++ ['\n'] ∧ SpecShort t := by
  rw [isValidReleaseShort_eq]; exact pyMatches_shortRe s

/-- exact behaviour of `is_valid_release_type`, for every string -/
theorem C14_type_exact (s : Str) :
    isValidReleaseType s = true ↔ SpecType s ∨ ∃ t, s = t ++ ['\n'] ∧ SpecType t := by
  rw [isValidReleaseType_eq]; exact pyMatches_shortRe s

/-- exact behaviour of `is_valid_release_version`, for every string; `VersionLine b` is
`SpecNumeric b ∨ (SpecFree b ∧ '\n' ∉ b.tail)` -/
theorem C14_version_exact (s : Str) :
    isValidReleaseVersion s = true ↔ VersionLine s ∨ ∃ t, s = t ++ ['\n'] ∧ VersionLine t := by
  rw [isValidReleaseVersion_eq]; exact pyMatches_versionRe s

/- Full statement (false of the code, F15):  ∀ s, isValidReleaseShort s = true ↔ SpecShort s. -/
/-- the property for short names, outside the F15 region -/
theorem C14_short_partial (s : Str) (h : '\n' ∉ s) : isValidReleaseShort s = true ↔ SpecShort s := by
  rw [C14_short_exact]
  exact ⟨fun h' => h'.elim id (fun ⟨t, e, _⟩ => absurd e (not_append_nl h)), .inl⟩

/-- the property for release types, outside the F15 region -/
theorem C14_type_partial (s : Str) (h : '\n' ∉ s) : isValidReleaseType s = true ↔ SpecType s := by
  rw [C14_type_exact]
  exact ⟨fun h' => h'.elim id (fun ⟨t, e, _⟩ => absurd e (not_append_nl h)), .inl⟩

/- Full statement (false of the code, F15):  ∀ s, isValidReleaseVersion s = true ↔ SpecVersion s. -/
/-- the property for versions, outside the F15 region -/
theorem C14_version_partial (s : Str) (h : '\n' ∉ s) : isValidReleaseVersion s = true ↔ SpecVersion s := by
  have hl : VersionLine s ↔ SpecVersion s := by
    unfold VersionLine SpecVersion
    have : '\n' ∉ s.tail := fun hm => h (List.mem_of_mem_tail hm)
    simp [this]
  rw [C14_version_exact, hl]
  exact ⟨fun h' => h'.elim id (fun ⟨t, e, _⟩ => absurd e (not_append_nl h)), .inl⟩

/-- F15, replayed on the real code: accepted although not in the documented language -/
theorem C14_short_newline_witness :
    isValidReleaseShort "f\n".toList = true ∧ ¬ SpecShort "f\n".toList := by decide +kernel
theorem C14_type_newline_witness :
    isValidReleaseType "ga\n".toList = true ∧ ¬ SpecType "ga\n".toList := by decide +kernel
/-- F15 for versions, both directions: `"1\n"` is accepted but not documented; `"a\nb"` is documented
("any non-empty string not starting with a digit") but refused -/
theorem C14_version_newline_witness :
    (isValidReleaseVersion "1\n".toList = true ∧ ¬ SpecVersion "1\n".toList)
    ∧ (isValidReleaseVersion "a\nb".toList = false ∧ SpecVersion "a\nb".toList) := by decide +kernel

/-! ## `create_release_id` refuses precisely what the predicates refuse -/

/-- without base product: the error is always `ValueError`, raised iff one of the three predicates refuses its
argument; otherwise the result is `short-version[-type]` with `ga` left out -/
theorem C14_create_value (s v t : Str) :
    createReleaseId s v t none none none =
      if isValidReleaseShort s = true ∧ isValidReleaseVersion v = true ∧ isValidReleaseType t = true
      then .ok (if t = GA then s ++ '-' :: v else s ++ '-' :: v ++ '-' :: t)
      else .error .valueError := by
  rw [createReleaseId_nobp, createPart_eq]

/-- `create_release_id` refuses precisely what the predicates refuse -/
theorem C14_create_refuses (s v t : Str) :
    (∃ e, createReleaseId s v t none none none = .error e) ↔
      ¬ (isValidReleaseShort s = true ∧ isValidReleaseVersion v = true ∧ isValidReleaseType t = true) := by
  rw [C14_create_value]
  split <;> simp_all

/-- with a base product (`bp_short` truthy): success iff all six arguments are accepted; a `None` version or type
of the base product is refused (with `TypeError`, see `createPartO`) -/
theorem C14_create_refuses_bp (s v t b : Str) (bv bt : Option Str) (hb : b ≠ []) :
    (∃ id, createReleaseId s v t (some b) bv bt = .ok id) ↔
      (isValidReleaseShort s = true ∧ isValidReleaseVersion v = true ∧ isValidReleaseType t = true)
      ∧ isValidReleaseShort b = true ∧ (∃ x, bv = some x ∧ isValidReleaseVersion x = true)
      ∧ (∃ y, bt = some y ∧ isValidReleaseType y = true) := by
  rw [createReleaseId_bp_ok_iff s v t b bv bt hb, createPartO_ok_iff, createPart_eq]
  constructor
  · rintro ⟨⟨x, hx⟩, h2⟩
    refine ⟨?_, h2⟩
    split at hx
    · assumption
    · cases hx
  · rintro ⟨h1, h2⟩
    exact ⟨by simp [h1], h2⟩

/-- in terms of the documented languages, outside the F15 region: `create_release_id` accepts exactly the
documented names -/
theorem C14_create_accepts_spec_partial (s v t : Str) (hs : '\n' ∉ s) (hv : '\n' ∉ v) (ht : '\n' ∉ t) :
    (∃ id, createReleaseId s v t none none none = .ok id) ↔ SpecShort s ∧ SpecVersion v ∧ SpecType t := by
  rw [C14_create_value, ← C14_short_partial s hs, ← C14_version_partial v hv, ← C14_type_partial t ht]
  split <;> simp_all

/-- an absent or empty `bp_short` means "no base product" (`if bp_short:`), whatever the other two are -/
theorem C14_create_bp_falsy (s v t : Str) (bv bt : Option Str) :
    createReleaseId s v t none bv bt = createReleaseId s v t none none none
    ∧ createReleaseId s v t (some []) bv bt = createReleaseId s v t none none none := by
  unfold createReleaseId
  cases createPart s v t <;> simp

/-! ## the round trip -/

/-- obligation on the generated table: what the parser's first-match loop over `RELEASE_TYPES` needs.
For entries `u` before `t`: `u` is not a suffix of `t`, and `u` does not end in `"-" ++ t`.
(On the present table even the order-independent "no type is a suffix of another" holds, so reordering the table
changes nothing; `"testing"` beside `"updates-testing"` breaks it in either order.) -/
theorem C14_types_suffix_free : FirstMatchOK Gen.RELEASE_TYPES := by decide +kernel

/-- obligation on the generated table and patterns: each of the nine DOCUMENTED release types is in the table the
parser consults and is accepted by `create_release_id`, so `C14_roundtrip_partial` covers all nine (in particular
the dashed `updates-testing`, which only parses back because it is in the table, and `e4s` with its digit).
The converse inclusion is deliberately not an obligation: an extra table entry is harmless for this property as long
as `C14_types_suffix_free` holds, and the harness generates from the union of both lists. -/
theorem C14_types_documented :
    ∀ t ∈ Spec.knownTypes, t ∈ Gen.RELEASE_TYPES ∧ isValidReleaseType t = true := by decide +kernel

/-- Reordering the table is harmless as long as no entry is a suffix of a different entry (true of the present
table, see the example below): the parser — here with the table as a parameter, `parsePartWith Gen.RELEASE_TYPES`
being `parseReleaseIdPart` by `rfl` — gives the same result on EVERY identifier for every permutation. -/
theorem C14_reorder_harmless (l : List Str) (hp : Gen.RELEASE_TYPES.Perm l)
    (h : SuffixAntichain Gen.RELEASE_TYPES) (rid : Str) :
    parsePartWith l rid = parseReleaseIdPart rid := by
  rw [← parsePartWith_gen, parsePartWith_perm h hp rid]

example : SuffixAntichain ["fast".toList, "ga".toList, "updates".toList, "updates-testing".toList, "eus".toList,
    "aus".toList, "els".toList, "tus".toList, "e4s".toList] := by decide +kernel
example : ¬ SuffixAntichain ["updates-testing".toList, "testing".toList] := by decide +kernel

/-- hypotheses of the round trip for one part (release or base product): the code accepts the three strings, the
type is a known one, the version is free of `-` and `@`, and a `ga` release has no dash in its short name. -/
abbrev Rel.Valid (r : Rel) : Prop := PartOK r

/- Full statement (false of the code, F9): the same without the field `ga` of `Rel.Valid`. -/
/-- `parse_release_id(create_release_id(...))` returns exactly the parts (`ga` implicit), with or without a base
product, for parts of any length.  Excluded: a dashed short name with type `ga` (F9); the other hypotheses
(version free of `-`/`@`, known type) are the quantifier of the property. -/
theorem C14_roundtrip_partial (r : Rel) (bp : Option Rel)
    (hr : r.Valid) (hbp : ∀ b, bp = some b → b.Valid) :
    createRel r bp >>= parseReleaseId = .ok (r, bp) :=
  roundtrip C14_types_suffix_free r bp hr hbp

/-- hence: every documented type, release and base product alike, with plain parts -/
theorem C14_roundtrip_all_documented_types :
    ∀ t ∈ Spec.knownTypes, ∀ u ∈ Spec.knownTypes,
      createRel ⟨"f".toList, "23".toList, t⟩ (some ⟨"rhel".toList, "7.1".toList, u⟩) >>= parseReleaseId
        = .ok (⟨"f".toList, "23".toList, t⟩, some ⟨"rhel".toList, "7.1".toList, u⟩) := by
  intro t ht u hu
  have h1 := C14_types_documented t ht
  have h2 := C14_types_documented u hu
  have a1 : isValidReleaseShort "f".toList = true := by decide +kernel
  have a2 : isValidReleaseVersion "23".toList = true := by decide +kernel
  have a3 : '-' ∉ "23".toList ∧ '@' ∉ "23".toList ∧ '-' ∉ "f".toList := by decide
  have b1 : isValidReleaseShort "rhel".toList = true := by decide +kernel
  have b2 : isValidReleaseVersion "7.1".toList = true := by decide +kernel
  have b3 : '-' ∉ "7.1".toList ∧ '@' ∉ "7.1".toList ∧ '-' ∉ "rhel".toList := by decide
  refine C14_roundtrip_partial _ _ ⟨a1, a2, h1.2, h1.1, a3.1, a3.2.1, fun _ => a3.2.2⟩ ?_
  intro b hb
  cases hb
  exact ⟨b1, b2, h2.2, h2.1, b3.1, b3.2.1, fun _ => b3.2.2⟩

/-- on the domain of the round trip `create_release_id` is injective (it has a left inverse there) -/
theorem C14_create_injective (r r' : Rel) (bp bp' : Option Rel)
    (hr : r.Valid) (hbp : ∀ b, bp = some b → b.Valid) (hr' : r'.Valid) (hbp' : ∀ b, bp' = some b → b.Valid)
    (h : createRel r bp = createRel r' bp') : r = r' ∧ bp = bp' := by
  have h1 := C14_roundtrip_partial r bp hr hbp
  have h2 := C14_roundtrip_partial r' bp' hr' hbp'
  rw [h, h2] at h1
  simpa using h1.symm

/-- the identifier itself -/
theorem C14_create_format (r : Rel) (bp : Option Rel) (hr : r.Valid) (hbp : ∀ b, bp = some b → b.Valid) :
    createRel r bp = .ok (match bp with | none => partStr r | some b => partStr r ++ '@' :: partStr b) := by
  cases bp with
  | none => exact createRel_none hr
  | some b => exact createRel_some hr (hbp b rfl)

/-- F9, replayed on the real code -/
theorem C14_F9_witness :
    createRel ⟨"my-prod".toList, "1.0".toList, GA⟩ none >>= parseReleaseId
      = .ok (⟨"my".toList, "prod".toList, "1.0".toList⟩, none) := by decide +kernel

/-- why F9 cannot be repaired by any decoder: two different accepted inputs give the same identifier -/
theorem C14_not_injective :
    createRel ⟨"my-prod".toList, "eus".toList, GA⟩ none = createRel ⟨"my".toList, "prod".toList, "eus".toList⟩ none
    ∧ createRel ⟨"my-prod".toList, "eus".toList, GA⟩ none = .ok "my-prod-eus".toList := by decide +kernel

/-- F9 is the whole region, not a few unlucky inputs: for ANY release whose short name contains a dash and whose
type is `ga` (no validity assumption at all), creating and parsing does not give the parts back -/
theorem C14_F9_region (r : Rel) (hs : '-' ∈ r.short) (ht : r.type = GA) :
    createRel r none >>= parseReleaseId ≠ .ok (r, none) := by
  have hc : createRel r none = createPart r.short r.version r.type := createReleaseId_nobp _ _ _
  rw [hc, createPart_eq]
  split
  · show parseReleaseId (r.short ++ '-' :: r.version) ≠ .ok (r, none)
    unfold parseReleaseId
    split
    · split
      · split
        · simp
        · split <;> simp
      · simp
    · cases hp : parseReleaseIdPart (r.short ++ '-' :: r.version) with
      | error e => simp
      | ok r' =>
        simp only [ne_eq, Except.ok.injEq, Prod.mk.injEq, and_true]
        intro e
        subst e
        exact parsePart_dashed_ga hs _ ⟨rfl, rfl⟩ hp
  · intro h; cases h

/-- the same for a base product in the F9 region, whatever the release part is -/
theorem C14_F9_region_bp (r b : Rel) (hs : '-' ∈ b.short) (ht : b.type = GA) :
    createRel r (some b) >>= parseReleaseId ≠ .ok (r, some b) := by
  have hbe : b.short.isEmpty = false := by
    cases hb : b.short with
    | nil => rw [hb] at hs; cases hs
    | cons _ _ => rfl
  have hcb : createPartO b.short (some b.version) (some b.type) = createPart b.short b.version b.type := rfl
  unfold createRel createReleaseId
  cases createPart r.short r.version r.type with
  | error e => intro h; cases h
  | ok x =>
    simp only [Option.map_some, hbe, Bool.false_eq_true, if_false, hcb]
    rw [createPart_eq]
    by_cases hv : isValidReleaseShort b.short = true ∧ isValidReleaseVersion b.version = true
        ∧ isValidReleaseType b.type = true
    · rw [if_pos hv, if_pos ht]
      exact parse_bp_dashed_ga hs r b ⟨rfl, rfl⟩
    · rw [if_neg hv]; intro h; cases h

/-- hence, on what the code accepts (known type, version free of `-` and `@`), the round trip holds exactly
outside the F9 region -/
theorem C14_roundtrip_iff (r : Rel) (h1 : isValidReleaseShort r.short = true)
    (h2 : isValidReleaseVersion r.version = true) (h3 : isValidReleaseType r.type = true)
    (h4 : r.type ∈ Gen.RELEASE_TYPES) (h5 : '-' ∉ r.version) (h6 : '@' ∉ r.version) :
    createRel r none >>= parseReleaseId = .ok (r, none) ↔ (r.type = GA → '-' ∉ r.short) := by
  constructor
  · intro h ht hs
    exact C14_F9_region r hs ht h
  · intro hga
    exact roundtrip C14_types_suffix_free r none ⟨h1, h2, h3, h4, h5, h6, hga⟩ (by intro b hb; cases hb)

/-- the other two hypotheses are forced as well: a dash or an `@` inside an accepted (free-form) version -/
theorem C14_version_dash_witness :
    createRel ⟨"f".toList, "a-b".toList, GA⟩ none >>= parseReleaseId
      = .ok (⟨"f".toList, "a".toList, "b".toList⟩, none)
    ∧ createRel ⟨"f".toList, "x@y".toList, GA⟩ none >>= parseReleaseId = .error .valueError := by decide +kernel

/-! ## non-vacuity -/
example : Rel.Valid ⟨"f".toList, "23".toList, GA⟩ := by
  constructor <;> decide +kernel
example : Rel.Valid ⟨"my-prod".toList, "Rawhide".toList, "updates-testing".toList⟩ := by
  constructor <;> decide +kernel
/-- a version that ends in a known type, a short name that is a known type: no extra hypothesis is needed -/
example : Rel.Valid ⟨"fast".toList, "eus".toList, GA⟩ ∧ Rel.Valid ⟨"a-ga".toList, "updates".toList, "eus".toList⟩ := by
  constructor <;> constructor <;> decide +kernel
example : createRel ⟨"rhel-x".toList, "7.1".toList, "updates".toList⟩ (some ⟨"rhel".toList, "7".toList, GA⟩)
    = .ok "rhel-x-7.1-updates@rhel-7".toList := by decide +kernel
example : ¬ isValidReleaseShort "Fedora".toList = true := by decide +kernel
example : SpecShort "fedora-23a".toList ∧ '\n' ∉ "fedora-23a".toList := by decide
/- Deliberately NOT an obligation: "every entry of `Gen.RELEASE_TYPES` is an accepted type".  It holds today, but an
entry that `create_release_id` refuses is outside the property's quantifier, so adding one is harmless here. -/

end PM
