import ProductMD.Proofs.ImagesHistory
/-!
# C09 — image identity is unique within a manifest

Model: `Img.add` runs the statement list of `Images.add` **as read from the current source**
(`Gen.images_add_script`, tools/gen_images.py) on a state that survives an exception; the identity tuple is the
generated `Gen.UNIQUE_IMAGE_ATTRIBUTES`; the version gate is the generated `Gen.gate_images_Images_add_0`.
`Spec.Uniq` is written with the seven attributes spelled out (`Spec/Images.lean`).

An image object is a pair (object id, attributes); histories are lists of `AddOp` of any length; a manifest has any
number of variants, arches and images.
-/
set_option Elab.async false
namespace PM
open PM.Img PM.PyOps PM.Spec

/-- the identity tuple of the code is the documented one (dropping or adding an attribute breaks this) -/
theorem C09_tuple : Gen.UNIQUE_IMAGE_ATTRIBUTES = Spec.identity7Names := by decide

/-- the code's `identify_image` on an object computes the spec tuple, for every image -/
theorem C09_identify_is_spec (i : Image) : identifyObj i = Spec.identity7 i := identifyObj_eq_spec i

/-- obligations on the statement order of `Images.add` as it is in the source now: nothing that can raise
follows the insertion, and the insertion follows the scan -/
theorem C09_script : safeOrder Gen.images_add_script = true ∧ scanGuard Gen.images_add_script false = true := by decide

/-- the gate in front of the scan is `>= (1, 1)` -/
theorem C09_gate : Gen.gate_images_Images_add_0 = { op := .ge, bound := (1, 1) } := by decide

/-- … so the scan is on exactly for header versions `(1, 1) ≤ v` -/
theorem C09_enforces_iff (ver : PyVal) (v : Nat × Nat) (h : versionTuple ver = .ok (.nums v)) :
    Enforces ver ↔ verLe (1, 1) v = true := by
  unfold Enforces
  rw [h]
  simp only [Except.bind, gateEval, C09_gate, Gate.eval?]
  constructor
  · intro h; injection h
  · intro h; rw [h]

/-- **step**: an `add` on a unique manifest of format ≥ 1.1 yields a unique manifest, accepted or refused -/
theorem C09_step (s : ImgState) (v a : Str) (id : Nat) (img : Image)
    (hv : Enforces s.version) (h : Uniq s.cells) : Uniq (add s v a id img).1.cells :=
  uniq_of_scanGuard v a id img addScript s false C09_script.2 hv h (fun hf => by cases hf)

/-- **refusal**: an `add` that raises leaves the manifest exactly as it was (any version, any state) -/
theorem C09_refusal (s : ImgState) (v a : Str) (id : Nat) (img : Image) (e : Err) :
    (add s v a id img).2 = .error e → (add s v a id img).1 = s :=
  refusal_of_safeOrder v a id img addScript s C09_script.1 e

/-- under an enforcing (hence valid) header version the only exception `add` raises is ValueError -/
theorem C09_refusal_class (s : ImgState) (v a : Str) (id : Nat) (img : Image) (e : Err) (hv : Enforces s.version) :
    (add s v a id img).2 = .error e → e = .valueError :=
  runSteps_err_class v a id img addScript s e (by decide) hv

/-- **no spurious refusal**: an admissible arch and no conflicting image ⇒ the add succeeds and files the object
in exactly that cell -/
theorem C09_accepts (s : ImgState) (v a : Str) (id : Nat) (img : Image) (hv : Enforces s.version)
    (ha : Gen.RPM_ARCHES.contains a = true) (hr : refusedArches.contains a = false) (hc : conflict s.cells img = false) :
    add s v a id img = ({ s with cells := cellsAdd s.cells v a id img }, .ok ()) := by
  have hsc := scan_enforced v a id img s hv
  rw [hc] at hsc
  simp only [runStep] at hsc
  simp only [add, addScript, Gen.images_add_script, runSteps, runStep, ha, hr]
  simp only [Bool.false_eq_true, ↓reduceIte, hsc]

/-- **reachable**: every manifest built by any sequence of `add` calls (refused ones included) on an empty
`Images()` whose header version enforces the scan is unique -/
theorem C09_reachable (ver : PyVal) (hv : Enforces ver) (ops : List AddOp) :
    Uniq (ops.foldl step { version := ver }).cells := by
  suffices h : ∀ s : ImgState, s.version = ver → Uniq s.cells → Uniq (ops.foldl step s).cells from
    h _ rfl (by intro i hi; simp [Cells.all] at hi)
  induction ops with
  | nil => intro s _ hu; exact hu
  | cons op rest ih =>
    intro s hs hu
    simp only [List.foldl_cons]
    refine ih (step s op) ?_ ?_
    · exact (add_version s op.variant op.arch op.id op.img).trans hs
    · exact C09_step s op.variant op.arch op.id op.img (hs ▸ hv) hu

/-- … and from any unique manifest, not only the empty one -/
theorem C09_reachable_from (s : ImgState) (hv : Enforces s.version) (hu : Uniq s.cells) (ops : List AddOp) :
    Uniq (ops.foldl step s).cells := by
  induction ops generalizing s with
  | nil => exact hu
  | cons op rest ih =>
    simp only [List.foldl_cons]
    refine ih (step s op) ?_ ?_
    · show Enforces (add s op.variant op.arch op.id op.img).1.version
      rw [add_version]; exact hv
    · exact C09_step s op.variant op.arch op.id op.img hv hu

/-- **load**: a manifest obtained from a document whose header version enforces the scan is unique -/
theorem C09_load (d : PyVal) (s : ImgState) (ver : PyVal) (hver : headerDeserialize d = .ok ver) (hv : Enforces ver)
    (h : deserialize d = .ok s) : Uniq s.cells := by
  refine deserialize_inv d s (fun s => Uniq s.cells) (fun _ _ e h => e ▸ h) ?_ ?_ h
  · intro ver' hver'
    rw [hver] at hver'
    injection hver' with hver'
    subst hver'
    refine ⟨fun s v a id img s' hs hu hadd => ?_⟩
    have := C09_step s v a id img (hs ▸ hv) hu
    rw [hadd] at this
    exact this
  · intro i hi; simp [Cells.all] at hi

/-- **a document containing a colliding pair is rejected**, for every format version that enforces the scan (1.1, 1.2,
later).  The image table of the document is `O` (a parsed JSON object: unique keys at both levels).  If two entries of
the table are read as images with the same identity and different checksums, `deserialize` raises.  In a document old
enough for the `src` re-filing (`old`, i.e. ≤ 1.1 by the generated gate) the two entries must not sit under a `src`
key: such entries are re-filed under the variant's other arches or dropped (C10), they are not part of the manifest
the document describes; for documents newer than 1.1 (`old = false`) the side condition is void. -/
theorem C09_load_rejects (ver : PyVal) (vt : VerT) (hvt : versionTuple ver = .ok vt) (old : Bool)
    (hold : gateEval Gen.gate_images_Images_deserialize_0 vt = .ok old) (hv : Enforces ver)
    (hdr comp : PyVal) (O : OutCells) (hO : OutNodup O)
    (hhead : headerDeserialize (.dict [(L "header", hdr), (L "payload", .dict [(L "images", O.toPy), (L "compose", comp)])]) = .ok ver)
    (t1 t2 : Str × Str × PyVal) (ht1 : t1 ∈ outTriples O) (ht2 : t2 ∈ outTriples O)
    (hs1 : old = true → t1.2.1 ≠ L "src") (hs2 : old = true → t2.2.1 ≠ L "src") (i j : Image)
    (h1 : Image.deserialize ver t1.2.2 = .ok i) (h2 : Image.deserialize ver t2.2.2 = .ok j)
    (hid : SameIdentity i j) (hck : ¬ PyEq i.checksums j.checksums) :
    ∃ e, deserialize (.dict [(L "header", hdr), (L "payload", .dict [(L "images", O.toPy), (L "compose", comp)])]) = .error e := by
  cases hd : deserialize (.dict [(L "header", hdr), (L "payload", .dict [(L "images", O.toPy), (L "compose", comp)])]) with
  | error e => exact ⟨e, rfl⟩
  | ok s =>
    exfalso
    have hu := C09_load _ s ver hhead hv hd
    unfold deserialize at hd
    obtain ⟨ver', hver', hd⟩ := bind_ok hd
    rw [hhead] at hver'; injection hver' with hver'; subst hver'
    obtain ⟨payload, hp, hd⟩ := bind_ok hd
    have e1 : item (.dict [(L "header", hdr), (L "payload", .dict [(L "images", O.toPy), (L "compose", comp)])]) (L "payload")
        = .ok (.dict [(L "images", O.toPy), (L "compose", comp)]) := rfl
    rw [e1] at hp; injection hp with hp; subst hp
    obtain ⟨comp', _, hd⟩ := bind_ok hd
    obtain ⟨images, himg, hd⟩ := bind_ok hd
    have e2 : item (.dict [(L "images", O.toPy), (L "compose", comp)]) (L "images") = .ok O.toPy := rfl
    rw [e2] at himg; injection himg with himg; subst himg
    obtain ⟨vs, hvs, hd⟩ := bind_ok hd
    have e3 : iter O.toPy = .ok (O.map fun va => .str va.1) := by
      simp [toPy_eq, iter, List.map_map, Function.comp_def]
    rw [e3] at hvs; injection hvs with hvs; subst hvs
    obtain ⟨r, hl, hd⟩ := bind_ok hd
    obtain ⟨s1, n⟩ := r
    injection hd with hd
    rw [loadVariants_eq ver O hO O (fun _ h => h)] at hl
    obtain ⟨_, _, hfiles⟩ := loadTriples_files_any ver O.toPy vt hvt old hold (outTriples O) _ 0 (s1, n)
      (by intro e he; simp [entries] at he) hl
    have hi := hfiles t1 ht1 hs1 i h1
    have hj := hfiles t2 ht2 hs2 j h2
    have hcells : s.cells = s1.cells := by rw [← hd]
    rw [hcells] at hu
    exact hck (hu i hi j hj hid)

/-! ### histories that cross the version gate on one object

`dumps()` sets the header to the current version, `loads` replaces it, a caller may assign it: the version is part
of the state.  Below 1.1 nothing is checked, so `Uniq` is not an invariant of such histories; what holds, for ANY
state however it was produced, is that a step taken at an enforcing version creates no new colliding pair. -/

/-- an `add` accepted at an enforcing version: the new image collides with nothing in the manifest — including images
that entered while the gate was closed (the scan looks at the real content of `self.images`) -/
theorem C09_add_guard (s s' : ImgState) (v a : Str) (id : Nat) (img : Image) (hv : Enforces s.version)
    (h : add s v a id img = (s', .ok ())) :
    ∀ cur ∈ s'.cells.all, SameIdentity cur img → PyEq cur.checksums img.checksums := by
  have hc := add_ok_noconflict s s' v a id img hv h
  have hcells := add_ok_cells s s' v a id img h
  have := (conflict_false_iff _ _).mp (conflict_after_insert (v := v) (a := a) (id := id) hc)
  rw [hcells]
  exact this

/-- **per step, any state**: every colliding pair present after an `add` at an enforcing version (accepted or
refused) was already present before it -/
theorem C09_no_new_pair (s : ImgState) (v a : Str) (id : Nat) (img : Image) (hv : Enforces s.version) :
    NoNewPairs s.cells (add s v a id img).1.cells := add_noNewPairs s v a id img hv

/-- `dumps()` does not touch the images and leaves the header at the current version, which enforces the scan — also
when it raises (the header is set before anything can fail) -/
theorem C09_dumps_enforces (s : ImgState) : (dumps s).1.cells = s.cells ∧ Enforces (dumps s).1.version := by
  rw [dumps_state]
  exact ⟨rfl, cur_enforces⟩

/-- **gate-crossing histories**: for any sequence of `add` / `dumps` / `header.version = …` / `loads`-into-the-same-
object in which every `add` and `loads` happens at an enforcing version (of the object at that moment, resp. of
the document), every colliding pair of the final manifest was already in the initial one … -/
theorem C09_history_pairs (s : ImgState) (ops : List HOp) (h : EnforcedRun s ops) :
    NoNewPairs s.cells (ops.foldl (fun s op => (hstep s op).1) s).cells := run_noNewPairs ops s h

/-- … hence from a unique manifest (e.g. the empty one) the result is unique -/
theorem C09_history (s : ImgState) (ops : List HOp) (h : EnforcedRun s ops) (hu : Uniq s.cells) :
    Uniq (ops.foldl (fun s op => (hstep s op).1) s).cells := uniq_of_noNewPairs (run_noNewPairs ops s h) hu

/-- `loads` of an enforcing document into an object in use keeps a unique manifest unique -/
theorem C09_load_into (doc : PyVal) (s0 s : ImgState) (n0 : Nat)
    (hv : ∀ ver, headerDeserialize doc = .ok ver → Enforces ver) (hu : Uniq s0.cells)
    (h : deserializeInto s0 n0 doc = .ok s) : Uniq s.cells :=
  uniq_of_noNewPairs (loadInto_noNewPairs doc s0 s n0 hv h) hu

/-! ### a `loads` that raises: the object lives on (`loadsInto`, `hstep` is total)

`Images.deserialize` assigns `header.version` first, then the compose fields, then files image after image through
`add`; nothing is cleared before and nothing is rolled back after an exception.  A caller that catches the exception
holds an object with the document's header version, the images that were there before and the images of the
document read before the offending entry. -/

/-- … no new colliding pair in that object, for every outcome of the call -/
theorem C09_failed_load_pairs (doc : PyVal) (s0 : ImgState) (n0 : Nat)
    (hv : ∀ ver, headerDeserialize doc = .ok ver → Enforces ver) :
    NoNewPairs s0.cells (loadsInto s0 n0 doc).1.cells := loadsInto_noNewPairs doc s0 n0 hv

/-- **failed load**: `loads` of a document whose header — the gate in force while its images are filed — enforces
the scan, into a unique manifest, raises `e`: the object left behind is a unique manifest (partial content included) -/
theorem C09_failed_load_invariant (doc : PyVal) (s0 : ImgState) (n0 : Nat) (e : Err)
    (hv : ∀ ver, headerDeserialize doc = .ok ver → Enforces ver) (hu : Uniq s0.cells)
    (_hfail : (loadsInto s0 n0 doc).2 = .error e) : Uniq (loadsInto s0 n0 doc).1.cells :=
  uniq_of_noNewPairs (loadsInto_noNewPairs doc s0 n0 hv) hu

/-- the header a failed load leaves is what `Header.deserialize` assigned: the document's `header.version` as it
stands in the document (validated or not), or the old one when the document has none — never the current version -/
theorem C09_failed_load_version (doc : PyVal) (s0 : ImgState) (n0 : Nat) (e : Err)
    (hfail : (loadsInto s0 n0 doc).2 = .error e) :
    (loadsInto s0 n0 doc).1.version = (headerDeserializeInto s0.version doc).1 := by
  cases hh : headerDeserializeInto s0.version doc with
  | mk ver r =>
  unfold loadsInto at hfail ⊢
  rw [hh] at hfail ⊢
  cases r with
  | error e' => rfl
  | ok u =>
    cases u
    simp only at hfail ⊢
    split
    · rfl
    · split
      · rfl
      · split
        · rfl
        · rename_i c _ _ images vs _
          have hinv := loadVariantsT_inv (ver := ver) (P := fun _ => True) ⟨fun _ _ _ _ _ _ _ => trivial⟩ images vs
            ({ version := ver, compose := c, cells := s0.cells }, n0) ⟨rfl, trivial⟩
          split
          · rename_i acc e' heq'
            rw [heq'] at hinv
            exact hinv.1
          · rename_i acc heq'
            exfalso
            simp only [*] at hfail
            rw [images_no_validators] at hfail
            cases hfail

/-- a load that returns leaves the current version (which enforces the scan: `cur_enforces`) -/
theorem C09_load_version_ok (doc : PyVal) (s0 : ImgState) (n0 : Nat) (h : (loadsInto s0 n0 doc).2 = .ok ()) :
    (loadsInto s0 n0 doc).1.version = .str currentVersion := by
  unfold loadsInto at h ⊢
  split
  · rename_i heq; rw [heq] at h; cases h
  · rename_i ver heq
    rw [heq] at h
    simp only at h ⊢
    split
    · simp only [*] at h; cases h
    · split
      · simp only [*] at h; cases h
      · split
        · simp only [*] at h; cases h
        · split
          · simp only [*] at h; cases h
          · rfl

/-- **the gate after a failed load, header readable**: the object carries the document's version; when that
enforces the scan, every later `add` is checked against everything present -/
theorem C09_failed_load_gate (doc : PyVal) (s0 : ImgState) (n0 : Nat) (e : Err) (ver : PyVal)
    (hver : headerDeserialize doc = .ok ver) (hfail : (loadsInto s0 n0 doc).2 = .error e) :
    (loadsInto s0 n0 doc).1.version = ver := by
  rw [C09_failed_load_version doc s0 n0 e hfail]
  cases hh : headerDeserializeInto s0.version doc with
  | mk w r =>
    unfold headerDeserializeInto at hh
    split at hh
    · rename_i e' hitem
      exfalso
      unfold headerDeserialize at hver
      obtain ⟨hdr, h1, hver⟩ := bind_ok hver
      obtain ⟨w', h2, _⟩ := bind_ok hver
      rw [h1] at hitem
      simp only [Except.bind] at hitem
      rw [h2] at hitem
      cases hitem
    · rw [hver] at hh
      rw [Prod.mk.injEq] at hh
      have hok : headerDeserializeInto s0.version doc = (w, .ok ()) := by
        unfold headerDeserializeInto
        rename_i ver' hitem
        rw [hitem, hver]
        simp only [Except.map]
        rw [hh.1]
      have := headerDeserializeInto_ok hok
      rw [hver] at this
      injection this with this
      exact this.symm

/-- **header not readable** (missing, version malformed, wrong `type` at ≥ 1.1): the call raises with the images untouched -/
theorem C09_failed_header_cells (doc : PyVal) (s0 : ImgState) (n0 : Nat) (e : Err) (hh : headerDeserialize doc = .error e) :
    (loadsInto s0 n0 doc).1.cells = s0.cells ∧ ∃ e', (loadsInto s0 n0 doc).2 = .error e' := by
  unfold loadsInto
  split
  · rename_i e' _; exact ⟨rfl, e', rfl⟩
  · rename_i ver heq
    rw [headerDeserializeInto_ok heq] at hh
    cases hh

/-- **histories of any length over the total step** — `add` (accepted / refused), `dumps`, `header.version = …`,
`loads` into the same object (returned / RAISED, the history goes on with the object as it was left), `discard`,
`del`: when every `add` happens at an enforcing header of the object at that moment and every loaded document has an
enforcing header, no colliding pair is created … -/
theorem C09_history_total_pairs (s : ImgState) (ops : List HOp) (h : EnforcedRun s ops) :
    NoNewPairs s.cells (ops.foldl (fun s op => (hstep s op).1) s).cells := run_noNewPairs ops s h

/-- … and a unique manifest stays unique -/
theorem C09_history_total (s : ImgState) (ops : List HOp) (h : EnforcedRun s ops) (hu : Uniq s.cells) :
    Uniq (ops.foldl (fun s op => (hstep s op).1) s).cells := uniq_of_noNewPairs (run_noNewPairs ops s h) hu

/-- the step `hstep` takes for `loads` is `loadsInto`, whatever the outcome (the history does not end there) -/
theorem C09_hstep_loads (s : ImgState) (doc : PyVal) (n0 : Nat) : hstep s (.loads doc n0) = loadsInto s n0 doc := rfl

/-- **identity**: for an image that validates (hence can be written), the identity computed from the object
equals the identity computed from its serialised dictionary (which lacks `unified` / `additional_variants`
unless the image is unified) -/
theorem C09_identity (i : Image) (h : i.validate = .ok ()) : identifyObj i = identifyDict i.dict :=
  identity_obj_dict i h

/-- … and `Image.serialize` appends exactly that dictionary -/
theorem C09_identity_serialized (i : Image) (d : PyVal) (h : i.serialize = .ok d) : identifyObj i = identifyDict d := by
  unfold Image.serialize at h
  obtain ⟨u, hv, h⟩ := bind_ok h
  cases u
  injection h with h
  exact h ▸ identity_obj_dict i hv

/-! ### non-vacuity and the region below 1.1 -/

/-- two images with the same identity and different checksums -/
def witnessA : Image :=
  { path := .str (L "a.iso"), mtime := .int 1, size := .int 1, type := .str (L "dvd"), format := .str (L "iso"),
    arch := .str (L "x86_64"), disc_number := .int 1, disc_count := .int 1, checksums := .dict [(L "md5", .str (L "a"))],
    subvariant := .str [] }
def witnessB : Image := { witnessA with path := .str (L "b.iso"), checksums := .dict [(L "md5", .str (L "b"))] }

def witnessOps : List AddOp := [⟨L "Server", L "x86_64", 0, witnessA⟩, ⟨L "Client", L "i386", 1, witnessB⟩]

theorem witness_collide : SameIdentity witnessA witnessB ∧ ¬ PyEq witnessA.checksums witnessB.checksums := by
  refine ⟨rfl, ?_⟩
  have : pyEq witnessA.checksums witnessB.checksums = false := by decide +kernel
  exact (pyEq_false_iff _ _).mp this

/-- **below 1.1 nothing holds**: on a fresh `Images()` (header 0.0) and under a 1.0 header both adds are
accepted and the manifest is not unique (F11) -/
theorem C09_below_witness :
    ¬ Uniq (witnessOps.foldl step ImgState.fresh).cells ∧ ¬ Uniq (witnessOps.foldl step (empty (L "1.0"))).cells := by
  have h0 : (witnessOps.foldl step ImgState.fresh).cells.all = [witnessA, witnessB] := by rfl
  have h1 : (witnessOps.foldl step (empty (L "1.0"))).cells.all = [witnessA, witnessB] := by rfl
  constructor
  · intro hu
    exact witness_collide.2 (hu witnessA (by rw [h0]; simp) witnessB (by rw [h0]; simp) witness_collide.1)
  · intro hu
    exact witness_collide.2 (hu witnessA (by rw [h1]; simp) witnessB (by rw [h1]; simp) witness_collide.1)

/-- the same history at 1.1 / 1.2: the second add is refused with ValueError and the manifest keeps one image -/
theorem C09_witness_refused :
    (add (step (empty (L "1.1")) ⟨L "Server", L "x86_64", 0, witnessA⟩) (L "Client") (L "i386") 1 witnessB).2 = .error .valueError
    ∧ (add (step (empty (L "1.2")) ⟨L "Server", L "x86_64", 0, witnessA⟩) (L "Client") (L "i386") 1 witnessB).2 = .error .valueError := by
  decide +kernel

example : witnessA.validate = .ok () := by decide +kernel

/-- crossing the gate: on a fresh `Images()` (header 0.0) `witnessA` is added, `dumps()` is called (it raises here —
the compose section is empty — but has already set the header to the current version), then the colliding
`witnessB` is refused with ValueError; without the `dumps()` it is accepted (`C09_below_witness`) -/
theorem C09_cross_witness :
    (hstep (hstep (hstep ImgState.fresh (.add ⟨L "Server", L "x86_64", 0, witnessA⟩)).1 .dumps).1
      (.add ⟨L "Client", L "i386", 1, witnessB⟩)).2 = .error .valueError
    ∧ (hstep (hstep (hstep ImgState.fresh (.add ⟨L "Server", L "x86_64", 0, witnessA⟩)).1 (.setVersion (.str (L "1.1")))).1
      (.add ⟨L "Client", L "i386", 1, witnessB⟩)).2 = .error .valueError := by
  decide +kernel
/-! ### witnesses for the failed load -/

/-- an object in use: fresh `Images()`, `witnessA` added, `dumps()` called (header now at the current version) -/
def usedState : ImgState := (hstep (hstep ImgState.fresh (.add ⟨L "Server", L "x86_64", 0, witnessA⟩)).1 .dumps).1

def witnessCompose : PyVal :=
  .dict [(L "id", .str (L "Fedora-22-20131212.0")), (L "type", .str (L "production")), (L "date", .str (L "20131212")), (L "respin", .int 0)]

/-- a document of format `ver`: the images `imgs` under Client/i386, then an entry without any key (KeyError) -/
def brokenDoc (ver : Str) (imgs : List Image) : PyVal :=
  .dict [(L "header", .dict [(L "version", .str ver), (L "type", .str Gen.HEADER_TYPE_Images)]),
         (L "payload", .dict [(L "compose", witnessCompose),
            (L "images", .dict [(L "Client", .dict [(L "i386", .list (imgs.map Image.dict ++ [.dict []]))])])])]

/-- a third image: other identity (disc 2) -/
def witnessC : Image := { witnessA with path := .str (L "c.iso"), disc_number := .int 2, checksums := .dict [(L "md5", .str (L "c"))] }

example : usedState.version = .str currentVersion ∧ usedState.cells.all = [witnessA] := ⟨by rfl, by rfl⟩

/-- **partial content is kept, the gate stays closed on the document's side** (format 1.2 / 1.1): the valid image in
front of the malformed entry is filed and stays (two images, unique); a colliding image in front of it is refused
(ValueError) with the images as they were; either way the header is left at the DOCUMENT's version, which enforces,
and a colliding `add` afterwards is refused -/
theorem C09_failed_load_witness :
    (loadsInto usedState 1000 (brokenDoc (L "1.2") [witnessC])).2 = .error .keyError
    ∧ (loadsInto usedState 1000 (brokenDoc (L "1.2") [witnessC])).1.cells.all = [witnessA, witnessC]
    ∧ (loadsInto usedState 1000 (brokenDoc (L "1.2") [witnessC])).1.version = .str (L "1.2")
    ∧ (loadsInto usedState 1000 (brokenDoc (L "1.1") [witnessB])).2 = .error .valueError
    ∧ (loadsInto usedState 1000 (brokenDoc (L "1.1") [witnessB])).1.cells.all = [witnessA]
    ∧ (loadsInto usedState 1000 (brokenDoc (L "1.1") [witnessB])).1.version = .str (L "1.1")
    ∧ (add (loadsInto usedState 1000 (brokenDoc (L "1.1") [witnessB])).1 (L "Client") (L "i386") 1 witnessB).2 = .error .valueError := by
  refine ⟨by decide +kernel, by rfl, by rfl, by decide +kernel, by rfl, by rfl, by decide +kernel⟩

/-- hypotheses of `C09_failed_load_invariant` at that instance -/
example : headerDeserialize (brokenDoc (L "1.2") [witnessC]) = .ok (.str (L "1.2")) := by rfl

/-- **below 1.1 a failed load opens the gate of an object in use** (FINDING candidate): `usedState` is unique and at
the current version (a colliding `add` is refused).  `loads` of a 1.0 document raises KeyError at its malformed second
entry — the first entry, which collides with the image present, has been filed (the gate in force was the
document's 1.0) and stays; the header is left at "1.0", not reset to the current version as after a load that
returns; the manifest is no longer unique, and further colliding `add`s are accepted without any check -/
theorem C09_failed_load_below_witness :
    (add usedState (L "Client") (L "i386") 1 witnessB).2 = .error .valueError
    ∧ (loadsInto usedState 1000 (brokenDoc (L "1.0") [witnessB])).2 = .error .keyError
    ∧ (loadsInto usedState 1000 (brokenDoc (L "1.0") [witnessB])).1.version = .str (L "1.0")
    ∧ ¬ Uniq (loadsInto usedState 1000 (brokenDoc (L "1.0") [witnessB])).1.cells
    ∧ (loadsInto usedState 1000 (brokenDoc (L "1.0") [])).1.cells.all = [witnessA]
    ∧ (add (loadsInto usedState 1000 (brokenDoc (L "1.0") [])).1 (L "Client") (L "i386") 1 witnessB).2 = .ok ()
    ∧ ¬ Uniq (add (loadsInto usedState 1000 (brokenDoc (L "1.0") [])).1 (L "Client") (L "i386") 1 witnessB).1.cells := by
  have h1 : (loadsInto usedState 1000 (brokenDoc (L "1.0") [witnessB])).1.cells.all = [witnessA, witnessB] := by rfl
  have h2 : (add (loadsInto usedState 1000 (brokenDoc (L "1.0") [])).1 (L "Client") (L "i386") 1 witnessB).1.cells.all = [witnessA, witnessB] := by
    rfl
  refine ⟨by decide +kernel, by decide +kernel, by rfl, ?_, by rfl, by decide +kernel, ?_⟩
  · intro hu
    exact witness_collide.2 (hu witnessA (by rw [h1]; simp) witnessB (by rw [h1]; simp) witness_collide.1)
  · intro hu
    exact witness_collide.2 (hu witnessA (by rw [h2]; simp) witnessB (by rw [h2]; simp) witness_collide.1)

/-- … whereas the same 1.0 document without the malformed entry loads, the header goes back to the current version and
the colliding `add` is refused: the open gate is an effect of the FAILURE -/
theorem C09_ok_load_below_contrast :
    (loadsInto usedState 1000 (.dict [(L "header", .dict [(L "version", .str (L "1.0"))]),
        (L "payload", .dict [(L "compose", witnessCompose), (L "images", .dict [])])])).2 = .ok ()
    ∧ (add (loadsInto usedState 1000 (.dict [(L "header", .dict [(L "version", .str (L "1.0"))]),
        (L "payload", .dict [(L "compose", witnessCompose), (L "images", .dict [])])])).1 (L "Client") (L "i386") 1 witnessB).2
      = .error .valueError := by
  decide +kernel

/-- a history over the total step that satisfies `EnforcedRun` and contains a failed load: add, dumps, failed loads
(1.2 document, partial content), colliding add (refused), add of another image (accepted) -/
example : EnforcedRun ImgState.fresh
    [.setVersion (.str (L "1.1")), .add ⟨L "Server", L "x86_64", 0, witnessA⟩, .dumps, .loads (brokenDoc (L "1.2") [witnessC]) 1000,
     .add ⟨L "Client", L "i386", 1, witnessB⟩] := by
  refine ⟨trivial, ?_, trivial, ?_, ?_, trivial⟩
  · show Enforces _; unfold Enforces; decide +kernel
  · intro ver hver
    have : headerDeserialize (brokenDoc (L "1.2") [witnessC]) = .ok (.str (L "1.2")) := by rfl
    rw [this] at hver; injection hver with hver; subst hver
    unfold Enforces; decide +kernel
  · show Enforces _; unfold Enforces; decide +kernel

/-- hypotheses of `C09_load_rejects`: 1.2 and 2.0 headers have `old = false`, a 1.1 header has `old = true` and enforces -/
example : versionTuple (.str (L "1.2")) = .ok (.nums (1, 2)) ∧ gateEval Gen.gate_images_Images_deserialize_0 (.nums (1, 2)) = .ok false
    ∧ gateEval Gen.gate_images_Images_deserialize_0 (.nums (2, 0)) = .ok false
    ∧ gateEval Gen.gate_images_Images_deserialize_0 (.nums (1, 1)) = .ok true
    ∧ versionTuple (.str (L "1.1")) = .ok (.nums (1, 1)) := by decide +kernel

example : Enforces (.str (L "1.1")) := by unfold Enforces; decide +kernel
example : Enforces (.str (L "1.2")) := by unfold Enforces; decide +kernel
example : Enforces (.str (L "2.0")) := by unfold Enforces; decide +kernel
example : ¬ Enforces (.str (L "1.0")) := by unfold Enforces; decide +kernel
example : ¬ Enforces (.str (L "0.0")) := by unfold Enforces; decide +kernel

end PM
