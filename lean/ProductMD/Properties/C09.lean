import ProductMD.Spec.Images
namespace PM
open PM.Img

theorem C09_tuple : Gen.UNIQUE_IMAGE_ATTRIBUTES = Spec.identity7Names := by decide

end PM
