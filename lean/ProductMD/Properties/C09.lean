import ProductMD.Proofs.ImagesLoadExact
/-!
# C09 — image identity is unique within a manifest

Model: `Img.add` runs the statement list of `Images.add` **as read from the current source**
(`Gen.images_add_script`, tools/gen_images.py) on a state that survives an exception; the identity tuple is the
generated `Gen.UNIQUE_IMAGE_ATTRIBUTES`; the version gate is the generated `Gen.gate_images_Images_add_0`.
`Spec.Uniq` is written with the seven attributes spelled out (`Spec/Images.lean`).

An image object is a pair (object id, attributes); histories are lists of `AddOp` of any length; a manifest has any
number of variants, arches and images.
-/
set_option Elab.async false
namespace PM
open PM.Img PM.PyOps PM.Spec

/-- the identity tuple of the code is the documented one (dropping or adding an attribute breaks this) -/
theorem C09_tuple : Gen.UNIQUE_IMAGE_ATTRIBUTES = Spec.identity7Names := by decide

/-- the code's `identify_image` on an object computes the spec tuple, for every image -/
theorem C09_identify_is_spec (i : Image) : identifyObj i = Spec.identity7 i := identifyObj_eq_spec i

/-- obligations on the statement order of `Images.add` as it is in the source now: nothing that can raise
follows the insertion, and the insertion follows the scan -/
theorem C09_script : safeOrder Gen.images_add_script = true ∧ scanGuard Gen.images_add_script false = true := by decide

/-- the gate in front of the scan is `>= (1, 1)` -/
theorem C09_gate : Gen.gate_images_Images_add_0 = { op := .ge, bound := (1, 1) } := by decide

/-- … so the scan is on exactly for header versions `(1, 1) ≤ v` -/
theorem C09_enforces_iff (ver : PyVal) (v : Nat × Nat) (h : versionTuple ver = .ok (.nums v)) :
    Enforces ver ↔ verLe (1, 1) v = true := by
  unfold Enforces
  rw [h]
  simp only [Except.bind, gateEval, C09_gate, Gate.eval?]
  constructor
  · intro h; injection h
  · intro h; rw [h]

/-- **step**: an `add` on a unique manifest of format ≥ 1.1 yields a unique manifest, accepted or refused -/
theorem C09_step (s : ImgState) (v a : Str) (id : Nat) (img : Image)
    (hv : Enforces s.version) (h : Uniq s.cells) : Uniq (add s v a id img).1.cells :=
  uniq_of_scanGuard v a id img addScript s false C09_script.2 hv h (fun hf => by cases hf)

/-- **refusal**: an `add` that raises leaves the manifest exactly as it was (any version, any state) -/
theorem C09_refusal (s : ImgState) (v a : Str) (id : Nat) (img : Image) (e : Err) :
    (add s v a id img).2 = .error e → (add s v a id img).1 = s :=
  refusal_of_safeOrder v a id img addScript s C09_script.1 e

/-- under an enforcing (hence valid) header version the only exception `add` raises is ValueError -/
theorem C09_refusal_class (s : ImgState) (v a : Str) (id : Nat) (img : Image) (e : Err) (hv : Enforces s.version) :
    (add s v a id img).2 = .error e → e = .valueError :=
  runSteps_err_class v a id img addScript s e (by decide) hv

/-- **no spurious refusal**: an admissible arch and no conflicting image ⇒ the add succeeds and files the object
in exactly that cell -/
theorem C09_accepts (s : ImgState) (v a : Str) (id : Nat) (img : Image) (hv : Enforces s.version)
    (ha : Gen.RPM_ARCHES.contains a = true) (hr : refusedArches.contains a = false) (hc : conflict s.cells img = false) :
    add s v a id img = ({ s with cells := cellsAdd s.cells v a id img }, .ok ()) := by
  have hsc := scan_enforced v a id img s hv
  rw [hc] at hsc
  simp only [runStep] at hsc
  simp only [add, addScript, Gen.images_add_script, runSteps, runStep, ha, hr]
  simp only [Bool.false_eq_true, ↓reduceIte, hsc]

/-- **reachable**: every manifest built by any sequence of `add` calls (refused ones included) on an empty
`Images()` whose header version enforces the scan is unique -/
theorem C09_reachable (ver : PyVal) (hv : Enforces ver) (ops : List AddOp) :
    Uniq (ops.foldl step { version := ver }).cells := by
  suffices h : ∀ s : ImgState, s.version = ver → Uniq s.cells → Uniq (ops.foldl step s).cells from
    h _ rfl (by intro i hi; simp [Cells.all] at hi)
  induction ops with
  | nil => intro s _ hu; exact hu
  | cons op rest ih =>
    intro s hs hu
    simp only [List.foldl_cons]
    refine ih (step s op) ?_ ?_
    · exact (add_version s op.variant op.arch op.id op.img).trans hs
    · exact C09_step s op.variant op.arch op.id op.img (hs ▸ hv) hu

/-- … and from any unique manifest, not only the empty one -/
theorem C09_reachable_from (s : ImgState) (hv : Enforces s.version) (hu : Uniq s.cells) (ops : List AddOp) :
    Uniq (ops.foldl step s).cells := by
  induction ops generalizing s with
  | nil => exact hu
  | cons op rest ih =>
    simp only [List.foldl_cons]
    refine ih (step s op) ?_ ?_
    · show Enforces (add s op.variant op.arch op.id op.img).1.version
      rw [add_version]; exact hv
    · exact C09_step s op.variant op.arch op.id op.img hv hu

/-- **load**: a manifest obtained from a document whose header version enforces the scan is unique -/
theorem C09_load (d : PyVal) (s : ImgState) (ver : PyVal) (hver : headerDeserialize d = .ok ver) (hv : Enforces ver)
    (h : deserialize d = .ok s) : Uniq s.cells := by
  refine deserialize_inv d s (fun s => Uniq s.cells) (fun _ _ e h => e ▸ h) ?_ ?_ h
  · intro ver' hver'
    rw [hver] at hver'
    injection hver' with hver'
    subst hver'
    refine ⟨fun s v a id img s' hs hu hadd => ?_⟩
    have := C09_step s v a id img (hs ▸ hv) hu
    rw [hadd] at this
    exact this
  · intro i hi; simp [Cells.all] at hi

/-- **a document containing a colliding pair is rejected**, for every format version that enforces the scan (1.1, 1.2,
later).  The image table of the document is `O` (a parsed JSON object: unique keys at both levels).  If two entries of
the table are read as images with the same identity and different checksums, `deserialize` raises.  In a document old
enough for the `src` re-filing (`old`, i.e. ≤ 1.1 by the generated gate) the two entries must not sit under a `src`
key: such entries are re-filed under the variant's other arches or dropped (C10), they are not part of the manifest
the document describes; for documents newer than 1.1 (`old = false`) the side condition is void. -/
theorem C09_load_rejects (ver : PyVal) (vt : VerT) (hvt : versionTuple ver = .ok vt) (old : Bool)
    (hold : gateEval Gen.gate_images_Images_deserialize_0 vt = .ok old) (hv : Enforces ver)
    (hdr comp : PyVal) (O : OutCells) (hO : OutNodup O)
    (hhead : headerDeserialize (.dict [(L "header", hdr), (L "payload", .dict [(L "images", O.toPy), (L "compose", comp)])]) = .ok ver)
    (t1 t2 : Str × Str × PyVal) (ht1 : t1 ∈ outTriples O) (ht2 : t2 ∈ outTriples O)
    (hs1 : old = true → t1.2.1 ≠ L "src") (hs2 : old = true → t2.2.1 ≠ L "src") (i j : Image)
    (h1 : Image.deserialize ver t1.2.2 = .ok i) (h2 : Image.deserialize ver t2.2.2 = .ok j)
    (hid : SameIdentity i j) (hck : ¬ PyEq i.checksums j.checksums) :
    ∃ e, deserialize (.dict [(L "header", hdr), (L "payload", .dict [(L "images", O.toPy), (L "compose", comp)])]) = .error e := by
  cases hd : deserialize (.dict [(L "header", hdr), (L "payload", .dict [(L "images", O.toPy), (L "compose", comp)])]) with
  | error e => exact ⟨e, rfl⟩
  | ok s =>
    exfalso
    have hu := C09_load _ s ver hhead hv hd
    unfold deserialize at hd
    obtain ⟨ver', hver', hd⟩ := bind_ok hd
    rw [hhead] at hver'; injection hver' with hver'; subst hver'
    obtain ⟨payload, hp, hd⟩ := bind_ok hd
    have e1 : item (.dict [(L "header", hdr), (L "payload", .dict [(L "images", O.toPy), (L "compose", comp)])]) (L "payload")
        = .ok (.dict [(L "images", O.toPy), (L "compose", comp)]) := rfl
    rw [e1] at hp; injection hp with hp; subst hp
    obtain ⟨comp', _, hd⟩ := bind_ok hd
    obtain ⟨images, himg, hd⟩ := bind_ok hd
    have e2 : item (.dict [(L "images", O.toPy), (L "compose", comp)]) (L "images") = .ok O.toPy := rfl
    rw [e2] at himg; injection himg with himg; subst himg
    obtain ⟨vs, hvs, hd⟩ := bind_ok hd
    have e3 : iter O.toPy = .ok (O.map fun va => .str va.1) := by
      simp [toPy_eq, iter, List.map_map, Function.comp_def]
    rw [e3] at hvs; injection hvs with hvs; subst hvs
    obtain ⟨r, hl, hd⟩ := bind_ok hd
    obtain ⟨s1, n⟩ := r
    injection hd with hd
    rw [loadVariants_eq ver O hO O (fun _ h => h)] at hl
    obtain ⟨_, _, hfiles⟩ := loadTriples_files_any ver O.toPy vt hvt old hold (outTriples O) _ 0 (s1, n)
      (by intro e he; simp [entries] at he) hl
    have hi := hfiles t1 ht1 hs1 i h1
    have hj := hfiles t2 ht2 hs2 j h2
    have hcells : s.cells = s1.cells := by rw [← hd]
    rw [hcells] at hu
    exact hck (hu i hi j hj hid)

/-- **identity**: for an image that validates (hence can be written), the identity computed from the object
equals the identity computed from its serialised dictionary (which lacks `unified` / `additional_variants`
unless the image is unified) -/
theorem C09_identity (i : Image) (h : i.validate = .ok ()) : identifyObj i = identifyDict i.dict :=
  identity_obj_dict i h

/-- … and `Image.serialize` appends exactly that dictionary -/
theorem C09_identity_serialized (i : Image) (d : PyVal) (h : i.serialize = .ok d) : identifyObj i = identifyDict d := by
  unfold Image.serialize at h
  obtain ⟨u, hv, h⟩ := bind_ok h
  cases u
  injection h with h
  exact h ▸ identity_obj_dict i hv

/-! ### non-vacuity and the region below 1.1 -/

/-- two images with the same identity and different checksums -/
def witnessA : Image :=
  { path := .str (L "a.iso"), mtime := .int 1, size := .int 1, type := .str (L "dvd"), format := .str (L "iso"),
    arch := .str (L "x86_64"), disc_number := .int 1, disc_count := .int 1, checksums := .dict [(L "md5", .str (L "a"))],
    subvariant := .str [] }
def witnessB : Image := { witnessA with path := .str (L "b.iso"), checksums := .dict [(L "md5", .str (L "b"))] }

def witnessOps : List AddOp := [⟨L "Server", L "x86_64", 0, witnessA⟩, ⟨L "Client", L "i386", 1, witnessB⟩]

theorem witness_collide : SameIdentity witnessA witnessB ∧ ¬ PyEq witnessA.checksums witnessB.checksums := by
  refine ⟨rfl, ?_⟩
  have : pyEq witnessA.checksums witnessB.checksums = false := by decide +kernel
  exact (pyEq_false_iff _ _).mp this

/-- **below 1.1 nothing holds**: on a fresh `Images()` (header 0.0) and under a 1.0 header both adds are
accepted and the manifest is not unique (F11) -/
theorem C09_below_witness :
    ¬ Uniq (witnessOps.foldl step ImgState.fresh).cells ∧ ¬ Uniq (witnessOps.foldl step (empty (L "1.0"))).cells := by
  have h0 : (witnessOps.foldl step ImgState.fresh).cells.all = [witnessA, witnessB] := by rfl
  have h1 : (witnessOps.foldl step (empty (L "1.0"))).cells.all = [witnessA, witnessB] := by rfl
  constructor
  · intro hu
    exact witness_collide.2 (hu witnessA (by rw [h0]; simp) witnessB (by rw [h0]; simp) witness_collide.1)
  · intro hu
    exact witness_collide.2 (hu witnessA (by rw [h1]; simp) witnessB (by rw [h1]; simp) witness_collide.1)

/-- the same history at 1.1 / 1.2: the second add is refused with ValueError and the manifest keeps one image -/
theorem C09_witness_refused :
    (add (step (empty (L "1.1")) ⟨L "Server", L "x86_64", 0, witnessA⟩) (L "Client") (L "i386") 1 witnessB).2 = .error .valueError
    ∧ (add (step (empty (L "1.2")) ⟨L "Server", L "x86_64", 0, witnessA⟩) (L "Client") (L "i386") 1 witnessB).2 = .error .valueError := by
  decide +kernel

example : witnessA.validate = .ok () := by decide +kernel
/-- hypotheses of `C09_load_rejects`: 1.2 and 2.0 headers have `old = false`, a 1.1 header has `old = true` and enforces -/
example : versionTuple (.str (L "1.2")) = .ok (.nums (1, 2)) ∧ gateEval Gen.gate_images_Images_deserialize_0 (.nums (1, 2)) = .ok false
    ∧ gateEval Gen.gate_images_Images_deserialize_0 (.nums (2, 0)) = .ok false
    ∧ gateEval Gen.gate_images_Images_deserialize_0 (.nums (1, 1)) = .ok true
    ∧ versionTuple (.str (L "1.1")) = .ok (.nums (1, 1)) := by decide +kernel

example : Enforces (.str (L "1.1")) := by unfold Enforces; decide +kernel
example : Enforces (.str (L "1.2")) := by unfold Enforces; decide +kernel
example : Enforces (.str (L "2.0")) := by unfold Enforces; decide +kernel
example : ¬ Enforces (.str (L "1.0")) := by unfold Enforces; decide +kernel
example : ¬ Enforces (.str (L "0.0")) := by unfold Enforces; decide +kernel

end PM
