import ProductMD.Model.ComposeInfoLegacy
import ProductMD.Model.ImagesLegacy
import ProductMD.Model.TreeInfoLegacy
/-!
# C05 — older format versions are upgraded faithfully and idempotently
(theorems are being added; see the sections below)
-/
namespace PM

/-- the composeinfo gates at the boundary versions, as the source states them now -/
theorem C05_ci_gates_at_boundaries :
    CI.Legacy.gatesOf (0, 2) = .ok ⟨true, true, true, true⟩ ∧ CI.Legacy.gatesOf (0, 3) = .ok ⟨false, true, true, true⟩
    ∧ CI.Legacy.gatesOf (0, 4) = .ok ⟨false, false, true, true⟩ ∧ CI.Legacy.gatesOf (0, 9) = .ok ⟨false, false, true, true⟩
    ∧ CI.Legacy.gatesOf (1, 0) = .ok CI.Legacy.Gates.current ∧ CI.Legacy.gatesOf (2, 0) = .ok CI.Legacy.Gates.current := by
  decide

end PM
