import ProductMD.Model.IniParse
import ProductMD.Model.TreeInfoText
import ProductMD.Proofs.C05Images
import ProductMD.Proofs.C05Rpms
import ProductMD.Proofs.C05CI
import ProductMD.Proofs.C05CIDownEx
import ProductMD.Proofs.C05TreeInfo
import ProductMD.Proofs.C05TreeInfoIdem
import ProductMD.Proofs.C05TIDownEx
import ProductMD.Proofs.C05WitnessTI
import ProductMD.Proofs.C05WitnessTI03
import ProductMD.Proofs.C05WitnessTI00
import ProductMD.Properties.C03
import ProductMD.Properties.C02
import ProductMD.Properties.C09
import ProductMD.Properties.C10
import ProductMD.Model.ComposeInfoLegacy
import ProductMD.Model.TreeInfoLegacy
import ProductMD.Model.RpmsLegacy
/-!
# C05 — older format versions are upgraded faithfully and idempotently

Models: the legacy-aware readers `Model/ImagesLegacy.lean`, `Model/RpmsLegacy.lean`, `Model/ComposeInfoLegacy.lean`,
`Model/TreeInfoLegacy.lean` on top of the C01–C04 writer/reader models.  Every branch is selected by the version gate
regenerated from the source (`Gen.gate_*`); the gate theorems below state each gate as a comparison of PAIRS OF NATURALS
for every version `v`, so the boundary versions (0.2/0.3/0.4, 0.9/1.0, 1.0/1.1/1.2, 2.0) are covered by the statement
and a flipped operator or moved bound stops the file from compiling.

Per format: `…_loaded_is_normal` (what ANY successful load of ANY version has built: valid parts, normal form, current
header), `…_idempotent` (corollary with C01–C04: written as a current-version document, re-read as the same object),
`…_faithful_…` (the documented mapping / loss of the old version).
-/
set_option Elab.async false
namespace PM

/-! ## images -/
section Images
open PM.Img PM.PyOps PM.Spec

/-- the four gates an images document meets, as comparisons of pairs of naturals (for every version) -/
theorem C05_images_gates (v : Nat × Nat) :
    gateEval Gen.gate_images_Image_deserialize_0 (.nums v) = .ok (verLe v (1, 0))
    ∧ gateEval Gen.gate_images_Images_deserialize_0 (.nums v) = .ok (verLe v (1, 1))
    ∧ gateEval Gen.gate_images_Images_add_0 (.nums v) = .ok (verLe (1, 1) v)
    ∧ gateEval Gen.gate_composeinfo_Compose_deserialize_0 (.nums v) = .ok (verLt v (0, 3)) :=
  ⟨rfl, rfl, rfl, rfl⟩

/-- the legacy-aware reader extends the C02 reader: same answer wherever that one answers -/
theorem C05_images_extends_C02 (doc : PyVal) (s : ImgState) (h : deserialize doc = .ok s) : deserializeL doc = .ok s :=
  deserializeL_of_deserialize doc s h

/-- **loaded is normal** — whatever version the document had: the object carries the current header version, its
compose section validates, every filed image validates with proper integer attributes, every arch key is one that
`Images.add` accepts (in `RPM_ARCHES`, not `src`/`nosrc`: source images of ≤ 1.1 documents have been re-filed). -/
theorem C05_images_loaded_is_normal (doc : PyVal) (s : ImgState) (h : deserializeL doc = .ok s) :
    s.version = .str currentVersion ∧ s.compose.validate = .ok ()
    ∧ (∀ i ∈ s.cells.all, i.validate = .ok () ∧ ProperInts i)
    ∧ (∀ t ∈ triples s.cells, Gen.RPM_ARCHES.contains t.2.1 = true ∧ refusedArches.contains t.2.1 = false) := by
  obtain ⟨hv, hc, hg⟩ := deserializeL_good doc s h
  refine ⟨hv, hc, ?_, ?_⟩
  · intro i hi
    rw [all_eq_entries] at hi
    obtain ⟨e, he, rfl⟩ := List.mem_map.mp hi
    exact (hg e he).1
  · intro t ht
    obtain ⟨e, he, rfl⟩ := List.mem_map.mp ht
    exact (hg e he).2

/-- from 1.1 on (the generated gate of the identity scan) a loaded manifest is collision-free -/
theorem C05_images_uniq_from_1_1 (doc : PyVal) (s : ImgState) (ver : PyVal) (hver : headerDeserialize doc = .ok ver)
    (hv : Enforces ver) (h : deserializeL doc = .ok s) : Uniq s.cells := by
  refine deserializeL_inv doc s (fun s => Uniq s.cells) (fun _ _ e h => e ▸ h) ?_ ?_ h
  · intro ver' hver'
    rw [hver] at hver'
    injection hver' with hver'
    subst hver'
    refine ⟨fun s v a id img s' hs hu hadd => ?_⟩
    have := C09_step s v a id img (hs ▸ hv) hu
    rw [hadd] at this
    exact this
  · intro i hi; simp [Cells.all] at hi

/--
**idempotent (partial: hypothesis `Uniq`).**  A manifest loaded from a document of any version is written as a
current-version document which the *current* reader (no legacy branch involved: conversion happens exactly once) reads
back as the same multiset of (variant, arch, 15-attribute record) filings, the same compose section up to the documented
normalisation, and the current header version; and the object read back satisfies all of this again.
`Uniq` holds automatically from 1.1 on (`C05_images_uniq_from_1_1`); for ≤ 1.0 documents it is a real restriction:
`C05_images_F11_witness`.
-/
theorem C05_images_idempotent_partial (doc : PyVal) (s : ImgState) (h : deserializeL doc = .ok s) (hu : Uniq s.cells) :
    ∃ doc' s', (serialize s).2 = .ok doc' ∧ deserialize doc' = .ok s' ∧ deserializeL doc' = .ok s'
      ∧ (triples s'.cells).Perm (triples s.cells) ∧ s'.compose = composeNorm s.compose
      ∧ s'.version = .str currentVersion ∧ Uniq s'.cells ∧ composeNorm s'.compose = s'.compose := by
  obtain ⟨_, hc, hi, ha⟩ := C05_images_loaded_is_normal doc s h
  have hi : ∀ i ∈ s.cells.all, i.validate = .ok () := fun i h => (hi i h).1
  obtain ⟨doc', s', h1, h2, h3, h4, h5⟩ := C02_readback_partial s hc hi ha hu
  obtain ⟨_, _, _, hu', hn⟩ := C02_cycle_closed s s' hc hi ha hu h3 h4
  exact ⟨doc', s', h1, h2, deserializeL_of_deserialize doc' s' h2, h3, h4, h5, hu', hn⟩

/-- **faithful, documented loss of ≤ 1.0** (generated gate, every version `v ≤ (1, 0)`): an image dictionary without
`subvariant` is read exactly as the current reader reads the same dictionary with `"subvariant": ""` — all other
fourteen attributes by the same rules, the subvariant `""`. -/
theorem C05_images_faithful_subvariant (ver : PyVal) (v : Nat × Nat) (hvt : versionTuple ver = .ok (.nums v))
    (hold : verLe v (1, 0) = true) (kvs : List (Str × PyVal)) (hno : kvs.find? (·.1 == L "subvariant") = none) :
    Image.deserialize ver (.dict kvs)
      = Image.deserialize (.str currentVersion) (.dict (kvs ++ [(L "subvariant", .str [])])) := by
  have hs : item (.dict (kvs ++ [(L "subvariant", .str [])])) (L "subvariant") = .ok (.str []) := by
    simp only [item, subscript]
    rw [List.find?_append, hno]
    rfl
  have hg : getD (.dict kvs) (L "subvariant") (.str []) = .ok (.str []) := by
    simp only [getD, hno]
  unfold Image.deserialize
  simp only [item_snoc_ne kvs (L "subvariant", PyVal.str []) (L "path") (by decide),
    item_snoc_ne kvs (L "subvariant", PyVal.str []) (L "mtime") (by decide),
    item_snoc_ne kvs (L "subvariant", PyVal.str []) (L "size") (by decide),
    item_snoc_ne kvs (L "subvariant", PyVal.str []) (L "volume_id") (by decide),
    item_snoc_ne kvs (L "subvariant", PyVal.str []) (L "type") (by decide),
    getD_snoc_ne kvs (L "subvariant", PyVal.str []) (L "format") _ (by decide),
    item_snoc_ne kvs (L "subvariant", PyVal.str []) (L "arch") (by decide),
    item_snoc_ne kvs (L "subvariant", PyVal.str []) (L "disc_number") (by decide),
    item_snoc_ne kvs (L "subvariant", PyVal.str []) (L "disc_count") (by decide),
    item_snoc_ne kvs (L "subvariant", PyVal.str []) (L "checksums") (by decide),
    item_snoc_ne kvs (L "subvariant", PyVal.str []) (L "implant_md5") (by decide),
    item_snoc_ne kvs (L "subvariant", PyVal.str []) (L "bootable") (by decide),
    getD_snoc_ne kvs (L "subvariant", PyVal.str []) (L "unified") _ (by decide),
    getD_snoc_ne kvs (L "subvariant", PyVal.str []) (L "additional_variants") _ (by decide),
    hvt, cur_vt, ok_bind, (C05_images_gates v).1, hold, cur_not_old_image, hs, hg, ↓reduceIte, Bool.false_eq_true]

/-- the hypotheses are satisfiable: header "1.0" (and "0.2"), a dictionary without `subvariant` -/
example : versionTuple (.str (L "1.0")) = .ok (.nums (1, 0)) ∧ verLe (1, 0) (1, 0) = true
    ∧ versionTuple (.str (L "0.2")) = .ok (.nums (0, 2)) ∧ verLe (0, 2) (1, 0) = true
    ∧ ([(L "path", PyVal.str (L "a.iso"))] : List (Str × PyVal)).find? (·.1 == L "subvariant") = none := by decide +kernel

open PM.Img.C10 in
/-- **faithful, a whole ≤ 1.0 images document** (general: any number of variants, arches and images; composition of
`C10_images_refile` — the exact filing of a ≤ 1.1 document incl. the `src` re-filing — with `C05_images_faithful_subvariant`):
for a document of a version `v ≤ (1, 0)` whose image table is `O` and whose image dictionaries carry no `subvariant`, the
filings of the loaded manifest are exactly: the object the CURRENT reader makes of the k-th dictionary with
`"subvariant": ""` added, under `(variant, b)` for every `b` the dictionary's place `(variant, a)` stands for (all arch keys of
the variant but `src` when `a = src`, `a` itself otherwise).  Nothing else is filed, nothing is lost. -/
theorem C05_images_faithful_old_doc (doc : PyVal) (s : ImgState) (h : Img.deserialize doc = .ok s)
    (ver : PyVal) (hver : Img.headerDeserialize doc = .ok ver) (v : Nat × Nat) (hvt : Img.versionTuple ver = .ok (.nums v))
    (hold : verLe v (1, 0) = true)
    (payload : PyVal) (hp : PyOps.item doc (L "payload") = .ok payload) (O : OutCells) (hO : OutNodup O)
    (himg : PyOps.item payload (L "images") = .ok O.toPy)
    (hsub : ∀ x ∈ outTriples O, ∃ kvs, x.2.2 = .dict kvs ∧ kvs.find? (·.1 == L "subvariant") = none) :
    ∀ vr b k img, (vr, b, k, img) ∈ entries s.cells ↔
      ∃ a kvs as, (outTriples O)[k]? = some (vr, a, .dict kvs)
        ∧ Image.deserialize (.str currentVersion) (.dict (kvs ++ [(L "subvariant", .str [])])) = .ok img
        ∧ (vr, as) ∈ O ∧ b ∈ targets (as.map (·.1)) a := by
  have hold11 : gateEval Gen.gate_images_Images_deserialize_0 (.nums v) = .ok true := by
    rw [(C05_images_gates v).2.1]
    obtain ⟨a, b⟩ := v
    simp only [verLe, Bool.or_eq_true, Bool.and_eq_true, decide_eq_true_eq, beq_iff_eq] at hold ⊢
    congr 1
    simp only [Bool.or_eq_true, Bool.and_eq_true, decide_eq_true_eq, beq_iff_eq]
    omega
  intro vr b k img
  rw [C10_images_refile doc s h ver hver (.nums v) hvt hold11 payload hp O hO himg]
  constructor
  · rintro ⟨a, d, as, hk, hd, hv, hb⟩
    obtain ⟨kvs, hkv, hno⟩ := hsub _ (List.mem_of_getElem? hk)
    simp only at hkv
    subst hkv
    rw [C05_images_faithful_subvariant ver v hvt hold kvs hno] at hd
    exact ⟨a, kvs, as, hk, hd, hv, hb⟩
  · rintro ⟨a, kvs, as, hk, hd, hv, hb⟩
    obtain ⟨kvs', hkv, hno⟩ := hsub _ (List.mem_of_getElem? hk)
    simp only at hkv
    injection hkv with hkv
    subst hkv
    rw [← C05_images_faithful_subvariant ver v hvt hold kvs hno] at hd
    exact ⟨a, .dict kvs, as, hk, hd, hv, hb⟩

/-- **faithful, 1.1 and later** (every version `v` with `¬ v ≤ (1, 0)`): the image reader does not depend on the version —
nothing is defaulted, a document without `subvariant` is refused as by the current reader -/
theorem C05_images_faithful_from_1_1 (ver : PyVal) (v : Nat × Nat) (hvt : versionTuple ver = .ok (.nums v))
    (hnew : verLe v (1, 0) = false) (d : PyVal) :
    Image.deserialize ver d = Image.deserialize (.str currentVersion) d := by
  unfold Image.deserialize
  simp only [hvt, cur_vt, ok_bind, (C05_images_gates v).1, hnew, cur_not_old_image]

example : versionTuple (.str (L "1.1")) = .ok (.nums (1, 1)) ∧ verLe (1, 1) (1, 0) = false
    ∧ versionTuple (.str (L "2.0")) = .ok (.nums (2, 0)) ∧ verLe (2, 0) (1, 0) = false := by decide +kernel

/-- **F11 through the legacy reader**: a 1.0 document (no subvariants) with two images of equal type/format/arch/disc
number and different checksums is accepted, written as a current-version document, and that document is refused -/
def wF11doc : PyVal :=
  let img (p c : String) : PyVal := .dict [(L "path", .str (L p)), (L "mtime", .int 1), (L "size", .int 1), (L "volume_id", .none),
    (L "type", .str (L "dvd")), (L "format", .str (L "iso")), (L "arch", .str (L "x86_64")), (L "disc_number", .int 1),
    (L "disc_count", .int 1), (L "checksums", .dict [(L "md5", .str (L c))]), (L "implant_md5", .none), (L "bootable", .bool false)]
  .dict [(L "header", .dict [(L "version", .str (L "1.0"))]),
    (L "payload", .dict [(L "compose", .dict [(L "id", .str (L "F-22-20150522.0")), (L "type", .str (L "production")),
        (L "date", .str (L "20150522")), (L "respin", .int 0)]),
      (L "images", .dict [(L "Server", .dict [(L "x86_64", .list [img "a.iso" "a", img "b.iso" "b"])])])])]

theorem C05_images_F11_witness :
    errIs (match deserializeL wF11doc with
      | .ok s => (match (serialize s).2 with | .ok d => deserializeL d | .error _ => .ok default)
      | .error _ => .ok default) .valueError = true := by decide +kernel

/-- non-vacuity: a 1.0 document with a `src` cell and no subvariants goes through the whole upgrade cycle in the model,
the second document equals the first -/
def wOldDoc : PyVal :=
  let img (p a : String) (n : Int) : PyVal := .dict [(L "path", .str (L p)), (L "mtime", .int 1), (L "size", .int 1), (L "volume_id", .none),
    (L "type", .str (L "dvd")), (L "format", .str (L "iso")), (L "arch", .str (L a)), (L "disc_number", .int n),
    (L "disc_count", .int 2), (L "checksums", .dict [(L "md5", .str (L p))]), (L "implant_md5", .none), (L "bootable", .bool false)]
  .dict [(L "header", .dict [(L "version", .str (L "0.2"))]),
    (L "payload", .dict [(L "compose", .dict [(L "id", .str (L "F-22-20150522.n.3")), (L "type", .str (L "x"))]),
      (L "images", .dict [(L "Server", .dict [(L "x86_64", .list [img "a.iso" "x86_64" 1]), (L "i386", .list [img "b.iso" "i386" 1]),
        (L "src", .list [img "s.iso" "src" 2])])])])]

example : (match upgradeCycle wOldDoc with
    | .ok (s, d1, s2, d2) => s.cells.all.length == 4 && PyVal.beq (PyVal.canon d1) (PyVal.canon d2)
        && pyEq s.compose.date (.str (L "20150522")) && pyEq s.compose.type (.str (L "nightly")) && pyEq s.compose.respin (.int 3)
    | .error _ => false) = true := by decide +kernel

/-- a 1.0 document for `C05_images_faithful_old_doc`: no `subvariant` anywhere, a `src` cell -/
def wImg10 (p a : String) : PyVal := .dict [(L "path", .str (L p)), (L "mtime", .int 1), (L "size", .int 1), (L "volume_id", .none),
    (L "type", .str (L "dvd")), (L "format", .str (L "iso")), (L "arch", .str (L a)), (L "disc_number", .int 1),
    (L "disc_count", .int 1), (L "checksums", .dict [(L "md5", .str (L p))]), (L "implant_md5", .none), (L "bootable", .bool false)]
def wTable10 : OutCells := [(L "Server", [(L "i386", [wImg10 "b.iso" "i386"]), (L "src", [wImg10 "s.iso" "src"]), (L "x86_64", [wImg10 "a.iso" "x86_64"])])]
def wDoc10 : PyVal :=
  .dict [(L "header", .dict [(L "version", .str (L "1.0"))]),
    (L "payload", .dict [(L "compose", .dict [(L "id", .str (L "F-22-20150522.n.3")), (L "type", .str (L "nightly")),
        (L "date", .str (L "20150522")), (L "respin", .int 3)]),
      (L "images", wTable10.toPy)])]

/-- its hypotheses hold: the document loads, header 1.0 ≤ (1, 0), unique keys, no `subvariant`; and the source image is
filed under both binary arches (4 filings from 3 dictionaries) -/
example : (Img.deserialize wDoc10).toBool = true ∧ Img.headerDeserialize wDoc10 = .ok (.str (L "1.0"))
    ∧ Img.versionTuple (.str (L "1.0")) = .ok (.nums (1, 0)) ∧ OutNodup wTable10
    ∧ (∀ x ∈ outTriples wTable10, ∃ kvs, x.2.2 = .dict kvs ∧ kvs.find? (·.1 == L "subvariant") = none)
    ∧ (match Img.deserialize wDoc10 with | .ok s => (entries s.cells).length | .error _ => 0) = 4 := by
  refine ⟨by decide +kernel, by rfl, by rfl, ⟨by decide, by decide⟩, ?_, by decide +kernel⟩
  intro x hx
  have : outTriples wTable10 = [(L "Server", L "i386", wImg10 "b.iso" "i386"), (L "Server", L "src", wImg10 "s.iso" "src"),
      (L "Server", L "x86_64", wImg10 "a.iso" "x86_64")] := rfl
  rw [this] at hx
  simp only [List.mem_cons, List.not_mem_nil, or_false] at hx
  rcases hx with rfl | rfl | rfl <;> exact ⟨_, rfl, by decide⟩

end Images

/-! ## rpms -/
section Rpms
open PM.Mf

/-- the gates an rpms document meets, as comparisons of pairs of naturals (for every version) -/
theorem C05_rpms_gates (v : Nat × Nat) :
    gateHolds Gen.gate_rpms_Rpms_deserialize_0 v = verLe v (0, 3)
    ∧ gateHolds Gen.gate_composeinfo_Compose_deserialize_0 v = verLt v (0, 3)
    ∧ gateHolds Gen.gate_common_Header_deserialize_0 v = verLe (1, 1) v :=
  ⟨rfl, rfl, rfl⟩

/-- the legacy-aware reader extends the C03 reader: same answer wherever that one answers -/
theorem C05_rpms_extends_C03 (doc : PyVal) (m : Manifest) (h : Mf.deserialize .rpms doc = .ok m) :
    deserializeL .rpms doc = .ok m := Mf.deserializeL_of_deserialize doc m h

/-- **loaded is normal** — whatever version the document had (0.3 manifests are replayed through `Rpms.add`, later ones are
stored verbatim): the object carries the current header version, its compose section validates, and the mapping is
JSON-representable (string keys bound once, no foreign values) whenever the document was — for a 0.3 manifest
unconditionally, because every entry went through `Rpms.add` from the empty mapping. -/
theorem C05_rpms_loaded_is_normal (doc : PyVal) (m : Manifest) (h : deserializeL .rpms doc = .ok m) :
    m.version = .str Mf.currentVersion ∧ composeValidate m.compose = .ok ()
    ∧ (jsonRep doc = true → jsonRep m.payload = true) := deserializeL_rpms_good doc m h

/--
**idempotent.**  A manifest loaded from a document of any version (with a compose section of the documented field types,
`hc`) is written as a current-version document; the *current* reader (`Mf.deserialize`, no legacy branch: conversion
happens exactly once) reads back the same mapping (key-sorted, Python-equal), the compose section up to the documented
normalisation, the current header version; the second text equals the first, byte for byte.
-/
theorem C05_rpms_idempotent (doc : PyVal) (m : Manifest) (c : ComposeT) (h : deserializeL .rpms doc = .ok m)
    (hd : jsonRep doc = true) (hc : m.compose = c.toObj) :
    ∃ rt, roundtrip .rpms m = .ok rt
      ∧ rt.reloaded.payload = PyVal.canon m.payload ∧ PyVal.pyEq rt.reloaded.payload m.payload = true
      ∧ rt.reloaded.compose = c.norm.toObj ∧ rt.reloaded.version = .str Mf.currentVersion ∧ rt.text2 = rt.text1 := by
  obtain ⟨_, hv, hp⟩ := deserializeL_rpms_good doc m h
  obtain ⟨version, compose, payload⟩ := m
  simp only at hc hv hp ⊢
  subst hc
  exact C03_roundtrip_payload .rpms version c payload (hp hd) hv

/-- a 0.2 manifest: compose without date/respin, `manifest` section, a `src` table, type `package`, upper-case key -/
def wRpms02 : PyVal :=
  let e (p : String) (k : PyVal) (t : Option String) : PyVal :=
    .dict ([(lit "path", .str (lit p)), (lit "sigkey", k)] ++ match t with | some t => [(lit "type", .str (lit t))] | none => [])
  .dict [(lit "header", .dict [(lit "version", .str (lit "0.2"))]),
    (lit "payload", .dict [(lit "compose", .dict [(lit "id", .str (lit "F-22-20150522.t.1")), (lit "type", .str (lit "?"))]),
      (lit "manifest", .dict [(lit "Server", .dict [
        (lit "src", .dict [(lit "bash-0:4.3-1.src", e "S/source/bash-4.3-1.src.rpm" (.str (lit "AB12")) none)]),
        (lit "x86_64", .dict [(lit "bash-0:4.3-1.src", .dict [
          (lit "bash-0:4.3-1.x86_64.rpm", e "S/x86_64/bash-4.3-1.x86_64.rpm" .none (some "package")),
          (lit "bash-debuginfo-0:4.3-1.x86_64", e "S/x86_64/bash-debuginfo-4.3-1.x86_64.rpm" (.str (lit "cd")) (some "debug"))])])])])])]

/-- **faithful, on a witness** (the general re-filing statement is C10's): type `package` becomes category `binary`, the
source RPM of the `src` table is filed next to its binaries with category `source` and its own path and lower-cased key,
the `src` arch is gone, `.rpm` is dropped from the key; date/type/respin come from the id -/
theorem C05_rpms_faithful_witness :
    (match deserializeL .rpms wRpms02 with
     | .ok m =>
       PyVal.beq (PyVal.canon m.payload) (PyVal.canon (.dict [(lit "Server", .dict [(lit "x86_64", .dict [(lit "bash-0:4.3-1.src", .dict [
          (lit "bash-0:4.3-1.x86_64", rpmRecord none (lit "S/x86_64/bash-4.3-1.x86_64.rpm") (lit "binary")),
          (lit "bash-0:4.3-1.src", rpmRecord (some (lit "ab12")) (lit "S/source/bash-4.3-1.src.rpm") (lit "source")),
          (lit "bash-debuginfo-0:4.3-1.x86_64", rpmRecord (some (lit "cd")) (lit "S/x86_64/bash-debuginfo-4.3-1.x86_64.rpm") (lit "debug"))])])])]))
       && m.compose == [(lit "id", .str (lit "F-22-20150522.t.1")), (lit "type", .str (lit "test")), (lit "date", .str (lit "20150522")),
                        (lit "respin", .int 1), (lit "label", .none), (lit "final", .bool false)]
     | .error _ => false) = true := by decide +kernel

/-- the hypotheses of `C05_rpms_idempotent` hold of the witness: the document is JSON-representable and the compose section
read from the id has the documented field types -/
example : jsonRep wRpms02 = true
    ∧ (match deserializeL .rpms wRpms02 with
       | .ok m => m.compose == (ComposeT.toObj ⟨lit "F-22-20150522.t.1", lit "test", lit "20150522", 1, none, false⟩)
       | .error _ => false) = true := by decide +kernel

end Rpms

/-! ## composeinfo -/
section ComposeInfo
open PM.CI

/-- the four composeinfo gates as comparisons of pairs of naturals, for every version: `Compose.deserialize_0_3` below 0.3,
`Release.deserialize_0_3` (`product` section) up to 0.3, UID-prefix forest below 1.0 -/
theorem C05_ci_gates (v : Nat × Nat) :
    Legacy.gatesOf v = .ok ⟨PM.verLt v (0, 3), PM.verLe v (0, 3), PM.verLt v (1, 0), PM.verLt v (1, 0)⟩ := rfl

/-- … at the boundary versions -/
theorem C05_ci_gates_at_boundaries :
    Legacy.gatesOf (0, 2) = .ok ⟨true, true, true, true⟩ ∧ Legacy.gatesOf (0, 3) = .ok ⟨false, true, true, true⟩
    ∧ Legacy.gatesOf (0, 4) = .ok ⟨false, false, true, true⟩ ∧ Legacy.gatesOf (0, 9) = .ok ⟨false, false, true, true⟩
    ∧ Legacy.gatesOf (1, 0) = .ok Legacy.Gates.current ∧ Legacy.gatesOf (1, 1) = .ok Legacy.Gates.current
    ∧ Legacy.gatesOf (2, 0) = .ok Legacy.Gates.current := by
  decide

/-- the legacy-aware reader extends the C01 reader: same answer wherever that one answers (formats >= 1.0) -/
theorem C05_ci_extends_C01 (doc : PyVal) (ci : ComposeInfo) (h : CI.deserialize doc = .ok ci) :
    Legacy.deserialize doc = .ok ci := Legacy.deserialize_of_deserialize doc ci h

/-- **loaded is normal (partial: validity and key structure; `Normal` of C01 is false of the code)** — whatever version the
document had, at any depth, for explicit child lists and for the UID-prefix forest below 1.0 alike:
* the compose and release sections validate; a layered release has a base product that validates, a non-layered one none;
* every variant passes the generated `Variant` validators AGAINST ITS PARENT (`ValidVs`: id syntax, UID aligned with the
  parent's UID — with the id at top level —, name, type, arches non-empty and within the parent's, container keys), and the
  release of a layered-product variant validates;
* every container is keyed by id with no key twice (`WellKeyed`, the hypothesis of C01).
The header is not part of the typed object: the writer always emits the current version (C01).
Full statement (DESIGN): `… → Valid x ∧ Normal x`.  `Normal` (C01: `final` only with a label, children in sorted order) does
NOT hold of what the reader returns — `final` is kept without a label until the first write, children of the prefix scan
come in document order: `C05_ci_loaded_not_normal_witness`; both are settled by the first write (`C05_ci_idempotent`).
The boundary of the prefix forest is F32 (depth ≥ 3 refused: `C05_ci_legacy_depth3_refused_witness`). -/
theorem C05_ci_loaded_is_normal_partial (doc : PyVal) (ci : ComposeInfo) (h : Legacy.deserialize doc = .ok ci) :
    validateClass "composeinfo.Compose" (composeObj ci.compose) = .ok ()
    ∧ validateClass "composeinfo.Release" (releaseObj ci.release) = .ok ()
    ∧ (ci.release.isLayered = true → ∃ b, ci.base = some b ∧ validateClass "composeinfo.BaseProduct" (baseObj (some b)) = .ok ())
    ∧ (ci.release.isLayered = false → ci.base = none)
    ∧ Legacy.ValidVs none ci.variants
    ∧ WellKeyed ci :=
  ⟨(Legacy.deserialize_sections_valid doc ci h).1, (Legacy.deserialize_sections_valid doc ci h).2,
   (Legacy.deserialize_forest_valid doc ci h).2.1, (Legacy.deserialize_forest_valid doc ci h).2.2,
   (Legacy.deserialize_forest_valid doc ci h).1, Legacy.deserialize_wellKeyed doc ci h⟩

/--
**idempotent.**  A compose description loaded from a document of any version, once the current writer has written it as
document `j` (`hs`: the dump succeeded): the *current* reader (`CI.deserialize`, no legacy branch: conversion happens exactly
once) — and therefore also the legacy-aware one — reads `j` back as the normal form of the loaded object (children in sorted
order, `final` only with a label; nothing else changes: `C01_norm_*`), and writing that again gives the very same document.
Nothing but the load and the successful dump is assumed: the loaded object is well keyed (`C05_ci_loaded_is_normal_partial`)
and a successful write of a well-keyed forest has distinct UIDs (`C01_written_uids_distinct`).
-/
theorem C05_ci_idempotent (doc j : PyVal) (x : ComposeInfo) (h : Legacy.deserialize doc = .ok x)
    (hs : serialize x = .ok j) :
    CI.deserialize j = .ok x.norm ∧ Legacy.deserialize j = .ok x.norm ∧ serialize x.norm = .ok j := by
  have hk := Legacy.deserialize_wellKeyed doc x h
  have h1 := C01_readback x j hk hs
  exact ⟨h1, Legacy.deserialize_of_deserialize j _ h1, C01_fixpoint x j hk hs⟩

/-- through the text as well: with `parse` standing for `json.load` (inverting the printer on the written document is the
explicit hypothesis of C01_bytes), the text of the first dump is re-loaded and dumped to the same text -/
theorem C05_ci_idempotent_bytes (parse : Str → Except Err PyVal) (doc : PyVal) (x : ComposeInfo) (t : Str)
    (h : Legacy.deserialize doc = .ok x)
    (hjson : ∀ j, serialize x = .ok j → parse (JsonText.dumps j) = .ok j) (hd : dumps x = .ok t) :
    reloadDump parse t = .ok t :=
  C01_bytes parse x t (Legacy.deserialize_wellKeyed doc x h) hjson hd

/-- **faithful, `product` section (≤ 0.3)**: what is read has `internal = False`, whatever the section says -/
theorem C05_ci_faithful_product_not_internal (holder : PyVal) (r : Release) (h : Legacy.releaseDe03 holder = .ok r) :
    r.internal = false := (Legacy.releaseDe03_valid holder r h).2

/-- **faithful, forest below 1.0 — top level** (any number of variants, any depth): detecting the top level from UID prefixes
(`rsplit("-", 1)` head not a key) selects exactly the keys the explicit child lists leave unreferenced, *iff-condition*
stated on the table: a key is referenced as a child exactly when the part before its last dash is a key.  (Violated by a
dashed top-level UID beside its prefix — not expressible by prefixes; the acceptance mutant `< (1,0)` → `<= (1,0)` lives there.) -/
theorem C05_ci_faithful_tops (keys cs : List Str)
    (h : ∀ u ∈ keys, cs.contains u = true ↔ ∃ hd, Legacy.legacyHead u = some hd ∧ keys.contains hd = true) :
    keys.filter (Legacy.isLegacyTop keys) = keys.filter (fun u => !cs.contains u) :=
  Legacy.tops_legacy_eq keys cs h

/-- **faithful, forest below 1.0 — children** (any number of children): for an entry whose `variants` list was removed by the
down-conversion, the legacy reader (gate `< (1, 0)`) looks its children up under exactly the keys, in exactly the order, the
current reader uses for the entry with the list — given a table in sorted key order (what `sort_keys=True` writes), every
listed child present, and nothing else under the prefix `uid-`.  The last condition is what fails from depth 3 on (a
grandchild `uid-c-g` also starts with `uid-`): F32, `C05_ci_legacy_depth3_refused_witness`.  The assembly of these two facts
through `buildL` into the whole reader is `C05_ci_faithful_down`. -/
theorem C05_ci_faithful_children (g : Legacy.Gates) (hg : g.variant = true) (full data data' : PyVal) (vuid : Str) (ids : List Str)
    (hd : data.get? k%"variants" = some (strList ids)) (hd' : data'.get? k%"variants" = none)
    (hs : SSorted full.keys)
    (hex : ∀ k ∈ full.keys, Str.startsWith k (vuid ++ ['-']) = true ↔ ∃ i ∈ ids, k = vuid ++ '-' :: i)
    (hin : ∀ i ∈ ids, vuid ++ '-' :: i ∈ full.keys) :
    Legacy.kidKeysL g full data' vuid vuid = Legacy.kidKeysL Legacy.Gates.current full data vuid vuid :=
  Legacy.kidKeys_faithful g hg full data data' vuid ids hd hd' hs hex hin

/-- the hypotheses are satisfiable: the table of `wCI02` in sorted order, `Server` with its two children -/
example :
    let keys : List Str := [k%"Client-X", k%"Server", k%"Server-LP", k%"Server-optional"]
    let cs : List Str := [k%"Server-LP", k%"Server-optional"]
    (∀ u ∈ keys, cs.contains u = true ↔ ∃ hd, Legacy.legacyHead u = some hd ∧ keys.contains hd = true)
    ∧ SSorted keys
    ∧ (∀ k ∈ keys, Str.startsWith k (k%"Server" ++ ['-']) = true ↔ ∃ i ∈ [k%"LP", k%"optional"], k = k%"Server" ++ '-' :: i)
    ∧ (∀ i ∈ [k%"LP", k%"optional"], k%"Server" ++ '-' :: i ∈ keys) := by
  refine ⟨?_, by unfold SSorted; decide, ?_, by decide⟩
  · intro u hu
    simp only [List.mem_cons, List.not_mem_nil, or_false] at hu
    rcases hu with rfl | rfl | rfl | rfl <;> decide
  · intro k hk
    simp only [List.mem_cons, List.not_mem_nil, or_false] at hk
    rcases hk with rfl | rfl | rfl | rfl <;> decide

/-! ### the general down-conversion theorem

`CI.down vs ver keep ci` (Model/ComposeInfoDown.lean) is the document a writer of format `ver` would have written for `ci`, from
the format documentation; `CI.expected ver keep ci` is the documented result of loading it: the normal form of `ci` (what the
current format gives back, C01) with exactly the stated losses — release / base-product / per-variant release `type` → "ga"
below 1.1, `internal` → False where the format has no such field (always in a `product` section).  Both are compared with the
harness's spec-side `legacy.ci_down` / `ci_expect` on every generated case (driver ops `c05_ci_down`, `c05_ci_expected`). -/

/--
**faithful, every version, every forest in the domain.**  For every description `ci` keyed the way `add()` keys it, every
version `ver` whose text `vs` the header accepts (`hval`, `hvt`: facts about the text alone) and every choice of the optional
`internal`: the legacy-aware reader loads the format-`ver` document of `ci` as exactly `expected ver keep ci` — every section,
every variant at any depth with fields, arches, paths, release and children.  Side conditions, both exact and decidable:

* `hid` (only below 0.3, where the compose section has no `date` / `respin`): the id decoder finds the description's own date,
  type and respin in its id (`IdDerivable`; necessity: `exDown_id_needed`, and F10 / F24 are ids where it does not);
* `hdom` (only below 1.0, where children are related by UID prefix only), on the uid-keyed table `d` the writer builds:
  `KidsExact d` — nothing but the listed children of an entry lies under its prefix `uid-` — and `TopsExact d` — a key is
  somebody's child exactly when the part before its last dash is a key.  Every forest of depth ≤ 2 whose top-level UIDs are not
  dash-extensions of one another satisfies it; no forest of depth 3 does (a grandchild `uid-c-g` lies under `uid-`): F32,
  `C05_ci_down_domain_needed`.  From 1.0 on there is no condition (`C05_ci_faithful_down_from_1_0`).
-/
theorem C05_ci_faithful_down (vs : Str) (ver : Nat × Nat) (keep : Bool) (ci : ComposeInfo) (j : PyVal)
    (hdown : down vs ver keep ci = .ok j) (hk : WellKeyed ci)
    (hval : validateClass "common.Header" (headerObj (.str vs)) = .ok ()) (hvt : versionTuple vs = .ok ver)
    (hid : vLe (0, 3) ver = false → IdDerivable ci.compose)
    (hdom : LegacyDomain ver ci) :
    Legacy.deserialize j = .ok (expected ver keep ci) :=
  deserialize_down vs ver keep ci j hdown hk (headerOK_of vs ver keep hval hvt) hid hdom

/-- from 1.0 on (explicit child lists, full compose section): no side condition, any depth, any UIDs -/
theorem C05_ci_faithful_down_from_1_0 (vs : Str) (ver : Nat × Nat) (keep : Bool) (ci : ComposeInfo) (j : PyVal)
    (h10 : vLe (1, 0) ver = true)
    (hdown : down vs ver keep ci = .ok j) (hk : WellKeyed ci)
    (hval : validateClass "common.Header" (headerObj (.str vs)) = .ok ()) (hvt : versionTuple vs = .ok ver) :
    Legacy.deserialize j = .ok (expected ver keep ci) :=
  C05_ci_faithful_down vs ver keep ci j hdown hk hval hvt
    (fun h => by rw [vLe_0_3_of_1_0 ver h10] at h; cases h) (legacyDomain_from_1_0 ver ci h10)

/-- a format that has every field (≥ 1.1 and `internal` written: any ≥ 1.2, or a 1.1 writer that already knew it) loses
nothing: the result is the normal form itself, i.e. what the current format reads back (C01_readback) -/
theorem C05_ci_faithful_down_lossless (ver : Nat × Nat) (keep : Bool) (ci : ComposeInfo)
    (h11 : vLe (1, 1) ver = true) (hi : keep = true ∨ vLe (1, 2) ver = true) :
    expected ver keep ci = ci.norm :=
  expected_lossless ver keep ci (lossless_of ver keep h11 hi)

/-- **then idempotent**: the object loaded from the format-`ver` document, once the current writer has written it as `j'`
(a current-version document), is re-read by the current reader as its normal form, and writing that again gives `j'`;
through the text with the modelled `json.loads` as well (C01_bytes_parsed; `hnum`: `int()` accepts the respin's digits) -/
theorem C05_ci_down_then_idempotent (lim : Nat) (vs : Str) (ver : Nat × Nat) (keep : Bool) (ci : ComposeInfo) (j j' : PyVal) (t : Str)
    (hdown : down vs ver keep ci = .ok j) (hk : WellKeyed ci)
    (hval : validateClass "common.Header" (headerObj (.str vs)) = .ok ()) (hvt : versionTuple vs = .ok ver)
    (hid : vLe (0, 3) ver = false → IdDerivable ci.compose) (hdom : LegacyDomain ver ci)
    (hs : serialize (expected ver keep ci) = .ok j')
    (hnum : JsonParse.intFits lim ci.compose.respin = true) (hd : dumps (expected ver keep ci) = .ok t) :
    CI.deserialize j' = .ok (expected ver keep ci).norm ∧ serialize (expected ver keep ci).norm = .ok j'
    ∧ reloadDump (JsonParse.parseWith lim) t = .ok t := by
  have h := C05_ci_faithful_down vs ver keep ci j hdown hk hval hvt hid hdom
  have hi := C05_ci_idempotent j j' _ h hs
  have hkx := Legacy.deserialize_wellKeyed j _ h
  have hr : (expected ver keep ci).compose.respin = ci.compose.respin := (C01_norm_sections ci).2.2.2.1
  exact ⟨hi.1, hi.2.2, C01_bytes_parsed lim _ t hkx (by rw [hr]; exact hnum) hd⟩

/-- the theorems are not vacuous: on `exDown` (depth 2, layered release with base product, label, dashed top-level UID, a
layered-product child with its own release) every hypothesis holds at 0.2 (every loss at once) and at 0.9, the documents
exist, and the object loaded at 0.2 is the stated one (`exDown_expected_0_2`: both release types and the base product's are
"ga", every `internal` False, nothing else differs from the normal form) -/
theorem C05_ci_down_nonvacuous :
    (∃ j, down k%"0.2" (0, 2) false exDown = .ok j ∧ Legacy.deserialize j = .ok (expected (0, 2) false exDown))
    ∧ (∃ j, down k%"0.9" (0, 9) false exDown = .ok j ∧ Legacy.deserialize j = .ok (expected (0, 9) false exDown))
    ∧ (∃ j, down k%"1.1" (1, 1) true exDown = .ok j ∧ Legacy.deserialize j = .ok exDown.norm) := by
  obtain ⟨hk, hd2, hd9, ho2, ho9, ho11⟩ := exDown_hyps
  refine ⟨?_, ?_, ?_⟩
  · cases hj : down k%"0.2" (0, 2) false exDown with
    | error e => rw [hj] at ho2; cases ho2
    | ok j => exact ⟨j, rfl, C05_ci_faithful_down _ _ _ _ j hj hk (by decide +kernel) (by decide +kernel) (fun _ => exDown_idDerivable) hd2⟩
  · cases hj : down k%"0.9" (0, 9) false exDown with
    | error e => rw [hj] at ho9; cases ho9
    | ok j => exact ⟨j, rfl, C05_ci_faithful_down _ _ _ _ j hj hk (by decide +kernel) (by decide +kernel) (fun h => by cases h) hd9⟩
  · cases hj : down k%"1.1" (1, 1) true exDown with
    | error e => rw [hj] at ho11; cases ho11
    | ok j =>
      refine ⟨j, rfl, ?_⟩
      rw [← C05_ci_faithful_down_lossless (1, 1) true exDown rfl (Or.inl rfl)]
      exact C05_ci_faithful_down_from_1_0 _ _ _ _ j rfl hj hk (by decide +kernel) (by decide +kernel)

/-- **the domain is needed (F32)**: the three-level description `A` → `A-B` → `A-B-C` is well keyed, outside `LegacyDomain`
at 0.9, its 0.9 document exists and the reader refuses it (ValueError); and below 0.3 a date that is not the id's is not
recovered (`IdDerivable`) -/
theorem C05_ci_down_domain_needed :
    (WellKeyed exDeep ∧ ¬ LegacyDomain (0, 9) exDeep
     ∧ (match down k%"0.9" (0, 9) false exDeep with
        | .ok j => (match Legacy.deserialize j with | .error .valueError => true | _ => false)
        | .error _ => false) = true)
    ∧ (let ci := { exDown with compose := { exDown.compose with date := k%"20150521" } }
       (match down k%"0.2" (0, 2) false ci with
        | .ok j => (match Legacy.deserialize j with | .ok x => x.compose.date == k%"20150522" | .error _ => false)
        | .error _ => false) = true) :=
  ⟨exDeep_outside, exDown_id_needed⟩

/-- a 0.2 document: no date/respin, `product` section without type/internal, children by UID prefix only, a layered
product with its own `product` section -/
def wCI02 : PyVal :=
  let paths : PyVal := .dict [(k%"os_tree", .dict [(k%"x86_64", .str k%"S/x86_64/os")])]
  let var (id uid ty : Str) (extra : List (Str × PyVal)) : PyVal :=
    .dict ([(k%"id", .str id), (k%"uid", .str uid), (k%"name", .str id), (k%"type", .str ty),
            (k%"arches", .list [.str k%"x86_64"]), (k%"paths", paths)] ++ extra)
  .dict [(k%"header", .dict [(k%"version", .str k%"0.2")]),
    (k%"payload", .dict [
      (k%"compose", .dict [(k%"id", .str k%"F-22-20150522.n.3"), (k%"type", .str k%"whatever")]),
      (k%"product", .dict [(k%"name", .str k%"Fedora"), (k%"short", .str k%"F"), (k%"version", .str k%"22"), (k%"internal", .bool true)]),
      (k%"variants", .dict [
        (k%"Server", var k%"Server" k%"Server" k%"variant" []),
        (k%"Server-optional", var k%"optional" k%"Server-optional" k%"optional" []),
        (k%"Server-LP", var k%"LP" k%"Server-LP" k%"layered-product"
            [(k%"product", .dict [(k%"name", .str k%"L"), (k%"short", .str k%"l"), (k%"version", .str k%"1"), (k%"type", .str k%"EUS")])]),
        (k%"Client-X", var k%"ClientX" k%"Client-X" k%"variant" [])])])]

/-- **faithful and idempotent, on a witness** (the model performs the whole upgrade): date/type/respin from the id, type
`ga`, not internal, forest rebuilt from the prefixes (two children under `Server` in document order, the dashed `Client-X` stays top level),
the layered product's own release lower-cased; second document identical to the first -/
theorem C05_ci_upgrade_witness :
    (match Legacy.upgradeCycle wCI02 with
     | .ok (x, d1, x2, d2) =>
       x.compose.date == k%"20150522" && x.compose.type == k%"nightly" && x.compose.respin == 3
       && x.release.type == k%"ga" && x.release.internal == false
       && x.variants.map Variant.uid == [k%"Client-X", k%"Server"]
       && (x.variants.map fun v => v.kids.map Variant.uid) == [[], [k%"Server-optional", k%"Server-LP"]]
       && (x.variants.flatMap fun v => v.kids.map fun c => c.release.map (·.type)) == [none, some k%"eus"]
       && PyVal.beq (PyVal.canon d1) (PyVal.canon d2) && decide (UidsDistinct x) && decide (x2.norm.variants.length = 2)
     | .error _ => false) = true := by decide +kernel

/-- what the reader returns is not `Normal` in C01's sense: a 1.0 document with `final: true` and no label loads with
`final = True` (dropped by the first write), and `norm` is not the identity on it -/
theorem C05_ci_loaded_not_normal_witness :
    let doc : PyVal := .dict [(k%"header", .dict [(k%"version", .str k%"1.0")]),
      (k%"payload", .dict [
        (k%"compose", .dict [(k%"id", .str k%"F-22-20150522.0"), (k%"type", .str k%"production"), (k%"date", .str k%"20150522"),
                            (k%"respin", .int 0), (k%"final", .bool true)]),
        (k%"release", .dict [(k%"name", .str k%"Fedora"), (k%"short", .str k%"F"), (k%"version", .str k%"22")]),
        (k%"variants", .dict [])])]
    (match Legacy.deserialize doc with
     | .ok x => x.compose.final && x.compose.label.isNone && !x.norm.compose.final && decide (¬ Normal x)
     | .error _ => false) = true := by decide +kernel

/-- **F32 witness**: a three-level forest related only by UID prefixes is refused (the grandchild is also taken for a
child of the top-level variant and fails the UID alignment), although `rsplit` names its parent unambiguously -/
theorem C05_ci_legacy_depth3_refused_witness :
    let var (id uid : Str) : PyVal :=
      .dict [(k%"id", .str id), (k%"uid", .str uid), (k%"name", .str id), (k%"type", .str k%"variant"),
             (k%"arches", .list [.str k%"x86_64"]), (k%"paths", .dict [])]
    let doc : PyVal := .dict [(k%"header", .dict [(k%"version", .str k%"0.9")]),
      (k%"payload", .dict [
        (k%"compose", .dict [(k%"id", .str k%"F-22-20150522.0"), (k%"type", .str k%"production"), (k%"date", .str k%"20150522"), (k%"respin", .int 0)]),
        (k%"release", .dict [(k%"name", .str k%"Fedora"), (k%"short", .str k%"F"), (k%"version", .str k%"22")]),
        (k%"variants", .dict [(k%"A", var k%"A" k%"A"), (k%"A-B", var k%"B" k%"A-B"), (k%"A-B-C", var k%"C" k%"A-B-C")])])]
    (match Legacy.deserialize doc with | .error .valueError => true | _ => false) = true
    ∧ Legacy.legacyHead k%"A-B-C" = some k%"A-B" := by decide +kernel

end ComposeInfo

/-! ## treeinfo -/
section TreeInfo
open PM.TI PM.Ini

/-- **which reader for which version** (generated gates; every class consults its own gate):
no header / 0.0 — every class takes its pre-productmd reader, paths are fixed up, no header type is asked for -/
theorem C05_ti_gates_0_0 : TI.Legacy.selsOf (0, 0) = .ok
    { headerTyped := false, release := .v00, tree00 := true, variants00 := true, paths := .v00, addonFallback := false,
      variant := .v00, fixImages := true, fixStage2 := true, fixChecksums := true, media00 := true } :=
  TI.Legacy.selsOf_0_0

/-- … every version `v ≠ (0, 0)` with `v ≤ (0, 3)` (0.1, 0.2, 0.3): `[product]`, the 0.3 variant and path readers, the
current tree / media / checksum readers, no path fix-up, no header type -/
theorem C05_ti_gates_le_0_3 (v : Nat × Nat) (h0 : (v == (0, 0)) = false) (h3 : PM.verLe v (0, 3) = true) :
    TI.Legacy.selsOf v = .ok
    { headerTyped := false, release := .v03, tree00 := false, variants00 := false, paths := .v03, addonFallback := false,
      variant := .v03, fixImages := false, fixStage2 := false, fixChecksums := false, media00 := false } :=
  TI.Legacy.selsOf_le_0_3 v h0 h3

example : ((0, 1) == ((0, 0) : Nat × Nat)) = false ∧ PM.verLe (0, 1) (0, 3) = true ∧ ((0, 3) == ((0, 0) : Nat × Nat)) = false
    ∧ PM.verLe (0, 3) (0, 3) = true := by decide

/-- … every version `v > (0, 3)` (0.4 … 0.9, 1.0, 1.1, 1.2, 2.0): the current readers throughout; the header type is
demanded exactly from 1.1 on -/
theorem C05_ti_gates_gt_0_3 (v : Nat × Nat) (h3 : PM.verLt (0, 3) v = true) :
    TI.Legacy.selsOf v = .ok { TI.Legacy.Sels.current with headerTyped := PM.verLe (1, 1) v } :=
  TI.Legacy.selsOf_gt_0_3 v h3

example : PM.verLt (0, 3) (0, 4) = true ∧ PM.verLt (0, 3) (1, 0) = true ∧ PM.verLt (0, 3) (2, 0) = true
    ∧ PM.verLe (1, 1) (1, 0) = false ∧ PM.verLe (1, 1) (1, 1) = true := by decide

/-- **loaded is normal (partial: per section)** — whatever header version the file had, or none: the object carries the
current header version and its release, tree, variants container, checksums, images, stage2 and media objects passed
their (generated) validators.  Not proved in Lean: validity of every *variant* below the container against its parent
(the reader does run `add`'s validation on each; stating it needs the forest invariant), and the reader half of C04. -/
theorem C05_ti_loaded_is_normal_partial (fo : FloatOracle) (d : Ini) (t : TreeInfo) (h : TI.Legacy.deserialize fo d = .ok t) :
    t.headerVersion = TI.currentVersion
    ∧ validateClass "treeinfo.Release" (releaseObj t.release t.isLayered) = .ok ()
    ∧ validateClass "treeinfo.Tree" (treeObj t.tree) = .ok ()
    ∧ validateClass "treeinfo.Variants" (variantsObj t.variants) = .ok ()
    ∧ validateClass "treeinfo.Checksums" (checksumsObj t.checksums) = .ok ()
    ∧ validateClass "treeinfo.Images" (imagesObj t.images t.tree.platforms) = .ok ()
    ∧ validateClass "treeinfo.Stage2" (stage2Obj t.mainimage t.instimage) = .ok ()
    ∧ validateClass "treeinfo.Media" (mediaObj t.discnum t.totaldiscs) = .ok () :=
  TI.Legacy.deserialize_sections_valid fo d t h

/--
**idempotent, treeinfo (every header version, 0.0 included).**  A tree loaded from a file of ANY version by the legacy-aware
reader, once the current writer has written it as `text`: the *current* reader (`TI.loads`, i.e. `IniParse.parse` and
`TI.deserialize` — no legacy branch: conversion happens exactly once) reads `text` back as the normal form of the loaded
tree (dictionaries in `SortedDict` order, the tree arch among the platforms; nothing else changes: `TI.norm`), and writing
that again gives the same bytes.  Corollary of `C04_tree_bytes`; from the load itself follow: the timestamp is an integer,
top-level variants are filed under their UID (no F8 through a load: the readers call `add(v, variant_id=v.uid)`), the
checksum table satisfies `ChecksumsOK` (both value syntaxes of the reader give a type and a value free of `:`), image names
are dictionary keys, no main variant is requested.  Carried, each decidable and each with a real failing region behind it:
* `hfl`   — the integer timestamp survives `int(float(str n))` (F17: beyond 2^53);
* `hplat`, `huok`, `hnd` — platform names / UIDs non-empty and comma-free, UIDs distinct (file syntax; a pre-productmd section
  may carry anything);
* `htop`  — no top-level variant of type `addon` (F24, `C04_F24_witness`; met by pre-productmd files: known finding);
* `hF25`  — no platform with images called `<x>-<tree arch>` (F25);
* `hv`    — the normal form passes the validators the reader runs (`ReadValid`; automatic when the loaded tree is normal);
* `htext`, `hck`, `himn` — what is written can travel as text (`TextOK`: `C04_textOK_criterion`), names not comment-like.
-/
theorem C05_ti_idempotent (sp : Char → Bool) (hsp : IniParse.SpOK sp) (hh : sp '#' = false) (hs : sp ';' = false)
    (fo : FloatOracle) (d0 : Ini) (t : TreeInfo) (text : Str)
    (hload : TI.Legacy.deserialize fo d0 = .ok t)
    (h : dumps t none = .ok text)
    (htext : ∀ d, serialize t none = .ok d → TextOK sp d)
    (hck : ∀ c ∈ t.checksums, nc c.1 = true) (himn : ∀ p ∈ t.images, ∀ kv ∈ p.2, nc kv.1 = true)
    (hfl : ∀ n, t.tree.ts = .int n → fo.intOfFloatStr (Str.intStr n) = .ok n)
    (hplat : PlatformsOK t.tree) (huok : UidsOK t.variants) (hnd : UidsNodup t.variants)
    (htop : TopNotAddon t.variants) (hF25 : ∀ p ∈ t.images, platformOf t.tree.arch (pImages ++ p.1) = p.1)
    (hv : ReadValid (norm t)) :
    loads sp fo text = .ok (norm t) ∧ (loads sp fo text).bind (dumps · none) = .ok text := by
  obtain ⟨⟨n, hts⟩, hkeys⟩ := TI.Legacy.deserialize_tree_tops fo d0 t hload
  obtain ⟨hcs, hin⟩ := TI.Legacy.deserialize_cs_images fo d0 t hload
  have hk : TopKeyedByUid t.variants := by
    intro v hv'
    have hne : v.uid ≠ [] := (huok (none, v) (self_mem_subVs none t.variants v hv')).1
    have := hkeys v hv'
    cases hu : v.uid with
    | nil => exact absurd hu hne
    | cons c cs => rw [hu] at this; simpa using this
  exact C04_tree_bytes sp hsp hh hs fo t none text n h htext hck himn hts (hfl n hts) hplat huok hnd htop hcs ⟨hin, hF25⟩ hv hk
    (fun m hm => by cases hm)

/-! ### the general down-conversion theorem, treeinfo

`TI.down vs ver ck t` (Model/TreeInfoDown.lean) is the file a writer of format `ver` would have written for the tree `t`: the
current file with the documented differences applied (`[header]` version text, `type` only from 1.1; ≤ 0.3: `[product]`, no
`parent`, children under `addons` or `variants`, on a source tree the source paths under `packages` / `repository`).  0.1 – 1.2
carry the same facts, so the documented result is the normal form itself (`TI.norm`, what the current format gives back: C04):
**no loss**.  `TI.down` is compared with the harness's `legacy.ti_sections` on every generated case (driver op `c05_ti_down`). -/

/--
**faithful, every header version but 0.0, forests of any size and depth.**  The legacy-aware reader loads the format-`ver`
file of `t` as exactly `norm t`: release (from `[product]` for ≤ 0.3), base product, tree, every variant at any depth with its
fields, type, paths and children, checksums, images, stage2, media.  Hypotheses: `hval`, `hvt` — the header accepts the version
text (facts about the text alone); `hts` … `hv` — exactly those of `C04_tree_readback` (the same file syntax: comma-free
non-empty names, distinct UIDs, F17, F24, F25); and only for ≤ 0.3 (`hold`), each decidable and each necessary:
* `ck` is one of the two spellings of the child list the ≤ 0.3 reader knows;
* `ChainOK` — the `option_lookup` chain of a variant (`variant-UID`, `variant-ID`, `addon-UID`, `addon-ID`: the old format
  allowed sections named by the bare id) meets no OTHER variant's section; otherwise the variant inherits that variant's paths
  (`C05_ti_down_conditions_needed`: a child with id `B` beside a top-level `B`);
* `SrcRepresentable` — on a source tree (`arch = src`) no variant has `packages` / `repository`: the ≤ 0.3 format keeps the
  source paths there and has no other place for binary ones.
-/
theorem C05_ti_faithful_down (fo : FloatOracle) (vs : Str) (ver : Nat × Nat) (ck : Str) (t : TreeInfo) (d' : Ini) (n : Int)
    (hdown : TI.down vs ver ck t = .ok d') (hne0 : (ver == (0, 0)) = false)
    (hval : validateClass "treeinfo.Header" (TI.headerObj vs) = .ok ()) (hvt : TI.versionTuple vs = .ok ver)
    (hts : t.tree.ts = .int n) (hfl : fo.intOfFloatStr (Str.intStr n) = .ok n)
    (hplat : PlatformsOK t.tree) (huok : UidsOK t.variants) (hnd : UidsNodup t.variants)
    (htop : TopNotAddon t.variants) (hcs : ChecksumsOK t.checksums) (himg : ImagesOK t.tree.arch t.images)
    (hv : ReadValid (norm t))
    (hold : tupleLe ver (0, 3) = true → (ck = kAddons ∨ ck = kVariants) ∧ ChainOK t.variants
      ∧ ∀ x ∈ subVs none t.variants, SrcRepresentable (t.tree.arch == "src".toList) x.2.paths) :
    TI.Legacy.deserialize fo d' = .ok (norm t) := by
  cases ho : tupleLe ver (0, 3) with
  | false => exact deserialize_down_new fo vs ver ck t d' n hdown ho hval hvt hts hfl hplat huok hnd htop hcs himg hv
  | true =>
    obtain ⟨hck, hch, hsr⟩ := hold ho
    exact deserialize_down_old fo vs ver ck t d' n hdown ho hne0 hval hvt hck hts hfl hplat huok hnd htop hcs himg hv hch hsr

/-- above 0.3 (0.4 … 1.0, 1.1, 1.2, any later version the header accepts): nothing beyond C04's hypotheses -/
theorem C05_ti_faithful_down_above_0_3 (fo : FloatOracle) (vs : Str) (ver : Nat × Nat) (ck : Str) (t : TreeInfo) (d' : Ini) (n : Int)
    (hdown : TI.down vs ver ck t = .ok d') (hnew : tupleLe ver (0, 3) = false)
    (hval : validateClass "treeinfo.Header" (TI.headerObj vs) = .ok ()) (hvt : TI.versionTuple vs = .ok ver)
    (hts : t.tree.ts = .int n) (hfl : fo.intOfFloatStr (Str.intStr n) = .ok n)
    (hplat : PlatformsOK t.tree) (huok : UidsOK t.variants) (hnd : UidsNodup t.variants)
    (htop : TopNotAddon t.variants) (hcs : ChecksumsOK t.checksums) (himg : ImagesOK t.tree.arch t.images)
    (hv : ReadValid (norm t)) :
    TI.Legacy.deserialize fo d' = .ok (norm t) :=
  deserialize_down_new fo vs ver ck t d' n hdown hnew hval hvt hts hfl hplat huok hnd htop hcs himg hv

/-- the reader side of it, for any file: **a file that differs from one the current reader accepts only in its `[header]`** —
a version text above 0.3 that the header accepts — is read by the legacy-aware reader as the same object.  (The lemma the
`[general]` theorems of C17 can be transported with: the current writer's output with another header version.) -/
theorem C05_ti_header_only (fo : FloatOracle) (d d' : Ini) (x : TreeInfo) (vs : Str) (ver : Nat × Nat)
    (h : TI.deserialize fo d = .ok x)
    (hh : TI.Legacy.deHeaderL d' = .ok vs) (hvt : TI.versionTuple vs = .ok ver) (hnew : tupleLe ver (0, 3) = false)
    (hsame : ∀ s, s ≠ sHeader → d'.lookup s = d.lookup s) (hnames : d'.map (·.1) = d.map (·.1)) :
    TI.Legacy.deserialize fo d' = .ok x :=
  legacy_of_current fo d d' x vs ver h hh hvt hnew hsame hnames

/-- **then idempotent**: for a tree in normal form the loaded object is the tree itself; the current writer's file for it is
read back by the *current* reader as the same tree, and dumping that gives the same document (C04_tree_fixpoint) -/
theorem C05_ti_down_then_idempotent (fo : FloatOracle) (vs : Str) (ver : Nat × Nat) (ck : Str) (t : TreeInfo) (d' : Ini) (n : Int)
    (hdown : TI.down vs ver ck t = .ok d') (hne0 : (ver == (0, 0)) = false) (hnorm : norm t = t)
    (hval : validateClass "treeinfo.Header" (TI.headerObj vs) = .ok ()) (hvt : TI.versionTuple vs = .ok ver)
    (hts : t.tree.ts = .int n) (hfl : fo.intOfFloatStr (Str.intStr n) = .ok n)
    (hplat : PlatformsOK t.tree) (huok : UidsOK t.variants) (hnd : UidsNodup t.variants)
    (htop : TopNotAddon t.variants) (hcs : ChecksumsOK t.checksums) (himg : ImagesOK t.tree.arch t.images)
    (hold : tupleLe ver (0, 3) = true → (ck = kAddons ∨ ck = kVariants) ∧ ChainOK t.variants
      ∧ ∀ x ∈ subVs none t.variants, SrcRepresentable (t.tree.arch == "src".toList) x.2.paths) :
    TI.Legacy.deserialize fo d' = .ok t
    ∧ ∃ d, serialize t none = .ok d ∧ TI.deserialize fo d = .ok t ∧ (TI.deserialize fo d).bind (serialize · none) = .ok d := by
  cases hser : serialize t none with
  | error e => unfold TI.down at hdown; rw [hser] at hdown; cases hdown
  | ok d =>
    have hv : ReadValid (norm t) := by rw [hnorm]; exact readValid_of_normal (serialize_valid hser) hnorm
    have h1 := C05_ti_faithful_down fo vs ver ck t d' n hdown hne0 hval hvt hts hfl hplat huok hnd htop hcs himg hv hold
    rw [hnorm] at h1
    obtain ⟨h2, h3⟩ := C04_tree_fixpoint fo t none d n hser hnorm hts hfl hplat huok hnd htop hcs himg
    exact ⟨h1, d, rfl, h2, h3⟩

/-- the theorems are not vacuous and their conclusions evaluate: C04's example tree (three levels, an addon with a variant
below it, paths, layered release, checksums, images, stage2, media) as 0.3 with `variants`, as 1.0 and as 1.1, and a source
tree as 0.2 with `addons` (its file keeps the source paths under `packages` / `repository`: `ex_src_file`); every hypothesis
holds of them (`ex_old_hyps`, and the C04 examples) -/
theorem C05_ti_down_nonvacuous :
    ((TI.down "0.3".toList (0, 3) kVariants C04_exTree0).toOption.map (TI.Legacy.deserialize C04_fo)) = some (.ok (norm C04_exTree0))
    ∧ ((TI.down "0.2".toList (0, 2) kAddons exSrcTree).toOption.map (TI.Legacy.deserialize C04_fo)) = some (.ok (norm exSrcTree))
    ∧ ((TI.down "1.0".toList (1, 0) kAddons C04_exTree0).toOption.map (TI.Legacy.deserialize C04_fo)) = some (.ok (norm C04_exTree0))
    ∧ ((TI.down "1.1".toList (1, 1) kAddons C04_exTree0).toOption.map (TI.Legacy.deserialize C04_fo)) = some (.ok (norm C04_exTree0))
    ∧ ChainOK C04_exTree0.variants ∧ ChainOK exSrcTree.variants
    ∧ (∀ x ∈ subVs none exSrcTree.variants, SrcRepresentable (exSrcTree.tree.arch == "src".toList) x.2.paths) :=
  ⟨ex_down_evaluated.1, ex_down_evaluated.2.1, ex_down_evaluated.2.2.1, ex_down_evaluated.2.2.2,
   ex_old_hyps.1, ex_old_hyps.2.2.1, ex_old_hyps.2.2.2.1⟩

/-- **both ≤ 0.3 conditions are needed**: a child with id `B` beside a top-level `B` violates `ChainOK`, its 0.3 file loads and
the child has inherited `B`'s `packages` path; a source tree with a binary `packages` path is not `SrcRepresentable`, and the
binary path comes back as the source path -/
theorem C05_ti_down_conditions_needed :
    (¬ ChainOK exChainTree.variants
     ∧ ((TI.down "0.3".toList (0, 3) kAddons exChainTree).toOption.map fun d =>
        match TI.Legacy.deserialize C04_fo d with
        | .ok t' => t'.variants.flatMap fun v => v.kids.map fun k => (k.uid, k.paths)
        | .error _ => []) = some [("A-B".toList, [("packages".toList, "B/Packages".toList)])])
    ∧ (let t := { exSrcTree with variants := [.mk "S".toList "S".toList "S".toList "S".toList "variant".toList
                 [("packages".toList, "bin".toList), ("source_packages".toList, "src".toList)] []] }
       ¬ (∀ x ∈ subVs none t.variants, SrcRepresentable (t.tree.arch == "src".toList) x.2.paths)
       ∧ ((TI.down "0.3".toList (0, 3) kAddons t).toOption.map fun d =>
          match TI.Legacy.deserialize C04_fo d with
          | .ok t' => t'.variants.map fun v => v.paths
          | .error _ => []) = some [[("source_packages".toList, "bin".toList)]]) :=
  ⟨ex_chain_needed, ex_src_needed⟩

/-! ### pre-productmd files (0.0): what each reader recovers, from ANY file

No `TI.down` is claimed for 0.0: the layout loses facts (short name outside the family table, layered release and base product,
variant name / type, every path kind but `packages` / `repository` / `identity`) and the readers are heuristics.  What CAN be
stated without restating the code is stated per section, for every file (not only written ones; the hypotheses are facts about
the options present): the result of each 0.0 reader in closed form.  The literal tables (family → name / short, RHEL 5 addons,
RHEL 3 – 6 and Fedora path rules) are the harness's explicit mapping-table oracle (`general_mirror`, 142 literal cases) and
the witness `C05_ti_upgrade_0_0_witness`; the `[general]` the CURRENT writer emits read through these lemmas is C17's subject
(`C05_ti_00_tree`, `C05_ti_00_release`, `C05_ti_00_top_variant`, `C05_ti_00_general_variant`, `C05_ti_00_general_paths` are
stated on exactly the options `General.serialize` writes: family, version, arch, timestamp, variant, packagedir, repository). -/

/-- **0.0, tree**: arch and timestamp come from `[general]` (`int(float(timestamp))`); the platforms are the arch and the
platform of every `images-*` section (`platforms00`; a section named after the arch would add its `platforms`) -/
theorem C05_ti_00_tree (fo : FloatOracle) (d : Ini) (arch ts : Str) (n : Int)
    (ha : Ini.get d sGeneral kArch = .ok arch) (hnos : (Ini.sections d).contains arch = false)
    (ho : Ini.hasOption d sGeneral kTimestamp = true) (ht : Ini.get d sGeneral kTimestamp = .ok ts) (hn : fo.intOfFloatStr ts = .ok n)
    (hv : validateClass "treeinfo.Tree" (treeObj ⟨arch, .int n, platforms00 arch (Ini.sections d)⟩) = .ok ()) :
    TI.Legacy.deTreeL fo true d = .ok ⟨arch, .int n, platforms00 arch (Ini.sections d)⟩ :=
  deTreeL_00 fo d arch ts n ha hnos ho ht hn hv

/-- … and -1 without a `timestamp` -/
theorem C05_ti_00_tree_no_timestamp (fo : FloatOracle) (d : Ini) (arch : Str)
    (ha : Ini.get d sGeneral kArch = .ok arch) (hnos : (Ini.sections d).contains arch = false)
    (ho : Ini.hasOption d sGeneral kTimestamp = false)
    (hv : validateClass "treeinfo.Tree" (treeObj ⟨arch, .int (-1), platforms00 arch (Ini.sections d)⟩) = .ok ()) :
    TI.Legacy.deTreeL fo true d = .ok ⟨arch, .int (-1), platforms00 arch (Ini.sections d)⟩ :=
  deTreeL_00_no_timestamp fo d arch ha hnos ho hv

/-- **0.0, release**: name and short name by the family table (`releaseShort00`: the literal table of
`Release.deserialize_0_0`; outside it the family itself and the EMPTY short name: `hplain`), the version by `version00` (the
last dash/underscore-separated part that looks like a version), never layered -/
theorem C05_ti_00_release (d : Ini) (family version v' : Str)
    (hf : Ini.get d sGeneral TI.Legacy.kFamilyS = .ok family) (hver : Ini.get d sGeneral kVersion = .ok version)
    (hv' : TI.Legacy.version00 version = .ok v')
    (hv : validateClass "treeinfo.Release"
      (releaseObj ⟨(TI.Legacy.releaseShort00 family).1, (TI.Legacy.releaseShort00 family).2, v'⟩ false) = .ok ()) :
    TI.Legacy.deReleaseL .v00 d = .ok (⟨(TI.Legacy.releaseShort00 family).1, (TI.Legacy.releaseShort00 family).2, v'⟩, false)
    ∧ (TI.Legacy.releaseShort00 family = (family, []) → TI.Legacy.deReleaseL .v00 d = .ok (⟨family, [], v'⟩, false)) := by
  refine ⟨deReleaseL_00 d family version v' hf hver hv' hv, fun hplain => ?_⟩
  rw [hplain] at hv
  exact deReleaseL_00_plain d family version v' hf hver hv' hplain hv

/-- **0.0, media**: `discnum` / `totaldiscs` of `[general]`; a missing disc number is 1, a missing total is the disc number -/
theorem C05_ti_00_media (d : Ini) (a b : Option Int)
    (hr : (match Ini.hasOption d sGeneral kDiscnum, Ini.hasOption d sGeneral kTotaldiscs with
      | false, false => a = none ∧ b = none
      | true, false => ∃ x, (Ini.get d sGeneral kDiscnum).bind Str.pyInt = .ok x ∧ a = some x ∧ b = some x
      | false, true => ∃ y, (Ini.get d sGeneral kTotaldiscs).bind Str.pyInt = .ok y ∧ a = some 1 ∧ b = some y
      | true, true => ∃ x y, (Ini.get d sGeneral kDiscnum).bind Str.pyInt = .ok x ∧ (Ini.get d sGeneral kTotaldiscs).bind Str.pyInt = .ok y
          ∧ a = some x ∧ b = some y))
    (hv : validateClass "treeinfo.Media" (mediaObj a b) = .ok ()) :
    TI.Legacy.deMediaL true d = .ok (a, b) :=
  deMediaL_00 d a b hr hv

/-- **0.0, images / stage2 / checksums**: with relative paths the 0.0 readers ARE the current ones (C04); an absolute path is
cut after its first `/os/`, else loses its leading slashes (`fixPath`) -/
theorem C05_ti_00_relative_paths (d : Ini) (tree : Tree)
    (himg : ∀ s ∈ Ini.sections d, isImg s = true → ∀ its, Ini.items d s = .ok its → ∀ kv ∈ its, relative kv.2 = true)
    (hm : ∀ p, Ini.get d sStage2 kMainimage = .ok p → relative p = true)
    (hi : ∀ p, Ini.get d sStage2 kInstimage = .ok p → relative p = true)
    (hcs : ∀ its, Ini.items d sChecksums = .ok its → ∀ kv ∈ its, relative kv.1 = true) :
    TI.Legacy.deImagesL true d tree = deImages d tree ∧ TI.Legacy.deStage2L true d = deStage2 d
    ∧ TI.Legacy.deChecksumsL true d = deChecksums d :=
  ⟨deImagesL_00_relative d tree himg, deStage2L_00_relative d hm hi, deChecksumsL_00_relative d hcs⟩

/-- **0.0, top level**: a non-empty `variant` in `[general]` names the one top-level variant -/
theorem C05_ti_00_top_variant (c : TI.Legacy.VCtx) (d : Ini) (v : Str) (ho : Ini.hasOption d sGeneral tVariant = true)
    (hg : Ini.get d sGeneral tVariant = .ok v) (hne : v ≠ []) : TI.Legacy.topIds00 c d = .ok [v] :=
  topIds00_variant c d v ho hg hne

/-- **0.0, a variant known from `[general]` only** (none of `addon-UID`, `addon-ID`, `variant-UID`, `variant-ID` is a section,
no `addons` in `[general]`, not RHEL 5): id = the last dash-separated part of the UID, name = id, type `variant` (`addon` when
read as a child), no children — name and type of the written variant are NOT recovered -/
theorem C05_ti_00_general_variant (S : TI.Legacy.Sels) (hS1 : S.variant = .v00) (hS2 : S.addonFallback = false)
    (c : TI.Legacy.VCtx) (d : Ini) (f : Nat) (addon : Bool) (uid : Str)
    (hne : uid ≠ []) (h0 : d.lookup Ini.DEFAULT = none)
    (hnosec : ∀ s ∈ [pAddon ++ uid, pAddon ++ (Str.splitOn '-' uid).getLastD [], pVariant ++ uid,
      pVariant ++ (Str.splitOn '-' uid).getLastD []], d.lookup s = none)
    (hnoadd : Ini.hasOption d sGeneral kAddons = false) (hnot5 : TI.Legacy.isRhelMajor c ["5".toList] = false) :
    TI.Legacy.readVariant S c d (f + 1) addon uid =
      (TI.Legacy.dePathsL S.paths c d ((Str.splitOn '-' uid).getLastD []) uid (if addon then tAddon else tVariant)).map fun paths =>
        .mk [] ((Str.splitOn '-' uid).getLastD []) uid ((Str.splitOn '-' uid).getLastD []) (if addon then tAddon else tVariant) paths [] :=
  readVariant_00_general S hS1 hS2 c d f addon uid hne h0 hnosec hnoadd hnot5

/-- **0.0, its paths**: for clean values (no trailing slash, not empty, not `.`, the repository not ending in `/repodata`),
outside RHEL and source trees, `packagedir` of `[general]` is the `packages` path and `repository` the repository; no other
path kind is recovered.  (What differs inside RHEL 3 – 6, for Fedora with `.`, with `/repodata` and for missing options is the
literal rule list of `VariantPaths.deserialize_0_0`: the harness's table oracle.) -/
theorem C05_ti_00_general_paths (c : TI.Legacy.VCtx) (d : Ini) (id uid type r p : Str) (h0 : d.lookup Ini.DEFAULT = none)
    (hnosec : ∀ s ∈ [pAddon ++ uid, pAddon ++ id, pVariant ++ uid, pVariant ++ id], d.lookup s = none)
    (hr : Ini.hasOption d sGeneral kRepository = true) (gr : Ini.get d sGeneral kRepository = .ok r)
    (hnp : Ini.hasOption d sGeneral TI.Legacy.kPackages = false)
    (hp : Ini.hasOption d sGeneral kPackagedir = true) (gp : Ini.get d sGeneral kPackagedir = .ok p)
    (hid : Ini.hasOption d sGeneral TI.Legacy.kIdentity = false)
    (r1 : TI.Legacy.rstripSlash r = r) (r2 : r ≠ []) (r3 : r ≠ ".".toList) (r4 : Str.endsWith r "/repodata".toList = false)
    (p1 : TI.Legacy.rstripSlash p = p) (p2 : p ≠ []) (p3 : p ≠ ".".toList)
    (hrhel : (c.relShort == TI.Legacy.sRHEL) = false) (hsrc : (c.arch == TI.Legacy.sSrc) = false) :
    TI.Legacy.dePathsL .v00 c d id uid type = .ok [("packages".toList, p), ("repository".toList, r)] :=
  dePathsL_00_general c d id uid type r p h0 hnosec hr gr hnp hp gp hid r1 r2 r3 r4 p1 p2 p3 hrhel hsrc

/-- the hypotheses are satisfiable and the lemmas fit together: a `[general]`-only file (plain family, two image sections,
stage2, checksums, a disc number) — every hypothesis holds of it (`ex00_hyps`) and the whole reader returns exactly the facts
named above -/
theorem C05_ti_00_nonvacuous :
    TI.Legacy.deserialize C04_fo ex00 = .ok
      { headerVersion := currentVersion, release := ⟨"Foo Linux".toList, [], "7.2".toList⟩, isLayered := false, baseProduct := none,
        tree := ⟨"x86_64".toList, .int 1417653911, ["x86_64".toList, "xen".toList]⟩,
        variants := [.mk "Everything".toList "Everything".toList "Everything".toList "Everything".toList "variant".toList
          [("packages".toList, "Packages".toList), ("repository".toList, "repo".toList)] []],
        checksums := [("images/boot.iso".toList, "sha256".toList, "ab".toList)],
        images := [("x86_64".toList, [("kernel".toList, "images/vmlinuz".toList)]), ("xen".toList, [("kernel".toList, "images/xen/vmlinuz".toList)])],
        mainimage := some "LiveOS/squashfs.img".toList, instimage := none, discnum := some 2, totaldiscs := some 2 } :=
  ex00_loaded

/-- **faithful and idempotent on a 0.3 witness** (`Proofs/C05WitnessTI.lean`: `wTI03`, evaluated in the kernel): `[product]`
becomes the release, the child listed under `variants` is found in its `addon-` section, the `src` tree's paths become
`source_packages` / `source_repository`; the written file is parsed, re-read and written again to the same document -/
theorem C05_ti_upgrade_0_3_witness : tiUpgrade03Check = true := tiUpgrade03Check_true

/-- **the pre-productmd heuristics on a witness, and idempotence** (`wTI00`; for 0.0 nothing more general is claimed about the
mapping: it is the code): family prefix → name / short `RHEL`, variant `Server` from the family, the RHEL 5 addon table for
i386, repository named after the variant, `/os/` and leading slashes cut from image paths, disc number defaulting to 1 -/
theorem C05_ti_upgrade_0_0_witness : tiUpgrade00Check = true := tiUpgrade00Check_true

/-- **F12 witness**: the shipped `opensuse` fixture in miniature — a 1.0 file without `[tree]` and without variants —
loads, and the writer then fails with IndexError (`variants[0]` of an empty list in `General.serialize`) -/
theorem C05_ti_F12_witness : tiF12Check = true := tiF12Check_true

end TreeInfo

end PM

/-! ## bytes through the modelled JSON parser (builder jsonparse)

The text-level idempotence of composeinfo with `parse := JsonParse.parseWith lim` (the model of CPython's `json.loads`,
Model/JsonParse.lean; see the block of the same name in `Properties/C01.lean`: the representability of the written document
and the key-order independence of the reader are theorems there; what is left is that `int()` accepts the digits of the
respin under the digit limit `lim`). -/
namespace PM
open PM.CI

theorem C05_ci_idempotent_bytes_parsed (lim : Nat) (doc : PyVal) (x : ComposeInfo) (t : Str)
    (h : Legacy.deserialize doc = .ok x)
    (hnum : JsonParse.intFits lim x.compose.respin = true)
    (hd : dumps x = .ok t) :
    reloadDump (JsonParse.parseWith lim) t = .ok t :=
  C01_bytes_parsed lim x t (Legacy.deserialize_wellKeyed doc x h) hnum hd

end PM
