import ProductMD.Model.Forest
/-! # C11 — the variant forest stays consistent and every variant is findable (work in progress) -/
namespace PM.Forest

@[simp] theorem pre_kids (s : State) (c : Cont) (v : Nat) : (pre s c v).kids = s.kids := by
  cases c <;> rfl
@[simp] theorem pre_top (s : State) (c : Cont) (v : Nat) : (pre s c v).top = s.top := by
  cases c <;> rfl
@[simp] theorem pre_kidsOf (s : State) (c : Cont) (v : Nat) (d : Cont) : (pre s c v).kidsOf d = s.kidsOf d := by
  cases d <;> simp [State.kidsOf]

/-- the three ways an `add` can end -/
theorem add_cases (U : Nat → Attrs) (fuel : Nat) (s : State) (c : Cont) (v : Nat) (key : Option Str) :
    (∃ e, add U fuel s c v key = (pre s c v, .error e)) ∨
    (add U fuel s c v key = (pre s c v, .ok ()) ∧ validate U (pre s c v) v = .ok ()
        ∧ dget (addKey U c v key) (s.kidsOf c) = some v) ∨
    (add U fuel s c v key = ((pre s c v).setKids c (s.kidsOf c ++ [(addKey U c v key, v)]), .ok ())
        ∧ validate U (pre s c v) v = .ok () ∧ dget (addKey U c v key) (s.kidsOf c) = none
        ∧ ∃ ps, allParents (pre s c v) fuel c = some ps ∧ ps.contains (some v) = false) := by
  unfold add
  simp only [pre_kidsOf]
  cases hval : validate U (pre s c v) v with
  | error e => exact Or.inl ⟨e, rfl⟩
  | ok u =>
    cases hp : allParents (pre s c v) fuel c with
    | none => exact Or.inl ⟨_, rfl⟩
    | some ps =>
      by_cases hc : ps.contains (some v) = true
      · simp only [hc, if_true]; exact Or.inl ⟨_, rfl⟩
      · have hc' : some v ∉ ps := by simpa using hc
        cases hd : dget (addKey U c v key) (s.kidsOf c) with
        | none =>
          refine Or.inr (Or.inr ?_)
          simp [hc']
        | some w =>
          by_cases hw : w = v
          · subst hw; exact Or.inr (Or.inl (by simp [hc']))
          · exact Or.inl ⟨.valueError, by simp [hc', hw]⟩

/-- A refused `add` – whatever the cause – leaves the children dict of every container unchanged. -/
theorem C11_refused (U : Nat → Attrs) (fuel : Nat) (s : State) (c : Cont) (v : Nat) (key : Option Str) (e : Err)
    (h : (add U fuel s c v key).2 = .error e) :
    (add U fuel s c v key).1.kids = s.kids ∧ (add U fuel s c v key).1.top = s.top := by
  rcases add_cases U fuel s c v key with ⟨e', h'⟩ | ⟨h', -⟩ | ⟨h', -⟩
  · rw [h']; simp
  · rw [h'] at h; simp at h
  · rw [h'] at h; simp at h

end PM.Forest
