import ProductMD.Proofs.ForestDel
/-!
# C11 — the variant forest stays consistent and every variant is findable

Model: `Model/Forest.lean` (arena; `add : State → … → State × Except Err Unit` in the code's order of mutations;
`getitem`; `getVariants`).  `validate` runs the rule list of `composeinfo.Variant` regenerated from the source; the
facts used about it (`Validated`) are extracted in `Proofs/ForestValidate.lean` by locating the rules by content.

Nothing below bounds the number of variants, the depth of the forest or the length of the history.  `fuel` is the
Python recursion limit; every statement holds for every value of it.

`add` interprets the statement script of `VariantBase.add` regenerated from the source (`Gen.forest_add_script`,
tools/gen_forest.py); `script_here` pins the order the proofs are about: save the old parent pointer, write the new one
(`None` in the top-level container), then validate / ancestor check / `setdefault` / duplicate refusal inside `try`, and a
handler that restores the saved pointer.  (F13 and F26 – parent pointer rewritten by a refused add / not reset by a
top-level add – are repaired by that order; before it `C11_refused` held for the children dicts only.)

What the property says and is still FALSE of the code (each with a kernel-checked witness below, replayed on the real
library by the harness, listed as known findings):
* F33 – `add` does not check that its argument is already filed under ANOTHER object: two `Variant` objects with one UID
  both accept the same child, so the full `Inv` is not an invariant of ALL histories (it is for all histories over
  objects with pairwise different UIDs: `C11_reachable_distinct_partial`);
* F14 – a dashed top-level UID may collide with a child's UID; lookup by UID then finds the top-level one, and through
  F33 a variant can still be returned twice by `get_variants`;
* F27 – `__getitem__` compares the *relative* path with full child UIDs: `A-A-C` resolves to the sibling `A-C`;
* F28 – with `'self'` the receiver is returned whatever the arch filter; on the top-level container it raises;
* F29 – an explicit top-level `variant_id` is not checked against id/UID.
-/
namespace PM.Forest

/-! ## tables -/

/-- The variant types the validators accept are EXACTLY the documented set (both inclusions; `decide` on the table regenerated
from the source), and the pseudo-type `'self'` of `get_variants` is not one of them. -/
theorem C11_types_table :
    (∀ t, t ∈ Gen.VARIANT_TYPES ↔ t ∈ ["variant".toList, "optional".toList, "addon".toList, "layered-product".toList])
    ∧ selfT ∉ Gen.VARIANT_TYPES := by
  refine ⟨?_, selfT_not_type⟩
  have h : Gen.VARIANT_TYPES = ["variant".toList, "optional".toList, "addon".toList, "layered-product".toList] := by decide
  intro t; rw [h]

/-! ## add -/

/-- A refused `add` – whatever the cause: validation, ancestor check, recursion limit, duplicate key – returns the WHOLE
state it started from: every children dict and every parent pointer.  (Proved from the order of mutations in the script
read from the source: the parent pointer written first is restored by the handler, `setParent_restore`.) -/
theorem C11_refused (U : Nat → Attrs) (fuel : Nat) (s : State) (c : Cont) (v : Nat) (key : Option Str) (e : Err)
    (h : (add U fuel s c v key).2 = .error e) : (add U fuel s c v key).1 = s := by
  rcases add_cases U fuel s c v key with ⟨e', h'⟩ | ⟨h', -⟩ | ⟨h', -⟩
  · rw [h']
  · rw [h'] at h; simp at h
  · rw [h'] at h; simp at h

/-- …and an accepted one appends exactly the new entry to the container's dict (or nothing, when the same object
already sits under that key); no other dict changes. -/
theorem C11_accepted_frame (U : Nat → Attrs) (fuel : Nat) (s : State) (c : Cont) (v : Nat) (key : Option Str)
    (h : (add U fuel s c v key).2 = .ok ()) :
    (∀ d, d ≠ c → (add U fuel s c v key).1.kidsOf d = s.kidsOf d) ∧
    ((add U fuel s c v key).1.kidsOf c = s.kidsOf c ∨
     (add U fuel s c v key).1.kidsOf c = s.kidsOf c ++ [(addKey U c v key, v)]) := by
  rcases add_cases U fuel s c v key with ⟨e', h'⟩ | ⟨h', -⟩ | ⟨h', -⟩
  · rw [h'] at h; simp at h
  · rw [h']; simp
  · rw [h']
    refine ⟨?_, Or.inr ?_⟩
    · intro d hd; rw [setKids_kidsOf]; simp [hd]
    · rw [setKids_kidsOf]; simp

/-- `InvW` (every entry `k ↦ v` of a variant `p`'s dict has `k = v.id`, `v.uid = p.uid-v.id`, `v.arches ⊆ p.arches`;
every placed variant passed the field validators, so ids are dash-free; keys of a dict are distinct) is preserved by
EVERY call of `add` – accepted or refused, fresh or re-used argument, any key. -/
theorem C11_inv (U : Nat → Attrs) (fuel : Nat) (s : State) (c : Cont) (v : Nat) (key : Option Str)
    (h : InvW U s) : InvW U (add U fuel s c v key).1 := h.add fuel c v key

/-- Full statement wanted: `Inv` (= `InvW` + parent pointers mirror the dicts + an object sits in one place + top-level
UIDs align with ids + top-level keys are id or UID) is preserved by every `add`.  Still FALSE of the code after the F13/F26
repair (F33: `C11_two_parents_witness`; F29).  Proved for every call – accepted or refused, whatever the parent pointer of
the argument, whatever happened before – whose argument is not already filed under another container or key (`AddOk`). -/
theorem C11_inv_partial (U : Nat → Attrs) (fuel : Nat) (s : State) (c : Cont) (v : Nat) (key : Option Str)
    (h : Inv U s) (hf : AddOk U s c v key) : Inv U (add U fuel s c v key).1 := h.add fuel c v key hf

/-- …and for EVERY call with the default key, no hypothesis on the call at all, when the objects have pairwise different
UIDs (`UidsApart`): an object the validators accept under `c` cannot be filed anywhere else. -/
theorem C11_inv_distinct_partial (U : Nat → Attrs) (hU : UidsApart U) (fuel : Nat) (s : State) (c : Cont) (v : Nat)
    (h : Inv U s) (htop : ∀ kv ∈ s.top, kv.1 = (U kv.2).id) :
    Inv U (add U fuel s c v none).1 ∧ ∀ kv ∈ (add U fuel s c v none).1.top, kv.1 = (U kv.2).id :=
  ⟨h.add_core fuel c v none (fun hv => elsewhere_of_valid h hU htop c v hv) (fun _ k hk => by cases hk),
   topIds_add U fuel s c v htop⟩

/-- Every state reachable from the empty forest by ANY history of `add` calls satisfies `InvW`. -/
theorem C11_reachable (U : Nat → Attrs) (fuel : Nat) (ops : List Op) : InvW U (run U fuel ops) := by
  unfold run
  suffices h : ∀ s, InvW U s → InvW U (ops.foldl (step U fuel) s) from h _ (InvW.empty U)
  induction ops with
  | nil => intro s h; exact h
  | cons o os ih => intro s h; exact ih _ (h.add fuel o.c o.v o.key)

/-- every call of the history satisfies `AddOk` in the state it is made in -/
def OkRun (U : Nat → Attrs) (fuel : Nat) : State → List Op → Prop
  | _, [] => True
  | s, o :: os => AddOk U s o.c o.v o.key ∧ OkRun U fuel (step U fuel s o) os

/-- Every state reachable by a history of valid and invalid `add` calls that never hand over an object already filed
elsewhere satisfies the full `Inv`. -/
theorem C11_reachable_partial (U : Nat → Attrs) (fuel : Nat) (ops : List Op)
    (hf : OkRun U fuel State.empty ops) : Inv U (run U fuel ops) := by
  unfold run
  have key : ∀ (ops : List Op) (s : State), Inv U s → OkRun U fuel s ops → Inv U (ops.foldl (step U fuel) s) := by
    intro ops
    induction ops with
    | nil => intro s h _; exact h
    | cons o os ih => intro s h hf; exact ih (step U fuel s o) (h.add fuel o.c o.v o.key hf.1) hf.2
  exact key ops _ (Inv.empty U) hf

/-- ALL histories of `add` calls with the default key – valid, invalid, re-adds, already placed arguments, any
interleaving – over objects with pairwise different UIDs end in a state satisfying the full `Inv`. -/
theorem C11_reachable_distinct_partial (U : Nat → Attrs) (hU : UidsApart U) (fuel : Nat) (ops : List Op)
    (hk : ∀ o ∈ ops, o.key = none) : Inv U (run U fuel ops) := by
  unfold run
  have key : ∀ (ops : List Op) (s : State), (∀ o ∈ ops, o.key = none) → Inv U s → (∀ kv ∈ s.top, kv.1 = (U kv.2).id) →
      Inv U (ops.foldl (step U fuel) s) := by
    intro ops
    induction ops with
    | nil => intro s _ h _; exact h
    | cons o os ih =>
      intro s hk h htop
      have hko : o.key = none := hk o (by simp)
      have := C11_inv_distinct_partial U hU fuel s o.c o.v h htop
      refine ih (step U fuel s o) (fun o' ho' => hk o' (List.mem_cons_of_mem _ ho')) ?_ ?_
      · unfold step; rw [hko]; exact this.1
      · unfold step; rw [hko]; exact this.2
  exact key ops _ hk (Inv.empty U) (by intro kv hkv; simp [State.empty] at hkv)

/-! ## lookup -/

/-- From its parent by its id – after any history. -/
theorem C11_findable_by_id (U : Nat → Attrs) (s : State) (h : InvW U s) (p : Nat) (k : Str) (v : Nat)
    (hm : (k, v) ∈ s.kids p) : getitem U s (some p) (U v).id = .ok v := by
  have hk := (h.edge p k v hm).key
  subst hk
  exact getitemF_key (h.keys (some p)) hm

/-- From the top-level container by its key – after any history. -/
theorem C11_findable_by_key (U : Nat → Attrs) (s : State) (h : InvW U s) (k : Str) (v : Nat)
    (hm : (k, v) ∈ s.top) : getitem U s none k = .ok v :=
  getitemF_key (h.keys none) hm

/-- Full statement wanted: under the invariant every variant of the forest is returned by `ci[uid]`.  FALSE of the
code: F14 (`hdist`), F20 (`hns`), F22 (`hkey`); children of a dashed top-level variant are outside the property's
quantifier (`hchild`).  Proved for a variant `v` at any depth below (or equal to) a top-level variant `t`. -/
theorem C11_findable_partial (U : Nat → Attrs) (s : State) (h : InvW U s)
    (hkey : ∀ k t, (k, t) ∈ s.top → k = (U t).id ∨ k = (U t).uid)
    (kt : Str) (t v : Nat) (ht : (kt, t) ∈ s.top)
    (halign : Str.removeChar '-' (U t).uid = (U t).id)
    (hbelow : v = t ∨ Desc s (some t) v)
    (hchild : '-' ∈ (U t).uid → s.kids t = [])
    (hdist : ∀ k' t', (k', t') ∈ s.top → (U t').uid = (U v).uid → t' = v)
    (hns : NoShadow U s v) :
    getitem U s none (U v).uid = .ok v := by
  refine getitem_top h hkey ht halign ?_ hchild hdist hns
  rcases hbelow with h1 | h1
  · exact Or.inl h1
  · exact Or.inr h1.path

/-- the same for states that satisfy the full `Inv` (e.g. by `C11_reachable_partial`): key and alignment hypotheses
are then facts -/
theorem C11_findable_inv_partial (U : Nat → Attrs) (s : State) (h : Inv U s)
    (kt : Str) (t v : Nat) (ht : (kt, t) ∈ s.top) (hbelow : v = t ∨ Desc s (some t) v)
    (hchild : '-' ∈ (U t).uid → s.kids t = [])
    (hdist : ∀ k' t', (k', t') ∈ s.top → (U t').uid = (U v).uid → t' = v)
    (hns : NoShadow U s v) :
    getitem U s none (U v).uid = .ok v :=
  C11_findable_partial U s h.weak h.topKey kt t v ht (h.topAligned kt t ht) hbelow hchild hdist hns

/-! ## get_variants -/

/-- ordered by UID – any state, any filter, any container -/
theorem C11_get_variants_sorted (U : Nat → Attrs) (s : State) (fuel : Nat) (c : Cont) (arch : Option Str)
    (types : List Str) (recursive : Bool) (res : List Nat)
    (h : getVariants U s fuel c arch types recursive = .ok res) :
    res.Pairwise (fun a b => (U a).uid ≤ (U b).uid) := gv_sorted h

theorem nodup_of_map {α β} (f : α → β) : ∀ {l : List α}, (l.map f).Nodup → l.Nodup := by
  intro l
  induction l with
  | nil => intro _; simp
  | cons x xs ih =>
    intro h
    simp only [List.map_cons, List.nodup_cons] at h ⊢
    exact ⟨fun hx => h.1 (List.mem_map.mpr ⟨x, hx, rfl⟩), ih h.2⟩

/-- Full statement wanted: strictly ordered, hence each variant at most once.  Needs the UIDs of the variants met by
the traversal to be distinct, which the code does not guarantee (F14, F19, F22). -/
theorem C11_get_variants_strict_partial (U : Nat → Attrs) (s : State) (fuel : Nat) (c : Cont) (arch : Option Str)
    (types : List Str) (recursive : Bool) (res : List Nat)
    (h : getVariants U s fuel c arch types recursive = .ok res)
    (hd : (res.map fun x => (U x).uid).Nodup) :
    res.Pairwise (fun a b => (U a).uid < (U b).uid) ∧ res.Nodup := by
  have hs := gv_sorted h
  constructor
  · have hp : res.Pairwise (fun a b => (U a).uid ≠ (U b).uid) := List.pairwise_map.mp hd
    refine (hs.and hp).imp ?_
    intro a b hab
    exact Std.lt_of_le_of_ne hab.1 hab.2
  · exact nodup_of_map _ hd

/-- On a variant – any depth, any filter, with or without `'self'`, after ANY history: strictly increasing UIDs, each
variant at most once.  No hypothesis about UIDs: below a variant their distinctness FOLLOWS from `InvW` (alignment,
dash-free ids, distinct keys; `siblings_apart`). -/
theorem C11_get_variants_strict_below (U : Nat → Attrs) (s : State) (h : InvW U s) (fuel : Nat) (p : Nat)
    (arch : Option Str) (types : List Str) (recursive : Bool) (res : List Nat)
    (hr : getVariants U s fuel (some p) arch types recursive = .ok res) :
    res.Pairwise (fun a b => (U a).uid < (U b).uid) ∧ res.Nodup :=
  C11_get_variants_strict_partial U s fuel (some p) arch types recursive res hr (gv_unique h fuel p arch types recursive res hr)

/-- On the top-level container the same needs the subtrees of different top-level entries to have different UIDs
(`TopApart`) – exactly what F14 violates and `add` does not enforce. -/
theorem C11_get_variants_strict_top_partial (U : Nat → Attrs) (s : State) (h : InvW U s) (hsep : TopApart U s)
    (fuel : Nat) (arch : Option Str) (types : List Str) (recursive : Bool) (res : List Nat)
    (hr : getVariants U s fuel none arch types recursive = .ok res) :
    res.Pairwise (fun a b => (U a).uid < (U b).uid) ∧ res.Nodup :=
  C11_get_variants_strict_partial U s fuel none arch types recursive res hr (gv_unique_top h hsep fuel arch types recursive res hr)

/-- …and `TopApart` is a consequence of the full `Inv` when no top-level UID is dashed: for forests built from fresh
objects without the 'Server-optional' style of top-level UID, "at most once, strictly ordered" holds outright. -/
theorem C11_get_variants_strict_dashless_partial (U : Nat → Attrs) (s : State) (h : Inv U s)
    (hnd : ∀ kv ∈ s.top, '-' ∉ (U kv.2).uid)
    (fuel : Nat) (arch : Option Str) (types : List Str) (recursive : Bool) (res : List Nat)
    (hr : getVariants U s fuel none arch types recursive = .ok res) :
    res.Pairwise (fun a b => (U a).uid < (U b).uid) ∧ res.Nodup :=
  C11_get_variants_strict_top_partial U s h.weak (topApart_of_dashless h hnd) fuel arch types recursive res hr

/-- Everything returned is a variant below the container that passes BOTH filters (arch: the requested arch is in
`arches`, or it is `'src'`, or there is no arch filter; type: one of the requested types, or no type filter) – except
the receiver itself, returned exactly when `'self'` is among the types (F21: whatever its arches). -/
theorem C11_get_variants_sound (U : Nat → Attrs) (s : State) (h : InvW U s) (fuel : Nat) (c : Cont)
    (arch : Option Str) (types : List Str) (recursive : Bool) (res : List Nat)
    (hr : getVariants U s fuel c arch types recursive = .ok res) (x : Nat) (hx : x ∈ res) :
    (c = some x ∧ selfT ∈ types) ∨
    (Desc s c x ∧ (types = [] ∨ (U x).type ∈ types) ∧
      (arch = none ∨ arch = some [] ∨ arch = some srcA ∨ ∃ a, arch = some a ∧ a ∈ (U x).arches)) := by
  rcases gv_sound h fuel c arch types recursive res hr x hx with h1 | ⟨hd, hp⟩
  · exact Or.inl h1
  · refine Or.inr ⟨hd, ?_, ?_⟩
    · unfold passes at hp
      simp only [Bool.and_eq_true, Bool.or_eq_true] at hp
      rcases hp.1 with h1 | h1
      · left; simpa using h1
      · right; simpa using h1
    · unfold passes at hp
      simp only [Bool.and_eq_true] at hp
      cases arch with
      | none => exact Or.inl rfl
      | some a =>
        have := hp.2
        simp only [Bool.or_eq_true, List.contains_iff_mem, decide_eq_true_eq] at this
        rcases this with (h1 | h1) | h1
        · right; left; congr 1; simpa using h1
        · right; right; right; exact ⟨a, rfl, h1⟩
        · right; right; left; rw [h1]

/-- No type filter: every variant of the level – of the whole forest below the container when `recursive` – that has the
requested arch is returned.  (Uses `arches ⊆ parent's` from `InvW`: a subtree is never cut off wrongly.) -/
theorem C11_get_variants_complete (U : Nat → Attrs) (s : State) (h : InvW U s) (fuel : Nat) (c : Cont)
    (arch : Option Str) (recursive : Bool) (res : List Nat)
    (hr : getVariants U s fuel c arch [] recursive = .ok res) (x : Nat)
    (hx : arch = none ∨ arch = some [] ∨ arch = some srcA ∨ ∃ a, arch = some a ∧ a ∈ (U x).arches) :
    ((∃ k, (k, x) ∈ s.kidsOf c) → x ∈ res) ∧ (recursive = true → Desc s c x → x ∈ res) := by
  apply gv_complete h fuel c arch recursive res hr x
  unfold passes
  rcases hx with rfl | rfl | rfl | ⟨a, rfl, ha⟩
  · simp
  · simp
  · simp
  · simp [ha]

/-- no filter at all means every variant of the level / of the forest -/
theorem C11_get_variants_all (U : Nat → Attrs) (s : State) (h : InvW U s) (fuel : Nat) (c : Cont)
    (recursive : Bool) (res : List Nat) (hr : getVariants U s fuel c none [] recursive = .ok res) (x : Nat) :
    x ∈ res ↔ (if recursive then Desc s c x else ∃ k, (k, x) ∈ s.kidsOf c) := by
  constructor
  · intro hx
    rcases C11_get_variants_sound U s h fuel c none [] recursive res hr x hx with ⟨-, h1⟩ | ⟨hd, -⟩
    · simp at h1
    · cases recursive with
      | true => simpa using hd
      | false =>
        simp only [Bool.false_eq_true, if_false]
        -- without recursion only the level is visited
        cases fuel with
        | zero => simp [getVariants] at hr
        | succ f =>
          obtain ⟨body, hb, hres⟩ := getVariants_ok hr
          rcases hres with ⟨hs, -⟩ | ⟨-, rfl⟩
          · simp at hs
          · obtain ⟨kv, hkv, a, ha, hxa⟩ := ((gvKids_ok hb).2 x).mp (mem_sortByUid.mp hx)
            rcases one_ok ha with ⟨-, rfl⟩ | ⟨-, -, rfl⟩ | ⟨-, hr', -⟩
            · simp at hxa
            · simp at hxa; subst hxa; exact ⟨kv.1, hkv⟩
            · simp at hr'
  · intro hx
    have hc := C11_get_variants_complete U s h fuel c none recursive res hr x (Or.inl rfl)
    cases recursive with
    | true => exact hc.2 rfl (by simpa using hx)
    | false => exact hc.1 (by simpa using hx)

/-! ## witnesses (kernel-evaluated on the model; each is replayed on the real library by `harness/props/c11.py`,
corpus/C11.jsonl) and non-vacuity -/

def mkU (l : List Attrs) : Nat → Attrs := fun i => l.getD i default
def mkA (id uid : String) (arches : List String := ["x86_64"]) (type : String := "variant") : Attrs :=
  ⟨id.toList, uid.toList, "n".toList, type.toList, arches.map String.toList⟩
def outErr : Except Err Unit → Option Err
  | .ok _ => none
  | .error e => some e
def resOf {α} : Except Err α → Option α
  | .ok a => some a
  | .error _ => none

/-- F13 (repaired): `G` top-level, `P = G-P` below it; `P.add(G)` is refused with ValueError and `G.parent` is still
`None` afterwards (before the repair it was `P`). -/
def U13 := mkU [mkA "G" "G", mkA "P" "G-P"]
def s13 := run U13 50 [⟨none, 0, none⟩, ⟨some 0, 1, none⟩]
theorem C11_refused_ancestor_example :
    s13.top = [("G".toList, 0)] ∧ s13.kids 0 = [("P".toList, 1)] ∧ s13.parent 0 = none ∧
    outErr (add U13 50 s13 (some 1) 0 none).2 = some .valueError ∧
    (add U13 50 s13 (some 1) 0 none).1.top = [("G".toList, 0)] ∧
    (add U13 50 s13 (some 1) 0 none).1.parent 0 = none := by decide +kernel

/-- F26 (repaired): `S`, `C = S-C` below it; `top.add(C)` is now REFUSED (as a top-level variant its UID does not align)
and `C` stays where it was, pointing at `S`. -/
def U19 := mkU [mkA "S" "S", mkA "C" "S-C"]
def s19 := run U19 50 [⟨none, 0, none⟩, ⟨some 0, 1, none⟩]
theorem C11_top_add_placed_example :
    outErr (add U19 50 s19 none 1 none).2 = some .valueError ∧
    (add U19 50 s19 none 1 none).1.top = [("S".toList, 0)] ∧ (add U19 50 s19 none 1 none).1.parent 1 = some 0 ∧
    resOf (getVariants U19 s19 50 none none [] true) = some [0, 1] := by decide +kernel

/-- F33: two objects `S`, `S'` with one UID (the second refused as a duplicate id); `C` is added to `S`, then ACCEPTED by
`S'` as well: it sits in two dicts and its parent pointer names `S'`, which is not in the forest.  The mirror between
parent pointers and dicts (part of `Inv`) is broken by an ACCEPTED call on a state that satisfies `Inv`. -/
def U33 := mkU [mkA "S" "S", mkA "S" "S", mkA "C" "S-C"]
def s33 := run U33 50 [⟨none, 0, none⟩, ⟨none, 1, none⟩, ⟨some 0, 2, none⟩]
theorem C11_two_parents_witness :
    s33.top = [("S".toList, 0)] ∧ s33.kids 0 = [("C".toList, 2)] ∧ s33.kids 1 = [] ∧ s33.parent 2 = some 0 ∧
    outErr (add U33 50 s33 (some 1) 2 none).2 = none ∧
    (add U33 50 s33 (some 1) 2 none).1.kids 0 = [("C".toList, 2)] ∧
    (add U33 50 s33 (some 1) 2 none).1.kids 1 = [("C".toList, 2)] ∧
    (add U33 50 s33 (some 1) 2 none).1.parent 2 = some 1 := by decide +kernel

/-- F14 + F33: with the pair top-level `Server-Tools` / `Server → Tools` in the forest, a child of the one is accepted by the
other and `get_variants(recursive=True)` still returns a variant twice. -/
def U14b := mkU [mkA "Server" "Server", mkA "Tools" "Server-Tools", mkA "ServerTools" "Server-Tools", mkA "V" "Server-Tools-V"]
def s14b := run U14b 50 [⟨none, 0, none⟩, ⟨some 0, 1, none⟩, ⟨none, 2, none⟩, ⟨some 1, 3, none⟩, ⟨some 2, 3, none⟩]
theorem C11_twice_witness :
    s14b.kids 1 = [("V".toList, 3)] ∧ s14b.kids 2 = [("V".toList, 3)] ∧
    resOf (getVariants U14b s14b 50 none none [] true) = some [0, 1, 2, 3, 3] := by decide +kernel

/-- F14: top-level `ServerTools` with UID `Server-Tools` next to `Server → Tools`: all three adds accepted, two variants
share a UID and `ci["Server-Tools"]` is the top-level one. -/
def U14 := mkU [mkA "Server" "Server", mkA "Tools" "Server-Tools", mkA "ServerTools" "Server-Tools"]
def s14 := run U14 50 [⟨none, 0, none⟩, ⟨some 0, 1, none⟩, ⟨none, 2, none⟩]
theorem C11_dup_uid_witness :
    s14.top = [("Server".toList, 0), ("ServerTools".toList, 2)] ∧ s14.kids 0 = [("Tools".toList, 1)] ∧
    (U14 1).uid = (U14 2).uid ∧ resOf (getitem U14 s14 none (U14 1).uid) = some 2 := by decide +kernel

/-- F20: `A → {A → {C}, C}`: every UID is distinct, the full `Inv` holds, yet `ci["A-A-C"]` is the variant `A-C`. -/
def U20 := mkU [mkA "A" "A", mkA "A" "A-A", mkA "C" "A-C", mkA "C" "A-A-C"]
def s20 := run U20 50 [⟨none, 0, none⟩, ⟨some 0, 1, none⟩, ⟨some 0, 2, none⟩, ⟨some 1, 3, none⟩]
theorem C11_shadow_witness :
    s20.kids 0 = [("A".toList, 1), ("C".toList, 2)] ∧ s20.kids 1 = [("C".toList, 3)] ∧
    resOf (getitem U20 s20 none "A-A-C".toList) = some 2 ∧ (U20 2).uid = "A-C".toList := by decide +kernel

/-- F21: `'self'` returns the receiver although it lacks the requested arch; on the top-level container it raises. -/
theorem C11_self_witness :
    resOf (getVariants U13 s13 50 (some 0) (some "ppc64le".toList) [selfT] false) = some [0] ∧
    "ppc64le".toList ∉ (U13 0).arches ∧
    (match getVariants U13 s13 50 none none [selfT] false with | .error .attributeError => true | _ => false) = true := by
  decide +kernel

/-! ### non-vacuity: a history of four calls (one refused: foreign arch) on fresh objects, its explicit states, and the
hypotheses of the `_partial` theorems on the resulting three-level forest -/
def Uex := mkU [mkA "A" "A" ["x86_64", "i386"], mkA "B" "A-B", mkA "C" "A-B-C", mkA "X" "A-X" ["ppc64le"]]
def opsEx : List Op := [⟨none, 0, none⟩, ⟨some 0, 1, none⟩, ⟨some 0, 3, none⟩, ⟨some 1, 2, none⟩]
def sEx1 : State := ⟨fun j => if j = 0 then none else none, fun _ => [], [("A".toList, 0)]⟩
def sEx2 : State :=
  ⟨fun j => if j = 1 then some 0 else if j = 0 then none else none,
   fun j => if j = 0 then [("B".toList, 1)] else [], [("A".toList, 0)]⟩
def sEx : State :=
  ⟨fun j => if j = 2 then some 1 else if j = 1 then some 0 else if j = 0 then none else none,
   fun j => if j = 1 then [("C".toList, 2)] else if j = 0 then [("B".toList, 1)] else [],
   [("A".toList, 0)]⟩

theorem ex_refused : outErr (add Uex 50 sEx2 (some 0) 3 none).2 = some .valueError := by decide +kernel
theorem ex_step1 : step Uex 50 State.empty ⟨none, 0, none⟩ = sEx1 := rfl
theorem ex_step2 : step Uex 50 sEx1 ⟨some 0, 1, none⟩ = sEx2 := rfl
/-- the refused call (foreign arch) returns the very state it started from: `C11_refused` -/
theorem ex_step3 : step Uex 50 sEx2 ⟨some 0, 3, none⟩ = sEx2 := by
  have := ex_refused
  unfold step
  cases h : (add Uex 50 sEx2 (some 0) 3 none).2 with
  | ok u => rw [h] at this; simp [outErr] at this
  | error e => exact C11_refused Uex 50 sEx2 (some 0) 3 none e h
theorem ex_step4 : step Uex 50 sEx2 ⟨some 1, 2, none⟩ = sEx := rfl
theorem ex_run : run Uex 50 opsEx = sEx := by
  show step Uex 50 (step Uex 50 (step Uex 50 (step Uex 50 State.empty _) _) _) _ = sEx
  rw [ex_step1, ex_step2, ex_step3, ex_step4]

theorem ex_ok : OkRun Uex 50 State.empty opsEx := by
  unfold opsEx OkRun
  refine ⟨⟨?_, (fun _ k hk => by cases hk)⟩, ?_⟩
  · rintro c k h; cases c <;> simp [State.kidsOf, State.empty] at h
  rw [ex_step1]; unfold OkRun
  refine ⟨⟨?_, (fun h => by cases h)⟩, ?_⟩
  · rintro c k h; cases c <;> simp [State.kidsOf, sEx1] at h
  rw [ex_step2]; unfold OkRun
  refine ⟨⟨?_, (fun h => by cases h)⟩, ?_⟩
  · rintro c k h
    cases c with
    | none => simp [State.kidsOf, sEx2] at h
    | some i => simp only [State.kidsOf, sEx2] at h; split at h <;> simp at h
  rw [ex_step3]; unfold OkRun
  refine ⟨⟨?_, (fun h => by cases h)⟩, trivial⟩
  · rintro c k h
    cases c with
    | none => simp [State.kidsOf, sEx2] at h
    | some i => simp only [State.kidsOf, sEx2] at h; split at h <;> simp at h

/-- the full invariant on the example forest, through `C11_reachable_partial` -/
theorem ex_inv : Inv Uex sEx := by
  have := C11_reachable_partial Uex 50 opsEx ex_ok
  rwa [ex_run] at this

theorem ex_desc (a x : Nat) (h : Desc sEx (some a) x) : (a = 0 ∧ (x = 1 ∨ x = 2)) ∨ (a = 1 ∧ x = 2) := by
  generalize hc : some a = c at h
  induction h generalizing a with
  | kid hm =>
    subst hc
    simp only [State.kidsOf, sEx] at hm
    split at hm
    · simp at hm; omega
    · split at hm
      · simp at hm; omega
      · simp at hm
  | deep hm _ ih =>
    subst hc
    simp only [State.kidsOf, sEx] at hm
    split at hm
    · simp at hm; obtain ⟨-, rfl⟩ := hm
      rcases ih 2 rfl with h1 | h1 <;> omega
    · split at hm
      · simp at hm; obtain ⟨-, rfl⟩ := hm
        rcases ih 1 rfl with h1 | h1 <;> omega
      · simp at hm

/-- the hypotheses of `C11_findable_inv_partial` hold for the depth-3 variant `A-B-C` of the example … -/
example : getitem Uex sEx none (Uex 2).uid = .ok 2 := by
  refine C11_findable_inv_partial Uex sEx ex_inv "A".toList 0 2 (by simp [sEx]) (Or.inr ?_) ?_ ?_ ?_
  · exact Desc.deep (k := "B".toList) (w := 1) (by simp [State.kidsOf, sEx]) (Desc.kid (k := "C".toList) (by simp [State.kidsOf, sEx]))
  · intro h; revert h; decide +kernel
  · intro k' t' hm; simp [sEx] at hm; obtain ⟨-, rfl⟩ := hm; decide +kernel
  · intro a hd kv hkv
    rcases ex_desc a 2 hd with ⟨rfl, -⟩ | ⟨rfl, -⟩
    · simp [sEx] at hkv; subst hkv; decide +kernel
    · simp [sEx] at hkv; subst hkv; decide +kernel
/-- … and the conclusion agrees with evaluation -/
example : resOf (getitem Uex sEx none "A-B-C".toList) = some 2 := by decide +kernel

/-- `C11_get_variants_strict_partial`: its hypothesis holds on the example (all six filters below would do) -/
example : ((([0, 1, 2] : List Nat).map fun x => (Uex x).uid).Nodup)
    ∧ resOf (getVariants Uex sEx 50 none none [] true) = some [0, 1, 2]
    ∧ resOf (getVariants Uex sEx 50 none (some "i386".toList) [] true) = some [0]
    ∧ resOf (getVariants Uex sEx 50 none (some srcA) ["variant".toList] true) = some [0, 1, 2] := by decide +kernel

/-- the hypotheses of `C11_get_variants_strict_dashless_partial` (hence `TopApart`) hold on the example -/
example : ∀ kv ∈ sEx.top, '-' ∉ (Uex kv.2).uid := by
  intro kv hkv; simp [sEx] at hkv; subst hkv; decide +kernel
example (res : List Nat) (hr : getVariants Uex sEx 50 none (some srcA) [] true = .ok res) : res.Nodup :=
  (C11_get_variants_strict_dashless_partial Uex sEx ex_inv
    (by intro kv hkv; simp [sEx] at hkv; subst hkv; decide +kernel) 50 _ _ _ res hr).2

/-- `C11_refused` is not vacuous: `ex_step3` above is an instance (a refused call on a two-variant forest). -/
example : (add Uex 50 sEx2 (some 0) 3 none).1 = sEx2 := ex_step3

/-- `UidsApart` is inhabited by an infinite universe with parents and children: object `2n` is the top-level variant
`a…a` (n+1 letters), object `2n+1` its child `a…a-b`. -/
def Upar (i : Nat) : Attrs :=
  if i % 2 = 0 then ⟨List.replicate (i / 2 + 1) 'a', List.replicate (i / 2 + 1) 'a', ['n'], "variant".toList, [['x']]⟩
  else ⟨['b'], List.replicate (i / 2 + 1) 'a' ++ ['-', 'b'], ['n'], "addon".toList, [['x']]⟩

example : UidsApart Upar := by
  have nodash : ∀ n, '-' ∉ List.replicate n 'a' := by
    intro n h; have := (List.mem_replicate.mp h).2; revert this; decide
  constructor
  · intro i j h
    unfold Upar at h
    by_cases hi : i % 2 = 0 <;> by_cases hj : j % 2 = 0 <;> simp only [hi, hj, if_true, if_false] at h
    · have := congrArg List.length h; simp at this; omega
    · exfalso; apply nodash (i / 2 + 1); rw [h]; simp
    · exfalso; apply nodash (j / 2 + 1); rw [← h]; simp
    · have := congrArg List.length h; simp at this; omega
  · intro i h
    have ha : 'a' ∈ Str.removeChar '-' (Upar i).uid := by
      unfold Upar Str.removeChar
      by_cases hi : i % 2 = 0 <;> simp [hi]
    rw [h] at ha; simp at ha
/-- and the all-histories theorem applies to it: e.g. top-level `a`, its child `a-b`, then the child handed to the top level
and to another parent – both refused, the forest keeps the full invariant -/
example : Inv Upar (run Upar 50 [⟨none, 0, none⟩, ⟨some 0, 1, none⟩, ⟨none, 1, none⟩, ⟨some 2, 1, none⟩]) :=
  C11_reachable_distinct_partial Upar (by
    have nodash : ∀ n, '-' ∉ List.replicate n 'a' := by
      intro n h; have := (List.mem_replicate.mp h).2; revert this; decide
    constructor
    · intro i j h
      unfold Upar at h
      by_cases hi : i % 2 = 0 <;> by_cases hj : j % 2 = 0 <;> simp only [hi, hj, if_true, if_false] at h
      · have := congrArg List.length h; simp at this; omega
      · exfalso; apply nodash (i / 2 + 1); rw [h]; simp
      · exfalso; apply nodash (j / 2 + 1); rw [← h]; simp
      · have := congrArg List.length h; simp at this; omega
    · intro i h
      have ha : 'a' ∈ Str.removeChar '-' (Upar i).uid := by
        unfold Upar Str.removeChar
        by_cases hi : i % 2 = 0 <;> simp [hi]
      rw [h] at ha; simp at ha) 50 _ (by intro o ho; simp at ho; rcases ho with rfl | rfl | rfl | rfl <;> rfl)
example : (run Upar 50 [⟨none, 0, none⟩, ⟨some 0, 1, none⟩, ⟨none, 1, none⟩, ⟨some 2, 1, none⟩]).kids 0 = [(['b'], 1)]
    ∧ (run Upar 50 [⟨none, 0, none⟩, ⟨some 0, 1, none⟩, ⟨none, 1, none⟩, ⟨some 2, 1, none⟩]).top = [(['a'], 0)] := by
  decide +kernel

/-! ## `del container[name]` (`VariantBase.__delitem__`, `Model/ForestDel.lean`)

`del` walks down the dashed name – split at the FIRST dash, no comparison with UIDs (unlike `__getitem__`) – and removes ONE
dict entry.  It does not reset the removed object's parent pointer and does not touch its children dict. -/

/-- Both invariants survive every `del` – successful or raising, plain or dashed name, any container: the unconditional `InvW`
and the full `Inv`, the latter with NO hypothesis on the call (every clause of `Inv` is about entries that are present; the
stale parent pointer of the removed object is outside what `Inv` constrains). -/
theorem C11_del_inv (U : Nat → Attrs) (s : State) (c : Cont) (name : Str) :
    (InvW U s → InvW U (delitem s c name).1) ∧ (Inv U s → Inv U (delitem s c name).1) := by
  rcases delitem_cases s c name with ⟨-, h⟩ | ⟨d, k, v, -, h⟩
  · rw [h]; exact ⟨id, id⟩
  · rw [h]; exact ⟨fun hI => hI.erased d k, fun hI => hI.erased d k⟩

/-- A `del` that raises raises `KeyError` – never a recursion or unpacking error – and has changed NOTHING (children dicts
and parent pointers); a plain name that is no key raises, and so does a dashed name whose first segment is no key. -/
theorem C11_del_missing_keyerror (s : State) (c : Cont) (name : Str) :
    (∀ e, (delitem s c name).2 = .error e → e = .keyError ∧ (delitem s c name).1 = s) ∧
    (dget name (s.kidsOf c) = none → '-' ∉ name → delitem s c name = (s, .error .keyError)) ∧
    (∀ head tail, name = head ++ '-' :: tail → '-' ∉ head → dget name (s.kidsOf c) = none → dget head (s.kidsOf c) = none →
      delitem s c name = (s, .error .keyError)) := by
  refine ⟨?_, ?_, ?_⟩
  · intro e he
    rcases delitem_cases s c name with ⟨-, h⟩ | ⟨d, k, v, -, h⟩
    · rw [h] at he ⊢; cases he; exact ⟨rfl, rfl⟩
    · rw [h] at he; cases he
  · intro hn hd
    unfold delitem
    rw [delitemF_succ, hn]
    simp [hd]
  · intro head tail hname hhead hn hh
    unfold delitem
    rw [delitemF_succ, hn, hname, split1_dash head tail hhead, ← hname]
    have : name.contains '-' = true := by rw [hname]; exact contains_dash head tail
    rw [this]; simp [hh]

/-- Frame: a successful `del c[name]` designates an entry `k ↦ v` of a dict `d` at or below `c` (`d = c`, `k = name` when
`name` is a key of `c`) and afterwards that dict is the old one without the entry – same order –, every other dict (the
removed object's own children dict included, when `some v ≠ d`) and EVERY parent pointer (the removed object's included) are
what they were. -/
theorem C11_del_frame (s : State) (c : Cont) (name : Str) (h : (delitem s c name).2 = .ok ()) :
    ∃ d k v, delResolve s c name = .ok (d, k, v) ∧ dget k (s.kidsOf d) = some v ∧
      ((d = c ∧ k = name) ∨ ∃ w, d = some w ∧ Desc s c w) ∧
      (delitem s c name).1.kidsOf d = derase k (s.kidsOf d) ∧
      (∀ x, x ≠ d → (delitem s c name).1.kidsOf x = s.kidsOf x) ∧
      (delitem s c name).1.parent = s.parent ∧
      (∀ k' w, (k', w) ∈ s.kidsOf d → k' ≠ k → (k', w) ∈ (delitem s c name).1.kidsOf d) := by
  rcases delitem_cases s c name with ⟨-, h'⟩ | ⟨d, k, v, hr, h'⟩
  · rw [h'] at h; cases h
  · have hok := delResolveF_ok hr
    refine ⟨d, k, v, hr, hok.1, hok.2, ?_, ?_, ?_, ?_⟩
    · rw [h', erased_kidsOf]; simp
    · intro x hx; rw [h', erased_kidsOf]; simp [hx]
    · rw [h']; exact erased_parent s d k
    · intro k' w hm hne; rw [h', erased_kidsOf]; simp only [if_true]; exact mem_derase_of_ne hm hne

/-- After a successful `del` that designated `k ↦ v` in `d`, on a forest satisfying the full `Inv`: `v` sits in no dict any
more, and neither `v` nor anything below it (its children dict is untouched: `C11_del_frame`) is reachable from the top-level
container, returned by ANY `get_variants` on it, or returned by ANY lookup `ci[…]`; the key is gone from `d`.
(`Inv` is needed: under F33 an object may sit in two dicts and `del` removes one entry.) -/
theorem C11_del_removes_subtree (U : Nat → Attrs) (s : State) (hI : Inv U s) (c : Cont) (name : Str) (d : Cont) (k : Str) (v : Nat)
    (hr : delResolve s c name = .ok (d, k, v)) :
    ¬ Placed (delitem s c name).1 v ∧ dget k ((delitem s c name).1.kidsOf d) = none ∧
    ∀ x, (x = v ∨ Desc (delitem s c name).1 (some v) x) →
      ¬ Desc (delitem s c name).1 none x ∧
      (∀ fuel arch types recursive res, getVariants U (delitem s c name).1 fuel none arch types recursive = .ok res → x ∉ res) ∧
      (∀ nm, getitem U (delitem s c name).1 none nm ≠ .ok x) := by
  have h' : delitem s c name = (erased s d k, .ok ()) := by
    rcases delitem_cases s c name with ⟨he, -⟩ | ⟨d', k', v', hr', h'⟩
    · rw [he] at hr; cases hr
    · rw [hr'] at hr; cases hr; exact h'
  have hmem : (k, v) ∈ s.kidsOf d := dget_mem (delResolveF_ok hr).1
  have hI' : Inv U (erased s d k) := hI.erased d k
  rw [h']
  have hnp : ¬ Placed (erased s d k) v := by
    rintro ⟨x, k', hm⟩
    have hx : x = d := by
      have h1 := hI.parent x k' v (erased_sub hm)
      have h2 := hI.parent d k v hmem
      rw [h1] at h2; exact h2
    subst hx
    rw [erased_kidsOf] at hm
    simp only [if_true] at hm
    exact val_not_mem_derase (hI.weak.keys x) (hI.once x) hmem (List.mem_map.mpr ⟨(k', v), hm, rfl⟩)
  have hnd : ∀ x, (x = v ∨ Desc (erased s d k) (some v) x) → ¬ Desc (erased s d k) none x := by
    intro x hx htop
    have hv : Desc (erased s d k) none v := by
      rcases hx with rfl | hx
      · exact htop
      · exact hx.up hI' v rfl htop
    obtain ⟨d', k', hm, -⟩ := hv.last
    exact hnp ⟨d', k', hm⟩
  refine ⟨hnp, ?_, ?_⟩
  · rw [erased_kidsOf]; simp only [if_true]; exact dget_derase_self (hI.weak.keys d)
  · intro x hx
    refine ⟨hnd x hx, ?_, ?_⟩
    · intro fuel arch types recursive res hres hmem'
      rcases C11_get_variants_sound U _ hI'.weak fuel none arch types recursive res hres x hmem' with ⟨h1, -⟩ | ⟨h1, -⟩
      · cases h1
      · exact hnd x hx h1
    · intro nm hg
      exact hnd x hx (getitemF_desc hg)

/-- Every state reachable from the empty forest by ANY history of `add` calls (accepted or refused) and `del` statements
(successful or raising) satisfies `InvW`. -/
theorem C11_reachable_with_del (U : Nat → Attrs) (fuel : Nat) (ops : List HOp) : InvW U (hrun U fuel ops) := by
  unfold hrun
  suffices h : ∀ s, InvW U s → InvW U (ops.foldl (hstep U fuel) s) from h _ (InvW.empty U)
  induction ops with
  | nil => intro s h; exact h
  | cons o os ih =>
    intro s h
    refine ih _ ?_
    cases o with
    | add a => exact h.add fuel a.c a.v a.key
    | del c name => exact (C11_del_inv U s c name).1 h

/-- every `add` of the history satisfies `AddOk` in the state it is made in; nothing is asked of the `del`s -/
def OkHRun (U : Nat → Attrs) (fuel : Nat) : State → List HOp → Prop
  | _, [] => True
  | s, .add a :: os => AddOk U s a.c a.v a.key ∧ OkHRun U fuel (hstep U fuel s (.add a)) os
  | s, .del c name :: os => OkHRun U fuel (hstep U fuel s (.del c name)) os

/-- …and the full `Inv` when no `add` hands over an object that is filed elsewhere AT THAT MOMENT (the hypothesis of
`C11_reachable_partial`; F33/F29).  An object removed by `del` is filed nowhere, so it may be re-added anywhere. -/
theorem C11_reachable_with_del_partial (U : Nat → Attrs) (fuel : Nat) (ops : List HOp)
    (hf : OkHRun U fuel State.empty ops) : Inv U (hrun U fuel ops) := by
  unfold hrun
  have key : ∀ (ops : List HOp) (s : State), Inv U s → OkHRun U fuel s ops → Inv U (ops.foldl (hstep U fuel) s) := by
    intro ops
    induction ops with
    | nil => intro s h _; exact h
    | cons o os ih =>
      intro s h hf
      cases o with
      | add a => exact ih _ (h.add fuel a.c a.v a.key hf.1) hf.2
      | del c name => exact ih _ ((C11_del_inv U s c name).2 h) hf
  exact key ops _ (Inv.empty U) hf

/-! ### witnesses and non-vacuity for `del` -/

/-- F48 (finding): `del` and `__getitem__` resolve a dashed name DIFFERENTLY.  With top-level `ServerTools` (UID `Server-Tools`)
next to `Server → Tools` (the F14 forest), `ci["Server-Tools"]` is the top-level variant, but `del ci["Server-Tools"]` removes
the CHILD `Tools` of `Server`; the top-level variant is still there and still what `ci["Server-Tools"]` returns. -/
theorem C11_del_other_witness :
    resOf (getitem U14 s14 none "Server-Tools".toList) = some 2 ∧
    resOf (delResolve s14 none "Server-Tools".toList) = some (some 0, "Tools".toList, 1) ∧
    outErr (delitem s14 none "Server-Tools".toList).2 = none ∧
    (delitem s14 none "Server-Tools".toList).1.top = [("Server".toList, 0), ("ServerTools".toList, 2)] ∧
    (delitem s14 none "Server-Tools".toList).1.kids 0 = [] ∧
    resOf (getitem U14 (delitem s14 none "Server-Tools".toList).1 none "Server-Tools".toList) = some 2 := by decide +kernel

/-- F48, smallest form: a single top-level variant `ServerTools` with UID `Server-Tools`: `ci["Server-Tools"]` finds it,
`del ci["Server-Tools"]` raises KeyError. -/
def U48 := mkU [mkA "ServerTools" "Server-Tools"]
def s48 := run U48 50 [⟨none, 0, none⟩]
theorem C11_del_uid_keyerror_witness :
    s48.top = [("ServerTools".toList, 0)] ∧ resOf (getitem U48 s48 none "Server-Tools".toList) = some 0 ∧
    outErr (delitem s48 none "Server-Tools".toList).2 = some .keyError := by decide +kernel

/-- F48 in the other direction (with F27): on `A → {A → {C}, C}` the name `A-A-C` is looked up as the sibling `A-C` (object 2) but
deleted as the real `A-A-C` (object 3). -/
theorem C11_del_shadow_witness :
    resOf (getitem U20 s20 none "A-A-C".toList) = some 2 ∧
    resOf (delResolve s20 none "A-A-C".toList) = some (some 1, "C".toList, 3) := by decide +kernel

/-- The parent pointer of a removed variant is NOT reset (`S → C`, `del S["C"]`: `C.parent` is still `S`, `S` has no children);
`add` overwrites the pointer before it validates, so the stale value is never validated against: re-adding `C` to `S` is
accepted and gives back the forest before the `del`; a refused re-add elsewhere (top level: UID does not align) restores the
STALE pointer. -/
theorem C11_del_stale_parent_example :
    outErr (delitem s19 (some 0) "C".toList).2 = none ∧
    (delitem s19 (some 0) "C".toList).1.kids 0 = [] ∧ (delitem s19 (some 0) "C".toList).1.parent 1 = some 0 ∧
    outErr (add U19 50 (delitem s19 (some 0) "C".toList).1 (some 0) 1 none).2 = none ∧
    (add U19 50 (delitem s19 (some 0) "C".toList).1 (some 0) 1 none).1.kids 0 = [("C".toList, 1)] ∧
    outErr (add U19 50 (delitem s19 (some 0) "C".toList).1 none 1 none).2 = some .valueError ∧
    (add U19 50 (delitem s19 (some 0) "C".toList).1 none 1 none).1.parent 1 = some 0 := by decide +kernel

/-- `C11_del_removes_subtree` on the example forest `A → B → C`: `del ci["A-B"]` designates `B` in `A`'s dict (hypotheses:
`ex_inv` and this evaluation), and afterwards `get_variants` on the top returns `A` only, `ci["A-B-C"]` raises. -/
example : delResolve sEx none "A-B".toList = .ok (some 0, "B".toList, 1) := rfl
example : ∀ nm, getitem Uex (delitem sEx none "A-B".toList).1 none nm ≠ .ok 2 :=
  fun nm => ((C11_del_removes_subtree Uex sEx ex_inv none "A-B".toList (some 0) "B".toList 1 rfl).2.2 2
    (Or.inr (Desc.kid (k := "C".toList) (by decide +kernel)))).2.2 nm
example : resOf (getVariants Uex (delitem sEx none "A-B".toList).1 50 none none [] true) = some [0] ∧
    outErr (delitem (delitem sEx none "A-B".toList).1 none "A-B".toList).2 = some .keyError := by decide +kernel
/-- a history with deletes: add, add, del, re-add, del of a missing name -/
example : OkHRun Uex 50 State.empty [.add ⟨none, 0, none⟩, .del none "A".toList, .del none "A".toList] := by
  refine ⟨⟨?_, (fun _ k hk => by cases hk)⟩, trivial⟩
  rintro c k h; cases c <;> simp [State.kidsOf, State.empty] at h

end PM.Forest
