import ProductMD.Proofs.C08Images
import ProductMD.Proofs.C08CI
/-!
# C08 - serialisation is canonical: the bytes written depend on the content only

Python's unordered containers (dicts, sets) are lists in the model, in insertion / iteration order.  "The same content"
is stated per format as a relation `≈` that allows EVERY rearrangement of every unordered container (and nothing else);
the theorems say `x ≈ y → dumps x = ok b → dumps y = ok b`.  Quantifying over all rearrangements covers every
construction order, every dict/set iteration order, hence every `PYTHONHASHSEED`.  (Which exception a dump that FAILS
raises can depend on the order - the first offending element wins - so the statements are about the bytes of successful
dumps; `isOk` is order-independent as well.)

Full statement (properties.jsonl C08): for all valid contents of each format, all permutations of the construction order of
their unordered parts, all hash seeds, any number of repeated dumps: same bytes; JSON keys sorted, 4-space indentation;
treeinfo sections and options sorted; caller-ordered lists keep their order.
-/
namespace PM
open PyVal

/-! ## the generic JSON layer -/

/-- every JSON format: documents that are the same content (`JEq`: equal up to the order of dict entries at every level,
lists in the same order) are written as the same bytes -/
theorem C08_json_canonical (a b : PyVal) (h : JEq a b) : JsonText.dumps a = JsonText.dumps b := h.dumps_eq

/-- in particular any permutation of the entries of the top-level dict (distinct keys) -/
theorem C08_json_perm (l l' : List (Str × PyVal)) (hp : l.Perm l') (hd : (l.map (·.1)).Nodup) :
    JsonText.dumps (.dict l) = JsonText.dumps (.dict l') := (JEq.dict_of_perm hp hd).dumps_eq

example : JsonText.dumps (.dict [("b".toList, .int 1), ("a".toList, .dict [("y".toList, .none), ("x".toList, .list [.int 2, .int 1])])])
    = JsonText.dumps (.dict [("a".toList, .dict [("x".toList, .list [.int 2, .int 1]), ("y".toList, .none)]), ("b".toList, .int 1)]) := by
  decide

/-! ## images -/
namespace Img
open PM.PyOps PM.Spec

/-- the document as a function of the table of written images -/
def docOf (comp : PyVal) (out : OutCells) : PyVal :=
  .dict [(L "header", PyVal.dict [(L "type", .str Gen.HEADER_TYPE_Images), (L "version", .str currentVersion)]),
         (L "payload", .dict [(L "images", out.toPy), (L "compose", comp)])]

theorem serialize_snd (s : ImgState) : (serialize s).2 =
    (headerValidate (.str currentVersion)).bind fun _ => s.compose.serialize.bind fun comp =>
      (serializeCells s.cells []).bind fun out => .ok (docOf comp out) := rfl

/-- `dump` after `serialize`: the encoder's refusal of foreign objects, then the text -/
def finish (r : Except Err PyVal) : Except Err Str :=
  match validateClass "images.Images" [] with
  | .error e => .error e
  | .ok () => match r with
    | .ok doc => if jsonSafe doc then .ok (JsonText.dumps doc) else .error .typeError
    | .error e => .error e

theorem dumps_snd (s : ImgState) : (dumps s).2 = finish (serialize s).2 := by
  unfold dumps finish
  cases validateClass "images.Images" [] with
  | error e => rfl
  | ok u =>
    cases u
    rcases h : serialize s with ⟨s', r⟩
    cases r <;> rfl

/-- the same manifest content: equal compose section, and the same filings `(variant, arch, image content)` up to
rearrangement - this allows any order of the variant dict, of every arch dict, of every image set, and any order of the
entries of dict-valued image attributes (`checksums`).  `header.version` is NOT content: the writer overwrites it. -/
structure Same (x y : ImgState) : Prop where
  compose : x.compose = y.compose
  filings : PermR FSame (triples x.cells) (triples y.cells)

theorem Same.refl (x : ImgState) : Same x x := ⟨rfl, PermR.refl FSame.refl _⟩

/-- rearranging the variant dict, every arch dict and every image set (lists of the model) gives the same content -/
theorem Same.of_perm_variants (x : ImgState) (cells' : Cells) (h : x.cells.Perm cells') : Same x { x with cells := cells' } := by
  refine ⟨rfl, PermR.of_perm FSame.refl ?_⟩
  simp only [triples_eq]
  exact h.flatMap_right _

theorem docOf_jeq (comp : PyVal) {o o' : OutCells} (h : JEq o.toPy o'.toPy) : JEq (docOf comp o) (docOf comp o') := by
  unfold docOf
  refine .dict (.cons _ (.refl _) (.cons _ (.dict (.cons _ h (.cons _ (.refl _) .nil)) ?_) .nil)) ?_
  · simp only [List.map_cons, List.map_nil]; decide
  · simp only [List.map_cons, List.map_nil]; decide

end Img
open Img PM.PyOps PM.Spec in
/-- **C08 (images).**  Two manifests with the same content are written as the same bytes, whatever the order in which
variants, arches and images were added, provided no two images of one cell share a path (the per-cell sort is by path
only; see `C08_images_equal_paths_witness` for what happens otherwise).
Stronger than the `ok b → ok b` form: as soon as the writer accepts every image of `x`, the complete results agree. -/
theorem C08_perm_images (x y : Img.ImgState) (h : Img.Same x y) (hd : DistinctPaths (triples x.cells))
    (o : OutCells) (hx : serializeCells x.cells [] = .ok o) : (dumps y).2 = (dumps x).2 := by
  have vx := serializeCells_ok_valid _ _ _ hx
  have vtx := triples_valid vx
  have vty : ∀ t ∈ triples y.cells, t.2.2.validate = .ok () := by
    intro t ht
    obtain ⟨t0, ht0, hs⟩ := h.filings.mem_right t ht
    rw [← hs.2.2.validate_eq]
    exact vtx t0 ht0
  have vy := valid_of_triples vty
  rw [dumps_snd, dumps_snd, serialize_snd, serialize_snd, serializeCells_eq _ _ vx, serializeCells_eq _ _ vy, h.compose]
  cases headerValidate (.str currentVersion) with
  | error e => rfl
  | ok u =>
    cases hc : y.compose.serialize with
    | error e => rfl
    | ok comp =>
      simp only [Except.bind, finish]
      have hj := docOf_jeq comp (outFold_jeq h.filings hd)
      rw [jsonSafe_jeq hj, hj.dumps_eq]

open Img PM.PyOps PM.Spec in
/-- the form of the property statement: the same bytes -/
theorem C08_perm_images_bytes (x y : Img.ImgState) (h : Img.Same x y) (hd : DistinctPaths (triples x.cells)) (b : Str)
    (hx : (dumps x).2 = .ok b) : (dumps y).2 = .ok b := by
  cases hs : serializeCells x.cells [] with
  | ok o => rw [C08_perm_images x y h hd o hs]; exact hx
  | error e =>
    exfalso
    rw [dumps_snd, serialize_snd, hs] at hx
    unfold finish at hx
    revert hx
    generalize validateClass "images.Images" [] = r1
    generalize headerValidate (.str currentVersion) = r2
    generalize x.compose.serialize = r3
    intro hx
    cases r1 with
    | error e => simp at hx
    | ok u =>
      cases u
      cases r2 with
      | error e => simp [Except.bind] at hx
      | ok u =>
        cases r3 with
        | error e => simp [Except.bind] at hx
        | ok c => simp [Except.bind] at hx

open Img PM.PyOps PM.Spec in
/-- **C08 repeat (images).**  `dumps` changes the object (`header.version` becomes the current version) but not what the
next `dumps` writes. -/
theorem C08_repeat_images (s : Img.ImgState) : (dumps (dumps s).1).2 = (dumps s).2 := by
  have h1 : (dumps s).1.compose = s.compose ∧ (dumps s).1.cells = s.cells := by
    unfold dumps
    cases validateClass "images.Images" [] with
    | error e => exact ⟨rfl, rfl⟩
    | ok u =>
      cases u
      rcases h : serialize s with ⟨s', r⟩
      have : s' = { s with version := .str currentVersion } := by
        have := congrArg Prod.fst h
        simpa [serialize] using this.symm
      subst this
      cases r <;> exact ⟨rfl, rfl⟩
  rw [dumps_snd, dumps_snd, serialize_snd, serialize_snd, h1.1, h1.2]

open Img PM.PyOps PM.Spec in
/-- what the object is afterwards: only the header version moved -/
theorem C08_repeat_images_state (s : Img.ImgState) :
    (dumps s).1 = s ∨ (dumps s).1 = { s with version := .str currentVersion } := by
  unfold dumps
  cases validateClass "images.Images" [] with
  | error e => exact .inl rfl
  | ok u =>
    cases u
    rcases h : serialize s with ⟨s', r⟩
    have : s' = { s with version := .str currentVersion } := by
      have := congrArg Prod.fst h
      simpa [serialize] using this.symm
    subst this
    cases r <;> exact .inr rfl

/-! ## composeinfo -/
namespace CI

/-- the same compose description: sections equal, variant forests equal up to the order of every child dict (at every
level), of every arch set and of every path table (`VEq`/`LEq`, `Proofs/C08CI.lean`) -/
structure Same (x y : ComposeInfo) : Prop where
  compose : x.compose = y.compose
  release : x.release = y.release
  base : x.base = y.base
  variants : LEq x.variants y.variants

theorem Same.refl (x : ComposeInfo) : Same x x := ⟨rfl, rfl, rfl, LEq.refl _⟩

/-- model domain: the children of a container are a Python dict, so their keys are pairwise distinct (at every level) -/
def DictKeysTop (x : ComposeInfo) : Prop := (x.variants.map Variant.key).Nodup ∧ DictKeysL x.variants

/-- any rearrangement of the top-level variants is the same content -/
theorem Same.of_perm (x : ComposeInfo) (vs : List Variant) (h : x.variants.Perm vs) : Same x { x with variants := vs } :=
  ⟨rfl, rfl, rfl, LEq.of_perm h⟩

theorem serialize_of_variants (x y : ComposeInfo) (h : Same x y) (d : Flat) (hx : variantsSer x.variants = .ok d)
    (hy : variantsSer y.variants = .ok d) : serialize y = serialize x := by
  unfold serialize
  rw [← h.compose, ← h.release, ← h.base, hx, hy]

end CI
open CI in
/-- **C08 (composeinfo).**  The same content is written as the same bytes, whatever the order in which variants (at any
level), arches and paths were added. -/
theorem C08_perm_composeinfo (x y : CI.ComposeInfo) (h : CI.Same x y) (hk : CI.DictKeysTop x) (b : Str)
    (hx : dumps x = .ok b) : dumps y = .ok b := by
  cases hv : variantsSer x.variants with
  | ok d =>
    have hy := variantsSer_leq h.variants hk.1 hk.2 d hv
    unfold dumps at hx ⊢
    rw [serialize_of_variants x y h d hv hy]
    exact hx
  | error e =>
    exfalso
    unfold dumps serialize at hx
    rw [hv] at hx
    revert hx
    generalize validateClass "composeinfo.ComposeInfo" [] = r0
    generalize validateClass "common.Header" (headerObj (.str currentVersion)) = r1
    generalize validateClass "composeinfo.Compose" (composeObj x.compose) = r2
    generalize validateClass "composeinfo.Release" (releaseObj x.release) = r3
    generalize (if x.release.isLayered then validateClass "composeinfo.BaseProduct" (baseObj x.base) else .ok ()) = r4
    intro hx
    cases r0 with
    | error e => simp at hx
    | ok u0 =>
      cases r1 with
      | error e => simp at hx
      | ok u1 =>
        cases r2 with
        | error e => simp at hx
        | ok u2 =>
          cases r3 with
          | error e => simp at hx
          | ok u3 =>
            cases r4 with
            | error e => simp at hx
            | ok u4 => simp at hx

open CI in
/-- whether a dump succeeds does not depend on the order either -/
theorem C08_perm_composeinfo_ok (x y : CI.ComposeInfo) (h : CI.Same x y) (hk : CI.DictKeysTop x) :
    isOk (dumps x) = true → isOk (dumps y) = true := by
  intro hx
  cases hd : dumps x with
  | error e => rw [hd] at hx; cases hx
  | ok b => rw [C08_perm_composeinfo x y h hk b hd]; rfl

end PM
